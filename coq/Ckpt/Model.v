(* Ckpt/Model.v — C14: checkpoints (backup / restore / purge).
   Hand-written model of:
     rockredis/rockredis.go   GetCheckpointDir, CheckpointSortNames.Less (+ sort.Sort on it),
                              GetLatestCheckpoint, purgeOldCheckpoint, isSameSSTFile,
                              restoreFromPath (the file plan), Backup / backupLoop / Restore /
                              IsLocalBackupOK / SetLatestSnapIndex / RestoreFromRemoteBackup (value level)
     strconv.ParseUint(s, 16, 64), strings.SplitN / Split on "-", filepath.Glob("*-*")
     common/util.go           CopyFileForHardLink, CopyFile (as file-system steps)
     node/state_machine.go    kvStoreSM.GetSnapshot / RestoreFromSnapshot / UpdateSnapshotState
                              (thin wrappers: Backup+WaitReady / Restore / SetLatestSnapIndex)
   The value level is parametric in what a write does: a write step carries the value it
   produces (an opaque id); everything about checkpoints is computed here.
   sort.Sort is modelled by the insertion sort Go runs for at most 12 elements; for more elements Go
   uses pdqsort, which returns the same list whenever Less is a strict total order on the listing.
   No proofs in this file. *)
From ZV Require Export Common.Bytes.
From ZV Require Import Ckpt.Consts.
Open Scope N_scope.

(* ---------- generic helpers ---------- *)

Fixpoint has_prefix (p s : bytes) : bool :=
  match p, s with
  | [], _ => true
  | x :: p', y :: s' => (x =? y) && has_prefix p' s'
  | _ :: _, [] => false
  end.
Definition has_suffix (p s : bytes) : bool := has_prefix (rev p) (rev s).

Fixpoint mem_name (x : bytes) (l : list bytes) : bool :=
  match l with [] => false | y :: r => bytes_eqb x y || mem_name x r end.

(* ---------- checkpoint directory names: fmt.Sprintf("%016x-%016x", term, index) ---------- *)

Definition hex_digit (d : N) : N :=
  if d <? 10 then 48 + d else (if name_lower_hex then 87 else 55) + d.

(* the w low nibbles of v, most significant first (all of v when v < 16^w; term and index are uint64) *)
Fixpoint nibbles (w : nat) (v : N) : list N :=
  match w with
  | O => []
  | S w' => N.land (N.shiftr v (4 * N.of_nat w')) 15 :: nibbles w' v
  end.
Definition hexw (w : nat) (v : N) : bytes := map hex_digit (nibbles w v).

Definition enc_name (term index : N) : bytes :=
  hexw name_width term ++ name_sep :: hexw name_width index.

(* ---------- strconv.ParseUint(s, 16, 64): (value, ok). On a syntax error the value is 0, on a
   range error it is 2^64-1; the first error met from the left decides. ---------- *)

Definition max_u64 : N := 18446744073709551615.
Definition cutoff16 : N := 1152921504606846976.   (* 2^64 / 16 *)

Definition digit_val (c : N) : option N :=
  if (48 <=? c) && (c <=? 57) then Some (c - 48)
  else let lc := N.lor c 32 in
       if (97 <=? lc) && (lc <=? 122) then Some (lc - 97 + 10) else None.

Fixpoint parse_loop (acc : N) (s : bytes) : N * bool :=
  match s with
  | [] => (acc, true)
  | c :: r =>
      match digit_val c with
      | None => (0, false)
      | Some d =>
          if 16 <=? d then (0, false)
          else if cutoff16 <=? acc then (max_u64, false)
          else let n1 := acc * 16 + d in
               if max_u64 <? n1 then (max_u64, false) else parse_loop n1 r
      end
  end.

Definition parse_hex (s : bytes) : N * bool :=
  match s with [] => (0, false) | _ => parse_loop 0 s end.

(* ---------- splitting at "-" ---------- *)

Fixpoint split_dash (s : bytes) : option (bytes * bytes) :=   (* strings.SplitN(s, "-", 2) when a dash exists *)
  match s with
  | [] => None
  | c :: r => if c =? name_sep then Some ([], r)
              else match split_dash r with Some (a, b) => Some (c :: a, b) | None => None end
  end.
Definition has_dash (s : bytes) : bool := match split_dash s with Some _ => true | None => false end.
Fixpoint count_dash (s : bytes) : nat :=
  match s with [] => O | c :: r => if c =? name_sep then S (count_dash r) else count_dash r end.

(* ---------- CheckpointSortNames.Less: None = dbLog.Panicf ---------- *)

Definition less (l r : bytes) : option bool :=
  match split_dash l, split_dash r with
  | Some (lt, li), Some (rt, ri) =>
      match parse_hex lt with
      | (_, false) => None
      | (lterm, true) =>
          let lindex := fst (parse_hex li) in
          let rterm := fst (parse_hex rt) in
          let rindex := fst (parse_hex ri) in
          Some (if lterm =? rterm then lindex <? rindex else lterm <? rterm)
      end
  | _, _ => None
  end.

(* ---------- sort.Sort (insertion sort; the prefix is kept reversed, greatest first) ---------- *)

Fixpoint ins (x : bytes) (rp : list bytes) : option (list bytes) :=
  match rp with
  | [] => Some [x]
  | y :: r =>
      match less x y with
      | None => None
      | Some true => match ins x r with Some r' => Some (y :: r') | None => None end
      | Some false => Some (x :: rp)
      end
  end.

Fixpoint isort_aux (rp : list bytes) (l : list bytes) : option (list bytes) :=
  match l with
  | [] => Some rp
  | x :: t => match ins x rp with Some rp' => isort_aux rp' t | None => None end
  end.

Definition go_sort (l : list bytes) : option (list bytes) :=
  match isort_aux [] l with Some rp => Some (rev rp) | None => None end.

(* filepath.Glob(dir/"*-*") on a directory listing (names in byte order, as Glob returns them) *)
Definition glob_dash (names : list bytes) : list bytes := filter has_dash names.

(* ---------- purgeOldCheckpoint(keepNum, dir, latestSnapIndex): the names it removes ---------- *)

Definition after_dash (s : bytes) : bytes :=
  match split_dash s with Some (_, b) => b | None => [] end.

Fixpoint purge_loop (ps : list (bytes * bytes)) (latest : N) : list bytes :=
  match ps with
  | [] => []
  | (victim, look) :: r =>
      if negb (Nat.eqb (count_dash look) 1) then purge_loop r latest
      else match parse_hex (after_dash look) with
           | (_, false) => purge_loop r latest
           | (sindex, true) =>
               if latest <=? sindex then [] else victim :: purge_loop r latest
           end
  end.

Definition purge_removed (keep : nat) (names : list bytes) (latest : N) : list bytes :=
  let l := glob_dash names in
  if Nat.leb (length l) keep then []
  else match go_sort l with
       | None => []                      (* the panic of Less is recovered: nothing is removed *)
       | Some s => purge_loop (combine s (skipn keep s)) latest
       end.

Definition purge_left (keep : nat) (names : list bytes) (latest : N) : list bytes :=
  let rm := purge_removed keep names latest in
  filter (fun n => negb (mem_name n rm)) names.

(* ---------- GetLatestCheckpoint(dir, skipN, matchFunc) ---------- *)

Inductive latest_res := LPanic | LNone | LSome (n : bytes).

Fixpoint latest_scan (desc : list bytes) (skip : nat) (m : bytes -> bool) : latest_res :=
  match desc with
  | [] => LNone
  | c :: r => if m c then match skip with O => LSome c | S k => latest_scan r k m end
              else latest_scan r skip m
  end.

Definition latest_checkpoint (names : list bytes) (skip : nat) (m : bytes -> bool) : latest_res :=
  let l := glob_dash names in
  if Nat.leb (length l) skip then LNone
  else match go_sort l with
       | None => LPanic
       | Some s => latest_scan (rev s) skip m
       end.

(* ---------- the file level: directories, inodes, restoreFromPath's plan ---------- *)

Inductive fkind := KFile | KDir.
(* content identity of a file: size, id of the part before the last footer_check_bytes (0 when the
   file is not longer than that), id of the last min(size, footer_check_bytes) bytes *)
Record fmeta := { fm_kind : fkind; fm_size : N; fm_head : N; fm_tail : N }.
Definition dirent := (bytes * N)%type.                 (* name, inode *)
Record fsys := { fs_inodes : list (N * fmeta); fs_next : N }.

Fixpoint inode_meta (st : list (N * fmeta)) (i : N) : option fmeta :=
  match st with [] => None | (j, m) :: r => if j =? i then Some m else inode_meta r i end.
Fixpoint dir_lookup (d : list dirent) (n : bytes) : option N :=
  match d with [] => None | (m, i) :: r => if bytes_eqb m n then Some i else dir_lookup r n end.
Definition dir_remove (d : list dirent) (n : bytes) : list dirent :=
  filter (fun e => negb (bytes_eqb (fst e) n)) d.
Fixpoint dir_insert (d : list dirent) (e : dirent) : list dirent :=   (* kept in byte order of names *)
  match d with
  | [] => [e]
  | x :: r => if bytes_ltb (fst e) (fst x) then e :: d else x :: dir_insert r e
  end.

Definition is_log (n : bytes) : bool := has_prefix log_prefix n.
Definition is_sst (n : bytes) : bool := has_suffix sst_suffix n.
Definition is_regular (fs : fsys) (i : N) : bool :=
  match inode_meta (fs_inodes fs) i with Some m => match fm_kind m with KFile => true | KDir => false end | None => false end.

(* isSameSSTFile(ckFile, curFile) = nil *)
Definition same_sst (fs : fsys) (ick icur : N) : bool :=
  match inode_meta (fs_inodes fs) ick, inode_meta (fs_inodes fs) icur with
  | Some a, Some b =>
      match fm_kind a, fm_kind b with
      | KFile, KFile => (fm_size a =? fm_size b) && ((ick =? icur) || (fm_tail a =? fm_tail b))
      | _, _ => false       (* directories named *.sst: not modelled *)
      end
  | _, _ => false
  end.

(* step 1 of restoreFromPath: which entries of the data directory survive *)
Definition keep_entry (fs : fsys) (ck : list dirent) (e : dirent) : bool :=
  let '(n, i) := e in
  if is_log n then true
  else if is_sst n then
    match dir_lookup (filter (fun c => is_sst (fst c)) ck) n with
    | Some j => same_sst fs j i
    | None => false
    end
  else false.

(* step 2: one checkpoint entry. None = the copy failed (restoreFromPath returns the error) *)
Definition copy_entry (fs : fsys) (cur : list dirent) (e : dirent) : option (fsys * list dirent) :=
  let '(n, j) := e in
  if is_log n then Some (fs, cur)
  else if negb (is_regular fs j) then None                         (* non-regular source file *)
  else if is_sst n then                                            (* CopyFileForHardLink *)
    match dir_lookup cur n with
    | Some i =>
        if negb (is_regular fs i) then None
        else if i =? j then Some (fs, cur)                         (* os.SameFile *)
        else Some (fs, dir_insert (dir_remove cur n) (n, j))       (* os.Remove(dst); os.Link *)
    | None => Some (fs, dir_insert cur (n, j))                     (* os.Link *)
    end
  else                                                             (* CopyFile -> copyFileContents *)
    match inode_meta (fs_inodes fs) j with
    | None => None
    | Some m =>
        let i' := fs_next fs in
        Some ({| fs_inodes := (i', m) :: fs_inodes fs; fs_next := i' + 1 |},
              dir_insert (dir_remove cur n) (n, i'))               (* os.Remove(dst); os.Create; io.Copy *)
    end.

Fixpoint copy_all (fs : fsys) (cur : list dirent) (ck : list dirent) : fsys * list dirent * bool :=
  match ck with
  | [] => (fs, cur, true)
  | e :: r => match copy_entry fs cur e with
              | None => (fs, cur, false)
              | Some (fs', cur') => copy_all fs' cur' r
              end
  end.

(* the whole plan: (file system, data directory after, ok?)   — the checkpoint directory is an
   input only: no step writes to it or to an inode it names *)
Definition restore_plan (fs : fsys) (cur ck : list dirent) : fsys * list dirent * bool :=
  copy_all fs (filter (keep_entry fs ck) cur) ck.

(* ---------- fetching a checkpoint from a peer on the same host ----------
   node/state_machine.go handleReuseOldCheckpoint: the sst files of the latest checkpoint fetched from
   the same source are hard-linked into the new checkpoint directory; common.RunFileSync (local
   branch): the destination checkpoint directory is removed, then cp -rp copies every file.
   cp on an existing destination file opens it and rewrites it in place (cp_file with the Some branch):
   that is what happened to the reused links before the removal was added (/repo 3dfe70c). *)

Definition cp_file (st : fsys * list dirent) (f : bytes * fmeta) : fsys * list dirent :=
  let '(fs, dst) := st in
  let '(n, m) := f in
  match dir_lookup dst n with
  | Some i => ({| fs_inodes := (i, m) :: fs_inodes fs; fs_next := fs_next fs |}, dst)     (* rewritten in place *)
  | None => let i' := fs_next fs in
            ({| fs_inodes := (i', m) :: fs_inodes fs; fs_next := i' + 1 |}, dir_insert dst (n, i'))
  end.

Definition reuse_links (old_ck : list dirent) : list dirent := filter (fun e => is_sst (fst e)) old_ck.

(* the code as it is: reuse, RemoveAll(destination), cp *)
Definition fetch_local (fs : fsys) (old_ck : list dirent) (src : list (bytes * fmeta)) : fsys * list dirent :=
  fold_left cp_file src (fs, []).
(* the code before 3dfe70c: reuse, cp onto the links *)
Definition fetch_local_inplace (fs : fsys) (old_ck : list dirent) (src : list (bytes * fmeta)) : fsys * list dirent :=
  fold_left cp_file src (fs, reuse_links old_ck).

(* ---------- the order of steps inside one backup ----------
   Backup sends the request to backupLoop and the caller (the raft apply loop, through
   kvStoreSM.GetSnapshot) blocks in BackupInfo.WaitReady until the engine's Save closes the
   "started" channel. Inside KVCheckpoint.Save two things happen: the engine CAPTURES the view that
   the checkpoint will hold, and it RELEASES the waiter; the apply loop applies the next entries only
   after the release. The engines, as the code is:
     mem      GetIterator + SeekToFirst (capture: an immutable-radix snapshot / a read lock), close(notify), dump
     pebble   eng.Checkpoint(path) (capture AND copy: the live WAL is copied whole at the end), close(notify)
     rocksdb  time.AfterFunc(20ms, close(notify)) then ck.Save: the file list and the WAL length are
              fixed at the start of Save; capture-before-release holds as long as that takes < 20 ms
   bstep is one event of a backup in flight; BWrite is the apply loop applying an entry. *)

Inductive bstep := BCapture | BRelease | BWrite (h : N).
Record bstate := { b_val : N; b_released : bool; b_view : option N }.

Definition bstep_run (s : bstate) (e : bstep) : option bstate :=
  match e with
  | BCapture => Some {| b_val := b_val s; b_released := b_released s; b_view := Some (b_val s) |}
  | BRelease => Some {| b_val := b_val s; b_released := true; b_view := b_view s |}
  | BWrite h => if b_released s then Some {| b_val := h; b_released := true; b_view := b_view s |}
                else None                         (* impossible: the apply loop is blocked in WaitReady *)
  end.

Fixpoint bsched_run (s : bstate) (l : list bstep) : option bstate :=
  match l with
  | [] => Some s
  | e :: r => match bstep_run s e with Some s' => bsched_run s' r | None => None end
  end.

Definition bstart (h : N) : bstate := {| b_val := h; b_released := false; b_view := None |}.

(* the engine's own events of a schedule, in order *)
Definition engine_events (l : list bstep) : list bstep :=
  filter (fun e => match e with BWrite _ => false | _ => true end) l.

(* ---------- crashes: what a killed backup / transfer / restore leaves behind ----------
   rockredis.go MarkCheckpointIncomplete / MarkCheckpointComplete / isCheckpointIncomplete,
   isBackupOKInPath, backupLoop; node/state_machine.go prepareSnapshotForStore and the
   TransferRemoteSnap branch; rockredis.go markRestoreBegin / interruptedRestore, OpenRockDB.
   A checkpoint directory under its final name is absent, partly written or complete; next to it
   the marker file incomplete_<term>_<index> may exist. *)

Inductive dstate := DAbsent | DPartial | DComplete (v : N).
Record cslot := { cs_dir : dstate; cs_marked : bool }.

Inductive wstep :=
| WRemove                 (* os.RemoveAll of the directory (backupLoop, RunFileSync local branch) *)
| WMark                   (* MarkCheckpointIncomplete *)
| WPartial                (* some files of the checkpoint have been written / linked / transferred *)
| WFinish (v : N)         (* the last file is there: the directory holds the checkpoint of content v *)
| WUnmark.                (* MarkCheckpointComplete *)

Definition wstep_run (s : cslot) (e : wstep) : cslot :=
  match e with
  | WRemove => {| cs_dir := DAbsent; cs_marked := cs_marked s |}
  | WMark => {| cs_dir := cs_dir s; cs_marked := true |}
  | WPartial => {| cs_dir := DPartial; cs_marked := cs_marked s |}
  | WFinish v => {| cs_dir := DComplete v; cs_marked := cs_marked s |}
  | WUnmark => {| cs_dir := cs_dir s; cs_marked := false |}
  end.
Definition wrun (s : cslot) (l : list wstep) : cslot := fold_left wstep_run l s.

(* backupLoop for one request; kvStoreSM.PrepareSnapshot's transfer (reuse links + RunFileSync) *)
Definition backup_steps (v : N) : list wstep := [WRemove; WMark; WPartial; WFinish v; WUnmark].
Definition fetch_steps (v : N) : list wstep := [WMark; WPartial; WFinish v; WUnmark].
(* the same without the marker, as the code was before /repo b3a9b47 *)
Definition backup_steps_unmarked (v : N) : list wstep := [WRemove; WPartial; WFinish v].
Definition fetch_steps_unmarked (v : N) : list wstep := [WPartial; WFinish v].

(* isBackupOKInPath: the directory exists, is not marked incomplete, and the engine opens it
   read-only. opens_partial: whether the engine happens to open a half written directory (pebble and
   rocksdb do when only WAL data is missing or cut short, the mem engine always does). *)
Definition backup_ok (opens_partial : bool) (s : cslot) : bool :=
  match cs_dir s with
  | DAbsent => false
  | DPartial => negb (cs_marked s) && opens_partial
  | DComplete _ => negb (cs_marked s)
  end.

(* what Restore brings back when the backup is accepted: the checkpoint's content, or whatever a
   half written directory decodes to (garbage) *)
Definition restored_content (garbage : N) (s : cslot) : N :=
  match cs_dir s with DComplete v => v | _ => garbage end.

(* the outcome of a transfer: the copy command succeeded; it FAILED after part of the files (the
   process lives on, prepareSnapshotForStore returns the error after postFileSync); the process was
   killed after k steps. The marker is removed only on success. *)
Inductive fetch_outcome := FOk | FFailed | FCrashed (k : nat).
Definition fetch_run (v : N) (o : fetch_outcome) (s : cslot) : cslot :=
  match o with
  | FOk => wrun s (fetch_steps v)
  | FFailed => wrun s [WMark; WPartial]
  | FCrashed k => wrun s (firstn k (fetch_steps v))
  end.
(* a variant that clears the marker whenever the transfer is over, failed or not *)
Definition fetch_run_unmark_always (v : N) (o : fetch_outcome) (s : cslot) : cslot :=
  match o with
  | FFailed => wrun s [WMark; WPartial; WUnmark]
  | _ => fetch_run v o s
  end.
(* PrepareSnapshot: nothing to do when the local directory passes for a backup, else a transfer *)
Definition prepare (opens_partial : bool) (v : N) (o : fetch_outcome) (s : cslot) : cslot :=
  if backup_ok opens_partial s then s else fetch_run v o s.

(* the data directory during restoreFromPath, with the marker file "restoring". The marker records
   WHICH backup directory the checkpoint is restored from (rocksdb_backup or rocksdb_backup/remote:
   both may hold a checkpoint of the same (term,index) name with different content). *)
Inductive bsrc := FromLocal | FromRemote.
Inductive ddata := DOld | DMixed | DNew (from : bsrc).
Record rslot := { rs_data : ddata; rs_marked : option bsrc }.
Inductive rstep := RMark (from : bsrc) | RMix | RDone (from : bsrc) | RUnmark.
Definition rstep_run (s : rslot) (e : rstep) : rslot :=
  match e with
  | RMark f => {| rs_data := rs_data s; rs_marked := Some f |}
  | RMix => {| rs_data := DMixed; rs_marked := rs_marked s |}      (* a file removed or copied *)
  | RDone f => {| rs_data := DNew f; rs_marked := rs_marked s |}   (* the last file copied *)
  | RUnmark => {| rs_data := rs_data s; rs_marked := None |}
  end.
Definition rrun (s : rslot) (l : list rstep) : rslot := fold_left rstep_run l s.
Definition restore_steps (f : bsrc) : list rstep := [RMark f; RMix; RDone f; RUnmark].
Definition restore_steps_unmarked (f : bsrc) : list rstep := [RMix; RDone f].
(* OpenRockDB: an interrupted restore is finished first, from the directory the marker records
   (restore_plan on whatever files are there) *)
Definition open_after_crash (s : rslot) : ddata :=
  match rs_marked s with Some f => DNew f | None => rs_data s end.
(* finishing it from the store's local backup directory whatever the marker says (seeded/C14-c1) *)
Definition open_after_crash_local (s : rslot) : ddata :=
  match rs_marked s with Some _ => DNew FromLocal | None => rs_data s end.

(* ---------- node.GetValidBackupInfo: which peer a snapshot is fetched from ----------
   A peer is asked over HTTP (checkbackup, body = the raft snapshot) whether it has the backup of
   exactly the requested (term,index) (server.checkNodeBackup -> IsLocalBackupOK); p_has = it was
   reached and said yes. Peers with the replica id of the asker are skipped, and a peer on this host
   with this node's own data root ("old mine"). *)

Record peer := { p_replica : N; p_addr : bytes; p_root : bytes; p_module : bytes; p_has : bool }.

(* path.Join for the simple, non-empty-or-empty operands that occur here *)
Definition path_join (a b : bytes) : bytes := match a with [] => b | _ => a ++ 47 :: b end.

Definition eligible (local_id : N) (h myroot : bytes) (p : peer) : bool :=
  negb (p_replica p =? local_id) && p_has p && negb (bytes_eqb (p_addr p) h && bytes_eqb (p_root p) myroot).

(* (syncAddr, syncDir): a peer on this host is copied from its data root unless rsync is forced *)
Definition source_of (h : bytes) (rsync_local : bool) (ns : bytes) (p : peer) : bytes * bytes :=
  if bytes_eqb (p_addr p) h then
    if rsync_local then (p_addr p, path_join (p_module p) ns) else ([], path_join (p_root p) ns)
  else (p_addr p, path_join (p_module p) ns).

Definition valid_sources (local_id : N) (h myroot : bytes) (rsync_local : bool) (ns : bytes) (peers : list peer) : list (bytes * bytes) :=
  map (source_of h rsync_local ns) (filter (eligible local_id h myroot) peers).

Definition choose_source (retry : nat) (l : list (bytes * bytes)) : option (bytes * bytes) :=
  match l with [] => None | _ => nth_error l (Nat.modulo retry (length l)) end.

(* ---------- node/state_machine.go handleReuseOldCheckpoint at the file level ----------
   The backup directory: checkpoint directories by name, each with the content of its
   source_node_info file (if any) and its files. GetLatestCheckpoint scans from the newest name down;
   its match function has a side effect: a directory that is the one about to be transferred
   (newPath) but comes from another source is removed. The sst files of the checkpoint found are then
   hard-linked into newPath (CopyFileForHardLink: an existing different file there is unlinked first). *)

Record ckd := { cd_info : option bytes; cd_files : list dirent }.
Definition bdir := list (bytes * ckd).

Fixpoint bd_lookup (b : bdir) (n : bytes) : option ckd :=
  match b with [] => None | (m, c) :: r => if bytes_eqb m n then Some c else bd_lookup r n end.
Definition bd_remove (b : bdir) (n : bytes) : bdir := filter (fun e => negb (bytes_eqb (fst e) n)) b.
Fixpoint bd_insert (b : bdir) (e : bytes * ckd) : bdir :=
  match b with
  | [] => [e]
  | x :: r => if bytes_ltb (fst e) (fst x) then e :: b else x :: bd_insert r e
  end.

Definition info_matches (b : bdir) (src : bytes) (n : bytes) : bool :=
  match bd_lookup b n with
  | Some c => match cd_info c with Some i => bytes_eqb i src | None => false end
  | None => false
  end.

(* the scan of GetLatestCheckpoint with handleReuseOldCheckpoint's match function *)
Fixpoint reuse_scan (desc : list bytes) (skip : nat) (src newn : bytes) (b : bdir) : option bytes * bdir :=
  match desc with
  | [] => (None, b)
  | c :: r =>
      if info_matches b src c then
        match skip with O => (Some c, b) | S k => reuse_scan r k src newn b end
      else if bytes_eqb c newn then reuse_scan r skip src newn (bd_remove b c)
      else reuse_scan r skip src newn b
  end.

(* link one sst of the reused checkpoint into the files of newPath *)
Definition link_into (files : list dirent) (e : dirent) : list dirent :=
  let '(n, j) := e in
  match dir_lookup files n with
  | Some i => if i =? j then files else dir_insert (dir_remove files n) (n, j)
  | None => dir_insert files (n, j)
  end.

Inductive reuse_res := UPanic | UDone (reused : option bytes) (b : bdir).

Definition reuse_plan (b : bdir) (src newn : bytes) (skip : nat) : reuse_res :=
  let l := glob_dash (map fst b) in
  if Nat.leb (length l) skip then UDone None b
  else match go_sort l with
       | None => UPanic
       | Some s =>
           let '(latest, b1) := reuse_scan (rev s) skip src newn b in
           match latest with
           | None => UDone None b1
           | Some ln =>
               if bytes_eqb ln newn then UDone None b1
               else
                 match bd_lookup b1 ln with
                 | None => UDone None b1
                 | Some lc =>
                     let ssts := filter (fun e => is_sst (fst e)) (cd_files lc) in
                     let old := match bd_lookup b1 newn with Some c => c | None => {| cd_info := None; cd_files := [] |} end in
                     let nd := {| cd_info := cd_info old; cd_files := fold_left link_into ssts (cd_files old) |} in
                     match ssts with
                     | [] => UDone (Some ln) b1          (* nothing to link: newPath is not even created *)
                     | _ => UDone (Some ln) (bd_insert (bd_remove b1 newn) (newn, nd))
                     end
                 end
           end
       end.

(* ---------- the HyperLogLog write cache and the two places that must deal with it ----------
   PFADD changes sit in an in-memory write cache (rockredis/t_hll.go hllCache) until it is flushed:
   the logical content is what the engine holds plus the cache. Backup flushes the cache BEFORE it
   hands the request to backupLoop (the checkpoint captures the engine); restoreFromPath closes the
   engine — closeEng flushes the cache, the engine may roll to a new WAL file doing so — and only
   THEN lists the data directory to decide what to remove. *)
Record hstore := { h_engine : list N; h_cache : list N }.        (* writes in the engine / pending in the cache *)
Definition h_logical (s : hstore) : list N := h_engine s ++ h_cache s.
Definition h_flush (s : hstore) : hstore := {| h_engine := h_engine s ++ h_cache s; h_cache := [] |}.
Definition h_capture (s : hstore) : list N := h_engine s.          (* what a checkpoint started now holds *)
Definition backup_flush_then_capture (s : hstore) : list N := h_capture (h_flush s).
Definition backup_capture_then_flush (s : hstore) : list N := h_capture s.     (* the flush comes too late *)

(* restoreFromPath with the data directory listed at some moment: entries that are not in that
   listing are never examined by the removal loop, hence stay *)
Definition restore_plan_listed (fs : fsys) (listed actual ck : list dirent) : fsys * list dirent * bool :=
  copy_all fs (filter (fun e => keep_entry fs ck e || negb (mem_name (fst e) (map fst listed))) actual) ck.

(* ---------- the value level ---------- *)

(* ck_src: 0 for a checkpoint the store made itself, else the id of the source it was transferred from
   (the content of its source_node_info file) *)
Record ckinfo := { ck_val : N; ck_dg : N; ck_src : N }.
Record vstore := {
  vs_val : N;                              (* id of the current logical content *)
  vs_cks : list (bytes * ckinfo);          (* backup directory rocksdb_backup, in byte order of names *)
  vs_remote : list (bytes * ckinfo);       (* rocksdb_backup/remote: checkpoints transferred from another cluster *)
  vs_latest : N;                           (* latestSnapIndex *)
  vs_keep : N;                             (* cfg.KeepBackup *)
  vs_pending : option (bytes * N)          (* Backup accepted, copy not finished: name, value at the backup instant *)
}.

Fixpoint ck_lookup (l : list (bytes * ckinfo)) (n : bytes) : option ckinfo :=
  match l with [] => None | (m, c) :: r => if bytes_eqb m n then Some c else ck_lookup r n end.
Definition ck_remove (l : list (bytes * ckinfo)) (n : bytes) := filter (fun e => negb (bytes_eqb (fst e) n)) l.
Fixpoint ck_insert (l : list (bytes * ckinfo)) (e : bytes * ckinfo) :=
  match l with
  | [] => [e]
  | x :: r => if bytes_ltb (fst e) (fst x) then e :: l else x :: ck_insert r e
  end.

Definition set_val (s : vstore) (h : N) : vstore :=
  {| vs_val := h; vs_cks := vs_cks s; vs_remote := vs_remote s; vs_latest := vs_latest s; vs_keep := vs_keep s; vs_pending := vs_pending s |}.
Definition set_cks (s : vstore) (l : list (bytes * ckinfo)) : vstore :=
  {| vs_val := vs_val s; vs_cks := l; vs_remote := vs_remote s; vs_latest := vs_latest s; vs_keep := vs_keep s; vs_pending := vs_pending s |}.
Definition set_remote (s : vstore) (l : list (bytes * ckinfo)) : vstore :=
  {| vs_val := vs_val s; vs_cks := vs_cks s; vs_remote := l; vs_latest := vs_latest s; vs_keep := vs_keep s; vs_pending := vs_pending s |}.
Definition set_latest (s : vstore) (i : N) : vstore :=
  {| vs_val := vs_val s; vs_cks := vs_cks s; vs_remote := vs_remote s; vs_latest := i; vs_keep := vs_keep s; vs_pending := vs_pending s |}.
Definition set_pending (s : vstore) (p : option (bytes * N)) : vstore :=
  {| vs_val := vs_val s; vs_cks := vs_cks s; vs_remote := vs_remote s; vs_latest := vs_latest s; vs_keep := vs_keep s; vs_pending := p |}.

Definition keep_num (s : vstore) : nat :=
  N.to_nat (if 0 <? vs_keep s then vs_keep s else max_checkpoint_num).

Definition purge_dir (keep : nat) (latest : N) (l : list (bytes * ckinfo)) : list (bytes * ckinfo) :=
  let rm := purge_removed keep (map fst l) latest in
  filter (fun e => negb (mem_name (fst e) rm)) l.

(* the two purgeOldCheckpoint calls of backupLoop / restoreFromPath *)
Definition vpurge (s : vstore) : vstore :=
  set_remote (set_cks s (purge_dir (keep_num s) (vs_latest s) (vs_cks s)))
             (purge_dir (N.to_nat max_remote_checkpoint_num) remote_purge_latest (vs_remote s)).

Inductive vop :=
| OWrite (h : N)                   (* a batch of writes whose result is the content h *)
| OBackup (term index h : N)       (* Backup + WaitReady; h = content at that instant (caches flushed) *)
| OFinish (dg h : N)               (* the copy finished; dg = digest of the new checkpoint directory; h = content
                                      after (a store with a small KeepBackup is closed and reopened here by the
                                      harness, which flushes the HyperLogLog cache into the engine) *)
| ORestore (term index : N)
| ORestoreRemote (term index : N)  (* RestoreFromRemoteBackup *)
| OSetLatest (i : N)
| OLocalOK (term index : N)
| OReopen (h : N)                  (* close + reopen: h = content after (cache flush) *)
| ONop.                            (* compaction *)

Inductive vres := ROk | RNoBackup | RBusy | RNone | RYes | RNo | RNoSrc | RErr.

Definition vstep (s : vstore) (o : vop) : vstore * vres :=
  match o with
  | OWrite h => (set_val s h, ROk)
  | OBackup t i h =>
      match vs_pending s with
      | Some _ => (s, RBusy)
      | None => (set_pending (set_val s h) (Some (enc_name t i, h)), ROk)
      end
  | OFinish dg h =>
      match vs_pending s with
      | None => (s, RNone)
      | Some (n, v) =>
          (vpurge (set_pending (set_cks (set_val s h)
                     (ck_insert (ck_remove (vs_cks s) n) (n, {| ck_val := v; ck_dg := dg; ck_src := 0 |}))) None), ROk)
      end
  | ORestore t i =>
      match ck_lookup (vs_cks s) (enc_name t i) with
      | None => (s, RNoBackup)
      | Some c => (vpurge (set_val s (ck_val c)), ROk)
      end
  | ORestoreRemote t i =>
      match ck_lookup (vs_remote s) (enc_name t i) with
      | None => (s, RErr)                       (* os.Stat of the remote checkpoint fails *)
      | Some c => (vpurge (set_val s (ck_val c)), ROk)
      end
  | OSetLatest i => (set_latest s i, ROk)
  | OLocalOK t i =>
      (s, match ck_lookup (vs_cks s) (enc_name t i) with Some _ => RYes | None => RNo end)
  | OReopen h => (set_val s h, ROk)
  | ONop => (s, ROk)
  end.

(* copying checkpoint (term,index) of store a into the backup directory of store b
   (a stale directory of that name in b is removed first) *)
Definition vcopy (a b : vstore) (t i : N) : vstore * vres :=
  let n := enc_name t i in
  match ck_lookup (vs_cks a) n with
  | None => (set_cks b (ck_remove (vs_cks b) n), RNoSrc)
  | Some c => (set_cks b (ck_insert (ck_remove (vs_cks b) n) (n, c)), ROk)
  end.

(* ProposeOp_TransferRemoteSnap on store b with source a (source id src <> 0): when the directory for
   remote checkpoints already holds this (term,index) complete AND from the same source
   (isTransferredCheckpointComplete) nothing is fetched; otherwise the checkpoint is transferred
   (a stale directory of that name is replaced; if the source does not have it the transfer fails
   and nothing usable is left). *)
Definition vtransfer_with (same_source_needed : bool) (a b : vstore) (src t i : N) : vstore * vres :=
  let n := enc_name t i in
  let shortcut := match ck_lookup (vs_remote b) n with
                  | Some c => negb (ck_src c =? 0) && (negb same_source_needed || (ck_src c =? src))
                  | None => false
                  end in
  if shortcut then (b, ROk)
  else match ck_lookup (vs_cks a) n with
       | None => (set_remote b (ck_remove (vs_remote b) n), RErr)
       | Some c => (set_remote b (ck_insert (ck_remove (vs_remote b) n)
                                   (n, {| ck_val := ck_val c; ck_dg := ck_dg c; ck_src := src |})), ROk)
       end.
Definition vtransfer := vtransfer_with true.
(* the shortcut keyed by (term,index) only, whatever the source (seeded/C14-c3) *)
Definition vtransfer_any_source := vtransfer_with false.

(* kvStoreSM.PrepareSnapshot on store b with peer a: nothing to do when b has a local backup of
   (t,i); otherwise the peer's checkpoint directory is copied (RNoSrc: no peer has it) *)
Definition vfetch (a b : vstore) (t i : N) : vstore * vres :=
  match ck_lookup (vs_cks b) (enc_name t i) with
  | Some _ => (b, ROk)
  | None => match ck_lookup (vs_cks a) (enc_name t i) with
            | None => (b, RNoSrc)
            | Some _ => vcopy a b t i
            end
  end.

Definition vinit (keep h : N) : vstore :=
  {| vs_val := h; vs_cks := []; vs_remote := []; vs_latest := 0; vs_keep := keep; vs_pending := None |}.
