(* Ckpt/ProofsCache.v — the HyperLogLog write cache around Backup and Restore *)
From ZV Require Import Common.Bytes Common.BytesFacts Ckpt.Consts Ckpt.Model Ckpt.ProofsPlan.
From Coq Require Import ZifyN ZifyNat ZifyBool.
Open Scope N_scope.

(* Backup flushes, then the checkpoint is started: it holds the whole logical content *)
Theorem backup_flush_first_complete s : backup_flush_then_capture s = h_logical s.
Proof. reflexivity. Qed.

(* handing the request over first and flushing afterwards: what was only in the cache is missing *)
Theorem backup_capture_first_refuted : exists s, backup_capture_then_flush s <> h_logical s.
Proof. exists {| h_engine := [1]; h_cache := [2] |}. discriminate. Qed.

(* listing the data directory after the engine is closed = listing what is there: restore_plan *)
Lemma mem_name_true x l : In x l -> mem_name x l = true.
Proof.
  induction l as [|y l IH]; cbn; [tauto|]. intros [->|H]; [now rewrite bytes_eqb_refl|].
  rewrite IH by exact H. apply orb_true_r.
Qed.

Theorem restore_listed_when_closed fs cur ck : restore_plan_listed fs cur cur ck = restore_plan fs cur ck.
Proof.
  unfold restore_plan_listed, restore_plan. f_equal.
  apply filter_ext_in. intros e He.
  rewrite (mem_name_true (fst e) (map fst cur)) by (now apply in_map). cbn. now rewrite orb_false_r.
Qed.

(* listing it BEFORE closeEng: a WAL file the close-time flush creates after the listing survives the
   restore although the checkpoint has no such file (the engine replays it when it is reopened) *)
Theorem restore_stale_listing_refuted :
  exists fs listed actual ck n,
    is_log n = false /\ file_at fs ck n = None /\
    let '(fs', cur', _) := restore_plan_listed fs listed actual ck in file_at fs' cur' n <> None.
Proof.
  pose (f := fun s t => {| fm_kind := KFile; fm_size := s; fm_head := 0; fm_tail := t |}).
  pose (wal1 := [48;48;48;48;48;52;46;108;111;103]).   (* 000004.log *)
  pose (wal2 := [48;48;48;48;49;50;46;108;111;103]).   (* 000012.log, created by the flush of closeEng *)
  exists {| fs_inodes := [(1, f 10 1); (2, f 20 2); (3, f 30 3)]; fs_next := 10 |},
         [(wal1, 1)], [(wal1, 1); (wal2, 2)], [(wal1, 3)], wal2.
  vm_compute. repeat split; discriminate.
Qed.
