(* Ckpt/ProofsChain.v — file level and engine hypotheses put together: what the engine reads from the
   data directory after a restore is what it would read from the checkpoint directory, also after
   arbitrary later engine activity and a second restore of the same checkpoint.
   The engine itself (what a file set decodes to, that a checkpoint captures the content of its
   instant) is NOT modelled: it enters as the section variables / named hypotheses below and is tied
   to the code by the correspondence check and the direct oracle only. *)
From ZV Require Import Common.Bytes Common.BytesFacts Ckpt.Consts Ckpt.Model Ckpt.ProofsPlan.
From Coq Require Import ZifyN ZifyNat ZifyBool.
Open Scope N_scope.

Section Chain.
  Variable V : Type.
  (* what an engine reads when it opens a directory: a function of the non-LOG files' contents *)
  Variable decode : (bytes -> option fmeta) -> V.
  Hypothesis decode_ext : forall f g, (forall n, f n = g n) -> decode f = decode g.

  Definition view (fs : fsys) (d : list dirent) : bytes -> option fmeta :=
    fun n => if is_log n then None else file_at fs d n.
  Definition content (fs : fsys) (d : list dirent) : V := decode (view fs d).

  (* the plan's preconditions on a checkpoint directory *)
  Definition ck_ok (fs : fsys) (ck : list dirent) : Prop :=
    NoDup (dnames ck) /\
    (forall n j, In (n, j) ck -> is_log n = false -> is_regular fs j = true) /\
    (forall n j, In (n, j) ck -> exists m, inode_meta (fs_inodes fs) j = Some m).

  Theorem restore_reads_checkpoint fs cur ck :
    NoDup (dnames cur) -> store_ok fs -> ck_ok fs ck ->
    exists fs' cur', restore_plan fs cur ck = (fs', cur', true) /\
      content fs' cur' = content fs ck /\ content fs' ck = content fs ck /\
      store_ok fs' /\ extends fs fs'.
  Proof.
    intros Hnd Hok [Hndk [Hreg Hdir]].
    destruct (restore_plan_correct fs cur ck Hnd Hndk Hok Hreg Hdir) as [fs' [cur' [E [Hnl [_ [_ [_ [Hx Hck]]]]]]]].
    exists fs', cur'. split; [exact E|]. split; [|split; [|split; [|exact Hx]]].
    - apply decode_ext. intros n. unfold view. destruct (is_log n) eqn:EL; [reflexivity|]. now apply Hnl.
    - apply decode_ext. intros n. unfold view. destruct (is_log n); [reflexivity|]. apply Hck.
    - (* store_ok of the result: from the copy lemma *)
      unfold restore_plan in E.
      destruct (copy_all_spec ck fs (filter (keep_entry fs ck) cur) Hndk Hok Hreg) as [fs2 [cur2 [E2 [_ [Hok2 _]]]]].
      { intros n j i Hin HL HS HD.
        rewrite dir_lookup_filter in HD by exact Hnd.
        destruct (dir_lookup cur n) as [i0|]; [|discriminate].
        destruct (keep_entry fs ck (n, i0)) eqn:EK; [|discriminate]. inversion HD; subst i0.
        apply keep_entry_nonlog in EK as [_ [j' [_ Hs]]]; [|exact HL]. eapply same_sst_regular; eauto. }
      rewrite E in E2. inversion E2; subst. exact Hok2.
  Qed.

  (* ----- engine activity after the restore ----- *)
  Variable engine_step : fsys -> list dirent -> fsys * list dirent.
  Hypothesis sst_immutable : forall fs d i m,
    inode_meta (fs_inodes fs) i = Some m -> only_sst_names d i ->
    inode_meta (fs_inodes (fst (engine_step fs d))) i = Some m.
  Hypothesis no_relink : forall fs d i m,
    inode_meta (fs_inodes fs) i = Some m -> only_sst_names d i ->
    only_sst_names (snd (engine_step fs d)) i.
  (* the engine leaves a well-formed file system behind *)
  Hypothesis engine_wf : forall fs d, store_ok fs -> NoDup (dnames d) ->
    store_ok (fst (engine_step fs d)) /\ NoDup (dnames (snd (engine_step fs d))).

  Lemma engine_run_wf : forall k fs d, store_ok fs -> NoDup (dnames d) ->
    store_ok (fst (engine_run engine_step k fs d)) /\ NoDup (dnames (snd (engine_run engine_step k fs d))).
  Proof.
    induction k as [|k IH]; intros fs d Hok Hnd; [auto|].
    cbn. destruct (engine_step fs d) as [fs1 d1] eqn:E.
    pose proof (engine_wf fs d Hok Hnd) as H. rewrite E in H. cbn in H. apply IH; tauto.
  Qed.

  (* Backup made ck; restore; any amount of engine activity (writes, flushes, compactions) on the
     live directory; restore the same checkpoint again: the engine reads the same content, and the
     checkpoint directory itself still reads the same. *)
  Theorem restore_write_restore fs cur ck k :
    NoDup (dnames cur) -> store_ok fs -> ck_ok fs ck ->
    (forall n i n', In (n, i) cur -> is_log n = true -> ~ In (n', i) ck) ->
    exists fs1 d1 fs3 d3,
      restore_plan fs cur ck = (fs1, d1, true) /\
      let '(fs2, d2) := engine_run engine_step k fs1 d1 in
      restore_plan fs2 d2 ck = (fs3, d3, true) /\
      content fs1 d1 = content fs ck /\ content fs2 ck = content fs ck /\
      content fs3 d3 = content fs ck /\ content fs3 ck = content fs ck.
  Proof.
    intros Hnd Hok Hck Hlog.
    destruct (restore_reads_checkpoint fs cur ck Hnd Hok Hck) as [fs1 [d1 [E1 [C1 [C1k [Hok1 Hx1]]]]]].
    exists fs1, d1.
    destruct (engine_run engine_step k fs1 d1) as [fs2 d2] eqn:ER.
    destruct Hck as [Hndk [Hreg Hdir]].
    (* the checkpoint's inodes are shared with the live directory only under sst names *)
    assert (Hshare : forall n j, In (n, j) ck ->
              (exists m, inode_meta (fs_inodes fs1) j = Some m) /\ only_sst_names d1 j).
    { intros n j Hin. split.
      - destruct (Hdir n j Hin) as [m Hm]. exists m. now apply Hx1.
      - eapply (restore_establishes_sharing fs cur ck fs1 d1 true); eauto. }
    pose proof (checkpoint_survives_engine engine_step sst_immutable no_relink ck k fs1 d1 Hshare) as Hsurv.
    rewrite ER in Hsurv. cbn in Hsurv.
    assert (Hsame : forall n, file_at fs2 ck n = file_at fs ck n).
    { intros n. rewrite Hsurv. unfold file_at. destruct (dir_lookup ck n) as [j|] eqn:EK; [|reflexivity].
      destruct (Hdir n j (dir_lookup_In _ _ _ EK)) as [m Hm]. rewrite Hm. now apply Hx1. }
    pose proof (engine_run_wf k fs1 d1 Hok1) as Hwf.
    assert (Hnd1 : NoDup (dnames d1)).
    { (* the data directory after a restore has no duplicate names: every name is looked up consistently *)
      unfold restore_plan in E1. clear -E1 Hnd Hndk Hok.
      (* NoDup is preserved by filter, dir_remove and dir_insert of an absent name *)
      assert (Hgen : forall ck fs cur fs' cur' ok, NoDup (dnames cur) ->
                       copy_all fs cur ck = (fs', cur', ok) -> NoDup (dnames cur')).
      { clear. induction ck as [|[n j] ck IH]; cbn [copy_all]; intros fs cur fs' cur' ok Hnd H.
        - now inversion H; subst.
        - destruct (copy_entry fs cur (n, j)) as [[fsa cura]|] eqn:E; [|now inversion H; subst].
          eapply IH; [|exact H].
          assert (Hins : forall d e, NoDup (dnames d) -> ~ In (fst e) (dnames d) -> NoDup (dnames (dir_insert d e))).
          { clear. induction d as [|y d IHd]; cbn; intros e Hn Hni; [constructor; [tauto|constructor]|].
            destruct (bytes_ltb (fst e) (fst y)); cbn; [constructor; assumption|].
            inversion Hn as [|? ? Hy Hn']; subst. constructor.
            - intros Hin. unfold dnames in Hin. apply in_map_iff in Hin as [x [Ex Hx]].
              apply In_dir_insert in Hx as [->|Hx]; [apply Hni; left; now symmetry|].
              apply Hy. rewrite <- Ex. now apply in_map.
            - apply IHd; [assumption|]. intros Hin. apply Hni. now right. }
          assert (Hrem : forall d x, NoDup (dnames d) -> NoDup (dnames (dir_remove d x)) /\ ~ In x (dnames (dir_remove d x))).
          { clear. intros d x Hn. split; [now apply NoDup_dnames_filter|].
            intros Hin. unfold dnames in Hin. apply in_map_iff in Hin as [y [Ey Hy]].
            apply In_dir_remove in Hy as [_ Hy]. contradiction. }
          unfold copy_entry in E.
          destruct (is_log n); [now inversion E; subst|].
          destruct (negb (is_regular fs j)); [discriminate|].
          destruct (is_sst n).
          + destruct (dir_lookup cur n) as [i0|] eqn:ED.
            * destruct (negb (is_regular fs i0)); [discriminate|].
              destruct (i0 =? j); inversion E; subst; [assumption|].
              destruct (Hrem cur n Hnd). now apply Hins.
            * inversion E; subst. apply Hins; [assumption|]. now apply dir_lookup_none.
          + destruct (inode_meta (fs_inodes fs) j); [|discriminate]. inversion E; subst.
            destruct (Hrem cur n Hnd). now apply Hins. }
      eapply Hgen; [|exact E1]. now apply NoDup_dnames_filter. }
    rewrite ER in Hwf. cbn in Hwf. destruct (Hwf Hnd1) as [Hok2 Hnd2].
    assert (Hck2 : ck_ok fs2 ck).
    { split; [exact Hndk|]. split.
      - intros n j Hin HL. pose proof (Hreg n j Hin HL) as Hr. unfold is_regular in *.
        pose proof (Hsame n) as Hs. unfold file_at in Hs.
        rewrite (In_dir_lookup ck n j Hndk Hin) in Hs. now rewrite Hs.
      - intros n j Hin. pose proof (Hsame n) as Hs. unfold file_at in Hs.
        rewrite (In_dir_lookup ck n j Hndk Hin) in Hs. rewrite Hs. apply (Hdir n j Hin). }
    destruct (restore_reads_checkpoint fs2 d2 ck Hnd2 Hok2 Hck2) as [fs3 [d3 [E3 [C3 [C3k _]]]]].
    exists fs3, d3. split; [exact E1|]. split; [exact E3|].
    assert (C2 : content fs2 ck = content fs ck).
    { apply decode_ext. intros n. unfold view. destruct (is_log n); [reflexivity|apply Hsame]. }
    split; [exact C1|]. split; [exact C2|]. split; congruence.
  Qed.
End Chain.
