(* Ckpt/ProofsSource.v — node.GetValidBackupInfo: the source chosen for a snapshot transfer *)
From ZV Require Import Common.Bytes Common.BytesFacts Ckpt.Consts Ckpt.Model.
From Coq Require Import ZifyN ZifyNat ZifyBool.
Open Scope N_scope.

(* the chosen source is a peer that is not the asker, that answered that it holds the backup of
   exactly the requested (term,index), and that is not this node's own directory *)
Theorem chosen_source_valid local_id h myroot rl ns peers retry src :
  choose_source retry (valid_sources local_id h myroot rl ns peers) = Some src ->
  exists p, In p peers /\ src = source_of h rl ns p /\
            p_replica p <> local_id /\ p_has p = true /\ ~ (p_addr p = h /\ p_root p = myroot).
Proof.
  unfold choose_source, valid_sources.
  destruct (map (source_of h rl ns) (filter (eligible local_id h myroot) peers)) eqn:E; [discriminate|].
  rewrite <- E. intros H. apply nth_error_In, in_map_iff in H as [q [Hq Hin]].
  apply filter_In in Hin as [Hin He]. exists q. split; [exact Hin|]. split; [now symmetry|].
  unfold eligible in He. apply andb_prop in He as [He H3]. apply andb_prop in He as [H1 H2].
  split; [apply negb_true_iff, N.eqb_neq in H1; exact H1|]. split; [exact H2|].
  intros [A B]. apply negb_true_iff in H3. subst. now rewrite !bytes_eqb_refl in H3.
Qed.

(* if any peer qualifies, some source is chosen, whatever the retry number *)
Theorem source_found_when_available local_id h myroot rl ns peers retry p :
  In p peers -> eligible local_id h myroot p = true ->
  exists src, choose_source retry (valid_sources local_id h myroot rl ns peers) = Some src.
Proof.
  intros Hin He. unfold choose_source, valid_sources.
  assert (Hne : In (source_of h rl ns p) (map (source_of h rl ns) (filter (eligible local_id h myroot) peers))).
  { apply in_map. apply filter_In. auto. }
  destruct (map (source_of h rl ns) (filter (eligible local_id h myroot) peers)) as [|x l] eqn:E; [contradiction|].
  destruct (nth_error (x :: l) (Nat.modulo retry (length (x :: l)))) eqn:EN; [eauto|].
  apply nth_error_None in EN. pose proof (Nat.mod_upper_bound retry (length (x :: l))) as Hb. cbn in *. lia.
Qed.

(* nobody qualifies: no source ("no backup available from others"), loudly *)
Theorem no_source_when_none local_id h myroot rl ns peers retry :
  (forall p, In p peers -> eligible local_id h myroot p = false) ->
  choose_source retry (valid_sources local_id h myroot rl ns peers) = None.
Proof.
  intros H. unfold choose_source, valid_sources.
  assert (E : filter (eligible local_id h myroot) peers = []).
  { induction peers as [|q l IH]; cbn; [reflexivity|].
    rewrite (H q (or_introl eq_refl)). apply IH. intros p Hp. apply H. now right. }
  now rewrite E.
Qed.

(* the retries of PrepareSnapshot (retry = 0, 1, 2, ...) go round all valid sources *)
Theorem retries_reach_every_source local_id h myroot rl ns peers src :
  In src (valid_sources local_id h myroot rl ns peers) ->
  exists retry, (retry < length (valid_sources local_id h myroot rl ns peers))%nat /\
                choose_source retry (valid_sources local_id h myroot rl ns peers) = Some src.
Proof.
  intros Hin. apply In_nth_error in Hin as [k Hk].
  assert (Hlt : (k < length (valid_sources local_id h myroot rl ns peers))%nat) by (apply nth_error_Some; congruence).
  exists k. split; [exact Hlt|]. unfold choose_source.
  destruct (valid_sources local_id h myroot rl ns peers) eqn:E; [cbn in Hlt; lia|].
  rewrite Nat.mod_small by exact Hlt. exact Hk.
Qed.
