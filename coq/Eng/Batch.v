(* Eng/Batch.v — C20: write batches.
   Transcribes the contract of engine/writebatch.go (WriteBatch: Put / Delete / DeleteRange / Merge /
   Clear / Commit) as implemented by rocksWriteBatch, pebbleWriteBatch and memWriteBatch
   (engine/mem_writebatch.go commitBtree / commitSkiplist / the radix transaction), and the counter
   merge operator (engine/pebble_eng.go GetRocksdbUint64 + Uint64AddMerger, rocksdb's
   UInt64AddOperator, mem_writebatch.go MergeOp): the stored value and the operand are 8-byte
   little-endian unsigned numbers (an absent or empty value counts as 0), the result is their sum
   modulo 2^64, again 8 bytes.
   A batch is a list of operations; nothing is visible before Commit; Commit applies the
   operations in order, each one seeing the effect of the earlier ones; Clear drops them.
   No proofs in this file. *)
From ZV Require Export Common.Bytes Eng.SortedMap.
Open Scope N_scope.

Inductive bop :=
| BPut (k v : bytes)
| BDel (k : bytes)
| BDelRange (s e : bytes)
| BMerge (k v : bytes).

Definition mask64 : N := 18446744073709551615. (* 2^64 - 1 *)
Definition add64 (a b : N) : N := N.land (a + b) mask64.

(* binary.LittleEndian.Uint64 on a byte list of any length (used only for lengths 0 and 8) *)
Fixpoint le_decode (v : bytes) : N :=
  match v with
  | [] => 0
  | b :: r => b + 256 * le_decode r
  end.
(* binary.LittleEndian.PutUint64: n bytes of x, least significant first *)
Fixpoint le_encode (n : nat) (x : N) : bytes :=
  match n with
  | O => []
  | S n' => N.land x 255 :: le_encode n' (N.shiftr x 8)
  end.

(* GetRocksdbUint64: nil/empty -> 0, 8 bytes -> the number, anything else -> errIntNumber *)
Definition counter_of (v : bytes) : option N :=
  match length v with
  | O => Some 0
  | 8%nat => Some (le_decode v)
  | _ => None
  end.

Definition merge_value (old : option bytes) (operand : bytes) : option bytes :=
  match counter_of (match old with Some v => v | None => [] end), counter_of operand with
  | Some a, Some b => Some (le_encode 8 (add64 a b))
  | _, _ => None
  end.

(* one operation applied to a store; None = the commit fails (invalid counter) *)
Definition apply_op (m : smap) (op : bop) : option smap :=
  match op with
  | BPut k v => Some (sm_insert k v m)
  | BDel k => Some (sm_remove k m)
  | BDelRange s e => Some (sm_remove_range s e m)
  | BMerge k v =>
      match merge_value (sm_find k m) v with
      | Some nv => Some (sm_insert k nv m)
      | None => None
      end
  end.

Fixpoint apply_ops (m : smap) (ops : list bop) : option smap :=
  match ops with
  | [] => Some m
  | op :: r =>
      match apply_op m op with
      | Some m' => apply_ops m' r
      | None => None
      end
  end.

(* an engine with one open batch: the committed store and the pending operations (in call order) *)
Record db := mkdb { committed : smap; pending : list bop }.

Definition db_empty : db := mkdb [] [].
Definition db_add (d : db) (op : bop) : db := mkdb (committed d) (pending d ++ [op]).
Definition db_clear (d : db) : db := mkdb (committed d) [].
(* Commit followed by Clear (what every caller in rockredis does): all or nothing *)
Definition db_commit (d : db) : db * bool :=
  match apply_ops (committed d) (pending d) with
  | Some m' => (mkdb m' [], true)
  | None => (mkdb (committed d) [], false)
  end.

Definition db_get (d : db) (k : bytes) : option bytes := sm_find k (committed d).
Definition db_exist (d : db) (k : bytes) : bool := sm_mem k (committed d).
Definition db_multi_get (d : db) (ks : list bytes) : list (option bytes) := map (db_get d) ks.
