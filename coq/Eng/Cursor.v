(* Eng/Cursor.v — C20: the ideal cursor every engine iterator is compared with.
   engine/iterator.go interface Iterator: Seek (first key >= target), SeekForPrev (last key <= target),
   SeekToFirst, SeekToLast, Next, Prev, Valid, Key/Value — implemented by rock_iter.go, pebble_iter.go,
   mem_iter.go over radix_iter.go / btree.go biterator / skiplist_iterator.go.
   The cursor walks a *view*: the whole store for the mem engine; for pebble and rocksdb the store
   clamped to the iterator bounds the engine installs (newPebbleIterator / newRockIterator:
   LowerBound = Min inclusive, UpperBound = Max exclusive, or Max ++ [0] when the range is right-closed).
   Position = zipper (elements before the current one in reverse order, current, elements after),
   or CInv (not positioned / moved off either end).
   No proofs in this file. *)
From ZV Require Export Common.Bytes Eng.SortedMap.
From ZV Require Import Eng.Consts.
Open Scope N_scope.

Inductive cpos :=
| CInv
| CAt (before : list kv) (cur : kv) (after : list kv).

Record cursor := mkcur { c_view : smap; c_pos : cpos }.

Definition c_valid (c : cursor) : bool :=
  match c_pos c with CInv => false | CAt _ _ _ => true end.
Definition c_cur (c : cursor) : option kv :=
  match c_pos c with CInv => None | CAt _ x _ => Some x end.

(* move elements satisfying p from the front of v onto ls *)
Fixpoint seek_split (p : bytes -> bool) (ls v : list kv) : list kv * list kv :=
  match v with
  | [] => (ls, [])
  | x :: r => if p (fst x) then seek_split p (x :: ls) r else (ls, v)
  end.

Definition c_first (c : cursor) : cursor :=
  mkcur (c_view c) (match c_view c with [] => CInv | x :: r => CAt [] x r end).
Definition c_last (c : cursor) : cursor :=
  mkcur (c_view c) (match rev (c_view c) with [] => CInv | x :: l => CAt l x [] end).
(* first key >= t *)
Definition c_seek (t : bytes) (c : cursor) : cursor :=
  mkcur (c_view c)
    (match seek_split (fun k => bytes_ltb k t) [] (c_view c) with
     | (ls, x :: r) => CAt ls x r
     | (_, []) => CInv
     end).
(* last key <= t *)
Definition c_seek_for_prev (t : bytes) (c : cursor) : cursor :=
  mkcur (c_view c)
    (match seek_split (fun k => bytes_leb k t) [] (c_view c) with
     | (x :: l, rs) => CAt l x rs
     | ([], _) => CInv
     end).
(* Next / Prev are only ever called on a valid cursor (rocksdb asserts it); on CInv they do nothing *)
Definition c_next (c : cursor) : cursor :=
  mkcur (c_view c)
    (match c_pos c with
     | CAt ls x (y :: r) => CAt (x :: ls) y r
     | CAt _ _ [] => CInv
     | CInv => CInv
     end).
Definition c_prev (c : cursor) : cursor :=
  mkcur (c_view c)
    (match c_pos c with
     | CAt (y :: l) x rs => CAt l y (x :: rs)
     | CAt [] _ _ => CInv
     | CInv => CInv
     end).

(* ----- the view an engine iterator is created with (GetIterator(opts)) ----- *)
Definition has_flag (tp flag : N) : bool := 0 <? N.land tp flag.

(* upperBound of newPebbleIterator / newRockIterator: exclusive *)
Definition upper_bound (max : option bytes) (tp : N) : option bytes :=
  match max with
  | None => None
  | Some mx => if has_flag tp range_ropen then Some mx else Some (mx ++ [0])
  end.
Definition in_bounds (min max : option bytes) (tp : N) (k : bytes) : bool :=
  (match min with None => true | Some mn => bytes_leb mn k end) &&
  (match upper_bound max tp with None => true | Some ub => bytes_ltb k ub end).

(* bounded = true: pebble / rocksdb; false: mem (the bounds are stored but not used, mem_iter.go) *)
Definition engine_view (bounded : bool) (min max : option bytes) (tp : N) (m : smap) : smap :=
  if bounded then filter (fun e => in_bounds min max tp (fst e)) m else m.
Definition get_iterator (bounded : bool) (min max : option bytes) (tp : N) (m : smap) : cursor :=
  mkcur (engine_view bounded min max tp m) CInv.

(* ----- raw cursor scripts (harness step K) ----- *)
Inductive cop := OFirst | OLast | OSeek (t : bytes) | OSeekForPrev (t : bytes) | ONext | OPrev.
Inductive cres := XSkipped | XInvalid | XAt (e : kv).

(* Next/Prev are issued only on a positioned, valid cursor; otherwise the op is skipped *)
Definition cop_apply (started : bool) (c : cursor) (o : cop) : bool * cursor * cres :=
  let show c' := match c_cur c' with Some e => XAt e | None => XInvalid end in
  match o with
  | OFirst => let c' := c_first c in (true, c', show c')
  | OLast => let c' := c_last c in (true, c', show c')
  | OSeek t => let c' := c_seek t c in (true, c', show c')
  | OSeekForPrev t => let c' := c_seek_for_prev t c in (true, c', show c')
  | ONext => if started && c_valid c then let c' := c_next c in (started, c', show c')
             else (started, c, XSkipped)
  | OPrev => if started && c_valid c then let c' := c_prev c in (started, c', show c')
             else (started, c, XSkipped)
  end.

Fixpoint cops_run (started : bool) (c : cursor) (ops : list cop) : list cres :=
  match ops with
  | [] => []
  | o :: r => let '(s', c', x) := cop_apply started c o in x :: cops_run s' c' r
  end.
