(* Eng/IndexKey.v — C20: the radix index key codec of the mem engine.
   Transcribes engine/radixdb/txn.go toIndexKey / extractFromIndexKey (as fixed by c38de4c): every 0x00
   of the key is escaped as 0x00 0xff and the key is terminated by 0x00 0x00. The radix tree iterators need
   index keys that are ordered like the raw keys and none of which is a prefix of another one.
   No proofs in this file. *)
From ZV Require Export Common.Bytes.
Open Scope N_scope.

Fixpoint esc (k : bytes) : bytes :=
  match k with
  | [] => []
  | c :: r => if c =? 0 then 0 :: 255 :: esc r else c :: esc r
  end.

Definition to_index_key (k : bytes) : bytes := esc k ++ [0; 0].

(* for i := 0; i < len(ik); i++ { key = append(key, ik[i]); if ik[i] == 0 { i++ } } *)
Fixpoint unesc (ik : bytes) : bytes :=
  match ik with
  | [] => []
  | c :: r =>
      if c =? 0 then 0 :: (match r with [] => [] | _ :: r' => unesc r' end)
      else c :: unesc r
  end.

Definition from_index_key (ik : bytes) : bytes :=
  if (length ik <? 2)%nat then ik else unesc (firstn (length ik - 2) ik).

Fixpoint is_prefix (a b : bytes) : bool :=
  match a, b with
  | [], _ => true
  | x :: a', y :: b' => (x =? y) && is_prefix a' b'
  | _ :: _, [] => false
  end.
