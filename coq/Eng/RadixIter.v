(* Eng/RadixIter.v — C20: the iterator of the mem engine's radix index.
   Transcribes engine/radix_iter.go (radixIterator: Valid, Key, Next, Prev, First, Last, Seek, SeekForPrev).
   The iterator owns a one-directional result iterator of engine/radixdb (ResultIterator: LowerBound = the
   keys >= k ascending, ReverseLowerBound = the keys <= k descending, Get(nil) / GetReverse(nil) = everything)
   and re-seeks at its current key whenever the direction of travel changes. The result iterators are
   modelled as the lists they enumerate (go-immutable-radix itself is not modelled).
   No proofs in this file. *)
From ZV Require Export Common.Bytes Eng.SortedMap Eng.Cursor.
Open Scope N_scope.

Record riter := mkrit {
  r_all : smap;                  (* the snapshot the iterator was created on (miTxn) *)
  r_res : option (list kv);      (* resIter: what it will still return; None = nil *)
  r_rev : bool;                  (* isReverser *)
  r_cur : option kv              (* cursor / cursorKey; None = invalid *)
}.

Definition r_new (m : smap) : riter := mkrit m None false None.

(* memdb.Txn.LowerBound / ReverseLowerBound; a nil key enumerates everything *)
Definition lower_bound (k : option bytes) (m : smap) : list kv :=
  match k with
  | Some k => snd (seek_split (fun x => bytes_ltb x k) [] m)
  | None => m
  end.
Definition reverse_lower_bound (k : option bytes) (m : smap) : list kv :=
  match k with
  | Some k => fst (seek_split (fun x => bytes_leb x k) [] m)
  | None => rev m
  end.

(* iter.cursorKey, iter.cursor = iter.resIter.Next() *)
Definition r_pop (it : riter) : riter :=
  match r_res it with
  | Some (x :: r) => mkrit (r_all it) (Some r) (r_rev it) (Some x)
  | Some [] => mkrit (r_all it) (Some []) (r_rev it) None
  | None => it
  end.

Definition r_valid (it : riter) : bool := match r_cur it with Some _ => true | None => false end.
Definition r_key (it : riter) : option bytes := match r_cur it with Some x => Some (fst x) | None => None end.

(* Seek / First: new forward result iterator, then Next() (which only pops: isReverser is false now) *)
Definition r_seek_opt (k : option bytes) (it : riter) : riter :=
  r_pop (mkrit (r_all it) (Some (lower_bound k (r_all it))) false (r_cur it)).
Definition r_seek_for_prev_opt (k : option bytes) (it : riter) : riter :=
  r_pop (mkrit (r_all it) (Some (reverse_lower_bound k (r_all it))) true (r_cur it)).

Definition r_seek (k : bytes) (it : riter) : riter := r_seek_opt (Some k) it.
Definition r_seek_for_prev (k : bytes) (it : riter) : riter := r_seek_for_prev_opt (Some k) it.
Definition r_first (it : riter) : riter := r_seek_opt None it.
Definition r_last (it : riter) : riter := r_seek_for_prev_opt None it.

Definition r_next (it : riter) : riter :=
  match r_res it with
  | None => it
  | Some _ => if r_rev it then r_pop (r_seek_opt (r_key it) it) else r_pop it
  end.
Definition r_prev (it : riter) : riter :=
  match r_res it with
  | None => it
  | Some _ => if r_rev it then r_pop it else r_pop (r_seek_for_prev_opt (r_key it) it)
  end.

(* raw cursor scripts over the radix iterator, with the conventions of Cursor.cops_run *)
Definition rop_apply (started : bool) (it : riter) (o : cop) : bool * riter * cres :=
  let show it' := match r_cur it' with Some e => XAt e | None => XInvalid end in
  match o with
  | OFirst => let it' := r_first it in (true, it', show it')
  | OLast => let it' := r_last it in (true, it', show it')
  | OSeek t => let it' := r_seek t it in (true, it', show it')
  | OSeekForPrev t => let it' := r_seek_for_prev t it in (true, it', show it')
  | ONext => if started && r_valid it then let it' := r_next it in (started, it', show it')
             else (started, it, XSkipped)
  | OPrev => if started && r_valid it then let it' := r_prev it in (started, it', show it')
             else (started, it, XSkipped)
  end.

Fixpoint rops_run (started : bool) (it : riter) (ops : list cop) : list cres :=
  match ops with
  | [] => []
  | o :: r => let '(s', it', x) := rop_apply started it o in x :: rops_run s' it' r
  end.
