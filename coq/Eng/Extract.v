(* Eng/Extract.v — extraction of the C20 model (ExtrOcamlBasic only) *)
From Coq Require Import ExtrOcamlBasic.
From ZV Require Import Eng.Model Eng.IndexKey.
Extraction Language OCaml.
Extraction "model.ml" Z.of_N N.of_nat Nat.add run_script db_empty range_query strip_ts
  db_range_limit db_range sm_find sm_insert sm_remove sm_remove_range apply_ops
  to_index_key from_index_key is_prefix bytes_cmp.
