(* Eng/ProofsOrder.v — facts about the byte-string order and generic sorted-list lemmas used by the C20 proofs *)
From ZV Require Import Common.Bytes Common.BytesFacts.
From Coq Require Import Permutation.
Open Scope N_scope.

(* ---------- the byte order ---------- *)
Lemma bytes_cmp_refl a : bytes_cmp a a = Eq.
Proof. now apply bytes_cmp_eq. Qed.

Lemma bytes_cmp_gt_lt a b : bytes_cmp a b = Gt <-> bytes_cmp b a = Lt.
Proof. rewrite (bytes_cmp_antisym a b). destruct (bytes_cmp a b); simpl; split; congruence. Qed.

Lemma bytes_leb_ltb a b : bytes_leb a b = negb (bytes_ltb b a).
Proof.
  unfold bytes_leb, bytes_ltb. rewrite (bytes_cmp_antisym a b).
  destruct (bytes_cmp a b); reflexivity.
Qed.

Lemma bytes_ltb_leb a b : bytes_ltb a b = negb (bytes_leb b a).
Proof. rewrite bytes_leb_ltb, negb_involutive. reflexivity. Qed.

Lemma bytes_ltb_lt a b : bytes_ltb a b = true <-> bytes_cmp a b = Lt.
Proof. unfold bytes_ltb. destruct (bytes_cmp a b); split; congruence. Qed.

Lemma bytes_leb_refl a : bytes_leb a a = true.
Proof. unfold bytes_leb. now rewrite bytes_cmp_refl. Qed.

Lemma bytes_ltb_leb_weak a b : bytes_ltb a b = true -> bytes_leb a b = true.
Proof. unfold bytes_ltb, bytes_leb. destruct (bytes_cmp a b); congruence. Qed.

Lemma bytes_leb_cases a b : bytes_leb a b = true -> bytes_ltb a b = true \/ a = b.
Proof.
  unfold bytes_ltb, bytes_leb. destruct (bytes_cmp a b) eqn:E; try congruence; auto.
  right. now apply bytes_cmp_eq.
Qed.

Lemma bytes_le_lt_trans a b c : bytes_leb a b = true -> bytes_ltb b c = true -> bytes_ltb a c = true.
Proof.
  intros H1 H2. destruct (bytes_leb_cases _ _ H1) as [H|H].
  - eapply bytes_ltb_trans; eauto.
  - now subst.
Qed.

Lemma bytes_lt_le_trans a b c : bytes_ltb a b = true -> bytes_leb b c = true -> bytes_ltb a c = true.
Proof.
  intros H1 H2. destruct (bytes_leb_cases _ _ H2) as [H|H].
  - eapply bytes_ltb_trans; eauto.
  - now subst.
Qed.

Lemma bytes_leb_trans a b c : bytes_leb a b = true -> bytes_leb b c = true -> bytes_leb a c = true.
Proof.
  intros H1 H2. destruct (bytes_leb_cases _ _ H1) as [H|H].
  - apply bytes_ltb_leb_weak. eapply bytes_lt_le_trans; eauto.
  - now subst.
Qed.

Lemma bytes_leb_antisym a b : bytes_leb a b = true -> bytes_leb b a = true -> a = b.
Proof.
  intros H1 H2. destruct (bytes_leb_cases _ _ H1) as [H|H]; auto.
  rewrite bytes_leb_ltb, H in H2. discriminate.
Qed.

Lemma bytes_ltb_asym a b : bytes_ltb a b = true -> bytes_ltb b a = false.
Proof.
  intro H. destruct (bytes_ltb b a) eqn:E; auto.
  pose proof (bytes_ltb_trans _ _ _ H E) as F. rewrite bytes_ltb_irrefl in F. discriminate.
Qed.

(* the immediate successor: k < mx ++ [0]  <->  k <= mx  (the exclusive upper bound the engines install) *)
Lemma bytes_ltb_succ k mx : bytes_ltb k (mx ++ [0]) = bytes_leb k mx.
Proof.
  unfold bytes_ltb, bytes_leb.
  revert mx; induction k as [|x k IH]; intros [|y mx]; simpl; try reflexivity.
  - destruct (x ?= 0) eqn:E.
    + destruct k; reflexivity.
    + destruct x; discriminate.
    + reflexivity.
  - destruct (x ?= y); try reflexivity. apply IH.
Qed.

(* a key between two bounds that share their first n bytes carries the same n bytes: a range read whose
   bounds lie inside one fixed-length prefix (one table) only ever meets keys of that prefix *)
Lemma between_shares_prefix n : forall a b k,
  firstn n a = firstn n b -> (n <= length a)%nat -> (n <= length b)%nat ->
  bytes_leb a k = true -> bytes_leb k b = true -> firstn n k = firstn n a.
Proof.
  unfold bytes_leb. induction n as [|n IH]; intros a b k Hab Ha Hb Hak Hkb; auto.
  destruct a as [|x a]; [simpl in Ha; lia|]. destruct b as [|y b]; [simpl in Hb; lia|].
  simpl in Hab. injection Hab as -> Hab.
  destruct k as [|z k]; [simpl in Hak; discriminate|].
  simpl in Hak, Hkb. destruct (y ?= z) eqn:E1.
  - apply N.compare_eq in E1. subst z. rewrite N.compare_refl in Hkb. simpl. f_equal.
    apply (IH a b k); auto; simpl in *; lia.
  - rewrite N.compare_antisym, E1 in Hkb. simpl in Hkb. discriminate.
  - discriminate.
Qed.

(* ---------- generic list lemmas ---------- *)
Section Lists.
  Context {A : Type}.

  Fixpoint take_while (p : A -> bool) (l : list A) : list A :=
    match l with
    | [] => []
    | x :: r => if p x then x :: take_while p r else []
    end.

  Fixpoint ssorted (R : A -> A -> Prop) (l : list A) : Prop :=
    match l with
    | [] => True
    | x :: r => (forall y, In y r -> R x y) /\ ssorted R r
    end.

  Lemma ssorted_app R l1 l2 :
    ssorted R (l1 ++ l2) <->
    ssorted R l1 /\ ssorted R l2 /\ (forall x y, In x l1 -> In y l2 -> R x y).
  Proof.
    induction l1 as [|a l1 IH]; simpl.
    - split; [intro H; repeat split; auto; intros x y []|intros (_ & H & _); exact H].
    - rewrite IH. split.
      + intros (Ha & H1 & H2 & H3). repeat split; auto.
        * intros y Hy. apply Ha. apply in_or_app; auto.
        * intros x y [Hx|Hx] Hy; [subst; apply Ha; apply in_or_app; auto|auto].
      + intros ((Ha & H1) & H2 & H3). repeat split; auto.
        intros y Hy. apply in_app_or in Hy as [Hy|Hy]; auto.
  Qed.

  Lemma ssorted_rev R l : ssorted R l -> ssorted (fun a b => R b a) (rev l).
  Proof.
    induction l as [|a l IH]; simpl; auto.
    intros [Ha Hl]. apply ssorted_app. repeat split; simpl; auto.
    - intros y [].
    - intros x y Hx [Hy|[]]. subst. apply Ha. now apply in_rev.
  Qed.

  Lemma ssorted_filter R p l : ssorted R l -> ssorted R (filter p l).
  Proof.
    induction l as [|a l IH]; simpl; auto.
    intros [Ha Hl]. destruct (p a); simpl; auto.
    split; auto. intros y Hy. apply Ha. apply filter_In in Hy. tauto.
  Qed.

  Lemma filter_all_true p (l : list A) : (forall x, In x l -> p x = true) -> filter p l = l.
  Proof.
    induction l as [|a l IH]; simpl; auto. intro H.
    rewrite (H a) by auto. f_equal. apply IH. auto.
  Qed.

  Lemma filter_all_false p (l : list A) : (forall x, In x l -> p x = false) -> filter p l = [].
  Proof.
    induction l as [|a l IH]; simpl; auto. intro H.
    rewrite (H a) by auto. apply IH. auto.
  Qed.

  Lemma filter_rev' p (l : list A) : filter p (rev l) = rev (filter p l).
  Proof.
    induction l as [|a l IH]; simpl; auto.
    rewrite filter_app, IH. simpl. destruct (p a); simpl; auto. now rewrite app_nil_r.
  Qed.

  Lemma filter_andb p q (l : list A) : filter (fun x => p x && q x) l = filter q (filter p l).
  Proof.
    induction l as [|a l IH]; simpl; auto.
    destruct (p a); simpl; [destruct (q a)|]; simpl; now rewrite IH.
  Qed.

  (* a predicate that is closed towards smaller elements selects a prefix of a sorted list *)
  Lemma filter_take_while R q l :
    ssorted R l -> (forall a b, R a b -> q b = true -> q a = true) ->
    filter q l = take_while q l.
  Proof.
    intros Hs Hq. induction l as [|a l IH]; simpl; auto.
    destruct Hs as [Ha Hl]. destruct (q a) eqn:E.
    - f_equal. auto.
    - apply filter_all_false. intros y Hy. destruct (q y) eqn:F; auto.
      rewrite (Hq a y (Ha y Hy) F) in E. discriminate.
  Qed.

  (* a predicate closed towards larger elements: the selected elements form the suffix b, as soon as
     everything before b fails and the head of b passes *)
  Lemma filter_suffix R p a b :
    ssorted R (a ++ b) -> (forall x y, R x y -> p x = true -> p y = true) ->
    (forall x, In x a -> p x = false) ->
    (match b with [] => True | x :: _ => p x = true end) ->
    filter p (a ++ b) = b.
  Proof.
    intros Hs Hp Ha Hb. rewrite filter_app, (filter_all_false p a Ha). simpl.
    destruct b as [|x b]; auto.
    apply ssorted_app in Hs as (_ & [Hx _] & _).
    apply filter_all_true. intros y [Hy|Hy]; [now subst|]. eapply Hp; eauto.
  Qed.

  (* dual: the selected elements form the prefix a *)
  Lemma filter_prefix R q a b :
    ssorted R (a ++ b) -> (forall x y, R x y -> q y = true -> q x = true) ->
    (forall x, In x b -> q x = false) ->
    (match rev a with [] => True | x :: _ => q x = true end) ->
    filter q (a ++ b) = a.
  Proof.
    intros Hs Hq Hb Ha. rewrite filter_app, (filter_all_false q b Hb), app_nil_r.
    apply filter_all_true. intros y Hy.
    destruct (rev a) as [|x ra] eqn:E.
    - apply in_rev in Hy. rewrite E in Hy. destruct Hy.
    - assert (a = rev ra ++ [x]) as -> by (rewrite <- (rev_involutive a), E; reflexivity).
      apply in_app_or in Hy as [Hy|[Hy|[]]]; [|now subst].
      apply ssorted_app in Hs as (Hs & _). apply ssorted_app in Hs as (_ & _ & H).
      eapply Hq; [|exact Ha]. apply H; simpl; auto.
  Qed.

  Lemma take_while_length p (l : list A) : (length (take_while p l) <= length l)%nat.
  Proof. induction l as [|a l IH]; simpl; [lia|]. destruct (p a); simpl; lia. Qed.
End Lists.
