(* Eng/Model.v — C20: an engine (engine.KVEngine + one WriteBatch) driven by a script, as the
   harness harness/cmd/engine drives the real engines: batch operations, commit / clear / new batch,
   point reads, the two range-iterator constructors of engine/iterator.go, raw cursor scripts.
   The engine kind (Eng/GenIter.v) tells which cursor the engine provides: KBounded = an ideal cursor clamped
   to the iterator bounds (pebble), KPrefix = clamped and confined to one 3-byte prefix (rocksdb), KPlain = an
   ideal cursor over the whole store (mem with the btree or skiplist index), KRadix = the radix iterator of
   Eng/RadixIter.v over the whole store (mem, the default). The range iterators are the generic wrapper of
   Eng/GenIter.v run over that cursor.
   No proofs in this file. *)
From ZV Require Export Common.Bytes Eng.SortedMap Eng.Batch Eng.Cursor Eng.RangeIter Eng.RadixIter Eng.GenIter.
Open Scope N_scope.

Inductive step :=
| SPut (k v : bytes) | SDel (k : bytes) | SDelRange (s e : bytes) | SMerge (k v : bytes)
| SCommit | SClear | SNewBatch
| SOtherBatch                             (* another live batch object, holding no pending operation, is selected, cleared
                                             or destroyed: batch objects do not share state, so nothing happens *)
| SFlush                                  (* CompactRange over everything: flush + compaction, no observable effect *)
| SGet (k : bytes) | SExist (k : bytes) | SMultiGet (ks : list bytes)
| SIter (o : iter_opts) (vt : N)          (* NewDBRangeLimitIteratorWithOpts, NoTimestamp(vt) *)
| SRangeIter (o : iter_opts) (vt : N)     (* NewDBRangeIteratorWithOpts *)
| SCursor (min max : option bytes) (tp : N) (ops : list cop).

Inductive result :=
| RNone                      (* the step prints nothing *)
| RCommit (ok : bool)
| RVal (v : option bytes)
| RBool (b : bool)
| RVals (vs : list (option bytes))
| RKVs (l : option (list kv))          (* None = the model faulted (out of fuel) *)
| RCursor (l : list cres).

Definition strip_kvs (vt : N) (l : option (list kv)) : option (list kv) :=
  match l with
  | Some l => Some (map (fun e => (fst e, strip_ts vt (snd e))) l)
  | None => None
  end.

Definition run_step (k : ekind) (d : db) (s : step) : db * result :=
  match s with
  | SPut k v => (db_add d (BPut k v), RNone)
  | SDel k => (db_add d (BDel k), RNone)
  | SDelRange a b => (db_add d (BDelRange a b), RNone)
  | SMerge k v => (db_add d (BMerge k v), RNone)
  | SCommit => let '(d', ok) := db_commit d in (d', RCommit ok)
  | SClear => (db_clear d, RNone)
  | SNewBatch => (db_clear d, RNone)
  | SOtherBatch => (d, RNone)
  | SFlush => (d, RNone)
  | SGet k => (d, RVal (db_get d k))
  | SExist k => (d, RBool (db_exist d k))
  | SMultiGet ks => (d, RVals (db_multi_get d ks))
  | SIter o vt => (d, RKVs (strip_kvs vt (engine_range_limit false k (committed d) o)))
  | SRangeIter o vt => (d, RKVs (strip_kvs vt (engine_range_limit false k (committed d) (no_limit o))))
  | SCursor mn mx tp ops =>
      (d, RCursor (engine_cursor_script k mn mx tp (committed d) ops))
  end.

Fixpoint run_script (k : ekind) (d : db) (ss : list step) : list result :=
  match ss with
  | [] => []
  | s :: r => let '(d', x) := run_step k d s in x :: run_script k d' r
  end.
