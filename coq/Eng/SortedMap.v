(* Eng/SortedMap.v — C20: the sorted-map reference of the storage-engine contract.
   A store is an association list strictly ordered by Go's bytes.Compare on the keys
   (Common/Bytes.v bytes_cmp). This is the yardstick every engine of /repo/engine
   (rockeng.go, pebble_eng.go, mem_eng.go + radix_mem.go / btree.go / skiplist.go) is compared
   with: GetBytes = sm_find, Exist = is-some, Put = sm_insert, Delete = sm_remove,
   DeleteRange(start,end) = sm_remove_range (start inclusive, end exclusive).
   No proofs in this file. *)
From ZV Require Export Common.Bytes.
Open Scope N_scope.

Definition kv := (bytes * bytes)%type.
Definition smap := list kv.

Fixpoint sm_find (k : bytes) (m : smap) : option bytes :=
  match m with
  | [] => None
  | (k', v) :: r =>
      match bytes_cmp k k' with
      | Eq => Some v
      | Lt => None
      | Gt => sm_find k r
      end
  end.

Fixpoint sm_insert (k v : bytes) (m : smap) : smap :=
  match m with
  | [] => [(k, v)]
  | (k', v') :: r =>
      match bytes_cmp k k' with
      | Eq => (k, v) :: r
      | Lt => (k, v) :: m
      | Gt => (k', v') :: sm_insert k v r
      end
  end.

Fixpoint sm_remove (k : bytes) (m : smap) : smap :=
  match m with
  | [] => []
  | (k', v') :: r =>
      match bytes_cmp k k' with
      | Eq => r
      | Lt => m
      | Gt => (k', v') :: sm_remove k r
      end
  end.

(* lo <= k < hi *)
Definition in_co (lo hi k : bytes) : bool := bytes_leb lo k && bytes_ltb k hi.

Definition sm_range (lo hi : bytes) (m : smap) : smap :=
  filter (fun e => in_co lo hi (fst e)) m.
Definition sm_remove_range (lo hi : bytes) (m : smap) : smap :=
  filter (fun e => negb (in_co lo hi (fst e))) m.

Definition sm_mem (k : bytes) (m : smap) : bool :=
  match sm_find k m with Some _ => true | None => false end.

(* strict ascending order of the keys, as a checkable boolean *)
Fixpoint sortedb (m : smap) : bool :=
  match m with
  | [] => true
  | (k, _) :: r =>
      match r with
      | [] => true
      | (k', _) :: _ => bytes_ltb k k' && sortedb r
      end
  end.
