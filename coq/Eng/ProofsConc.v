(* Eng/ProofsConc.v — C20: the schedule quantifier. A writer builds and commits batches while a reader reads at
   arbitrary points in between; in the model a commit is one atomic step (that the engines' commits are — no read
   observes a state inside a commit — is what the concurrent mode of the harness checks on the real engines).
   Every read then sees the store after a whole number of committed batches: a prefix of the commit sequence. *)
From ZV Require Import Common.Bytes Eng.SortedMap Eng.Batch Eng.ProofsOrder Eng.ProofsMap Eng.ProofsBatch.

(* the interleaving as the engine sees it *)
Inductive cev :=
| EOp (op : bop)        (* the writer adds an operation to its batch *)
| ECommit               (* the writer commits (and clears) the batch *)
| EClear                (* the writer drops the batch *)
| ERead.                (* a reader takes a snapshot of the whole store *)

(* what the reads observe, in order *)
Fixpoint observe (d : db) (evs : list cev) : list smap :=
  match evs with
  | [] => []
  | EOp op :: r => observe (db_add d op) r
  | ECommit :: r => observe (fst (db_commit d)) r
  | EClear :: r => observe (db_clear d) r
  | ERead :: r => committed d :: observe d r
  end.

(* the store after the first j commits of the schedule (reads play no role) *)
Fixpoint state_at (d : db) (evs : list cev) (j : nat) : smap :=
  match j with
  | O => committed d
  | S j' =>
      match evs with
      | [] => committed d
      | EOp op :: r => state_at (db_add d op) r j
      | ECommit :: r => state_at (fst (db_commit d)) r j'
      | EClear :: r => state_at (db_clear d) r j
      | ERead :: r => state_at d r j
      end
  end.

(* how many commits precede each read *)
Fixpoint commits_before_reads (n : nat) (evs : list cev) : list nat :=
  match evs with
  | [] => []
  | ECommit :: r => commits_before_reads (S n) r
  | ERead :: r => n :: commits_before_reads n r
  | _ :: r => commits_before_reads n r
  end.

Lemma cbr_ge evs : forall n j, In j (commits_before_reads n evs) -> (n <= j)%nat.
Proof.
  induction evs as [|e r IH]; intros n j; simpl; [tauto|].
  destruct e; simpl; auto.
  - intro H. apply IH in H. lia.
  - intros [<-|H]; auto.
Qed.

Lemma cbr_sorted evs : forall n, exists l, commits_before_reads n evs = l /\
  (forall i j, (i < j < length l)%nat -> (nth i l 0 <= nth j l 0)%nat).
Proof.
  induction evs as [|e r IH]; intro n; simpl.
  - exists []. split; auto. simpl. intros; lia.
  - destruct e; simpl; auto.
    destruct (IH n) as (l & Hl & Hs). exists (n :: l). rewrite Hl. split; auto.
    intros i j Hij. destruct j as [|j]; [lia|]. destruct i as [|i]; simpl.
    + apply (cbr_ge r n). rewrite Hl. apply nth_In. simpl in Hij. lia.
    + apply Hs. simpl in Hij. lia.
Qed.

Lemma state_at_0 d evs : state_at d evs 0 = committed d.
Proof. destruct evs; reflexivity. Qed.
Lemma sa_op d op r k : state_at d (EOp op :: r) k = state_at (db_add d op) r k.
Proof. destruct k; [now rewrite !state_at_0|reflexivity]. Qed.
Lemma sa_clear d r k : state_at d (EClear :: r) k = state_at (db_clear d) r k.
Proof. destruct k; [now rewrite !state_at_0|reflexivity]. Qed.
Lemma sa_read d r k : state_at d (ERead :: r) k = state_at d r k.
Proof. destruct k; [now rewrite !state_at_0|reflexivity]. Qed.
Lemma sa_commit d r k : state_at d (ECommit :: r) (S k) = state_at (fst (db_commit d)) r k.
Proof. reflexivity. Qed.

Lemma observe_offset evs : forall d n,
  observe d evs = map (fun j => state_at d evs (j - n)) (commits_before_reads n evs).
Proof.
  induction evs as [|e r IH]; intros d n; [reflexivity|].
  destruct e; cbn [observe commits_before_reads].
  - rewrite (IH (db_add d op) n). apply map_ext. intro j. now rewrite sa_op.
  - rewrite (IH (fst (db_commit d)) (S n)). apply map_ext_in. intros j Hj.
    apply cbr_ge in Hj. replace (j - n)%nat with (S (j - S n)) by lia. now rewrite sa_commit.
  - rewrite (IH (db_clear d) n). apply map_ext. intro j. now rewrite sa_clear.
  - cbn [map]. rewrite Nat.sub_diag, state_at_0. f_equal. rewrite (IH d n). apply map_ext. intro j. now rewrite sa_read.
Qed.

(* every read observes exactly the store after the commits that precede it — whatever the writer has put into
   its open batch so far, and wherever the reads fall; the numbers of commits seen never decrease *)
Theorem reads_see_commit_prefix : forall evs d,
  observe d evs = map (state_at d evs) (commits_before_reads 0 evs).
Proof.
  intros evs d. rewrite (observe_offset evs d 0). apply map_ext. intro j. now rewrite Nat.sub_0_r.
Qed.

Theorem reads_are_monotone : forall evs i j,
  let l := commits_before_reads 0 evs in
  (i < j < length l)%nat -> (nth i l 0 <= nth j l 0)%nat.
Proof. intros evs i j l. destruct (cbr_sorted evs 0) as (l' & Hl & Hs). subst l'. apply Hs. Qed.

(* and the store after j commits is the fold of the first j committed batches only: operations of a batch
   that is still open, or that was cleared, never show *)
Lemma state_at_open_batch d ops evs j :
  pending d = [] ->
  state_at d (map EOp ops ++ EClear :: evs) j = state_at d evs j.
Proof.
  intro Hp. destruct j as [|j]; [now rewrite !state_at_0|].
  assert (G : forall ops0 d0, state_at d0 (map EOp ops0 ++ EClear :: evs) (S j) =
                              state_at (db_clear (db_adds d0 ops0)) evs (S j)).
  { induction ops0 as [|op r IH]; intro d0; [apply sa_clear|]. cbn [map app]. rewrite sa_op. apply IH. }
  rewrite G. f_equal. unfold db_clear. rewrite db_adds_committed. destruct d as [m p]. simpl in *. now subst.
Qed.
