(* Eng/ProofsIndexKey.v — C20: the radix index key codec is order preserving, prefix free and invertible *)
From ZV Require Import Common.Bytes Common.BytesFacts Eng.IndexKey Eng.ProofsOrder.
Open Scope N_scope.

Lemma unesc_esc k : unesc (esc k) = k.
Proof.
  induction k as [|c r IH]; simpl; auto.
  destruct (c =? 0) eqn:E; simpl.
  - apply N.eqb_eq in E. subst. now rewrite IH.
  - rewrite E. now rewrite IH.
Qed.

Lemma index_key_roundtrip k : from_index_key (to_index_key k) = k.
Proof.
  unfold from_index_key, to_index_key. rewrite app_length. simpl.
  replace (length (esc k) + 2 <? 2)%nat with false by (symmetry; apply Nat.ltb_ge; lia).
  replace (length (esc k) + 2 - 2)%nat with (length (esc k) + 0)%nat by lia.
  rewrite firstn_app_2. simpl. rewrite app_nil_r. apply unesc_esc.
Qed.

Lemma index_key_order a : forall b, bytes_cmp (to_index_key a) (to_index_key b) = bytes_cmp a b.
Proof.
  unfold to_index_key. induction a as [|x a IH]; intros [|y b]; simpl; auto.
  - destruct (y =? 0) eqn:E; simpl.
    + reflexivity.
    + destruct y; [discriminate|reflexivity].
  - destruct (x =? 0) eqn:E; simpl.
    + reflexivity.
    + destruct x; [discriminate|reflexivity].
  - destruct (x =? 0) eqn:Ex, (y =? 0) eqn:Ey; simpl.
    + apply N.eqb_eq in Ex, Ey. subst. simpl. apply IH.
    + apply N.eqb_eq in Ex. subst. destruct y; [discriminate|reflexivity].
    + apply N.eqb_eq in Ey. subst. destruct x; [discriminate|reflexivity].
    + destruct (x ?= y); auto.
Qed.

Lemma is_prefix_app a : forall b, is_prefix a b = true <-> exists x, b = a ++ x.
Proof.
  induction a as [|c a IH]; intros b; simpl.
  - split; eauto.
  - destruct b as [|d b].
    + split; [discriminate|]. intros [x Hx]. discriminate.
    + rewrite andb_true_iff, N.eqb_eq, IH. split.
      * intros [-> [x ->]]. eauto.
      * intros [x [= -> ->]]. eauto.
Qed.

Lemma index_key_prefix_free a : forall b x, to_index_key a ++ x = to_index_key b -> a = b /\ x = [].
Proof.
  unfold to_index_key. induction a as [|c a IH]; intros [|d b] x; simpl.
  - intros [= ->]. auto.
  - destruct (d =? 0) eqn:E; simpl; intro H; inversion H; subst; rewrite ?N.eqb_refl in *; discriminate.
  - destruct (c =? 0) eqn:E; simpl; intro H; inversion H; subst; rewrite ?N.eqb_refl in *; discriminate.
  - destruct (c =? 0) eqn:Ec, (d =? 0) eqn:Ed; simpl; intro H; inversion H; subst;
      rewrite ?N.eqb_refl in *; try discriminate.
    + apply N.eqb_eq in Ec, Ed. subst. match goal with K : _ ++ x = _ |- _ => apply IH in K as [-> ->] end. auto.
    + match goal with K : _ ++ x = _ |- _ => apply IH in K as [-> ->] end. auto.
Qed.

Lemma index_key_no_proper_prefix a b :
  is_prefix (to_index_key a) (to_index_key b) = true -> a = b.
Proof.
  intro H. apply is_prefix_app in H as [x Hx]. symmetry in Hx.
  now apply index_key_prefix_free in Hx as [-> _].
Qed.
