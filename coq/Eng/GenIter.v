(* Eng/GenIter.v — C20: the range/limit wrapper of engine/iterator.go over an ARBITRARY engine cursor, and the
   cursors of the four engine kinds.
   The wrapper (rangeLimitIterator, RangeLimitedIterator.Valid / Next) only uses the methods of the
   engine.Iterator interface; here it is transcribed once more over a record of cursor operations
   (Eng/RangeIter.v is its instance at the ideal cursor, proved equal in ProofsGen.v), so that it can be run
   over:
     ideal_ops   the ideal cursor (pebble: over the view clamped to the bounds; mem/btree, mem/skiplist: whole store)
     radix_ops   the mem engine's radix iterator (Eng/RadixIter.v)
     prefix_ops  the rocksdb iterator: clamped to the bounds AND, because newRockIterator sets
                 prefix_same_as_start with the 3-byte fixed prefix extractor of rockeng.go, confined to the
                 keys that share the first 3 bytes of the key it was last positioned with
                 (Seek/SeekForPrev: of the target; SeekToFirst/SeekToLast: of the lower/upper bound if set,
                 else of the first/last key).
   No proofs in this file. *)
From ZV Require Export Common.Bytes Eng.SortedMap Eng.Cursor Eng.RangeIter Eng.RadixIter.
From ZV Require Import Eng.Consts.
Open Scope Z_scope.

Record cursor_ops (C : Type) := mkops {
  op_first : C -> C;
  op_last : C -> C;
  op_seek : bytes -> C -> C;
  op_seek_for_prev : bytes -> C -> C;
  op_next : C -> C;
  op_prev : C -> C;
  op_cur : C -> option kv        (* Valid() and RefKey()/RefValue() *)
}.
Arguments op_first {C}. Arguments op_last {C}. Arguments op_seek {C}. Arguments op_seek_for_prev {C}.
Arguments op_next {C}. Arguments op_prev {C}. Arguments op_cur {C}.

Section Gen.
  Context {C : Type} (ops : cursor_ops C).

  Record gwiter := mkgw { gw_cur : C; gw_opts : iter_opts; gw_step : Z }.

  Definition g_cvalid (c : C) : bool := match op_cur ops c with Some _ => true | None => false end.

  (* RangeLimitedIterator.Valid *)
  Definition g_valid (w : gwiter) : bool :=
    let o := gw_opts w in
    if o_offset o <? 0 then false
    else if (0 <=? o_count o) && (o_count o <=? gw_step w) then false
    else match op_cur ops (gw_cur w) with
         | None => false
         | Some (k, _) =>
             if negb (o_reverse o) then
               match o_max o with
               | Some mx =>
                   let r := bytes_cmp k mx in
                   if has_flag (o_type o) range_ropen then negb (geb_cmp r) else negb (gtb_cmp r)
               | None => true
               end
             else
               match o_min o with
               | Some mn =>
                   let r := bytes_cmp k mn in
                   if has_flag (o_type o) range_lopen then negb (leb_cmp r) else negb (ltb_cmp r)
               | None => true
               end
         end.

  Definition g_step_cursor (o : iter_opts) (c : C) : C :=
    if o_reverse o then op_prev ops c else op_next ops c.

  (* RangeLimitedIterator.Next *)
  Definition g_next (w : gwiter) : gwiter :=
    mkgw (g_step_cursor (gw_opts w) (gw_cur w)) (gw_opts w) (gw_step w + 1).

  Definition g_key_cmp (c : C) (t : bytes) : option comparison :=
    match op_cur ops c with Some (k, _) => Some (bytes_cmp k t) | None => None end.

  (* the initial positioning of rangeLimitIterator ([legacy]: before fix f53be95) *)
  Definition g_init_seek (legacy : bool) (o : iter_opts) (c : C) : C :=
    if negb (o_reverse o) then
      match o_min o with
      | None => op_first ops c
      | Some mn =>
          let c := op_seek ops mn c in
          if has_flag (o_type o) range_lopen then
            match g_key_cmp c mn with
            | Some r => if leb_cmp r then op_next ops c else c
            | None => c
            end
          else c
      end
    else
      match o_max o with
      | None => op_last ops c
      | Some mx =>
          let c := op_seek_for_prev ops mx c in
          let c :=
            if g_cvalid c then c
            else
              let c := op_first ops c in
              match g_key_cmp c mx with
              | Some Gt => if legacy then c else op_prev ops c
              | _ => c
              end in
          if has_flag (o_type o) range_ropen then
            match g_key_cmp c mx with
            | Some r => if geb_cmp r then op_prev ops c else c
            | None => c
            end
          else c
      end.

  Fixpoint g_skip_offset (n : nat) (w : gwiter) : gwiter :=
    match n with
    | O => w
    | S n' =>
        if g_valid w then
          g_skip_offset n' (mkgw (g_step_cursor (gw_opts w) (gw_cur w)) (gw_opts w) (gw_step w))
        else w
    end.

  Definition g_wrap (legacy : bool) (c : C) (o : iter_opts) : gwiter :=
    let w := mkgw c o 0 in
    if o_offset o <? 0 then w
    else g_skip_offset (Z.to_nat (o_offset o)) (mkgw (g_init_seek legacy o c) o 0).

  (* for ; it.Valid(); it.Next() { collect }; None = out of fuel / read of an invalid cursor *)
  Fixpoint g_run_iter (fuel : nat) (w : gwiter) : option (list kv) :=
    match fuel with
    | O => None
    | S f =>
        if g_valid w then
          match op_cur ops (gw_cur w) with
          | Some e => match g_run_iter f (g_next w) with Some l => Some (e :: l) | None => None end
          | None => None
          end
        else Some []
    end.

  (* raw cursor scripts (harness step K) *)
  Definition g_cop_apply (started : bool) (c : C) (o : cop) : bool * C * cres :=
    let show c' := match op_cur ops c' with Some e => XAt e | None => XInvalid end in
    match o with
    | OFirst => let c' := op_first ops c in (true, c', show c')
    | OLast => let c' := op_last ops c in (true, c', show c')
    | OSeek t => let c' := op_seek ops t c in (true, c', show c')
    | OSeekForPrev t => let c' := op_seek_for_prev ops t c in (true, c', show c')
    | ONext => if started && g_cvalid c then let c' := op_next ops c in (started, c', show c')
               else (started, c, XSkipped)
    | OPrev => if started && g_cvalid c then let c' := op_prev ops c in (started, c', show c')
               else (started, c, XSkipped)
    end.

  Fixpoint g_cops_run (started : bool) (c : C) (l : list cop) : list cres :=
    match l with
    | [] => []
    | o :: r => let '(s', c', x) := g_cop_apply started c o in x :: g_cops_run s' c' r
    end.
End Gen.

Arguments mkgw {C}. Arguments gw_cur {C}. Arguments gw_opts {C}. Arguments gw_step {C}.

(* ---------- the cursors of the engines ---------- *)
Definition ideal_ops : cursor_ops cursor :=
  mkops cursor c_first c_last c_seek c_seek_for_prev c_next c_prev c_cur.

Definition radix_ops : cursor_ops riter :=
  mkops riter r_first r_last r_seek r_seek_for_prev r_next r_prev r_cur.

(* rocksdb: gorocksdb.NewFixedPrefixTransform(3) in engine/rockeng.go, SetPrefixSameAsStart(true) in rock_iter.go *)
Definition prefix_len : nat := 3.
Definition pfx (k : bytes) : bytes := firstn prefix_len k.
Definition same_pfx (p : bytes) (e : kv) : bool := bytes_eqb (pfx (fst e)) p.

Record pcursor := mkpc {
  p_bv : smap;                (* the store clamped to the iterator bounds *)
  p_lb : option bytes;        (* iterate_lower_bound (inclusive) *)
  p_ub : option bytes;        (* iterate_upper_bound (exclusive) *)
  p_cur : cursor              (* ideal cursor over the keys of p_bv that carry the current prefix *)
}.

Definition p_restrict (pc : pcursor) (p : bytes) : cursor :=
  mkcur (filter (same_pfx p) (p_bv pc)) CInv.
Definition p_with (pc : pcursor) (c : cursor) : pcursor := mkpc (p_bv pc) (p_lb pc) (p_ub pc) c.

Definition p_seek (t : bytes) (pc : pcursor) : pcursor := p_with pc (c_seek t (p_restrict pc (pfx t))).
Definition p_seek_for_prev (t : bytes) (pc : pcursor) : pcursor :=
  p_with pc (c_seek_for_prev t (p_restrict pc (pfx t))).
Definition p_first (pc : pcursor) : pcursor :=
  match p_lb pc with
  | Some lb => p_seek lb pc
  | None =>
      match p_bv pc with
      | [] => p_with pc (mkcur [] CInv)
      | x :: _ => p_with pc (c_first (p_restrict pc (pfx (fst x))))
      end
  end.
Definition p_last (pc : pcursor) : pcursor :=
  match p_ub pc with
  | Some ub => p_seek_for_prev ub pc
  | None =>
      match rev (p_bv pc) with
      | [] => p_with pc (mkcur [] CInv)
      | x :: _ => p_with pc (c_last (p_restrict pc (pfx (fst x))))
      end
  end.
Definition p_next (pc : pcursor) : pcursor := p_with pc (c_next (p_cur pc)).
Definition p_prev (pc : pcursor) : pcursor := p_with pc (c_prev (p_cur pc)).

Definition prefix_ops : cursor_ops pcursor :=
  mkops pcursor p_first p_last p_seek p_seek_for_prev p_next p_prev (fun pc => c_cur (p_cur pc)).

Definition p_new (mn mx : option bytes) (tp : N) (m : smap) : pcursor :=
  mkpc (engine_view true mn mx tp m) mn (upper_bound mx tp) (mkcur [] CInv).

(* ---------- one entry per engine kind ---------- *)
Inductive ekind := KRadix | KPlain | KBounded | KPrefix.

(* NewDBRangeLimitIteratorWithOpts(engine, opts) walked to the end *)
Definition engine_range_limit (legacy : bool) (k : ekind) (m : smap) (o : iter_opts) : option (list kv) :=
  let fuel := S (length m) in
  match k with
  | KRadix => g_run_iter radix_ops fuel (g_wrap radix_ops legacy (r_new m) o)
  | KPlain => g_run_iter ideal_ops fuel (g_wrap ideal_ops legacy (mkcur m CInv) o)
  | KBounded =>
      g_run_iter ideal_ops fuel (g_wrap ideal_ops legacy (get_iterator true (o_min o) (o_max o) (o_type o) m) o)
  | KPrefix =>
      g_run_iter prefix_ops fuel (g_wrap prefix_ops legacy (p_new (o_min o) (o_max o) (o_type o) m) o)
  end.

(* eng.GetIterator(opts) + a raw cursor script *)
Definition engine_cursor_script (k : ekind) (mn mx : option bytes) (tp : N) (m : smap) (l : list cop) : list cres :=
  match k with
  | KRadix => g_cops_run radix_ops false (r_new m) l
  | KPlain => g_cops_run ideal_ops false (mkcur m CInv) l
  | KBounded => g_cops_run ideal_ops false (get_iterator true mn mx tp m) l
  | KPrefix => g_cops_run prefix_ops false (p_new mn mx tp m) l
  end.

(* a read is prefix local when both bounds are set, are at least prefix_len long and share their prefix:
   what every range read of the data layer satisfies (one table, one data type) *)
Definition prefix_local (o : iter_opts) : bool :=
  match o_min o, o_max o with
  | Some mn, Some mx =>
      (prefix_len <=? length mn)%nat && (prefix_len <=? length mx)%nat && bytes_eqb (pfx mn) (pfx mx)
  | _, _ => false
  end.
