(* Eng/ProofsGen.v — C20: the wrapper over an arbitrary engine cursor (Eng/GenIter.v).
   A simulation theorem (cursors related op by op give the same wrapper result), the bridge to the ideal-cursor
   instance of Eng/RangeIter.v, and the three refinements: the radix iterator (mem), the clamped cursor (pebble)
   and, for prefix-local reads, the prefix_same_as_start cursor (rocksdb) all yield range_query. *)
From ZV Require Import Common.Bytes Common.BytesFacts Eng.Consts Eng.SortedMap Eng.Cursor Eng.RangeIter
  Eng.RadixIter Eng.GenIter Eng.ProofsOrder Eng.ProofsMap Eng.ProofsIter Eng.ProofsRadix.
Open Scope Z_scope.

(* ---------- simulation ---------- *)
Section Sim.
  Context {C1 C2 : Type} (o1 : cursor_ops C1) (o2 : cursor_ops C2) (R : C1 -> C2 -> Prop) (o : iter_opts).
  Hypothesis Hcur : forall a b, R a b -> op_cur o1 a = op_cur o2 b.
  Hypothesis Hnext : forall a b, R a b -> op_cur o1 a <> None -> R (op_next o1 a) (op_next o2 b).
  Hypothesis Hprev : forall a b, R a b -> op_cur o1 a <> None -> R (op_prev o1 a) (op_prev o2 b).
  (* each positioning operation only has to be simulated where the constructor uses it *)
  Hypothesis Hfirst : (o_reverse o = false /\ o_min o = None) \/ o_reverse o = true ->
                      forall a b, R a b -> R (op_first o1 a) (op_first o2 b).
  Hypothesis Hlast : o_reverse o = true /\ o_max o = None ->
                     forall a b, R a b -> R (op_last o1 a) (op_last o2 b).
  Hypothesis Hseek : o_reverse o = false ->
                     forall t a b, o_min o = Some t -> R a b -> R (op_seek o1 t a) (op_seek o2 t b).
  Hypothesis Hsfp : o_reverse o = true ->
                    forall t a b, o_max o = Some t -> R a b ->
                                  R (op_seek_for_prev o1 t a) (op_seek_for_prev o2 t b).

  Lemma sim_valid a b s : R a b -> g_valid o1 (mkgw a o s) = g_valid o2 (mkgw b o s).
  Proof. intro H. unfold g_valid. cbn [gw_cur gw_opts gw_step]. now rewrite (Hcur a b H). Qed.

  Lemma sim_cvalid a b : R a b -> g_cvalid o1 a = g_cvalid o2 b.
  Proof. intro H. unfold g_cvalid. now rewrite (Hcur a b H). Qed.

  Lemma sim_key_cmp a b t : R a b -> g_key_cmp o1 a t = g_key_cmp o2 b t.
  Proof. intro H. unfold g_key_cmp. now rewrite (Hcur a b H). Qed.

  Lemma key_cmp_cur a t r : g_key_cmp o1 a t = Some r -> op_cur o1 a <> None.
  Proof. unfold g_key_cmp. destruct (op_cur o1 a); [discriminate|discriminate]. Qed.

  Lemma valid_cur a s : g_valid o1 (mkgw a o s) = true -> op_cur o1 a <> None.
  Proof.
    unfold g_valid. cbn [gw_cur gw_opts gw_step]. destruct (o_offset o <? 0); [discriminate|].
    destruct (_ && _); [discriminate|]. destruct (op_cur o1 a); [discriminate|discriminate].
  Qed.

  Lemma sim_step a b : R a b -> op_cur o1 a <> None -> R (g_step_cursor o1 o a) (g_step_cursor o2 o b).
  Proof. intros H Hc. unfold g_step_cursor. destruct (o_reverse o); auto. Qed.

  Lemma sim_init legacy a b : R a b -> R (g_init_seek o1 legacy o a) (g_init_seek o2 legacy o b).
  Proof.
    intro H. unfold g_init_seek. destruct (o_reverse o) eqn:Hrev; simpl.
    - destruct (o_max o) as [mx|] eqn:Hmx; [|apply Hlast; auto].
      pose proof (Hsfp eq_refl mx a b eq_refl H) as H1.
      set (a1 := op_seek_for_prev o1 mx a) in *. set (b1 := op_seek_for_prev o2 mx b) in *.
      assert (H2 : R (if g_cvalid o1 a1 then a1
                      else match g_key_cmp o1 (op_first o1 a1) mx with
                           | Some Gt => if legacy then op_first o1 a1 else op_prev o1 (op_first o1 a1)
                           | _ => op_first o1 a1 end)
                     (if g_cvalid o2 b1 then b1
                      else match g_key_cmp o2 (op_first o2 b1) mx with
                           | Some Gt => if legacy then op_first o2 b1 else op_prev o2 (op_first o2 b1)
                           | _ => op_first o2 b1 end)).
      { rewrite <- (sim_cvalid a1 b1 H1). destruct (g_cvalid o1 a1); auto.
        pose proof (Hfirst (or_intror eq_refl) a1 b1 H1) as Hf. rewrite <- (sim_key_cmp _ _ mx Hf).
        destruct (g_key_cmp o1 (op_first o1 a1) mx) as [[| |]|] eqn:E; auto.
        destruct legacy; auto. apply Hprev; auto. eapply key_cmp_cur; eauto. }
      destruct (has_flag (o_type o) range_ropen); auto.
      rewrite <- (sim_key_cmp _ _ mx H2).
      match goal with |- R (match ?k with _ => _ end) _ => destruct k as [r|] eqn:E end; auto.
      destruct (geb_cmp r); auto. apply Hprev; auto. eapply key_cmp_cur; eauto.
    - destruct (o_min o) as [mn|] eqn:Hmn; [|apply Hfirst; auto].
      pose proof (Hseek eq_refl mn a b eq_refl H) as H1.
      destruct (has_flag (o_type o) range_lopen); auto.
      rewrite <- (sim_key_cmp _ _ mn H1).
      destruct (g_key_cmp o1 (op_seek o1 mn a) mn) as [r|] eqn:E; auto.
      destruct (leb_cmp r); auto. apply Hnext; auto. eapply key_cmp_cur; eauto.
  Qed.

  Lemma sim_skip : forall n a b s, R a b ->
    exists a' b', g_skip_offset o1 n (mkgw a o s) = mkgw a' o s /\
                  g_skip_offset o2 n (mkgw b o s) = mkgw b' o s /\ R a' b'.
  Proof.
    induction n as [|n IH]; intros a b s H; simpl.
    - exists a, b. auto.
    - rewrite <- (sim_valid a b s H). destruct (g_valid o1 (mkgw a o s)) eqn:E.
      + cbn [gw_cur gw_opts gw_step]. apply IH. apply sim_step; auto. eapply valid_cur; eauto.
      + exists a, b. auto.
  Qed.

  Lemma sim_run : forall fuel a b s, R a b ->
    g_run_iter o1 fuel (mkgw a o s) = g_run_iter o2 fuel (mkgw b o s).
  Proof.
    induction fuel as [|f IH]; intros a b s H; simpl; auto.
    rewrite <- (sim_valid a b s H). destruct (g_valid o1 (mkgw a o s)) eqn:E; auto.
    cbn [gw_cur]. rewrite <- (Hcur a b H). destruct (op_cur o1 a) eqn:Ec; auto.
    unfold g_next. cbn [gw_cur gw_opts gw_step].
    rewrite (IH (g_step_cursor o1 o a) (g_step_cursor o2 o b) (s + 1)); auto.
    apply sim_step; auto. congruence.
  Qed.

  Theorem sim_wrap legacy fuel a b : R a b ->
    g_run_iter o1 fuel (g_wrap o1 legacy a o) = g_run_iter o2 fuel (g_wrap o2 legacy b o).
  Proof.
    intro H. unfold g_wrap. destruct (o_offset o <? 0).
    - now apply sim_run.
    - destruct (sim_skip (Z.to_nat (o_offset o)) _ _ 0 (sim_init legacy a b H)) as (a' & b' & -> & -> & H').
      now apply sim_run.
  Qed.

  Lemma sim_cops : forall l started a b, R a b ->
    (forall a b, R a b -> R (op_first o1 a) (op_first o2 b)) ->
    (forall a b, R a b -> R (op_last o1 a) (op_last o2 b)) ->
    (forall t a b, R a b -> R (op_seek o1 t a) (op_seek o2 t b)) ->
    (forall t a b, R a b -> R (op_seek_for_prev o1 t a) (op_seek_for_prev o2 t b)) ->
    g_cops_run o1 started a l = g_cops_run o2 started b l.
  Proof.
    induction l as [|x r IH]; intros started a b H Hf Hl Hs Hp; simpl; auto.
    destruct x as [| |t|t| |]; simpl.
    - rewrite (Hcur _ _ (Hf a b H)). f_equal. apply IH; auto.
    - rewrite (Hcur _ _ (Hl a b H)). f_equal. apply IH; auto.
    - rewrite (Hcur _ _ (Hs t a b H)). f_equal. apply IH; auto.
    - rewrite (Hcur _ _ (Hp t a b H)). f_equal. apply IH; auto.
    - rewrite <- (sim_cvalid a b H). destruct (started && g_cvalid o1 a) eqn:E; simpl.
      + apply andb_true_iff in E as [_ E]. unfold g_cvalid in E.
        assert (op_cur o1 a <> None) as Hc by (destruct (op_cur o1 a); [discriminate|discriminate]).
        rewrite (Hcur _ _ (Hnext a b H Hc)). f_equal. apply IH; auto.
      + f_equal. apply IH; auto.
    - rewrite <- (sim_cvalid a b H). destruct (started && g_cvalid o1 a) eqn:E; simpl.
      + apply andb_true_iff in E as [_ E]. unfold g_cvalid in E.
        assert (op_cur o1 a <> None) as Hc by (destruct (op_cur o1 a); [discriminate|discriminate]).
        rewrite (Hcur _ _ (Hprev a b H Hc)). f_equal. apply IH; auto.
      + f_equal. apply IH; auto.
  Qed.
End Sim.

(* ---------- the ideal instance is Eng/RangeIter.v ---------- *)
Definition to_w (g : @gwiter cursor) : witer := mkwit (gw_cur g) (gw_opts g) (gw_step g).

Lemma cvalid_ideal c : g_cvalid ideal_ops c = c_valid c.
Proof. unfold g_cvalid, c_valid. simpl. unfold c_cur. now destruct (c_pos c). Qed.

Lemma valid_ideal g : g_valid ideal_ops g = w_valid (to_w g).
Proof. reflexivity. Qed.

Lemma init_ideal legacy o c : g_init_seek ideal_ops legacy o c = init_seek legacy o c.
Proof.
  unfold g_init_seek, init_seek. destruct (o_reverse o); simpl; auto.
  destruct (o_max o) as [mx|]; auto. simpl. now rewrite cvalid_ideal.
Qed.

Lemma skip_ideal : forall n g, to_w (g_skip_offset ideal_ops n g) = skip_offset n (to_w g).
Proof.
  induction n as [|n IH]; intro g; simpl; auto.
  rewrite valid_ideal. destruct (w_valid (to_w g)); auto. now rewrite IH.
Qed.

Lemma run_ideal : forall fuel g, g_run_iter ideal_ops fuel g = run_iter fuel (to_w g).
Proof.
  induction fuel as [|f IH]; intro g; simpl; auto.
  rewrite valid_ideal. destruct (w_valid (to_w g)); auto.
  destruct (c_cur (gw_cur g)); auto. now rewrite IH.
Qed.

Lemma wrap_ideal legacy c o : to_w (g_wrap ideal_ops legacy c o) = wrap legacy c o.
Proof.
  unfold g_wrap, wrap. destruct (o_offset o <? 0); auto.
  rewrite skip_ideal. unfold to_w at 1. simpl. now rewrite init_ideal.
Qed.

Lemma cops_ideal : forall l started c, g_cops_run ideal_ops started c l = cops_run started c l.
Proof.
  induction l as [|x r IH]; intros started c; simpl; auto.
  destruct x; simpl; rewrite ?cvalid_ideal; try (now rewrite IH).
  - destruct (started && c_valid c); simpl; now rewrite IH.
  - destruct (started && c_valid c); simpl; now rewrite IH.
Qed.

Lemma ideal_view_correct o v fuel :
  ksorted v -> (length v < fuel)%nat ->
  g_run_iter ideal_ops fuel (g_wrap ideal_ops false (mkcur v CInv) o) = Some (range_query v o).
Proof. intros Hs Hf. rewrite run_ideal, wrap_ideal. now apply wrap_view_correct_fuel. Qed.

Lemma filter_length_le {A} (p : A -> bool) l : (length (filter p l) <= length l)%nat.
Proof. induction l as [|x l IH]; simpl; [lia|]. destruct (p x); simpl; lia. Qed.

(* ---------- pebble: the clamped ideal cursor ---------- *)
Lemma bounded_correct m o :
  ksorted m -> engine_range_limit false KBounded m o = Some (range_query m o).
Proof.
  intro Hs. unfold engine_range_limit, get_iterator.
  rewrite ideal_view_correct.
  - f_equal. apply range_query_view.
  - now apply engine_view_sorted.
  - unfold engine_view. apply Nat.lt_succ_r. apply filter_length_le.
Qed.

Lemma plain_correct m o :
  ksorted m -> engine_range_limit false KPlain m o = Some (range_query m o).
Proof. intro Hs. unfold engine_range_limit. apply ideal_view_correct; auto. Qed.

(* ---------- mem: the radix iterator ---------- *)
Definition rrel_s (it : riter) (c : cursor) : Prop := rrel it c /\ ksorted (c_view c).

Lemma radix_correct m o :
  ksorted m -> engine_range_limit false KRadix m o = Some (range_query m o).
Proof.
  intro Hs. unfold engine_range_limit.
  rewrite (sim_wrap radix_ops ideal_ops rrel_s o) with (b := mkcur m CInv).
  - apply ideal_view_correct; auto.
  - intros a b [H _]. simpl. apply (rrel_cur _ _ H).
  - intros a b [H Hk] Hc. simpl in *. split; [|exact Hk]. apply rrel_next; auto.
    destruct (rrel_cur _ _ H) as [H1 _]. unfold c_valid. unfold c_cur in H1.
    destruct (c_pos b); auto; try congruence.
  - intros a b [H Hk] Hc. simpl in *. split; [|exact Hk]. apply rrel_prev; auto.
    destruct (rrel_cur _ _ H) as [H1 _]. unfold c_valid. unfold c_cur in H1.
    destruct (c_pos b); auto; try congruence.
  - intros _ a b [H Hk]. simpl. split; [apply rrel_first; apply (rrel_view _ _ H)|exact Hk].
  - intros _ a b [H Hk]. simpl. split; [apply rrel_last; apply (rrel_view _ _ H)|exact Hk].
  - intros _ t a b _ [H Hk]. simpl. split; [apply rrel_seek; apply (rrel_view _ _ H)|exact Hk].
  - intros _ t a b _ [H Hk]. simpl. split; [apply rrel_seek_for_prev; auto; apply (rrel_view _ _ H)|exact Hk].
  - split; auto. unfold rrel, r_new, c_wf. simpl. auto.
Qed.

Lemma rops_generic : forall l started it, g_cops_run radix_ops started it l = rops_run started it l.
Proof. induction l as [|x r IH]; intros started it; simpl; auto. Qed.

(* ---------- rocksdb: the prefix_same_as_start cursor, for prefix-local reads ---------- *)
Lemma pfx_app a x : (prefix_len <= length a)%nat -> pfx (a ++ x) = pfx a.
Proof.
  intro H. unfold pfx. rewrite firstn_app.
  replace (prefix_len - length a)%nat with 0%nat by lia. simpl. apply app_nil_r.
Qed.

Lemma seek_split_all p v : (forall y, In y v -> p (fst y) = true) -> seek_split p [] v = (rev v, []).
Proof.
  intro H. rewrite <- (app_nil_r v) at 1. rewrite seek_split_app by exact H. simpl. now rewrite app_nil_r.
Qed.

Section Prefix.
  Variables (m : smap) (o : iter_opts) (mn mx : bytes).
  Hypothesis Hmin : o_min o = Some mn.
  Hypothesis Hmax : o_max o = Some mx.
  Hypothesis Hlmn : (prefix_len <= length mn)%nat.
  Hypothesis Hlmx : (prefix_len <= length mx)%nat.
  Hypothesis Hpfx : pfx mn = pfx mx.
  Hypothesis Hs : ksorted m.

  Let ub : bytes := if has_flag (o_type o) range_ropen then mx else mx ++ [0%N].
  Let bv : smap := engine_view true (Some mn) (Some mx) (o_type o) m.
  Let V : smap := filter (same_pfx (pfx mn)) bv.

  Lemma pfx_ub : pfx ub = pfx mn.
  Proof. unfold ub. destruct (has_flag _ _); [auto|]. rewrite pfx_app; auto. Qed.

  Lemma bv_bounds e : In e bv -> bytes_leb mn (fst e) = true /\ bytes_ltb (fst e) ub = true.
  Proof.
    unfold bv, engine_view. intro H. apply filter_In in H as [_ H].
    unfold in_bounds, upper_bound in H. apply andb_true_iff in H as [H1 H2]. split; auto.
    unfold ub. destruct (has_flag _ _); auto.
  Qed.

  Lemma V_bounds e : In e V -> bytes_leb mn (fst e) = true /\ bytes_ltb (fst e) ub = true.
  Proof. unfold V. intro H. apply filter_In in H as [H _]. now apply bv_bounds. Qed.

  Lemma V_sorted : ksorted V.
  Proof. unfold V, bv. apply ssorted_filter. now apply engine_view_sorted. Qed.

  Definition prel (pc : pcursor) (c : cursor) : Prop :=
    p_bv pc = bv /\ p_lb pc = Some mn /\ p_ub pc = Some ub /\ c_view c = V /\ c_pos (p_cur pc) = c_pos c.

  Lemma prel_restrict pc : p_bv pc = bv -> p_restrict pc (pfx mn) = mkcur V CInv.
  Proof. intro H. unfold p_restrict. now rewrite H. Qed.

  Lemma prel_seek t pc c : pfx t = pfx mn -> prel pc c -> prel (p_seek t pc) (c_seek t c).
  Proof.
    intros Ht (H1 & H2 & H3 & H4 & H5). unfold prel, p_seek, p_with. simpl. repeat split; auto.
    rewrite Ht, H1, H4. reflexivity.
  Qed.

  Lemma prel_seek_for_prev t pc c :
    pfx t = pfx mn -> prel pc c -> prel (p_seek_for_prev t pc) (c_seek_for_prev t c).
  Proof.
    intros Ht (H1 & H2 & H3 & H4 & H5). unfold prel, p_seek_for_prev, p_with. simpl. repeat split; auto.
    rewrite Ht, H1, H4. reflexivity.
  Qed.

  Lemma prel_first pc c : prel pc c -> prel (p_first pc) (c_first c).
  Proof.
    intros (H1 & H2 & H3 & H4 & H5). unfold p_first. rewrite H2.
    unfold prel, p_seek, p_with. simpl. repeat split; auto.
    rewrite H1, H4. change (filter (same_pfx (pfx mn)) bv) with V.
    rewrite seek_split_stop; [reflexivity|].
    pose proof V_bounds as Hb. destruct V as [|x r]; auto.
    destruct (Hb x (or_introl eq_refl)) as [Hl _]. rewrite bytes_ltb_leb, Hl. reflexivity.
  Qed.

  Lemma prel_last pc c : prel pc c -> prel (p_last pc) (c_last c).
  Proof.
    intros (H1 & H2 & H3 & H4 & H5). unfold p_last. rewrite H3.
    unfold prel, p_seek_for_prev, p_with. simpl. repeat split; auto.
    rewrite pfx_ub, H1, H4. change (filter (same_pfx (pfx mn)) bv) with V.
    rewrite seek_split_all.
    - reflexivity.
    - intros y Hy. apply bytes_ltb_leb_weak. now apply V_bounds.
  Qed.

  Lemma prel_next pc c : prel pc c -> prel (p_next pc) (c_next c).
  Proof.
    intros (H1 & H2 & H3 & H4 & H5). unfold prel, p_next, p_with, c_next. simpl. repeat split; auto.
    now rewrite H5.
  Qed.

  Lemma prel_prev pc c : prel pc c -> prel (p_prev pc) (c_prev c).
  Proof.
    intros (H1 & H2 & H3 & H4 & H5). unfold prel, p_prev, p_with, c_prev. simpl. repeat split; auto.
    now rewrite H5.
  Qed.

  Lemma prel_cur pc c : prel pc c -> c_cur (p_cur pc) = c_cur c.
  Proof. intros (_ & _ & _ & _ & H). unfold c_cur. now rewrite H. Qed.

  (* the prefix-confined view answers the query like the whole store *)
  Lemma range_query_V : range_query V o = range_query m o.
  Proof.
    unfold range_query. destruct (o_offset o <? 0); auto.
    assert (filter (fun e => in_range o (fst e)) V = filter (fun e => in_range o (fst e)) m) as ->; auto.
    unfold V, bv, engine_view. rewrite <- !filter_andb. apply filter_ext. intros [k v]. simpl.
    destruct (in_range o k) eqn:E; [|now rewrite !andb_false_r].
    pose proof (in_range_in_bounds o k E) as Hb. rewrite Hmin, Hmax in Hb. rewrite Hb. simpl.
    rewrite andb_true_r. unfold same_pfx. simpl. apply bytes_eqb_eq.
    unfold in_range in E. rewrite Hmin, Hmax in E. apply andb_true_iff in E as [E1 E2].
    unfold pfx. apply (between_shares_prefix prefix_len mn mx k); auto.
    - destruct (has_flag _ range_lopen); auto. now apply bytes_ltb_leb_weak.
    - destruct (has_flag _ range_ropen); auto. now apply bytes_ltb_leb_weak.
  Qed.

  Lemma prefix_correct_section :
    engine_range_limit false KPrefix m o = Some (range_query m o).
  Proof.
    unfold engine_range_limit.
    rewrite (sim_wrap prefix_ops ideal_ops prel o) with (b := mkcur V CInv).
    - rewrite ideal_view_correct; [now rewrite range_query_V|apply V_sorted|].
      apply Nat.lt_succ_r. unfold V, bv, engine_view.
      etransitivity; [apply filter_length_le|apply filter_length_le].
    - intros a b H. simpl. now apply prel_cur.
    - intros a b H _. simpl. now apply prel_next.
    - intros a b H _. simpl. now apply prel_prev.
    - intros _ a b H. simpl. now apply prel_first.
    - intros _ a b H. simpl. now apply prel_last.
    - intros _ t a b Ht H. simpl. rewrite Hmin in Ht. injection Ht as <-. now apply prel_seek.
    - intros _ t a b Ht H. simpl. rewrite Hmax in Ht. injection Ht as <-. apply prel_seek_for_prev; auto.
    - unfold prel, p_new. rewrite Hmin, Hmax. simpl. repeat split; auto.
      unfold ub. now destruct (has_flag (o_type o) range_ropen).
  Qed.
End Prefix.

(* forward reads only seek with Min: it is enough that every key of the range carries Min's prefix, whatever
   Max is (FULLSCAN of a table: Min = type|table|':' , Max = type|table|';') *)
Section PrefixForward.
  Variables (m : smap) (o : iter_opts) (mn : bytes).
  Hypothesis Hfwd : o_reverse o = false.
  Hypothesis Hmin : o_min o = Some mn.
  Hypothesis Hin : forall k, in_range o k = true -> pfx k = pfx mn.
  Hypothesis Hs : ksorted m.

  Let bv : smap := engine_view true (o_min o) (o_max o) (o_type o) m.
  Let V : smap := filter (same_pfx (pfx mn)) bv.

  Definition prelf (pc : pcursor) (c : cursor) : Prop :=
    p_bv pc = bv /\ c_view c = V /\ c_pos (p_cur pc) = c_pos c.

  Lemma range_query_Vf : range_query V o = range_query m o.
  Proof.
    unfold range_query. destruct (o_offset o <? 0); auto.
    assert (filter (fun e => in_range o (fst e)) V = filter (fun e => in_range o (fst e)) m) as ->; auto.
    unfold V, bv, engine_view. rewrite <- !filter_andb. apply filter_ext. intros [k v]. simpl.
    destruct (in_range o k) eqn:E; [|now rewrite !andb_false_r].
    rewrite (in_range_in_bounds o k E). simpl. rewrite andb_true_r. unfold same_pfx. simpl.
    apply bytes_eqb_eq. now apply Hin.
  Qed.

  Lemma prefix_forward_correct_section :
    engine_range_limit false KPrefix m o = Some (range_query m o).
  Proof.
    unfold engine_range_limit.
    rewrite (sim_wrap prefix_ops ideal_ops prelf o) with (b := mkcur V CInv).
    - rewrite ideal_view_correct; [now rewrite range_query_Vf| |].
      + unfold V, bv. apply ssorted_filter. now apply engine_view_sorted.
      + apply Nat.lt_succ_r. unfold V, bv, engine_view.
        etransitivity; [apply filter_length_le|apply filter_length_le].
    - intros a b (_ & _ & H). simpl. unfold c_cur. now rewrite H.
    - intros a b (H1 & H2 & H3) _. simpl. unfold prelf, p_next, p_with, c_next. simpl. repeat split; auto.
      now rewrite H3.
    - intros a b (H1 & H2 & H3) _. simpl. unfold prelf, p_prev, p_with, c_prev. simpl. repeat split; auto.
      now rewrite H3.
    - intros [[_ Hn]|Hr]; [rewrite Hmin in Hn; discriminate|rewrite Hfwd in Hr; discriminate].
    - intros [Hr _]. rewrite Hfwd in Hr. discriminate.
    - intros _ t a b Ht (H1 & H2 & H3). rewrite Hmin in Ht. injection Ht as <-. simpl.
      unfold prelf, p_seek, p_with. simpl. repeat split; auto. rewrite H1, H2. reflexivity.
    - intros Hr. rewrite Hfwd in Hr. discriminate.
    - unfold prelf, p_new. simpl. repeat split; auto.
  Qed.
End PrefixForward.

Theorem prefix_forward_correct m o mn :
  ksorted m -> o_reverse o = false -> o_min o = Some mn ->
  (forall k, in_range o k = true -> pfx k = pfx mn) ->
  engine_range_limit false KPrefix m o = Some (range_query m o).
Proof. intros Hs Hf Hm Hi. now apply (prefix_forward_correct_section m o mn). Qed.

Theorem prefix_correct m o :
  ksorted m -> prefix_local o = true -> engine_range_limit false KPrefix m o = Some (range_query m o).
Proof.
  intros Hs Hp. unfold prefix_local in Hp.
  destruct (o_min o) as [mn|] eqn:Hmn; [|discriminate]. destruct (o_max o) as [mx|] eqn:Hmx; [|discriminate].
  apply andb_true_iff in Hp as [Hp H3]. apply andb_true_iff in Hp as [H1 H2].
  apply Nat.leb_le in H1, H2. apply bytes_eqb_eq in H3.
  now apply (prefix_correct_section m o mn mx).
Qed.

(* one statement for all four engine kinds *)
Definition read_in_contract (k : ekind) (o : iter_opts) : bool :=
  match k with KPrefix => prefix_local o | _ => true end.

Theorem engine_range_limit_correct k m o :
  ksorted m -> read_in_contract k o = true -> engine_range_limit false k m o = Some (range_query m o).
Proof.
  intros Hs Hc. destruct k.
  - now apply radix_correct.
  - now apply plain_correct.
  - now apply bounded_correct.
  - now apply prefix_correct.
Qed.
