(* Eng/RangeIter.v — C20: the range/limit iterator wrapper shared by all engines.
   Transcribes engine/iterator.go:
     rangeLimitIterator (constructor: initial seek, open-bound adjustment, the reverse fallback, the offset loop),
     RangeLimitedIterator.Valid, RangeLimitedIterator.Next,
     NewDBRangeLimitIteratorWithOpts / NewDBRangeIteratorWithOpts (the latter: Limit{0,-1}),
   over the cursor of Eng/Cursor.v, and the declarative answer range_query.
   [legacy = true] is the constructor as it was before the fix f53be95 (reverse fallback left the
   cursor on the first key even when that key is above Max); [legacy = false] is the code in /repo.
   No proofs in this file. *)
From ZV Require Export Common.Bytes Eng.SortedMap Eng.Cursor.
From ZV Require Import Eng.Consts.
Open Scope Z_scope.

Record iter_opts := mkopts {
  o_min : option bytes;   (* nil = None *)
  o_max : option bytes;
  o_type : N;             (* common.RangeClose / RangeLOpen / RangeROpen / RangeOpen (bit flags) *)
  o_offset : Z;
  o_count : Z;
  o_reverse : bool
}.

Record witer := mkwit { w_cur : cursor; w_opts : iter_opts; w_step : Z }.

Definition gtb_cmp (c : comparison) : bool := match c with Gt => true | _ => false end.
Definition geb_cmp (c : comparison) : bool := match c with Lt => false | _ => true end.
Definition ltb_cmp (c : comparison) : bool := match c with Lt => true | _ => false end.
Definition leb_cmp (c : comparison) : bool := match c with Gt => false | _ => true end.

(* RangeLimitedIterator.Valid *)
Definition w_valid (w : witer) : bool :=
  let o := w_opts w in
  if o_offset o <? 0 then false
  else if (0 <=? o_count o) && (o_count o <=? w_step w) then false
  else match c_cur (w_cur w) with
       | None => false
       | Some (k, _) =>
           if negb (o_reverse o) then
             match o_max o with
             | Some mx =>
                 let r := bytes_cmp k mx in
                 if has_flag (o_type o) range_ropen then negb (geb_cmp r) else negb (gtb_cmp r)
             | None => true
             end
           else
             match o_min o with
             | Some mn =>
                 let r := bytes_cmp k mn in
                 if has_flag (o_type o) range_lopen then negb (leb_cmp r) else negb (ltb_cmp r)
             | None => true
             end
       end.

(* RangeLimitedIterator.Next *)
Definition w_next (w : witer) : witer :=
  mkwit (if o_reverse (w_opts w) then c_prev (w_cur w) else c_next (w_cur w))
        (w_opts w) (w_step w + 1).

Definition key_cmp (c : cursor) (t : bytes) : option comparison :=
  match c_cur c with Some (k, _) => Some (bytes_cmp k t) | None => None end.

(* the initial positioning of rangeLimitIterator *)
Definition init_seek (legacy : bool) (o : iter_opts) (c : cursor) : cursor :=
  if negb (o_reverse o) then
    match o_min o with
    | None => c_first c
    | Some mn =>
        let c := c_seek mn c in
        if has_flag (o_type o) range_lopen then
          match key_cmp c mn with
          | Some r => if leb_cmp r then c_next c else c
          | None => c
          end
        else c
    end
  else
    match o_max o with
    | None => c_last c
    | Some mx =>
        let c := c_seek_for_prev mx c in
        let c :=
          if c_valid c then c
          else
            let c := c_first c in
            match key_cmp c mx with
            | Some Gt => if legacy then c else c_prev c
            | _ => c
            end in
        if has_flag (o_type o) range_ropen then
          match key_cmp c mx with
          | Some r => if geb_cmp r then c_prev c else c
          | None => c
          end
        else c
    end.

(* for i := 0; i < l.Offset; i++ { if !it.Valid() { break }; it.Iterator.Next()/Prev() }
   — the embedded cursor moves, step stays 0 *)
Fixpoint skip_offset (n : nat) (w : witer) : witer :=
  match n with
  | O => w
  | S n' =>
      if w_valid w then
        skip_offset n' (mkwit (if o_reverse (w_opts w) then c_prev (w_cur w) else c_next (w_cur w))
                              (w_opts w) (w_step w))
      else w
  end.

Definition wrap (legacy : bool) (c : cursor) (o : iter_opts) : witer :=
  let w := mkwit c o 0 in
  if o_offset o <? 0 then w
  else skip_offset (Z.to_nat (o_offset o)) (mkwit (init_seek legacy o c) o 0).

(* for ; it.Valid(); it.Next() { collect it.Key(), it.Value() }; None = ran out of fuel or read an
   invalid cursor (neither happens: theorem wrapper_correct) *)
Fixpoint run_iter (fuel : nat) (w : witer) : option (list kv) :=
  match fuel with
  | O => None
  | S f =>
      if w_valid w then
        match c_cur (w_cur w) with
        | Some e => match run_iter f (w_next w) with Some l => Some (e :: l) | None => None end
        | None => None
        end
      else Some []
  end.

Definition iterate (w : witer) : option (list kv) :=
  run_iter (S (length (c_view (w_cur w)))) w.

(* NewDBRangeLimitIteratorWithOpts(engine, opts) walked to the end *)
Definition db_range_limit (legacy bounded : bool) (m : smap) (o : iter_opts) : option (list kv) :=
  iterate (wrap legacy (get_iterator bounded (o_min o) (o_max o) (o_type o) m) o).
(* NewDBRangeIteratorWithOpts: Limit{0, -1} *)
Definition no_limit (o : iter_opts) : iter_opts :=
  mkopts (o_min o) (o_max o) (o_type o) 0 (-1) (o_reverse o).
Definition db_range (legacy bounded : bool) (m : smap) (o : iter_opts) : option (list kv) :=
  db_range_limit legacy bounded m (no_limit o).

(* ----- the declarative answer ----- *)
Definition in_range (o : iter_opts) (k : bytes) : bool :=
  (match o_min o with
   | None => true
   | Some mn => if has_flag (o_type o) range_lopen then bytes_ltb mn k else bytes_leb mn k
   end) &&
  (match o_max o with
   | None => true
   | Some mx => if has_flag (o_type o) range_ropen then bytes_ltb k mx else bytes_leb k mx
   end).

Definition range_query (m : smap) (o : iter_opts) : list kv :=
  if o_offset o <? 0 then []
  else
    let l := filter (fun e => in_range o (fst e)) m in
    let l := if o_reverse o then rev l else l in
    let l := skipn (Z.to_nat (o_offset o)) l in
    if o_count o <? 0 then l else firstn (Z.to_nat (o_count o)) l.

(* NoTimestamp(vt): values of KV / hash type lose their trailing timestamp *)
Definition strip_ts (vt : N) (v : bytes) : bytes :=
  if ((vt =? kv_type)%N || (vt =? hash_type)%N) && (ts_len <=? length v)%nat
  then firstn (length v - ts_len) v else v.
