(* driver for the C20 model: reads "<id>\tS\t<engine>\t<script>" lines, prints "<id>\t<results>" *)
open Model
open Vio

let ob s = if s = "~" then None else Some (bytes_of_hex s)
let hb s = bytes_of_hex (if s = "~" then "-" else s)
let hv = function None -> "nil" | Some v -> hex_of_bytes v
let kvs (k, v) = hex_of_bytes k ^ "=" ^ hex_of_bytes v
let zi s = z_of_int (int_of_string s)
let ni s = n_of_int (int_of_string s)

let cop_of (s : string) : cop =
  let arg () = hb (String.sub s 1 (String.length s - 1)) in
  match s.[0] with
  | 'F' -> OFirst | 'L' -> OLast | 'S' -> OSeek (arg ()) | 'R' -> OSeekForPrev (arg ())
  | 'N' -> ONext | 'P' -> OPrev
  | _ -> failwith ("bad cursor op " ^ s)

let step_of (st : string) : step =
  match split_on ' ' st with
  | ["P"; k; v] -> SPut (hb k, hb v)
  | ["D"; k] -> SDel (hb k)
  | ["R"; a; b] -> SDelRange (hb a, hb b)
  | ["M"; k; v] -> SMerge (hb k, hb v)
  | ["C"] | ["c"] | ["Q"] -> SCommit
  | ["B"; _] | ["Y"; _] | ["Z"; _] -> SOtherBatch
  | ["X"] -> SClear
  | ["N"] | ["W"] -> SNewBatch
  | ["F"] -> SFlush
  | ["G"; k] -> SGet (hb k)
  | ["E"; k] -> SExist (hb k)
  | ["T"; ks] -> SMultiGet (List.map hb (split_on ',' ks))
  | ["I"; mn; mx; tp; rev; off; cnt; ts; _snap] ->
    SIter ({ o_min = ob mn; o_max = ob mx; o_type = ni tp; o_offset = zi off; o_count = zi cnt;
             o_reverse = (rev = "1") }, ni ts)
  | ["J"; mn; mx; tp; rev; ts; _snap] ->
    SRangeIter ({ o_min = ob mn; o_max = ob mx; o_type = ni tp; o_offset = zi "0"; o_count = zi "0";
                  o_reverse = (rev = "1") }, ni ts)
  | ["K"; mn; mx; tp; ops] -> SCursor (ob mn, ob mx, ni tp, List.map cop_of (split_on ',' ops))
  | _ -> failwith ("bad step " ^ st)

let show = function
  | RNone -> None
  | RCommit ok -> Some (if ok then "ok" else "err")
  | RVal v -> Some (hv v)
  | RBool b -> Some (if b then "1" else "0")
  | RVals vs -> Some (String.concat "," (List.map hv vs))
  | RKVs None -> Some "fault"
  | RKVs (Some l) -> Some (String.concat "," (List.map kvs l))
  | RCursor l ->
    Some (String.concat "," (List.map (function XSkipped -> "-" | XInvalid -> "!" | XAt e -> kvs e) l))

let () =
  read_lines stdin (fun line ->
    match split_on '\t' line with
    | id :: "S" :: eng :: script :: _ ->
      let kind = (if eng = "rocksdb" then KPrefix else if eng = "pebble" then KBounded else if eng = "mem" then KRadix else KPlain) in
      let steps = List.map step_of (split_on ';' script) in
      let rs = run_script kind db_empty steps in
      let outs = List.filter_map show rs in
      Printf.printf "%s\t%s\n" id (String.concat "|" outs)
    | id :: "X" :: k1 :: k2 :: _ ->
      let a = hb k1 and b = hb k2 in
      let e1 = to_index_key a and e2 = to_index_key b in
      let sgn = (match bytes_cmp e1 e2 with Eq -> "0" | Lt -> "-1" | Gt -> "1") in
      Printf.printf "%s\t%s %s %s %s\n" id (hex_of_bytes e1) (hex_of_bytes (from_index_key e1)) sgn
        (if is_prefix e1 e2 then "1" else "0")
    | _ -> ())
