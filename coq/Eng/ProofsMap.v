(* Eng/ProofsMap.v — C20: laws of the sorted-map reference (Eng/SortedMap.v) *)
From ZV Require Import Common.Bytes Common.BytesFacts Eng.SortedMap Eng.ProofsOrder.
Open Scope N_scope.

Definition klt (a b : kv) : Prop := bytes_ltb (fst a) (fst b) = true.
Definition ksorted (m : smap) : Prop := ssorted klt m.

Lemma klt_trans a b c : klt a b -> klt b c -> klt a c.
Proof. unfold klt. apply bytes_ltb_trans. Qed.

(* the boolean check is the strict-order invariant *)
Lemma sortedb_ksorted m : sortedb m = true <-> ksorted m.
Proof.
  unfold ksorted. induction m as [|[k v] m IH]; simpl; [tauto|].
  destruct m as [|[k' v'] m'].
  - simpl. split; auto. intros _. split; auto. intros y [].
  - rewrite andb_true_iff, IH. split.
    + intros [Hk Hs]. split; auto. intros y [Hy|Hy].
      * subst. exact Hk.
      * apply (klt_trans _ (k', v')); [exact Hk|]. destruct Hs as [Hs _]. now apply Hs.
    + intros [Hk Hs]. split; auto. apply (Hk (k', v')). now left.
Qed.

Lemma ksorted_tail e m : ksorted (e :: m) -> ksorted m.
Proof. intros [_ H]; exact H. Qed.

Lemma find_lt_head k k' v' r :
  ksorted ((k', v') :: r) -> bytes_cmp k k' = Lt -> sm_find k r = None.
Proof.
  intros [Hh _] Hlt. destruct r as [|[k2 v2] r2]; simpl; auto.
  assert (bytes_ltb k' k2 = true) as H2 by (apply (Hh (k2, v2)); now left).
  apply bytes_ltb_lt in Hlt. pose proof (bytes_ltb_trans _ _ _ Hlt H2) as H3.
  apply bytes_ltb_lt in H3. now rewrite H3.
Qed.

(* ---------- find / membership ---------- *)
Lemma find_in k v m : ksorted m -> (sm_find k m = Some v <-> In (k, v) m).
Proof.
  intros Hs. induction m as [|[k' v'] r IH]; simpl.
  - split; [discriminate|tauto].
  - destruct (bytes_cmp k k') eqn:E.
    + apply bytes_cmp_eq in E. subst k'. split.
      * intros [= ->]. now left.
      * intros [[= ->]|Hin]; auto. destruct Hs as [Hh _]. specialize (Hh _ Hin).
        unfold klt in Hh. simpl in Hh. rewrite bytes_ltb_irrefl in Hh. discriminate.
    + split; [discriminate|]. intros [[= -> ->]|Hin].
      * rewrite bytes_cmp_refl in E. discriminate.
      * destruct Hs as [Hh _]. specialize (Hh _ Hin). unfold klt in Hh. simpl in Hh.
        apply bytes_ltb_lt in E. rewrite (bytes_ltb_asym _ _ E) in Hh. discriminate.
    + rewrite (IH (ksorted_tail _ _ Hs)). split; auto. intros [[= -> ->]|Hin]; auto.
      rewrite bytes_cmp_refl in E. discriminate.
Qed.

Lemma find_filter (p : bytes -> bool) k m :
  ksorted m ->
  sm_find k (filter (fun e => p (fst e)) m) = if p k then sm_find k m else None.
Proof.
  intros Hs. induction m as [|[k' v'] r IH]; simpl.
  - now destruct (p k).
  - pose proof (IH (ksorted_tail _ _ Hs)) as IH'. destruct (bytes_cmp k k') eqn:E.
    + apply bytes_cmp_eq in E. subst k'. destruct (p k) eqn:Hp; simpl.
      * now rewrite bytes_cmp_refl.
      * exact IH'.
    + destruct (p k') eqn:Hp'; simpl.
      * rewrite E. now destruct (p k).
      * rewrite IH'. rewrite (find_lt_head _ _ _ _ Hs E). now destruct (p k).
    + destruct (p k') eqn:Hp'; simpl.
      * rewrite E. exact IH'.
      * exact IH'.
Qed.

(* ---------- insert ---------- *)
Lemma find_insert_same k v m : sm_find k (sm_insert k v m) = Some v.
Proof.
  induction m as [|[k' v'] r IH]; simpl.
  - now rewrite bytes_cmp_refl.
  - destruct (bytes_cmp k k') eqn:E; simpl.
    + now rewrite bytes_cmp_refl.
    + now rewrite bytes_cmp_refl.
    + now rewrite E.
Qed.

Lemma find_insert_other k k2 v m :
  k2 <> k -> sm_find k2 (sm_insert k v m) = sm_find k2 m.
Proof.
  intros Hne. induction m as [|[k' v'] r IH]; simpl.
  - destruct (bytes_cmp k2 k) eqn:E; auto. apply bytes_cmp_eq in E. contradiction.
  - destruct (bytes_cmp k k') eqn:E; simpl.
    + apply bytes_cmp_eq in E. subst k'.
      destruct (bytes_cmp k2 k) eqn:E2; auto. apply bytes_cmp_eq in E2. contradiction.
    + destruct (bytes_cmp k2 k) eqn:E2.
      * apply bytes_cmp_eq in E2. contradiction.
      * rewrite (bytes_cmp_trans_lt _ _ _ E2 E). reflexivity.
      * reflexivity.
    + now rewrite IH.
Qed.

Lemma insert_in k v m e :
  In e (sm_insert k v m) -> e = (k, v) \/ In e m.
Proof.
  induction m as [|[k' v'] r IH]; simpl.
  - intros [H|[]]; auto.
  - destruct (bytes_cmp k k'); simpl; intros [H|H]; auto.
    destruct (IH H); auto.
Qed.

Lemma insert_sorted k v m : ksorted m -> ksorted (sm_insert k v m).
Proof.
  unfold ksorted. induction m as [|[k' v'] r IH]; simpl.
  - intros _. split; auto. intros y [].
  - intros [Hh Hr]. destruct (bytes_cmp k k') eqn:E; simpl.
    + apply bytes_cmp_eq in E. subst k'. split; auto.
    + apply bytes_ltb_lt in E. repeat split; auto.
      intros y [Hy|Hy]; [subst; exact E|].
      eapply klt_trans; [|apply Hh; exact Hy]. exact E.
    + split; auto. intros y Hy. apply insert_in in Hy as [->|Hy]; auto.
      apply bytes_cmp_gt_lt in E. apply bytes_ltb_lt in E. exact E.
Qed.

(* ---------- remove ---------- *)
Lemma remove_in k m e : In e (sm_remove k m) -> In e m.
Proof.
  induction m as [|[k' v'] r IH]; simpl; auto.
  destruct (bytes_cmp k k'); simpl; auto. intros [H|H]; auto.
Qed.

Lemma remove_sorted k m : ksorted m -> ksorted (sm_remove k m).
Proof.
  unfold ksorted. induction m as [|[k' v'] r IH]; simpl; auto.
  intros [Hh Hr]. destruct (bytes_cmp k k'); simpl; auto.
  split; auto. intros y Hy. apply Hh. eapply remove_in; eauto.
Qed.

Lemma find_remove_same k m : ksorted m -> sm_find k (sm_remove k m) = None.
Proof.
  intros Hs. induction m as [|[k' v'] r IH]; simpl; auto.
  destruct (bytes_cmp k k') eqn:E; simpl.
  - apply bytes_cmp_eq in E. subst k'.
    destruct r as [|[k2 v2] r2]; simpl; auto.
    destruct Hs as [Hh _]. assert (bytes_ltb k k2 = true) as H by (apply (Hh (k2, v2)); now left).
    apply bytes_ltb_lt in H. now rewrite H.
  - now rewrite E.
  - rewrite E. apply IH. eapply ksorted_tail; eauto.
Qed.

Lemma find_remove_other k k2 m : k2 <> k -> ksorted m -> sm_find k2 (sm_remove k m) = sm_find k2 m.
Proof.
  intros Hne Hs. induction m as [|[k' v'] r IH]; simpl; auto.
  destruct (bytes_cmp k k') eqn:E; simpl.
  - apply bytes_cmp_eq in E. subst k'.
    destruct (bytes_cmp k2 k) eqn:E2.
    + apply bytes_cmp_eq in E2. contradiction.
    + symmetry. symmetry. apply (find_lt_head _ _ _ _ Hs E2).
    + reflexivity.
  - reflexivity.
  - rewrite IH; auto. eapply ksorted_tail; eauto.
Qed.

(* ---------- range / delete-range ---------- *)
Lemma range_in lo hi m k v :
  In (k, v) (sm_range lo hi m) <-> In (k, v) m /\ bytes_leb lo k = true /\ bytes_ltb k hi = true.
Proof.
  unfold sm_range, in_co. rewrite filter_In. simpl. now rewrite andb_true_iff.
Qed.

Lemma range_sorted lo hi m : ksorted m -> ksorted (sm_range lo hi m).
Proof. apply ssorted_filter. Qed.

Lemma remove_range_sorted lo hi m : ksorted m -> ksorted (sm_remove_range lo hi m).
Proof. apply ssorted_filter. Qed.

Lemma find_range lo hi m k :
  ksorted m -> sm_find k (sm_range lo hi m) = if in_co lo hi k then sm_find k m else None.
Proof. intro Hs. unfold sm_range. now rewrite (find_filter (in_co lo hi)). Qed.

Lemma find_remove_range lo hi m k :
  ksorted m -> sm_find k (sm_remove_range lo hi m) = if in_co lo hi k then None else sm_find k m.
Proof.
  intro Hs. unfold sm_remove_range.
  rewrite (find_filter (fun k => negb (in_co lo hi k))); auto. now destruct (in_co lo hi k).
Qed.

(* the store splits into the range and the rest *)
Lemma range_partition lo hi m k :
  ksorted m ->
  sm_find k m = if in_co lo hi k then sm_find k (sm_range lo hi m) else sm_find k (sm_remove_range lo hi m).
Proof.
  intro Hs. rewrite find_range, find_remove_range by auto. now destruct (in_co lo hi k).
Qed.

(* ---------- canonicity: a sorted store is determined by its lookups ---------- *)
Lemma ksorted_ext m1 m2 :
  ksorted m1 -> ksorted m2 -> (forall k, sm_find k m1 = sm_find k m2) -> m1 = m2.
Proof.
  revert m2. induction m1 as [|[k1 v1] r1 IH]; intros [|[k2 v2] r2] H1 H2 Hf; auto.
  - specialize (Hf k2). simpl in Hf. rewrite bytes_cmp_refl in Hf. discriminate.
  - specialize (Hf k1). simpl in Hf. rewrite bytes_cmp_refl in Hf. discriminate.
  - assert (k1 = k2) as ->.
    { pose proof (Hf k1) as A. pose proof (Hf k2) as B. simpl in A, B.
      rewrite bytes_cmp_refl in A, B.
      destruct (bytes_cmp k1 k2) eqn:E.
      - now apply bytes_cmp_eq.
      - discriminate.
      - apply bytes_cmp_gt_lt in E. rewrite E in B. discriminate. }
    pose proof (Hf k2) as A. simpl in A. rewrite bytes_cmp_refl in A. injection A as ->.
    f_equal. apply IH; try (eapply ksorted_tail; eauto).
    intro k. specialize (Hf k). simpl in Hf. destruct (bytes_cmp k k2) eqn:E; auto.
    + apply bytes_cmp_eq in E. subst k.
      destruct H1 as [A1 S1], H2 as [A2 S2].
      transitivity (@None bytes).
      * destruct (sm_find k2 r1) eqn:F; auto. apply find_in in F; [|exact S1].
        specialize (A1 _ F). unfold klt in A1. simpl in A1. rewrite bytes_ltb_irrefl in A1. discriminate.
      * destruct (sm_find k2 r2) eqn:F; auto. apply find_in in F; [|exact S2].
        specialize (A2 _ F). unfold klt in A2. simpl in A2. rewrite bytes_ltb_irrefl in A2. discriminate.
    + rewrite (find_lt_head _ _ _ _ H1 E), (find_lt_head _ _ _ _ H2 E). reflexivity.
Qed.
