(* Eng/ProofsScript.v — C20: cursor laws, the constructor before the fix (legacy), and the script-level
   statements: every store reached by batches is sorted, the modelled engine answers every read like the
   sorted-map reference, and the answer does not depend on the engine kind *)
From ZV Require Import Common.Bytes Common.BytesFacts Eng.Consts Eng.Model
  Eng.ProofsOrder Eng.ProofsMap Eng.ProofsBatch Eng.ProofsIter Eng.ProofsRadix Eng.ProofsGen.
Open Scope Z_scope.

(* ---------- what the ideal cursor means ---------- *)
(* Seek(t): the least key >= t *)
Lemma seek_first_ge t c :
  ksorted (c_view c) ->
  match c_cur (c_seek t c) with
  | Some x => In x (c_view c) /\ bytes_leb t (fst x) = true /\
              (forall y, In y (c_view c) -> bytes_leb t (fst y) = true -> bytes_leb (fst x) (fst y) = true)
  | None => forall y, In y (c_view c) -> bytes_leb t (fst y) = false
  end.
Proof.
  intro Hs. pose proof (c_seek_spec t c) as (Hv & Hwf & Hpos). unfold c_cur, c_wf in *.
  destruct (c_pos (c_seek t c)) as [|ls x rs].
  - intros y Hy. rewrite bytes_leb_ltb, (Hpos y Hy). reflexivity.
  - destruct Hpos as [Hls Hx]. rewrite Hv in Hwf. repeat split.
    + rewrite Hwf. apply in_or_app. right. now left.
    + rewrite bytes_leb_ltb, Hx. reflexivity.
    + intros y Hy Hty. rewrite Hwf in Hy, Hs. apply in_app_or in Hy as [Hy|[<-|Hy]].
      * apply in_rev in Hy. rewrite bytes_leb_ltb, (Hls y Hy) in Hty. discriminate.
      * apply bytes_leb_refl.
      * apply ssorted_app in Hs as (_ & [Hx' _] & _). apply bytes_ltb_leb_weak. now apply Hx'.
Qed.

(* SeekForPrev(t): the greatest key <= t *)
Lemma seek_for_prev_last_le t c :
  ksorted (c_view c) ->
  match c_cur (c_seek_for_prev t c) with
  | Some x => In x (c_view c) /\ bytes_leb (fst x) t = true /\
              (forall y, In y (c_view c) -> bytes_leb (fst y) t = true -> bytes_leb (fst y) (fst x) = true)
  | None => forall y, In y (c_view c) -> bytes_leb (fst y) t = false
  end.
Proof.
  intro Hs. pose proof (c_seek_for_prev_spec t c Hs) as (Hv & Hwf & Hpos). unfold c_cur, c_wf in *.
  destruct (c_pos (c_seek_for_prev t c)) as [|ls x rs].
  - now rewrite Hv in Hpos.
  - destruct Hpos as [Hall Hrs]. rewrite Hv in Hwf. repeat split.
    + rewrite Hwf. apply in_or_app. right. now left.
    + apply Hall. now left.
    + intros y Hy Hyt. rewrite Hwf in Hy, Hs. apply in_app_or in Hy as [Hy|[<-|Hy]].
      * apply ssorted_app in Hs as (_ & _ & H). apply bytes_ltb_leb_weak. apply (H y x); auto. now left.
      * apply bytes_leb_refl.
      * exfalso. apply ssorted_app in Hs as (_ & Hs & _). destruct Hs as [_ Hs].
        destruct rs as [|h r]; [destruct Hy|].
        rewrite (all_fail_from_head (fun k => bytes_leb k t) h r Hs (leb_downward t) Hrs y Hy) in Hyt.
        discriminate.
Qed.

(* Next and Prev are inverse on positioned cursors *)
Lemma prev_next c : c_valid (c_next c) = true -> c_prev (c_next c) = c.
Proof.
  destruct c as [v [|ls x [|y r]]]; simpl; try discriminate. reflexivity.
Qed.
Lemma next_prev c : c_valid (c_prev c) = true -> c_next (c_prev c) = c.
Proof.
  destruct c as [v [|[|y l] x rs]]; simpl; try discriminate. reflexivity.
Qed.

(* First / Last are the ends of the view *)
Lemma first_is_head c : c_cur (c_first c) = hd_error (c_view c).
Proof. unfold c_cur, c_first. simpl. now destruct (c_view c). Qed.
Lemma last_is_last c : c_cur (c_last c) = hd_error (rev (c_view c)).
Proof. unfold c_cur, c_last. simpl. now destruct (rev (c_view c)). Qed.

(* ---------- the constructor before the fix f53be95 ---------- *)
Definition e1_store : smap := [([98%N], [1%N]); ([99%N], [2%N])].              (* keys "b", "c" *)
Definition e1_opts : iter_opts := mkopts (Some [97%N]) (Some [97%N]) 0%N 0 (-1) true.   (* reverse [a, a] *)

Lemma wrapper_legacy_refuted :
  exists (m : smap) (o : iter_opts),
    ksorted m /\ db_range_limit true false m o <> Some (range_query m o).
Proof.
  exists e1_store, e1_opts. split.
  - apply sortedb_ksorted. reflexivity.
  - vm_compute. discriminate.
Qed.

(* the same witness through the code after the fix, and through an engine that clamps its cursor *)
Lemma e1_after_fix :
  db_range_limit false false e1_store e1_opts = Some [] /\
  db_range_limit true true e1_store e1_opts = Some [] /\
  db_range_limit true false e1_store e1_opts = Some [([98%N], [1%N])].
Proof. vm_compute. auto. Qed.

(* the fallback is not taken when some stored key is <= Max: then the old constructor was right too *)
Definition no_fallback (o : iter_opts) (c : cursor) : Prop :=
  o_reverse o = true -> forall mx, o_max o = Some mx -> c_valid (c_seek_for_prev mx c) = true.

Lemma init_seek_legacy_eq o c : no_fallback o c -> init_seek true o c = init_seek false o c.
Proof.
  unfold no_fallback, init_seek. intro H. destruct (o_reverse o); auto. simpl.
  destruct (o_max o) as [mx|]; auto. now rewrite (H eq_refl mx eq_refl).
Qed.

Lemma wrap_legacy_eq o c : init_seek true o c = init_seek false o c -> wrap true c o = wrap false c o.
Proof. unfold wrap. now intros ->. Qed.

Lemma wrapper_legacy_correct_without_fallback bounded m o :
  ksorted m ->
  no_fallback o (get_iterator bounded (o_min o) (o_max o) (o_type o) m) ->
  db_range_limit true bounded m o = Some (range_query m o).
Proof.
  intros Hs Hnf. rewrite <- (wrapper_correct bounded m o Hs). unfold db_range_limit.
  now rewrite (wrap_legacy_eq _ _ (init_seek_legacy_eq _ _ Hnf)).
Qed.

(* a sufficient condition in terms of the store: some key of the engine's view is <= Max *)
Lemma no_fallback_if_key_below o c :
  ksorted (c_view c) ->
  (forall mx, o_max o = Some mx -> exists e, In e (c_view c) /\ bytes_leb (fst e) mx = true) ->
  no_fallback o c.
Proof.
  intros Hs H _ mx Hmx. destruct (H mx Hmx) as (e & Hin & Hle).
  pose proof (seek_for_prev_last_le mx c Hs) as Hsp. unfold c_valid, c_cur in *.
  destruct (c_pos (c_seek_for_prev mx c)); auto.
  rewrite (Hsp e Hin) in Hle. discriminate.
Qed.

(* pebble / rocksdb masked the defect: on a clamped view the first key is never above Max *)
Lemma init_seek_rev_unfold legacy o c mx :
  o_reverse o = true -> o_max o = Some mx ->
  init_seek legacy o c =
  (let c2 := fallback legacy mx (c_seek_for_prev mx c) in
   if has_flag (o_type o) range_ropen then ropen_adjust mx c2 else c2).
Proof. intros Hr Hm. unfold init_seek. rewrite Hr, Hm. reflexivity. Qed.

Lemma fallback_legacy_eq mx c :
  (forall e, In e (c_view c) -> bytes_leb (fst e) mx = true) ->
  fallback true mx c = fallback false mx c.
Proof.
  intro H. unfold fallback. destruct (c_valid c); auto.
  unfold c_first, key_cmp, c_cur. simpl. destruct (c_view c) as [|[k v] r]; simpl; auto.
  specialize (H (k, v) (or_introl eq_refl)). simpl in H. unfold bytes_leb in H.
  destruct (bytes_cmp k mx); auto. discriminate.
Qed.

Lemma wrapper_legacy_correct_bounded m o :
  ksorted m -> db_range_limit true true m o = Some (range_query m o).
Proof.
  intro Hs. rewrite <- (wrapper_correct true m o Hs). unfold db_range_limit.
  apply f_equal. apply wrap_legacy_eq.
  destruct (o_reverse o) eqn:Hr; [|unfold init_seek; now rewrite Hr].
  destruct (o_max o) as [mx|] eqn:Hmx; [|unfold init_seek; now rewrite Hr, Hmx].
  rewrite !(init_seek_rev_unfold _ _ _ mx Hr Hmx). cbv zeta.
  rewrite fallback_legacy_eq; auto.
  intros [k v] Hin. simpl in Hin. apply filter_In in Hin as [_ Hb]. simpl in *.
  unfold in_bounds, upper_bound in Hb. apply andb_true_iff in Hb as [_ Hb].
  destruct (has_flag (o_type o) range_ropen).
  - now apply bytes_ltb_leb_weak.
  - now rewrite <- bytes_ltb_succ.
Qed.

(* ---------- scripts ---------- *)
Fixpoint run_db (k : ekind) (d : db) (ss : list step) : db :=
  match ss with
  | [] => d
  | s :: r => run_db k (fst (run_step k d s)) r
  end.

Lemma run_step_sorted k d s :
  ksorted (committed d) -> ksorted (committed (fst (run_step k d s))).
Proof.
  intro Hs. destruct s; simpl; auto.
  unfold db_commit. destruct (apply_ops (committed d) (pending d)) eqn:E; simpl; auto.
  eapply apply_ops_sorted; eauto.
Qed.

(* every store an engine can reach from the empty one is a sorted map *)
Lemma reachable_sorted k ss : forall d,
  ksorted (committed d) -> ksorted (committed (run_db k d ss)).
Proof.
  induction ss as [|s r IH]; intros d Hs; simpl; auto. apply IH. now apply run_step_sorted.
Qed.

Lemma reachable_from_empty_sorted k ss : ksorted (committed (run_db k db_empty ss)).
Proof. apply reachable_sorted. exact I. Qed.

(* the reference: the same script answered declaratively from the sorted map (no wrapper, and the ideal
   cursor over the whole store for raw cursor scripts) *)
Definition ref_step (d : db) (s : step) : db * result :=
  match s with
  | SIter o vt => (d, RKVs (strip_kvs vt (Some (range_query (committed d) o))))
  | SRangeIter o vt => (d, RKVs (strip_kvs vt (Some (range_query (committed d) (no_limit o)))))
  | SCursor mn mx tp ops => (d, RCursor (cops_run false (mkcur (committed d) CInv) ops))
  | _ => run_step KPlain d s
  end.

Fixpoint ref_script (d : db) (ss : list step) : list result :=
  match ss with
  | [] => []
  | s :: r => let '(d', x) := ref_step d s in x :: ref_script d' r
  end.

(* what the contract covers per engine kind: on rocksdb (KPrefix) range reads must be prefix local and raw
   cursors are not covered at all; elsewhere raw cursors with bounds are engine specific (pebble clamps them) *)
Definition step_portable (k : ekind) (s : step) : bool :=
  match s with
  | SIter o _ => read_in_contract k o
  | SRangeIter o _ => read_in_contract k o
  | SCursor mn mx _ _ =>
      match k, mn, mx with
      | KPrefix, _, _ => false
      | _, None, None => true
      | _, _, _ => false
      end
  | _ => true
  end.

Lemma engine_view_unbounded bounded tp m : engine_view bounded None None tp m = m.
Proof.
  unfold engine_view. destruct bounded; auto. apply filter_all_true. intros; reflexivity.
Qed.

Lemma read_in_contract_no_limit k o : read_in_contract k (no_limit o) = read_in_contract k o.
Proof. destruct k; reflexivity. Qed.

Lemma run_step_ref k d s :
  ksorted (committed d) -> step_portable k s = true -> run_step k d s = ref_step d s.
Proof.
  intros Hs Hp. destruct s; simpl; auto.
  - simpl in Hp. now rewrite engine_range_limit_correct.
  - simpl in Hp. rewrite engine_range_limit_correct; auto; now rewrite ?read_in_contract_no_limit.
  - simpl in Hp. unfold engine_cursor_script.
    destruct k; [| | |discriminate]; destruct min, max; try discriminate.
    + now rewrite rops_generic, radix_script_is_ideal.
    + now rewrite cops_ideal.
    + unfold get_iterator. now rewrite engine_view_unbounded, cops_ideal.
Qed.

Theorem script_refines_reference k ss : forall d,
  ksorted (committed d) -> forallb (step_portable k) ss = true ->
  run_script k d ss = ref_script d ss.
Proof.
  induction ss as [|s r IH]; intros d Hs Hp; simpl; auto.
  simpl in Hp. apply andb_true_iff in Hp as [Hp1 Hp2].
  rewrite (run_step_ref k d s Hs Hp1).
  destruct (ref_step d s) as [d' x] eqn:E. f_equal. apply IH; auto.
  replace d' with (fst (ref_step d s)) by now rewrite E.
  rewrite <- (run_step_ref k d s Hs Hp1). now apply run_step_sorted.
Qed.

(* hence no script's outcome depends on the engine kind *)
Corollary script_engine_independent k1 k2 ss :
  forallb (step_portable k1) ss = true -> forallb (step_portable k2) ss = true ->
  run_script k1 db_empty ss = run_script k2 db_empty ss.
Proof.
  intros H1 H2. rewrite !script_refines_reference; auto; exact I.
Qed.
