(* Eng/ProofsBatch.v — C20: write-batch lemmas (Eng/Batch.v): atomic visibility, clear, counter merge algebra,
   delete-range as removal of the range *)
From ZV Require Import Common.Bytes Common.BytesFacts Eng.SortedMap Eng.Batch Eng.ProofsOrder Eng.ProofsMap.
Open Scope N_scope.

(* ---------- counters ---------- *)
Lemma mask64_ones : mask64 = N.ones 64.
Proof. reflexivity. Qed.

Lemma add64_mod a b : add64 a b = (a + b) mod 2 ^ 64.
Proof. unfold add64. rewrite mask64_ones. apply N.land_ones. Qed.

Lemma add64_comm a b : add64 a b = add64 b a.
Proof. unfold add64. now rewrite N.add_comm. Qed.

Lemma add64_lt a b : add64 a b < 2 ^ 64.
Proof. rewrite add64_mod. apply N.mod_lt. discriminate. Qed.

Lemma add64_assoc a b c : add64 (add64 a b) c = add64 a (add64 b c).
Proof.
  rewrite !add64_mod.
  rewrite N.add_mod_idemp_l by discriminate. rewrite N.add_mod_idemp_r by discriminate.
  now rewrite N.add_assoc.
Qed.

Lemma add64_0_r a : a < 2 ^ 64 -> add64 a 0 = a.
Proof. intro H. rewrite add64_mod, N.add_0_r. now apply N.mod_small. Qed.

Lemma le_encode_length n x : length (le_encode n x) = n.
Proof. revert x; induction n as [|n IH]; intro x; simpl; auto. Qed.

Lemma le_decode_encode n x : le_decode (le_encode n x) = x mod 2 ^ (8 * N.of_nat n).
Proof.
  revert x; induction n as [|n IH]; intro x.
  - simpl. now rewrite N.mod_1_r.
  - cbn [le_encode le_decode]. rewrite IH.
    replace (8 * N.of_nat (S n)) with (8 + 8 * N.of_nat n) by lia.
    rewrite N.pow_add_r. change (2 ^ 8) with 256.
    rewrite N.mod_mul_r by (try discriminate; apply N.pow_nonzero; discriminate).
    change 255 with (N.ones 8). rewrite N.land_ones. change (2 ^ 8) with 256.
    rewrite N.shiftr_div_pow2. change (2 ^ 8) with 256. reflexivity.
Qed.

Lemma counter_of_encode x : x < 2 ^ 64 -> counter_of (le_encode 8 x) = Some x.
Proof.
  intro H. unfold counter_of. rewrite le_encode_length. rewrite le_decode_encode.
  change (8 * N.of_nat 8) with 64. now rewrite N.mod_small.
Qed.

Arguments add64 : simpl never.
Arguments le_encode : simpl never.
Arguments le_decode : simpl never.
Arguments N.land : simpl never.

Lemma merge_value_counters a b :
  a < 2 ^ 64 -> b < 2 ^ 64 ->
  merge_value (Some (le_encode 8 a)) (le_encode 8 b) = Some (le_encode 8 (add64 a b)).
Proof. intros Ha Hb. unfold merge_value. now rewrite !counter_of_encode. Qed.

Lemma merge_value_absent b :
  b < 2 ^ 64 -> merge_value None (le_encode 8 b) = Some (le_encode 8 b).
Proof.
  intro Hb. unfold merge_value. rewrite counter_of_encode by auto.
  change (counter_of []) with (Some 0). cbv iota beta.
  rewrite add64_mod, N.add_0_l. now rewrite N.mod_small.
Qed.

(* the merged value is always a well-formed counter again *)
Lemma merge_value_wf old v nv :
  merge_value old v = Some nv -> exists x, x < 2 ^ 64 /\ nv = le_encode 8 x.
Proof.
  unfold merge_value. destruct (counter_of _); [|discriminate]. destruct (counter_of v); [|discriminate].
  intros [= <-]. eexists; split; [apply add64_lt|reflexivity].
Qed.

(* ---------- the store stays sorted ---------- *)
Lemma apply_op_sorted m op m' : ksorted m -> apply_op m op = Some m' -> ksorted m'.
Proof.
  intros Hs. destruct op as [k v|k|s e|k v]; simpl.
  - intros [= <-]. now apply insert_sorted.
  - intros [= <-]. now apply remove_sorted.
  - intros [= <-]. now apply remove_range_sorted.
  - destruct (merge_value _ _); [|discriminate]. intros [= <-]. now apply insert_sorted.
Qed.

Lemma apply_ops_sorted ops : forall m m', ksorted m -> apply_ops m ops = Some m' -> ksorted m'.
Proof.
  induction ops as [|op r IH]; simpl; intros m m' Hs.
  - now intros [= <-].
  - destruct (apply_op m op) eqn:E; [|discriminate]. apply IH. eapply apply_op_sorted; eauto.
Qed.

Lemma apply_ops_app a b m :
  apply_ops m (a ++ b) = match apply_ops m a with Some m' => apply_ops m' b | None => None end.
Proof.
  revert m; induction a as [|op a IH]; intro m; simpl; auto.
  destruct (apply_op m op); auto.
Qed.

(* ---------- atomic visibility ---------- *)
Definition db_adds (d : db) (ops : list bop) : db := fold_left db_add ops d.

Lemma db_adds_committed ops : forall d, committed (db_adds d ops) = committed d.
Proof. unfold db_adds. induction ops as [|op r IH]; intro d; simpl; auto. now rewrite IH. Qed.

Lemma db_adds_pending ops : forall d, pending (db_adds d ops) = pending d ++ ops.
Proof.
  unfold db_adds. induction ops as [|op r IH]; intro d; simpl.
  - now rewrite app_nil_r.
  - rewrite IH. simpl. now rewrite <- app_assoc.
Qed.

(* (a) nothing of an uncommitted batch is visible to any read *)
Lemma uncommitted_invisible d ops k :
  db_get (db_adds d ops) k = db_get d k /\ db_exist (db_adds d ops) k = db_exist d k.
Proof. unfold db_get, db_exist. now rewrite db_adds_committed. Qed.

(* (b) a committed batch is visible completely: the store is the fold of all its operations *)
Lemma commit_visible m ops m' :
  apply_ops m ops = Some m' -> db_commit (db_adds (mkdb m []) ops) = (mkdb m' [], true).
Proof.
  intro H. unfold db_commit. rewrite db_adds_committed, db_adds_pending. simpl. now rewrite H.
Qed.

(* (c) all or nothing: a failing commit leaves the store untouched *)
Lemma commit_all_or_nothing d :
  (exists m', apply_ops (committed d) (pending d) = Some m' /\ db_commit d = (mkdb m' [], true)) \/
  (apply_ops (committed d) (pending d) = None /\ db_commit d = (mkdb (committed d) [], false)).
Proof.
  unfold db_commit. destruct (apply_ops (committed d) (pending d)) eqn:E; [left; eauto|right; auto].
Qed.

(* (d) a cleared batch has no effect at all, whatever was put into it *)
Lemma cleared_no_effect d ops :
  pending d = [] -> db_commit (db_clear (db_adds d ops)) = (d, true).
Proof.
  intro Hp. unfold db_commit, db_clear. simpl. rewrite db_adds_committed.
  destruct d as [m p]. simpl in *. now subst.
Qed.

(* batches compose: committing a then b is committing a ++ b *)
Lemma commit_sequential m a b m1 m2 :
  apply_ops m a = Some m1 -> apply_ops m1 b = Some m2 -> apply_ops m (a ++ b) = Some m2.
Proof. intros Ha Hb. now rewrite apply_ops_app, Ha. Qed.

(* ---------- point-wise effect of one operation ---------- *)
Lemma find_apply_put m k v k2 :
  sm_find k2 (sm_insert k v m) = if bytes_eqb k2 k then Some v else sm_find k2 m.
Proof.
  destruct (bytes_eqb k2 k) eqn:E.
  - apply bytes_eqb_eq in E. subst. apply find_insert_same.
  - apply find_insert_other. intro H. subst. rewrite bytes_eqb_refl in E. discriminate.
Qed.

Lemma find_apply_del m k k2 :
  ksorted m -> sm_find k2 (sm_remove k m) = if bytes_eqb k2 k then None else sm_find k2 m.
Proof.
  intro Hs. destruct (bytes_eqb k2 k) eqn:E.
  - apply bytes_eqb_eq in E. subst. now apply find_remove_same.
  - apply find_remove_other; auto. intro H. subst. rewrite bytes_eqb_refl in E. discriminate.
Qed.

(* ---------- merge algebra on the store ---------- *)
Lemma insert_insert_same k v1 v2 m : sm_insert k v2 (sm_insert k v1 m) = sm_insert k v2 m.
Proof.
  induction m as [|[k' v'] r IH]; simpl.
  - now rewrite bytes_cmp_refl.
  - destruct (bytes_cmp k k') eqn:E; simpl.
    + now rewrite bytes_cmp_refl.
    + now rewrite bytes_cmp_refl.
    + now rewrite E, IH.
Qed.

Lemma insert_insert_comm k1 k2 v1 v2 m :
  ksorted m -> k1 <> k2 ->
  sm_insert k1 v1 (sm_insert k2 v2 m) = sm_insert k2 v2 (sm_insert k1 v1 m).
Proof.
  intros Hs Hne. apply ksorted_ext; try (repeat apply insert_sorted; auto).
  intro k. rewrite !find_apply_put.
  destruct (bytes_eqb k k1) eqn:E1, (bytes_eqb k k2) eqn:E2; auto.
  apply bytes_eqb_eq in E1, E2. congruence.
Qed.

(* two counter increments of one key are one increment by the sum (mod 2^64), in either order *)
Lemma merge_merge m k a b :
  a < 2 ^ 64 -> b < 2 ^ 64 ->
  (exists x, counter_of (match sm_find k m with Some v => v | None => [] end) = Some x) ->
  apply_ops m [BMerge k (le_encode 8 a); BMerge k (le_encode 8 b)] =
  apply_op m (BMerge k (le_encode 8 (add64 a b))).
Proof.
  intros Ha Hb [x Hx]. cbn [apply_ops apply_op]. unfold merge_value at 1 3. rewrite Hx.
  rewrite !counter_of_encode by (auto; apply add64_lt). cbv iota beta.
  rewrite find_insert_same. rewrite merge_value_counters by (auto; apply add64_lt).
  rewrite insert_insert_same. now rewrite add64_assoc.
Qed.

Lemma merge_commute_same_key m k a b :
  a < 2 ^ 64 -> b < 2 ^ 64 ->
  (exists x, counter_of (match sm_find k m with Some v => v | None => [] end) = Some x) ->
  apply_ops m [BMerge k (le_encode 8 a); BMerge k (le_encode 8 b)] =
  apply_ops m [BMerge k (le_encode 8 b); BMerge k (le_encode 8 a)].
Proof.
  intros Ha Hb Hx. rewrite !merge_merge by auto. now rewrite add64_comm.
Qed.

Lemma merge_commute_other_key m k1 k2 v1 v2 :
  ksorted m -> k1 <> k2 ->
  apply_ops m [BMerge k1 v1; BMerge k2 v2] = apply_ops m [BMerge k2 v2; BMerge k1 v1].
Proof.
  intros Hs Hne. simpl.
  destruct (merge_value (sm_find k1 m) v1) as [n1|] eqn:E1;
  destruct (merge_value (sm_find k2 m) v2) as [n2|] eqn:E2;
    rewrite ?find_insert_other by congruence; rewrite ?E1, ?E2; auto.
  f_equal. apply insert_insert_comm; auto.
Qed.

(* ---------- delete-range is the removal of the range, key by key ---------- *)
Lemma find_fold_remove ks : forall m k,
  ksorted m ->
  sm_find k (fold_left (fun m k' => sm_remove k' m) ks m) =
  if existsb (bytes_eqb k) ks then None else sm_find k m.
Proof.
  induction ks as [|k' r IH]; intros m k Hs; simpl; auto.
  rewrite IH by now apply remove_sorted. rewrite find_apply_del by auto.
  destruct (bytes_eqb k k'); simpl; auto. now destruct (existsb (bytes_eqb k) r).
Qed.

Lemma fold_remove_sorted ks : forall m, ksorted m -> ksorted (fold_left (fun m k' => sm_remove k' m) ks m).
Proof. induction ks as [|k' r IH]; intros m Hs; simpl; auto. apply IH. now apply remove_sorted. Qed.

(* collecting the keys of [start, end) and deleting them one by one (what commitBtree / commitSkiplist /
   the radix DeleteRange do) is the same as filtering the range out *)
Lemma delete_range_is_remove_of_range lo hi m :
  ksorted m ->
  sm_remove_range lo hi m = fold_left (fun m k' => sm_remove k' m) (map fst (sm_range lo hi m)) m.
Proof.
  intro Hs. apply ksorted_ext.
  - now apply remove_range_sorted.
  - now apply fold_remove_sorted.
  - intro k. rewrite find_remove_range, find_fold_remove by auto.
    destruct (existsb (bytes_eqb k) (map fst (sm_range lo hi m))) eqn:E.
    + apply existsb_exists in E as (k' & Hin & Hk). apply bytes_eqb_eq in Hk. subst k'.
      apply in_map_iff in Hin as ([k1 v1] & Hk & Hin). simpl in Hk. subst k1.
      apply range_in in Hin as (Hin & Hlo & Hhi). unfold in_co. rewrite Hlo, Hhi.
      reflexivity.
    + destruct (in_co lo hi k) eqn:Hc; auto.
      destruct (sm_find k m) as [v|] eqn:F; auto.
      exfalso. apply find_in in F; auto.
      assert (In (k, v) (sm_range lo hi m)) as Hin.
      { apply range_in. unfold in_co in Hc. apply andb_true_iff in Hc. tauto. }
      assert (existsb (bytes_eqb k) (map fst (sm_range lo hi m)) = true) as Hx.
      { apply existsb_exists. exists k. split; [|apply bytes_eqb_refl].
        apply in_map_iff. exists (k, v). auto. }
      congruence.
Qed.
