(* Eng/ProofsIter.v — C20: the ideal cursor and the range/limit wrapper of engine/iterator.go
   (Eng/Cursor.v, Eng/RangeIter.v): wrapper_correct and its companions *)
From ZV Require Import Common.Bytes Common.BytesFacts Eng.Consts Eng.SortedMap Eng.Cursor Eng.RangeIter
  Eng.ProofsOrder Eng.ProofsMap.
Open Scope Z_scope.

(* ---------- cursor bookkeeping ---------- *)
Definition c_wf (c : cursor) : Prop :=
  match c_pos c with
  | CInv => True
  | CAt ls x rs => c_view c = rev ls ++ x :: rs
  end.

Definition rem_f (c : cursor) : list kv :=
  match c_pos c with CInv => [] | CAt _ x rs => x :: rs end.
Definition rem_r (c : cursor) : list kv :=
  match c_pos c with CInv => [] | CAt ls x _ => x :: ls end.
Definition rem (r : bool) (c : cursor) : list kv := if r then rem_r c else rem_f c.
Definition adv (r : bool) (c : cursor) : cursor := if r then c_prev c else c_next c.

Lemma c_cur_rem r c : c_cur c = hd_error (rem r c).
Proof. unfold c_cur, rem, rem_r, rem_f. destruct r, (c_pos c); reflexivity. Qed.

Lemma rem_adv r c : rem r (adv r c) = tl (rem r c).
Proof.
  unfold rem, adv, rem_r, rem_f, c_prev, c_next. destruct r, c as [v [|ls x rs]]; simpl; auto.
  - destruct ls; reflexivity.
  - destruct rs; reflexivity.
Qed.

Lemma view_adv r c : c_view (adv r c) = c_view c.
Proof. destruct r; reflexivity. Qed.

Lemma wf_adv r c : c_wf c -> c_wf (adv r c).
Proof.
  unfold c_wf, adv, c_prev, c_next. destruct r, c as [v [|ls x rs]]; simpl; auto.
  - destruct ls as [|y l]; simpl; auto. intros ->. now rewrite <- app_assoc.
  - destruct rs as [|y r]; simpl; auto. intros ->. now rewrite <- app_assoc.
Qed.

Lemma rem_length r c : c_wf c -> (length (rem r c) <= length (c_view c))%nat.
Proof.
  unfold c_wf, rem, rem_r, rem_f. destruct c as [v [|ls x rs]]; simpl.
  - destruct r; simpl; lia.
  - intros ->. rewrite app_length, rev_length. destruct r; simpl; lia.
Qed.

(* ---------- seeking ---------- *)
Lemma seek_split_spec p : forall v ls ls' rs,
  seek_split p ls v = (ls', rs) ->
  rev ls' ++ rs = rev ls ++ v /\
  (forall x, In x ls' -> In x ls \/ p (fst x) = true) /\
  (match rs with [] => True | x :: _ => p (fst x) = false end).
Proof.
  induction v as [|x r IH]; intros ls ls' rs; simpl.
  - intros [= <- <-]. repeat split; auto.
  - destruct (p (fst x)) eqn:E.
    + intro H. apply IH in H as (H1 & H2 & H3). repeat split; auto.
      * rewrite H1. simpl. now rewrite <- app_assoc.
      * intros y Hy. destruct (H2 y Hy) as [[->|Hin]|Hp]; auto.
    + intros [= <- <-]. repeat split; auto.
Qed.

(* in a sorted list, once a predicate that is closed towards smaller keys fails it fails for good *)
Lemma all_fail_from_head (q : bytes -> bool) h t :
  ksorted (h :: t) ->
  (forall a b, bytes_ltb a b = true -> q b = true -> q a = true) ->
  q (fst h) = false -> forall y, In y (h :: t) -> q (fst y) = false.
Proof.
  intros [Hh _] Hq Hf y [<-|Hy]; auto.
  destruct (q (fst y)) eqn:E; auto. rewrite (Hq _ _ (Hh y Hy) E) in Hf. discriminate.
Qed.

(* ---------- the bound predicates ---------- *)
Definition lo (o : iter_opts) (k : bytes) : bool :=
  match o_min o with
  | None => true
  | Some mn => if has_flag (o_type o) range_lopen then bytes_ltb mn k else bytes_leb mn k
  end.
Definition up (o : iter_opts) (k : bytes) : bool :=
  match o_max o with
  | None => true
  | Some mx => if has_flag (o_type o) range_ropen then bytes_ltb k mx else bytes_leb k mx
  end.
Definition pass (o : iter_opts) (k : bytes) : bool := if o_reverse o then lo o k else up o k.

Lemma in_range_lo_up o k : in_range o k = lo o k && up o k.
Proof. reflexivity. Qed.

Lemma lo_upward o a b : bytes_ltb a b = true -> lo o a = true -> lo o b = true.
Proof.
  unfold lo. destruct (o_min o) as [mn|]; auto. destruct (has_flag _ _); intros H1 H2.
  - eapply bytes_ltb_trans; eauto.
  - apply bytes_ltb_leb_weak. eapply bytes_le_lt_trans; eauto.
Qed.

Lemma up_downward o a b : bytes_ltb a b = true -> up o b = true -> up o a = true.
Proof.
  unfold up. destruct (o_max o) as [mx|]; auto. destruct (has_flag _ _); intros H1 H2.
  - eapply bytes_ltb_trans; eauto.
  - apply bytes_ltb_leb_weak. eapply bytes_lt_le_trans; eauto.
Qed.

(* ---------- Valid / Next against the remaining list ---------- *)
Definition count_done (cnt s : Z) : bool := (0 <=? cnt) && (cnt <=? s).

Lemma w_valid_spec c o s :
  0 <= o_offset o ->
  w_valid (mkwit c o s) =
  negb (count_done (o_count o) s) &&
  match hd_error (rem (o_reverse o) c) with Some x => pass o (fst x) | None => false end.
Proof.
  intro Hoff. unfold w_valid, count_done. simpl.
  destruct (o_offset o <? 0) eqn:E; [apply Z.ltb_lt in E; lia|].
  destruct ((0 <=? o_count o) && (o_count o <=? s)); simpl; auto.
  rewrite (c_cur_rem (o_reverse o)). destruct (hd_error _) as [[k v]|]; auto.
  unfold pass, lo, up. simpl. destruct (o_reverse o); simpl.
  - destruct (o_min o) as [mn|]; auto. unfold bytes_ltb, bytes_leb.
    rewrite (bytes_cmp_antisym k mn). destruct (has_flag _ _), (bytes_cmp k mn); reflexivity.
  - destruct (o_max o) as [mx|]; auto. unfold bytes_ltb, bytes_leb.
    destruct (has_flag _ _), (bytes_cmp k mx); reflexivity.
Qed.

Fixpoint walk (p : bytes -> bool) (cnt s : Z) (l : list kv) : list kv :=
  match l with
  | [] => []
  | x :: r => if count_done cnt s then [] else if p (fst x) then x :: walk p cnt (s + 1) r else []
  end.

Lemma run_walk o : forall l fuel c s,
  0 <= o_offset o -> rem (o_reverse o) c = l -> (length l < fuel)%nat ->
  run_iter fuel (mkwit c o s) = Some (walk (pass o) (o_count o) s l).
Proof.
  induction l as [|x r IH]; intros fuel c s Hoff Hrem Hfuel.
  - destruct fuel as [|f]; [simpl in Hfuel; lia|]. cbn [run_iter].
    rewrite w_valid_spec, Hrem by auto. simpl. now rewrite andb_false_r.
  - destruct fuel as [|f]; [simpl in Hfuel; lia|]. cbn [run_iter walk].
    rewrite w_valid_spec, Hrem by auto. cbn [hd_error].
    destruct (count_done (o_count o) s); simpl; auto.
    destruct (pass o (fst x)); auto.
    cbn [w_cur]. rewrite (c_cur_rem (o_reverse o)), Hrem. cbn [hd_error].
    unfold w_next. cbn [w_cur w_opts w_step].
    change (if o_reverse o then c_prev c else c_next c) with (adv (o_reverse o) c).
    rewrite (IH f (adv (o_reverse o) c) (s + 1)); auto.
    + rewrite rem_adv, Hrem. reflexivity.
    + simpl in Hfuel. lia.
Qed.

Definition limit (cnt s : Z) (l : list kv) : list kv :=
  if cnt <? 0 then l else firstn (Z.to_nat (cnt - s)) l.

Lemma walk_limit p cnt : forall l s,
  walk p cnt s l = limit cnt s (take_while (fun e => p (fst e)) l).
Proof.
  unfold limit. induction l as [|x r IH]; intro s; cbn [walk take_while].
  - destruct (cnt <? 0); auto. now rewrite firstn_nil.
  - unfold count_done. destruct (cnt <? 0) eqn:Hc.
    + apply Z.ltb_lt in Hc. assert (0 <=? cnt = false) as -> by (apply Z.leb_gt; lia).
      cbn [andb]. destruct (p (fst x)); auto. rewrite IH. reflexivity.
    + apply Z.ltb_ge in Hc. assert (0 <=? cnt = true) as -> by (apply Z.leb_le; lia).
      cbn [andb]. destruct (cnt <=? s) eqn:Hs.
      * apply Z.leb_le in Hs. replace (Z.to_nat (cnt - s)) with 0%nat by lia. reflexivity.
      * apply Z.leb_gt in Hs. replace (Z.to_nat (cnt - s)) with (S (Z.to_nat (cnt - (s + 1)))) by lia.
        destruct (p (fst x)); cbn [firstn]; auto. rewrite IH. reflexivity.
Qed.

(* ---------- the offset loop ---------- *)
Fixpoint skipw (p : bytes -> bool) (cnt : Z) (n : nat) (l : list kv) : list kv :=
  match n with
  | O => l
  | S n' =>
      match l with
      | [] => []
      | x :: r => if count_done cnt 0 || negb (p (fst x)) then l else skipw p cnt n' r
      end
  end.

Lemma skip_offset_spec o : forall n c,
  0 <= o_offset o -> c_wf c ->
  exists c', skip_offset n (mkwit c o 0) = mkwit c' o 0 /\ c_wf c' /\ c_view c' = c_view c /\
             rem (o_reverse o) c' = skipw (pass o) (o_count o) n (rem (o_reverse o) c).
Proof.
  induction n as [|n IH]; intros c Hoff Hwf.
  - exists c. simpl. auto.
  - cbn [skip_offset skipw]. rewrite w_valid_spec by auto. cbn [w_cur w_opts w_step].
    destruct (rem (o_reverse o) c) as [|x r] eqn:Hrem; cbn [hd_error].
    + rewrite andb_false_r. exists c. rewrite Hrem. auto.
    + destruct (count_done (o_count o) 0); simpl.
      * exists c. rewrite Hrem. auto.
      * destruct (pass o (fst x)); simpl.
        -- change (if o_reverse o then c_prev c else c_next c) with (adv (o_reverse o) c).
           destruct (IH (adv (o_reverse o) c) Hoff (wf_adv _ _ Hwf)) as (c' & H1 & H2 & H3 & H4).
           exists c'. rewrite H1. repeat split; auto.
           ++ now rewrite H3, view_adv.
           ++ now rewrite H4, rem_adv, Hrem.
        -- exists c. rewrite Hrem. auto.
Qed.

Lemma walk_skipw p cnt n l :
  walk p cnt 0 (skipw p cnt n l) = limit cnt 0 (skipn n (take_while (fun e => p (fst e)) l)).
Proof.
  destruct (count_done cnt 0) eqn:Hd.
  - (* count = 0: nothing is returned *)
    assert (cnt = 0) as -> by (unfold count_done in Hd; apply andb_true_iff in Hd as [A B];
                               apply Z.leb_le in A, B; lia).
    unfold limit. simpl. destruct (skipw p 0 n l); reflexivity.
  - rewrite walk_limit. f_equal. revert l; induction n as [|n IH]; intro l; simpl; auto.
    destruct l as [|x r]; simpl; auto. rewrite Hd. simpl.
    destruct (p (fst x)) eqn:E; simpl.
    + apply IH.
    + now rewrite E.
Qed.

(* ---------- initial position, forward ---------- *)
Definition at_lo (p : bytes -> bool) (c : cursor) : Prop :=
  c_wf c /\
  match c_pos c with
  | CInv => forall x, In x (c_view c) -> p (fst x) = false
  | CAt ls x rs => (forall y, In y ls -> p (fst y) = false) /\ p (fst x) = true
  end.

Lemma at_lo_rem p c :
  ksorted (c_view c) -> (forall a b, bytes_ltb a b = true -> p a = true -> p b = true) ->
  at_lo p c -> rem_f c = filter (fun e => p (fst e)) (c_view c).
Proof.
  unfold at_lo, c_wf, rem_f. destruct c as [v [|ls x rs]]; simpl; intros Hs Hp [Hwf H].
  - symmetry. now apply filter_all_false.
  - destruct H as [Hls Hx]. subst v. symmetry.
    apply (filter_suffix klt (fun e => p (fst e))); auto.
    + intros a b Hab. apply Hp. exact Hab.
    + intros y Hy. apply Hls. now apply in_rev.
Qed.

Lemma c_seek_spec t c :
  let c' := c_seek t c in
  c_view c' = c_view c /\ c_wf c' /\
  match c_pos c' with
  | CInv => forall x, In x (c_view c) -> bytes_ltb (fst x) t = true
  | CAt ls x rs => (forall y, In y ls -> bytes_ltb (fst y) t = true) /\ bytes_ltb (fst x) t = false
  end.
Proof.
  unfold c_seek, c_wf. simpl. destruct (seek_split _ [] (c_view c)) as [ls rs] eqn:E.
  apply seek_split_spec in E as (H1 & H2 & H3). simpl in H1.
  destruct rs as [|x r]; simpl; repeat split; auto.
  - intros y Hy. rewrite app_nil_r in H1. rewrite <- H1 in Hy. apply in_rev in Hy.
    destruct (H2 y Hy) as [[]|]; auto.
  - intros y Hy. destruct (H2 y Hy) as [[]|]; auto.
Qed.

Lemma init_seek_fwd legacy o c :
  ksorted (c_view c) -> o_reverse o = false ->
  let c' := init_seek legacy o c in
  c_view c' = c_view c /\ at_lo (lo o) c'.
Proof.
  intros Hs Hrev. unfold init_seek. rewrite Hrev. simpl. unfold lo.
  destruct (o_min o) as [mn|].
  2:{ (* SeekToFirst *)
      unfold c_first, at_lo, c_wf. simpl. destruct (c_view c) as [|x r]; simpl;
        repeat split; auto; intros y []. }
  pose proof (c_seek_spec mn c) as (Hv & Hwf & Hpos). set (c1 := c_seek mn c) in *.
  destruct (has_flag (o_type o) range_lopen).
  - (* left-open: step over a key equal to Min *)
    unfold key_cmp, c_cur. destruct (c_pos c1) as [|ls x rs] eqn:Hp.
    + split; auto. unfold at_lo. rewrite Hp, Hv. split; auto.
      intros y Hy. apply bytes_ltb_asym. auto.
    + destruct x as [k v]. simpl. destruct Hpos as [Hls Hx]. simpl in Hx.
      unfold c_wf in Hwf. rewrite Hp in Hwf.
      destruct (leb_cmp (bytes_cmp k mn)) eqn:Hle.
      * (* k <= Min (hence k = Min): Next *)
        assert (bytes_leb k mn = true) as Hkm by (unfold bytes_leb; destruct (bytes_cmp k mn); auto; discriminate).
        split; [reflexivity|]. unfold at_lo, c_wf, c_next. rewrite Hp. simpl.
        destruct rs as [|y r]; simpl.
        -- split; auto. intros z Hz. rewrite <- Hv, Hwf in Hz. apply in_app_or in Hz as [Hz|[<-|[]]].
           ++ apply in_rev in Hz. apply bytes_ltb_asym. auto.
           ++ simpl. rewrite bytes_ltb_leb, Hkm. reflexivity.
        -- split; [rewrite <- Hv, Hwf; simpl; now rewrite <- app_assoc|]. split.
           ++ intros z [<-|Hz]; [simpl; rewrite bytes_ltb_leb, Hkm; reflexivity|].
              apply bytes_ltb_asym. auto.
           ++ rewrite <- Hv, Hwf in Hs. apply ssorted_app in Hs as (_ & [Hxy _] & _).
              specialize (Hxy y (or_introl eq_refl)). unfold klt in Hxy. simpl in Hxy.
              eapply bytes_le_lt_trans; [|exact Hxy]. rewrite bytes_leb_ltb, Hx. reflexivity.
      * split; auto. unfold at_lo. rewrite Hp. split; [unfold c_wf; now rewrite Hp|]. split.
        -- intros y Hy. apply bytes_ltb_asym. auto.
        -- simpl. unfold leb_cmp in Hle. unfold bytes_ltb. rewrite (bytes_cmp_antisym k mn).
           destruct (bytes_cmp k mn); simpl; auto; discriminate.
  - (* closed on the left *)
    split; auto. unfold at_lo. split; auto. destruct (c_pos c1) as [|ls x rs].
    + rewrite Hv. intros y Hy. rewrite bytes_leb_ltb, (Hpos y Hy). reflexivity.
    + destruct Hpos as [Hls Hx]. split.
      * intros y Hy. rewrite bytes_leb_ltb, (Hls y Hy). reflexivity.
      * rewrite bytes_leb_ltb, Hx. reflexivity.
Qed.

(* ---------- initial position, reverse ---------- *)
Definition at_up (q : bytes -> bool) (c : cursor) : Prop :=
  c_wf c /\
  match c_pos c with
  | CInv => forall x, In x (c_view c) -> q (fst x) = false
  | CAt ls x rs => (forall y, In y (x :: ls) -> q (fst y) = true) /\
                   (match rs with [] => True | h :: _ => q (fst h) = false end)
  end.

Lemma at_up_rem q c :
  ksorted (c_view c) -> (forall a b, bytes_ltb a b = true -> q b = true -> q a = true) ->
  at_up q c -> rem_r c = rev (filter (fun e => q (fst e)) (c_view c)).
Proof.
  unfold at_up, c_wf, rem_r. destruct c as [v [|ls x rs]]; simpl; intros Hs Hq [Hwf H].
  - now rewrite filter_all_false.
  - destruct H as [Hall Hrs]. subst v.
    replace (rev ls ++ x :: rs) with ((rev ls ++ [x]) ++ rs) in * by (now rewrite <- app_assoc).
    rewrite filter_app.
    rewrite (filter_all_true _ (rev ls ++ [x])).
    + rewrite filter_all_false.
      * rewrite app_nil_r, rev_app_distr, rev_involutive. reflexivity.
      * destruct rs as [|h t]; [intros y []|]. apply ssorted_app in Hs as (_ & Hs & _).
        apply (all_fail_from_head q h t Hs Hq Hrs).
    + intros y Hy. apply Hall. apply in_app_or in Hy as [Hy|[<-|[]]]; [right; now apply in_rev|now left].
Qed.

Lemma c_seek_for_prev_spec t c :
  ksorted (c_view c) ->
  let c' := c_seek_for_prev t c in
  c_view c' = c_view c /\ at_up (fun k => bytes_leb k t) c'.
Proof.
  intro Hs. unfold c_seek_for_prev, at_up, c_wf. simpl.
  destruct (seek_split _ [] (c_view c)) as [ls rs] eqn:E.
  apply seek_split_spec in E as (H1 & H2 & H3). simpl in H1.
  destruct ls as [|x l]; simpl; repeat split; auto.
  - simpl in H1. subst rs. destruct (c_view c) as [|h tl]; [intros y []|].
    apply (all_fail_from_head (fun k => bytes_leb k t) h tl Hs); auto.
    intros a b Hab Hb. apply bytes_ltb_leb_weak. eapply bytes_lt_le_trans; eauto.
  - simpl in H1. rewrite <- H1. now rewrite <- app_assoc.
  - intros y Hy. destruct (H2 y Hy) as [[]|]; auto.
Qed.

Lemma leb_downward t a b : bytes_ltb a b = true -> bytes_leb b t = true -> bytes_leb a t = true.
Proof. intros H1 H2. apply bytes_ltb_leb_weak. eapply bytes_lt_le_trans; eauto. Qed.

Lemma ltb_downward t a b : bytes_ltb a b = true -> bytes_ltb b t = true -> bytes_ltb a t = true.
Proof. apply bytes_ltb_trans. Qed.

(* the reverse fallback of the constructor (the code after the fix) *)
Definition fallback (legacy : bool) (mx : bytes) (c : cursor) : cursor :=
  if c_valid c then c
  else let c := c_first c in
       match key_cmp c mx with
       | Some Gt => if legacy then c else c_prev c
       | _ => c
       end.

Lemma fallback_spec mx c :
  ksorted (c_view c) -> at_up (fun k => bytes_leb k mx) c ->
  c_view (fallback false mx c) = c_view c /\ at_up (fun k => bytes_leb k mx) (fallback false mx c).
Proof.
  intros Hs Hat. unfold fallback, c_valid. destruct (c_pos c) as [|ls x rs] eqn:Hp; auto.
  unfold at_up in Hat. rewrite Hp in Hat. destruct Hat as [_ Hall].
  unfold c_first, key_cmp, c_cur. simpl. destruct (c_view c) as [|[k v] r] eqn:Hv; simpl.
  - split; auto. unfold at_up, c_wf. simpl. split; auto; intros y [].
  - assert (bytes_leb k mx = false) as Hk by (apply (Hall (k, v)); now left).
    unfold bytes_leb in Hk. destruct (bytes_cmp k mx); try discriminate.
    unfold c_prev. simpl. split; auto. unfold at_up, c_wf. simpl. split; auto.
Qed.

Definition ropen_adjust (mx : bytes) (c : cursor) : cursor :=
  match key_cmp c mx with
  | Some r => if geb_cmp r then c_prev c else c
  | None => c
  end.

Lemma ropen_adjust_spec mx c :
  ksorted (c_view c) -> at_up (fun k => bytes_leb k mx) c ->
  c_view (ropen_adjust mx c) = c_view c /\ at_up (fun k => bytes_ltb k mx) (ropen_adjust mx c).
Proof.
  intros Hs [Hwf Hat]. unfold ropen_adjust, key_cmp, c_cur.
  destruct (c_pos c) as [|ls [k v] rs] eqn:Hp.
  - split; auto. unfold at_up. rewrite Hp. split; auto. intros y Hy.
    specialize (Hat y Hy). destruct (bytes_ltb (fst y) mx) eqn:E; auto.
    rewrite (bytes_ltb_leb_weak _ _ E) in Hat. discriminate.
  - destruct Hat as [Hall Hrs]. unfold c_wf in Hwf. rewrite Hp in Hwf.
    assert (Hlt : forall z, In z ls -> bytes_ltb (fst z) k = true).
    { intros z Hz. rewrite Hwf in Hs. apply ssorted_app in Hs as (_ & _ & H).
      apply (H z (k, v)); [now apply in_rev in Hz|now left]. }
    assert (Hk : bytes_leb k mx = true) by (apply (Hall (k, v)); now left).
    destruct (geb_cmp (bytes_cmp k mx)) eqn:Hge.
    + assert (Hnlt : bytes_ltb k mx = false)
        by (unfold bytes_ltb; unfold geb_cmp in Hge; destruct (bytes_cmp k mx); auto; discriminate).
      split; [reflexivity|]. unfold at_up. split; [apply (wf_adv true); unfold c_wf; now rewrite Hp|].
      unfold c_prev. rewrite Hp. simpl. destruct ls as [|y l]; simpl.
      * simpl in Hwf. rewrite Hwf. rewrite Hwf in Hs.
        apply (all_fail_from_head (fun a => bytes_ltb a mx) (k, v) rs Hs (ltb_downward mx) Hnlt).
      * split; auto. intros z Hz. eapply bytes_lt_le_trans; [apply Hlt; exact Hz|exact Hk].
    + assert (Hklt : bytes_ltb k mx = true)
        by (unfold bytes_ltb; unfold geb_cmp in Hge; destruct (bytes_cmp k mx); auto; discriminate).
      split; auto. unfold at_up. rewrite Hp. split; [unfold c_wf; now rewrite Hp|]. split.
      * intros z [<-|Hz]; auto. eapply bytes_ltb_trans; [apply Hlt; exact Hz|exact Hklt].
      * destruct rs as [|h t]; auto. destruct (bytes_ltb (fst h) mx) eqn:E; auto.
        rewrite (bytes_ltb_leb_weak _ _ E) in Hrs. discriminate.
Qed.

Lemma init_seek_rev o c :
  ksorted (c_view c) -> o_reverse o = true ->
  let c' := init_seek false o c in
  c_view c' = c_view c /\ at_up (up o) c'.
Proof.
  intros Hs Hrev. unfold init_seek. rewrite Hrev. simpl. unfold up.
  destruct (o_max o) as [mx|].
  2:{ (* SeekToLast *)
      unfold c_last, at_up, c_wf. simpl. destruct (rev (c_view c)) as [|x l] eqn:E; simpl.
      - split; auto. split; auto. intros y Hy. apply in_rev in Hy. rewrite E in Hy. destruct Hy.
      - split; auto. repeat split; auto.
        rewrite <- (rev_involutive (c_view c)), E. reflexivity. }
  pose proof (c_seek_for_prev_spec mx c Hs) as (Hv1 & Hat1). set (c1 := c_seek_for_prev mx c) in *.
  change (if c_valid c1 then c1 else _) with (fallback false mx c1).
  assert (Hs1 : ksorted (c_view c1)) by now rewrite Hv1.
  pose proof (fallback_spec mx c1 Hs1 Hat1) as (Hv2 & Hat2). set (c2 := fallback false mx c1) in *.
  destruct (has_flag (o_type o) range_ropen).
  - change (match key_cmp c2 mx with Some r => if geb_cmp r then c_prev c2 else c2 | None => c2 end)
      with (ropen_adjust mx c2).
    assert (Hs2 : ksorted (c_view c2)) by now rewrite Hv2.
    pose proof (ropen_adjust_spec mx c2 Hs2 Hat2) as (Hv3 & Hat3).
    split; [congruence|exact Hat3].
  - split; [congruence|exact Hat2].
Qed.

(* ---------- the wrapper over an arbitrary sorted view ---------- *)
Lemma start_position o c :
  ksorted (c_view c) ->
  let c' := init_seek false o c in
  c_view c' = c_view c /\ c_wf c' /\
  take_while (fun e => pass o (fst e)) (rem (o_reverse o) c') =
  (if o_reverse o then rev (filter (fun e => in_range o (fst e)) (c_view c))
   else filter (fun e => in_range o (fst e)) (c_view c)).
Proof.
  intro Hs. unfold pass, rem. destruct (o_reverse o) eqn:Hrev.
  - destruct (init_seek_rev o c Hs Hrev) as (Hv & Hat). simpl in *.
    split; auto. split; [apply Hat|].
    rewrite (at_up_rem (up o)); [|now rewrite Hv|apply up_downward|exact Hat]. rewrite Hv.
    rewrite <- (filter_take_while (fun a b => klt b a)).
    + rewrite filter_rev'. f_equal. rewrite <- filter_andb. apply filter_ext.
      intros [k v]. simpl. rewrite in_range_lo_up. apply andb_comm.
    + apply ssorted_rev. now apply ssorted_filter.
    + intros a b Hab. apply lo_upward. exact Hab.
  - destruct (init_seek_fwd false o c Hs Hrev) as (Hv & Hat). simpl in *.
    split; auto. split; [apply Hat|].
    rewrite (at_lo_rem (lo o)); [|now rewrite Hv|apply lo_upward|exact Hat]. rewrite Hv.
    rewrite <- (filter_take_while klt).
    + rewrite <- filter_andb. apply filter_ext. intros [k v]. reflexivity.
    + now apply ssorted_filter.
    + intros a b Hab. apply up_downward. exact Hab.
Qed.

Lemma wrap_view_correct_fuel o v fuel :
  ksorted v -> (length v < fuel)%nat ->
  run_iter fuel (wrap false (mkcur v CInv) o) = Some (range_query v o).
Proof.
  intros Hs Hfuel. unfold wrap, range_query. destruct (o_offset o <? 0) eqn:Hoff.
  - destruct fuel as [|f]; [lia|]. cbn [run_iter]. unfold w_valid. cbn [w_opts]. now rewrite Hoff.
  - apply Z.ltb_ge in Hoff.
    pose proof (start_position o (mkcur v CInv) Hs) as (Hv & Hwf & Hstart).
    set (c1 := init_seek false o (mkcur v CInv)) in *. simpl in Hv.
    destruct (skip_offset_spec o (Z.to_nat (o_offset o)) c1 Hoff Hwf) as (c' & H1 & Hwf' & Hv' & Hrem).
    rewrite H1.
    rewrite (run_walk o (rem (o_reverse o) c')); auto.
    + rewrite Hrem, walk_skipw, Hstart. unfold limit. rewrite Z.sub_0_r. simpl. reflexivity.
    + pose proof (rem_length (o_reverse o) c' Hwf'). rewrite Hv', Hv in H. lia.
Qed.

Lemma wrap_view_cursor_view legacy o c : c_view (w_cur (wrap legacy c o)) = c_view c.
Proof.
  assert (Hi : forall c, c_view (init_seek legacy o c) = c_view c).
  { intro c0. unfold init_seek, key_cmp.
    destruct (o_reverse o), (o_min o), (o_max o); simpl;
      repeat match goal with |- context [if ?b then _ else _] => destruct b; simpl end;
      repeat match goal with |- context [match ?x with _ => _ end] => destruct x; simpl end; reflexivity. }
  assert (Hk : forall n w, c_view (w_cur (skip_offset n w)) = c_view (w_cur w)).
  { induction n as [|n IH]; intro w; simpl; auto. destruct (w_valid w); auto. rewrite IH. simpl.
    destruct (o_reverse (w_opts w)); reflexivity. }
  unfold wrap. destruct (o_offset o <? 0); simpl; auto. rewrite Hk. simpl. apply Hi.
Qed.

Lemma wrap_view_correct o v :
  ksorted v -> iterate (wrap false (mkcur v CInv) o) = Some (range_query v o).
Proof.
  intro Hs. unfold iterate. rewrite wrap_view_cursor_view. cbn [c_view]. apply wrap_view_correct_fuel; auto.
Qed.

(* ---------- engines that clamp the cursor to the bounds see the same range ---------- *)
Lemma in_range_in_bounds o k :
  in_range o k = true -> in_bounds (o_min o) (o_max o) (o_type o) k = true.
Proof.
  unfold in_range, in_bounds, upper_bound. intro H. apply andb_true_iff in H as [Hl Hu].
  apply andb_true_iff. split.
  - destruct (o_min o) as [mn|]; auto. destruct (has_flag _ range_lopen); auto.
    now apply bytes_ltb_leb_weak.
  - destruct (o_max o) as [mx|]; auto. destruct (has_flag _ range_ropen); auto.
    now rewrite bytes_ltb_succ.
Qed.

Lemma range_query_view bounded o m :
  range_query (engine_view bounded (o_min o) (o_max o) (o_type o) m) o = range_query m o.
Proof.
  unfold range_query, engine_view. destruct bounded; auto.
  destruct (o_offset o <? 0); auto.
  assert (filter (fun e => in_range o (fst e))
            (filter (fun e => in_bounds (o_min o) (o_max o) (o_type o) (fst e)) m) =
          filter (fun e => in_range o (fst e)) m) as ->; auto.
  rewrite <- filter_andb. apply filter_ext. intros [k v]. simpl.
  destruct (in_range o k) eqn:E; [|apply andb_false_r].
  now rewrite (in_range_in_bounds o k E).
Qed.

Lemma engine_view_sorted bounded mn mx tp m : ksorted m -> ksorted (engine_view bounded mn mx tp m).
Proof. unfold engine_view. destruct bounded; auto. apply ssorted_filter. Qed.

(* ---------- wrapper_correct ---------- *)
Theorem wrapper_correct : forall (bounded : bool) (m : smap) (o : iter_opts),
  ksorted m -> db_range_limit false bounded m o = Some (range_query m o).
Proof.
  intros bounded m o Hs. unfold db_range_limit, get_iterator.
  rewrite wrap_view_correct by now apply engine_view_sorted.
  now rewrite range_query_view.
Qed.

Corollary range_iterator_correct : forall (bounded : bool) (m : smap) (o : iter_opts),
  ksorted m -> db_range false bounded m o = Some (range_query m (no_limit o)).
Proof. intros. unfold db_range. now apply wrapper_correct. Qed.

(* no command's iteration depends on the engine *)
Corollary wrapper_engine_independent : forall m o,
  ksorted m -> db_range_limit false true m o = db_range_limit false false m o.
Proof. intros. now rewrite !wrapper_correct. Qed.
