(* Eng/Proofs.v — C20: all proofs of the group (re-export) *)
From ZV Require Export Eng.ProofsOrder Eng.ProofsMap Eng.ProofsBatch Eng.ProofsIter Eng.ProofsRadix Eng.ProofsGen Eng.ProofsConc Eng.ProofsScript Eng.ProofsIndexKey.
