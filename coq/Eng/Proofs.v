(* Eng/Proofs.v — C20 proofs (in progress) *)
From ZV Require Import Common.Bytes Common.BytesFacts Eng.Consts Eng.Model.
Open Scope N_scope.

Lemma db_clear_committed d : committed (db_clear d) = committed d.
Proof. reflexivity. Qed.
