(* Eng/ProofsRadix.v — C20: the radix iterator of the mem engine (Eng/RadixIter.v, engine/radix_iter.go) refines
   the ideal cursor: every raw cursor script gives the same answers, given that the result iterators of
   engine/radixdb enumerate what LowerBound / ReverseLowerBound promise *)
From ZV Require Import Common.Bytes Common.BytesFacts Eng.SortedMap Eng.Cursor Eng.RadixIter
  Eng.ProofsOrder Eng.ProofsMap Eng.ProofsIter.
Open Scope N_scope.

(* the radix iterator it stands at the position of the ideal cursor c *)
Definition rrel (it : riter) (c : cursor) : Prop :=
  r_all it = c_view c /\ c_wf c /\
  match c_pos c with
  | CInv => r_cur it = None
  | CAt ls x rs => r_cur it = Some x /\ r_res it = Some (if r_rev it then ls else rs)
  end.

Lemma seek_split_app p : forall a acc b,
  (forall y, In y a -> p (fst y) = true) ->
  seek_split p acc (a ++ b) = seek_split p (rev a ++ acc) b.
Proof.
  induction a as [|x a IH]; intros acc b H; simpl; auto.
  rewrite (H x (or_introl eq_refl)). rewrite IH by (intros; apply H; now right).
  now rewrite <- app_assoc.
Qed.

Lemma seek_split_stop p acc b :
  match b with [] => True | x :: _ => p (fst x) = false end -> seek_split p acc b = (acc, b).
Proof. destruct b as [|x b]; simpl; auto. now intros ->. Qed.

(* re-seeking at the current key finds the current position again *)
Lemma seek_split_at_lt ls x rs :
  ksorted (rev ls ++ x :: rs) ->
  seek_split (fun k => bytes_ltb k (fst x)) [] (rev ls ++ x :: rs) = (ls, x :: rs).
Proof.
  intro Hs. rewrite seek_split_app.
  - rewrite rev_involutive, app_nil_r. apply seek_split_stop. apply bytes_ltb_irrefl.
  - intros y Hy. apply ssorted_app in Hs as (_ & _ & H). apply (H y x); auto. now left.
Qed.

Lemma seek_split_at_le ls x rs :
  ksorted (rev ls ++ x :: rs) ->
  seek_split (fun k => bytes_leb k (fst x)) [] (rev ls ++ x :: rs) = (x :: ls, rs).
Proof.
  intro Hs. replace (rev ls ++ x :: rs) with ((rev ls ++ [x]) ++ rs) in * by now rewrite <- app_assoc.
  rewrite seek_split_app.
  - rewrite rev_app_distr, rev_involutive, app_nil_r. simpl. apply seek_split_stop.
    destruct rs as [|h t]; auto. apply ssorted_app in Hs as (_ & _ & H).
    assert (klt x h) as Hxh by (apply H; [apply in_or_app; right; now left|now left]).
    unfold klt in Hxh. rewrite bytes_leb_ltb, Hxh. reflexivity.
  - intros y Hy. apply in_app_or in Hy as [Hy|[<-|[]]]; [|apply bytes_leb_refl].
    apply bytes_ltb_leb_weak. apply ssorted_app in Hs as (Hs & _). apply ssorted_app in Hs as (_ & _ & H).
    apply (H y x); auto. now left.
Qed.

(* ---------- positioning operations ---------- *)
Lemma rrel_seek t it c : r_all it = c_view c -> rrel (r_seek t it) (c_seek t c).
Proof.
  intro Hv. pose proof (c_seek_spec t c) as (_ & Hwf & _).
  unfold rrel, r_seek, r_seek_opt, lower_bound, c_seek in *. simpl in *. rewrite Hv.
  destruct (seek_split _ [] (c_view c)) as [ls [|x r]]; simpl; auto.
Qed.

Lemma rrel_seek_for_prev t it c :
  ksorted (c_view c) -> r_all it = c_view c -> rrel (r_seek_for_prev t it) (c_seek_for_prev t c).
Proof.
  intros Hs Hv. pose proof (c_seek_for_prev_spec t c Hs) as (_ & Hwf & _).
  unfold rrel, r_seek_for_prev, r_seek_for_prev_opt, reverse_lower_bound, c_seek_for_prev in *. simpl in *.
  rewrite Hv. destruct (seek_split _ [] (c_view c)) as [[|x l] rs]; simpl; auto.
Qed.

Lemma rrel_first it c : r_all it = c_view c -> rrel (r_first it) (c_first c).
Proof.
  intro Hv. unfold rrel, r_first, r_seek_opt, lower_bound, c_first, c_wf. simpl. rewrite Hv.
  destruct (c_view c) as [|x r]; simpl; auto.
Qed.

Lemma rrel_last it c : r_all it = c_view c -> rrel (r_last it) (c_last c).
Proof.
  intro Hv. unfold rrel, r_last, r_seek_for_prev_opt, reverse_lower_bound, c_last, c_wf. simpl. rewrite Hv.
  destruct (rev (c_view c)) as [|x l] eqn:E; simpl; auto.
  repeat split; auto. rewrite <- (rev_involutive (c_view c)), E. reflexivity.
Qed.

(* ---------- Next / Prev on a valid position ---------- *)
Lemma rrel_next it c :
  ksorted (c_view c) -> rrel it c -> c_valid c = true -> rrel (r_next it) (c_next c).
Proof.
  intros Hs (Hv & Hwf & Hpos) Hval. unfold c_valid in Hval.
  destruct c as [v [|ls x rs]]; simpl in *; [discriminate|]. destruct Hpos as [Hcur Hres].
  unfold c_wf in Hwf. simpl in Hwf. subst v. rename Hwf into Hv. rewrite Hv in Hs.
  unfold r_next. rewrite Hres. destruct (r_rev it) eqn:Hrev.
  - (* travelling backwards so far: re-seek at the current key, then step *)
    unfold r_key. rewrite Hcur. unfold r_seek_opt, lower_bound. rewrite Hv.
    rewrite (seek_split_at_lt ls x rs Hs). simpl.
    unfold rrel, c_next, c_wf, r_pop. simpl. destruct rs as [|y r]; simpl; auto.
    repeat split; auto; rewrite ?Hv; simpl; rewrite <- ?app_assoc; reflexivity.
  - unfold rrel, c_next, c_wf, r_pop. rewrite Hres. simpl. destruct rs as [|y r]; simpl; auto.
    rewrite Hrev. repeat split; auto; rewrite ?Hv; simpl; rewrite <- ?app_assoc; reflexivity.
Qed.

Lemma rrel_prev it c :
  ksorted (c_view c) -> rrel it c -> c_valid c = true -> rrel (r_prev it) (c_prev c).
Proof.
  intros Hs (Hv & Hwf & Hpos) Hval. unfold c_valid in Hval.
  destruct c as [v [|ls x rs]]; simpl in *; [discriminate|]. destruct Hpos as [Hcur Hres].
  unfold c_wf in Hwf. simpl in Hwf. subst v. rename Hwf into Hv. rewrite Hv in Hs.
  unfold r_prev. rewrite Hres. destruct (r_rev it) eqn:Hrev.
  - unfold rrel, c_prev, c_wf, r_pop. rewrite Hres. simpl. destruct ls as [|y l]; simpl; auto.
    rewrite Hrev. repeat split; auto; rewrite ?Hv; simpl; rewrite <- ?app_assoc; reflexivity.
  - unfold r_key. rewrite Hcur. unfold r_seek_for_prev_opt, reverse_lower_bound. rewrite Hv.
    rewrite (seek_split_at_le ls x rs Hs). simpl.
    unfold rrel, c_prev, c_wf, r_pop. simpl. destruct ls as [|y l]; simpl; auto.
    repeat split; auto; rewrite ?Hv; simpl; rewrite <- ?app_assoc; reflexivity.
Qed.

Lemma rrel_cur it c : rrel it c -> r_cur it = c_cur c /\ r_valid it = c_valid c.
Proof.
  intros (_ & _ & H). unfold c_cur, c_valid, r_valid. destruct (c_pos c) as [|ls x rs].
  - now rewrite H.
  - destruct H as [-> _]. auto.
Qed.

Lemma rrel_view it c : rrel it c -> r_all it = c_view c.
Proof. now intros (H & _). Qed.

(* ---------- whole scripts ---------- *)
Theorem radix_refines_ideal ops : forall started it c,
  ksorted (c_view c) -> rrel it c ->
  rops_run started it ops = cops_run started c ops.
Proof.
  induction ops as [|o r IH]; intros started it c Hs Hr; simpl; auto.
  pose proof (rrel_view _ _ Hr) as Hv. pose proof (rrel_cur _ _ Hr) as [_ Hval].
  destruct o as [| |t|t| |]; simpl.
  - pose proof (rrel_first it c Hv) as H. rewrite (proj1 (rrel_cur _ _ H)). f_equal. now apply IH.
  - pose proof (rrel_last it c Hv) as H. rewrite (proj1 (rrel_cur _ _ H)). f_equal. now apply IH.
  - pose proof (rrel_seek t it c Hv) as H. rewrite (proj1 (rrel_cur _ _ H)). f_equal. now apply IH.
  - pose proof (rrel_seek_for_prev t it c Hs Hv) as H. rewrite (proj1 (rrel_cur _ _ H)). f_equal. now apply IH.
  - rewrite Hval. destruct (started && c_valid c) eqn:E; simpl.
    + apply andb_true_iff in E as [_ E]. pose proof (rrel_next it c Hs Hr E) as H.
      rewrite (proj1 (rrel_cur _ _ H)). f_equal. now apply IH.
    + f_equal. now apply IH.
  - rewrite Hval. destruct (started && c_valid c) eqn:E; simpl.
    + apply andb_true_iff in E as [_ E]. pose proof (rrel_prev it c Hs Hr E) as H.
      rewrite (proj1 (rrel_cur _ _ H)). f_equal. now apply IH.
    + f_equal. now apply IH.
Qed.

Corollary radix_script_is_ideal m ops :
  ksorted m -> rops_run false (r_new m) ops = cops_run false (mkcur m CInv) ops.
Proof.
  intro Hs. apply radix_refines_ideal; auto. unfold rrel, r_new, c_wf. simpl. auto.
Qed.
