(* Sync/Sender.v — C19: the SENDING side (source cluster's log-syncer learner) composed with the receiver model.
   Hand-written model of:
     node/syncer_learner.go  logSyncerSM.ApplyRaftRequest (entries enter the send buffer in raft order),
                             handlerRaftLogs (the buffer raftLogs is sent as one ApplyRaftReqs call; kept and grown on
                             error; dropped unsent when the remote position fetched at loop start already covers its
                             last entry), learner restart (new send loop, replay of its own raft log),
                             PrepareSnapshot (a raft snapshot reaches the learner: shortcut when the remote is already
                             newer; else wait for the buffered logs, NotifyTransferSnap, status polling,
                             NotifyApplySnap, until GetApplySnapStatus says ApplySuccess)
     node/log_sender.go      sendRaftLog / notifyTransferSnap / notifyApplySnap retry loops: a request may be lost before
                             it reaches the receiver, or its response may be lost after it was handled
     node/syncer_learner.go  two learners of the same source: the forwarding one and a stand-by in ignore mode
                             (switchIgnoreSend / waitIgnoreUntilChanged: a stand-by passes an entry only once the
                             receiver's position covers it); the learner's own raft snapshot (GetSnapshot waits for the
                             buffered logs and fails on the time-out: a snapshot is taken only with the buffer drained),
                             from which a restarted learner replays its raft log
   Everything the code does with timers (retry back-off, the 5 s / 10 s polling, the status machine's 5 minute
   time-outs) is an event that may or may not happen at any moment.  Not modelled: IsSyncerNormalInit (a "skipped"
   snapshot advances the position without data by the operator's decision), several receiver replicas.
   No proofs in this file. *)
From ZV Require Import Sync.Consts Sync.Model.
Open Scope N_scope.

(* the send loop: raftLogs = src[sd_buf .. sd_next), positions counted in the source log *)
Record sender := mkSd {
  sd_buf : nat;                   (* everything before it has been acknowledged by the receiver (or skipped as covered) *)
  sd_next : nat;                  (* next source entry the learner's apply loop will hand to the send loop *)
  sd_state : option sstate;       (* the remote synced position fetched when this send loop started *)
  sd_snap : nat;                  (* the learner's own last raft snapshot: where a restart replays from *)
  sd_fwd : bool                   (* true: the forwarding learner; false: stand-by (ignore mode) *)
}.
Definition init_sender : sender := mkSd 0 0 None 0 true.

Definition slice {A : Type} (l : list A) (a b : nat) : list A := firstn (b - a) (skipn a l).

(* SyncedState.IsNewer2 on what getRemoteSyncedRaft returned (zeros when the remote knows nothing) *)
Definition is_newer2 (o : option sstate) (t i : N) : bool :=
  match o with
  | Some s => (t <=? ss_term s) && (i <=? ss_index s)
  | None => (t <=? 0) && (i <=? 0)
  end.

Inductive fault := FNone | FRespLost | FReqLost.

(* w selects the learner: two learners of the same source apply the same raft log *)
Inductive ev :=
| EFeed (w : bool)                        (* the learner applies its next raft entry *)
| ESend (w : bool) (f : fault)            (* its buffer goes out as one ApplyRaftReqs call *)
| ELearnerSnapshot (w : bool)             (* its raft asks for a snapshot (GetSnapshot) *)
| ELearnerRestart (w : bool)              (* it restarts and replays its raft log behind its last snapshot *)
| ESwitch (w : bool) (fwd : bool)         (* the placement driver makes it the forwarding learner / a stand-by *)
| ESnapCheck (w : bool) (m : nat)         (* PrepareSnapshot for the raft snapshot covering m entries: remote already newer *)
| ENotifyTransfer (m : nat) (f : fault)   (* NotifyTransferSnap for it *)
| ENotifyApply (m : nat) (files : bool) (f : fault)
                                          (* NotifyApplySnap; files: the checkpoint has reached the receiver *)
| ESnapDone (w : bool) (m : nat)          (* GetApplySnapStatus = ApplySuccess: the learner goes on behind the snapshot *)
| ERecv (o : op).                         (* the receiver's own events: snapshot, crash/restart, local write, time-out *)

Definition recv_event_ok (o : op) : bool :=
  match o with
  | OSnap | OSnapLate _ | ORestart | OLocal _ | OSnapExpire _ => true
  | _ => false
  end.

Definition pos_at (src : list sentry) (m : nat) : option (N * N) :=
  match m with
  | O => None
  | S j => match nth_error src j with Some e => Some (s_term e, s_index e) | None => None end
  end.

Definition sys := (node * (sender * sender))%type.
Definition init_sys : sys := (init_node, (init_sender, mkSd 0 0 None 0 false)).

Definition get_sd (w : bool) (p : sender * sender) : sender := if w then fst p else snd p.
Definition set_sd (w : bool) (p : sender * sender) (sd : sender) : sender * sender :=
  if w then (sd, snd p) else (fst p, sd).

(* one learner's own step; returns the (possibly changed) receiver and the learner *)
Definition learner_step (c : N) (src : list sentry) (nd : node) (sd : sender) (e : ev) : node * sender :=
  match e with
  | EFeed _ =>
      if (sd_next sd <? length src)%nat then
        if sd_fwd sd then (nd, mkSd (sd_buf sd) (S (sd_next sd)) (sd_state sd) (sd_snap sd) (sd_fwd sd))
        else
          (* stand-by: waitIgnoreUntilChanged lets the entry pass only when the receiver's position covers it *)
          match pos_at src (S (sd_next sd)) with
          | Some (t, i) =>
              if is_newer2 (sm_get c (r_synced (n_cur nd))) t i
              then (nd, mkSd (if (sd_buf sd =? sd_next sd)%nat then S (sd_next sd) else sd_buf sd) (S (sd_next sd))
                             (sd_state sd) (sd_snap sd) (sd_fwd sd))
              else (nd, sd)
          | None => (nd, sd)
          end
      else (nd, sd)
  | ESend _ f =>
      let batch := slice src (sd_buf sd) (sd_next sd) in
      match rev batch with
      | [] => (nd, sd)
      | lst :: _ =>
          if is_newer2 (sd_state sd) (s_term lst) (s_index lst)
          then (nd, mkSd (sd_next sd) (sd_next sd) (sd_state sd) (sd_snap sd) (sd_fwd sd))   (* "remote is already replayed this raft log" *)
          else match f with
               | FReqLost => (nd, sd)
               | FNone => (fst (step nd (ORpc (map (fun x => (x, true)) batch))),
                           mkSd (sd_next sd) (sd_next sd) (sd_state sd) (sd_snap sd) (sd_fwd sd))
               | FRespLost => (fst (step nd (ORpc (map (fun x => (x, true)) batch))), sd)
               end
      end
  | ELearnerSnapshot _ =>
      (* logSyncerSM.GetSnapshot: waitBufferedLogs(10 s); on the time-out the snapshot FAILS *)
      if (sd_buf sd =? sd_next sd)%nat
      then (nd, mkSd (sd_buf sd) (sd_next sd) (sd_state sd) (sd_next sd) (sd_fwd sd))
      else (nd, sd)
  | ELearnerRestart _ =>
      (nd, mkSd (sd_snap sd) (sd_snap sd) (sm_get c (r_synced (n_cur nd))) (sd_snap sd) (sd_fwd sd))
  | ESwitch _ fwd =>
      (nd, mkSd (sd_buf sd) (sd_next sd) (sd_state sd) (sd_snap sd) fwd)
  | ESnapCheck _ m =>
      match pos_at src m with
      | Some (t, i) =>
          if is_newer2 (sm_get c (r_synced (n_cur nd))) t i && (sd_next sd <=? m)%nat
          then (nd, mkSd m m (sd_state sd) (sd_snap sd) (sd_fwd sd)) else (nd, sd)
      | None => (nd, sd)
      end
  | ESnapDone _ m =>
      match pos_at src m with
      | Some (t, i) =>
          if (apply_status_rsp nd c t i =? 4) && (sd_buf sd =? sd_next sd)%nat && (sd_next sd <=? m)%nat
          then (nd, mkSd m m (sd_state sd) (sd_snap sd) (sd_fwd sd)) else (nd, sd)
      | None => (nd, sd)
      end
  | _ => (nd, sd)
  end.

Definition ev_learner (e : ev) : option bool :=
  match e with
  | EFeed w | ESend w _ | ELearnerSnapshot w | ELearnerRestart w | ESwitch w _ | ESnapCheck w _ | ESnapDone w _ => Some w
  | _ => None
  end.

Definition sys_step (c : N) (src : list sentry) (s : sys) (e : ev) : sys :=
  let '(nd, p) := s in
  match ev_learner e with
  | Some w =>
      let '(nd', sd') := learner_step c src nd (get_sd w p) e in (nd', set_sd w p sd')
  | None =>
      match e with
      | ENotifyTransfer m f =>
          match pos_at src m, f with
          | Some (t, i), FNone | Some (t, i), FRespLost => (fst (step nd (OSnapRpc (OXfer c t i))), p)
          | _, _ => s
          end
      | ENotifyApply m files f =>
          match pos_at src m, f with
          | Some (t, i), FNone | Some (t, i), FRespLost =>
              let content := if files then Some (map (fun x => (c, s_payload x)) (firstn m src)) else None in
              (fst (step nd (OSnapRpc (OSnapReq c t i content))), p)
          | _, _ => s
          end
      | ERecv o => if recv_event_ok o then (fst (step nd o), p) else s
      | _ => s
      end
  end.

Definition sys_run (c : N) (src : list sentry) (evs : list ev) : sys := fold_left (sys_step c src) evs init_sys.

(* the variant in which the learner's raft snapshot is taken although buffered logs are still unsent
   (what a GetSnapshot that swallows the time-out does): only for the refutation in the proofs *)
Definition learner_step_loose (c : N) (src : list sentry) (nd : node) (sd : sender) (e : ev) : node * sender :=
  match e with
  | ELearnerSnapshot _ => (nd, mkSd (sd_buf sd) (sd_next sd) (sd_state sd) (sd_next sd) (sd_fwd sd))
  | _ => learner_step c src nd sd e
  end.

Definition sys_step_loose (c : N) (src : list sentry) (s : sys) (e : ev) : sys :=
  let '(nd, p) := s in
  match ev_learner e with
  | Some w => let '(nd', sd') := learner_step_loose c src nd (get_sd w p) e in (nd', set_sd w p sd')
  | None => sys_step c src s e
  end.
Definition sys_run_loose (c : N) (src : list sentry) (evs : list ev) : sys :=
  fold_left (sys_step_loose c src) evs init_sys.
