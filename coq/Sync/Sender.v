(* Sync/Sender.v — C19: the SENDING side (source cluster's log-syncer learner) composed with the receiver model.
   Hand-written model of:
     node/syncer_learner.go  logSyncerSM.ApplyRaftRequest (entries enter the send buffer in raft order),
                             handlerRaftLogs (the buffer raftLogs is sent as one ApplyRaftReqs call; kept and grown on
                             error; dropped unsent when the remote position fetched at loop start already covers its
                             last entry), learner restart (new send loop, replay of its own raft log),
                             PrepareSnapshot (a raft snapshot reaches the learner: shortcut when the remote is already
                             newer; else wait for the buffered logs, NotifyTransferSnap, status polling,
                             NotifyApplySnap, until GetApplySnapStatus says ApplySuccess)
     node/log_sender.go      sendRaftLog / notifyTransferSnap / notifyApplySnap retry loops: a request may be lost before
                             it reaches the receiver, or its response may be lost after it was handled
   Everything the code does with timers (retry back-off, the 5 s / 10 s polling, the status machine's 5 minute
   time-outs) is an event that may or may not happen at any moment.  Not modelled: IsSyncerNormalInit (a "skipped"
   snapshot advances the position without data by the operator's decision), several receiver replicas.
   No proofs in this file. *)
From ZV Require Import Sync.Consts Sync.Model.
Open Scope N_scope.

(* the send loop: raftLogs = src[sd_buf .. sd_next), positions counted in the source log *)
Record sender := mkSd {
  sd_buf : nat;                   (* everything before it has been acknowledged by the receiver (or skipped as covered) *)
  sd_next : nat;                  (* next source entry the learner's apply loop will hand to the send loop *)
  sd_state : option sstate        (* the remote synced position fetched when this send loop started *)
}.
Definition init_sender : sender := mkSd 0 0 None.

Definition slice {A : Type} (l : list A) (a b : nat) : list A := firstn (b - a) (skipn a l).

(* SyncedState.IsNewer2 on what getRemoteSyncedRaft returned (zeros when the remote knows nothing) *)
Definition is_newer2 (o : option sstate) (t i : N) : bool :=
  match o with
  | Some s => (t <=? ss_term s) && (i <=? ss_index s)
  | None => (t <=? 0) && (i <=? 0)
  end.

Inductive fault := FNone | FRespLost | FReqLost.

Inductive ev :=
| EFeed                                   (* the learner applies its next raft entry: it joins the send buffer *)
| ESend (f : fault)                       (* the buffer goes out as one ApplyRaftReqs call *)
| ESenderRestart (j : nat)                (* the learner restarts and replays its raft log from source position j *)
| ESnapCheck (m : nat)                    (* PrepareSnapshot for the raft snapshot covering m entries: remote already newer *)
| ENotifyTransfer (m : nat) (f : fault)   (* NotifyTransferSnap for it *)
| ENotifyApply (m : nat) (files : bool) (f : fault)
                                          (* NotifyApplySnap; files: the checkpoint has reached the receiver *)
| ESnapDone (m : nat)                     (* GetApplySnapStatus = ApplySuccess: the learner goes on behind the snapshot *)
| ERecv (o : op).                         (* the receiver's own events: snapshot, crash/restart, local write, time-out *)

Definition recv_event_ok (o : op) : bool :=
  match o with
  | OSnap | OSnapLate _ | ORestart | OLocal _ | OSnapExpire _ => true
  | _ => false
  end.

(* how many source entries the receiver's recorded position covers *)
Definition covered_count (c : N) (src : list sentry) (nd : node) : nat :=
  match sm_get c (r_synced (n_cur nd)) with
  | None => 0%nat
  | Some o => length (filter (fun e => s_index e <=? ss_index o) src)
  end.

Definition pos_at (src : list sentry) (m : nat) : option (N * N) :=
  match m with
  | O => None
  | S j => match nth_error src j with Some e => Some (s_term e, s_index e) | None => None end
  end.

Definition sys := (node * sender)%type.
Definition init_sys : sys := (init_node, init_sender).

Definition sys_step (c : N) (src : list sentry) (s : sys) (e : ev) : sys :=
  let '(nd, sd) := s in
  match e with
  | EFeed =>
      if (sd_next sd <? length src)%nat then (nd, mkSd (sd_buf sd) (S (sd_next sd)) (sd_state sd)) else s
  | ESend f =>
      let batch := slice src (sd_buf sd) (sd_next sd) in
      match rev batch with
      | [] => s
      | lst :: _ =>
          if is_newer2 (sd_state sd) (s_term lst) (s_index lst)
          then (nd, mkSd (sd_next sd) (sd_next sd) (sd_state sd))      (* "remote is already replayed this raft log" *)
          else match f with
               | FReqLost => s
               | FNone => (fst (step nd (ORpc (map (fun x => (x, true)) batch))),
                           mkSd (sd_next sd) (sd_next sd) (sd_state sd))
               | FRespLost => (fst (step nd (ORpc (map (fun x => (x, true)) batch))), sd)
               end
      end
  | ESenderRestart j =>
      (* the learner's own snapshot waits for the buffered logs, so its replay starts at an entry the receiver has *)
      if (j <=? covered_count c src nd)%nat
      then (nd, mkSd j j (sm_get c (r_synced (n_cur nd))))
      else s
  | ESnapCheck m =>
      match pos_at src m with
      | Some (t, i) =>
          if is_newer2 (sm_get c (r_synced (n_cur nd))) t i && (sd_next sd <=? m)%nat
          then (nd, mkSd m m (sd_state sd)) else s
      | None => s
      end
  | ENotifyTransfer m f =>
      match pos_at src m, f with
      | Some (t, i), FNone | Some (t, i), FRespLost => (fst (step nd (OSnapRpc (OXfer c t i))), sd)
      | _, _ => s
      end
  | ENotifyApply m files f =>
      match pos_at src m, f with
      | Some (t, i), FNone | Some (t, i), FRespLost =>
          let content := if files then Some (map (fun x => (c, s_payload x)) (firstn m src)) else None in
          (fst (step nd (OSnapRpc (OSnapReq c t i content))), sd)
      | _, _ => s
      end
  | ESnapDone m =>
      match pos_at src m with
      | Some (t, i) =>
          if (apply_status_rsp nd c t i =? 4) && (sd_buf sd =? sd_next sd)%nat && (sd_next sd <=? m)%nat
          then (nd, mkSd m m (sd_state sd)) else s
      | None => s
      end
  | ERecv o =>
      if recv_event_ok o then (fst (step nd o), sd) else s
  end.

Definition sys_run (c : N) (src : list sentry) (evs : list ev) : sys := fold_left (sys_step c src) evs init_sys.
