(* Sync/Conflict.v — C19 on a receiver that is NOT in syncer-only mode: the conflict pre-check of cluster-sync writes.
   Hand-written model of:
     node/state_machine.go   kvStoreSM.ApplyRaftRequest: for every redis command of an entry
                             `if !isReplaying && reqList.Type == FromClusterSyncer && !IsSyncerOnly()` -> preCheckConflict;
                             Conflict -> the command is skipped (the entry still counts as applied)
     node/conflict_checker.go checkKVConflict (INCRBY, APPEND: conflict unless KVGetVer(key) < reqTs),
                             checkListConflict (RPUSH: conflict unless LVer(key) < reqTs; the syncerOnlyChangedTs clause
                             never fires for the timestamps used: they lie years before the switch),
                             no conflict handler registered -> Conflict
     rockredis               a write records the timestamp of its request as the key's modification version
     node/node.go            applyEntry filter / position update as in Sync/Model.v; isReplaying = the entry was in the
                             WAL when the process started
   The data is what the harness's commands touch: the shared list t:j and, per origin tag, the counter t:n<tag> and
   the string t:s<tag>, each with its version.  The parameter [recheck] is the candidate repair (run the pre-check
   on replay too); the code is [recheck = false].
   No proofs in this file. *)
From ZV Require Import Sync.Consts Sync.Model.
Open Scope N_scope.

Record kv := mkKV { kv_cnt : N; kv_cver : N; kv_str : list N; kv_sver : N }.
Definition kv0 : kv := mkKV 0 0 [] 0.

Record cdata := mkCD { cd_journal : journal; cd_jver : N; cd_kv : list (N * kv) }.
Definition cd0 : cdata := mkCD [] 0 [].

Fixpoint kv_get (tag : N) (m : list (N * kv)) : kv :=
  match m with
  | [] => kv0
  | (k, v) :: r => if tag =? k then v else kv_get tag r
  end.

Fixpoint kv_set (tag : N) (v : kv) (m : list (N * kv)) : list (N * kv) :=
  match m with
  | [] => [(tag, v)]
  | (k, x) :: r => if tag =? k then (tag, v) :: r else if tag <? k then (tag, v) :: (k, x) :: r else (k, x) :: kv_set tag v r
  end.

(* the three effective commands of one entry (origin tag, payload p, request timestamp ts);
   check = the pre-check is in force for this application *)
Definition conflict (oldver ts : N) : bool := negb (oldver <? ts).

Definition cmds_apply (check : bool) (d : cdata) (tag p ts : N) : cdata :=
  (* RPUSH t:j *)
  let d1 := if check && conflict (cd_jver d) ts then d
            else mkCD (cd_journal d ++ [(tag, p)]) ts (cd_kv d) in
  (* INCRBY t:n<tag> *)
  let v := kv_get tag (cd_kv d1) in
  let v1 := if check && conflict (kv_cver v) ts then v
            else mkKV (kv_cnt v + p) ts (kv_str v) (kv_sver v) in
  (* APPEND t:s<tag> *)
  let v2 := if check && conflict (kv_sver v1) ts then v1
            else mkKV (kv_cnt v1) (kv_cver v1) (kv_str v1 ++ [97 + p mod 26]) ts in
  mkCD (cd_journal d1) (cd_jver d1) (kv_set tag v2 (cd_kv d1)).

Record cstate := mkCS { cs_data : cdata; cs_synced : smap }.
Definition init_cs : cstate := mkCS cd0 [].

(* an entry of the local raft log: a synced source entry or a local write (tag 0) with its timestamp *)
Inductive centry :=
| CSync (e : sentry)
| CLocal (p ts : N).

(* mode0: the receiver is not syncer-only; replaying: the entry is applied from the WAL at start;
   recheck: (candidate repair) the pre-check also runs while replaying *)
Definition capply (mode0 recheck replaying : bool) (st : cstate) (ce : centry) : cstate :=
  match ce with
  | CLocal p ts => mkCS (cmds_apply false (cs_data st) 0 p ts) (cs_synced st)
  | CSync e =>
      if is_already_applied (cs_synced st) e then st
      else mkCS (cmds_apply (mode0 && (recheck || negb replaying)) (cs_data st) (s_cluster e) (s_payload e) (s_ts e))
                (postprocess (cs_synced st) e)
  end.

Definition capply_log (mode0 recheck replaying : bool) (st : cstate) (l : list centry) : cstate :=
  fold_left (capply mode0 recheck replaying) l st.

Record cnode := mkCN {
  cn_cur : cstate; cn_log : list centry; cn_snap : option (nat * cstate); cn_pending : list centry; cn_mode0 : bool
}.
Definition init_cnode : cnode := mkCN init_cs [] None [] false.

Inductive cop :=
| CMode (mode0 : bool)                 (* SetSyncerOnly(not mode0) *)
| CDeliver (e : sentry) (tsok propok : bool)
| CCommit (n : nat)
| CLose
| CLocalW (p ts : N)
| CSnap
| CRestart.

Definition crestore (nd : cnode) : nat * cstate :=
  match cn_snap nd with Some (k, s) => (k, s) | None => (0%nat, init_cs) end.

Definition cstep (recheck : bool) (nd : cnode) (o : cop) : cnode * res :=
  match o with
  | CMode m => (mkCN (cn_cur nd) (cn_log nd) (cn_snap nd) (cn_pending nd) m, ROk)
  | CDeliver e tsok propok =>
      if negb tsok then (nd, RErr) else if negb propok then (nd, RErr)
      else (mkCN (cn_cur nd) (cn_log nd) (cn_snap nd) (cn_pending nd ++ [CSync e]) (cn_mode0 nd), ROk)
  | CCommit n =>
      let k := Nat.min n (length (cn_pending nd)) in
      match k with
      | O => (nd, RNone)
      | _ => let ents := firstn k (cn_pending nd) in
             (mkCN (capply_log (cn_mode0 nd) recheck false (cn_cur nd) ents) (cn_log nd ++ ents) (cn_snap nd)
                   (skipn k (cn_pending nd)) (cn_mode0 nd), ROkN k)
      end
  | CLose =>
      match cn_pending nd with
      | [] => (nd, RNone)
      | _ :: r => (mkCN (cn_cur nd) (cn_log nd) (cn_snap nd) r (cn_mode0 nd), ROk)
      end
  | CLocalW p ts =>
      (mkCN (capply (cn_mode0 nd) recheck false (cn_cur nd) (CLocal p ts)) (cn_log nd ++ [CLocal p ts]) (cn_snap nd)
            (cn_pending nd) (cn_mode0 nd), ROk)
  | CSnap =>
      (mkCN (cn_cur nd) (cn_log nd) (Some (length (cn_log nd), cn_cur nd)) (cn_pending nd) (cn_mode0 nd), ROk)
  | CRestart =>
      let '(k, s) := crestore nd in
      (mkCN (capply_log (cn_mode0 nd) recheck true s (skipn k (cn_log nd))) (cn_log nd) (cn_snap nd) [] (cn_mode0 nd), ROk)
  end.

Definition crun (recheck : bool) (ops : list cop) : cnode :=
  fold_left (fun nd o => fst (cstep recheck nd o)) ops init_cnode.
