(* driver for the C19 model: reads case lines on stdin, prints "<id>\t<model output>" in the harness's format *)
open Model
open Vio

let cname c = "c" ^ dec_of_n c
let ts_str (t : n) : string = if int_of_n t > 1700000000000000000 then "*" else dec_of_n t
let snaps_str (m : snapmap) : string =
  if m = [] then "-" else
  let l = List.map (fun (c, s) -> (cname c, Printf.sprintf "%s:%s.%s.%s" (cname c) (dec_of_n s.sn_term) (dec_of_n s.sn_index) (dec_of_n s.sn_status))) m in
  let l = List.sort (fun (a, _) (b, _) -> compare a b) l in
  String.concat "+" (List.map snd l)
let synced_str (m : smap) : string =
  if m = [] then "-" else
  let l = List.map (fun (c, s) -> (cname c, Printf.sprintf "%s:%s.%s.%s" (cname c) (dec_of_n s.ss_term) (dec_of_n s.ss_index) (ts_str s.ss_ts))) m in
  let l = List.sort (fun (a, _) (b, _) -> compare a b) l in
  String.concat "+" (List.map snd l)

let res_str = function
  | ROk -> "ok" | RErr -> "err" | RNone -> "none" | RSkip -> "skip"
  | ROkN k -> "ok" ^ string_of_int (int_of_nat k)

let dump (j : journal) (maxc : int) : string =
  let js = List.map (fun (t, p) -> dec_of_n t ^ ":" ^ dec_of_n p) j in
  let cs = List.init (maxc + 1) (fun c -> c) in
  let ns = List.map (fun c -> Printf.sprintf "%d=%s" c (dec_of_n (counter (n_of_int c) j))) cs in
  let als = List.map (fun c -> Printf.sprintf "%d=%s" c
              (String.concat "" (List.map (fun b -> String.make 1 (Char.chr (int_of_n b))) (appended (n_of_int c) j)))) cs in
  "J=" ^ String.concat "," js ^ ";N=" ^ String.concat "," ns ^ ";A=" ^ String.concat "," als

let sentry_of c t i ts p = { s_cluster = n_of_dec c; s_term = n_of_dec t; s_index = n_of_dec i; s_ts = n_of_dec ts; s_payload = n_of_dec p }

let run_a ?(multi = false) (live : bool) (ops : string list) : string =
  let nd = ref init_node in
  let maxc = ref 0 in
  let obs = ref [] in
  let srcs : (int, sentry list) Hashtbl.t = Hashtbl.create 4 in
  (* the remote backup directory is keyed by (term, index) only: what a snapshot apply finds there is what was copied last *)
  let prepared : (string * string, journal) Hashtbl.t = Hashtbl.create 4 in
  let push s = obs := s :: !obs in
  let restarted = ref false in
  let focus = ref None in   (* live cases: the snapshot the last request was about, asked through GetApplySnapStatus *)
  let observe r =
    let fourth =
      if multi then
        (* three replicas apply the same committed entries: the followers are where the leader is *)
        let one = Printf.sprintf "%s,%d" (synced_str !nd.n_cur.r_synced) (List.length !nd.n_cur.r_journal) in
        one ^ "|" ^ one
      else if not live then snaps_str !nd.n_snaps
      else match !focus with
        | Some (c, t, i) when not !restarted -> "g" ^ dec_of_n (apply_status_rsp !nd c t i)
        | _ -> "-" in
    focus := None;
    push (Printf.sprintf "%s;%s;%d;%s" (res_str r) (synced_str !nd.n_cur.r_synced) (List.length !nd.n_cur.r_journal) fourth) in
  let wrap o = if live then OSnapRpc o else o in
  let src_prefix c k = List.filteri (fun i _ -> i < k) (Hashtbl.find srcs c) in
  let kth c k = List.nth (Hashtbl.find srcs c) (k - 1) in
  let since = ref None in   (* committed entries since the pending snapshot was begun (SB) *)
  let do_op o =
    let (nd', r) = step !nd o in
    nd := nd';
    (match r, !since with
     | ROkN k, Some b -> since := Some (b + int_of_nat k)
     | _ -> ());
    (match o, !since with
     | OLocal _, Some b -> since := Some (b + 1)
     | ORestart, _ -> since := None
     | _ -> ());
    observe r in
  List.iter (fun op ->
    match split_on ':' op with
    | ["D"; c; t; i; ts; p; f] ->
      if int_of_string c > !maxc then maxc := int_of_string c;
      do_op (ODeliver (sentry_of c t i ts p, f <> "b", f <> "f", false))
    | ["C"; n] -> do_op (OCommit (nat_of_int (int_of_string n)))
    | ["X"] -> do_op OLose
    | ["L"; p] -> do_op (OLocal (n_of_dec p))
    | ["S"] -> do_op OSnap
    | ["SB"] -> since := Some 0; observe ROk
    | ["SF"] ->
      (match !since with
       | Some b -> since := None; do_op (OSnapLate (nat_of_int b))
       | None -> observe RNone)
    | ["R"; _] | ["Y"; _] | ["R0"; _] -> restarted := true; do_op ORestart
    | "W" :: c :: rest ->
      let ci = int_of_string c in
      if ci > !maxc then maxc := ci;
      let ents = match rest with [] | [""] -> [] | [l] -> split_on ',' l | _ -> failwith "bad W" in
      Hashtbl.replace srcs ci (List.map (fun e -> match split_on '.' e with
                | [t; i; ts; p] -> sentry_of c t i ts p
                | _ -> failwith ("bad source entry " ^ e)) ents)
    | ["T"; c; k] ->
      let ci = int_of_string c in
      if ci > !maxc then maxc := ci;
      let e = kth ci (int_of_string k) in
      focus := Some (n_of_dec c, e.s_term, e.s_index);
      do_op (wrap (OXfer (n_of_dec c, e.s_term, e.s_index)))
    | ["P"; c; k; f] ->
      let ci = int_of_string c and ki = int_of_string k in
      if ci > !maxc then maxc := ci;
      let e = kth ci ki in
      let key = (dec_of_n e.s_term, dec_of_n e.s_index) in
      if f = "-" then Hashtbl.replace prepared key (List.map (fun x -> (x.s_cluster, x.s_payload)) (src_prefix ci ki));
      let content = Hashtbl.find_opt prepared key in
      focus := Some (n_of_dec c, e.s_term, e.s_index);
      do_op (wrap (OSnapReq (n_of_dec c, e.s_term, e.s_index, content)))
    | ["G"; c; k] ->
      let ci = int_of_string c in
      if ci > !maxc then maxc := ci;
      let e = kth ci (int_of_string k) in
      focus := Some (n_of_dec c, e.s_term, e.s_index);
      observe ROk
    | ["K"; c; k] ->
      let ci = int_of_string c in
      if ci > !maxc then maxc := ci;
      let e = kth ci (int_of_string k) in
      focus := Some (n_of_dec c, e.s_term, e.s_index);
      do_op (wrap (OSkipReq (n_of_dec c, e.s_term, e.s_index)))
    | "H" :: ents ->
      (* the same call while the raft group is down (refused), then the group is created again: it reloads like a restart *)
      let b = List.map (fun e -> match split_on '.' e with
                | [c; t; i; ts; p; f] ->
                  if int_of_string c > !maxc then maxc := int_of_string c;
                  (sentry_of c t i ts p, f <> "b")
                | _ -> failwith ("bad rpc entry " ^ e)) (List.filter (fun s -> s <> "") ents) in
      let (nd1, r) = step !nd (ORpcDown b) in
      let (nd2, _) = step nd1 ORestart in
      nd := nd2; restarted := true; observe r
    | "BE" :: ents ->
      (* a recorded call whose answer was a time-out: the answer is not compared *)
      let b = List.map (fun e -> match split_on '.' e with
                | [c; t; i; ts; p; f] ->
                  if int_of_string c > !maxc then maxc := int_of_string c;
                  (sentry_of c t i ts p, f <> "b")
                | _ -> failwith ("bad rpc entry " ^ e)) (List.filter (fun s -> s <> "") ents) in
      let (nd', _) = step !nd (ORpc b) in
      nd := nd';
      let saved = !obs in
      observe ROk;
      (match !obs with
       | o :: _ -> obs := ("any" ^ String.sub o 2 (String.length o - 2)) :: saved
       | [] -> ())
    | "B" :: ents ->
      (* B:c.t.i.ts.p.f:...  one ApplyRaftReqs call *)
      let b = List.map (fun e -> match split_on '.' e with
                | [c; t; i; ts; p; f] ->
                  if int_of_string c > !maxc then maxc := int_of_string c;
                  (sentry_of c t i ts p, f <> "b")
                | _ -> failwith ("bad rpc entry " ^ e)) (List.filter (fun s -> s <> "") ents) in
      do_op (ORpc b)
    | "Q" :: c :: rest ->
      let ents = match rest with [] | [""] -> [] | [l] -> split_on ',' l | _ -> failwith "bad Q" in
      let s = List.map (fun e -> match split_on '.' e with
                | [t; i; ts; p] -> sentry_of c t i ts p
                | _ -> failwith ("bad source entry " ^ e)) ents in
      let ci = int_of_string c in
      let mc = if ci > !maxc then ci else !maxc in
      push ("SRC " ^ dump (source_state (n_of_dec c) s).r_journal mc)
    | _ -> push "badop") ops;
  push ("END " ^ dump !nd.n_cur.r_journal !maxc);
  if multi then push "REPL same";
  String.concat " / " (List.rev !obs)

(* ---- receiver not in syncer-only mode: the conflict model (Sync/Conflict.v), recheck = false = the code ---- *)
let dump_c (d : cdata) (maxc : int) : string =
  let js = List.map (fun (t, p) -> dec_of_n t ^ ":" ^ dec_of_n p) d.cd_journal in
  let cs = List.init (maxc + 1) (fun c -> c) in
  let ns = List.map (fun c -> Printf.sprintf "%d=%s" c (dec_of_n (kv_get (n_of_int c) d.cd_kv).kv_cnt)) cs in
  let als = List.map (fun c -> Printf.sprintf "%d=%s" c
              (String.concat "" (List.map (fun b -> String.make 1 (Char.chr (int_of_n b))) (kv_get (n_of_int c) d.cd_kv).kv_str))) cs in
  "J=" ^ String.concat "," js ^ ";N=" ^ String.concat "," ns ^ ";A=" ^ String.concat "," als

let run_m0 (ops : string list) : string =
  let nd = ref init_cnode in
  let maxc = ref 0 in
  let obs = ref [] in
  let push s = obs := s :: !obs in
  let do_op o =
    let (nd', r) = cstep false !nd o in
    nd := nd';
    push (Printf.sprintf "%s;%s;%d;-" (res_str r) (synced_str !nd.cn_cur.cs_synced) (List.length !nd.cn_cur.cs_data.cd_journal)) in
  List.iter (fun op ->
    match split_on ':' op with
    | ["M"; m] -> do_op (CMode (m = "0"))
    | ["D"; c; t; i; ts; p; f] ->
      if int_of_string c > !maxc then maxc := int_of_string c;
      do_op (CDeliver (sentry_of c t i ts p, f <> "b", f <> "f"))
    | ["C"; n] -> do_op (CCommit (nat_of_int (int_of_string n)))
    | ["X"] -> do_op CLose
    | ["L"; p] -> do_op (CLocalW (n_of_dec p, n_of_dec "1600000000000000000"))
    | ["L"; p; ts] -> do_op (CLocalW (n_of_dec p, n_of_dec ts))
    | ["S"] -> do_op CSnap
    | ["R"; _] -> do_op CRestart
    | _ -> push "badop") ops;
  push ("END " ^ dump_c !nd.cn_cur.cs_data !maxc);
  String.concat " / " (List.rev !obs)

let () =
  read_lines stdin (fun line ->
    match split_on '\t' line with
    | id :: "A" :: _eng :: "m0" :: ops :: _ ->
      let ops = List.filter (fun s -> s <> "") (split_on ' ' ops) in
      Printf.printf "%s\t%s\n" id (run_m0 ops)
    | id :: (("A" | "B" | "M") as kind) :: _eng :: _cls :: ops :: _ ->
      let ops = List.filter (fun s -> s <> "") (split_on ' ' ops) in
      Printf.printf "%s\t%s\n" id (run_a ~multi:(kind = "M") (kind = "B") ops)
    | _ -> ())
