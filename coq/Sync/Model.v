(* Sync/Model.v — C19: cross-cluster log replay on the receiving cluster.
   Hand-written model of:
     node/remote_sync_mgr.go  SyncedState, remoteSyncedStateMgr.{GetState,UpdateState,Clone,RestoreStates},
                              KVNode.isAlreadyApplied, KVNode.isContinueCommit (log only),
                              KVNode.postprocessRemoteApply (non-snapshot branch)
     node/node.go             KVNode.applyEntry (filter -> state machine -> postprocess), applyEntries,
                              ProposeRawAsyncFromSyncer (timestamp check, proposal), GetSnapshot /
                              RestoreFromSnapshot (KVSnapInfo.RemoteSyncedStates)
     node/raft.go             startRaft restart path: restore newest snapshot (or clean data), replay the WAL tail
     server/grpc_api.go       ApplyRaftReqs: receive-side pre-filter, stop at the first error, wait for all futures
     node/remote_sync_mgr.go  remote SNAPSHOT branch: remoteSyncedStateMgr.{AddApplyingSnap,UpdateApplyingSnapStatus,
                              GetApplyingSnap} (without the 5-minute timeouts), KVNode.BeginTransferRemoteSnap,
                              KVNode.ApplyRemoteSnapshot, preprocessRemoteSnapApply, postprocessRemoteApply (snapshot
                              branches); node/state_machine.go handleCustomRequest TransferRemoteSnap (file sync itself
                              not modelled: always succeeds), ApplyRemoteSnap (restore from the transferred checkpoint:
                              the checkpoint's content is an input), ApplySkippedRemoteSnap
   The data is abstracted to a journal (what the non-idempotent commands RPUSH / INCRBY / APPEND of the
   harness record): one element per applied entry, so that a repeated apply is visible.
   No proofs in this file. *)
From Coq Require Export List NArith Bool Arith.
From ZV Require Import Sync.Consts.
Export ListNotations.
Open Scope N_scope.

(* ---------- source entries and the synced position ---------- *)

(* one committed raft entry of a source cluster as the log syncer ships it:
   RaftLogData{ClusterName, Term, Index, RaftTimestamp, Data}; the payload stands for Data's commands *)
Record sentry := mkS { s_cluster : N; s_term : N; s_index : N; s_ts : N; s_payload : N }.

(* node.SyncedState *)
Record sstate := mkSS { ss_term : N; ss_index : N; ss_ts : N }.

(* remoteSyncedStateMgr.remoteSyncedStates : map[string]SyncedState, as an association list
   (kept ordered by cluster id so that printing is canonical) *)
Definition smap := list (N * sstate).

Fixpoint sm_get (c : N) (m : smap) : option sstate :=
  match m with
  | [] => None
  | (k, v) :: r => if c =? k then Some v else sm_get c r
  end.

Fixpoint sm_set (c : N) (v : sstate) (m : smap) : smap :=
  match m with
  | [] => [(c, v)]
  | (k, x) :: r =>
      if c =? k then (c, v) :: r
      else if c <? k then (c, v) :: (k, x) :: r
      else (k, x) :: sm_set c v r
  end.

(* KVNode.isAlreadyApplied: state present and (OrigTerm < SyncedTerm or OrigIndex <= SyncedIndex) *)
Definition is_already_applied (m : smap) (e : sentry) : bool :=
  match sm_get (s_cluster e) m with
  | Some o => (s_term e <? ss_term o) || (s_index e <=? ss_index o)
  | None => false
  end.

(* KVNode.isContinueCommit: OrigIndex > SyncedIndex+1 is only logged, the entry is applied all the same *)
Definition is_continue_commit (m : smap) (e : sentry) : bool :=
  match sm_get (s_cluster e) m with
  | Some o => negb (ss_index o + 1 <? s_index e)
  | None => true
  end.

(* server/grpc_api.go ApplyRaftReqs: term, index, _ := GetRemoteClusterSyncedRaft(cluster) (zeros when the cluster
   is unknown); skip when r.Term < term || r.Index <= index *)
Definition prefilter (m : smap) (e : sentry) : bool :=
  let '(t, i) := match sm_get (s_cluster e) m with Some o => (ss_term o, ss_index o) | None => (0, 0) end in
  (s_term e <? t) || (s_index e <=? i).

(* KVNode.postprocessRemoteApply, ordinary entries (no remote snapshot transfer/apply, retErr = nil):
   nothing for (0,0), otherwise UpdateState(cluster, {term, index, timestamp}) *)
Definition postprocess (m : smap) (e : sentry) : smap :=
  if (s_term e =? 0) && (s_index e =? 0) then m
  else sm_set (s_cluster e) (mkSS (s_term e) (s_index e) (s_ts e)) m.

(* ---------- the receiving replica's state machine + synced map ---------- *)

(* journal element: (origin tag, payload); tag 0 = a write of the receiving cluster's own clients *)
Definition journal := list (N * N).

Record rstate := mkR { r_journal : journal; r_synced : smap }.
Definition init_r : rstate := mkR [] [].

(* an entry of the receiving replica's own raft log *)
Inductive lentry :=
| LSync (e : sentry)          (* BatchInternalRaftRequest with Type = FromClusterSyncer *)
| LLocal (tag p : N)          (* an ordinary write (Type = 0) *)
| LXfer (e : sentry)          (* custom request TransferRemoteSnap for the source snapshot at (term, index) of e *)
| LSnap (e : sentry) (content : option journal)
                              (* custom request ApplyRemoteSnap; content = what the transferred checkpoint holds
                                 (None: no usable checkpoint, RestoreFromRemoteBackup fails) *)
| LSkip (e : sentry).         (* custom request ApplySkippedRemoteSnap *)

(* the state machine effect of one entry's commands *)
Definition sm_apply (j : journal) (tag p : N) : journal := j ++ [(tag, p)].

(* KVNode.applyEntry: for FromClusterSyncer entries  isAlreadyApplied -> return;
   otherwise sm.ApplyRaftRequest, THEN postprocessRemoteApply *)
Definition apply_entry (st : rstate) (le : lentry) : rstate :=
  match le with
  | LLocal tag p => mkR (sm_apply (r_journal st) tag p) (r_synced st)
  | LSync e =>
      if is_already_applied (r_synced st) e then st
      else mkR (sm_apply (r_journal st) (s_cluster e) (s_payload e)) (postprocess (r_synced st) e)
  | LXfer e => st
      (* filtered or not, the store and the synced map are untouched: the transfer only moves the snapshot status,
         "for remote snapshot transfer, we need wait apply success before update sync state" *)
  | LSnap e content =>
      if is_already_applied (r_synced st) e then st
      else match content with
           | Some j => mkR j (postprocess (r_synced st) e)   (* the whole store is replaced by the checkpoint *)
           | None => st                                      (* errIgnoredRemoteApply: no UpdateState *)
           end
  | LSkip e =>
      if is_already_applied (r_synced st) e then st
      else mkR (r_journal st) (postprocess (r_synced st) e)  (* position only, by the operator's decision *)
  end.

(* the states the apply loop passes through while handling one entry, in order
   (after the state machine ran; after the position was recorded) *)
Definition apply_phases (st : rstate) (le : lentry) : list rstate :=
  match le with
  | LLocal tag p => [mkR (sm_apply (r_journal st) tag p) (r_synced st)]
  | LSync e =>
      if is_already_applied (r_synced st) e then [st]
      else [mkR (sm_apply (r_journal st) (s_cluster e) (s_payload e)) (r_synced st);
            mkR (sm_apply (r_journal st) (s_cluster e) (s_payload e)) (postprocess (r_synced st) e)]
  | LXfer e => [st]
  | LSnap e content =>
      if is_already_applied (r_synced st) e then [st]
      else match content with
           | Some j => [mkR j (r_synced st); mkR j (postprocess (r_synced st) e)]
           | None => [st]
           end
  | LSkip e =>
      if is_already_applied (r_synced st) e then [st]
      else [mkR (r_journal st) (postprocess (r_synced st) e)]
  end.

Definition apply_log (st : rstate) (l : list lentry) : rstate := fold_left apply_entry l st.

(* ---------- remote snapshot apply status (remoteSnapshotsApplying; volatile, not part of the raft snapshot) ---------- *)

Record snapst := mkSn { sn_term : N; sn_index : N; sn_status : N }.
Definition snapmap := list (N * snapst).

Fixpoint snm_get (c : N) (m : snapmap) : option snapst :=
  match m with
  | [] => None
  | (k, v) :: r => if c =? k then Some v else snm_get c r
  end.

Fixpoint snm_set (c : N) (v : snapst) (m : snapmap) : snapmap :=
  match m with
  | [] => [(c, v)]
  | (k, x) :: r =>
      if c =? k then (c, v) :: r
      else if c <? k then (c, v) :: (k, x) :: r
      else (k, x) :: snm_set c v r
  end.

Definition same_snap (s : snapst) (t i : N) : bool := (sn_term s =? t) && (sn_index s =? i).

(* AddApplyingSnap without its time-outs (5 minutes; no run of the harness lasts that long):
   a new record is created only when there is none or the old one is Done *)
Definition add_applying (m : snapmap) (c t i : N) : snapmap * bool :=
  match snm_get c m with
  | None => (snm_set c (mkSn t i apply_snap_begin) m, true)
  | Some o => if sn_status o =? apply_snap_done then (snm_set c (mkSn t i apply_snap_begin) m, true)
              else (m, false)
  end.

(* UpdateApplyingSnapStatus: only the record of the very same snapshot moves *)
Definition update_status (m : snapmap) (c t i st : N) : snapmap :=
  match snm_get c m with
  | Some o => if same_snap o t i then snm_set c (mkSn t i st) m else m
  | None => m
  end.

(* what applyEntry does to the status map (preprocessRemoteSnapApply / postprocessRemoteApply);
   before: the synced map before the entry; restored: whether the restore succeeded *)
Definition apply_snaps (m : snapmap) (before : smap) (le : lentry) : snapmap :=
  match le with
  | LXfer e =>
      if is_already_applied before e then m
      else let m1 := fst (add_applying m (s_cluster e) (s_term e) (s_index e)) in
           let m2 := update_status m1 (s_cluster e) (s_term e) (s_index e) apply_snap_transferring in
           update_status m2 (s_cluster e) (s_term e) (s_index e) apply_snap_transferred
  | LSnap e content =>
      if is_already_applied before e then m
      else update_status m (s_cluster e) (s_term e) (s_index e)
             (match content with Some _ => apply_snap_done | None => apply_snap_failed end)
  | _ => m
  end.

(* ---------- the replica with its raft log, snapshot and in-flight proposals ---------- *)

Record node := mkN {
  n_cur : rstate;                       (* store + remoteSyncedStates in memory *)
  n_log : list lentry;                  (* committed entries of the local raft log *)
  n_snap : option (nat * rstate);       (* newest snapshot: (number of entries covered, KVSnapInfo = data + synced map) *)
  n_pending : list lentry;              (* proposed, not yet committed *)
  n_snaps : snapmap                     (* remote snapshot apply status, in memory only *)
}.
Definition init_node : node := mkN init_r [] None [] [].

(* the timestamp ApplyRemoteSnapshot stamps on its request is the wall clock; the model uses a constant *)
Definition snap_ts : N := 2305843009213693952.  (* 2^61 *)

Inductive op :=
| ODeliver (e : sentry) (tsok propok pre : bool)
    (* one RaftLogData reaches the receiver; pre: through the grpc pre-filter; tsok: RaftTimestamp equals the
       timestamp inside Data; propok: raft accepts the proposal *)
| OCommit (n : nat)          (* raft commits the first n in-flight proposals; applied as one batch *)
| OLose                      (* the first in-flight proposal is lost *)
| OLocal (p : N)             (* a local client write is committed and applied *)
| OSnap                      (* snapshot at the applied position *)
| ORestart                   (* process restart: restore newest snapshot (or nothing), replay the log tail *)
| ORpc (b : list (sentry * bool))
| OXfer (c t i : N)          (* BeginTransferRemoteSnap(cluster, term, index) *)
| OSnapReq (c t i : N) (content : option journal)
                             (* ApplyRemoteSnapshot(skip = false); content = the checkpoint found at apply time *)
| OSkipReq (c t i : N)       (* ApplyRemoteSnapshot(skip = true) *)
| OSnapExpire (c : N)
    (* a time-out of the status machine fires (syncStateTimeout, 5 minutes): the record of cluster c may be replaced;
       modelled as its removal, at any moment *)
| OSnapRpc (o : op)
| ORpcDown (b : list (sentry * bool))
| OSnapLate (back : nat).
    (* ORpcDown: an ApplyRaftReqs call that reaches the node while the raft group is not ready (stopped, being
       re-created, still replaying its log): the handler answers errRaftGroupNotReady, nothing is proposed.
       OSnapLate back: the snapshot that beginSnapshot STARTED `back` committed entries ago is saved now: GetSnapshot
       ran in the apply loop at that index and captured the store's checkpoint AND the synced map there
       (KVNode.GetSnapshot: Backup + remoteSyncedStates.Clone()); GetData / SaveSnap run later in a goroutine *)
    (* the grpc handlers NotifyTransferSnap / NotifyApplySnap around o = OXfer / OSnapReq / OSkipReq on a healthy
       single leader: pre-filter on (term, index), then the request, whose proposal is committed and applied before
       the handler returns *)
    (* one whole ApplyRaftReqs call with entries (entry, tsok) whose proposals all commit and apply
       before it returns (single healthy leader) *)

Inductive res := ROk | RErr | RNone | ROkN (n : nat) | RSkip.

(* the status map follows the same entries (it needs the synced map as it was before each entry) *)
Fixpoint apply_log_snaps (m : snapmap) (st : rstate) (l : list lentry) : snapmap :=
  match l with
  | [] => m
  | le :: r => apply_log_snaps (apply_snaps m (r_synced st) le) (apply_entry st le) r
  end.

Definition commit_n (nd : node) (k : nat) : node :=
  let ents := firstn k (n_pending nd) in
  mkN (apply_log (n_cur nd) ents) (n_log nd ++ ents) (n_snap nd) (skipn k (n_pending nd))
      (apply_log_snaps (n_snaps nd) (n_cur nd) ents).

(* ApplyRaftReqs' loop: skip pre-filtered entries, stop at the first error, collect the proposals *)
Fixpoint rpc_collect (m : smap) (b : list (sentry * bool)) : list lentry * bool :=
  match b with
  | [] => ([], true)
  | (e, tsok) :: r =>
      if prefilter m e then rpc_collect m r
      else if negb tsok then ([], false)
      else let '(l, ok) := rpc_collect m r in (LSync e :: l, ok)
  end.

Definition restore (nd : node) : nat * rstate :=
  match n_snap nd with Some (k, s) => (k, s) | None => (0%nat, init_r) end.

Definition with_pending (nd : node) (p : list lentry) : node :=
  mkN (n_cur nd) (n_log nd) (n_snap nd) p (n_snaps nd).
Definition with_snaps (nd : node) (m : snapmap) : node :=
  mkN (n_cur nd) (n_log nd) (n_snap nd) (n_pending nd) m.

Definition step0 (nd : node) (o : op) : node * res :=
  match o with
  | OSnapRpc _ => (nd, RNone)
  | ORpcDown _ => (nd, RErr)
  | OSnapLate back =>
      if (back <=? length (n_log nd))%nat
      then let k := (length (n_log nd) - back)%nat in
           (mkN (n_cur nd) (n_log nd) (Some (k, apply_log init_r (firstn k (n_log nd)))) (n_pending nd) (n_snaps nd), ROk)
      else (nd, RNone)
  | ODeliver e tsok propok pre =>
      if pre && prefilter (r_synced (n_cur nd)) e then (nd, RSkip)
      else if negb tsok then (nd, RErr)
      else if negb propok then (nd, RErr)
      else (with_pending nd (n_pending nd ++ [LSync e]), ROk)
  | OCommit n =>
      let k := Nat.min n (length (n_pending nd)) in
      match k with
      | O => (nd, RNone)
      | _ => (commit_n nd k, ROkN k)
      end
  | OLose =>
      match n_pending nd with
      | [] => (nd, RNone)
      | _ :: r => (with_pending nd r, ROk)
      end
  | OLocal p =>
      (mkN (apply_entry (n_cur nd) (LLocal 0 p)) (n_log nd ++ [LLocal 0 p]) (n_snap nd) (n_pending nd) (n_snaps nd), ROk)
  | OSnap =>
      (mkN (n_cur nd) (n_log nd) (Some (length (n_log nd), n_cur nd)) (n_pending nd) (n_snaps nd), ROk)
  | ORestart =>
      (* a new process: nothing in flight, an empty status map; newest snapshot (store + synced map) restored,
         the log tail replayed through the same apply path *)
      let '(k, s) := restore nd in
      let tail := skipn k (n_log nd) in
      (mkN (apply_log s tail) (n_log nd) (n_snap nd) [] (apply_log_snaps [] s tail), ROk)
  | ORpc b =>
      let '(l, ok) := rpc_collect (r_synced (n_cur nd)) b in
      let nd1 := with_pending nd (n_pending nd ++ l) in
      (commit_n nd1 (length (n_pending nd1)), if ok then ROk else RErr)
  | OXfer c t i =>
      (* BeginTransferRemoteSnap: AddApplyingSnap; refuse when another snapshot is in progress; else propose *)
      let '(m, added) := add_applying (n_snaps nd) c t i in
      let other := match snm_get c (n_snaps nd) with Some o => negb (same_snap o t i) | None => false end in
      if negb added && other then (nd, RErr)
      else (with_pending (with_snaps nd m) (n_pending nd ++ [LXfer (mkS c t i 0 0)]), ROk)
  | OSnapReq c t i content =>
      (* ApplyRemoteSnapshot(skip=false): the transfer of exactly this snapshot must be finished *)
      match snm_get c (n_snaps nd) with
      | None => (nd, RErr)
      | Some o =>
          if negb (same_snap o t i) then (nd, RErr)
          else if negb (sn_status o =? apply_snap_transferred) then (nd, RErr)
          else (with_pending (with_snaps nd (update_status (n_snaps nd) c t i apply_snap_applying))
                             (n_pending nd ++ [LSnap (mkS c t i snap_ts 0) content]), ROk)
      end
  | OSkipReq c t i =>
      (with_pending nd (n_pending nd ++ [LSkip (mkS c t i snap_ts 0)]), ROk)
  | OSnapExpire c =>
      (with_snaps nd (filter (fun x => negb (fst x =? c)) (n_snaps nd)), ROk)
  end.

Definition snap_req_pos (o : op) : option (N * N * N) :=
  match o with
  | OXfer c t i | OSnapReq c t i _ | OSkipReq c t i => Some (c, t, i)
  | _ => None
  end.

Definition step (nd : node) (o : op) : node * res :=
  match o with
  | OSnapRpc o' =>
      match snap_req_pos o' with
      | None => (nd, RNone)
      | Some (c, t, i) =>
          (* "raft already applied": term < synced term || index <= synced index *)
          if prefilter (r_synced (n_cur nd)) (mkS c t i 0 0) then (nd, ROk)
          else let '(nd1, r) := step0 nd o' in
               match r with
               | ROk => (commit_n nd1 (length (n_pending nd1)), ROk)
               | _ => (nd1, r)
               end
      end
  | _ => step0 nd o
  end.

(* server/grpc_api.go GetApplySnapStatus: ApplySuccess(4) when the synced position covers the snapshot; otherwise the
   status record of exactly this snapshot through applyStatusMapping, ApplyMissing(6) when there is none *)
Definition status_mapping (st : N) : N :=
  if st =? apply_snap_begin then 8
  else if st =? apply_snap_transferring then 1
  else if st =? apply_snap_transferred then 2
  else if st =? apply_snap_applying then 3
  else if st =? apply_snap_done then 4
  else if st =? apply_snap_failed then 5
  else 0.

Definition apply_status_rsp (nd : node) (c t i : N) : N :=
  let '(st, si) := match sm_get c (r_synced (n_cur nd)) with Some o => (ss_term o, ss_index o) | None => (0, 0) end in
  if (t <=? st) && (i <=? si) then 4
  else match snm_get c (n_snaps nd) with
       | None => 6
       | Some o => if same_snap o t i then status_mapping (sn_status o) else 6
       end.

Definition run (ops : list op) : node := fold_left (fun nd o => fst (step nd o)) ops init_node.

(* ---------- observables ---------- *)

Definition proj (c : N) (j : journal) : list N :=
  map snd (filter (fun x => fst x =? c) j).

(* what INCRBY t:n<c> accumulates and what APPEND t:s<c> concatenates (letter = 'a' + p mod 26) *)
Definition counter (c : N) (j : journal) : N := fold_left N.add (proj c j) 0.
Definition appended (c : N) (j : journal) : list N := map (fun p => 97 + p mod 26) (proj c j).

(* the source cluster's own state: its log applied as ordinary writes *)
Definition source_state (c : N) (s : list sentry) : rstate :=
  apply_log init_r (map (fun e => LLocal c (s_payload e)) s).
