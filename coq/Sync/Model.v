(* Sync/Model.v — C19: cross-cluster log replay on the receiving cluster.
   Hand-written model of:
     node/remote_sync_mgr.go  SyncedState, remoteSyncedStateMgr.{GetState,UpdateState,Clone,RestoreStates},
                              KVNode.isAlreadyApplied, KVNode.isContinueCommit (log only),
                              KVNode.postprocessRemoteApply (non-snapshot branch)
     node/node.go             KVNode.applyEntry (filter -> state machine -> postprocess), applyEntries,
                              ProposeRawAsyncFromSyncer (timestamp check, proposal), GetSnapshot /
                              RestoreFromSnapshot (KVSnapInfo.RemoteSyncedStates)
     node/raft.go             startRaft restart path: restore newest snapshot (or clean data), replay the WAL tail
     server/grpc_api.go       ApplyRaftReqs: receive-side pre-filter, stop at the first error, wait for all futures
   The data is abstracted to a journal (what the non-idempotent commands RPUSH / INCRBY / APPEND of the
   harness record): one element per applied entry, so that a repeated apply is visible.
   No proofs in this file. *)
From Coq Require Export List NArith Bool Arith.
From ZV Require Import Sync.Consts.
Export ListNotations.
Open Scope N_scope.

(* ---------- source entries and the synced position ---------- *)

(* one committed raft entry of a source cluster as the log syncer ships it:
   RaftLogData{ClusterName, Term, Index, RaftTimestamp, Data}; the payload stands for Data's commands *)
Record sentry := mkS { s_cluster : N; s_term : N; s_index : N; s_ts : N; s_payload : N }.

(* node.SyncedState *)
Record sstate := mkSS { ss_term : N; ss_index : N; ss_ts : N }.

(* remoteSyncedStateMgr.remoteSyncedStates : map[string]SyncedState, as an association list
   (kept ordered by cluster id so that printing is canonical) *)
Definition smap := list (N * sstate).

Fixpoint sm_get (c : N) (m : smap) : option sstate :=
  match m with
  | [] => None
  | (k, v) :: r => if c =? k then Some v else sm_get c r
  end.

Fixpoint sm_set (c : N) (v : sstate) (m : smap) : smap :=
  match m with
  | [] => [(c, v)]
  | (k, x) :: r =>
      if c =? k then (c, v) :: r
      else if c <? k then (c, v) :: (k, x) :: r
      else (k, x) :: sm_set c v r
  end.

(* KVNode.isAlreadyApplied: state present and (OrigTerm < SyncedTerm or OrigIndex <= SyncedIndex) *)
Definition is_already_applied (m : smap) (e : sentry) : bool :=
  match sm_get (s_cluster e) m with
  | Some o => (s_term e <? ss_term o) || (s_index e <=? ss_index o)
  | None => false
  end.

(* KVNode.isContinueCommit: OrigIndex > SyncedIndex+1 is only logged, the entry is applied all the same *)
Definition is_continue_commit (m : smap) (e : sentry) : bool :=
  match sm_get (s_cluster e) m with
  | Some o => negb (ss_index o + 1 <? s_index e)
  | None => true
  end.

(* server/grpc_api.go ApplyRaftReqs: term, index, _ := GetRemoteClusterSyncedRaft(cluster) (zeros when the cluster
   is unknown); skip when r.Term < term || r.Index <= index *)
Definition prefilter (m : smap) (e : sentry) : bool :=
  let '(t, i) := match sm_get (s_cluster e) m with Some o => (ss_term o, ss_index o) | None => (0, 0) end in
  (s_term e <? t) || (s_index e <=? i).

(* KVNode.postprocessRemoteApply, ordinary entries (no remote snapshot transfer/apply, retErr = nil):
   nothing for (0,0), otherwise UpdateState(cluster, {term, index, timestamp}) *)
Definition postprocess (m : smap) (e : sentry) : smap :=
  if (s_term e =? 0) && (s_index e =? 0) then m
  else sm_set (s_cluster e) (mkSS (s_term e) (s_index e) (s_ts e)) m.

(* ---------- the receiving replica's state machine + synced map ---------- *)

(* journal element: (origin tag, payload); tag 0 = a write of the receiving cluster's own clients *)
Definition journal := list (N * N).

Record rstate := mkR { r_journal : journal; r_synced : smap }.
Definition init_r : rstate := mkR [] [].

(* an entry of the receiving replica's own raft log *)
Inductive lentry :=
| LSync (e : sentry)          (* BatchInternalRaftRequest with Type = FromClusterSyncer *)
| LLocal (tag p : N).         (* an ordinary write (Type = 0) *)

(* the state machine effect of one entry's commands *)
Definition sm_apply (j : journal) (tag p : N) : journal := j ++ [(tag, p)].

(* KVNode.applyEntry: for FromClusterSyncer entries  isAlreadyApplied -> return;
   otherwise sm.ApplyRaftRequest, THEN postprocessRemoteApply *)
Definition apply_entry (st : rstate) (le : lentry) : rstate :=
  match le with
  | LLocal tag p => mkR (sm_apply (r_journal st) tag p) (r_synced st)
  | LSync e =>
      if is_already_applied (r_synced st) e then st
      else mkR (sm_apply (r_journal st) (s_cluster e) (s_payload e)) (postprocess (r_synced st) e)
  end.

(* the states the apply loop passes through while handling one entry, in order
   (after the state machine ran; after the position was recorded) *)
Definition apply_phases (st : rstate) (le : lentry) : list rstate :=
  match le with
  | LLocal tag p => [mkR (sm_apply (r_journal st) tag p) (r_synced st)]
  | LSync e =>
      if is_already_applied (r_synced st) e then [st]
      else [mkR (sm_apply (r_journal st) (s_cluster e) (s_payload e)) (r_synced st);
            mkR (sm_apply (r_journal st) (s_cluster e) (s_payload e)) (postprocess (r_synced st) e)]
  end.

Definition apply_log (st : rstate) (l : list lentry) : rstate := fold_left apply_entry l st.

(* ---------- the replica with its raft log, snapshot and in-flight proposals ---------- *)

Record node := mkN {
  n_cur : rstate;                       (* store + remoteSyncedStates in memory *)
  n_log : list lentry;                  (* committed entries of the local raft log *)
  n_snap : option (nat * rstate);       (* newest snapshot: (number of entries covered, KVSnapInfo = data + synced map) *)
  n_pending : list lentry               (* proposed, not yet committed *)
}.
Definition init_node : node := mkN init_r [] None [].

Inductive op :=
| ODeliver (e : sentry) (tsok propok pre : bool)
    (* one RaftLogData reaches the receiver; pre: through the grpc pre-filter; tsok: RaftTimestamp equals the
       timestamp inside Data; propok: raft accepts the proposal *)
| OCommit (n : nat)          (* raft commits the first n in-flight proposals; applied as one batch *)
| OLose                      (* the first in-flight proposal is lost *)
| OLocal (p : N)             (* a local client write is committed and applied *)
| OSnap                      (* snapshot at the applied position *)
| ORestart                   (* process restart: restore newest snapshot (or nothing), replay the log tail *)
| ORpc (b : list (sentry * bool)).
    (* one whole ApplyRaftReqs call with entries (entry, tsok) whose proposals all commit and apply
       before it returns (single healthy leader) *)

Inductive res := ROk | RErr | RNone | ROkN (n : nat) | RSkip.

Definition commit_n (nd : node) (k : nat) : node :=
  let ents := firstn k (n_pending nd) in
  mkN (apply_log (n_cur nd) ents) (n_log nd ++ ents) (n_snap nd) (skipn k (n_pending nd)).

(* ApplyRaftReqs' loop: skip pre-filtered entries, stop at the first error, collect the proposals *)
Fixpoint rpc_collect (m : smap) (b : list (sentry * bool)) : list lentry * bool :=
  match b with
  | [] => ([], true)
  | (e, tsok) :: r =>
      if prefilter m e then rpc_collect m r
      else if negb tsok then ([], false)
      else let '(l, ok) := rpc_collect m r in (LSync e :: l, ok)
  end.

Definition restore (nd : node) : nat * rstate :=
  match n_snap nd with Some (k, s) => (k, s) | None => (0%nat, init_r) end.

Definition step (nd : node) (o : op) : node * res :=
  match o with
  | ODeliver e tsok propok pre =>
      if pre && prefilter (r_synced (n_cur nd)) e then (nd, RSkip)
      else if negb tsok then (nd, RErr)
      else if negb propok then (nd, RErr)
      else (mkN (n_cur nd) (n_log nd) (n_snap nd) (n_pending nd ++ [LSync e]), ROk)
  | OCommit n =>
      let k := Nat.min n (length (n_pending nd)) in
      match k with
      | O => (nd, RNone)
      | _ => (commit_n nd k, ROkN k)
      end
  | OLose =>
      match n_pending nd with
      | [] => (nd, RNone)
      | _ :: r => (mkN (n_cur nd) (n_log nd) (n_snap nd) r, ROk)
      end
  | OLocal p =>
      (mkN (apply_entry (n_cur nd) (LLocal 0 p)) (n_log nd ++ [LLocal 0 p]) (n_snap nd) (n_pending nd), ROk)
  | OSnap =>
      (mkN (n_cur nd) (n_log nd) (Some (length (n_log nd), n_cur nd)) (n_pending nd), ROk)
  | ORestart =>
      let '(k, s) := restore nd in
      (mkN (apply_log s (skipn k (n_log nd))) (n_log nd) (n_snap nd) [], ROk)
  | ORpc b =>
      let '(l, ok) := rpc_collect (r_synced (n_cur nd)) b in
      let nd1 := mkN (n_cur nd) (n_log nd) (n_snap nd) (n_pending nd ++ l) in
      (commit_n nd1 (length (n_pending nd1)), if ok then ROk else RErr)
  end.

Definition run (ops : list op) : node := fold_left (fun nd o => fst (step nd o)) ops init_node.

(* ---------- observables ---------- *)

Definition proj (c : N) (j : journal) : list N :=
  map snd (filter (fun x => fst x =? c) j).

(* what INCRBY t:n<c> accumulates and what APPEND t:s<c> concatenates (letter = 'a' + p mod 26) *)
Definition counter (c : N) (j : journal) : N := fold_left N.add (proj c j) 0.
Definition appended (c : N) (j : journal) : list N := map (fun p => 97 + p mod 26) (proj c j).

(* the source cluster's own state: its log applied as ordinary writes *)
Definition source_state (c : N) (s : list sentry) : rstate :=
  apply_log init_r (map (fun e => LLocal c (s_payload e)) s).
