(* Sync/ProofsSender.v — safety of the composed system sender x receiver (Sync/Sender.v). *)
From Coq Require Import List NArith Bool Arith Lia Sorted.
From Coq Require Import ZifyN ZifyNat ZifyBool.
From ZV Require Import Sync.Consts Sync.Model Sync.Proofs Sync.Sender.
Import ListNotations.
Open Scope N_scope.

Arguments apply_log : simpl never.
Arguments proj : simpl never.

(* ---------- the status map ---------- *)

Lemma snm_get_set_same : forall c v m, snm_get c (snm_set c v m) = Some v.
Proof.
  intros c v m; induction m as [|[k x] r IH]; cbn.
  - now rewrite N.eqb_refl.
  - destruct (c =? k) eqn:E; cbn; [now rewrite N.eqb_refl|].
    destruct (c <? k) eqn:L; cbn; [now rewrite N.eqb_refl|]. now rewrite E.
Qed.

Lemma snm_get_set_other : forall c c' v m, c' <> c -> snm_get c' (snm_set c v m) = snm_get c' m.
Proof.
  intros c c' v m Hne; induction m as [|[k x] r IH]; cbn.
  - destruct (c' =? c) eqn:E; [apply N.eqb_eq in E; contradiction|reflexivity].
  - destruct (c =? k) eqn:E; cbn.
    + apply N.eqb_eq in E; subst k.
      destruct (c' =? c) eqn:E2; [apply N.eqb_eq in E2; contradiction|reflexivity].
    + destruct (c <? k) eqn:L; cbn.
      * destruct (c' =? c) eqn:E2; [apply N.eqb_eq in E2; contradiction|reflexivity].
      * destruct (c' =? k); [reflexivity|exact IH].
Qed.

Lemma snm_get_filter : forall c c' m,
  snm_get c (filter (fun x => negb (fst x =? c')) m) = if c =? c' then None else snm_get c m.
Proof.
  intros c c' m; induction m as [|[k x] r IH]; cbn; [now destruct (c =? c')|].
  destruct (k =? c') eqn:E; cbn.
  - rewrite IH. apply N.eqb_eq in E; subst k. destruct (c =? c') eqn:E2; [reflexivity|reflexivity].
  - rewrite IH. destruct (c =? k) eqn:E2; [|reflexivity].
    apply N.eqb_eq in E2; subst k. now rewrite E.
Qed.

(* is_newer2 is monotone in the position *)
Lemma is_newer2_mono : forall o o' t i, ss_le o o' -> is_newer2 o t i = true -> is_newer2 o' t i = true.
Proof.
  intros [x|] [y|] t i H N; cbn in *; try lia; try contradiction.
Qed.

(* a record in state Done is covered by the recorded position *)
Definition done_covered (c : N) (m : snapmap) (sy : smap) : Prop :=
  forall o, snm_get c m = Some o -> sn_status o = apply_snap_done ->
    is_newer2 (sm_get c sy) (sn_term o) (sn_index o) = true.

Lemma update_status_get : forall m c t i st c',
  snm_get c' (update_status m c t i st) =
  match snm_get c m with
  | Some o => if same_snap o t i then (if c' =? c then Some (mkSn t i st) else snm_get c' m) else snm_get c' m
  | None => snm_get c' m
  end.
Proof.
  intros m c t i st c'; unfold update_status. destruct (snm_get c m) as [o|]; [|reflexivity].
  destruct (same_snap o t i); [|reflexivity].
  destruct (c' =? c) eqn:E.
  - apply N.eqb_eq in E; subst. apply snm_get_set_same.
  - apply N.eqb_neq in E. now apply snm_get_set_other.
Qed.

Lemma add_applying_get : forall m c t i c',
  snm_get c' (fst (add_applying m c t i)) =
  if c' =? c then
    match snm_get c m with
    | None => Some (mkSn t i apply_snap_begin)
    | Some o => if sn_status o =? apply_snap_done then Some (mkSn t i apply_snap_begin) else Some o
    end
  else snm_get c' m.
Proof.
  intros m c t i c'; unfold add_applying. destruct (c' =? c) eqn:E.
  - apply N.eqb_eq in E; subst c'. destruct (snm_get c m) as [o|] eqn:G; cbn.
    + destruct (sn_status o =? apply_snap_done); cbn; [apply snm_get_set_same|exact G].
    + apply snm_get_set_same.
  - apply N.eqb_neq in E. destruct (snm_get c m) as [o|]; cbn.
    + destruct (sn_status o =? apply_snap_done); cbn; [now apply snm_get_set_other|reflexivity].
    + now apply snm_get_set_other.
Qed.

Lemma sy_mono_entry : forall st le c, ss_le (sm_get c (r_synced st)) (sm_get c (r_synced (apply_entry st le))).
Proof. intros; apply (apply_entry_mono st le c). Qed.

Lemma done_covered_mono : forall c m sy sy',
  (forall k, ss_le (sm_get k sy) (sm_get k sy')) -> done_covered c m sy -> done_covered c m sy'.
Proof. intros c m sy sy' Hle H o Ho Hd. eapply is_newer2_mono; [apply Hle|]. now apply H. Qed.

(* status constants are distinct *)
Lemma status_consts :
  apply_snap_begin <> apply_snap_done /\ apply_snap_transferring <> apply_snap_done /\
  apply_snap_transferred <> apply_snap_done /\ apply_snap_applying <> apply_snap_done /\
  apply_snap_failed <> apply_snap_done.
Proof. repeat split; discriminate. Qed.

Lemma update_status_other : forall m c t i st c', c' <> c ->
  snm_get c' (update_status m c t i st) = snm_get c' m.
Proof.
  intros m c t i st c' H. rewrite update_status_get. apply N.eqb_neq in H. rewrite H.
  destruct (snm_get c m) as [o|]; [destruct (same_snap o t i)|]; reflexivity.
Qed.

Lemma update_status_same : forall m c t i st,
  snm_get c (update_status m c t i st) =
  match snm_get c m with
  | Some o => if same_snap o t i then Some (mkSn t i st) else Some o
  | None => None
  end.
Proof.
  intros m c t i st. rewrite update_status_get, N.eqb_refl.
  destruct (snm_get c m) as [o|] eqn:G; [destruct (same_snap o t i)|]; auto.
Qed.

Lemma same_snap_refl : forall t i st, same_snap (mkSn t i st) t i = true.
Proof. intros; unfold same_snap; cbn. now rewrite !N.eqb_refl. Qed.

(* after a transfer request was applied, the record of its cluster is not Done *)
Lemma xfer_record_not_done : forall m c t i o,
  snm_get c (update_status (update_status (fst (add_applying m c t i)) c t i apply_snap_transferring)
                           c t i apply_snap_transferred) = Some o ->
  sn_status o <> apply_snap_done.
Proof.
  intros m c t i o H. destruct status_consts as (C1 & C2 & C3 & C4 & C5).
  rewrite update_status_same, update_status_same, add_applying_get, N.eqb_refl in H.
  destruct (snm_get c m) as [o0|] eqn:G0.
  - destruct (sn_status o0 =? apply_snap_done) eqn:D0.
    + rewrite same_snap_refl, same_snap_refl in H. inversion H; subst; cbn. exact C3.
    + apply N.eqb_neq in D0. destruct (same_snap o0 t i) eqn:S0.
      * rewrite same_snap_refl in H. inversion H; subst; cbn. exact C3.
      * rewrite S0 in H. inversion H; subst. exact D0.
  - rewrite same_snap_refl, same_snap_refl in H. inversion H; subst; cbn. exact C3.
Qed.

Lemma xfer_record_other : forall m c t i c', c' <> c ->
  snm_get c' (update_status (update_status (fst (add_applying m c t i)) c t i apply_snap_transferring)
                            c t i apply_snap_transferred) = snm_get c' m.
Proof.
  intros m c t i c' H. rewrite !update_status_other by exact H. rewrite add_applying_get.
  apply N.eqb_neq in H. now rewrite H.
Qed.

Lemma done_covered_apply : forall c m st le,
  done_covered c m (r_synced st) ->
  done_covered c (apply_snaps m (r_synced st) le) (r_synced (apply_entry st le)).
Proof.
  intros c m st le H.
  assert (Hm : done_covered c m (r_synced (apply_entry st le))).
  { eapply done_covered_mono; [|exact H]. intro k. apply (apply_entry_mono st le k). }
  destruct le as [e|t p|e|e content|e]; cbn [apply_snaps]; try exact Hm.
  - destruct (is_already_applied (r_synced st) e); [exact Hm|].
    intros o Ho Hd. destruct (N.eq_dec c (s_cluster e)) as [->|Hne].
    + exfalso. eapply xfer_record_not_done; eauto.
    + rewrite xfer_record_other in Ho by exact Hne. now apply Hm.
  - destruct (is_already_applied (r_synced st) e) eqn:F; [exact Hm|].
    intros o Ho Hd. destruct (N.eq_dec c (s_cluster e)) as [->|Hne].
    + rewrite update_status_same in Ho.
      destruct (snm_get (s_cluster e) m) as [o1|] eqn:G1; [|discriminate].
      destruct (same_snap o1 (s_term e) (s_index e)) eqn:S1.
      * inversion Ho; subst o. cbn [sn_term sn_index sn_status] in *.
        destruct content as [j|]; [|destruct status_consts as (_ & _ & _ & _ & C5); contradiction].
        cbn [apply_entry]. rewrite F. cbn [r_synced]. unfold postprocess.
        destruct ((s_term e =? 0) && (s_index e =? 0)) eqn:Z.
        -- apply andb_true_iff in Z. destruct Z as [Z1 Z2]. apply N.eqb_eq in Z1, Z2. rewrite Z1, Z2.
           destruct (sm_get (s_cluster e) (r_synced st)); cbn; lia.
        -- rewrite sm_get_set_same. cbn. lia.
      * inversion Ho; subst o. apply Hm; assumption.
    + rewrite update_status_other in Ho by exact Hne. now apply Hm.
Qed.

Lemma done_covered_log : forall c l m st,
  done_covered c m (r_synced st) ->
  done_covered c (apply_log_snaps m st l) (r_synced (apply_log st l)).
Proof.
  intros c l; induction l as [|le l IH]; intros m st H; [exact H|].
  cbn [apply_log_snaps]. rewrite apply_log_cons. apply IH. now apply done_covered_apply.
Qed.

(* ---------- the receiver's part of the invariant ---------- *)

Definition recv_inv (c : N) (src : list sentry) (K : nat) (nd : node) : Prop :=
  node_inv nd /\ n_pending nd = [] /\
  done_covered c (n_snaps nd) (r_synced (n_cur nd)) /\
  Inv c src K (n_cur nd).

(* with nothing else in flight, committing everything that was just proposed applies exactly that *)
Lemma commit_all_cur : forall nd l,
  n_pending nd = [] ->
  let nd1 := with_pending nd (n_pending nd ++ l) in
  let nd2 := commit_n nd1 (length (n_pending nd1)) in
  n_cur nd2 = apply_log (n_cur nd) l /\ n_pending nd2 = [] /\
  n_snaps nd2 = apply_log_snaps (n_snaps nd) (n_cur nd) l.
Proof.
  intros nd l Hp; cbn. rewrite Hp; cbn [app]. rewrite firstn_all, skipn_all. repeat split; reflexivity.
Qed.

(* a committed list whose deliveries follow the source moves the invariant along *)
Lemma recv_inv_apply : forall c src K K' nd nd' m' l,
  wf_source c src -> recv_inv c src K nd -> node_inv nd' ->
  n_cur nd' = apply_log (n_cur nd) l -> n_pending nd' = [] ->
  done_covered c m' (r_synced (n_cur nd)) ->
  n_snaps nd' = apply_log_snaps m' (n_cur nd) l ->
  no_local_tag c l -> no_foreign_snap c l -> Follows c src K (deliveries c l) K' ->
  recv_inv c src K' nd'.
Proof.
  intros c src K K' nd nd' m' l Hwf (Hn & Hp & Hd & HI) Hn' Hc Hp' Hd' Hs Hnl Hfs HF.
  split; [exact Hn'|]. split; [exact Hp'|]. split.
  - rewrite Hs, Hc. now apply done_covered_log.
  - rewrite Hc. eapply replay_step; eauto.
Qed.

(* prefilter and apply-side filter agree on raft positions *)
Lemma prefilter_is_filter : forall m e, 0 < s_index e -> prefilter m e = is_already_applied m e.
Proof.
  intros m e H; unfold prefilter, is_already_applied.
  destruct (sm_get (s_cluster e) m) as [o|]; [reflexivity|]. lia.
Qed.

Lemma rpc_collect_all_ok : forall m batch,
  rpc_collect m (map (fun x => (x, true)) batch) =
  (map LSync (filter (fun e => negb (prefilter m e)) batch), true).
Proof.
  intros m batch; induction batch as [|e r IH]; cbn; [reflexivity|].
  destruct (prefilter m e); cbn; [exact IH|]. now rewrite IH.
Qed.

Lemma skipn_firstn_cons : forall (A : Type) a (l : list A) x n,
  nth_error l a = Some x -> firstn (S n) (skipn a l) = x :: firstn n (skipn (S a) l).
Proof.
  intros A a; induction a as [|a IH]; intros l x n Hn.
  - destruct l as [|y r]; [discriminate|]. cbn in *. inversion Hn; subst. reflexivity.
  - destruct l as [|y r]; [discriminate|]. change (skipn (S a) (y :: r)) with (skipn a r).
    change (skipn (S (S a)) (y :: r)) with (skipn (S a) r). apply IH. exact Hn.
Qed.

Lemma slice_cons : forall (A : Type) (l : list A) a b x,
  nth_error l a = Some x -> (a < b)%nat -> slice l a b = x :: slice l (S a) b.
Proof.
  intros A l a b x Hn Hlt; unfold slice. replace (b - a)%nat with (S (b - S a)) by lia.
  now apply skipn_firstn_cons.
Qed.

Lemma slice_nil : forall (A : Type) (l : list A) a b, (b <= a)%nat -> slice l a b = [].
Proof. intros A l a b H; unfold slice. replace (b - a)%nat with 0%nat by lia. reflexivity. Qed.

Lemma nth_error_lt_some : forall (A : Type) (l : list A) n, (n < length l)%nat -> exists x, nth_error l n = Some x.
Proof.
  intros A l n H. destruct (nth_error l n) eqn:E; [eauto|]. apply nth_error_None in E. lia.
Qed.

(* entries at or beyond the covered count pass the pre-filter, and as a block they are "the next ones" *)
Lemma follows_fresh : forall c src st K n a b,
  wf_source c src -> Inv c src K st -> (K <= a)%nat -> (b <= length src)%nat -> (b - a = n)%nat ->
  filter (fun e => negb (prefilter (r_synced st) e)) (slice src a b) = slice src a b /\
  (forall k0, (k0 = a)%nat -> Follows c src k0 (map LSync (slice src a b)) (Nat.max a b)).
Proof.
  intros c src st K n; induction n as [|n IH]; intros a b Hwf HI Hka Hb Hn.
  - rewrite slice_nil by lia. split; [reflexivity|]. intros k0 ->. replace (Nat.max a b) with a by lia. constructor.
  - assert (Hab : (a < b)%nat) by lia.
    destruct (nth_error_lt_some _ src a ltac:(lia)) as [x Hx].
    rewrite (slice_cons _ _ _ _ _ Hx Hab). destruct (wf_nth _ _ _ _ Hwf Hx) as [Hcx Hpx].
    destruct (IH (S a) b Hwf HI ltac:(lia) Hb ltac:(lia)) as [Hf HF].
    split.
    + cbn [filter]. rewrite prefilter_is_filter by exact Hpx.
      rewrite (ahead_not_filtered _ _ _ _ _ _ Hwf HI Hx Hka). cbn. now rewrite Hf.
    + intros k0 ->. cbn [map]. apply F_next; [exact Hx|].
      replace (Nat.max a b) with (Nat.max (S a) b) by lia. now apply HF.
Qed.

Lemma follows_slice : forall c src st K n a b,
  wf_source c src -> Inv c src K st -> (a <= K)%nat -> (K <= length src)%nat -> (b <= length src)%nat -> (b - a = n)%nat ->
  Follows c src K (map LSync (filter (fun e => negb (prefilter (r_synced st) e)) (slice src a b))) (Nat.max K b).
Proof.
  intros c src st K n; induction n as [|n IH]; intros a b Hwf HI Hak HK Hb Hn.
  - rewrite slice_nil by lia. cbn. replace (Nat.max K b) with K by lia. constructor.
  - assert (Hab : (a < b)%nat) by lia.
    destruct (Nat.eq_dec a K) as [->|Hne].
    + destruct (follows_fresh c src st K (S n) K b Hwf HI ltac:(lia) Hb Hn) as [Hf HF].
      rewrite Hf. now apply HF.
    + destruct (nth_error_lt_some _ src a ltac:(lia)) as [x Hx].
      rewrite (slice_cons _ _ _ _ _ Hx Hab). destruct (wf_nth _ _ _ _ Hwf Hx) as [Hcx Hpx].
      cbn [filter]. rewrite prefilter_is_filter by exact Hpx.
      rewrite (old_is_filtered _ _ _ _ _ _ Hwf HI Hx ltac:(lia)). cbn [negb].
      apply (IH (S a) b); auto; lia.
Qed.

Lemma slice_in : forall (A : Type) (l : list A) a b x, In x (slice l a b) -> In x l.
Proof.
  intros A l a b x H; unfold slice in H.
  rewrite <- (firstn_skipn a l). apply in_or_app; right.
  rewrite <- (firstn_skipn (b - a) (skipn a l)). apply in_or_app; now left.
Qed.

Lemma deliveries_sync_all : forall c l, Forall (fun e => s_cluster e = c) l -> deliveries c (map LSync l) = map LSync l.
Proof.
  intros c l H; induction H as [|e r He _ IH]; [reflexivity|].
  cbn [map]. rewrite deliveries_cons, IH. cbn. apply N.eqb_eq in He. now rewrite He.
Qed.

Lemma no_local_sync : forall c l, no_local_tag c (map LSync l).
Proof. intros c l; induction l; cbn; constructor; auto. Qed.
Lemma no_foreign_sync : forall c l, no_foreign_snap c (map LSync l).
Proof. intros c l; induction l; cbn; constructor; auto. Qed.


(* ---------- receiver events ---------- *)

Lemma recv_rpc_batch : forall c src K nd a b,
  wf_source c src -> recv_inv c src K nd -> (a <= K)%nat -> (K <= length src)%nat -> (b <= length src)%nat ->
  recv_inv c src (Nat.max K b) (fst (step nd (ORpc (map (fun x => (x, true)) (slice src a b))))).
Proof.
  intros c src K nd a b Hwf HR Hak HK Hb. pose proof HR as (Hn & Hp & Hd & HI).
  pose proof (step_inv nd (ORpc (map (fun x => (x, true)) (slice src a b))) Hn) as Hn'.
  cbn [step step0] in *. rewrite rpc_collect_all_ok in *. cbn [fst] in *.
  set (l := map LSync (filter (fun e => negb (prefilter (r_synced (n_cur nd)) e)) (slice src a b))) in *.
  destruct (commit_all_cur nd l Hp) as (Hc & Hp' & Hs).
  eapply recv_inv_apply with (l := l) (m' := n_snaps nd); eauto.
  - apply no_local_sync.
  - apply no_foreign_sync.
  - unfold l. rewrite deliveries_sync_all.
    + eapply (follows_slice c src (n_cur nd) K (b - a) a b); eauto.
    + apply Forall_forall. intros e He. apply filter_In in He. destruct He as [He _].
      apply slice_in in He. destruct Hwf as [Hf _]. rewrite Forall_forall in Hf. now apply Hf.
Qed.

Lemma done_covered_add : forall c m sy c' t i,
  done_covered c m sy -> done_covered c (fst (add_applying m c' t i)) sy.
Proof.
  intros c m sy c' t i H o Ho Hd. rewrite add_applying_get in Ho.
  destruct status_consts as (C1 & _).
  destruct (c =? c') eqn:E; [|now apply H].
  apply N.eqb_eq in E; subst c'.
  destruct (snm_get c m) as [o0|] eqn:G.
  - destruct (sn_status o0 =? apply_snap_done) eqn:D.
    + inversion Ho; subst o. cbn in Hd. contradiction.
    + inversion Ho; subst o. apply N.eqb_neq in D. contradiction.
  - inversion Ho; subst o. cbn in Hd. contradiction.
Qed.

Lemma done_covered_update : forall c m sy c' t i st,
  st <> apply_snap_done -> done_covered c m sy -> done_covered c (update_status m c' t i st) sy.
Proof.
  intros c m sy c' t i st Hst H o Ho Hd. destruct (N.eq_dec c c') as [->|Hne].
  - rewrite update_status_same in Ho. destruct (snm_get c' m) as [o0|] eqn:G; [|discriminate].
    destruct (same_snap o0 t i).
    + inversion Ho; subst o. cbn in Hd. contradiction.
    + inversion Ho; subst o. now apply H.
  - rewrite update_status_other in Ho by exact Hne. now apply H.
Qed.

Lemma pos_at_some : forall src m t i, pos_at src m = Some (t, i) ->
  exists j x, m = S j /\ nth_error src j = Some x /\ s_term x = t /\ s_index x = i.
Proof.
  intros src m t i H. destruct m as [|j]; [discriminate|]. cbn in H.
  destruct (nth_error src j) as [x|] eqn:E; [|discriminate]. inversion H; subst.
  exists j, x. repeat split; auto.
Qed.

(* NotifyTransferSnap: data and positions untouched *)
Lemma recv_xfer : forall c src K nd t i,
  wf_source c src -> recv_inv c src K nd ->
  recv_inv c src K (fst (step nd (OSnapRpc (OXfer c t i)))).
Proof.
  intros c src K nd t i Hwf HR. pose proof HR as (Hn & Hp & Hd & HI).
  pose proof (step_inv nd (OSnapRpc (OXfer c t i)) Hn) as Hn'.
  cbn [step snap_req_pos] in *. destruct (prefilter _ _); [exact HR|].
  cbn [step0] in *. destruct (add_applying (n_snaps nd) c t i) as [m added] eqn:EA.
  destruct (negb added && _); cbn [fst] in *; [exact HR|].
  set (nd0 := with_snaps nd m) in *.
  assert (Hp0 : n_pending nd0 = []) by exact Hp.
  destruct (commit_all_cur nd0 [LXfer (mkS c t i 0 0)] Hp0) as (Hc & Hp' & Hs).
  change (with_pending nd0 (n_pending nd ++ [LXfer (mkS c t i 0 0)])) with
         (with_pending nd0 (n_pending nd0 ++ [LXfer (mkS c t i 0 0)])) in *.
  eapply recv_inv_apply with (l := [LXfer (mkS c t i 0 0)]) (m' := m); eauto.
  - replace m with (fst (add_applying (n_snaps nd) c t i)) by now rewrite EA. now apply done_covered_add.
  - repeat constructor.
  - repeat constructor.
  - rewrite deliveries_cons. cbn. rewrite N.eqb_refl. cbn. apply F_xfer. constructor.
Qed.

Lemma max_l_eq : forall a b, (b <= a)%nat -> Nat.max a b = a.
Proof. intros; lia. Qed.

(* NotifyApplySnap with the source's own state at position m, or without a usable checkpoint *)
Lemma recv_snap_apply : forall c src K nd m t i (files : bool),
  wf_source c src -> recv_inv c src K nd -> pos_at src m = Some (t, i) ->
  exists K', (K <= K')%nat /\ (K' <= Nat.max K m)%nat /\
    recv_inv c src K' (fst (step nd (OSnapRpc (OSnapReq c t i
        (if files then Some (map (fun x => (c, s_payload x)) (firstn m src)) else None))))).
Proof.
  intros c src K nd m t i files Hwf HR Hpos. pose proof HR as (Hn & Hp & Hd & HI).
  destruct (pos_at_some _ _ _ _ Hpos) as (j & x & -> & Hx & Ht & Hi).
  set (content := if files then Some (map (fun y => (c, s_payload y)) (firstn (S j) src)) else None).
  pose proof (step_inv nd (OSnapRpc (OSnapReq c t i content)) Hn) as Hn'.
  cbn [step snap_req_pos] in *. destruct (prefilter _ _); [exists K; split; [lia|split; [lia|exact HR]]|].
  cbn [step0] in *. destruct (snm_get c (n_snaps nd)) as [o|]; cbn [fst] in *; [|exists K; split; [lia|split; [lia|exact HR]]].
  destruct (negb (same_snap o t i)); cbn [fst] in *; [exists K; split; [lia|split; [lia|exact HR]]|].
  destruct (negb (sn_status o =? apply_snap_transferred)); cbn [fst] in *; [exists K; split; [lia|split; [lia|exact HR]]|].
  set (e := mkS c t i snap_ts 0) in *.
  set (nd0 := with_snaps nd (update_status (n_snaps nd) c t i apply_snap_applying)) in *.
  assert (Hp0 : n_pending nd0 = []) by exact Hp.
  destruct (commit_all_cur nd0 [LSnap e content] Hp0) as (Hc & Hp' & Hs).
  change (with_pending nd0 (n_pending nd ++ [LSnap e content])) with
         (with_pending nd0 (n_pending nd0 ++ [LSnap e content])) in *.
  assert (Hsp : same_pos e x) by (split; cbn; congruence).
  assert (Hdd : done_covered c (update_status (n_snaps nd) c t i apply_snap_applying) (r_synced (n_cur nd))).
  { apply done_covered_update; [|exact Hd]. destruct status_consts as (_ & _ & _ & C4 & _). exact C4. }
  assert (Hdel : deliveries c [LSnap e content] = [LSnap e content]).
  { rewrite deliveries_cons. cbn. now rewrite N.eqb_refl. }
  destruct (le_lt_dec (S j) K) as [Hold|Hnew].
  - exists K. split; [lia|]. split; [lia|].
    eapply recv_inv_apply with (l := [LSnap e content]); eauto.
    + repeat constructor.
    + constructor; [|constructor]. destruct content; [reflexivity|exact I].
    + rewrite Hdel. eapply F_snap_old; eauto. constructor.
  - destruct files; unfold content.
    + exists (S j). split; [lia|]. split; [lia|].
      eapply recv_inv_apply with (l := [LSnap e (Some (map (fun y => (c, s_payload y)) (firstn (S j) src)))]); eauto.
      * repeat constructor.
      * constructor; [reflexivity|constructor].
      * rewrite deliveries_cons. cbn. rewrite N.eqb_refl. cbn.
        change (map (fun y => (c, s_payload y)) (firstn (S j) src)) with (src_snapshot c src j).
        eapply F_snap; eauto; [lia|constructor].
    + exists K. split; [lia|]. split; [lia|].
      eapply recv_inv_apply with (l := [LSnap e None]); eauto.
      * repeat constructor.
      * repeat constructor.
      * rewrite deliveries_cons. cbn. rewrite N.eqb_refl. cbn. apply F_snap_fail. constructor.
Qed.

Lemma recv_own_event : forall c src K nd o,
  c <> 0 -> wf_source c src -> recv_inv c src K nd -> recv_event_ok o = true ->
  recv_inv c src K (fst (step nd o)).
Proof.
  intros c src K nd o Hc Hwf HR Hok. pose proof HR as (Hn & Hp & Hd & HI).
  pose proof (step_inv nd o Hn) as Hn'.
  destruct o; cbn in Hok; try discriminate; cbn [step step0 fst] in *.
  - (* OLocal *)
    split; [exact Hn'|]. split; [exact Hp|]. split.
    + cbn [n_snaps n_cur]. eapply done_covered_mono; [|exact Hd]. intro k. cbn. apply ss_le_refl.
    + cbn [n_cur]. apply local_keeps; [intro X; apply Hc; now symmetry|exact HI].
  - (* OSnap *) split; [exact Hn'|]. split; [exact Hp|]. split; [exact Hd|exact HI].
  - (* ORestart *)
    pose proof (restore_replay nd Hn) as R. destruct (restore nd) as [k s] eqn:ER; cbn [fst snd] in *.
    split; [exact Hn'|]. split; [reflexivity|]. split.
    + cbn [n_snaps n_cur]. apply done_covered_log. intros o Ho. discriminate.
    + cbn [n_cur]. rewrite R. exact HI.
  - (* OSnapExpire *)
    split; [exact Hn'|]. split; [exact Hp|]. split; [|exact HI].
    cbn [n_snaps n_cur with_snaps]. intros o Ho Hdn. rewrite snm_get_filter in Ho.
    destruct (c =? c0); [discriminate|]. now apply Hd.
  - (* OSnapLate *)
    destruct (back <=? length (n_log nd))%nat; [|exact HR].
    split; [exact Hn'|]. split; [exact Hp|]. split; [exact Hd|exact HI].
Qed.

(* ---------- what a recorded position says about the covered count ---------- *)

Lemma newer_covers : forall c src K st m t i,
  wf_source c src -> Inv c src K st -> pos_at src m = Some (t, i) ->
  is_newer2 (synced_of st c) t i = true -> (m <= K)%nat.
Proof.
  intros c src K st m t i Hwf [_ Hs] Hpos HN.
  destruct (pos_at_some _ _ _ _ Hpos) as (j & x & -> & Hx & Ht & Hi).
  destruct (wf_nth _ _ _ _ Hwf Hx) as [_ Hpx].
  destruct K as [|k]; cbn in Hs.
  - rewrite Hs in HN. cbn in HN. lia.
  - destruct Hs as (ek & o' & Hek & Hsy & Htk & Hik). rewrite Hsy in HN. cbn in HN.
    destruct (le_lt_dec (S j) (S k)) as [H|H]; [exact H|].
    assert (src_lt ek x) as [H1 _] by (eapply sorted_nth_lt; [apply Hwf|eauto|eauto|lia]). lia.
Qed.

Lemma status_mapping_done : forall st, status_mapping st = 4 -> st = apply_snap_done.
Proof.
  intros st H; unfold status_mapping in H.
  destruct (st =? apply_snap_begin); [discriminate|].
  destruct (st =? apply_snap_transferring); [discriminate|].
  destruct (st =? apply_snap_transferred); [discriminate|].
  destruct (st =? apply_snap_applying); [discriminate|].
  destruct (st =? apply_snap_done) eqn:E; [now apply N.eqb_eq in E|].
  destruct (st =? apply_snap_failed); discriminate.
Qed.

Lemma is_newer2_rsp : forall nd c t i,
  (let '(st, si) := match sm_get c (r_synced (n_cur nd)) with Some o => (ss_term o, ss_index o) | None => (0, 0) end in
   (t <=? st) && (i <=? si)) = is_newer2 (sm_get c (r_synced (n_cur nd))) t i.
Proof. intros nd c t i. destruct (sm_get c (r_synced (n_cur nd))); reflexivity. Qed.

(* GetApplySnapStatus = ApplySuccess means the recorded position covers the snapshot *)
Lemma success_covers : forall c src K nd m t i,
  wf_source c src -> recv_inv c src K nd -> pos_at src m = Some (t, i) ->
  apply_status_rsp nd c t i = 4 -> (m <= K)%nat.
Proof.
  intros c src K nd m t i Hwf (Hn & Hp & Hd & HI) Hpos H.
  eapply newer_covers; eauto. unfold synced_of.
  destruct (is_newer2 (sm_get c (r_synced (n_cur nd))) t i) eqn:B; [reflexivity|exfalso].
  assert (H' : match snm_get c (n_snaps nd) with
               | None => 6
               | Some o => if same_snap o t i then status_mapping (sn_status o) else 6
               end = 4).
  { unfold apply_status_rsp in H. unfold is_newer2 in B.
    destruct (sm_get c (r_synced (n_cur nd))) as [p|]; cbn in H; rewrite B in H; exact H. }
  clear H; rename H' into H.
  destruct (snm_get c (n_snaps nd)) as [o|] eqn:GS; [|discriminate].
  destruct (same_snap o t i) eqn:S; [|discriminate].
  apply status_mapping_done in H. specialize (Hd o GS H).
  unfold same_snap in S. apply andb_true_iff in S. destruct S as [S1 S2].
  apply N.eqb_eq in S1, S2. subst t i. congruence.
Qed.

(* ---------- the composed system ---------- *)

Lemma step_mono_inv : forall nd o c, node_inv nd ->
  ss_le (synced_of (n_cur nd) c) (synced_of (n_cur (fst (step nd o))) c).
Proof.
  intros nd o c Hn. destruct (step_log_ext nd o) as [ext [[_ Hc]|[_ [_ ->]]]].
  - rewrite Hc. apply apply_log_mono.
  - pose proof (restore_replay nd Hn) as R. cbn [step step0]. destruct (restore nd) as [k s]; cbn [fst snd] in *.
    cbn [n_cur]. rewrite R. apply ss_le_refl.
Qed.

Lemma Inv_K_le : forall c src K st, Inv c src K st -> (K <= length src)%nat.
Proof.
  intros c src K st [_ Hs]. destruct K as [|k]; [lia|]. cbn in Hs. destruct Hs as (e & o & He & _).
  assert (nth_error src k <> None) by congruence. apply nth_error_Some in H. lia.
Qed.

Lemma pos_at_le : forall src m t i, pos_at src m = Some (t, i) -> (m <= length src)%nat.
Proof.
  intros src m t i H. destruct (pos_at_some _ _ _ _ H) as (j & x & -> & Hx & _).
  assert (nth_error src j <> None) by congruence. apply nth_error_Some in H0. lia.
Qed.

Lemma nth_firstn : forall (A : Type) n (l : list A) k, (k < n)%nat -> nth_error (firstn n l) k = nth_error l k.
Proof.
  intros A n; induction n as [|n IH]; intros l k H; [lia|].
  destruct l as [|x r]; [now destruct k|]. destruct k as [|k]; [reflexivity|]. cbn. apply IH. lia.
Qed.

Lemma nth_skipn : forall (A : Type) a (l : list A) k, nth_error (skipn a l) k = nth_error l (a + k).
Proof.
  intros A a; induction a as [|a IH]; intros l k; [reflexivity|].
  destruct l as [|x r]; [now destruct k|]. cbn. apply IH.
Qed.

Lemma slice_last : forall (A : Type) (l : list A) a b lst r,
  (b <= length l)%nat -> rev (slice l a b) = lst :: r -> (a < b)%nat /\ nth_error l (b - 1) = Some lst.
Proof.
  intros A l a b lst r Hb H.
  destruct (le_lt_dec b a) as [Hle|Hlt]; [rewrite slice_nil in H by lia; discriminate|].
  split; [exact Hlt|].
  assert (E : slice l a b = rev r ++ [lst]).
  { rewrite <- (rev_involutive (slice l a b)), H. reflexivity. }
  (* the last element of firstn (b-a) (skipn a l) is l[b-1] *)
  unfold slice in E.
  assert (Hlen : length (firstn (b - a) (skipn a l)) = (b - a)%nat).
  { apply firstn_length_le. rewrite skipn_length. lia. }
  assert (Hn : nth_error (firstn (b - a) (skipn a l)) (b - a - 1) = Some lst).
  { rewrite E. rewrite nth_error_app2.
    - rewrite E, app_length in Hlen. cbn in Hlen. replace (b - a - 1 - length (rev r))%nat with 0%nat by lia. reflexivity.
    - rewrite E, app_length in Hlen. cbn in Hlen. lia. }
  rewrite nth_firstn in Hn by lia. rewrite nth_skipn in Hn.
  replace (a + (b - a - 1))%nat with (b - 1)%nat in Hn by lia. exact Hn.
Qed.

Definition sender_ok (c : N) (src : list sentry) (K : nat) (nd : node) (sd : sender) : Prop :=
  (sd_buf sd <= K)%nat /\ (sd_buf sd <= sd_next sd)%nat /\ (sd_next sd <= length src)%nat /\
  (sd_snap sd <= K)%nat /\
  ss_le (sd_state sd) (synced_of (n_cur nd) c).

Definition sys_inv (c : N) (src : list sentry) (s : sys) : Prop :=
  exists K, recv_inv c src K (fst s) /\
    sender_ok c src K (fst s) (fst (snd s)) /\ sender_ok c src K (fst s) (snd (snd s)).

Lemma sys_inv_init : forall c src, sys_inv c src init_sys.
Proof.
  intros c src. exists 0%nat. unfold sender_ok; cbn. repeat split; try lia; try exact I.
  intros o Ho; discriminate.
Qed.

(* the receiver moving on keeps a learner's bookkeeping valid *)
Lemma sender_ok_mono : forall c src K K' nd nd' sd,
  (K <= K')%nat -> ss_le (synced_of (n_cur nd) c) (synced_of (n_cur nd') c) ->
  sender_ok c src K nd sd -> sender_ok c src K' nd' sd.
Proof.
  intros c src K K' nd nd' sd HK Hle (H1 & H2 & H3 & H4 & H5).
  repeat split; try lia. eapply ss_le_trans; eauto.
Qed.

(* one learner's step: the receiver's invariant moves from K to some K' >= K, the learner stays valid *)
Lemma learner_step_inv : forall c src K nd sd e nd' sd',
  c <> 0 -> wf_source c src -> recv_inv c src K nd -> sender_ok c src K nd sd ->
  learner_step c src nd sd e = (nd', sd') ->
  exists K', (K <= K')%nat /\ recv_inv c src K' nd' /\ sender_ok c src K' nd' sd' /\
    ss_le (synced_of (n_cur nd) c) (synced_of (n_cur nd') c).
Proof.
  intros c src K nd sd e nd' sd' Hc Hwf HR (HbK & Hbn & Hnl & Hsn & Hst) Heq.
  pose proof HR as (Hn & Hp & Hd & HI). pose proof (Inv_K_le _ _ _ _ HI) as HKl.
  assert (Same : forall sdx, sender_ok c src K nd sdx -> (nd, sdx) = (nd', sd') ->
            exists K', (K <= K')%nat /\ recv_inv c src K' nd' /\ sender_ok c src K' nd' sd' /\
                       ss_le (synced_of (n_cur nd) c) (synced_of (n_cur nd') c)).
  { intros sdx H E. inversion E; subst. exists K. split; [lia|]. split; [exact HR|]. split; [exact H|apply ss_le_refl]. }
  assert (Keep : sender_ok c src K nd sd) by (repeat split; auto).
  destruct e as [w|w f|w|w|w fwd|w m|m f|m files f|w m|o]; cbn [learner_step] in Heq;
    try (apply (Same sd Keep Heq)).
  - (* EFeed *)
    destruct (sd_next sd <? length src)%nat eqn:E; [|apply (Same sd Keep Heq)]. apply Nat.ltb_lt in E.
    destruct (sd_fwd sd).
    + eapply Same; [|exact Heq]. repeat split; cbn; auto; lia.
    + destruct (pos_at src (S (sd_next sd))) as [[t i]|] eqn:EP; [|apply (Same sd Keep Heq)].
      destruct (is_newer2 (sm_get c (r_synced (n_cur nd))) t i) eqn:EN; [|apply (Same sd Keep Heq)].
      assert ((S (sd_next sd) <= K)%nat) by (eapply newer_covers; eauto).
      eapply Same; [|exact Heq]. destruct (sd_buf sd =? sd_next sd)%nat eqn:EB; repeat split; cbn; auto; try lia.
  - (* ESend *)
    destruct (rev (slice src (sd_buf sd) (sd_next sd))) as [|lst r] eqn:ER; [apply (Same sd Keep Heq)|].
    destruct (slice_last _ _ _ _ _ _ Hnl ER) as [Hlt Hlst].
    destruct (is_newer2 (sd_state sd) (s_term lst) (s_index lst)) eqn:EN.
    + assert (Hcov : (sd_next sd <= K)%nat).
      { eapply (newer_covers c src K (n_cur nd) (sd_next sd) (s_term lst) (s_index lst)); eauto.
        - destruct (sd_next sd) as [|n]; [lia|]. cbn. replace (S n - 1)%nat with n in Hlst by lia. now rewrite Hlst.
        - eapply is_newer2_mono; eauto. }
      eapply Same; [|exact Heq]. repeat split; cbn; auto; lia.
    + assert (Hm := step_mono_inv nd (ORpc (map (fun x => (x, true)) (slice src (sd_buf sd) (sd_next sd)))) c Hn).
      assert (HRb := recv_rpc_batch c src K nd (sd_buf sd) (sd_next sd) Hwf HR HbK HKl Hnl).
      destruct f; [| |apply (Same sd Keep Heq)]; injection Heq as <- <-;
        (exists (Nat.max K (sd_next sd)); split; [lia|]; split; [exact HRb|]; split; [|exact Hm];
         repeat split; cbn; try lia; eapply ss_le_trans; eauto).
  - (* ELearnerSnapshot: only with the buffer drained *)
    destruct (sd_buf sd =? sd_next sd)%nat eqn:E; [|apply (Same sd Keep Heq)].
    apply Nat.eqb_eq in E. eapply Same; [|exact Heq]. repeat split; cbn; auto; lia.
  - (* ELearnerRestart *)
    eapply Same; [|exact Heq]. repeat split; cbn; auto; try lia. apply ss_le_refl.
  - (* ESwitch *)
    eapply Same; [|exact Heq]. repeat split; cbn; auto.
  - (* ESnapCheck *)
    destruct (pos_at src m) as [[t i]|] eqn:EP; [|apply (Same sd Keep Heq)].
    destruct (is_newer2 (sm_get c (r_synced (n_cur nd))) t i && (sd_next sd <=? m)%nat) eqn:E; [|apply (Same sd Keep Heq)].
    apply andb_true_iff in E. destruct E as [E1 E2].
    assert ((m <= K)%nat) by (eapply newer_covers; eauto).
    pose proof (pos_at_le _ _ _ _ EP). eapply Same; [|exact Heq]. repeat split; cbn; auto; lia.
  - (* ESnapDone *)
    destruct (pos_at src m) as [[t i]|] eqn:EP; [|apply (Same sd Keep Heq)].
    destruct ((apply_status_rsp nd c t i =? 4) && (sd_buf sd =? sd_next sd)%nat && (sd_next sd <=? m)%nat) eqn:E;
      [|apply (Same sd Keep Heq)].
    apply andb_true_iff in E. destruct E as [E E3]. apply andb_true_iff in E. destruct E as [E1 E2].
    apply N.eqb_eq in E1. assert ((m <= K)%nat) by (eapply success_covers; eauto).
    pose proof (pos_at_le _ _ _ _ EP). eapply Same; [|exact Heq]. repeat split; cbn; auto; lia.
Qed.

Lemma sys_step_inv : forall c src s e,
  c <> 0 -> wf_source c src -> sys_inv c src s -> sys_inv c src (sys_step c src s e).
Proof.
  intros c src [nd [s1 s2]] e Hc Hwf (K & HR & H1 & H2). cbn [fst snd] in *.
  pose proof HR as (Hn & Hp & Hd & HI).
  unfold sys_step. destruct (ev_learner e) as [w|] eqn:EL.
  - destruct w; cbn [get_sd set_sd fst snd].
    + destruct (learner_step c src nd s1 e) as [nd' sd'] eqn:EQ.
      destruct (learner_step_inv c src K nd s1 e nd' sd' Hc Hwf HR H1 EQ) as (K' & HK & HR' & HS' & Hm).
      exists K'. cbn [fst snd]. split; [exact HR'|]. split; [exact HS'|]. eapply sender_ok_mono; eauto.
    + destruct (learner_step c src nd s2 e) as [nd' sd'] eqn:EQ.
      destruct (learner_step_inv c src K nd s2 e nd' sd' Hc Hwf HR H2 EQ) as (K' & HK & HR' & HS' & Hm).
      exists K'. cbn [fst snd]. split; [exact HR'|]. split; [eapply sender_ok_mono; eauto|exact HS'].
  - assert (Same : sys_inv c src (nd, (s1, s2))) by (exists K; auto).
    destruct e as [w|w f|w|w|w fwd|w m|m f|m files f|w m|o]; cbn in EL; try discriminate.
    + (* ENotifyTransfer *)
      destruct (pos_at src m) as [[t i]|] eqn:EP; [|exact Same].
      assert (Hm := step_mono_inv nd (OSnapRpc (OXfer c t i)) c Hn).
      destruct f; try exact Same;
        (exists K; cbn [fst snd]; split; [now apply recv_xfer|]; split; eapply sender_ok_mono; eauto).
    + (* ENotifyApply *)
      destruct (pos_at src m) as [[t i]|] eqn:EP; [|exact Same].
      destruct f; try exact Same;
        (destruct (recv_snap_apply c src K nd m t i files Hwf HR EP) as (K' & HK1 & HK2 & HR');
         match goal with |- context [step nd ?o] => assert (Hm := step_mono_inv nd o c Hn) end;
         exists K'; cbn [fst snd]; split; [exact HR'|]; split; eapply sender_ok_mono; eauto).
    + (* ERecv *)
      destruct (recv_event_ok o) eqn:E; [|exact Same].
      assert (Hm := step_mono_inv nd o c Hn).
      exists K. cbn [fst snd]. split; [now apply recv_own_event|]. split; eapply sender_ok_mono; eauto.
Qed.

Lemma sys_run_inv : forall c src evs, c <> 0 -> wf_source c src -> sys_inv c src (sys_run c src evs).
Proof.
  intros c src evs Hc Hwf; unfold sys_run.
  induction evs as [|e evs IH] using rev_ind; [apply sys_inv_init|].
  rewrite fold_left_app. cbn. now apply sys_step_inv.
Qed.

(* SAFETY of the composed system.  Two learners of the source (each forwarding or stand-by, roles switched at any
   time), feeding and sending, lost requests and lost responses, learner snapshots and restarts, snapshot hand-over
   steps with or without the checkpoint, receiver snapshots, crashes, local writes and status time-outs, in ANY
   interleaving: the data replicated from the source is exactly its first K entries, each once and in order, the
   recorded position is the K-th entry's, and for BOTH learners everything they regard as done, and the point from
   which they would replay after a restart, lie within those K entries. *)
Theorem sender_safety : forall c src evs,
  c <> 0 -> wf_source c src ->
  exists K,
    proj c (r_journal (n_cur (fst (sys_run c src evs)))) = map s_payload (firstn K src) /\
    synced_at src K (synced_of (n_cur (fst (sys_run c src evs))) c) /\
    (sd_buf (fst (snd (sys_run c src evs))) <= K)%nat /\ (sd_snap (fst (snd (sys_run c src evs))) <= K)%nat /\
    (sd_buf (snd (snd (sys_run c src evs))) <= K)%nat /\ (sd_snap (snd (snd (sys_run c src evs))) <= K)%nat.
Proof.
  intros c src evs Hc Hwf.
  destruct (sys_run_inv c src evs Hc Hwf) as (K & (_ & _ & _ & [Hj Hs]) & (A1 & _ & _ & A4 & _) & (B1 & _ & _ & B4 & _)).
  exists K. auto 10.
Qed.

(* a learner snapshot taken WITH a backlog (GetSnapshot swallowing its time-out) breaks it: the learner restarts behind
   entries that were never sent, the receiver accepts the later ones over the gap *)
Definition loose_src : list sentry := [mkS 1 1 1 1001 10; mkS 1 1 2 1002 20; mkS 1 1 3 1003 30].
Definition loose_evs : list ev :=
  [EFeed true; ESend true FNone; EFeed true; ESend true FReqLost; ELearnerSnapshot true; ELearnerRestart true;
   EFeed true; EFeed true; EFeed true; ESend true FNone].

Lemma learner_snapshot_with_backlog_refuted :
  r_journal (n_cur (fst (sys_run_loose 1 loose_src loose_evs))) = [(1, 10); (1, 30)] /\
  synced_of (n_cur (fst (sys_run_loose 1 loose_src loose_evs))) 1 = Some (mkSS 1 3 1003) /\
  r_journal (n_cur (fst (sys_run 1 loose_src loose_evs))) = [(1, 10); (1, 20); (1, 30)].
Proof. vm_compute. repeat split; reflexivity. Qed.
