(* Sync/Proofs.v — proofs about the C19 model (Sync/Model.v). *)
From Coq Require Import List NArith Bool Arith Lia Sorted.
From Coq Require Import ZifyN ZifyNat ZifyBool.
From ZV Require Import Sync.Consts Sync.Model.
Import ListNotations.
Open Scope N_scope.

Lemma apply_log_cons : forall st le l, apply_log st (le :: l) = apply_log (apply_entry st le) l.
Proof. reflexivity. Qed.
Lemma apply_log_nil : forall st, apply_log st [] = st.
Proof. reflexivity. Qed.
Arguments apply_log : simpl never.
Arguments proj : simpl never.

(* ---------- the synced map ---------- *)

Lemma sm_get_set_same : forall c v m, sm_get c (sm_set c v m) = Some v.
Proof.
  intros c v m; induction m as [|[k x] r IH]; cbn.
  - now rewrite N.eqb_refl.
  - destruct (c =? k) eqn:E; cbn; [now rewrite N.eqb_refl|].
    destruct (c <? k) eqn:L; cbn; [now rewrite N.eqb_refl|].
    now rewrite E.
Qed.

Lemma sm_get_set_other : forall c c' v m, c' <> c -> sm_get c' (sm_set c v m) = sm_get c' m.
Proof.
  intros c c' v m Hne; induction m as [|[k x] r IH]; cbn.
  - destruct (c' =? c) eqn:E; [apply N.eqb_eq in E; contradiction|reflexivity].
  - destruct (c =? k) eqn:E; cbn.
    + apply N.eqb_eq in E; subst k.
      destruct (c' =? c) eqn:E2; [apply N.eqb_eq in E2; contradiction|reflexivity].
    + destruct (c <? k) eqn:L; cbn.
      * destruct (c' =? c) eqn:E2; [apply N.eqb_eq in E2; contradiction|reflexivity].
      * destruct (c' =? k); [reflexivity|exact IH].
Qed.

(* order on positions: both components *)
Definition ss_le (a b : option sstate) : Prop :=
  match a, b with
  | None, _ => True
  | Some _, None => False
  | Some x, Some y => ss_term x <= ss_term y /\ ss_index x <= ss_index y
  end.

Lemma ss_le_refl : forall a, ss_le a a.
Proof. intros [x|]; cbn; auto; split; lia. Qed.

Lemma ss_le_trans : forall a b c, ss_le a b -> ss_le b c -> ss_le a c.
Proof. intros [x|] [y|] [z|]; cbn; intuition lia. Qed.

Definition synced_of (st : rstate) (c : N) : option sstate := sm_get c (r_synced st).

(* an accepted entry's position *)
Definition pos_of (e : sentry) : sstate := mkSS (s_term e) (s_index e) (s_ts e).

Lemma postprocess_get_same : forall m e,
  negb ((s_term e =? 0) && (s_index e =? 0)) = true ->
  sm_get (s_cluster e) (postprocess m e) = Some (pos_of e).
Proof.
  intros m e H; unfold postprocess. destruct ((s_term e =? 0) && (s_index e =? 0)); [discriminate|].
  apply sm_get_set_same.
Qed.

Lemma postprocess_get_other : forall m e c, c <> s_cluster e -> sm_get c (postprocess m e) = sm_get c m.
Proof.
  intros m e c H; unfold postprocess. destruct ((s_term e =? 0) && (s_index e =? 0)); [reflexivity|].
  now apply sm_get_set_other.
Qed.

(* ---------- monotonicity of the recorded position ---------- *)

(* an accepted position update never lowers any cluster's position *)
Lemma postprocess_mono : forall m e c,
  is_already_applied m e = false -> ss_le (sm_get c m) (sm_get c (postprocess m e)).
Proof.
  intros m e c F. destruct (N.eq_dec c (s_cluster e)) as [->|Hne].
  - unfold postprocess. destruct ((s_term e =? 0) && (s_index e =? 0)) eqn:Z; [apply ss_le_refl|].
    rewrite sm_get_set_same. unfold is_already_applied in F.
    destruct (sm_get (s_cluster e) m) as [o|]; cbn; [split; lia|exact I].
  - rewrite postprocess_get_other by exact Hne. apply ss_le_refl.
Qed.

(* the synced map after an entry: unchanged, or the accepted entry's position recorded *)
Lemma apply_entry_synced : forall st le,
  r_synced (apply_entry st le) = r_synced st \/
  exists e, is_already_applied (r_synced st) e = false /\ r_synced (apply_entry st le) = postprocess (r_synced st) e.
Proof.
  intros st [e|t p|e|e content|e]; cbn [apply_entry].
  - destruct (is_already_applied (r_synced st) e) eqn:F; [now left|right; exists e; auto].
  - now left.
  - now left.
  - destruct (is_already_applied (r_synced st) e) eqn:F; [now left|].
    destruct content; [right; exists e; auto|now left].
  - destruct (is_already_applied (r_synced st) e) eqn:F; [now left|right; exists e; auto].
Qed.

Lemma apply_entry_mono : forall st le c, ss_le (synced_of st c) (synced_of (apply_entry st le) c).
Proof.
  intros st le c; unfold synced_of. destruct (apply_entry_synced st le) as [->|[e [F ->]]].
  - apply ss_le_refl.
  - now apply postprocess_mono.
Qed.

Lemma apply_log_mono : forall l st c, ss_le (synced_of st c) (synced_of (apply_log st l) c).
Proof.
  induction l as [|le l IH]; intros st c; [apply ss_le_refl|].
  rewrite apply_log_cons. eapply ss_le_trans; [apply apply_entry_mono|apply IH].
Qed.

(* an accepted entry strictly advances the index of its cluster *)
Lemma apply_entry_accept_advances : forall st e o,
  is_already_applied (r_synced st) e = false ->
  synced_of st (s_cluster e) = Some o ->
  ss_index o < s_index e /\ ss_term o <= s_term e.
Proof.
  unfold is_already_applied, synced_of; intros st e o F G. rewrite G in F. split; lia.
Qed.

(* ---------- the receive-side pre-filter only drops what the apply-side filter would drop ---------- *)

Lemma prefilter_applied_later : forall m m' e,
  (forall c, ss_le (sm_get c m) (sm_get c m')) ->
  0 < s_index e ->
  prefilter m e = true -> is_already_applied m' e = true.
Proof.
  unfold prefilter, is_already_applied; intros m m' e Hle Hpos H.
  specialize (Hle (s_cluster e)).
  destruct (sm_get (s_cluster e) m) as [o|]; destruct (sm_get (s_cluster e) m') as [o'|]; cbn in *; try lia.
Qed.

Lemma prefilter_sound : forall st l e,
  0 < s_index e ->
  prefilter (r_synced st) e = true ->
  apply_entry (apply_log st l) (LSync e) = apply_log st l.
Proof.
  intros st l e Hpos H; cbn [apply_entry].
  rewrite (prefilter_applied_later (r_synced st) (r_synced (apply_log st l)) e); auto.
  intro c; apply (apply_log_mono l st c).
Qed.

(* ---------- the replica refines its own log; restart commutes ---------- *)

Lemma apply_log_app : forall a b st, apply_log st (a ++ b) = apply_log (apply_log st a) b.
Proof. intros; unfold apply_log; apply fold_left_app. Qed.

Definition node_inv (nd : node) : Prop :=
  n_cur nd = apply_log init_r (n_log nd) /\
  match n_snap nd with
  | None => True
  | Some (k, s) => (k <= length (n_log nd))%nat /\ s = apply_log init_r (firstn k (n_log nd))
  end.

Lemma node_inv_init : node_inv init_node.
Proof. split; cbn; auto. Qed.

Lemma snap_stable : forall (l ext : list lentry) k, (k <= length l)%nat -> firstn k (l ++ ext) = firstn k l.
Proof.
  intros l ext k H. rewrite firstn_app. replace (k - length l)%nat with 0%nat by lia. cbn. apply app_nil_r.
Qed.

Lemma commit_n_inv : forall nd k, node_inv nd -> node_inv (commit_n nd k).
Proof.
  intros nd k [Hc Hs]; unfold commit_n; split; cbn.
  - rewrite apply_log_app, <- Hc; reflexivity.
  - destruct (n_snap nd) as [[j s]|]; [|exact I]. destruct Hs as [Hj Hs]. split.
    + rewrite app_length; lia.
    + rewrite snap_stable by exact Hj. exact Hs.
Qed.

Lemma restore_replay : forall nd, node_inv nd ->
  apply_log (snd (restore nd)) (skipn (fst (restore nd)) (n_log nd)) = n_cur nd.
Proof.
  intros nd [Hc Hs]; unfold restore. destruct (n_snap nd) as [[k s]|]; cbn.
  - destruct Hs as [_ ->]. rewrite <- apply_log_app, firstn_skipn. now rewrite Hc.
  - now rewrite Hc.
Qed.

Lemma step0_inv : forall nd o, node_inv nd -> node_inv (fst (step0 nd o)).
Proof.
  intros nd o H; pose proof H as [Hc Hs]; destruct o as [e tsok propok pre|n| |p| | |b|c t i|c t i content|c t i|c|o'|bd|back]; cbn; [| | | | | | | | | | |exact H|exact H|].
  - destruct (pre && prefilter (r_synced (n_cur nd)) e); [exact H|].
    destruct (negb tsok); [exact H|]. destruct (negb propok); [exact H|]. split; cbn; assumption.
  - destruct (Nat.min n (length (n_pending nd))) eqn:E; [exact H|]. apply commit_n_inv; exact H.
  - destruct (n_pending nd); [exact H|]. split; cbn; assumption.
  - split; cbn.
    + rewrite apply_log_app, <- Hc. reflexivity.
    + destruct (n_snap nd) as [[j s]|]; [|exact I]. destruct Hs as [Hj Hs]. split.
      * rewrite app_length; cbn; lia.
      * rewrite snap_stable by exact Hj. exact Hs.
  - split; cbn; [exact Hc|]. split; [lia|]. rewrite firstn_all. exact Hc.
  - pose proof (restore_replay nd H) as R. destruct (restore nd) as [k s] eqn:ER; cbn in *.
    split; cbn; [rewrite R; exact Hc|exact Hs].
  - destruct (rpc_collect (r_synced (n_cur nd)) b) as [l ok] eqn:ER; cbn.
    apply commit_n_inv. split; cbn; assumption.
  - destruct (add_applying (n_snaps nd) c t i) as [m added].
    destruct (negb added && _); [exact H|split; cbn; assumption].
  - destruct (snm_get c (n_snaps nd)) as [o|]; [|exact H].
    destruct (negb (same_snap o t i)); [exact H|].
    destruct (negb (sn_status o =? apply_snap_transferred)); [exact H|split; cbn; assumption].
  - split; cbn; assumption.
  - split; cbn; assumption.
  - destruct (back <=? length (n_log nd))%nat; [|exact H]. split; cbn; [exact Hc|].
    split; [lia|reflexivity].
Qed.

Lemma step_not_rpc : forall nd o, (forall o', o <> OSnapRpc o') -> step nd o = step0 nd o.
Proof. intros nd o H; destruct o; try reflexivity. exfalso; eapply H; reflexivity. Qed.

Lemma step_inv : forall nd o, node_inv nd -> node_inv (fst (step nd o)).
Proof.
  intros nd o H. destruct o; try (apply step0_inv; exact H).
  cbn [step]. destruct (snap_req_pos o) as [[[c t] i]|]; [|exact H].
  destruct (prefilter _ _); [exact H|].
  pose proof (step0_inv nd o H) as H1. destruct (step0 nd o) as [nd1 r]; cbn [fst] in H1.
  destruct r; cbn [fst]; try exact H1. now apply commit_n_inv.
Qed.

Lemma run_snoc : forall ops o, run (ops ++ [o]) = fst (step (run ops) o).
Proof. intros; unfold run; rewrite fold_left_app; reflexivity. Qed.

Lemma run_inv : forall ops, node_inv (run ops).
Proof.
  intros ops; induction ops as [|o ops IH] using rev_ind; [exact node_inv_init|].
  rewrite run_snoc. apply step_inv; exact IH.
Qed.

(* the in-memory state always equals the committed log applied from scratch *)
Theorem run_refines_log : forall ops, n_cur (run ops) = apply_log init_r (n_log (run ops)).
Proof. intro ops; apply (run_inv ops). Qed.

(* a restart (restore newest snapshot or nothing, replay the tail through the same filter) reproduces
   exactly the state before the restart, data and every synced position; the log is untouched *)
Theorem restart_commutes : forall ops,
  n_cur (run (ops ++ [ORestart])) = n_cur (run ops) /\ n_log (run (ops ++ [ORestart])) = n_log (run ops).
Proof.
  intro ops; rewrite run_snoc. pose proof (restore_replay (run ops) (run_inv ops)) as R.
  cbn. destruct (restore (run ops)) as [k s]; cbn in *. split; [exact R|reflexivity].
Qed.

(* a snapshot followed (any time later) by a restart: the snapshot's own content is what was current *)
Theorem snapshot_is_current : forall ops,
  n_snap (run (ops ++ [OSnap])) = Some (length (n_log (run ops)), n_cur (run ops)).
Proof. intro ops; rewrite run_snoc; reflexivity. Qed.

(* the log only grows at the end, except that nothing ever removes from it *)
Lemma step0_log_ext : forall nd o, exists ext, n_log (fst (step0 nd o)) = n_log nd ++ ext /\
  n_cur (fst (step0 nd o)) = apply_log (n_cur nd) ext \/
  (n_log (fst (step0 nd o)) = n_log nd ++ ext /\ ext = [] /\ o = ORestart).
Proof.
  intros nd o; destruct o as [e tsok propok pre|n| |p| | |b|c t i|c t i content|c t i|c|o'|bd|back]; cbn; [| | | | | | | | | | |exists []; left; now rewrite app_nil_r|exists []; left; now rewrite app_nil_r|].
  - exists []. left. destruct (pre && prefilter (r_synced (n_cur nd)) e); [now rewrite app_nil_r|].
    destruct (negb tsok); [now rewrite app_nil_r|]. destruct (negb propok); now rewrite app_nil_r.
  - destruct (Nat.min n (length (n_pending nd))) eqn:E.
    + exists []; left; now rewrite app_nil_r.
    + eexists; left; cbn; split; reflexivity.
  - exists []; left. destruct (n_pending nd); now rewrite app_nil_r.
  - eexists; left; cbn; split; reflexivity.
  - exists []; left; now rewrite app_nil_r.
  - exists []; right. destruct (restore nd); cbn. now rewrite app_nil_r.
  - destruct (rpc_collect (r_synced (n_cur nd)) b) as [l ok]; cbn. eexists; left; split; reflexivity.
  - exists []; left. destruct (add_applying (n_snaps nd) c t i) as [m added].
    destruct (negb added && _); now rewrite app_nil_r.
  - exists []; left. destruct (snm_get c (n_snaps nd)) as [o|]; [|now rewrite app_nil_r].
    destruct (negb (same_snap o t i)); [now rewrite app_nil_r|].
    destruct (negb (sn_status o =? apply_snap_transferred)); now rewrite app_nil_r.
  - exists []; left; now rewrite app_nil_r.
  - exists []; left; now rewrite app_nil_r.
  - exists []; left. destruct (back <=? length (n_log nd))%nat; now rewrite app_nil_r.
Qed.

Lemma step_log_ext : forall nd o, exists ext, n_log (fst (step nd o)) = n_log nd ++ ext /\
  n_cur (fst (step nd o)) = apply_log (n_cur nd) ext \/
  (n_log (fst (step nd o)) = n_log nd ++ ext /\ ext = [] /\ o = ORestart).
Proof.
  intros nd o. destruct o; try apply step0_log_ext.
  cbn [step]. destruct (snap_req_pos o) as [[[c t] i]|] eqn:EP; [|exists []; left; now rewrite app_nil_r].
  destruct (prefilter _ _); [exists []; left; now rewrite app_nil_r|].
  destruct (step0_log_ext nd o) as [ext1 [[Hl Hc]|[_ [_ ->]]]]; [|discriminate].
  destruct (step0 nd o) as [nd1 r]; cbn [fst] in *.
  destruct r; cbn [fst]; try (exists ext1; left; split; assumption).
  eexists; left; split; cbn.
  - rewrite Hl, <- app_assoc. reflexivity.
  - rewrite Hc, <- apply_log_app. reflexivity.
Qed.

(* over every schedule and every next step, no cluster's recorded position moves backwards *)
Theorem synced_monotone : forall ops o c,
  ss_le (synced_of (n_cur (run ops)) c) (synced_of (n_cur (run (ops ++ [o]))) c).
Proof.
  intros ops o c. destruct (step_log_ext (run ops) o) as [ext [[_ Hc]|[_ [_ ->]]]].
  - rewrite run_snoc, Hc. apply apply_log_mono.
  - destruct (restart_commutes ops) as [-> _]. apply ss_le_refl.
Qed.

Corollary synced_monotone_many : forall ops ops' c,
  ss_le (synced_of (n_cur (run ops)) c) (synced_of (n_cur (run (ops ++ ops'))) c).
Proof.
  intros ops ops' c; induction ops' as [|o ops' IH] using rev_ind.
  - rewrite app_nil_r; apply ss_le_refl.
  - rewrite app_assoc. eapply ss_le_trans; [exact IH|apply synced_monotone].
Qed.

(* ====================================================================================== *)
(* ---------- exactly once ---------- *)

Definition entry_cluster (le : lentry) : option N :=
  match le with
  | LSync e | LXfer e | LSnap e _ | LSkip e => Some (s_cluster e)
  | LLocal _ _ => None
  end.

(* what reaches the apply loop on behalf of source cluster c, in local log order *)
Definition deliveries (c : N) (l : list lentry) : list lentry :=
  filter (fun le => match entry_cluster le with Some k => k =? c | None => false end) l.

(* local client writes do not write the keys replicated from cluster c (tag 0 is the receiver's own) *)
Definition no_local_tag (c : N) (l : list lentry) : Prop :=
  Forall (fun le => match le with LLocal t _ => t <> c | _ => True end) l.

(* a remote snapshot replaces the WHOLE store: the statements about cluster c's data assume that no other
   cluster's snapshot is installed on this replica (a receiver has one snapshot source) *)
Definition no_foreign_snap (c : N) (l : list lentry) : Prop :=
  Forall (fun le => match le with LSnap e (Some _) => s_cluster e = c | _ => True end) l.

(* well-formed source log: a raft log — indices strictly increasing and positive, terms non-decreasing *)
Definition src_lt (a b : sentry) : Prop := s_index a < s_index b /\ s_term a <= s_term b.
Definition wf_source (c : N) (src : list sentry) : Prop :=
  Forall (fun e => s_cluster e = c /\ 0 < s_index e) src /\ StronglySorted src_lt src.

(* same raft position *)
Definition same_pos (e x : sentry) : Prop := s_term e = s_term x /\ s_index e = s_index x.

(* what a checkpoint of the source taken at its (n+1)-th entry holds *)
Definition src_snapshot (c : N) (src : list sentry) (n : nat) : journal :=
  map (fun x => (c, s_payload x)) (firstn (S n) src).

(* the delivery sequence follows the source: every delivered entry is one of the first k (a duplicate / stale
   re-send / overlap) or exactly the next one; a snapshot request is stale, or fails (no checkpoint), or
   installs the source's own state at one of its positions not behind k; transfer requests are free;
   k counts the source entries covered so far *)
Inductive Follows (c : N) (src : list sentry) : nat -> list lentry -> nat -> Prop :=
| F_nil : forall k, Follows c src k [] k
| F_old : forall k j e r k', nth_error src j = Some e -> (j < k)%nat ->
    Follows c src k r k' -> Follows c src k (LSync e :: r) k'
| F_next : forall k e r k', nth_error src k = Some e ->
    Follows c src (S k) r k' -> Follows c src k (LSync e :: r) k'
| F_xfer : forall k e r k', Follows c src k r k' -> Follows c src k (LXfer e :: r) k'
| F_snap_fail : forall k e r k', Follows c src k r k' -> Follows c src k (LSnap e None :: r) k'
| F_snap_old : forall k j e x content r k', nth_error src j = Some x -> same_pos e x -> (j < k)%nat ->
    Follows c src k r k' -> Follows c src k (LSnap e content :: r) k'
| F_snap : forall k j e x r k', nth_error src j = Some x -> same_pos e x -> s_cluster e = c -> (k <= j)%nat ->
    Follows c src (S j) r k' -> Follows c src k (LSnap e (Some (src_snapshot c src j)) :: r) k'
| F_skip_old : forall k j e x r k', nth_error src j = Some x -> same_pos e x -> (j < k)%nat ->
    Follows c src k r k' -> Follows c src k (LSkip e :: r) k'.

Definition pos_eq (o : sstate) (e : sentry) : Prop := ss_term o = s_term e /\ ss_index o = s_index e.

(* position recorded for the cluster = raft position of the k-th source entry (nothing when k = 0) *)
Definition synced_at (src : list sentry) (k : nat) (o : option sstate) : Prop :=
  match k with
  | O => o = None
  | S j => exists e o', nth_error src j = Some e /\ o = Some o' /\ pos_eq o' e
  end.

Definition Inv (c : N) (src : list sentry) (k : nat) (st : rstate) : Prop :=
  proj c (r_journal st) = map s_payload (firstn k src) /\ synced_at src k (synced_of st c).

Lemma proj_app : forall c a b, proj c (a ++ b) = proj c a ++ proj c b.
Proof. intros; unfold proj; now rewrite filter_app, map_app. Qed.

Lemma proj_one_same : forall c p, proj c [(c, p)] = [p].
Proof. intros; unfold proj; cbn; now rewrite N.eqb_refl. Qed.

Lemma proj_one_other : forall c t p, t <> c -> proj c [(t, p)] = [].
Proof. intros c t p H; unfold proj; cbn. destruct (t =? c) eqn:E; [apply N.eqb_eq in E; contradiction|reflexivity]. Qed.

Lemma proj_tagged : forall c (l : list sentry), proj c (map (fun x => (c, s_payload x)) l) = map s_payload l.
Proof.
  intros c l; induction l as [|x r IH]; [reflexivity|].
  change (map (fun x0 => (c, s_payload x0)) (x :: r)) with ([(c, s_payload x)] ++ map (fun x0 => (c, s_payload x0)) r).
  rewrite proj_app, proj_one_same, IH. reflexivity.
Qed.

Lemma sorted_nth_lt : forall (src : list sentry) i j a b,
  StronglySorted src_lt src -> nth_error src i = Some a -> nth_error src j = Some b -> (i < j)%nat -> src_lt a b.
Proof.
  induction src as [|x r IH]; intros i j a b Hs Ha Hb Hij; [destruct i; discriminate|].
  inversion Hs as [|? ? Hs' Hall]; subst.
  destruct j as [|j]; [lia|]. destruct i as [|i]; cbn in *.
  - inversion Ha; subst. rewrite Forall_forall in Hall. apply Hall. eapply nth_error_In; eauto.
  - eapply IH; eauto; lia.
Qed.

Lemma firstn_S_nth : forall (A : Type) (l : list A) k x, nth_error l k = Some x -> firstn (S k) l = firstn k l ++ [x].
Proof.
  intros A l; induction l as [|y r IH]; intros k x H; [destruct k; discriminate|].
  destruct k as [|k]; cbn in *; [now inversion H|]. f_equal. now apply IH.
Qed.

Lemma wf_nth : forall c src j e, wf_source c src -> nth_error src j = Some e -> s_cluster e = c /\ 0 < s_index e.
Proof.
  intros c src j e [Hf _] H. rewrite Forall_forall in Hf. apply Hf. eapply nth_error_In; eauto.
Qed.

(* the filter only looks at cluster, term and index *)
Lemma filter_same_pos : forall m e x, s_cluster e = s_cluster x -> same_pos e x ->
  is_already_applied m e = is_already_applied m x.
Proof. intros m e x Hc [Ht Hi]; unfold is_already_applied. now rewrite Hc, Ht, Hi. Qed.

(* something at an old position is filtered *)
Lemma old_is_filtered : forall c src k st j e,
  wf_source c src -> Inv c src k st -> nth_error src j = Some e -> (j < k)%nat ->
  is_already_applied (r_synced st) e = true.
Proof.
  intros c src k st j e Hwf [_ Hs] Hj Hlt. destruct k as [|k]; [lia|].
  destruct Hs as [ek [o' [Hk [Hsy [Ht Hi]]]]]. unfold is_already_applied.
  destruct (wf_nth _ _ _ _ Hwf Hj) as [Hc _]. rewrite Hc. unfold synced_of in Hsy. rewrite Hsy.
  destruct (Nat.eq_dec j k) as [->|Hne].
  - rewrite Hj in Hk; inversion Hk; subst. lia.
  - assert (src_lt e ek) as [H1 H2] by (eapply sorted_nth_lt; [apply Hwf|eauto|eauto|lia]). lia.
Qed.

(* something at a position not behind k is accepted *)
Lemma ahead_not_filtered : forall c src k st j e,
  wf_source c src -> Inv c src k st -> nth_error src j = Some e -> (k <= j)%nat ->
  is_already_applied (r_synced st) e = false.
Proof.
  intros c src k st j e Hwf [_ Hs] Hj Hle. destruct (wf_nth _ _ _ _ Hwf Hj) as [Hc Hpos].
  unfold is_already_applied. rewrite Hc. destruct k as [|k]; cbn in Hs; unfold synced_of in Hs.
  - now rewrite Hs.
  - destruct Hs as [ek [o' [Hek [Hsy [Ht Hi]]]]]. rewrite Hsy.
    assert (src_lt ek e) as [H1 H2] by (eapply sorted_nth_lt; [apply Hwf|eauto|eauto|lia]). lia.
Qed.

Lemma postprocess_records : forall m e, 0 < s_index e ->
  exists o', sm_get (s_cluster e) (postprocess m e) = Some o' /\ pos_eq o' e.
Proof.
  intros m e Hpos. exists (pos_of e). split; [|split; reflexivity].
  apply postprocess_get_same. destruct (s_index e =? 0) eqn:Z; [lia|]. now rewrite andb_false_r.
Qed.

(* the next entry is accepted and moves the invariant forward *)
Lemma next_is_applied : forall c src k st e,
  wf_source c src -> Inv c src k st -> nth_error src k = Some e ->
  is_already_applied (r_synced st) e = false /\ Inv c src (S k) (apply_entry st (LSync e)).
Proof.
  intros c src k st e Hwf HI Hk. destruct (wf_nth _ _ _ _ Hwf Hk) as [Hc Hpos].
  assert (F : is_already_applied (r_synced st) e = false) by (eapply ahead_not_filtered; eauto).
  destruct HI as [Hj Hs].
  split; [exact F|]. cbn [apply_entry]. rewrite F. split; cbn [r_journal r_synced].
  - unfold sm_apply. rewrite proj_app, Hj, Hc, proj_one_same. rewrite (firstn_S_nth _ _ _ _ Hk), map_app. reflexivity.
  - cbn. destruct (postprocess_records (r_synced st) e Hpos) as [o' [Hg Hp]].
    exists e, o'. split; [exact Hk|]. split; [|exact Hp]. unfold synced_of; cbn [r_synced]. now rewrite <- Hc.
Qed.

(* a snapshot of the source at position j (not behind k) is installed and covers the first j+1 entries *)
Lemma snap_is_installed : forall c src k st j e x,
  wf_source c src -> Inv c src k st -> nth_error src j = Some x -> same_pos e x -> s_cluster e = c -> (k <= j)%nat ->
  Inv c src (S j) (apply_entry st (LSnap e (Some (src_snapshot c src j)))).
Proof.
  intros c src k st j e x Hwf HI Hj Hsp Hce Hle. destruct (wf_nth _ _ _ _ Hwf Hj) as [Hc Hpos].
  assert (F : is_already_applied (r_synced st) e = false).
  { rewrite (filter_same_pos _ e x); [eapply ahead_not_filtered; eauto|congruence|exact Hsp]. }
  cbn [apply_entry]. rewrite F. split; cbn [r_journal r_synced].
  - unfold src_snapshot. apply proj_tagged.
  - cbn. destruct Hsp as [Ht Hi].
    destruct (postprocess_records (r_synced st) e ltac:(lia)) as [o' [Hg [Hp1 Hp2]]].
    exists x, o'. split; [exact Hj|]. split; [|split; congruence].
    unfold synced_of; cbn [r_synced]. now rewrite <- Hce.
Qed.

Lemma other_cluster_keeps : forall c src k st le k0,
  entry_cluster le = Some k0 -> k0 <> c ->
  match le with LSnap _ (Some _) => False | _ => True end ->
  Inv c src k st -> Inv c src k (apply_entry st le).
Proof.
  intros c src k st le k0 Hk Hne Hns [Hj Hs].
  destruct le as [e|t p|e|e content|e]; cbn in Hk; inversion Hk; subst; cbn [apply_entry].
  - destruct (is_already_applied (r_synced st) e); [split; assumption|].
    split; cbn [r_journal r_synced].
    + unfold sm_apply. rewrite proj_app, proj_one_other by exact Hne. now rewrite app_nil_r.
    + unfold synced_of in *; cbn [r_synced]. rewrite postprocess_get_other by (intro X; apply Hne; now symmetry). exact Hs.
  - split; assumption.
  - destruct (is_already_applied (r_synced st) e); [split; assumption|].
    destruct content; [contradiction|split; assumption].
  - destruct (is_already_applied (r_synced st) e); [split; assumption|].
    split; cbn [r_journal r_synced]; [exact Hj|].
    unfold synced_of in *; cbn [r_synced]. rewrite postprocess_get_other by (intro X; apply Hne; now symmetry). exact Hs.
Qed.

Lemma local_keeps : forall c src k st t p, t <> c -> Inv c src k st -> Inv c src k (apply_entry st (LLocal t p)).
Proof.
  intros c src k st t p Hne [Hj Hs]. split; cbn [apply_entry r_journal r_synced].
  - unfold sm_apply. rewrite proj_app, proj_one_other by exact Hne. now rewrite app_nil_r.
  - exact Hs.
Qed.

Lemma deliveries_cons : forall c le l,
  deliveries c (le :: l) =
  (if match entry_cluster le with Some k => k =? c | None => false end then [le] else []) ++ deliveries c l.
Proof.
  intros c le l; unfold deliveries; cbn [filter].
  destruct (match entry_cluster le with Some k => k =? c | None => false end); reflexivity.
Qed.

Lemma replay_step : forall c src l st k k',
  wf_source c src -> no_local_tag c l -> no_foreign_snap c l -> Inv c src k st ->
  Follows c src k (deliveries c l) k' ->
  Inv c src k' (apply_log st l).
Proof.
  intros c src l; induction l as [|le l IH]; intros st k k' Hwf Hnl Hfs HI HF.
  - cbn in HF. inversion HF; subst. exact HI.
  - rewrite apply_log_cons. inversion Hnl as [|? ? Hle Hnl']; subst. inversion Hfs as [|? ? Hfe Hfs']; subst.
    rewrite deliveries_cons in HF.
    destruct (entry_cluster le) as [k0|] eqn:EC.
    + destruct (k0 =? c) eqn:E.
      * apply N.eqb_eq in E; subst k0. cbn [app] in HF.
        inversion HF as [|? j e ? ? Hj Hlt HF'|? e ? ? Hk HF'|? e ? ? HF'|? e ? ? HF'
                         |? j e x content ? ? Hj Hsp Hlt HF'|? j e x ? ? Hj Hsp Hce Hle' HF'|? j e x ? ? Hj Hsp Hlt HF']; subst.
        -- assert (Hf := old_is_filtered _ _ _ _ _ _ Hwf HI Hj Hlt).
           cbn [apply_entry]. rewrite Hf. eapply IH; eauto.
        -- destruct (next_is_applied _ _ _ _ _ Hwf HI Hk) as [_ HI']. eapply IH; eauto.
        -- cbn [apply_entry]. eapply IH; eauto.
        -- cbn [apply_entry]. destruct (is_already_applied (r_synced st) e); eapply IH; eauto.
        -- assert (Hf : is_already_applied (r_synced st) e = true).
           { cbn in EC. inversion EC as [Hce]. destruct (wf_nth _ _ _ _ Hwf Hj) as [Hcx _].
             rewrite (filter_same_pos _ e x); [eapply old_is_filtered; eauto|congruence|exact Hsp]. }
           cbn [apply_entry]. rewrite Hf. eapply IH; eauto.
        -- eapply IH; eauto. eapply snap_is_installed; eauto.
        -- assert (Hf : is_already_applied (r_synced st) e = true).
           { cbn in EC. inversion EC as [Hce]. destruct (wf_nth _ _ _ _ Hwf Hj) as [Hcx _].
             rewrite (filter_same_pos _ e x); [eapply old_is_filtered; eauto|congruence|exact Hsp]. }
           cbn [apply_entry]. rewrite Hf. eapply IH; eauto.
      * apply N.eqb_neq in E. cbn [app] in HF. eapply IH; eauto.
        eapply other_cluster_keeps; eauto.
        destruct le as [e|t p|e|e [j|]|e]; try exact I. cbn in EC. inversion EC as [Hk0]. apply E. rewrite <- Hk0. exact Hfe.
    + cbn [app] in HF. destruct le as [e|t p|e|e content|e]; cbn in EC; try discriminate.
      eapply IH; eauto. now apply local_keeps.
Qed.

Lemma Inv_init : forall c src, Inv c src 0 init_r.
Proof. intros; split; reflexivity. Qed.

(* replay_idempotent: over ALL local logs whose deliveries from c follow the source (with any duplicates, stale
   re-sends, overlaps, failed and repeated snapshot requests), the data replicated from c is exactly the first k
   source entries, each once and in order, and the recorded position is the k-th entry's (none for k = 0) *)
Theorem replay_idempotent_log : forall c src l k,
  wf_source c src -> no_local_tag c l -> no_foreign_snap c l -> Follows c src 0 (deliveries c l) k ->
  Inv c src k (apply_log init_r l).
Proof. intros; eapply replay_step; eauto using Inv_init. Qed.

(* the replica's own local writes carry tag 0; in-flight proposals are never local writes *)
Definition tags_ok (nd : node) : Prop :=
  Forall (fun le => match le with LLocal t _ => t = 0 | _ => True end) (n_log nd) /\
  Forall (fun le => match le with LLocal _ _ => False | _ => True end) (n_pending nd).

Lemma sync_only_weaken : forall l,
  Forall (fun le => match le with LLocal _ _ => False | _ => True end) l ->
  Forall (fun le => match le with LLocal t _ => t = 0 | _ => True end) l.
Proof. intros l H; eapply Forall_impl; [|exact H]. intros [e|t p|e|e content|e]; tauto. Qed.

Lemma Forall_firstn : forall (A : Type) (P : A -> Prop) k l, Forall P l -> Forall P (firstn k l).
Proof.
  intros A P k; induction k as [|k IH]; intros l H; cbn; [constructor|].
  destruct l; [constructor|]. inversion H; subst. constructor; auto.
Qed.
Lemma Forall_skipn : forall (A : Type) (P : A -> Prop) k l, Forall P l -> Forall P (skipn k l).
Proof.
  intros A P k; induction k as [|k IH]; intros l H; cbn; [exact H|].
  destruct l; [constructor|]. inversion H; subst. auto.
Qed.

Lemma rpc_collect_sync : forall m b,
  Forall (fun le => match le with LLocal _ _ => False | _ => True end) (fst (rpc_collect m b)).
Proof.
  intros m b; induction b as [|[e tsok] r IH]; cbn; [constructor|].
  destruct (prefilter m e); [exact IH|]. destruct (negb tsok); cbn; [constructor|].
  destruct (rpc_collect m r) as [l ok]; cbn in *. constructor; auto.
Qed.

Lemma commit_n_tags : forall nd k, tags_ok nd -> tags_ok (commit_n nd k).
Proof.
  intros nd k [Hl Hp]; split; cbn.
  - apply Forall_app; split; [exact Hl|]. apply sync_only_weaken. now apply Forall_firstn.
  - now apply Forall_skipn.
Qed.

Lemma snoc_pending_tags : forall nd m le, tags_ok nd ->
  match le with LLocal _ _ => False | _ => True end ->
  tags_ok (with_pending (with_snaps nd m) (n_pending nd ++ [le])).
Proof.
  intros nd m le [Hl Hp] Hle; split; cbn; [exact Hl|].
  apply Forall_app; split; [exact Hp|]. constructor; [exact Hle|constructor].
Qed.

Lemma step0_tags : forall nd o, tags_ok nd -> tags_ok (fst (step0 nd o)).
Proof.
  intros nd o H; pose proof H as [Hl Hp]; destruct o as [e tsok propok pre|n| |p| | |b|c t i|c t i content|c t i|c|o'|bd|back]; cbn; [| | | | | | | | | | |exact H|exact H|].
  - destruct (pre && prefilter (r_synced (n_cur nd)) e); [exact H|].
    destruct (negb tsok); [exact H|]. destruct (negb propok); [exact H|]. split; cbn; [exact Hl|].
    apply Forall_app; split; [exact Hp|]. constructor; [exact I|constructor].
  - destruct (Nat.min n (length (n_pending nd))); [exact H|]. now apply commit_n_tags.
  - destruct (n_pending nd) as [|x r] eqn:E; [exact H|]. split; cbn; [exact Hl|]. now inversion Hp.
  - split; cbn; [|exact Hp]. apply Forall_app; split; [exact Hl|]. constructor; [reflexivity|constructor].
  - exact H.
  - destruct (restore nd); cbn. split; cbn; [exact Hl|constructor].
  - pose proof (rpc_collect_sync (r_synced (n_cur nd)) b) as Hr.
    destruct (rpc_collect (r_synced (n_cur nd)) b) as [l ok]; cbn in *.
    apply commit_n_tags. split; cbn; [exact Hl|]. apply Forall_app; split; assumption.
  - destruct (add_applying (n_snaps nd) c t i) as [m added].
    destruct (negb added && _); [exact H|]. now apply snoc_pending_tags.
  - destruct (snm_get c (n_snaps nd)) as [o|]; [|exact H].
    destruct (negb (same_snap o t i)); [exact H|].
    destruct (negb (sn_status o =? apply_snap_transferred)); [exact H|]. now apply snoc_pending_tags.
  - split; cbn; [exact Hl|]. apply Forall_app; split; [exact Hp|]. constructor; [exact I|constructor].
  - exact H.
  - destruct (back <=? length (n_log nd))%nat; exact H.
Qed.

Lemma step_tags : forall nd o, tags_ok nd -> tags_ok (fst (step nd o)).
Proof.
  intros nd o H. destruct o; try (apply step0_tags; exact H).
  cbn [step]. destruct (snap_req_pos o) as [[[c t] i]|]; [|exact H].
  destruct (prefilter _ _); [exact H|].
  pose proof (step0_tags nd o H) as H1. destruct (step0 nd o) as [nd1 r]; cbn [fst] in H1.
  destruct r; cbn [fst]; try exact H1. now apply commit_n_tags.
Qed.

Lemma run_tags : forall ops, tags_ok (run ops).
Proof.
  intros ops; induction ops as [|o ops IH] using rev_ind; [split; constructor|].
  rewrite run_snoc. now apply step_tags.
Qed.

Lemma run_no_local_tag : forall ops c, c <> 0 -> no_local_tag c (n_log (run ops)).
Proof.
  intros ops c Hc. destruct (run_tags ops) as [Hl _]. eapply Forall_impl; [|exact Hl].
  intros [e|t p|e|e content|e]; try tauto. intros ->. intro X; apply Hc; now symmetry.
Qed.

(* the same over ALL schedules of the replica: deliveries with or without pre-filter, failed and lost
   proposals, batched commits, local writes, snapshots and restarts anywhere, remote snapshot requests *)
Theorem replay_idempotent : forall ops c src k,
  c <> 0 -> wf_source c src ->
  no_foreign_snap c (n_log (run ops)) ->
  Follows c src 0 (deliveries c (n_log (run ops))) k ->
  Inv c src k (n_cur (run ops)).
Proof.
  intros ops c src k Hc Hwf Hfs HF. rewrite run_refines_log.
  apply replay_idempotent_log; auto. now apply run_no_local_tag.
Qed.

(* data of the source = its log applied as ordinary writes *)
Lemma source_proj_gen : forall c src st,
  proj c (r_journal (apply_log st (map (fun e => LLocal c (s_payload e)) src))) =
  proj c (r_journal st) ++ map s_payload src.
Proof.
  intros c src; induction src as [|e r IH]; intro st; cbn [map].
  - rewrite apply_log_nil. now rewrite app_nil_r.
  - rewrite apply_log_cons, IH. cbn [apply_entry r_journal]. unfold sm_apply. rewrite proj_app, proj_one_same, <- app_assoc. reflexivity.
Qed.

Lemma source_proj : forall c src, proj c (r_journal (source_state c src)) = map s_payload src.
Proof. intros; unfold source_state. now rewrite source_proj_gen. Qed.

(* once every source entry has been covered in this discipline, the replicated data IS the source's data *)
Corollary replay_equals_source : forall ops c src,
  c <> 0 -> wf_source c src ->
  no_foreign_snap c (n_log (run ops)) ->
  Follows c src 0 (deliveries c (n_log (run ops))) (length src) ->
  proj c (r_journal (n_cur (run ops))) = proj c (r_journal (source_state c src)).
Proof.
  intros ops c src Hc Hwf Hfs HF. destruct (replay_idempotent ops c src _ Hc Hwf Hfs HF) as [Hj _].
  rewrite Hj, firstn_all, source_proj. reflexivity.
Qed.

(* ---------- failed and ignored applications; retries ---------- *)

(* an entry that is filtered, a transfer request, and a snapshot apply that cannot restore (no usable
   checkpoint) leave the store AND every recorded position exactly as they were *)
Theorem ignored_or_failed_no_advance : forall st le,
  match le with
  | LSync e | LSkip e => is_already_applied (r_synced st) e = true
  | LSnap e content => is_already_applied (r_synced st) e = true \/ content = None
  | LXfer _ => True
  | LLocal _ _ => False
  end -> apply_entry st le = st.
Proof.
  intros st [e|t p|e|e content|e] H; cbn [apply_entry]; try contradiction; try reflexivity.
  - now rewrite H.
  - destruct H as [H| ->]; [now rewrite H|]. destruct (is_already_applied (r_synced st) e); reflexivity.
  - now rewrite H.
Qed.

(* a retry after a failed snapshot apply is applied, and exactly once: the failure changed nothing, the retry with
   the checkpoint installs it, every later repetition is filtered *)
Theorem snap_retry_once : forall st e j reps,
  0 < s_index e -> is_already_applied (r_synced st) e = false ->
  let st1 := apply_entry (apply_entry st (LSnap e None)) (LSnap e (Some j)) in
  r_journal st1 = j /\
  (exists o', synced_of st1 (s_cluster e) = Some o' /\ pos_eq o' e) /\
  apply_log st1 (map (fun content => LSnap e content) reps) = st1.
Proof.
  intros st e j reps Hpos F st1.
  assert (E0 : apply_entry st (LSnap e None) = st) by (cbn [apply_entry]; now rewrite F).
  assert (E1 : st1 = mkR j (postprocess (r_synced st) e)).
  { unfold st1. rewrite E0. cbn [apply_entry]. now rewrite F. }
  destruct (postprocess_records (r_synced st) e Hpos) as [o' [Hg [Hp1 Hp2]]].
  split; [now rewrite E1|]. split.
  - exists o'. split; [|split; assumption]. rewrite E1. exact Hg.
  - assert (Ff : is_already_applied (r_synced st1) e = true).
    { rewrite E1; cbn [r_synced]. unfold is_already_applied. rewrite Hg. lia. }
    clear E1. induction reps as [|content reps IH]; [reflexivity|].
    cbn [map]. rewrite apply_log_cons. cbn [apply_entry]. rewrite Ff. exact IH.
Qed.

(* ---------- position recorded only after the effect ---------- *)

Lemma apply_phases_last : forall st le, last (apply_phases st le) st = apply_entry st le.
Proof.
  intros st [e|t p|e|e content|e]; cbn; try reflexivity.
  - destruct (is_already_applied (r_synced st) e); reflexivity.
  - destruct (is_already_applied (r_synced st) e); [reflexivity|]. destruct content; reflexivity.
  - destruct (is_already_applied (r_synced st) e); reflexivity.
Qed.

(* unconditionally: in every state the apply loop passes through while handling an entry, if the synced map
   already differs from before the entry, the data is already the data after the entry *)
Theorem position_changes_after_data : forall st le x,
  In x (apply_phases st le) -> r_synced x <> r_synced st -> r_journal x = r_journal (apply_entry st le).
Proof.
  intros st [e|t p|e|e content|e] x; cbn [apply_phases apply_entry].
  - destruct (is_already_applied (r_synced st) e); cbn [In].
    + intros [<-|[]] Hne. reflexivity.
    + intros [<-|[<-|[]]] Hne; cbn [r_journal r_synced] in *; [contradiction|reflexivity].
  - intros [<-|[]] _; reflexivity.
  - intros [<-|[]] _; reflexivity.
  - destruct (is_already_applied (r_synced st) e); cbn [In].
    + intros [<-|[]] Hne. reflexivity.
    + destruct content; cbn [In].
      * intros [<-|[<-|[]]] Hne; cbn [r_journal r_synced] in *; [contradiction|reflexivity].
      * intros [<-|[]] Hne. reflexivity.
  - destruct (is_already_applied (r_synced st) e); cbn [In]; intros [<-|[]] _; reflexivity.
Qed.

Definition prefix_of {A : Type} (a b : list A) : Prop := exists t, b = a ++ t.

(* the recorded position never runs ahead of the applied data *)
Definition covered (c : N) (src : list sentry) (x : rstate) : Prop :=
  exists k, synced_at src k (synced_of x c) /\ prefix_of (map s_payload (firstn k src)) (proj c (r_journal x)).

Lemma Inv_covered : forall c src k st, Inv c src k st -> covered c src st.
Proof. intros c src k st [Hj Hs]; exists k; split; [exact Hs|]. exists []; now rewrite app_nil_r. Qed.

Lemma Follows_app_inv : forall c src a b k k',
  Follows c src k (a ++ b) k' -> exists km, Follows c src k a km /\ Follows c src km b k'.
Proof.
  intros c src a; induction a as [|e a IH]; intros b k k' H; cbn in H.
  - exists k; split; [constructor|exact H].
  - inversion H as [|? j x ? ? Hj Hlt Hr|? x ? ? Hk Hr|? x ? ? Hr|? x ? ? Hr
                    |? j x y content ? ? Hj Hsp Hlt Hr|? j x y ? ? Hj Hsp Hce Hle Hr|? j x y ? ? Hj Hsp Hlt Hr]; subst;
      destruct (IH _ _ _ Hr) as [km [H1 H2]]; exists km; (split; [|exact H2]).
    + eapply F_old; eauto.
    + eapply F_next; eauto.
    + eapply F_xfer; eauto.
    + eapply F_snap_fail; eauto.
    + eapply F_snap_old; eauto.
    + eapply F_snap; eauto.
    + eapply F_skip_old; eauto.
Qed.

Lemma deliveries_app : forall c a b, deliveries c (a ++ b) = deliveries c a ++ deliveries c b.
Proof. intros; unfold deliveries; apply filter_app. Qed.

Lemma firstn_prefix : forall (A : Type) (l : list A) a b, (a <= b)%nat -> prefix_of (firstn a l) (firstn b l).
Proof.
  intros A l a b H. exists (skipn a (firstn b l)).
  pose proof (firstn_skipn a (firstn b l)) as E. rewrite firstn_firstn in E.
  replace (Nat.min a b) with a in E by lia. now symmetry.
Qed.

Lemma prefix_map_firstn : forall (A B : Type) (f : A -> B) (l : list A) a b,
  (a <= b)%nat -> prefix_of (map f (firstn a l)) (map f (firstn b l)).
Proof.
  intros A B f l a b H. destruct (firstn_prefix A l a b H) as [t Ht]. exists (map f t). now rewrite Ht, map_app.
Qed.

Lemma Follows_mono : forall c src k ds k', Follows c src k ds k' -> (k <= k')%nat.
Proof. intros c src k ds k' H; induction H; lia. Qed.

Theorem position_after_effect : forall c src l le k x,
  wf_source c src -> no_local_tag c (l ++ [le]) -> no_foreign_snap c (l ++ [le]) ->
  Follows c src 0 (deliveries c (l ++ [le])) k ->
  In x (apply_phases (apply_log init_r l) le) -> covered c src x.
Proof.
  intros c src l le k x Hwf Hnl Hfs HF Hx.
  rewrite deliveries_app in HF. destruct (Follows_app_inv _ _ _ _ _ _ HF) as [km [H1 H2]].
  apply Forall_app in Hnl. destruct Hnl as [Hnl1 Hnl2].
  apply Forall_app in Hfs. destruct Hfs as [Hfs1 Hfs2].
  assert (HI : Inv c src km (apply_log init_r l)) by (apply replay_idempotent_log; auto).
  set (st := apply_log init_r l) in *.
  assert (HI' : Inv c src k (apply_entry st le)).
  { change (apply_entry st le) with (apply_log st [le]). eapply replay_step; eauto. }
  destruct le as [e|t p|e|e content|e]; cbn [apply_phases] in Hx.
  - destruct (is_already_applied (r_synced st) e) eqn:F.
    + destruct Hx as [<-|[]]. eapply Inv_covered; eauto.
    + destruct Hx as [<-|[<-|[]]].
      * destruct HI as [Hj Hs]. exists km; split; [exact Hs|]. cbn [r_journal]. unfold sm_apply.
        rewrite proj_app, Hj. eexists; reflexivity.
      * cbn [apply_entry] in HI'. rewrite F in HI'. eapply Inv_covered; eauto.
  - destruct Hx as [<-|[]]. cbn in HI'. eapply Inv_covered; eauto.
  - destruct Hx as [<-|[]]. eapply Inv_covered; eauto.
  - destruct (is_already_applied (r_synced st) e) eqn:F.
    + destruct Hx as [<-|[]]. eapply Inv_covered; eauto.
    + destruct content as [j|].
      * destruct Hx as [<-|[<-|[]]].
        -- (* the checkpoint is in place, the position is still the old one: the old prefix is covered *)
           cbn [apply_entry] in HI'. rewrite F in HI'. destruct HI' as [Hj' _]. cbn [r_journal] in Hj'.
           destruct HI as [_ Hs]. exists km; split; [exact Hs|]. cbn [r_journal]. rewrite Hj'.
           apply prefix_map_firstn. eapply Follows_mono; eauto.
        -- cbn [apply_entry] in HI'. rewrite F in HI'. eapply Inv_covered; eauto.
      * destruct Hx as [<-|[]]. eapply Inv_covered; eauto.
  - destruct (is_already_applied (r_synced st) e) eqn:F.
    + destruct Hx as [<-|[]]. eapply Inv_covered; eauto.
    + destruct Hx as [<-|[]]. cbn [apply_entry] in HI'. rewrite F in HI'. eapply Inv_covered; eauto.
Qed.

(* ---------- the unconditional reading of "nothing is skipped" is false of the code ---------- *)

Definition no_skip_unconditional : Prop :=
  forall c src l, wf_source c src -> no_local_tag c l ->
    (forall le, In le l -> exists e, le = LSync e) ->
    (forall e, In e src <-> In (LSync e) (deliveries c l)) ->
    proj c (r_journal (apply_log init_r l)) = map s_payload src.

(* witness: the newer entry commits first (a lost proposal in the middle of a pipelined batch, or a sender
   that jumps ahead); the apply path logs "not continue" and applies it; the older entry is then filtered *)
Definition gap_src : list sentry := [mkS 1 2 5 1005 250; mkS 1 2 6 1006 300].
Definition gap_log : list lentry := [LSync (mkS 1 2 6 1006 300); LSync (mkS 1 2 5 1005 250)].

Lemma no_skip_unconditional_refuted : ~ no_skip_unconditional.
Proof.
  intro H. specialize (H 1 gap_src gap_log).
  assert (Hwf : wf_source 1 gap_src).
  { split; repeat constructor; cbn; try reflexivity; try discriminate. }
  assert (Hnl : no_local_tag 1 gap_log) by (repeat constructor).
  assert (Hs : forall le, In le gap_log -> exists e, le = LSync e).
  { intros le [<-|[<-|[]]]; eexists; reflexivity. }
  assert (Hd : forall e, In e gap_src <-> In (LSync e) (deliveries 1 gap_log)).
  { intro e; cbn; split.
    - intros [<-|[<-|[]]]; auto.
    - intros [H0|[H0|[]]]; inversion H0; auto. }
  specialize (H Hwf Hnl Hs Hd). vm_compute in H. discriminate H.
Qed.

(* ====================================================================================== *)
(* ---------- at most once, for ANY order of delivery ---------- *)

Inductive Sublist {A : Type} : list A -> list A -> Prop :=
| SL_nil : forall l, Sublist [] l
| SL_skip : forall a l x, Sublist a l -> Sublist a (x :: l)
| SL_take : forall a l x, Sublist a l -> Sublist (x :: a) (x :: l).

Definition idx_lt (a b : sentry) : Prop := s_index a < s_index b.

Definition last_opt {A : Type} (l : list A) : option A :=
  match rev l with [] => None | x :: _ => Some x end.

Lemma last_opt_snoc : forall (A : Type) (l : list A) x, last_opt (l ++ [x]) = Some x.
Proof. intros; unfold last_opt; now rewrite rev_app_distr. Qed.

Lemma sorted_snoc : forall (A : Type) (R : A -> A -> Prop) l x,
  StronglySorted R l -> Forall (fun a => R a x) l -> StronglySorted R (l ++ [x]).
Proof.
  intros A R l x; induction l as [|y r IH]; intros Hs Hf; cbn.
  - constructor; constructor.
  - inversion Hs; subst. inversion Hf; subst. constructor; [now apply IH|].
    apply Forall_app; split; [assumption|]. constructor; [assumption|constructor].
Qed.

Lemma sorted_snoc_inv : forall (A : Type) (R : A -> A -> Prop) l x,
  StronglySorted R (l ++ [x]) -> Forall (fun a => R a x) l.
Proof.
  intros A R l x; induction l as [|y r IH]; intro Hs; cbn in *; [constructor|].
  inversion Hs as [|? ? Hs' Hall]; subst. constructor; [|now apply IH].
  rewrite Forall_forall in Hall. apply Hall. apply in_or_app; right; now left.
Qed.

Lemma sorted_weaken : forall src, StronglySorted src_lt src -> StronglySorted idx_lt src.
Proof.
  intros src H; induction H as [|x r Hs IH Hall]; constructor; [exact IH|].
  eapply Forall_impl; [|exact Hall]. intros a [H1 _]; exact H1.
Qed.

Lemma sorted_firstn : forall (A : Type) (R : A -> A -> Prop) n l, StronglySorted R l -> StronglySorted R (firstn n l).
Proof.
  intros A R n; induction n as [|n IH]; intros l H; cbn; [constructor|].
  destruct l as [|x r]; [constructor|]. inversion H; subst. constructor; [now apply IH|].
  now apply Forall_firstn.
Qed.

(* an index-increasing list of members of an index-increasing list is a sub-sequence of it *)
Lemma sorted_incl_sublist : forall src acc,
  StronglySorted idx_lt src -> StronglySorted idx_lt acc -> Forall (fun e => In e src) acc -> Sublist acc src.
Proof.
  induction src as [|x src IH]; intros acc Hs Ha Hin.
  - destruct acc as [|a acc]; [constructor|]. inversion Hin as [|? ? []]; subst.
  - inversion Hs as [|? ? Hs' Hall]; subst. rewrite Forall_forall in Hall.
    destruct acc as [|a acc]; [constructor|].
    inversion Ha as [|? ? Ha' Hall']; subst. rewrite Forall_forall in Hall'.
    inversion Hin as [|? ? Hia Hin']; subst.
    assert (Hrest : Forall (fun e => In e src) acc).
    { rewrite Forall_forall in *. intros e He. destruct (Hin' e He) as [<-|H]; [|exact H].
      exfalso. specialize (Hall' _ He). unfold idx_lt in *.
      destruct Hia as [<-|Hia]; [lia|]. specialize (Hall _ Hia). unfold idx_lt in Hall. lia. }
    destruct (N.eq_dec (s_index a) (s_index x)) as [E|NE].
    + assert (a = x) as ->.
      { destruct Hia as [<-|Hia]; [reflexivity|]. specialize (Hall _ Hia). unfold idx_lt in Hall. lia. }
      apply SL_take. now apply IH.
    + apply SL_skip. apply IH; auto. constructor; [|exact Hrest].
      destruct Hia as [<-|Hia]; [contradiction|exact Hia].
Qed.

Lemma snoc_cases : forall (A : Type) (l : list A), l = [] \/ exists l0 x, l = l0 ++ [x].
Proof. intros A l; induction l as [|x l _] using rev_ind; [now left|right; eauto]. Qed.

(* recorded position = raft position of the last applied entry *)
Definition synced_last (acc : list sentry) (o : option sstate) : Prop :=
  match last_opt acc with
  | None => o = None
  | Some h => exists o', o = Some o' /\ pos_eq o' h
  end.

Definition Inv2 (c : N) (src acc : list sentry) (st : rstate) : Prop :=
  proj c (r_journal st) = map s_payload acc /\
  Forall (fun e => In e src) acc /\
  StronglySorted idx_lt acc /\
  synced_last acc (synced_of st c).

(* what may be delivered on behalf of c when nothing is assumed about the ORDER: entries of the source log,
   transfer requests, snapshot requests that fail or carry the source's own state at one of its positions *)
Definition src_delivery (c : N) (src : list sentry) (le : lentry) : Prop :=
  match le with
  | LSync e => In e src
  | LXfer _ => True
  | LSnap _ None => True
  | LSnap e (Some j) => exists n x, nth_error src n = Some x /\ same_pos e x /\ j = src_snapshot c src n
  | LSkip _ => False
  | LLocal _ _ => True
  end.

Lemma wf_in : forall c src e, wf_source c src -> In e src -> s_cluster e = c /\ 0 < s_index e.
Proof. intros c src e [Hf _] H. rewrite Forall_forall in Hf. now apply Hf. Qed.

Lemma last_firstn_S : forall (A : Type) (l : list A) n x, nth_error l n = Some x -> last_opt (firstn (S n) l) = Some x.
Proof. intros A l n x H. rewrite (firstn_S_nth _ _ _ _ H). apply last_opt_snoc. Qed.

Lemma amo_step : forall c src acc st le,
  wf_source c src -> entry_cluster le = Some c -> src_delivery c src le -> Inv2 c src acc st ->
  exists acc', Inv2 c src acc' (apply_entry st le).
Proof.
  intros c src acc st le Hwf Hcl Hsd (Hj & Hm & Hs & Hy).
  destruct le as [e|t p|e|e content|e]; cbn in Hcl; try discriminate; injection Hcl as Hc; cbn [apply_entry].
  - (* LSync *)
    cbn in Hsd. destruct (wf_in _ _ _ Hwf Hsd) as [_ Hpos].
    destruct (is_already_applied (r_synced st) e) eqn:F; [exists acc; repeat split; assumption|].
    exists (acc ++ [e]). repeat split; cbn [r_journal r_synced].
    + unfold sm_apply. rewrite proj_app, Hj, Hc, proj_one_same, map_app. reflexivity.
    + apply Forall_app; split; [exact Hm|]. constructor; [exact Hsd|constructor].
    + apply sorted_snoc; [exact Hs|].
      destruct (snoc_cases _ acc) as [->|NE]; [constructor|].
      destruct NE as [acc0 [h ->]]. unfold synced_last in Hy. rewrite last_opt_snoc in Hy.
      destruct Hy as [o' [Hy [Ht Hi]]].
      unfold is_already_applied in F. rewrite Hc in F. unfold synced_of in Hy. rewrite Hy in F.
      assert (Hh : s_index h < s_index e) by lia.
      apply Forall_app; split; [|constructor; [exact Hh|constructor]].
      eapply Forall_impl; [|apply (sorted_snoc_inv _ _ _ _ Hs)]. intros a Ha. unfold idx_lt in *. lia.
    + unfold synced_last. rewrite last_opt_snoc.
      destruct (postprocess_records (r_synced st) e Hpos) as [o' [Hg Hp]].
      exists o'. split; [|exact Hp]. unfold synced_of; cbn [r_synced]. now rewrite <- Hc.
  - (* LXfer *) exists acc; repeat split; assumption.
  - (* LSnap *)
    destruct (is_already_applied (r_synced st) e) eqn:F; [exists acc; repeat split; assumption|].
    destruct content as [j|]; [|exists acc; repeat split; assumption].
    cbn in Hsd. destruct Hsd as [n [x [Hn [Hsp ->]]]].
    destruct (wf_nth _ _ _ _ Hwf Hn) as [Hcx Hposx]. destruct Hsp as [Ht Hi].
    exists (firstn (S n) src). repeat split; cbn [r_journal r_synced].
    + unfold src_snapshot. apply proj_tagged.
    + apply Forall_forall. intros y Hy'. rewrite <- (firstn_skipn (S n) src). apply in_or_app; now left.
    + apply sorted_firstn. apply sorted_weaken, Hwf.
    + unfold synced_last. rewrite (last_firstn_S _ _ _ _ Hn).
      destruct (postprocess_records (r_synced st) e ltac:(lia)) as [o' [Hg [Hp1 Hp2]]].
      exists o'. split; [|split; congruence]. unfold synced_of; cbn [r_synced]. now rewrite <- Hc.
  - (* LSkip *) contradiction.
Qed.

Lemma amo_other : forall c src acc st le k0,
  entry_cluster le = Some k0 -> k0 <> c ->
  match le with LSnap _ (Some _) => False | _ => True end ->
  Inv2 c src acc st -> Inv2 c src acc (apply_entry st le).
Proof.
  intros c src acc st le k0 Hk Hne Hns (Hj & Hm & Hs & Hy).
  destruct le as [e|t p|e|e content|e]; cbn in Hk; inversion Hk; subst; cbn [apply_entry].
  - destruct (is_already_applied (r_synced st) e); [repeat split; assumption|].
    repeat split; cbn [r_journal r_synced]; auto.
    + unfold sm_apply. rewrite proj_app, proj_one_other by exact Hne. now rewrite app_nil_r.
    + unfold synced_of in *; cbn [r_synced]. rewrite postprocess_get_other by (intro X; apply Hne; now symmetry). exact Hy.
  - repeat split; assumption.
  - destruct (is_already_applied (r_synced st) e); [repeat split; assumption|].
    destruct content; [contradiction|repeat split; assumption].
  - destruct (is_already_applied (r_synced st) e); [repeat split; assumption|].
    repeat split; cbn [r_journal r_synced]; auto.
    unfold synced_of in *; cbn [r_synced]. rewrite postprocess_get_other by (intro X; apply Hne; now symmetry). exact Hy.
Qed.

Lemma amo_local : forall c src acc st t p,
  t <> c -> Inv2 c src acc st -> Inv2 c src acc (apply_entry st (LLocal t p)).
Proof.
  intros c src acc st t p Hne (Hj & Hm & Hs & Hy). repeat split; cbn [apply_entry r_journal r_synced]; auto.
  unfold sm_apply. rewrite proj_app, proj_one_other by exact Hne. now rewrite app_nil_r.
Qed.

Lemma in_deliveries : forall c l le, In le (deliveries c l) <-> In le l /\ entry_cluster le = Some c.
Proof.
  intros c l le; unfold deliveries. rewrite filter_In. split; intros [H1 H2]; split; auto.
  - destruct (entry_cluster le) as [k|]; [|discriminate]. apply N.eqb_eq in H2. now subst.
  - rewrite H2. apply N.eqb_refl.
Qed.

Lemma amo_log : forall c src l st acc,
  wf_source c src -> no_local_tag c l -> no_foreign_snap c l ->
  (forall le, In le (deliveries c l) -> src_delivery c src le) ->
  Inv2 c src acc st -> exists acc', Inv2 c src acc' (apply_log st l).
Proof.
  intros c src l; induction l as [|le l IH]; intros st acc Hwf Hnl Hfs Hd HI.
  - exists acc; exact HI.
  - rewrite apply_log_cons. inversion Hnl as [|? ? Hle Hnl']; subst. inversion Hfs as [|? ? Hfe Hfs']; subst.
    assert (Hd' : forall le0, In le0 (deliveries c l) -> src_delivery c src le0).
    { intros le0 H0. apply Hd. apply in_deliveries in H0. apply in_deliveries. destruct H0; split; [now right|assumption]. }
    destruct (entry_cluster le) as [k0|] eqn:EC.
    + destruct (N.eq_dec k0 c) as [->|Hne].
      * assert (Hsd : src_delivery c src le).
        { apply Hd. apply in_deliveries. split; [now left|exact EC]. }
        destruct (amo_step _ _ _ _ _ Hwf EC Hsd HI) as [acc' HI'].
        apply (IH _ acc' Hwf Hnl' Hfs' Hd' HI').
      * apply (IH _ acc Hwf Hnl' Hfs' Hd'). eapply amo_other; eauto.
        destruct le as [e|t p|e|e [j|]|e]; try exact I. cbn in EC. inversion EC as [Hk0]. apply Hne. rewrite <- Hk0. exact Hfe.
    + destruct le as [e|t p|e|e content|e]; cbn in EC; try discriminate.
      apply (IH _ acc Hwf Hnl' Hfs' Hd'). now apply amo_local.
Qed.

(* at most once, in source order, for ANY order of delivery (re-orderings, gaps, losses, failed and repeated
   snapshot requests included): the data replicated from c is the payload image of a sub-sequence of the source
   log, and the recorded position is the raft position of the last applied entry *)
Theorem at_most_once_log : forall c src l,
  wf_source c src -> no_local_tag c l -> no_foreign_snap c l ->
  (forall le, In le (deliveries c l) -> src_delivery c src le) ->
  exists acc, Sublist acc src /\
    proj c (r_journal (apply_log init_r l)) = map s_payload acc /\
    synced_last acc (synced_of (apply_log init_r l) c).
Proof.
  intros c src l Hwf Hnl Hfs Hd.
  destruct (amo_log c src l init_r [] Hwf Hnl Hfs Hd) as [acc (Hj & Hm & Hs & Hy)].
  { repeat split; try constructor. }
  exists acc; repeat split; auto. apply sorted_incl_sublist; auto. apply sorted_weaken, Hwf.
Qed.

Theorem at_most_once : forall ops c src,
  c <> 0 -> wf_source c src -> no_foreign_snap c (n_log (run ops)) ->
  (forall le, In le (deliveries c (n_log (run ops))) -> src_delivery c src le) ->
  exists acc, Sublist acc src /\
    proj c (r_journal (n_cur (run ops))) = map s_payload acc /\
    synced_last acc (synced_of (n_cur (run ops)) c).
Proof.
  intros ops c src Hc Hwf Hfs Hd. rewrite run_refines_log.
  apply at_most_once_log; auto. now apply run_no_local_tag.
Qed.

(* what enters the committed log was delivered: for schedules without remote snapshot requests the hypothesis
   above can be read on the schedule *)
Fixpoint delivered (ops : list op) : list sentry :=
  match ops with
  | [] => []
  | ODeliver e _ _ _ :: r => e :: delivered r
  | ORpc b :: r => map fst b ++ delivered r
  | _ :: r => delivered r
  end.

Definition no_snap_ops (ops : list op) : Prop :=
  Forall (fun o => match o with OXfer _ _ _ | OSnapReq _ _ _ _ | OSkipReq _ _ _ | OSnapRpc _ => False | _ => True end) ops.

Lemma delivered_app : forall a b, delivered (a ++ b) = delivered a ++ delivered b.
Proof.
  induction a as [|o a IH]; intro b; cbn; [reflexivity|].
  destruct o; cbn; rewrite ?IH, <- ?app_assoc; reflexivity.
Qed.

Lemma rpc_collect_in : forall m b le, In le (fst (rpc_collect m b)) -> exists e, le = LSync e /\ In e (map fst b).
Proof.
  intros m b le; induction b as [|[x tsok] r IH]; cbn; [tauto|].
  destruct (prefilter m x); [intro H; destruct (IH H) as [e [H1 H2]]; eauto|].
  destruct (negb tsok); cbn; [tauto|].
  destruct (rpc_collect m r) as [l ok]; cbn in *. intros [H|H].
  - exists x; split; auto.
  - destruct (IH H) as [e [H1 H2]]; eauto.
Qed.

(* every entry of the log or in flight is a local write or a delivered source entry *)
Definition from_delivered (nd : node) (ds : list sentry) : Prop :=
  forall le, In le (n_log nd ++ n_pending nd) ->
    (exists p, le = LLocal 0 p) \/ (exists e, le = LSync e /\ In e ds).

Lemma from_delivered_weaken : forall nd ds ds', from_delivered nd ds -> from_delivered nd (ds ++ ds').
Proof.
  intros nd ds ds' H le Hle. destruct (H le Hle) as [Hl|[e [H1 H2]]]; [now left|right].
  exists e; split; [exact H1|]. apply in_or_app; now left.
Qed.

Lemma commit_n_from : forall nd k ds, from_delivered nd ds -> from_delivered (commit_n nd k) ds.
Proof.
  intros nd k ds H le; unfold commit_n; cbn [n_log n_pending]. rewrite <- app_assoc, firstn_skipn. apply H.
Qed.

Lemma step_from : forall nd o ds,
  match o with OXfer _ _ _ | OSnapReq _ _ _ _ | OSkipReq _ _ _ | OSnapRpc _ => False | _ => True end ->
  from_delivered nd ds -> from_delivered (fst (step nd o)) (ds ++ delivered [o]).
Proof.
  intros nd o ds Hns H. pose proof (from_delivered_weaken nd ds (delivered [o]) H) as W.
  destruct o as [x tsok propok pre|n| |p| | |b|c t i|c t i content|c t i|c|o'|bd|back]; try contradiction; cbn [step step0 delivered].
  - destruct (pre && prefilter (r_synced (n_cur nd)) x); [exact W|].
    destruct (negb tsok); [exact W|]. destruct (negb propok); [exact W|]. unfold from_delivered; cbn.
    intros le He. rewrite app_assoc in He. apply in_app_or in He. destruct He as [He|[He|[]]].
    + apply W. exact He.
    + subst le. right. exists x; split; [reflexivity|]. apply in_or_app; right; now left.
  - destruct (Nat.min n (length (n_pending nd))); [exact W|]. now apply commit_n_from.
  - destruct (n_pending nd) as [|y r] eqn:E; [exact W|]. unfold from_delivered; cbn. intros le He. apply W. rewrite E.
    apply in_app_or in He. apply in_or_app. destruct He; [now left|right; now right].
  - unfold from_delivered; cbn. intros le He. rewrite <- app_assoc in He. apply in_app_or in He.
    destruct He as [He|He]; [apply W; apply in_or_app; now left|].
    destruct He as [He|He]; [subst le; left; eauto|apply W; apply in_or_app; now right].
  - exact W.
  - destruct (restore nd); unfold from_delivered; cbn. intros le He. apply W. rewrite app_nil_r in He. apply in_or_app; now left.
  - pose proof (rpc_collect_in (r_synced (n_cur nd)) b) as Hr.
    destruct (rpc_collect (r_synced (n_cur nd)) b) as [l ok]; cbn [fst snd] in *.
    apply commit_n_from. unfold from_delivered; cbn. intros le He. rewrite app_assoc in He. apply in_app_or in He. destruct He as [He|He].
    + apply W. exact He.
    + right. destruct (Hr le He) as [e [H1 H2]]. exists e; split; [exact H1|]. apply in_or_app; right. now rewrite app_nil_r.
  - exact W.
  - exact W.
  - destruct (back <=? length (n_log nd))%nat; exact W.
Qed.

Lemma run_from_delivered : forall ops, no_snap_ops ops -> from_delivered (run ops) (delivered ops).
Proof.
  intros ops; induction ops as [|o ops IH] using rev_ind; intro Hn; [intros le []|].
  apply Forall_app in Hn. destruct Hn as [Hn1 Hn2]. inversion Hn2; subst.
  rewrite run_snoc, delivered_app. apply step_from; auto.
Qed.

(* at most once over ALL schedules (without the remote snapshot requests) whose deliveries are source entries:
   whatever the order, however often *)
Theorem at_most_once_sched : forall ops c src,
  c <> 0 -> wf_source c src -> no_snap_ops ops ->
  (forall e, In e (delivered ops) -> s_cluster e = c -> In e src) ->
  exists acc, Sublist acc src /\
    proj c (r_journal (n_cur (run ops))) = map s_payload acc /\
    synced_last acc (synced_of (n_cur (run ops)) c).
Proof.
  intros ops c src Hc Hwf Hns Hd.
  pose proof (run_from_delivered ops Hns) as Hfd.
  apply at_most_once; auto.
  - apply Forall_forall. intros le Hle.
    destruct (Hfd le (in_or_app _ _ _ (or_introl Hle))) as [[p ->]|[e [-> _]]]; exact I.
  - intros le Hle. apply in_deliveries in Hle. destruct Hle as [Hin Hcl].
    destruct (Hfd le (in_or_app _ _ _ (or_introl Hin))) as [[p ->]|[e [-> He]]]; [exact I|].
    cbn. cbn in Hcl. inversion Hcl. now apply Hd.
Qed.

(* ====================================================================================== *)
(* ---------- an acknowledged ApplyRaftReqs call was proposed and applied ---------- *)

Lemma prefilter_is_filter_pos : forall m e, 0 < s_index e -> prefilter m e = is_already_applied m e.
Proof.
  intros m e H; unfold prefilter, is_already_applied.
  destruct (sm_get (s_cluster e) m) as [o|]; [reflexivity|]. lia.
Qed.

Lemma filter_mono : forall m m' e,
  (forall c, ss_le (sm_get c m) (sm_get c m')) ->
  is_already_applied m e = true -> is_already_applied m' e = true.
Proof.
  unfold is_already_applied; intros m m' e Hle H. specialize (Hle (s_cluster e)).
  destruct (sm_get (s_cluster e) m) as [o|]; [|discriminate].
  destruct (sm_get (s_cluster e) m') as [o'|]; cbn in Hle; [|contradiction]. lia.
Qed.

Lemma applied_is_covered : forall st e, 0 < s_index e ->
  is_already_applied (r_synced (apply_entry st (LSync e))) e = true.
Proof.
  intros st e Hpos. cbn [apply_entry]. destruct (is_already_applied (r_synced st) e) eqn:F; [exact F|].
  cbn [r_synced]. unfold is_already_applied.
  rewrite postprocess_get_same by (destruct (s_index e =? 0) eqn:Z; [lia|now rewrite andb_false_r]).
  cbn. lia.
Qed.

Lemma covered_through_log : forall l st e,
  is_already_applied (r_synced st) e = true -> is_already_applied (r_synced (apply_log st l)) e = true.
Proof.
  intros l st e H. eapply filter_mono; [|exact H]. intro c. apply (apply_log_mono l st c).
Qed.

Lemma in_log_covered : forall l st e, 0 < s_index e -> In (LSync e) l ->
  is_already_applied (r_synced (apply_log st l)) e = true.
Proof.
  induction l as [|le l IH]; intros st e Hpos Hin; [contradiction|].
  rewrite apply_log_cons. destruct Hin as [->|Hin].
  - apply covered_through_log. now apply applied_is_covered.
  - now apply IH.
Qed.

Lemma rpc_collect_ok_in : forall m b e tsok,
  snd (rpc_collect m b) = true -> In (e, tsok) b ->
  prefilter m e = true \/ In (LSync e) (fst (rpc_collect m b)).
Proof.
  intros m b e tsok; induction b as [|[x tx] r IH]; intros Hok Hin; [contradiction|].
  cbn in *. destruct (prefilter m x) eqn:P.
  - destruct Hin as [E|Hin]; [inversion E; subst; now left|now apply IH].
  - destruct (negb tx); [discriminate|].
    destruct (rpc_collect m r) as [l ok] eqn:ER; cbn in *.
    destruct Hin as [E|Hin]; [inversion E; subst; right; now left|].
    destruct (IH Hok Hin) as [H|H]; [now left|right; now right].
Qed.

(* after an ApplyRaftReqs call that answered success (nothing else in flight), every entry of the batch is covered by
   the recorded position of its cluster: it was filtered as already applied, or it was proposed, committed and applied.
   A call that reaches a raft group that is not ready answers with an error and changes nothing. *)
Theorem ack_implies_applied : forall nd b e tsok,
  n_pending nd = [] -> snd (step nd (ORpc b)) = ROk -> In (e, tsok) b -> 0 < s_index e ->
  is_already_applied (r_synced (n_cur (fst (step nd (ORpc b))))) e = true.
Proof.
  intros nd b e tsok Hp Hok Hin Hpos. cbn [step step0] in *.
  destruct (rpc_collect (r_synced (n_cur nd)) b) as [l ok] eqn:ER. cbn [fst snd] in *.
  destruct ok; [|discriminate].
  assert (Hc : n_cur (commit_n (with_pending nd (n_pending nd ++ l)) (length (n_pending (with_pending nd (n_pending nd ++ l)))))
               = apply_log (n_cur nd) l).
  { cbn. rewrite Hp; cbn [app]. now rewrite firstn_all. }
  rewrite Hc.
  destruct (rpc_collect_ok_in (r_synced (n_cur nd)) b e tsok) as [P|I]; [now rewrite ER| exact Hin| |].
  - apply covered_through_log. rewrite <- prefilter_is_filter_pos by exact Hpos. exact P.
  - rewrite ER in I. cbn in I. now apply in_log_covered.
Qed.

Theorem not_ready_is_refused : forall nd b,
  step nd (ORpcDown b) = (nd, RErr).
Proof. reflexivity. Qed.

(* ====================================================================================== *)
(* ---------- where a position advance can come from ---------- *)

(* the synced map changes only when an entry that is not filtered is applied, and it then records exactly that entry's
   own (cluster, term, index): a replayed log entry, a SUCCESSFUL ApplyRemoteSnap of that very snapshot, or a skipped
   snapshot.  A TransferRemoteSnap request never moves a position, whatever the status table holds; neither does a
   failed apply. *)
Theorem position_advance_source : forall st le,
  r_synced (apply_entry st le) <> r_synced st ->
  exists e, is_already_applied (r_synced st) e = false /\
    r_synced (apply_entry st le) = postprocess (r_synced st) e /\
    (le = LSync e \/ (exists j, le = LSnap e (Some j)) \/ le = LSkip e).
Proof.
  intros st [e|t p|e|e content|e] H; cbn [apply_entry] in *.
  - destruct (is_already_applied (r_synced st) e) eqn:F; [contradiction|]. exists e. repeat split; auto.
  - contradiction.
  - contradiction.
  - destruct (is_already_applied (r_synced st) e) eqn:F; [contradiction|].
    destruct content as [j|]; [|contradiction]. exists e. repeat split; eauto.
  - destruct (is_already_applied (r_synced st) e) eqn:F; [contradiction|]. exists e. repeat split; auto.
Qed.

Theorem transfer_never_moves_position : forall st e, apply_entry st (LXfer e) = st.
Proof. reflexivity. Qed.
