(* Sync/Extract.v — extraction of the C19 model (ExtrOcamlBasic only) *)
From Coq Require Import ExtrOcamlBasic ZArith.
From ZV Require Import Sync.Model Sync.Conflict.
Extraction Language OCaml.
Extraction "model.ml" Z.of_N N.of_nat Nat.add
  sm_get sm_set is_already_applied is_continue_commit prefilter postprocess apply_entry apply_phases apply_log
  init_node step0 step run proj counter appended source_state snm_get snm_set apply_snaps apply_log_snaps apply_status_rsp
  kv_get cmds_apply capply init_cnode cstep crun.
