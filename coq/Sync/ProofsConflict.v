(* Sync/ProofsConflict.v — the receiver that is not syncer-only (Sync/Conflict.v). *)
From Coq Require Import List NArith Bool Arith Lia.
From ZV Require Import Sync.Consts Sync.Model Sync.Conflict.
Import ListNotations.
Open Scope N_scope.

(* the code as it is (recheck = false): a restart changes the data.  Witness: entry 2 carries an older request
   timestamp than entry 1 on the same keys; live it is ignored by the pre-check (its position is recorded), the
   replay after the restart applies it *)
Definition m0_witness : list cop :=
  [CMode true; CDeliver (mkS 1 1 1 2000 10) true true; CCommit 1; CDeliver (mkS 1 1 2 1000 20) true true; CCommit 1].

Lemma m0_restart_refuted :
  cd_journal (cs_data (cn_cur (crun false m0_witness))) = [(1, 10)] /\
  cs_synced (cn_cur (crun false m0_witness)) = [(1, mkSS 1 2 1000)] /\
  cd_journal (cs_data (cn_cur (crun false (m0_witness ++ [CRestart])))) = [(1, 10); (1, 20)].
Proof. vm_compute. repeat split; reflexivity. Qed.

(* when the decision to pre-check does not depend on "replaying" — the receiver is syncer-only, or the candidate
   repair runs the pre-check on replay too — live apply and replay are the same function *)
Lemma capply_replay_indep : forall mode0 recheck r1 r2 st ce,
  mode0 = false \/ recheck = true ->
  capply mode0 recheck r1 st ce = capply mode0 recheck r2 st ce.
Proof.
  intros mode0 recheck r1 r2 st ce H; destruct ce as [e|p ts]; cbn [capply]; [|reflexivity].
  destruct (is_already_applied (cs_synced st) e); [reflexivity|].
  destruct H as [->| ->]; [reflexivity|now rewrite !orb_true_l].
Qed.

Lemma capply_log_cons : forall m rc r st ce l,
  capply_log m rc r st (ce :: l) = capply_log m rc r (capply m rc r st ce) l.
Proof. reflexivity. Qed.
Lemma capply_log_app : forall m rc r a b st,
  capply_log m rc r st (a ++ b) = capply_log m rc r (capply_log m rc r st a) b.
Proof. intros; unfold capply_log; apply fold_left_app. Qed.
Arguments capply_log : simpl never.

Lemma capply_log_replay_indep : forall mode0 recheck r1 r2 l st,
  mode0 = false \/ recheck = true ->
  capply_log mode0 recheck r1 st l = capply_log mode0 recheck r2 st l.
Proof.
  intros mode0 recheck r1 r2 l; induction l as [|ce l IH]; intros st H; [reflexivity|].
  rewrite !capply_log_cons. rewrite (capply_replay_indep mode0 recheck r1 r2 st ce H). now apply IH.
Qed.

Definition mode_const (m : bool) (ops : list cop) : Prop :=
  Forall (fun o => match o with CMode m' => m' = m | _ => True end) ops.

Definition cnode_inv (recheck m : bool) (nd : cnode) : Prop :=
  cn_mode0 nd = m /\
  cn_cur nd = capply_log m recheck true init_cs (cn_log nd) /\
  match cn_snap nd with
  | None => True
  | Some (k, s) => (k <= length (cn_log nd))%nat /\ s = capply_log m recheck true init_cs (firstn k (cn_log nd))
  end.

Lemma firstn_stable : forall (A : Type) (l ext : list A) k, (k <= length l)%nat -> firstn k (l ++ ext) = firstn k l.
Proof.
  intros A l ext k H. rewrite firstn_app. replace (k - length l)%nat with 0%nat by lia. cbn. apply app_nil_r.
Qed.

Lemma cstep_inv : forall recheck m nd o,
  m = false \/ recheck = true ->
  match o with CMode m' => m' = m | _ => True end ->
  cnode_inv recheck m nd -> cnode_inv recheck m (fst (cstep recheck nd o)).
Proof.
  intros recheck m nd o Hm Ho H. pose proof H as (Hmode & Hc & Hs).
  destruct o as [m'|e tsok propok|n| |p ts| |]; cbn [cstep].
  - subst m'. split; [reflexivity|]. split; assumption.
  - destruct (negb tsok); [exact H|]. destruct (negb propok); [exact H|]. split; [exact Hmode|]. split; assumption.
  - destruct (Nat.min n (length (cn_pending nd))) as [|k'] eqn:E; [exact H|].
    set (ents := firstn (S k') (cn_pending nd)).
    unfold cnode_inv; cbn [fst cn_mode0 cn_cur cn_log cn_snap].
    split; [exact Hmode|]. split.
    + rewrite capply_log_app, <- Hc, Hmode. apply capply_log_replay_indep; exact Hm.
    + destruct (cn_snap nd) as [[k s]|]; [|exact I]. destruct Hs as [Hk Hs]. split.
      * rewrite app_length; lia.
      * rewrite firstn_stable by exact Hk. exact Hs.
  - destruct (cn_pending nd); [exact H|]. split; [exact Hmode|]. split; assumption.
  - unfold cnode_inv; cbn [fst cn_mode0 cn_cur cn_log cn_snap].
    split; [exact Hmode|]. split.
    + rewrite capply_log_app, <- Hc, Hmode.
      change (capply_log m recheck true (cn_cur nd) [CLocal p ts]) with (capply m recheck true (cn_cur nd) (CLocal p ts)).
      apply capply_replay_indep; exact Hm.
    + destruct (cn_snap nd) as [[k s]|]; [|exact I]. destruct Hs as [Hk Hs]. split.
      * rewrite app_length; cbn [length]; lia.
      * rewrite firstn_stable by exact Hk. exact Hs.
  - unfold cnode_inv; cbn [fst cn_mode0 cn_cur cn_log cn_snap].
    split; [exact Hmode|]. split; [exact Hc|]. split; [lia|]. rewrite firstn_all. exact Hc.
  - unfold crestore. destruct (cn_snap nd) as [[k s]|] eqn:ES; unfold cnode_inv; cbn [fst cn_mode0 cn_cur cn_log cn_snap].
    + destruct Hs as [Hk Hs]. split; [exact Hmode|]. split; [|split; assumption].
      rewrite Hmode, Hs, <- capply_log_app, firstn_skipn. reflexivity.
    + split; [exact Hmode|]. split; [|exact I]. rewrite Hmode. reflexivity.
Qed.

Lemma crun_snoc : forall rc ops o, crun rc (ops ++ [o]) = fst (cstep rc (crun rc ops) o).
Proof. intros; unfold crun; rewrite fold_left_app; reflexivity. Qed.

Lemma crun_inv : forall recheck m ops,
  m = false \/ recheck = true -> mode_const m ops ->
  cnode_inv recheck m (crun recheck (CMode m :: ops)).
Proof.
  intros recheck m ops Hm Hc. induction ops as [|o ops IH] using rev_ind.
  - cbn. repeat split; reflexivity.
  - apply Forall_app in Hc. destruct Hc as [Hc1 Hc2]. inversion Hc2; subst.
    change (CMode m :: ops ++ [o]) with ((CMode m :: ops) ++ [o]). rewrite crun_snoc.
    apply cstep_inv; auto.
Qed.

(* restart commutes on a receiver whose mode does not change, if it is syncer-only (any recheck: this is the mode the
   main theorems are about) or if the pre-check also runs on replay (the candidate repair of the open finding) *)
Theorem conflict_restart_commutes : forall recheck m ops,
  m = false \/ recheck = true -> mode_const m ops ->
  cn_cur (crun recheck ((CMode m :: ops) ++ [CRestart])) = cn_cur (crun recheck (CMode m :: ops)).
Proof.
  intros recheck m ops Hm Hc. rewrite crun_snoc.
  destruct (crun_inv recheck m ops Hm Hc) as (Hmode & Hcur & Hs).
  set (nd := crun recheck (CMode m :: ops)) in *. cbn [cstep]. unfold crestore.
  destruct (cn_snap nd) as [[k s]|]; cbn [fst cn_cur].
  - destruct Hs as [Hk Hs]. rewrite Hmode, Hs, <- capply_log_app, firstn_skipn. now rewrite Hcur.
  - rewrite Hmode. now rewrite Hcur.
Qed.
