(* Stream/ProofsConn.v — C16: the connection lifecycle. A peer stream is a sequence of connections;
   streamWriter.run builds a new encoder and streamReader.decodeLoop a new decoder for each of them.
   However a well-formed message sequence is cut into connections, every connection's bytes decode
   to exactly the messages written to it. *)
From ZV Require Import Common.Bytes Stream.Consts Stream.Proto Stream.Model Stream.ProofsProto
     Stream.Proofs Stream.Wf Stream.ProofsWf.
Open Scope N_scope.

Theorem conns_roundtrip local remote : forall conns,
  forallb (v2_seq_ok local remote st0) conns = true ->
  conns_run local remote (conns_encode conns) = map (fun ms => (ms, DEof)) conns.
Proof.
  induction conns as [|ms conns IH]; intro H; [reflexivity|].
  cbn [forallb] in H. apply andb_true_iff in H as [H1 H2].
  unfold conns_run, conns_encode in *. cbn [map].
  rewrite (v2_roundtrip local remote ms H1). rewrite IH by exact H2. reflexivity.
Qed.

(* the static description of the traffic is inherited by every piece of the sequence *)
Lemma names_consistent_incl ms c :
  (forall m, In m c -> In m ms) -> names_consistent ms = true -> names_consistent c = true.
Proof.
  unfold names_consistent. intros Hin H. rewrite forallb_forall in *.
  intros m Hm. rewrite forallb_forall. intros m' Hm'.
  specialize (H m (Hin m Hm)). rewrite forallb_forall in H. apply H. apply Hin. exact Hm'.
Qed.

Lemma send_wf_incl local remote ms c :
  (forall m, In m c -> In m ms) -> send_wf local remote ms = true -> send_wf local remote c = true.
Proof.
  unfold send_wf. intros Hin H. apply andb_true_iff in H as [H1 H2]. apply andb_true_iff. split.
  - rewrite forallb_forall in *. intros m Hm. apply H1. apply Hin. exact Hm.
  - eapply names_consistent_incl; eauto.
Qed.

(* for EVERY split of a sequence of the stream's traffic into connections *)
Theorem conns_roundtrip_split local remote conns :
  send_wf local remote (concat conns) = true ->
  conns_run local remote (conns_encode conns) = map (fun ms => (ms, DEof)) conns.
Proof.
  intro H. apply conns_roundtrip. apply forallb_forall. intros c Hc.
  apply send_wf_implies_seq_ok. eapply send_wf_incl; [|exact H].
  intros m Hm. apply in_concat. exists c. split; assumption.
Qed.
