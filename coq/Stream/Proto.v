(* Stream/Proto.v — C16: byte-exact model of the gogo-protobuf generated code for the raft wire
   types, as used by the rafthttp stream codecs.
   Hand-written transcription of raft/raftpb/raft.pb.go:
     encodeVarintRaft, sovRaft, skipRaft,
     Group.Size/MarshalTo/Unmarshal, Entry…, ConfState…, SnapshotMetadata…,
     Snapshot…, Message….
   Conventions: bytes = list N (each < 256); uint64 fields are N; int32 / int64 fields (Entry.Type,
   Entry.DataType, Message.Type, Entry.Timestamp) are carried as their two's-complement bit pattern
   (N < 2^32 resp. < 2^64), which is what `uint64(x)` / `x |= T(b&0x7F) << shift` operate on.
   `[]byte` fields are `option bytes` (nil = field absent; gogo emits a present-but-empty field for a
   non-nil empty slice and decodes it back to a non-nil empty slice). Unmarshal MERGES into the
   receiver exactly as the generated code does (scalars overwritten, repeated fields appended,
   embedded messages merged). `int` is 64 bits.
   Field numbers (fn_T_F), wire types (wt_T_F) and tag bytes (tg_T_F) come from Stream/Consts.v, which the
   harness regenerates from the Unmarshal switch cases and the MarshalTo tag assignments of raft.pb.go (go/ast).
   No proofs in this file (self-contained: used only by the Stream group). *)
From ZV Require Export Common.Bytes.
From ZV Require Import Stream.Consts.
Open Scope N_scope.

Definition len (b : bytes) : N := N.of_nat (length b).
Definition two63 : N := 9223372036854775808.
Definition two64 : N := 18446744073709551616.
Definition two31 : N := 2147483648.
Definition two32 : N := 4294967296.
Definition mask64 : N := 18446744073709551615.   (* N.ones 64 *)
Definition mask32 : N := 4294967295.             (* N.ones 32 *)

(* errors of the generated Unmarshal code *)
Inductive perr := PEof        (* io.ErrUnexpectedEOF *)
                | POverflow   (* ErrIntOverflowRaft *)
                | PInvLen     (* ErrInvalidLengthRaft *)
                | PWire       (* fmt.Errorf("proto: ...") : wrong wire type, illegal tag, end group *)
                | PFuel.      (* model artefact, unreachable: see Proofs *)
Inductive res (A : Type) := Ok (a : A) | Err (e : perr).
Arguments Ok {A} a.
Arguments Err {A} e.
Definition bind {A B} (r : res A) (k : A -> res B) : res B :=
  match r with Ok a => k a | Err e => Err e end.
Notation "'do' x <- a ; b" := (bind a (fun x => b)) (at level 200, x name, a at level 100, b at level 200).
Notation "'do' ' p <- a ; b" := (bind a (fun x => match x with p => b end))
  (at level 200, p pattern, a at level 100, b at level 200).

(* ---------- varint ---------- *)
(* encodeVarintRaft: for v >= 1<<7 { emit v&0x7f|0x80; v >>= 7 }; emit v.  A uint64 needs at most
   9 continuation bytes, which is the bound of the recursion. *)
Fixpoint varint_enc_n (n : nat) (v : N) : bytes :=
  match n with
  | O => [v]
  | S k => if v <? 128 then [v] else (N.land v 127 + 128) :: varint_enc_n k (N.shiftr v 7)
  end.
Definition varint_enc (v : N) : bytes := varint_enc_n 9 v.

(* sovRaft *)
Fixpoint sov_n (n : nat) (v : N) : N :=
  match n with
  | O => 1
  | S k => if v <? 128 then 1 else 1 + sov_n k (N.shiftr v 7)
  end.
Definition sov (v : N) : N := sov_n 9 v.

(* the decoding loop of the generated code:
     for shift := 0; ; shift += 7 { if shift >= 64 {overflow}; if iNdEx >= l {EOF};
        b := dAtA[iNdEx]; iNdEx++; x |= uint64(b&0x7F) << shift; if b < 0x80 {break} }
   [n] counts the iterations left before shift >= 64 (10 at the start); [p] = 2^shift.
   The shifted chunks never overlap, so `|=` is `+`; `<<` on uint64 drops the bits above 2^64. *)
Fixpoint varint_dec_n (n : nat) (p acc : N) (bs : bytes) : res (N * bytes) :=
  match n with
  | O => Err POverflow
  | S k =>
    match bs with
    | [] => Err PEof
    | b :: r =>
      let acc' := acc + N.land (N.land b 127 * p) mask64 in
      if b <? 128 then Ok (acc', r) else varint_dec_n k (p * 128) acc' r
    end
  end.
Definition varint_dec (bs : bytes) : res (N * bytes) := varint_dec_n 10 1 0 bs.

(* uint64(int32) sign extension, and its inverse `x |= int32(b&0x7F) << shift` (low 32 bits) *)
Definition sext32 (x : N) : N := if x <? two31 then x else x + (two64 - two32).
Definition low32 (v : N) : N := N.land v mask32.

(* fieldNum := int32(wire >> 3); wireType := int(wire & 0x7) *)
Definition tag_split (wire : N) : N * N := (low32 (N.shiftr wire 3), N.land wire 7).
(* fieldNum <= 0 *)
Definition bad_field (fnum : N) : bool := (fnum =? 0) || (two31 <=? fnum).

(* a length prefix inside a buffer of length l:  `var n int; n |= int(b&0x7F)<<shift …;
   if n < 0 {InvLen}; postIndex := iNdEx + n; if postIndex < 0 {InvLen}; if postIndex > l {EOF}`.
   Returns the length and the bytes after the varint. *)
Definition read_len_n (l : N) (rest : bytes) : res (N * bytes) :=
  do '(v, r1) <- varint_dec rest ;
  let pos := l - len r1 in
  if two63 <=? v then Err PInvLen
  else if two63 <=? pos + v then Err PInvLen
  else if l <? pos + v then Err PEof
  else Ok (v, r1).
Definition read_len (l : N) (rest : bytes) : res (bytes * bytes) :=
  do '(v, r1) <- read_len_n l rest ;
  Ok (firstn (N.to_nat v) r1, skipn (N.to_nat v) r1).

(* ---------- skipRaft ---------- *)
(* The body of a start-group field (wire type 3): skip inner fields until the matching end-group tag.
     for { start := iNdEx; read innerWire; if innerWire&7 == 4 {break};
           next := skipRaft(dAtA[start:]); iNdEx = start + next; if iNdEx < 0 {InvLen} }
   [rec] is skipRaft itself (one level of nesting deeper), [idx] = iNdEx, [k] bounds the number of
   inner fields (each consumes at least one byte). *)
Fixpoint skip_group (rec : bytes -> res N) (bs : bytes) (k : nat) (idx : N) : res N :=
  match k with
  | O => Err PFuel
  | S k' =>
    let cur := skipn (N.to_nat idx) bs in
    do '(iw, r) <- varint_dec cur ;
    if N.land iw 7 =? 4 then Ok (idx + (len cur - len r))
    else
      do next <- rec cur ;
      if two63 <=? idx + next then Err PInvLen else skip_group rec bs k' (idx + next)
  end.

(* skipRaft: returns the number of bytes the unknown field occupies, counted from the start of [bs]
   (which may exceed the buffer: the caller checks). [fuel] bounds the nesting of groups and the
   number of fields inside a group; every level / iteration consumes at least one byte. *)
Fixpoint skip_raft (fuel : nat) (bs : bytes) : res N :=
  match fuel with
  | O => Err PFuel
  | S f =>
    do '(wire, r1) <- varint_dec bs ;
    let i1 := len bs - len r1 in
    match N.land wire 7 with
    | 0 => do '(_, r2) <- varint_dec r1 ; Ok (len bs - len r2)
    | 1 => Ok (i1 + 8)
    | 2 => do '(v, r2) <- varint_dec r1 ;
           let i2 := len bs - len r2 in
           if two63 <=? v then Err PInvLen
           else if two63 <=? i2 + v then Err PInvLen
           else Ok (i2 + v)
    | 3 => skip_group (skip_raft f) bs f i1
    | 4 => Ok i1
    | 5 => Ok (i1 + 4)
    | _ => Err PWire
    end
  end.

(* the `default:` arm of every Unmarshal switch *)
Definition skip_field (l : N) (rest : bytes) : res bytes :=
  do n <- skip_raft (S (length rest)) rest ;
  let pos := l - len rest in
  if two63 <=? pos + n then Err PInvLen
  else if l <? pos + n then Err PEof
  else Ok (skipn (N.to_nat n) rest).

(* ---------- the wire types ---------- *)
Record group := mkGroup { g_node : N; g_name : bytes; g_gid : N; g_rid : N }.
Record entry := mkEntry { e_type : N; e_term : N; e_index : N; e_data : option bytes;
                          e_id : N; e_dtype : N; e_ts : N }.
Record confstate := mkConf { c_nodes : list N; c_groups : list group;
                             c_learners : list N; c_lgroups : list group }.
Record snapmeta := mkMeta { sm_conf : confstate; sm_index : N; sm_term : N }.
Record snapshot := mkSnap { s_data : option bytes; s_meta : snapmeta }.
Record message := mkMsg { m_type : N; m_to : N; m_from : N; m_term : N; m_logterm : N; m_index : N;
                          m_entries : list entry; m_commit : N; m_snap : snapshot; m_reject : bool;
                          m_rhint : N; m_ctx : option bytes; m_fromg : group; m_tog : group }.

Definition group0 : group := mkGroup 0 [] 0 0.
Definition entry0 : entry := mkEntry 0 0 0 None 0 0 0.
Definition conf0 : confstate := mkConf [] [] [] [].
Definition meta0 : snapmeta := mkMeta conf0 0 0.
Definition snap0 : snapshot := mkSnap None meta0.
Definition msg0 : message := mkMsg 0 0 0 0 0 0 [] 0 snap0 false 0 None group0 group0.

(* ---------- Size() and MarshalTo() ---------- *)
Definition vfield (tag v : N) : bytes := tag :: varint_enc v.
Definition vfield_size (v : N) : N := 1 + sov v.
Definition bfield (tag : N) (d : bytes) : bytes := tag :: varint_enc (len d) ++ d.
Definition bfield_size (l : N) : N := 1 + l + sov l.
Definition obfield (tag : N) (d : option bytes) : bytes :=
  match d with None => [] | Some d => bfield tag d end.
Definition obfield_size (d : option bytes) : N :=
  match d with None => 0 | Some d => bfield_size (len d) end.

Definition group_size (g : group) : N :=
  vfield_size (g_node g) + bfield_size (len (g_name g)) + vfield_size (g_gid g) + vfield_size (g_rid g).
Definition group_marshal (g : group) : bytes :=
  vfield tg_Group_NodeId (g_node g) ++ bfield tg_Group_Name (g_name g) ++ vfield tg_Group_GroupId (g_gid g) ++ vfield tg_Group_RaftReplicaId (g_rid g).

Definition entry_size (e : entry) : N :=
  vfield_size (sext32 (e_type e)) + vfield_size (e_term e) + vfield_size (e_index e) +
  obfield_size (e_data e) + vfield_size (e_id e) + vfield_size (sext32 (e_dtype e)) + vfield_size (e_ts e).
Definition entry_marshal (e : entry) : bytes :=
  vfield tg_Entry_Type (sext32 (e_type e)) ++ vfield tg_Entry_Term (e_term e) ++ vfield tg_Entry_Index (e_index e) ++
  obfield tg_Entry_Data (e_data e) ++ vfield tg_Entry_ID (e_id e) ++ vfield tg_Entry_DataType (sext32 (e_dtype e)) ++
  vfield tg_Entry_Timestamp (e_ts e).

Definition sum_map {A} (f : A -> N) (l : list A) : N := fold_right (fun a s => f a + s) 0 l.
Definition conf_size (c : confstate) : N :=
  sum_map vfield_size (c_nodes c) + sum_map (fun g => bfield_size (group_size g)) (c_groups c) +
  sum_map vfield_size (c_learners c) + sum_map (fun g => bfield_size (group_size g)) (c_lgroups c).
Definition conf_marshal (c : confstate) : bytes :=
  concat (map (vfield tg_ConfState_Nodes) (c_nodes c)) ++
  concat (map (fun g => tg_ConfState_Groups :: varint_enc (group_size g) ++ group_marshal g) (c_groups c)) ++
  concat (map (vfield tg_ConfState_Learners) (c_learners c)) ++
  concat (map (fun g => tg_ConfState_LearnerGroups :: varint_enc (group_size g) ++ group_marshal g) (c_lgroups c)).

Definition meta_size (s : snapmeta) : N :=
  bfield_size (conf_size (sm_conf s)) + vfield_size (sm_index s) + vfield_size (sm_term s).
Definition meta_marshal (s : snapmeta) : bytes :=
  tg_SnapshotMetadata_ConfState :: varint_enc (conf_size (sm_conf s)) ++ conf_marshal (sm_conf s) ++
  vfield tg_SnapshotMetadata_Index (sm_index s) ++ vfield tg_SnapshotMetadata_Term (sm_term s).

Definition snap_size (s : snapshot) : N :=
  obfield_size (s_data s) + bfield_size (meta_size (s_meta s)).
Definition snap_marshal (s : snapshot) : bytes :=
  obfield tg_Snapshot_Data (s_data s) ++ tg_Snapshot_Metadata :: varint_enc (meta_size (s_meta s)) ++ meta_marshal (s_meta s).

Definition msg_size (m : message) : N :=
  vfield_size (sext32 (m_type m)) + vfield_size (m_to m) + vfield_size (m_from m) + vfield_size (m_term m) +
  vfield_size (m_logterm m) + vfield_size (m_index m) +
  sum_map (fun e => bfield_size (entry_size e)) (m_entries m) +
  vfield_size (m_commit m) + bfield_size (snap_size (m_snap m)) + 2 + vfield_size (m_rhint m) +
  obfield_size (m_ctx m) + bfield_size (group_size (m_fromg m)) + bfield_size (group_size (m_tog m)).
Definition msg_marshal (m : message) : bytes :=
  vfield tg_Message_Type (sext32 (m_type m)) ++ vfield tg_Message_To (m_to m) ++ vfield tg_Message_From (m_from m) ++
  vfield tg_Message_Term (m_term m) ++ vfield tg_Message_LogTerm (m_logterm m) ++ vfield tg_Message_Index (m_index m) ++
  concat (map (fun e => tg_Message_Entries :: varint_enc (entry_size e) ++ entry_marshal e) (m_entries m)) ++
  vfield tg_Message_Commit (m_commit m) ++
  (tg_Message_Snapshot :: varint_enc (snap_size (m_snap m)) ++ snap_marshal (m_snap m)) ++
  [tg_Message_Reject; if m_reject m then 1 else 0] ++
  vfield tg_Message_RejectHint (m_rhint m) ++
  obfield tg_Message_Context (m_ctx m) ++
  (tg_Message_FromGroup :: varint_enc (group_size (m_fromg m)) ++ group_marshal (m_fromg m)) ++
  (tg_Message_ToGroup :: varint_enc (group_size (m_tog m)) ++ group_marshal (m_tog m)).

(* ---------- Unmarshal() ---------- *)
(* setters *)
Definition set_g_node v g := mkGroup v (g_name g) (g_gid g) (g_rid g).
Definition set_g_name v g := mkGroup (g_node g) v (g_gid g) (g_rid g).
Definition set_g_gid v g := mkGroup (g_node g) (g_name g) v (g_rid g).
Definition set_g_rid v g := mkGroup (g_node g) (g_name g) (g_gid g) v.

Definition set_e_type v e := mkEntry v (e_term e) (e_index e) (e_data e) (e_id e) (e_dtype e) (e_ts e).
Definition set_e_term v e := mkEntry (e_type e) v (e_index e) (e_data e) (e_id e) (e_dtype e) (e_ts e).
Definition set_e_index v e := mkEntry (e_type e) (e_term e) v (e_data e) (e_id e) (e_dtype e) (e_ts e).
Definition set_e_data v e := mkEntry (e_type e) (e_term e) (e_index e) v (e_id e) (e_dtype e) (e_ts e).
Definition set_e_id v e := mkEntry (e_type e) (e_term e) (e_index e) (e_data e) v (e_dtype e) (e_ts e).
Definition set_e_dtype v e := mkEntry (e_type e) (e_term e) (e_index e) (e_data e) (e_id e) v (e_ts e).
Definition set_e_ts v e := mkEntry (e_type e) (e_term e) (e_index e) (e_data e) (e_id e) (e_dtype e) v.

Definition set_c_nodes v c := mkConf v (c_groups c) (c_learners c) (c_lgroups c).
Definition set_c_groups v c := mkConf (c_nodes c) v (c_learners c) (c_lgroups c).
Definition set_c_learners v c := mkConf (c_nodes c) (c_groups c) v (c_lgroups c).
Definition set_c_lgroups v c := mkConf (c_nodes c) (c_groups c) (c_learners c) v.

Definition set_sm_conf v s := mkMeta v (sm_index s) (sm_term s).
Definition set_sm_index v s := mkMeta (sm_conf s) v (sm_term s).
Definition set_sm_term v s := mkMeta (sm_conf s) (sm_index s) v.

Definition set_s_data v s := mkSnap v (s_meta s).
Definition set_s_meta v s := mkSnap (s_data s) v.

Definition set_m_type v m := mkMsg v (m_to m) (m_from m) (m_term m) (m_logterm m) (m_index m) (m_entries m) (m_commit m) (m_snap m) (m_reject m) (m_rhint m) (m_ctx m) (m_fromg m) (m_tog m).
Definition set_m_to v m := mkMsg (m_type m) v (m_from m) (m_term m) (m_logterm m) (m_index m) (m_entries m) (m_commit m) (m_snap m) (m_reject m) (m_rhint m) (m_ctx m) (m_fromg m) (m_tog m).
Definition set_m_from v m := mkMsg (m_type m) (m_to m) v (m_term m) (m_logterm m) (m_index m) (m_entries m) (m_commit m) (m_snap m) (m_reject m) (m_rhint m) (m_ctx m) (m_fromg m) (m_tog m).
Definition set_m_term v m := mkMsg (m_type m) (m_to m) (m_from m) v (m_logterm m) (m_index m) (m_entries m) (m_commit m) (m_snap m) (m_reject m) (m_rhint m) (m_ctx m) (m_fromg m) (m_tog m).
Definition set_m_logterm v m := mkMsg (m_type m) (m_to m) (m_from m) (m_term m) v (m_index m) (m_entries m) (m_commit m) (m_snap m) (m_reject m) (m_rhint m) (m_ctx m) (m_fromg m) (m_tog m).
Definition set_m_index v m := mkMsg (m_type m) (m_to m) (m_from m) (m_term m) (m_logterm m) v (m_entries m) (m_commit m) (m_snap m) (m_reject m) (m_rhint m) (m_ctx m) (m_fromg m) (m_tog m).
Definition set_m_entries v m := mkMsg (m_type m) (m_to m) (m_from m) (m_term m) (m_logterm m) (m_index m) v (m_commit m) (m_snap m) (m_reject m) (m_rhint m) (m_ctx m) (m_fromg m) (m_tog m).
Definition set_m_commit v m := mkMsg (m_type m) (m_to m) (m_from m) (m_term m) (m_logterm m) (m_index m) (m_entries m) v (m_snap m) (m_reject m) (m_rhint m) (m_ctx m) (m_fromg m) (m_tog m).
Definition set_m_snap v m := mkMsg (m_type m) (m_to m) (m_from m) (m_term m) (m_logterm m) (m_index m) (m_entries m) (m_commit m) v (m_reject m) (m_rhint m) (m_ctx m) (m_fromg m) (m_tog m).
Definition set_m_reject v m := mkMsg (m_type m) (m_to m) (m_from m) (m_term m) (m_logterm m) (m_index m) (m_entries m) (m_commit m) (m_snap m) v (m_rhint m) (m_ctx m) (m_fromg m) (m_tog m).
Definition set_m_rhint v m := mkMsg (m_type m) (m_to m) (m_from m) (m_term m) (m_logterm m) (m_index m) (m_entries m) (m_commit m) (m_snap m) (m_reject m) v (m_ctx m) (m_fromg m) (m_tog m).
Definition set_m_ctx v m := mkMsg (m_type m) (m_to m) (m_from m) (m_term m) (m_logterm m) (m_index m) (m_entries m) (m_commit m) (m_snap m) (m_reject m) (m_rhint m) v (m_fromg m) (m_tog m).
Definition set_m_fromg v m := mkMsg (m_type m) (m_to m) (m_from m) (m_term m) (m_logterm m) (m_index m) (m_entries m) (m_commit m) (m_snap m) (m_reject m) (m_rhint m) (m_ctx m) v (m_tog m).
Definition set_m_tog v m := mkMsg (m_type m) (m_to m) (m_from m) (m_term m) (m_logterm m) (m_index m) (m_entries m) (m_commit m) (m_snap m) (m_reject m) (m_rhint m) (m_ctx m) (m_fromg m) v.

(* a varint-typed known field: `if wireType != 0 {error}; x = 0; x |= …` *)
Definition vread (wt : N) (r : bytes) : res (N * bytes) :=
  if wt =? 0 then varint_dec r else Err PWire.
(* a length-delimited known field *)
Definition bread (wt l : N) (r : bytes) : res (bytes * bytes) :=
  if wt =? 2 then read_len l r else Err PWire.

(* the loop head shared by every Unmarshal: read the tag, reject end-group and field <= 0 *)
Definition read_tag (rest : bytes) : res (N * N * bytes) :=
  do '(wire, r1) <- varint_dec rest ;
  let '(fnum, wt) := tag_split wire in
  if wt =? 4 then Err PWire
  else if bad_field fnum then Err PWire
  else Ok (fnum, wt, r1).

(* The loop shared by every generated Unmarshal:  for iNdEx < l { one field }.
   [step l x rest] handles the field at the head of [rest] (the buffer has length l, so
   iNdEx = l - len rest) and returns the updated receiver and the bytes after the field.
   Every field occupies at least one byte, so fuel = S (length buffer) is never exhausted. *)
Fixpoint fields_loop {X : Type} (step : N -> X -> bytes -> res (X * bytes))
         (fuel : nat) (l : N) (x : X) (rest : bytes) : res X :=
  match rest with
  | [] => Ok x
  | _ :: _ =>
    match fuel with
    | O => Err PFuel
    | S f => do '(x', r2) <- step l x rest ; fields_loop step f l x' r2
    end
  end.
Definition unmarshal_with {X : Type} (step : N -> X -> bytes -> res (X * bytes)) (x : X) (bs : bytes) : res X :=
  fields_loop step (S (length bs)) (len bs) x bs.

(* Group.Unmarshal *)
Definition group_step (l : N) (g : group) (rest : bytes) : res (group * bytes) :=
  do '(fnum, wt, r1) <- read_tag rest ;
  if fnum =? fn_Group_NodeId then do '(v, r2) <- vread wt r1 ; Ok (set_g_node v g, r2)
  else if fnum =? fn_Group_Name then do '(d, r2) <- bread wt l r1 ; Ok (set_g_name d g, r2)
  else if fnum =? fn_Group_GroupId then do '(v, r2) <- vread wt r1 ; Ok (set_g_gid v g, r2)
  else if fnum =? fn_Group_RaftReplicaId then do '(v, r2) <- vread wt r1 ; Ok (set_g_rid v g, r2)
  else do r2 <- skip_field l rest ; Ok (g, r2).
Definition group_unmarshal_into : group -> bytes -> res group := unmarshal_with group_step.

(* Entry.Unmarshal *)
Definition entry_step (l : N) (e : entry) (rest : bytes) : res (entry * bytes) :=
  do '(fnum, wt, r1) <- read_tag rest ;
  if fnum =? fn_Entry_Type then do '(v, r2) <- vread wt r1 ; Ok (set_e_type (low32 v) e, r2)
  else if fnum =? fn_Entry_Term then do '(v, r2) <- vread wt r1 ; Ok (set_e_term v e, r2)
  else if fnum =? fn_Entry_Index then do '(v, r2) <- vread wt r1 ; Ok (set_e_index v e, r2)
  else if fnum =? fn_Entry_Data then do '(d, r2) <- bread wt l r1 ; Ok (set_e_data (Some d) e, r2)
  else if fnum =? fn_Entry_ID then do '(v, r2) <- vread wt r1 ; Ok (set_e_id v e, r2)
  else if fnum =? fn_Entry_DataType then do '(v, r2) <- vread wt r1 ; Ok (set_e_dtype (low32 v) e, r2)
  else if fnum =? fn_Entry_Timestamp then do '(v, r2) <- vread wt r1 ; Ok (set_e_ts v e, r2)
  else do r2 <- skip_field l rest ; Ok (e, r2).
Definition entry_unmarshal_into : entry -> bytes -> res entry := unmarshal_with entry_step.

(* packed repeated uint64 (ConfState.Nodes / Learners, wire type 2):
     for iNdEx < postIndex { v := varint read with the bound l of the WHOLE buffer; append }
   [k] = postIndex - iNdEx; a varint may run past postIndex (then the loop simply ends). *)
Fixpoint packed_loop (fuel : nat) (k : N) (acc : list N) (rest : bytes) : res (list N * bytes) :=
  if k =? 0 then Ok (acc, rest)
  else match fuel with
       | O => Err PFuel
       | S f => do '(v, r2) <- varint_dec rest ;
                packed_loop f (k - (len rest - len r2)) (acc ++ [v]) r2
       end.
(* a repeated uint64 field: wire type 0 (one value) or 2 (packed) *)
Definition nums_read (wt l : N) (acc : list N) (r1 : bytes) : res (list N * bytes) :=
  if wt =? 0 then do '(v, r2) <- varint_dec r1 ; Ok (acc ++ [v], r2)
  else if wt =? 2 then do '(k, r2) <- read_len_n l r1 ; packed_loop (S (length r2)) k acc r2
  else Err PWire.

(* ConfState.Unmarshal *)
Definition conf_step (l : N) (c : confstate) (rest : bytes) : res (confstate * bytes) :=
  do '(fnum, wt, r1) <- read_tag rest ;
  if fnum =? fn_ConfState_Nodes then do '(ns, r2) <- nums_read wt l (c_nodes c) r1 ; Ok (set_c_nodes ns c, r2)
  else if fnum =? fn_ConfState_Groups then do '(d, r2) <- bread wt l r1 ;
         do g <- group_unmarshal_into group0 d ;
         Ok (set_c_groups (c_groups c ++ [g]) c, r2)
  else if fnum =? fn_ConfState_Learners then do '(ns, r2) <- nums_read wt l (c_learners c) r1 ; Ok (set_c_learners ns c, r2)
  else if fnum =? fn_ConfState_LearnerGroups then do '(d, r2) <- bread wt l r1 ;
         do g <- group_unmarshal_into group0 d ;
         Ok (set_c_lgroups (c_lgroups c ++ [g]) c, r2)
  else do r2 <- skip_field l rest ; Ok (c, r2).
Definition conf_unmarshal_into : confstate -> bytes -> res confstate := unmarshal_with conf_step.

(* SnapshotMetadata.Unmarshal *)
Definition meta_step (l : N) (s : snapmeta) (rest : bytes) : res (snapmeta * bytes) :=
  do '(fnum, wt, r1) <- read_tag rest ;
  if fnum =? fn_SnapshotMetadata_ConfState then do '(d, r2) <- bread wt l r1 ;
         do c <- conf_unmarshal_into (sm_conf s) d ;
         Ok (set_sm_conf c s, r2)
  else if fnum =? fn_SnapshotMetadata_Index then do '(v, r2) <- vread wt r1 ; Ok (set_sm_index v s, r2)
  else if fnum =? fn_SnapshotMetadata_Term then do '(v, r2) <- vread wt r1 ; Ok (set_sm_term v s, r2)
  else do r2 <- skip_field l rest ; Ok (s, r2).
Definition meta_unmarshal_into : snapmeta -> bytes -> res snapmeta := unmarshal_with meta_step.

(* Snapshot.Unmarshal *)
Definition snap_step (l : N) (s : snapshot) (rest : bytes) : res (snapshot * bytes) :=
  do '(fnum, wt, r1) <- read_tag rest ;
  if fnum =? fn_Snapshot_Data then do '(d, r2) <- bread wt l r1 ; Ok (set_s_data (Some d) s, r2)
  else if fnum =? fn_Snapshot_Metadata then do '(d, r2) <- bread wt l r1 ;
         do md <- meta_unmarshal_into (s_meta s) d ;
         Ok (set_s_meta md s, r2)
  else do r2 <- skip_field l rest ; Ok (s, r2).
Definition snap_unmarshal_into : snapshot -> bytes -> res snapshot := unmarshal_with snap_step.

(* Message.Unmarshal.  Note field 10: `var v int; ...; m.Reject = bool(v != 0)`. *)
Definition msg_step (l : N) (m : message) (rest : bytes) : res (message * bytes) :=
  do '(fnum, wt, r1) <- read_tag rest ;
  if fnum =? fn_Message_Type then do '(v, r2) <- vread wt r1 ; Ok (set_m_type (low32 v) m, r2)
  else if fnum =? fn_Message_To then do '(v, r2) <- vread wt r1 ; Ok (set_m_to v m, r2)
  else if fnum =? fn_Message_From then do '(v, r2) <- vread wt r1 ; Ok (set_m_from v m, r2)
  else if fnum =? fn_Message_Term then do '(v, r2) <- vread wt r1 ; Ok (set_m_term v m, r2)
  else if fnum =? fn_Message_LogTerm then do '(v, r2) <- vread wt r1 ; Ok (set_m_logterm v m, r2)
  else if fnum =? fn_Message_Index then do '(v, r2) <- vread wt r1 ; Ok (set_m_index v m, r2)
  else if fnum =? fn_Message_Entries then do '(d, r2) <- bread wt l r1 ;
         do e <- entry_unmarshal_into entry0 d ;
         Ok (set_m_entries (m_entries m ++ [e]) m, r2)
  else if fnum =? fn_Message_Commit then do '(v, r2) <- vread wt r1 ; Ok (set_m_commit v m, r2)
  else if fnum =? fn_Message_Snapshot then do '(d, r2) <- bread wt l r1 ;
         do s <- snap_unmarshal_into (m_snap m) d ;
         Ok (set_m_snap s m, r2)
  else if fnum =? fn_Message_Reject then do '(v, r2) <- vread wt r1 ; Ok (set_m_reject (negb (v =? 0)) m, r2)
  else if fnum =? fn_Message_RejectHint then do '(v, r2) <- vread wt r1 ; Ok (set_m_rhint v m, r2)
  else if fnum =? fn_Message_Context then do '(d, r2) <- bread wt l r1 ; Ok (set_m_ctx (Some d) m, r2)
  else if fnum =? fn_Message_FromGroup then do '(d, r2) <- bread wt l r1 ;
          do g <- group_unmarshal_into (m_fromg m) d ;
          Ok (set_m_fromg g m, r2)
  else if fnum =? fn_Message_ToGroup then do '(d, r2) <- bread wt l r1 ;
          do g <- group_unmarshal_into (m_tog m) d ;
          Ok (set_m_tog g m, r2)
  else do r2 <- skip_field l rest ; Ok (m, r2).
Definition msg_unmarshal_into : message -> bytes -> res message := unmarshal_with msg_step.

Definition msg_unmarshal (bs : bytes) : res message := msg_unmarshal_into msg0 bs.
Definition entry_unmarshal (bs : bytes) : res entry := entry_unmarshal_into entry0 bs.

(* ---------- value ranges (every field is a value of its Go type), as boolean predicates ---------- *)
Definition u64 (x : N) : bool := x <? two64.
Definition u32 (x : N) : bool := x <? two32.
Definition group_ok (g : group) : bool := u64 (g_node g) && u64 (g_gid g) && u64 (g_rid g).
Definition entry_ok (e : entry) : bool :=
  u32 (e_type e) && u64 (e_term e) && u64 (e_index e) && u64 (e_id e) && u32 (e_dtype e) && u64 (e_ts e).
Definition conf_ok (c : confstate) : bool :=
  forallb u64 (c_nodes c) && forallb group_ok (c_groups c) && forallb u64 (c_learners c) && forallb group_ok (c_lgroups c).
Definition snap_ok (s : snapshot) : bool :=
  conf_ok (sm_conf (s_meta s)) && u64 (sm_index (s_meta s)) && u64 (sm_term (s_meta s)).
(* every field is a value of its Go type, and the encoding is shorter than 2^63 bytes (Go's int) *)
Definition msg_ok (m : message) : bool :=
  u32 (m_type m) && u64 (m_to m) && u64 (m_from m) && u64 (m_term m) && u64 (m_logterm m) && u64 (m_index m) &&
  forallb entry_ok (m_entries m) && u64 (m_commit m) && snap_ok (m_snap m) && u64 (m_rhint m) &&
  group_ok (m_fromg m) && group_ok (m_tog m) && (msg_size m <? two63).

