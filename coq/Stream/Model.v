(* Stream/Model.v — C16: the rafthttp stream codecs.
   Hand-written model of:
     transport/rafthttp/msgappv2_codec.go   msgAppV2Encoder.encode / isContinue / isSameGroup,
                                             msgAppV2Decoder.decode
     transport/rafthttp/msg_codec.go        messageEncoder.encode, messageDecoder.decode
     transport/rafthttp/stream.go           linkHeartbeatMessage, isLinkHeartbeatMessage
     io.ReadFull / encoding/binary (big endian uint64) on an in-memory reader
   over the protobuf layer of Stream/Proto.v.  A stream is the list of bytes written so far.
   Go run-time panics are an explicit outcome: `make([]T, int(n))` with a negative or over-large
   length panics (makeslice: len out of range) -> DPanic.
   No proofs in this file. *)
From ZV Require Export Stream.Proto.
From ZV Require Import Stream.Consts.
Open Scope N_scope.

(* ---------- big-endian fixed-width integers (binary.BigEndian.PutUint64 / Uint64) ---------- *)
Fixpoint be_enc (n : nat) (v : N) : bytes :=
  match n with
  | O => []
  | S k => be_enc k (N.shiftr v 8) ++ [N.land v 255]
  end.
Definition be_dec (bs : bytes) : N := fold_left (fun acc b => acc * 256 + b) bs 0.
Definition be64 (v : N) : bytes := be_enc 8 v.

(* ---------- reader ---------- *)
Inductive derr := DEof            (* io.EOF *)
                | DUnexpEof       (* io.ErrUnexpectedEOF from ReadFull *)
                | DProto (e : perr)
                | DLimit          (* ErrExceedSizeLimit *)
                | DMismatch       (* "remote node and local node maybe not matched" *)
                | DBadType        (* "failed to parse type %d in msgappv2 stream" *)
                | DPanic          (* Go run-time panic *)
                | DFuel.          (* model artefact, unreachable *)
Inductive dres (A : Type) := DOk (a : A) | DErr (e : derr).
Arguments DOk {A} a.
Arguments DErr {A} e.
Definition dbind {A B} (r : dres A) (k : A -> dres B) : dres B :=
  match r with DOk a => k a | DErr e => DErr e end.
Notation "'dlet' x <- a ; b" := (dbind a (fun x => b)) (at level 200, x name, a at level 100, b at level 200).
Notation "'dlet' ' p <- a ; b" := (dbind a (fun x => match x with p => b end))
  (at level 200, p pattern, a at level 100, b at level 200).

(* does s hold at least n bytes?  (n may be an arbitrary uint64: never converted to nat) *)
Fixpoint has_bytes (s : bytes) (n : N) : bool :=
  match s with
  | [] => n =? 0
  | _ :: r => if n =? 0 then true else has_bytes r (N.pred n)
  end.
(* io.ReadFull(r, buf[:n]) on the remaining stream s *)
Definition read_full (n : N) (s : bytes) : dres (bytes * bytes) :=
  if n =? 0 then DOk ([], s)
  else match s with
       | [] => DErr DEof
       | _ :: _ => if has_bytes s n then DOk (firstn (N.to_nat n) s, skipn (N.to_nat n) s)
                   else DErr DUnexpEof
       end.
Definition read_u64 (s : bytes) : dres (N * bytes) :=
  dlet '(b, r) <- read_full 8 s ; DOk (be_dec b, r).

(* make([]T, int(n)) with elements of [elt] bytes panics *)
Definition make_panics (n elt : N) : bool := (two63 <=? n) || (max_alloc <? n * elt).

Definition lift {A} (r : res A) : dres A :=
  match r with Ok a => DOk a | Err e => DErr (DProto e) end.

(* ---------- msgappv2 ---------- *)
Record cstate := mkSt { st_term : N; st_index : N; st_tog : group; st_fromg : group }.
Definition st0 : cstate := mkSt 0 0 group0 group0.

Definition link_heartbeat : message := set_m_type link_heartbeat_type msg0.
Definition is_link_heartbeat (m : message) : bool :=
  (m_type m =? msg_heartbeat) && (m_from m =? 0) && (m_to m =? 0).
Definition same_group (a b : group) : bool :=
  (g_node a =? g_node b) && (g_gid a =? g_gid b) && (g_rid a =? g_rid b).
Definition is_continue (st : cstate) (m : message) : bool :=
  (st_index st =? m_index m) && (st_term st =? m_logterm m) && (m_logterm m =? m_term m) &&
  same_group (st_tog st) (m_tog m) && same_group (st_fromg st) (m_fromg m).

Definition last_index (dflt : N) (es : list entry) : N :=
  match rev es with [] => dflt | e :: _ => e_index e end.
(* what both sides remember after a full MsgApp frame *)
Definition st_after_full (m : message) : cstate :=
  mkSt (m_term m) (last_index (m_index m) (m_entries m)) (m_tog m) (m_fromg m).
(* index++ once per entry, on a uint64 *)
Definition st_after_entries (st : cstate) (n : N) : cstate :=
  mkSt (st_term st) (N.land (st_index st + n) mask64) (st_tog st) (st_fromg st).

Definition nlen {A} (l : list A) : N := N.of_nat (length l).
Definition entry_frame (e : entry) : bytes := be64 (entry_size e) ++ entry_marshal e.

(* msgAppV2Encoder.encode: the bytes written and the encoder's new context.
   `if n <= msgAppV2BufSize { MarshalTo(enc.buf[:n]); Write(enc.buf[:n]) } else { Write(MustMarshal(..)) }`
   writes the same bytes on both branches. *)
Definition v2_frame (st : cstate) (m : message) : bytes :=
  if is_link_heartbeat m then [frame_link_heartbeat]
  else if is_continue st m then
    frame_app_entries :: be64 (nlen (m_entries m)) ++ concat (map entry_frame (m_entries m)) ++ be64 (m_commit m)
  else
    frame_app :: be64 (msg_size m) ++ msg_marshal m.
Definition v2_next (st : cstate) (m : message) : cstate :=
  if is_link_heartbeat m then st
  else if is_continue st m then st_after_entries st (nlen (m_entries m))
  else st_after_full m.
Definition v2_encode (st : cstate) (m : message) : bytes * cstate := (v2_frame st m, v2_next st m).

Fixpoint v2_encode_all (st : cstate) (ms : list message) : bytes :=
  match ms with
  | [] => []
  | m :: r => v2_frame st m ++ v2_encode_all (v2_next st m) r
  end.
Definition v2_enc_state (st : cstate) (ms : list message) : cstate := fold_left v2_next ms st.

(* the entries of an AppEntries frame. [cnt] = entries still to read; every iteration consumes at
   least the 8 length bytes; the fuel is a LIST one longer than the stream (only its length matters: taking
   the stream itself avoids computing a length per frame), never exhausted. *)
Fixpoint read_entries (fuel : bytes) (cnt : N) (acc : list entry) (s : bytes) : dres (list entry * bytes) :=
  if cnt =? 0 then DOk (acc, s)
  else match fuel with
       | [] => DErr DFuel
       | _ :: f =>
         dlet '(size, s1) <- read_u64 s ;
         if read_bytes_limit <? size then DErr DLimit
         else if (v2_buf_size <? size) && make_panics size 1 then DErr DPanic
         else
           dlet '(buf, s2) <- read_full size s1 ;
           dlet e <- lift (entry_unmarshal buf) ;
           read_entries f (cnt - 1) (acc ++ [e]) s2
       end.

(* msgAppV2Decoder.decode *)
Definition v2_decode (local remote : N) (st : cstate) (s : bytes) : dres (message * cstate * bytes) :=
  match s with
  | [] => DErr DEof
  | typ :: s1 =>
    if typ =? frame_link_heartbeat then DOk (link_heartbeat, st, s1)
    else if typ =? frame_app_entries then
      if negb (remote =? g_node (st_fromg st)) || negb (local =? g_node (st_tog st)) then DErr DMismatch
      else
        dlet '(l, s2) <- read_u64 s1 ;
        if read_bytes_limit / 8 <? l then DErr DLimit
        else if make_panics l entry_sizeof then DErr DPanic
        else
          dlet '(es, s3) <- read_entries (0 :: s2) l [] s2 ;
          dlet '(commit, s4) <- read_u64 s3 ;
          DOk (mkMsg msg_app (g_rid (st_tog st)) (g_rid (st_fromg st)) (st_term st) (st_term st) (st_index st)
                     es commit snap0 false 0 None (st_fromg st) (st_tog st),
               st_after_entries st l, s4)
    else if typ =? frame_app then
      dlet '(size, s2) <- read_u64 s1 ;
      if read_bytes_limit <? size then DErr DLimit
      else if (v2_buf_size <? size) && make_panics size 1 then DErr DPanic
      else
        dlet '(buf, s3) <- read_full size s2 ;
        dlet m <- lift (msg_unmarshal buf) ;
        DOk (m, st_after_full m, s3)
    else DErr DBadType
  end.

(* the reader loop of streamReader.decodeLoop: decode until the decoder errs *)
Fixpoint v2_decode_all (fuel : nat) (local remote : N) (st : cstate) (s : bytes) : list message * derr :=
  match fuel with
  | O => ([], DFuel)
  | S f =>
    match v2_decode local remote st s with
    | DErr e => ([], e)
    | DOk (m, st', s') => let '(ms, e) := v2_decode_all f local remote st' s' in (m :: ms, e)
    end
  end.
Definition v2_run (local remote : N) (s : bytes) : list message * derr :=
  v2_decode_all (S (length s)) local remote st0 s.

(* ---------- connections ---------- *)
(* A peer stream is a sequence of connections (the remote re-dials after every failure). For each
   connection streamWriter.run builds a NEW encoder (`case conn := <-cw.connc: ... enc =
   newMsgAppV2Encoder(conn.Writer, cw.ps)`) and streamReader.decodeLoop a NEW decoder: both ends start
   every connection from the zero context st0. [conns] = the messages written to each connection. *)
Definition conns_encode (conns : list (list message)) : list bytes := map (v2_encode_all st0) conns.
Definition conns_run (local remote : N) (streams : list bytes) : list (list message * derr) :=
  map (v2_run local remote) streams.

(* NOT the code: a writer that keeps its encoder (and so the context) when a new connection is attached.
   Used only by the `_refuted` lemma that shows why attach must reset the encoder. *)
Fixpoint conns_encode_carrying (st : cstate) (conns : list (list message)) : list bytes :=
  match conns with
  | [] => []
  | ms :: r => v2_encode_all st ms :: conns_encode_carrying (v2_enc_state st ms) r
  end.

(* ---------- the plain message codec ---------- *)
Definition plain_encode (m : message) : bytes := be64 (msg_size m) ++ msg_marshal m.
Definition plain_encode_all (ms : list message) : bytes := concat (map plain_encode ms).

Definition plain_decode (s : bytes) : dres (message * bytes) :=
  dlet '(l, s1) <- read_u64 s ;
  if read_bytes_limit <? l then DErr DLimit
  else
    dlet '(buf, s2) <- read_full l s1 ;
    dlet m <- lift (msg_unmarshal buf) ;
    DOk (m, s2).

Fixpoint plain_decode_all (fuel : nat) (s : bytes) : list message * derr :=
  match fuel with
  | O => ([], DFuel)
  | S f =>
    match plain_decode s with
    | DErr e => ([], e)
    | DOk (m, s') => let '(ms, e) := plain_decode_all f s' in (m :: ms, e)
    end
  end.
Definition plain_run (s : bytes) : list message * derr := plain_decode_all (S (length s)) s.

(* ---------- the pipeline and the snapshot path ---------- *)
(* pipeline.go: the POST body is pbutil.MustMarshal(&m), nothing else; pipelineHandler reads the whole body
   (ioutil.ReadAll: a body shorter than its Content-Length is an error of net/http, [short]) and unmarshals it *)
Definition pipeline_body (m : message) : bytes := msg_marshal m.
Definition pipeline_receive (short : bool) (body : bytes) : option message :=
  if short then None
  else match msg_unmarshal body with Ok m => Some m | Err _ => None end.

(* snapshot_sender.go createSnapBody: a messageEncoder frame followed by the snapshot file;
   snapshotHandler: messageDecoder{r: r.Body}.decode(), the type must be MsgSnap, then
   SaveDBFrom(r.Body, m) consumes the rest (a read error of the body, [short], fails the save) *)
Definition snap_body (m : message) (db : bytes) : bytes := plain_encode m ++ db.
Inductive snap_out := SnapDelivered (m : message) (db : bytes) | SnapRejected.
Definition snap_receive (short : bool) (body : bytes) : snap_out :=
  match plain_decode body with
  | DErr _ => SnapRejected
  | DOk (m, rest) =>
    if negb (m_type m =? msg_snap) then SnapRejected
    else if short then SnapRejected
    else SnapDelivered m rest
  end.

(* ---------- well-formedness (the premise of the round-trip theorems), as boolean predicates ---------- *)
Definition group_eqb (a b : group) : bool := same_group a b && bytes_eqb (g_name a) (g_name b).
Definition is_none {A} (o : option A) : bool := match o with None => true | Some _ => false end.
Definition snap_is_zero (s : snapshot) : bool :=
  is_none (s_data s) && (sm_index (s_meta s) =? 0) && (sm_term (s_meta s) =? 0) &&
  match sm_conf (s_meta s) with mkConf [] [] [] [] => true | _ => false end.

(* what the compact AppEntries form can carry, given the context it continues: a MsgApp between the
   context's groups (From/To are their replica ids, names as in the context), without snapshot,
   reject, reject hint or context bytes, on the stream between the two groups' nodes *)
Definition compact_ok (local remote : N) (st : cstate) (m : message) : bool :=
  (m_type m =? msg_app) && (m_from m =? g_rid (m_fromg m)) && (m_to m =? g_rid (m_tog m)) &&
  bytes_eqb (g_name (m_fromg m)) (g_name (st_fromg st)) && bytes_eqb (g_name (m_tog m)) (g_name (st_tog st)) &&
  snap_is_zero (m_snap m) && negb (m_reject m) && (m_rhint m =? 0) && is_none (m_ctx m) &&
  (g_node (m_fromg m) =? remote) && (g_node (m_tog m) =? local).

(* one message, relative to the encoder context it meets *)
Definition v2_msg_ok (local remote : N) (st : cstate) (m : message) : bool :=
  msg_ok m &&
  (if is_link_heartbeat m then
     (* the link heartbeat carries nothing else *)
     (m_term m =? 0) && (m_logterm m =? 0) && (m_index m =? 0) && (match m_entries m with [] => true | _ => false end) &&
     (m_commit m =? 0) && snap_is_zero (m_snap m) && negb (m_reject m) && (m_rhint m =? 0) && is_none (m_ctx m) &&
     group_eqb (m_fromg m) group0 && group_eqb (m_tog m) group0
   else if is_continue st m then
     compact_ok local remote st m &&
     (* the decoder's limits (same constant as the plain codec): entry count and entry sizes *)
     (nlen (m_entries m) <=? read_bytes_limit / 8) &&
     forallb (fun e => entry_size e <=? read_bytes_limit) (m_entries m)
   else msg_size m <=? read_bytes_limit).

Fixpoint v2_seq_ok (local remote : N) (st : cstate) (ms : list message) : bool :=
  match ms with
  | [] => true
  | m :: r => v2_msg_ok local remote st m && v2_seq_ok local remote (v2_next st m) r
  end.

Definition plain_msg_ok (m : message) : bool := msg_ok m && (msg_size m <=? read_bytes_limit).
Definition plain_seq_ok (ms : list message) : bool := forallb plain_msg_ok ms.
