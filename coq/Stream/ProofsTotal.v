(* Stream/ProofsTotal.v — C16: the fuel of the protobuf model (Stream/Proto.v) is never exhausted:
   every field consumes at least one byte, so Unmarshal never returns the model artefact PFuel,
   on any byte string. *)
From Coq Require Import ZifyN ZifyNat ZifyBool.
From ZV Require Import Common.Bytes Stream.Proto Stream.ProofsProto.
Open Scope N_scope.

Arguments N.mul : simpl never.
Arguments N.add : simpl never.
Arguments N.sub : simpl never.
Arguments N.land : simpl never.
Arguments N.shiftr : simpl never.
Arguments N.ltb : simpl never.
Arguments N.leb : simpl never.
Arguments N.eqb : simpl never.
Arguments N.of_nat : simpl never.
Arguments N.to_nat : simpl never.
Arguments firstn : simpl never.
Arguments skipn : simpl never.

Lemma varint_dec_n_nofuel : forall n p acc bs, varint_dec_n n p acc bs <> Err PFuel.
Proof.
  induction n as [|n IH]; intros p acc bs; cbn [varint_dec_n]; [discriminate|].
  destruct bs as [|b r]; [discriminate|]. destruct (b <? 128); [discriminate|apply IH].
Qed.
Lemma varint_dec_nofuel bs : varint_dec bs <> Err PFuel.
Proof. apply varint_dec_n_nofuel. Qed.

Lemma read_len_n_nofuel l rest : read_len_n l rest <> Err PFuel.
Proof.
  unfold read_len_n. destruct (varint_dec rest) as [[v r1]|e] eqn:E; cbn [bind].
  - destruct (two63 <=? v); [discriminate|]. destruct (two63 <=? l - len r1 + v); [discriminate|].
    destruct (l <? l - len r1 + v); discriminate.
  - intro H. inversion H; subst. eapply varint_dec_nofuel; eauto.
Qed.
Lemma read_len_n_shorter l rest v r1 : read_len_n l rest = Ok (v, r1) -> (length r1 < length rest)%nat.
Proof.
  unfold read_len_n. destruct (varint_dec rest) as [[v' r1']|e] eqn:E; cbn [bind]; [|discriminate].
  destruct (two63 <=? v'); [discriminate|]. destruct (two63 <=? l - len r1' + v'); [discriminate|].
  destruct (l <? l - len r1' + v'); [discriminate|]. intro H; inversion H; subst.
  eapply varint_dec_shorter; eauto.
Qed.
Lemma read_len_nofuel l rest : read_len l rest <> Err PFuel.
Proof.
  unfold read_len. destruct (read_len_n l rest) as [[v r1]|e] eqn:E; cbn [bind]; [discriminate|].
  intro H. inversion H; subst. eapply read_len_n_nofuel; eauto.
Qed.
Lemma read_len_shorter l rest d r2 : read_len l rest = Ok (d, r2) -> (length r2 < length rest)%nat.
Proof.
  unfold read_len. destruct (read_len_n l rest) as [[v r1]|e] eqn:E; cbn [bind]; [|discriminate].
  intro H; inversion H; subst. apply read_len_n_shorter in E. rewrite skipn_length. lia.
Qed.

Lemma vread_nofuel wt r : vread wt r <> Err PFuel.
Proof. unfold vread. destruct (wt =? 0); [apply varint_dec_nofuel|discriminate]. Qed.
Lemma vread_shorter wt r v r2 : vread wt r = Ok (v, r2) -> (length r2 < length r)%nat.
Proof. unfold vread. destruct (wt =? 0); [apply varint_dec_shorter|discriminate]. Qed.
Lemma bread_nofuel wt l r : bread wt l r <> Err PFuel.
Proof. unfold bread. destruct (wt =? 2); [apply read_len_nofuel|discriminate]. Qed.
Lemma bread_shorter wt l r d r2 : bread wt l r = Ok (d, r2) -> (length r2 < length r)%nat.
Proof. unfold bread. destruct (wt =? 2); [apply read_len_shorter|discriminate]. Qed.

Lemma read_tag_nofuel rest : read_tag rest <> Err PFuel.
Proof.
  unfold read_tag. destruct (varint_dec rest) as [[w r1]|e] eqn:E; cbn [bind].
  - destruct (tag_split w) as [fnum wt]. destruct (wt =? 4); [discriminate|].
    destruct (bad_field fnum); discriminate.
  - intro H. inversion H; subst. eapply varint_dec_nofuel; eauto.
Qed.
Lemma read_tag_shorter rest fnum wt r1 : read_tag rest = Ok (fnum, wt, r1) -> (length r1 < length rest)%nat.
Proof.
  unfold read_tag. destruct (varint_dec rest) as [[w r1']|e] eqn:E; cbn [bind]; [|discriminate].
  destruct (tag_split w) as [fnum' wt']. destruct (wt' =? 4); [discriminate|].
  destruct (bad_field fnum'); [discriminate|]. intro H; inversion H; subst.
  eapply varint_dec_shorter; eauto.
Qed.

(* ---------- skipRaft ---------- *)
Lemma len_sub_pos bs r : (length r < length bs)%nat -> 1 <= len bs - len r.
Proof. unfold len. lia. Qed.

(* a group body: given that the recursive skipper is total on shorter inputs and returns >= 1 *)
Lemma skip_group_total (rec : bytes -> res N) bs :
  (forall cur, (length cur < length bs)%nat -> rec cur <> Err PFuel) ->
  (forall cur n, (length cur < length bs)%nat -> rec cur = Ok n -> 1 <= n) ->
  forall k idx, 1 <= idx -> (length bs - N.to_nat idx < k)%nat ->
    skip_group rec bs k idx <> Err PFuel /\ (forall n, skip_group rec bs k idx = Ok n -> idx <= n).
Proof.
  intros Hrec Hpos. induction k as [|k IH]; intros idx Hidx Hk; [lia|].
  cbn [skip_group].
  destruct (varint_dec (skipn (N.to_nat idx) bs)) as [[iw r]|e] eqn:E; cbn [bind].
  2:{ split; [|discriminate]. intro H; inversion H; subst. eapply varint_dec_nofuel; eauto. }
  pose proof (varint_dec_shorter _ _ _ E) as Hs. rewrite skipn_length in Hs.
  destruct (N.land iw 7 =? 4).
  { split; [discriminate|]. intros n H; inversion H; subst. lia. }
  destruct (rec (skipn (N.to_nat idx) bs)) as [next|e] eqn:Er; cbn [bind].
  2:{ split; [|discriminate]. intro H; inversion H; subst.
      eapply (Hrec (skipn (N.to_nat idx) bs)); [rewrite skipn_length; lia|exact Er]. }
  assert (Hlen : (length (skipn (N.to_nat idx) bs) < length bs)%nat) by (rewrite skipn_length; lia).
  pose proof (Hpos _ _ Hlen Er) as Hn.
  destruct (two63 <=? idx + next); [split; discriminate|].
  destruct (IH (idx + next)) as [H1 H2]; [lia|lia|].
  split; [exact H1|]. intros n H. apply H2 in H. lia.
Qed.

Lemma skip_raft_total : forall fuel bs, (length bs < fuel)%nat ->
  skip_raft fuel bs <> Err PFuel /\ (forall n, skip_raft fuel bs = Ok n -> 1 <= n).
Proof.
  induction fuel as [|f IH]; intros bs Hf; [lia|]. cbn [skip_raft].
  destruct (varint_dec bs) as [[wire r1]|e] eqn:E; cbn [bind].
  2:{ split; [|discriminate]. intro H; inversion H; subst. eapply varint_dec_nofuel; eauto. }
  pose proof (varint_dec_shorter _ _ _ E) as Hs. pose proof (len_sub_pos _ _ Hs) as Hi1.
  destruct (N.land wire 7) as [|p] eqn:Ew.
  { (* varint *)
    destruct (varint_dec r1) as [[v r2]|e] eqn:E2; cbn [bind].
    - pose proof (varint_dec_shorter _ _ _ E2) as Hs2. split; [discriminate|]. intros n Hn; inversion Hn; subst. unfold len. lia.
    - split; [|discriminate]. intro H; inversion H; subst. eapply varint_dec_nofuel; eauto. }
  destruct p as [[[|?|]|[|?|]|]|[[|?|]|[|?|]|]|]; try (split; [discriminate|]; intros n H; inversion H; subst; lia).
  - (* 3: group *)
    destruct (skip_group_total (skip_raft f) bs) with (k := f) (idx := len bs - len r1) as [H1 H2].
    + intros cur Hc. apply IH. lia.
    + intros cur n Hc Hn. eapply IH; [|exact Hn]. lia.
    + exact Hi1.
    + unfold len in Hi1 |- *. lia.
    + split; [exact H1|]. intros n Hn. apply H2 in Hn. lia.
  - (* 2: length delimited *)
    destruct (varint_dec r1) as [[v r2]|e] eqn:E2; cbn [bind].
    + pose proof (varint_dec_shorter _ _ _ E2) as Hs2.
      destruct (two63 <=? v); [split; discriminate|]. destruct (two63 <=? len bs - len r2 + v); [split; discriminate|].
      split; [discriminate|]. intros n H'; inversion H'; subst. unfold len. lia.
    + split; [|discriminate]. intro H; inversion H; subst. eapply varint_dec_nofuel; eauto.
Qed.

Lemma skip_field_nofuel l rest : skip_field l rest <> Err PFuel.
Proof.
  unfold skip_field. destruct (skip_raft_total (S (length rest)) rest ltac:(lia)) as [H1 _].
  destruct (skip_raft (S (length rest)) rest) as [n|e]; cbn [bind].
  - destruct (two63 <=? l - len rest + n); [discriminate|]. destruct (l <? l - len rest + n); discriminate.
  - intro H; inversion H; subst. apply H1. reflexivity.
Qed.
Lemma skip_field_shorter l rest r2 : rest <> [] -> skip_field l rest = Ok r2 -> (length r2 < length rest)%nat.
Proof.
  intro Hne. unfold skip_field. destruct (skip_raft_total (S (length rest)) rest ltac:(lia)) as [_ H2].
  destruct (skip_raft (S (length rest)) rest) as [n|e]; cbn [bind]; [|discriminate].
  specialize (H2 n eq_refl).
  destruct (two63 <=? l - len rest + n); [discriminate|]. destruct (l <? l - len rest + n); [discriminate|].
  intro H; inversion H; subst. rewrite skipn_length. destruct rest; [congruence|]. cbn [length]. lia.
Qed.

Lemma packed_loop_total : forall fuel k acc rest, (length rest < fuel)%nat ->
  packed_loop fuel k acc rest <> Err PFuel /\
  (forall ns r2, packed_loop fuel k acc rest = Ok (ns, r2) -> (length r2 <= length rest)%nat).
Proof.
  induction fuel as [|f IH]; intros k acc rest Hf; [lia|]. cbn [packed_loop].
  destruct (k =? 0); [split; [discriminate|]; intros ns r2 H; inversion H; subst; lia|].
  destruct (varint_dec rest) as [[v r2]|e] eqn:E; cbn [bind].
  - pose proof (varint_dec_shorter _ _ _ E) as Hs.
    destruct (IH (k - (len rest - len r2)) (acc ++ [v]) r2 ltac:(lia)) as [H1 H2].
    split; [exact H1|]. intros ns r3 H. apply H2 in H. lia.
  - split; [|discriminate]. intro H; inversion H; subst. eapply varint_dec_nofuel; eauto.
Qed.

Lemma nums_read_nofuel wt l acc r1 : nums_read wt l acc r1 <> Err PFuel.
Proof.
  unfold nums_read. destruct (wt =? 0).
  { destruct (varint_dec r1) as [[v r2]|e] eqn:E; cbn [bind]; [discriminate|].
    intro H; inversion H; subst. eapply varint_dec_nofuel; eauto. }
  destruct (wt =? 2); [|discriminate].
  destruct (read_len_n l r1) as [[k r2]|e] eqn:E; cbn [bind].
  - apply (packed_loop_total (S (length r2)) k acc r2 ltac:(lia)).
  - intro H; inversion H; subst. eapply read_len_n_nofuel; eauto.
Qed.
Lemma nums_read_shorter wt l acc r1 ns r2 : nums_read wt l acc r1 = Ok (ns, r2) -> (length r2 < length r1)%nat.
Proof.
  unfold nums_read. destruct (wt =? 0).
  { destruct (varint_dec r1) as [[v r2']|e] eqn:E; cbn [bind]; [|discriminate].
    intro H; inversion H; subst. eapply varint_dec_shorter; eauto. }
  destruct (wt =? 2); [|discriminate].
  destruct (read_len_n l r1) as [[k r2']|e] eqn:E; cbn [bind]; [|discriminate].
  intro H. apply read_len_n_shorter in E.
  apply (packed_loop_total (S (length r2')) k acc r2' ltac:(lia)) in H. lia.
Qed.

(* ---------- the field loop ---------- *)
Definition step_total {X} (step : N -> X -> bytes -> res (X * bytes)) : Prop :=
  forall l x rest, rest <> [] ->
    step l x rest <> Err PFuel /\ (forall x' r2, step l x rest = Ok (x', r2) -> (length r2 < length rest)%nat).

Lemma loop_total {X} (step : N -> X -> bytes -> res (X * bytes)) : step_total step ->
  forall fuel l x rest, (length rest < fuel)%nat -> fields_loop step fuel l x rest <> Err PFuel.
Proof.
  intro Hst. induction fuel as [|f IH]; intros l x rest Hf; [lia|].
  destruct rest as [|b rest]; [discriminate|]. cbn [fields_loop].
  destruct (Hst l x (b :: rest) ltac:(discriminate)) as [H1 H2].
  destruct (step l x (b :: rest)) as [[x' r2]|e]; cbn [bind].
  - apply IH. specialize (H2 x' r2 eq_refl). lia.
  - intro H; inversion H; subst. apply H1. reflexivity.
Qed.
Lemma unmarshal_total {X} (step : N -> X -> bytes -> res (X * bytes)) : step_total step ->
  forall x bs, unmarshal_with step x bs <> Err PFuel.
Proof. intros Hst x bs. unfold unmarshal_with. apply loop_total; [exact Hst|lia]. Qed.

(* one field of any message: tag, then one of the readers *)
Ltac leaf H Htag :=
  match type of H with
  | bind (vread ?wt ?r) _ = _ =>
      let E := fresh "E" in destruct (vread wt r) as [[? ?]|] eqn:E; cbn [bind] in H; [|discriminate H];
      apply vread_shorter in E; inversion H; subst; lia
  | bind (bread ?wt ?l ?r) _ = _ =>
      let E := fresh "E" in destruct (bread wt l r) as [[? ?]|] eqn:E; cbn [bind] in H; [|discriminate H];
      apply bread_shorter in E;
      try match type of H with bind ?u _ = _ => destruct u; cbn [bind] in H; [|discriminate H] end;
      inversion H; subst; lia
  | bind (nums_read ?wt ?l ?a ?r) _ = _ =>
      let E := fresh "E" in destruct (nums_read wt l a r) as [[? ?]|] eqn:E; cbn [bind] in H; [|discriminate H];
      apply nums_read_shorter in E; inversion H; subst; lia
  | bind (skip_field ?l ?r) _ = _ =>
      let E := fresh "E" in destruct (skip_field l r) as [?|] eqn:E; cbn [bind] in H; [|discriminate H];
      apply skip_field_shorter in E; [inversion H; subst; lia|assumption]
  end.
Ltac leaf_nf H sub :=
  match type of H with
  | bind (vread ?wt ?r) _ = _ =>
      let E := fresh "E" in destruct (vread wt r) as [[? ?]|] eqn:E; cbn [bind] in H; [discriminate H|];
      inversion H; subst; eapply vread_nofuel; eauto
  | bind (bread ?wt ?l ?r) _ = _ =>
      let E := fresh "E" in destruct (bread wt l r) as [[? ?]|] eqn:E; cbn [bind] in H;
      [ try match type of H with bind ?u _ = _ =>
              let E2 := fresh "E" in destruct u eqn:E2; cbn [bind] in H; [discriminate H|];
              inversion H; subst; sub end;
        try discriminate H
      | inversion H; subst; eapply bread_nofuel; eauto ]
  | bind (nums_read ?wt ?l ?a ?r) _ = _ =>
      let E := fresh "E" in destruct (nums_read wt l a r) as [[? ?]|] eqn:E; cbn [bind] in H; [discriminate H|];
      inversion H; subst; eapply nums_read_nofuel; eauto
  | bind (skip_field ?l ?r) _ = _ =>
      let E := fresh "E" in destruct (skip_field l r) as [?|] eqn:E; cbn [bind] in H; [discriminate H|];
      inversion H; subst; eapply skip_field_nofuel; eauto
  end.

Ltac split_fnum H fnum :=
  repeat (match type of H with context [if N.eqb fnum ?c then _ else _] => destruct (N.eqb fnum c) end).

Ltac step_total_tac stepdef sub :=
  let l := fresh "l" in let x := fresh "x" in let rest := fresh "rest" in let Hne := fresh "Hne" in
  intros l x rest Hne; unfold stepdef;
  let Et := fresh "Et" in let fnum := fresh "fnum" in let wt := fresh "wt" in let r1 := fresh "r1" in
  let Htag := fresh "Htag" in let H := fresh "H" in let x' := fresh "x'" in let r2 := fresh "r2" in
  destruct (read_tag rest) as [[[fnum wt] r1]|?] eqn:Et; cbn [bind];
  [ pose proof (read_tag_shorter _ _ _ _ Et) as Htag;
    split;
    [ intro H; split_fnum H fnum; leaf_nf H sub
    | intros x' r2 H; split_fnum H fnum; leaf H Htag ]
  | split; [intro H; inversion H; subst; eapply read_tag_nofuel; eauto|discriminate] ].

Lemma group_step_total : step_total group_step.
Proof. step_total_tac group_step ltac:(fail). Qed.
Lemma group_unmarshal_nofuel g bs : group_unmarshal_into g bs <> Err PFuel.
Proof. apply unmarshal_total. exact group_step_total. Qed.

Lemma entry_step_total : step_total entry_step.
Proof. step_total_tac entry_step ltac:(fail). Qed.
Lemma entry_unmarshal_nofuel e bs : entry_unmarshal_into e bs <> Err PFuel.
Proof. apply unmarshal_total. exact entry_step_total. Qed.

Lemma conf_step_total : step_total conf_step.
Proof. step_total_tac conf_step ltac:(eapply group_unmarshal_nofuel; eassumption). Qed.
Lemma conf_unmarshal_nofuel c bs : conf_unmarshal_into c bs <> Err PFuel.
Proof. apply unmarshal_total. exact conf_step_total. Qed.

Lemma meta_step_total : step_total meta_step.
Proof. step_total_tac meta_step ltac:(eapply conf_unmarshal_nofuel; eassumption). Qed.
Lemma meta_unmarshal_nofuel s bs : meta_unmarshal_into s bs <> Err PFuel.
Proof. apply unmarshal_total. exact meta_step_total. Qed.

Lemma snap_step_total : step_total snap_step.
Proof. step_total_tac snap_step ltac:(eapply meta_unmarshal_nofuel; eassumption). Qed.
Lemma snap_unmarshal_nofuel s bs : snap_unmarshal_into s bs <> Err PFuel.
Proof. apply unmarshal_total. exact snap_step_total. Qed.

Lemma msg_step_total : step_total msg_step.
Proof.
  step_total_tac msg_step ltac:(first [ eapply entry_unmarshal_nofuel; eassumption
                                      | eapply snap_unmarshal_nofuel; eassumption
                                      | eapply group_unmarshal_nofuel; eassumption ]).
Qed.

(* Unmarshal never runs out of (model) fuel, on any byte string *)
Theorem msg_unmarshal_nofuel bs : msg_unmarshal bs <> Err PFuel.
Proof. unfold msg_unmarshal, msg_unmarshal_into. apply unmarshal_total. exact msg_step_total. Qed.
Theorem entry_unmarshal_nofuel' bs : entry_unmarshal bs <> Err PFuel.
Proof. apply entry_unmarshal_nofuel. Qed.

(* ---------- lifted to the stream readers ---------- *)
From ZV Require Import Stream.Consts Stream.Model Stream.Proofs.

Lemma lift_msg_nofuel buf : lift (msg_unmarshal buf) <> DErr (DProto PFuel).
Proof.
  unfold lift. destruct (msg_unmarshal buf) eqn:E; [discriminate|].
  intro H; inversion H; subst. eapply msg_unmarshal_nofuel; eauto.
Qed.
Lemma lift_entry_nofuel buf : lift (entry_unmarshal buf) <> DErr (DProto PFuel).
Proof.
  unfold lift. destruct (entry_unmarshal buf) eqn:E; [discriminate|].
  intro H; inversion H; subst. eapply entry_unmarshal_nofuel'; eauto.
Qed.

Lemma read_entries_no_pfuel : forall fuel cnt acc s, read_entries fuel cnt acc s <> DErr (DProto PFuel).
Proof.
  induction fuel as [|x0 f IH]; intros cnt acc s; cbn [read_entries].
  - destruct (cnt =? 0); discriminate.
  - destruct (cnt =? 0); [discriminate|].
    destruct (read_u64 s) as [[size s1]|e] eqn:E1; cbn [dbind].
    2:{ apply read_u64_err_inv in E1. destruct E1; subst; discriminate. }
    destruct (read_bytes_limit <? size); [discriminate|].
    destruct ((v2_buf_size <? size) && make_panics size 1); [discriminate|].
    destruct (read_full size s1) as [[buf s2]|e] eqn:E2; cbn [dbind].
    2:{ apply read_full_err_inv in E2. destruct E2; subst; discriminate. }
    destruct (lift (entry_unmarshal buf)) as [e|e] eqn:E3; cbn [dbind]; [apply IH|].
    intro H; inversion H; subst. eapply lift_entry_nofuel; eauto.
Qed.

Lemma v2_decode_no_pfuel local remote st s : v2_decode local remote st s <> DErr (DProto PFuel).
Proof.
  destruct s as [|typ s1]; [discriminate|]. cbn [v2_decode].
  destruct (typ =? frame_link_heartbeat); [discriminate|].
  destruct (typ =? frame_app_entries).
  { destruct (negb (remote =? g_node (st_fromg st)) || negb (local =? g_node (st_tog st))); [discriminate|].
    destruct (read_u64 s1) as [[l s2]|e] eqn:E1; cbn [dbind].
    2:{ apply read_u64_err_inv in E1. destruct E1; subst; discriminate. }
    destruct (read_bytes_limit / 8 <? l); [discriminate|].
    destruct (make_panics l entry_sizeof); [discriminate|].
    destruct (read_entries (0 :: s2) l [] s2) as [[es s3]|e] eqn:E2; cbn [dbind].
    2:{ intro H; inversion H; subst. eapply read_entries_no_pfuel; eauto. }
    destruct (read_u64 s3) as [[commit s4]|e] eqn:E3; cbn [dbind]; [discriminate|].
    apply read_u64_err_inv in E3. destruct E3; subst; discriminate. }
  destruct (typ =? frame_app); [|discriminate].
  destruct (read_u64 s1) as [[size s2]|e] eqn:E1; cbn [dbind].
  2:{ apply read_u64_err_inv in E1. destruct E1; subst; discriminate. }
  destruct (read_bytes_limit <? size); [discriminate|].
  destruct ((v2_buf_size <? size) && make_panics size 1); [discriminate|].
  destruct (read_full size s2) as [[buf s3]|e] eqn:E2; cbn [dbind].
  2:{ apply read_full_err_inv in E2. destruct E2; subst; discriminate. }
  destruct (lift (msg_unmarshal buf)) as [m'|e] eqn:E3; cbn [dbind]; [discriminate|].
  intro H; inversion H; subst. eapply lift_msg_nofuel; eauto.
Qed.

Lemma plain_decode_clean s :
  plain_decode s <> DErr (DProto PFuel) /\ plain_decode s <> DErr DPanic /\ plain_decode s <> DErr DFuel.
Proof.
  unfold plain_decode.
  destruct (read_u64 s) as [[l s1]|e] eqn:E1; cbn [dbind].
  2:{ apply read_u64_err_inv in E1. destruct E1; subst; repeat split; discriminate. }
  destruct (read_bytes_limit <? l); [repeat split; discriminate|].
  destruct (read_full l s1) as [[buf s2]|e] eqn:E2; cbn [dbind].
  2:{ apply read_full_err_inv in E2. destruct E2; subst; repeat split; discriminate. }
  destruct (lift (msg_unmarshal buf)) as [m'|e] eqn:E3; cbn [dbind]; [repeat split; discriminate|].
  repeat split; intro H; inversion H; subst.
  - eapply lift_msg_nofuel; eauto.
  - unfold lift in E3. destruct (msg_unmarshal buf); discriminate.
  - unfold lift in E3. destruct (msg_unmarshal buf); discriminate.
Qed.

(* the reader loops end in a genuine Go outcome: never a panic, never a model artefact *)
Definition model_artefact (e : derr) : Prop := e = DPanic \/ e = DFuel \/ e = DProto PFuel.

Theorem v2_run_clean local remote s : ~ model_artefact (snd (v2_run local remote s)).
Proof.
  unfold v2_run. generalize st0. assert (H : (length s < S (length s))%nat) by lia. revert H.
  generalize (S (length s)) as fuel. intro fuel. revert s.
  induction fuel as [|f IH]; intros s Hf st; [lia|]. cbn [v2_decode_all].
  destruct (v2_decode local remote st s) as [[[m st'] s']|e] eqn:E.
  - apply v2_decode_consumes in E.
    specialize (IH s' ltac:(lia) st'). destruct (v2_decode_all f local remote st' s') as [ms e]. exact IH.
  - cbn [snd]. pose proof (v2_decode_no_panic local remote st s) as [H1 H2].
    pose proof (v2_decode_no_pfuel local remote st s) as H3. rewrite E in *.
    intros [Ha|[Ha|Ha]]; subst; congruence.
Qed.

Theorem plain_run_clean s : ~ model_artefact (snd (plain_run s)).
Proof.
  unfold plain_run. assert (H : (length s < S (length s))%nat) by lia. revert H.
  generalize (S (length s)) as fuel. intro fuel. revert s.
  induction fuel as [|f IH]; intros s Hf; [lia|]. cbn [plain_decode_all].
  destruct (plain_decode s) as [[m s']|e] eqn:E.
  - apply plain_decode_consumes in E.
    specialize (IH s' ltac:(lia)). destruct (plain_decode_all f s') as [ms e]. exact IH.
  - cbn [snd]. pose proof (plain_decode_clean s) as [H1 [H2 H3]]. rewrite E in *.
    intros [Ha|[Ha|Ha]]; subst; congruence.
Qed.
