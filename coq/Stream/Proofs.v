(* Stream/Proofs.v — C16: the stream codecs (Stream/Model.v).
   Round trip of every frame with the coupling invariant encoder context = decoder context,
   decode_all (encode_all ms) = ms, the truncation (prefix) theorems, absence of panics. *)
From Coq Require Import ZifyN ZifyNat ZifyBool.
From ZV Require Import Common.Bytes Common.BytesFacts Stream.Consts Stream.Proto Stream.Model Stream.ProofsProto.
Open Scope N_scope.

Arguments N.mul : simpl never.
Arguments N.add : simpl never.
Arguments N.sub : simpl never.
Arguments N.div : simpl never.
Arguments N.land : simpl never.
Arguments N.shiftr : simpl never.
Arguments N.pow : simpl never.
Arguments N.ltb : simpl never.
Arguments N.leb : simpl never.
Arguments N.eqb : simpl never.
Arguments N.of_nat : simpl never.
Arguments N.to_nat : simpl never.
Arguments firstn : simpl never.
Arguments skipn : simpl never.

(* ---------- big endian ---------- *)
Lemma be_enc_length n v : length (be_enc n v) = n.
Proof.
  revert v; induction n as [|n IH]; intro v; cbn [be_enc]; [reflexivity|].
  rewrite app_length, IH. cbn [length]. lia.
Qed.

Lemma be_dec_app a b : be_dec (a ++ [b]) = be_dec a * 256 + b.
Proof. unfold be_dec. rewrite fold_left_app. reflexivity. Qed.

Lemma be_rt n : forall v, v < 256 ^ N.of_nat n -> be_dec (be_enc n v) = v.
Proof.
  induction n as [|n IH]; intros v H.
  - change (256 ^ N.of_nat 0) with 1 in H. cbn. lia.
  - cbn [be_enc]. rewrite be_dec_app.
    rewrite N.shiftr_div_pow2. change (2 ^ 8) with 256.
    change 255 with (N.ones 8). rewrite N.land_ones. change (2 ^ 8) with 256.
    rewrite IH.
    + pose proof (N.div_mod v 256 ltac:(lia)). lia.
    + replace (N.of_nat (S n)) with (N.succ (N.of_nat n)) in H by lia.
      rewrite N.pow_succ_r' in H. apply N.div_lt_upper_bound; lia.
Qed.

Lemma be64_rt v : v < two64 -> be_dec (be64 v) = v.
Proof. intro H. apply (be_rt 8). exact H. Qed.
Lemma be64_len v : len (be64 v) = 8.
Proof. unfold len, be64. rewrite be_enc_length. reflexivity. Qed.
Lemma be64_length v : length (be64 v) = 8%nat.
Proof. apply be_enc_length. Qed.

(* ---------- reader ---------- *)
Lemma has_bytes_spec : forall s n, has_bytes s n = (n <=? len s).
Proof.
  induction s as [|b s IH]; intro n; cbn [has_bytes].
  - rewrite len_nil. destruct (n =? 0) eqn:E; lia.
  - rewrite len_cons. destruct (n =? 0) eqn:E; [lia|]. rewrite IH. lia.
Qed.

Lemma read_full_app a r : read_full (len a) (a ++ r) = DOk (a, r).
Proof.
  unfold read_full. destruct (len a =? 0) eqn:E.
  - destruct a; [reflexivity|]. rewrite len_cons in E. lia.
  - destruct a as [|b a]; [rewrite len_nil in E; lia|].
    cbn [app]. change (b :: a ++ r) with ((b :: a) ++ r).
    rewrite has_bytes_spec. rewrite len_app.
    replace (len (b :: a) <=? len (b :: a) + len r) with true by lia.
    rewrite firstn_len_app, skipn_len_app. reflexivity.
Qed.

Lemma read_u64_app v r : v < two64 -> read_u64 (be64 v ++ r) = DOk (v, r).
Proof.
  intro H. unfold read_u64. rewrite <- (be64_len v) at 1. rewrite read_full_app.
  cbn [dbind]. rewrite be64_rt by exact H. reflexivity.
Qed.

(* what a successful / failed ReadFull says about the stream *)
Lemma read_full_ok_inv n s a r : read_full n s = DOk (a, r) -> s = a ++ r /\ len a = n.
Proof.
  unfold read_full. destruct (n =? 0) eqn:E.
  - intro H. inversion H; subst. split; [reflexivity|]. rewrite len_nil. lia.
  - destruct s as [|b s]; [discriminate|]. rewrite has_bytes_spec.
    destruct (n <=? len (b :: s)) eqn:E2; [|discriminate].
    intro H. inversion H; subst. split.
    + symmetry. apply firstn_skipn.
    + unfold len in *. rewrite firstn_length. lia.
Qed.

Lemma read_full_err_inv n s e : read_full n s = DErr e -> e = DEof \/ e = DUnexpEof.
Proof.
  unfold read_full. destruct (n =? 0); [discriminate|].
  destruct s; [intro H; inversion H; auto|].
  destruct (has_bytes _ _); [discriminate|]. intro H; inversion H; auto.
Qed.

Lemma read_full_ext n p q a r : read_full n p = DOk (a, r) -> read_full n (p ++ q) = DOk (a, r ++ q).
Proof.
  intro H. apply read_full_ok_inv in H. destruct H as [-> <-].
  rewrite <- app_assoc. apply read_full_app.
Qed.

Lemma read_u64_ok_inv s v r : read_u64 s = DOk (v, r) -> exists a, s = a ++ r /\ len a = 8.
Proof.
  unfold read_u64. destruct (read_full 8 s) as [[a r']|e] eqn:E; cbn [dbind]; [|discriminate].
  intro H. inversion H; subst. apply read_full_ok_inv in E. exists a. exact E.
Qed.
Lemma read_u64_err_inv s e : read_u64 s = DErr e -> e = DEof \/ e = DUnexpEof.
Proof.
  unfold read_u64. destruct (read_full 8 s) as [[a r']|e'] eqn:E; cbn [dbind]; [discriminate|].
  intro H. inversion H; subst. eapply read_full_err_inv; eauto.
Qed.
Lemma read_u64_ext p q v r : read_u64 p = DOk (v, r) -> read_u64 (p ++ q) = DOk (v, r ++ q).
Proof.
  unfold read_u64. destruct (read_full 8 p) as [[a r']|e] eqn:E; cbn [dbind]; [|discriminate].
  intro H. inversion H; subst. rewrite (read_full_ext _ _ q _ _ E). reflexivity.
Qed.

(* ---------- constants (re-checked whenever Consts.v is regenerated) ---------- *)
Lemma limit_lt_two63 : read_bytes_limit < two63.
Proof. reflexivity. Qed.
Lemma limit_lt_max_alloc : read_bytes_limit < max_alloc.
Proof. reflexivity. Qed.
Lemma count_limit_alloc : (read_bytes_limit / 8) * entry_sizeof <= max_alloc.
Proof. vm_compute. discriminate. Qed.
Lemma max_alloc_lt_two63 : max_alloc < two63.
Proof. reflexivity. Qed.
Lemma frame_ae_ne_hb : (frame_app_entries =? frame_link_heartbeat) = false.
Proof. reflexivity. Qed.
Lemma frame_app_ne_hb : (frame_app =? frame_link_heartbeat) = false.
Proof. reflexivity. Qed.
Lemma frame_app_ne_ae : (frame_app =? frame_app_entries) = false.
Proof. reflexivity. Qed.
Lemma hb_type_eq : link_heartbeat_type = msg_heartbeat.
Proof. reflexivity. Qed.

(* below the limit nothing panics in make() *)
Lemma make_bytes_ok size : size <= read_bytes_limit -> make_panics size 1 = false.
Proof.
  intro H. unfold make_panics. pose proof limit_lt_two63. pose proof limit_lt_max_alloc.
  apply orb_false_iff. split; lia.
Qed.
Lemma make_entries_ok l : l <= read_bytes_limit / 8 -> make_panics l entry_sizeof = false.
Proof.
  intro H. unfold make_panics. pose proof count_limit_alloc. pose proof max_alloc_lt_two63.
  assert (l * entry_sizeof <= read_bytes_limit / 8 * entry_sizeof) by (apply N.mul_le_mono_r; exact H).
  assert (l <= l * entry_sizeof).
  { rewrite <- (N.mul_1_r l) at 1. apply N.mul_le_mono_l. unfold entry_sizeof. lia. }
  apply orb_false_iff. split; lia.
Qed.

(* ---------- boolean equalities ---------- *)
Lemma same_group_names a b :
  same_group a b = true -> bytes_eqb (g_name a) (g_name b) = true -> a = b.
Proof.
  unfold same_group. intros H Hn. apply andb_true_iff in H as [H H3]. apply andb_true_iff in H as [H1 H2].
  apply bytes_eqb_eq in Hn. destruct a, b; cbn in *.
  apply N.eqb_eq in H1, H2, H3. subst. reflexivity.
Qed.
Lemma group_eqb_eq a b : group_eqb a b = true -> a = b.
Proof. unfold group_eqb. intro H. apply andb_true_iff in H as [H1 H2]. apply same_group_names; assumption. Qed.

Lemma is_none_eq {A} (o : option A) : is_none o = true -> o = None.
Proof. destruct o; [discriminate|reflexivity]. Qed.

Lemma snap_is_zero_eq s : snap_is_zero s = true -> s = snap0.
Proof.
  unfold snap_is_zero. intro H. apply andb_true_iff in H as [H H4]. apply andb_true_iff in H as [H H3].
  apply andb_true_iff in H as [H1 H2].
  destruct s as [d [c i t]]; cbn in *. apply is_none_eq in H1. apply N.eqb_eq in H2, H3. subst.
  destruct c as [[|? ?] [|? ?] [|? ?] [|? ?]]; try discriminate. reflexivity.
Qed.

(* ---------- entries of a compact frame ---------- *)
Lemma entry_frame_len1 e : (1 <= length (entry_frame e))%nat.
Proof. unfold entry_frame. rewrite app_length, be64_length. lia. Qed.

Lemma nlen_cons {A} (x : A) l : nlen (x :: l) = 1 + nlen l.
Proof. unfold nlen. cbn [length]. lia. Qed.

Lemma read_entries_rt : forall es fuel acc rest,
  (length es <= length fuel)%nat -> forallb entry_ok es = true ->
  forallb (fun e => entry_size e <=? read_bytes_limit) es = true ->
  read_entries fuel (nlen es) acc (concat (map entry_frame es) ++ rest) = DOk (acc ++ es, rest).
Proof.
  induction es as [|e es IH]; intros fuel acc rest Hf Hok Hsz.
  - rewrite app_nil_r. destruct fuel; reflexivity.
  - destruct fuel as [|x0 f]; [cbn in Hf; lia|].
    cbn [forallb] in Hok, Hsz. apply andb_true_iff in Hok as [He Hes]. apply andb_true_iff in Hsz as [Hs Hss].
    apply N.leb_le in Hs. pose proof limit_lt_two63 as L63.
    cbn [read_entries map concat]. rewrite nlen_cons.
    replace (1 + nlen es =? 0) with false by lia.
    unfold entry_frame at 1. rewrite <- !app_assoc.
    rewrite read_u64_app by (unfold two63, two64 in *; lia). cbn [dbind].
    replace (read_bytes_limit <? entry_size e) with false by lia.
    rewrite (make_bytes_ok _ Hs), andb_false_r.
    rewrite <- entry_size_ok. rewrite read_full_app. cbn [dbind].
    rewrite entry_rt; [|assumption|lia]. cbn [lift dbind].
    replace (1 + nlen es - 1) with (nlen es) by lia.
    rewrite IH; [|cbn in Hf; lia|assumption|assumption].
    rewrite <- app_assoc. reflexivity.
Qed.

(* ---------- one msgappv2 frame ---------- *)
Lemma link_heartbeat_unique m :
  is_link_heartbeat m = true ->
  ((m_term m =? 0) && (m_logterm m =? 0) && (m_index m =? 0) && (match m_entries m with [] => true | _ => false end) &&
   (m_commit m =? 0) && snap_is_zero (m_snap m) && negb (m_reject m) && (m_rhint m =? 0) && is_none (m_ctx m) &&
   group_eqb (m_fromg m) group0 && group_eqb (m_tog m) group0) = true ->
  m = link_heartbeat.
Proof.
  unfold is_link_heartbeat. intros H1 H2.
  apply andb_true_iff in H1 as [H1 Hto]. apply andb_true_iff in H1 as [Hty Hfrom].
  split_ok H2.
  destruct m as [ty to from term lt ix es commit snap rej rh ctx fg tg]; cbn in *.
  repeat match goal with H : (_ =? _) = true |- _ => apply N.eqb_eq in H end.
  repeat match goal with H : group_eqb _ _ = true |- _ => apply group_eqb_eq in H end.
  repeat match goal with H : is_none _ = true |- _ => apply is_none_eq in H end.
  repeat match goal with H : snap_is_zero _ = true |- _ => apply snap_is_zero_eq in H end.
  destruct es; [|discriminate]. destruct rej; [discriminate|]. subst. reflexivity.
Qed.

Lemma compact_rebuild local remote st m :
  is_continue st m = true -> compact_ok local remote st m = true ->
  m = mkMsg msg_app (g_rid (st_tog st)) (g_rid (st_fromg st)) (st_term st) (st_term st) (st_index st)
            (m_entries m) (m_commit m) snap0 false 0 None (st_fromg st) (st_tog st) /\
  remote = g_node (st_fromg st) /\ local = g_node (st_tog st).
Proof.
  unfold is_continue, compact_ok. intros H1 H2. split_ok H1. split_ok H2.
  assert (Ef : st_fromg st = m_fromg m).
  { apply same_group_names; [assumption|]. rewrite bytes_eqb_eq in *. congruence. }
  assert (Et : st_tog st = m_tog m).
  { apply same_group_names; [assumption|]. rewrite bytes_eqb_eq in *. congruence. }
  destruct m as [ty to from term lt ix es commit snap rej rh ctx fg tg]; cbn in *.
  repeat match goal with H : (_ =? _) = true |- _ => apply N.eqb_eq in H end.
  repeat match goal with H : is_none _ = true |- _ => apply is_none_eq in H end.
  repeat match goal with H : snap_is_zero _ = true |- _ => apply snap_is_zero_eq in H end.
  destruct rej; [discriminate|]. subst. repeat split; reflexivity.
Qed.

Lemma msg_ok_size m : msg_ok m = true -> msg_size m < two63.
Proof. unfold msg_ok. intro H. apply andb_true_iff in H as [_ H]. apply N.ltb_lt. exact H. Qed.
Lemma msg_ok_commit m : msg_ok m = true -> m_commit m < two64.
Proof. unfold msg_ok. intro H. split_ok H. ok_lt. assumption. Qed.
Lemma msg_ok_entries m : msg_ok m = true -> forallb entry_ok (m_entries m) = true.
Proof. unfold msg_ok. intro H. split_ok H. assumption. Qed.

(* the step of the coupling invariant: a well-formed message is decoded to itself, and the decoder's
   context after it is the encoder's context after it *)
Lemma v2_frame_rt local remote st m rest :
  v2_msg_ok local remote st m = true ->
  v2_decode local remote st (v2_frame st m ++ rest) = DOk (m, v2_next st m, rest).
Proof.
  unfold v2_msg_ok. intro H. apply andb_true_iff in H as [Hok H].
  unfold v2_frame, v2_next.
  destruct (is_link_heartbeat m) eqn:Ehb.
  - (* link heartbeat *)
    rewrite (link_heartbeat_unique m Ehb H).
    cbn [app v2_decode]. rewrite N.eqb_refl. reflexivity.
  - destruct (is_continue st m) eqn:Ec.
    + (* compact AppEntries frame *)
      apply andb_true_iff in H as [H Hsz]. apply andb_true_iff in H as [Hc Hn]. apply N.leb_le in Hn.
      destruct (compact_rebuild local remote st m Ec Hc) as [Em [Er El]].
      pose proof (msg_ok_commit m Hok) as Hcm. pose proof (msg_ok_entries m Hok) as Hes.
      cbn [app v2_decode]. rewrite frame_ae_ne_hb, N.eqb_refl.
      rewrite <- Er, <- El, !N.eqb_refl. cbn [negb orb].
      rewrite <- !app_assoc.
      rewrite read_u64_app by (pose proof limit_lt_two63; unfold two63, two64 in *;
                               assert (read_bytes_limit / 8 <= read_bytes_limit) by (apply N.div_le_upper_bound; lia); lia).
      cbn [dbind].
      replace (read_bytes_limit / 8 <? nlen (m_entries m)) with false by lia.
      rewrite (make_entries_ok _ Hn).
      rewrite read_entries_rt; [|idtac|assumption|assumption].
      2:{ cbn [length]. rewrite app_length.
          pose proof (concat_map_length_ge entry_frame (m_entries m) entry_frame_len1). lia. }
      cbn [dbind app]. rewrite read_u64_app by assumption. cbn [dbind].
      rewrite <- Em. reflexivity.
    + (* full MsgApp frame *)
      apply N.leb_le in H. pose proof (msg_ok_size m Hok) as Hs.
      cbn [app v2_decode]. rewrite frame_app_ne_hb, frame_app_ne_ae, N.eqb_refl.
      rewrite <- !app_assoc.
      rewrite read_u64_app by (unfold two63, two64 in *; lia). cbn [dbind].
      replace (read_bytes_limit <? msg_size m) with false by lia.
      rewrite (make_bytes_ok _ H), andb_false_r.
      rewrite <- msg_size_ok. rewrite read_full_app. cbn [dbind].
      rewrite msg_rt by assumption. reflexivity.
Qed.

(* ---------- whole sequences ---------- *)
Lemma v2_frame_len1 st m : (1 <= length (v2_frame st m))%nat.
Proof.
  unfold v2_frame. destruct (is_link_heartbeat m); [cbn; lia|].
  destruct (is_continue st m); cbn [length]; lia.
Qed.
Lemma v2_encode_all_length : forall ms st, (length ms <= length (v2_encode_all st ms))%nat.
Proof.
  induction ms as [|m ms IH]; intro st; cbn [v2_encode_all length]; [lia|].
  rewrite app_length. pose proof (v2_frame_len1 st m). specialize (IH (v2_next st m)). lia.
Qed.

Lemma v2_roundtrip_fuel local remote : forall ms st fuel,
  (length ms < fuel)%nat -> v2_seq_ok local remote st ms = true ->
  v2_decode_all fuel local remote st (v2_encode_all st ms) = (ms, DEof).
Proof.
  induction ms as [|m ms IH]; intros st fuel Hf Hok.
  - destruct fuel; [lia|]. reflexivity.
  - destruct fuel as [|f]; [lia|]. cbn [v2_seq_ok] in Hok. apply andb_true_iff in Hok as [Hm Hms].
    cbn [v2_encode_all v2_decode_all].
    rewrite (v2_frame_rt local remote st m _ Hm).
    rewrite IH; [reflexivity|cbn in Hf; lia|assumption].
Qed.

Theorem v2_roundtrip local remote ms :
  v2_seq_ok local remote st0 ms = true ->
  v2_run local remote (v2_encode_all st0 ms) = (ms, DEof).
Proof.
  intro H. unfold v2_run. apply v2_roundtrip_fuel; [|assumption].
  pose proof (v2_encode_all_length ms st0). lia.
Qed.

(* the coupling invariant itself: after decoding the encoding of ms the decoder holds the encoder's context *)
Fixpoint v2_dec_state (fuel : nat) (local remote : N) (st : cstate) (s : bytes) : cstate :=
  match fuel with
  | O => st
  | S f => match v2_decode local remote st s with
           | DErr _ => st
           | DOk (_, st', s') => v2_dec_state f local remote st' s'
           end
  end.
Lemma v2_coupling local remote : forall ms st fuel,
  (length ms < fuel)%nat -> v2_seq_ok local remote st ms = true ->
  v2_dec_state fuel local remote st (v2_encode_all st ms) = v2_enc_state st ms.
Proof.
  induction ms as [|m ms IH]; intros st fuel Hf Hok.
  - destruct fuel; [lia|]. reflexivity.
  - destruct fuel as [|f]; [lia|]. cbn [v2_seq_ok] in Hok. apply andb_true_iff in Hok as [Hm Hms].
    cbn [v2_encode_all v2_dec_state]. rewrite (v2_frame_rt local remote st m _ Hm).
    unfold v2_enc_state. cbn [fold_left]. apply IH; [cbn in Hf; lia|assumption].
Qed.

(* ---------- the plain codec ---------- *)
Lemma plain_frame_rt m rest :
  plain_msg_ok m = true -> plain_decode (plain_encode m ++ rest) = DOk (m, rest).
Proof.
  unfold plain_msg_ok. intro H. apply andb_true_iff in H as [Hok Hl]. apply N.leb_le in Hl.
  pose proof (msg_ok_size m Hok) as Hs.
  unfold plain_decode, plain_encode. rewrite <- !app_assoc.
  rewrite read_u64_app by (unfold two63, two64 in *; lia). cbn [dbind].
  replace (read_bytes_limit <? msg_size m) with false by lia.
  rewrite <- msg_size_ok. rewrite read_full_app. cbn [dbind].
  rewrite msg_rt by assumption. reflexivity.
Qed.

Lemma plain_encode_len1 m : (1 <= length (plain_encode m))%nat.
Proof. unfold plain_encode. rewrite app_length, be64_length. lia. Qed.

Lemma plain_roundtrip_fuel : forall ms fuel,
  (length ms < fuel)%nat -> plain_seq_ok ms = true ->
  plain_decode_all fuel (plain_encode_all ms) = (ms, DEof).
Proof.
  induction ms as [|m ms IH]; intros fuel Hf Hok.
  - destruct fuel; [lia|]. reflexivity.
  - destruct fuel as [|f]; [lia|]. unfold plain_seq_ok in Hok. cbn [forallb] in Hok.
    apply andb_true_iff in Hok as [Hm Hms].
    unfold plain_encode_all. cbn [map concat plain_decode_all].
    rewrite (plain_frame_rt m _ Hm). fold (plain_encode_all ms).
    rewrite IH; [reflexivity|cbn in Hf; lia|assumption].
Qed.

Theorem plain_roundtrip ms :
  plain_seq_ok ms = true -> plain_run (plain_encode_all ms) = (ms, DEof).
Proof.
  intro H. unfold plain_run. apply plain_roundtrip_fuel; [|assumption].
  unfold plain_encode_all. pose proof (concat_map_length_ge plain_encode ms plain_encode_len1). lia.
Qed.

(* ---------- truncation: a decoder run on a prefix of a stream ---------- *)
Definition eof_like (e : derr) : Prop := e = DEof \/ e = DUnexpEof.

Lemma read_entries_ext : forall fuel cnt acc p q es r,
  read_entries fuel cnt acc p = DOk (es, r) -> read_entries fuel cnt acc (p ++ q) = DOk (es, r ++ q).
Proof.
  induction fuel as [|x0 f IH]; intros cnt acc p q es r H; cbn [read_entries] in *.
  - destruct (cnt =? 0); [|discriminate]. inversion H; subst. reflexivity.
  - destruct (cnt =? 0); [inversion H; subst; reflexivity|].
    destruct (read_u64 p) as [[size s1]|e] eqn:E1; cbn [dbind] in *; [|discriminate].
    rewrite (read_u64_ext _ q _ _ E1). cbn [dbind].
    destruct (read_bytes_limit <? size); [discriminate|].
    destruct ((v2_buf_size <? size) && make_panics size 1); [discriminate|].
    destruct (read_full size s1) as [[buf s2]|e] eqn:E2; cbn [dbind] in *; [|discriminate].
    rewrite (read_full_ext _ _ q _ _ E2). cbn [dbind].
    destruct (lift (entry_unmarshal buf)) as [e|e]; cbn [dbind] in *; [|discriminate].
    apply IH. exact H.
Qed.

Lemma read_entries_mono : forall f f' cnt acc s x,
  (length f <= length f')%nat -> read_entries f cnt acc s = DOk x -> read_entries f' cnt acc s = DOk x.
Proof.
  induction f as [|x0 f IH]; intros f' cnt acc s x Hle H; cbn [read_entries] in H.
  - destruct (cnt =? 0) eqn:E; [|discriminate]. destruct f'; cbn [read_entries]; rewrite E; exact H.
  - destruct f' as [|x1 f']; [cbn in Hle; lia|]. cbn [read_entries].
    destruct (cnt =? 0); [exact H|].
    destruct (read_u64 s) as [[size s1]|e]; cbn [dbind] in *; [|discriminate].
    destruct (read_bytes_limit <? size); [discriminate|].
    destruct ((v2_buf_size <? size) && make_panics size 1); [discriminate|].
    destruct (read_full size s1) as [[buf s2]|e]; cbn [dbind] in *; [|discriminate].
    destruct (lift (entry_unmarshal buf)) as [e|e]; cbn [dbind] in *; [|discriminate].
    apply IH; [cbn in Hle; lia|exact H].
Qed.

(* each iteration consumes the 8 length bytes: fuel above the stream length is never exhausted *)
Lemma read_entries_no_fuel : forall fuel cnt acc s,
  (length s < length fuel)%nat -> read_entries fuel cnt acc s <> DErr DFuel.
Proof.
  induction fuel as [|x0 f IH]; intros cnt acc s Hf; [cbn in Hf; lia|]. cbn [read_entries].
  destruct (cnt =? 0); [discriminate|].
  destruct (read_u64 s) as [[size s1]|e] eqn:E1; cbn [dbind].
  2:{ apply read_u64_err_inv in E1. destruct E1; subst; discriminate. }
  destruct (read_bytes_limit <? size); [discriminate|].
  destruct ((v2_buf_size <? size) && make_panics size 1); [discriminate|].
  destruct (read_full size s1) as [[buf s2]|e] eqn:E2; cbn [dbind].
  2:{ apply read_full_err_inv in E2. destruct E2; subst; discriminate. }
  destruct (lift (entry_unmarshal buf)) as [e|e] eqn:E3; cbn [dbind].
  2:{ unfold lift in E3. destruct (entry_unmarshal buf); inversion E3. discriminate. }
  apply IH.
  apply read_u64_ok_inv in E1. destruct E1 as [a [-> Ha]].
  apply read_full_ok_inv in E2. destruct E2 as [-> _].
  rewrite !app_length in Hf. cbn [length] in Hf. unfold len in Ha. lia.
Qed.

Lemma read_entries_err_ext : forall fuel cnt acc p q e,
  read_entries fuel cnt acc p = DErr e ->
  eof_like e \/ e = DFuel \/ (forall f', (length fuel <= length f')%nat -> read_entries f' cnt acc (p ++ q) = DErr e).
Proof.
  induction fuel as [|x0 f IH]; intros cnt acc p q e H; cbn [read_entries] in H.
  - destruct (cnt =? 0); [discriminate|]. inversion H. auto.
  - destruct (cnt =? 0) eqn:Ec; [discriminate|].
    destruct (read_u64 p) as [[size s1]|e1] eqn:E1; cbn [dbind] in H.
    2:{ inversion H; subst. left. apply read_u64_err_inv in E1. exact E1. }
    assert (Hhead : forall f', (S (length f) <= length f')%nat -> forall R,
               (read_bytes_limit <? size = false -> (v2_buf_size <? size) && make_panics size 1 = false ->
                forall f'', (length f <= length f'')%nat ->
                  (dlet '(buf, s2) <- read_full size (s1 ++ q);
                   dlet e0 <- lift (entry_unmarshal buf); read_entries f'' (cnt - 1) (acc ++ [e0]) s2) = R) ->
               (read_bytes_limit <? size = true -> R = DErr DLimit) ->
               (read_bytes_limit <? size = false -> (v2_buf_size <? size) && make_panics size 1 = true -> R = DErr DPanic) ->
               read_entries f' cnt acc (p ++ q) = R).
    { intros f' Hle R H1 H2 H3. destruct f' as [|x1 f'']; [cbn in Hle; lia|]. cbn [read_entries]. rewrite Ec.
      rewrite (read_u64_ext _ q _ _ E1). cbn [dbind].
      destruct (read_bytes_limit <? size) eqn:EL; [symmetry; apply H2; reflexivity|].
      destruct ((v2_buf_size <? size) && make_panics size 1) eqn:EP; [symmetry; apply H3; reflexivity|].
      apply H1; [reflexivity|reflexivity|cbn in Hle; lia]. }
    destruct (read_bytes_limit <? size) eqn:EL.
    { inversion H; subst. right. right. intros f' Hle. apply Hhead; [exact Hle|discriminate|reflexivity|discriminate]. }
    destruct ((v2_buf_size <? size) && make_panics size 1) eqn:EP.
    { inversion H; subst. right. right. intros f' Hle. apply Hhead; [exact Hle|discriminate|discriminate|reflexivity]. }
    destruct (read_full size s1) as [[buf s2]|e2] eqn:E2; cbn [dbind] in H.
    2:{ inversion H; subst. left. apply read_full_err_inv in E2. exact E2. }
    destruct (lift (entry_unmarshal buf)) as [e0|e3] eqn:E3; cbn [dbind] in H.
    2:{ inversion H; subst. right. right. intros f' Hle. apply Hhead; [exact Hle| |discriminate|discriminate].
        intros _ _ f'' _. rewrite (read_full_ext _ _ q _ _ E2). cbn [dbind]. rewrite E3. reflexivity. }
    destruct (IH _ _ _ q _ H) as [Hl|[Hl|Hl]]; [left; exact Hl|right; left; exact Hl|].
    right. right. intros f' Hle. apply Hhead; [exact Hle| |discriminate|discriminate].
    intros _ _ f'' Hf''. rewrite (read_full_ext _ _ q _ _ E2). cbn [dbind]. rewrite E3. cbn [dbind].
    apply Hl. exact Hf''.
Qed.

Lemma read_entries_suffix : forall fuel cnt acc s es r,
  read_entries fuel cnt acc s = DOk (es, r) -> (length r <= length s)%nat.
Proof.
  induction fuel as [|x0 f IH]; intros cnt acc s es r H; cbn [read_entries] in H.
  - destruct (cnt =? 0); [|discriminate]. inversion H; subst. lia.
  - destruct (cnt =? 0); [inversion H; subst; lia|].
    destruct (read_u64 s) as [[size s1]|e] eqn:E1; cbn [dbind] in H; [|discriminate].
    destruct (read_bytes_limit <? size); [discriminate|].
    destruct ((v2_buf_size <? size) && make_panics size 1); [discriminate|].
    destruct (read_full size s1) as [[buf s2]|e] eqn:E2; cbn [dbind] in H; [|discriminate].
    destruct (lift (entry_unmarshal buf)) as [e|e]; cbn [dbind] in H; [|discriminate].
    apply IH in H. apply read_u64_ok_inv in E1. destruct E1 as [a [-> _]].
    apply read_full_ok_inv in E2. destruct E2 as [-> _]. rewrite !app_length. lia.
Qed.

(* Lemma A: a message decoded from a prefix is the message the longer stream gives *)
Lemma v2_decode_ext local remote st p q m st' rest :
  v2_decode local remote st p = DOk (m, st', rest) ->
  v2_decode local remote st (p ++ q) = DOk (m, st', rest ++ q).
Proof.
  destruct p as [|typ s1]; [discriminate|]. cbn [app v2_decode].
  destruct (typ =? frame_link_heartbeat).
  { intro H. inversion H; subst. reflexivity. }
  destruct (typ =? frame_app_entries).
  { destruct (negb (remote =? g_node (st_fromg st)) || negb (local =? g_node (st_tog st))); [discriminate|].
    destruct (read_u64 s1) as [[l s2]|e] eqn:E1; cbn [dbind]; [|discriminate].
    rewrite (read_u64_ext _ q _ _ E1). cbn [dbind].
    destruct (read_bytes_limit / 8 <? l); [discriminate|].
    destruct (make_panics l entry_sizeof); [discriminate|].
    destruct (read_entries (0 :: s2) l [] s2) as [[es s3]|e] eqn:E2; cbn [dbind]; [|discriminate].
    rewrite (read_entries_mono (0 :: s2) (0 :: s2 ++ q) _ _ _ _
               ltac:(cbn [length]; rewrite app_length; lia) (read_entries_ext _ _ _ _ q _ _ E2)).
    cbn [dbind].
    destruct (read_u64 s3) as [[commit s4]|e] eqn:E3; cbn [dbind]; [|discriminate].
    rewrite (read_u64_ext _ q _ _ E3). cbn [dbind].
    intro H. inversion H; subst. reflexivity. }
  destruct (typ =? frame_app); [|discriminate].
  destruct (read_u64 s1) as [[size s2]|e] eqn:E1; cbn [dbind]; [|discriminate].
  rewrite (read_u64_ext _ q _ _ E1). cbn [dbind].
  destruct (read_bytes_limit <? size); [discriminate|].
  destruct ((v2_buf_size <? size) && make_panics size 1); [discriminate|].
  destruct (read_full size s2) as [[buf s3]|e] eqn:E2; cbn [dbind]; [|discriminate].
  rewrite (read_full_ext _ _ q _ _ E2). cbn [dbind].
  destruct (lift (msg_unmarshal buf)) as [m'|e]; cbn [dbind]; [|discriminate].
  intro H. inversion H; subst. reflexivity.
Qed.

(* Lemma B: an error on a prefix is an EOF, or the error the longer stream gives as well *)
Lemma v2_decode_err_ext local remote st p q e :
  v2_decode local remote st p = DErr e ->
  eof_like e \/ v2_decode local remote st (p ++ q) = DErr e.
Proof.
  destruct p as [|typ s1]; [intro H; inversion H; left; left; reflexivity|]. cbn [app v2_decode].
  destruct (typ =? frame_link_heartbeat); [discriminate|].
  destruct (typ =? frame_app_entries).
  { destruct (negb (remote =? g_node (st_fromg st)) || negb (local =? g_node (st_tog st))); [intro H; right; exact H|].
    destruct (read_u64 s1) as [[l s2]|e1] eqn:E1; cbn [dbind].
    2:{ intro H; inversion H; subst. left. eapply read_u64_err_inv; eauto. }
    rewrite (read_u64_ext _ q _ _ E1). cbn [dbind].
    destruct (read_bytes_limit / 8 <? l); [intro H; right; exact H|].
    destruct (make_panics l entry_sizeof); [intro H; right; exact H|].
    destruct (read_entries (0 :: s2) l [] s2) as [[es s3]|e2] eqn:E2; cbn [dbind].
    2:{ intro H; inversion H; subst.
        destruct (read_entries_err_ext _ _ _ _ q _ E2) as [Hl|[Hl|Hl]].
        - left. exact Hl.
        - exfalso. subst. eapply read_entries_no_fuel; [|exact E2]. cbn [length]. lia.
        - right. rewrite Hl by (cbn [length]; rewrite app_length; lia). reflexivity. }
    rewrite (read_entries_mono (0 :: s2) (0 :: s2 ++ q) _ _ _ _
               ltac:(cbn [length]; rewrite app_length; lia) (read_entries_ext _ _ _ _ q _ _ E2)).
    cbn [dbind].
    destruct (read_u64 s3) as [[commit s4]|e3] eqn:E3; cbn [dbind]; [discriminate|].
    intro H; inversion H; subst. left. eapply read_u64_err_inv; eauto. }
  destruct (typ =? frame_app); [|intro H; right; exact H].
  destruct (read_u64 s1) as [[size s2]|e1] eqn:E1; cbn [dbind].
  2:{ intro H; inversion H; subst. left. eapply read_u64_err_inv; eauto. }
  rewrite (read_u64_ext _ q _ _ E1). cbn [dbind].
  destruct (read_bytes_limit <? size); [intro H; right; exact H|].
  destruct ((v2_buf_size <? size) && make_panics size 1); [intro H; right; exact H|].
  destruct (read_full size s2) as [[buf s3]|e2] eqn:E2; cbn [dbind].
  2:{ intro H; inversion H; subst. left. eapply read_full_err_inv; eauto. }
  rewrite (read_full_ext _ _ q _ _ E2). cbn [dbind].
  destruct (lift (msg_unmarshal buf)) as [m'|e3]; cbn [dbind]; [discriminate|].
  intro H. right. exact H.
Qed.

(* every decoded message consumes at least its frame type byte *)
Lemma v2_decode_consumes local remote st s m st' rest :
  v2_decode local remote st s = DOk (m, st', rest) -> (length rest < length s)%nat.
Proof.
  destruct s as [|typ s1]; [discriminate|]. cbn [v2_decode length].
  destruct (typ =? frame_link_heartbeat).
  { intro H. inversion H; subst. lia. }
  destruct (typ =? frame_app_entries).
  { destruct (negb (remote =? g_node (st_fromg st)) || negb (local =? g_node (st_tog st))); [discriminate|].
    destruct (read_u64 s1) as [[l s2]|e] eqn:E1; cbn [dbind]; [|discriminate].
    destruct (read_bytes_limit / 8 <? l); [discriminate|].
    destruct (make_panics l entry_sizeof); [discriminate|].
    destruct (read_entries (0 :: s2) l [] s2) as [[es s3]|e] eqn:E2; cbn [dbind]; [|discriminate].
    destruct (read_u64 s3) as [[commit s4]|e] eqn:E3; cbn [dbind]; [|discriminate].
    intro H. inversion H; subst.
    apply read_u64_ok_inv in E1. destruct E1 as [a [-> _]].
    apply read_entries_suffix in E2.
    apply read_u64_ok_inv in E3. destruct E3 as [b [-> _]].
    rewrite !app_length in *. lia. }
  destruct (typ =? frame_app); [|discriminate].
  destruct (read_u64 s1) as [[size s2]|e] eqn:E1; cbn [dbind]; [|discriminate].
  destruct (read_bytes_limit <? size); [discriminate|].
  destruct ((v2_buf_size <? size) && make_panics size 1); [discriminate|].
  destruct (read_full size s2) as [[buf s3]|e] eqn:E2; cbn [dbind]; [|discriminate].
  destruct (lift (msg_unmarshal buf)) as [m'|e]; cbn [dbind]; [|discriminate].
  intro H. inversion H; subst.
  apply read_u64_ok_inv in E1. destruct E1 as [a [-> _]].
  apply read_full_ok_inv in E2. destruct E2 as [-> _].
  rewrite !app_length. lia.
Qed.

(* the reader loop does not depend on its fuel once the fuel exceeds the stream length *)
Lemma v2_decode_all_fuel local remote : forall f1 f2 st s,
  (length s < f1)%nat -> (length s < f2)%nat ->
  v2_decode_all f1 local remote st s = v2_decode_all f2 local remote st s.
Proof.
  induction f1 as [|f1 IH]; intros f2 st s H1 H2; [lia|].
  destruct f2 as [|f2]; [lia|]. cbn [v2_decode_all].
  destruct (v2_decode local remote st s) as [[[m st'] s']|e] eqn:E; [|reflexivity].
  apply v2_decode_consumes in E. rewrite (IH f2 st' s'); [reflexivity|lia|lia].
Qed.

(* The truncation theorem for ARBITRARY streams: decoding a prefix p of a stream p ++ q yields a
   prefix of the messages that p ++ q yields, and then either an EOF-class error or — having
   delivered all of them — the very error p ++ q ends with. Never a different message. *)
Lemma v2_prefix_fuel local remote q : forall fuel st p ms e ms' e',
  (length (p ++ q) < fuel)%nat ->
  v2_decode_all fuel local remote st (p ++ q) = (ms, e) ->
  v2_decode_all fuel local remote st p = (ms', e') ->
  exists j, ms' = firstn j ms /\ (eof_like e' \/ (ms' = ms /\ e' = e)).
Proof.
  induction fuel as [|f IH]; intros st p ms e ms' e' Hf Hfull Hpre; [lia|].
  cbn [v2_decode_all] in *.
  destruct (v2_decode local remote st p) as [[[m st'] r]|ep] eqn:Ep.
  - rewrite (v2_decode_ext _ _ _ _ q _ _ _ Ep) in Hfull.
    destruct (v2_decode_all f local remote st' (r ++ q)) as [ms1 e1] eqn:E1.
    destruct (v2_decode_all f local remote st' r) as [ms1' e1'] eqn:E1'.
    inversion Hfull; subst. inversion Hpre; subst.
    apply v2_decode_consumes in Ep.
    destruct (IH st' r ms1 e ms1' e') as [j [Hj Hc]]; [rewrite app_length in *; lia|exact E1|exact E1'|].
    exists (S j). split.
    + rewrite Hj. reflexivity.
    + destruct Hc as [Hc|[Hc1 Hc2]]; [left; exact Hc|right; split; [f_equal; exact Hc1|exact Hc2]].
  - inversion Hpre; subst. exists 0%nat. split; [reflexivity|].
    destruct (v2_decode_err_ext _ _ _ _ q _ Ep) as [Hl|Hr]; [left; exact Hl|].
    rewrite Hr in Hfull. inversion Hfull; subst. right. split; reflexivity.
Qed.

Theorem v2_truncation local remote p q :
  exists j, fst (v2_run local remote p) = firstn j (fst (v2_run local remote (p ++ q))) /\
            (eof_like (snd (v2_run local remote p)) \/ v2_run local remote p = v2_run local remote (p ++ q)).
Proof.
  unfold v2_run.
  rewrite (v2_decode_all_fuel local remote (S (length p)) (S (length (p ++ q))) st0 p)
    by (rewrite ?app_length; lia).
  destruct (v2_decode_all (S (length (p ++ q))) local remote st0 (p ++ q)) as [ms e] eqn:E1.
  destruct (v2_decode_all (S (length (p ++ q))) local remote st0 p) as [ms' e'] eqn:E2.
  destruct (v2_prefix_fuel local remote q (S (length (p ++ q))) st0 p ms e ms' e' (Nat.lt_succ_diag_r _) E1 E2) as [j [Hj Hc]].
  exists j. cbn [fst snd]. split; [exact Hj|].
  destruct Hc as [Hc|[Hc1 Hc2]]; [left; exact Hc|right; rewrite Hc2, <- Hc1; reflexivity].
Qed.

(* for well-formed sequences: every prefix of the encoding decodes to a prefix of ms, then EOF *)
Theorem v2_truncated_wf local remote ms p q :
  v2_seq_ok local remote st0 ms = true -> v2_encode_all st0 ms = p ++ q ->
  exists j, fst (v2_run local remote p) = firstn j ms /\ eof_like (snd (v2_run local remote p)).
Proof.
  intros Hok Hs. destruct (v2_truncation local remote p q) as [j [Hj Hc]].
  rewrite <- Hs, (v2_roundtrip local remote ms Hok) in *. cbn [fst] in Hj.
  exists j. split; [exact Hj|].
  destruct Hc as [Hc|Hc]; [exact Hc|]. rewrite Hc. left. reflexivity.
Qed.

(* ---------- the plain codec: truncation ---------- *)
Lemma plain_decode_ext p q m rest :
  plain_decode p = DOk (m, rest) -> plain_decode (p ++ q) = DOk (m, rest ++ q).
Proof.
  unfold plain_decode.
  destruct (read_u64 p) as [[l s1]|e] eqn:E1; cbn [dbind]; [|discriminate].
  rewrite (read_u64_ext _ q _ _ E1). cbn [dbind].
  destruct (read_bytes_limit <? l); [discriminate|].
  destruct (read_full l s1) as [[buf s2]|e] eqn:E2; cbn [dbind]; [|discriminate].
  rewrite (read_full_ext _ _ q _ _ E2). cbn [dbind].
  destruct (lift (msg_unmarshal buf)) as [m'|e]; cbn [dbind]; [|discriminate].
  intro H. inversion H; subst. reflexivity.
Qed.

Lemma plain_decode_err_ext p q e :
  plain_decode p = DErr e -> eof_like e \/ plain_decode (p ++ q) = DErr e.
Proof.
  unfold plain_decode.
  destruct (read_u64 p) as [[l s1]|e1] eqn:E1; cbn [dbind].
  2:{ intro H; inversion H; subst. left. eapply read_u64_err_inv; eauto. }
  rewrite (read_u64_ext _ q _ _ E1). cbn [dbind].
  destruct (read_bytes_limit <? l); [intro H; right; exact H|].
  destruct (read_full l s1) as [[buf s2]|e2] eqn:E2; cbn [dbind].
  2:{ intro H; inversion H; subst. left. eapply read_full_err_inv; eauto. }
  rewrite (read_full_ext _ _ q _ _ E2). cbn [dbind].
  destruct (lift (msg_unmarshal buf)) as [m'|e3]; cbn [dbind]; [discriminate|].
  intro H. right. exact H.
Qed.

Lemma plain_decode_consumes s m rest : plain_decode s = DOk (m, rest) -> (length rest < length s)%nat.
Proof.
  unfold plain_decode.
  destruct (read_u64 s) as [[l s1]|e] eqn:E1; cbn [dbind]; [|discriminate].
  destruct (read_bytes_limit <? l); [discriminate|].
  destruct (read_full l s1) as [[buf s2]|e] eqn:E2; cbn [dbind]; [|discriminate].
  destruct (lift (msg_unmarshal buf)) as [m'|e]; cbn [dbind]; [|discriminate].
  intro H. inversion H; subst.
  apply read_u64_ok_inv in E1. destruct E1 as [a [-> Ha]].
  apply read_full_ok_inv in E2. destruct E2 as [-> _].
  rewrite !app_length. unfold len in Ha. lia.
Qed.

Lemma plain_decode_all_fuel : forall f1 f2 s,
  (length s < f1)%nat -> (length s < f2)%nat -> plain_decode_all f1 s = plain_decode_all f2 s.
Proof.
  induction f1 as [|f1 IH]; intros f2 s H1 H2; [lia|].
  destruct f2 as [|f2]; [lia|]. cbn [plain_decode_all].
  destruct (plain_decode s) as [[m s']|e] eqn:E; [|reflexivity].
  apply plain_decode_consumes in E. rewrite (IH f2 s'); [reflexivity|lia|lia].
Qed.

Lemma plain_prefix_fuel q : forall fuel p ms e ms' e',
  (length (p ++ q) < fuel)%nat ->
  plain_decode_all fuel (p ++ q) = (ms, e) -> plain_decode_all fuel p = (ms', e') ->
  exists j, ms' = firstn j ms /\ (eof_like e' \/ (ms' = ms /\ e' = e)).
Proof.
  induction fuel as [|f IH]; intros p ms e ms' e' Hf Hfull Hpre; [lia|].
  cbn [plain_decode_all] in *.
  destruct (plain_decode p) as [[m r]|ep] eqn:Ep.
  - rewrite (plain_decode_ext _ q _ _ Ep) in Hfull.
    destruct (plain_decode_all f (r ++ q)) as [ms1 e1] eqn:E1.
    destruct (plain_decode_all f r) as [ms1' e1'] eqn:E1'.
    inversion Hfull; subst. inversion Hpre; subst.
    apply plain_decode_consumes in Ep.
    destruct (IH r ms1 e ms1' e') as [j [Hj Hc]]; [rewrite app_length in *; lia|exact E1|exact E1'|].
    exists (S j). split.
    + rewrite Hj. reflexivity.
    + destruct Hc as [Hc|[Hc1 Hc2]]; [left; exact Hc|right; split; [f_equal; exact Hc1|exact Hc2]].
  - inversion Hpre; subst. exists 0%nat. split; [reflexivity|].
    destruct (plain_decode_err_ext _ q _ Ep) as [Hl|Hr]; [left; exact Hl|].
    rewrite Hr in Hfull. inversion Hfull; subst. right. split; reflexivity.
Qed.

Theorem plain_truncation p q :
  exists j, fst (plain_run p) = firstn j (fst (plain_run (p ++ q))) /\
            (eof_like (snd (plain_run p)) \/ plain_run p = plain_run (p ++ q)).
Proof.
  unfold plain_run.
  rewrite (plain_decode_all_fuel (S (length p)) (S (length (p ++ q))) p) by (rewrite ?app_length; lia).
  destruct (plain_decode_all (S (length (p ++ q))) (p ++ q)) as [ms e] eqn:E1.
  destruct (plain_decode_all (S (length (p ++ q))) p) as [ms' e'] eqn:E2.
  destruct (plain_prefix_fuel q (S (length (p ++ q))) p ms e ms' e' (Nat.lt_succ_diag_r _) E1 E2) as [j [Hj Hc]].
  exists j. cbn [fst snd]. split; [exact Hj|].
  destruct Hc as [Hc|[Hc1 Hc2]]; [left; exact Hc|right; rewrite Hc2, <- Hc1; reflexivity].
Qed.

Theorem plain_truncated_wf ms p q :
  plain_seq_ok ms = true -> plain_encode_all ms = p ++ q ->
  exists j, fst (plain_run p) = firstn j ms /\ eof_like (snd (plain_run p)).
Proof.
  intros Hok Hs. destruct (plain_truncation p q) as [j [Hj Hc]].
  rewrite <- Hs, (plain_roundtrip ms Hok) in *. cbn [fst] in Hj.
  exists j. split; [exact Hj|].
  destruct Hc as [Hc|Hc]; [exact Hc|]. rewrite Hc. left. reflexivity.
Qed.

(* ---------- no panic, no exhausted fuel: for EVERY stream ---------- *)
Lemma read_entries_no_panic : forall fuel cnt acc s, read_entries fuel cnt acc s <> DErr DPanic.
Proof.
  induction fuel as [|x0 f IH]; intros cnt acc s; cbn [read_entries].
  - destruct (cnt =? 0); discriminate.
  - destruct (cnt =? 0); [discriminate|].
    destruct (read_u64 s) as [[size s1]|e] eqn:E1; cbn [dbind].
    2:{ apply read_u64_err_inv in E1. destruct E1; subst; discriminate. }
    destruct (read_bytes_limit <? size) eqn:EL; [discriminate|].
    rewrite make_bytes_ok by lia. rewrite andb_false_r.
    destruct (read_full size s1) as [[buf s2]|e] eqn:E2; cbn [dbind].
    2:{ apply read_full_err_inv in E2. destruct E2; subst; discriminate. }
    destruct (lift (entry_unmarshal buf)) as [e|e] eqn:E3; cbn [dbind].
    2:{ unfold lift in E3. destruct (entry_unmarshal buf); inversion E3. discriminate. }
    apply IH.
Qed.

Theorem v2_decode_no_panic local remote st s :
  v2_decode local remote st s <> DErr DPanic /\ v2_decode local remote st s <> DErr DFuel.
Proof.
  destruct s as [|typ s1]; [split; discriminate|]. cbn [v2_decode].
  destruct (typ =? frame_link_heartbeat); [split; discriminate|].
  destruct (typ =? frame_app_entries).
  { destruct (negb (remote =? g_node (st_fromg st)) || negb (local =? g_node (st_tog st))); [split; discriminate|].
    destruct (read_u64 s1) as [[l s2]|e] eqn:E1; cbn [dbind].
    2:{ apply read_u64_err_inv in E1. destruct E1; subst; split; discriminate. }
    destruct (read_bytes_limit / 8 <? l) eqn:EL; [split; discriminate|].
    rewrite make_entries_ok by lia.
    destruct (read_entries (0 :: s2) l [] s2) as [[es s3]|e] eqn:E2; cbn [dbind].
    2:{ split; intro H; inversion H; subst.
        - eapply read_entries_no_panic; eauto.
        - eapply read_entries_no_fuel; [|exact E2]. cbn [length]. lia. }
    destruct (read_u64 s3) as [[commit s4]|e] eqn:E3; cbn [dbind]; [split; discriminate|].
    apply read_u64_err_inv in E3. destruct E3; subst; split; discriminate. }
  destruct (typ =? frame_app); [|split; discriminate].
  destruct (read_u64 s1) as [[size s2]|e] eqn:E1; cbn [dbind].
  2:{ apply read_u64_err_inv in E1. destruct E1; subst; split; discriminate. }
  destruct (read_bytes_limit <? size) eqn:EL; [split; discriminate|].
  rewrite make_bytes_ok by lia. rewrite andb_false_r.
  destruct (read_full size s2) as [[buf s3]|e] eqn:E2; cbn [dbind].
  2:{ apply read_full_err_inv in E2. destruct E2; subst; split; discriminate. }
  destruct (lift (msg_unmarshal buf)) as [m'|e] eqn:E3; cbn [dbind]; [split; discriminate|].
  unfold lift in E3. destruct (msg_unmarshal buf); inversion E3. split; discriminate.
Qed.

Theorem v2_run_no_panic local remote s :
  snd (v2_run local remote s) <> DPanic /\ snd (v2_run local remote s) <> DFuel.
Proof.
  unfold v2_run. generalize st0. assert (H : (length s < S (length s))%nat) by lia. revert H.
  generalize (S (length s)) as fuel. intro fuel. revert s.
  induction fuel as [|f IH]; intros s Hf st; [lia|]. cbn [v2_decode_all].
  destruct (v2_decode local remote st s) as [[[m st'] s']|e] eqn:E.
  - apply v2_decode_consumes in E.
    specialize (IH s' ltac:(lia) st'). destruct (v2_decode_all f local remote st' s') as [ms e]. exact IH.
  - cbn [snd]. pose proof (v2_decode_no_panic local remote st s) as [H1 H2]. rewrite E in *.
    split; intro; subst; congruence.
Qed.

Theorem v2_coupling_run local remote ms :
  v2_seq_ok local remote st0 ms = true ->
  v2_dec_state (S (length (v2_encode_all st0 ms))) local remote st0 (v2_encode_all st0 ms) = v2_enc_state st0 ms.
Proof.
  intro H. apply v2_coupling; [|assumption]. pose proof (v2_encode_all_length ms st0). lia.
Qed.
