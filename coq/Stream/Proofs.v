(* Stream/Proofs.v — C16: lemmas about Stream/Proto.v and Stream/Model.v *)
From Coq Require Import ZifyN ZifyNat ZifyBool.
From ZV Require Import Common.Bytes Stream.Consts Stream.Proto Stream.Model.
Open Scope N_scope.

Lemma be_enc_length n v : length (be_enc n v) = n.
Proof.
  revert v; induction n as [|n IH]; intro v; simpl; [reflexivity|].
  rewrite app_length, IH. simpl. lia.
Qed.
