(* Stream/ProofsWf.v — C16: the static description of the stream's traffic (Stream/Wf.v) implies the
   context-relative premise of the round-trip theorems. *)
From Coq Require Import ZifyN ZifyNat ZifyBool.
From ZV Require Import Common.Bytes Common.BytesFacts Stream.Consts Stream.Proto Stream.Model
     Stream.ProofsProto Stream.Proofs Stream.Wf.
Open Scope N_scope.

Arguments N.eqb : simpl never.
Arguments N.leb : simpl never.
Arguments N.ltb : simpl never.
Arguments N.div : simpl never.

Ltac split_and := repeat match goal with |- (_ && _) = true => apply andb_true_iff; split end.

(* the decoder / encoder context is the initial one, or carries the groups of a message of the stream *)
Definition ctx_from (ms : list message) (st : cstate) : Prop :=
  st_term st = 0 \/ exists m', In m' ms /\ st_fromg st = m_fromg m' /\ st_tog st = m_tog m'.

Lemma heartbeat_shape m : msg_eq_heartbeat m = true -> is_link_heartbeat m = true.
Proof.
  unfold msg_eq_heartbeat, is_link_heartbeat. intro H. split_ok H.
  repeat match goal with H : (_ =? _) = true |- _ => apply N.eqb_eq in H end.
  rewrite H, hb_type_eq. rewrite !N.eqb_refl.
  match goal with H : m_from m = 0 |- _ => rewrite H end.
  match goal with H : m_to m = 0 |- _ => rewrite H end. reflexivity.
Qed.

Lemma sent_app_not_heartbeat local remote m : sent_app local remote m = true -> is_link_heartbeat m = false.
Proof.
  unfold sent_app, is_link_heartbeat. intro H. split_ok H.
  match goal with H : (m_type m =? msg_app) = true |- _ => apply N.eqb_eq in H; rewrite H end.
  reflexivity.
Qed.

Lemma send_wf_seq_ok local remote ms :
  forallb (sent_msg local remote) ms = true -> names_consistent ms = true ->
  forall l st, (forall m, In m l -> In m ms) -> ctx_from ms st -> v2_seq_ok local remote st l = true.
Proof.
  intros Hall Hnames. induction l as [|m l IH]; intros st Hsub Hctx; [reflexivity|].
  cbn [v2_seq_ok].
  assert (Hin : In m ms) by (apply Hsub; left; reflexivity).
  assert (Hm : sent_msg local remote m = true) by (rewrite forallb_forall in Hall; apply Hall; exact Hin).
  unfold sent_msg in Hm. apply andb_true_iff in Hm as [Hok Hm].
  assert (Hsub' : forall m0, In m0 l -> In m0 ms) by (intros; apply Hsub; right; assumption).
  apply orb_true_iff in Hm. destruct Hm as [Hhb|Happ].
  - (* the link heartbeat *)
    pose proof (heartbeat_shape m Hhb) as Eh.
    apply andb_true_iff. split.
    + unfold v2_msg_ok. rewrite Hok, Eh. cbn [andb].
      unfold msg_eq_heartbeat in Hhb. split_ok Hhb.
      split_and; assumption.
    + unfold v2_next. rewrite Eh. apply IH; assumption.
  - pose proof (sent_app_not_heartbeat local remote m Happ) as Eh.
    unfold sent_app in Happ. split_ok Happ.
    apply andb_true_iff. split.
    + unfold v2_msg_ok. rewrite Hok, Eh. cbn [andb].
      destruct (is_continue st m) eqn:Ec; [|assumption].
      (* the compact form: the context's names are this message's names *)
      assert (Hn : bytes_eqb (g_name (m_fromg m)) (g_name (st_fromg st)) = true /\
                   bytes_eqb (g_name (m_tog m)) (g_name (st_tog st)) = true).
      { unfold is_continue in Ec. split_ok Ec.
        destruct Hctx as [H0|[m' [Hin' [Ef Et]]]].
        - (* term 0 cannot continue a message with term >= 1 *)
          repeat match goal with H : (_ =? _) = true |- _ => apply N.eqb_eq in H end.
          match goal with H : (1 <=? m_term m) = true |- _ => apply N.leb_le in H; rename H into Hge end.
          assert (Hz : m_term m = 0) by congruence.
          exfalso. rewrite Hz in Hge. clear - Hge. lia.
        - unfold names_consistent in Hnames. rewrite forallb_forall in Hnames.
          specialize (Hnames m' Hin'). rewrite forallb_forall in Hnames. specialize (Hnames m Hin).
          apply andb_true_iff in Hnames as [N1 N2]. unfold names_agree in N1, N2.
          rewrite <- Ef, <- Et in *.
          match goal with H : same_group (st_fromg st) (m_fromg m) = true |- _ => rewrite H in N1 end.
          match goal with H : same_group (st_tog st) (m_tog m) = true |- _ => rewrite H in N2 end.
          cbn [implb] in N1, N2. apply bytes_eqb_eq in N1, N2. split; apply bytes_eqb_eq; symmetry; assumption. }
      destruct Hn as [Hn1 Hn2].
      unfold compact_ok. split_and; assumption.
    + apply IH; [assumption|].
      unfold v2_next. rewrite Eh. destruct (is_continue st m) eqn:Ec.
      * (* context keeps its groups and term *)
        destruct Hctx as [H0|H1]; [left; exact H0|right; exact H1].
      * right. exists m. split; [exact Hin|]. split; reflexivity.
Qed.

Theorem send_wf_implies_seq_ok local remote ms :
  send_wf local remote ms = true -> v2_seq_ok local remote st0 ms = true.
Proof.
  unfold send_wf. intro H. apply andb_true_iff in H as [H1 H2].
  apply (send_wf_seq_ok local remote ms H1 H2 ms st0); [auto|left; reflexivity].
Qed.

Theorem v2_roundtrip_static local remote ms :
  send_wf local remote ms = true -> v2_run local remote (v2_encode_all st0 ms) = (ms, DEof).
Proof. intro H. apply v2_roundtrip. apply send_wf_implies_seq_ok. exact H. Qed.
