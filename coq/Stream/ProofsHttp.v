(* Stream/ProofsHttp.v — C16: the two message paths that do not use the stream codecs' connection:
   the pipeline (POST body = the marshalled message) and the snapshot path (POST body = message frame
   followed by the snapshot file). *)
From ZV Require Import Common.Bytes Stream.Consts Stream.Proto Stream.Model Stream.ProofsProto Stream.Proofs.
Open Scope N_scope.

(* pipeline: every message handed to it arrives as sent *)
Theorem pipeline_roundtrip m : msg_ok m = true -> pipeline_receive false (pipeline_body m) = Some m.
Proof. intro H. unfold pipeline_receive, pipeline_body. rewrite msg_rt by exact H. reflexivity. Qed.

(* a body that net/http reports short (Content-Length not reached) is never processed *)
Theorem pipeline_short body : pipeline_receive true body = None.
Proof. reflexivity. Qed.

(* snapshot path: the message (with its snapshot metadata) and the file arrive as sent *)
Theorem snap_roundtrip m db :
  plain_msg_ok m = true -> m_type m = msg_snap -> snap_receive false (snap_body m db) = SnapDelivered m db.
Proof.
  intros H Ht. unfold snap_receive, snap_body. rewrite (plain_frame_rt m db H).
  rewrite Ht, N.eqb_refl. reflexivity.
Qed.

Theorem snap_short body : snap_receive true body = SnapRejected.
Proof.
  unfold snap_receive. destruct (plain_decode body) as [[m r]|e]; [|reflexivity].
  destruct (negb (m_type m =? msg_snap)); reflexivity.
Qed.

(* a truncated snapshot body is refused, or delivers the SAME message with a prefix of the file *)
Theorem snap_truncation m db p q short :
  plain_msg_ok m = true -> snap_body m db = p ++ q ->
  snap_receive short p = SnapRejected \/
  exists db', snap_receive short p = SnapDelivered m db' /\ db = db' ++ q.
Proof.
  intros H Hs. unfold snap_receive.
  destruct (plain_decode p) as [[m' r]|e] eqn:E; [|left; reflexivity].
  pose proof (plain_decode_ext p q m' r E) as Hx. rewrite <- Hs in Hx.
  unfold snap_body in Hx. rewrite (plain_frame_rt m db H) in Hx. inversion Hx; subst.
  destruct (negb (m_type m' =? msg_snap)); [left; reflexivity|].
  destruct short; [left; reflexivity|]. right. exists r. split; reflexivity.
Qed.
