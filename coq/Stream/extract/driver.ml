(* driver for the C16 model: reads case lines on stdin, prints "<id>\t<model output>".
   Text format: see harness/cmd/stream/tree.go. *)
open Model
open Vio

(* ---------- bytes <-> text ---------- *)
let byte_tab : n array = Array.init 256 n_of_int
let rle_min = 16

let fmt_bytes_arr (b : int array) : string =
  let buf = Buffer.create 64 in
  Buffer.add_char buf 'b';
  let first = ref true and lit = ref false in
  let n = Array.length b in
  let i = ref 0 in
  while !i < n do
    let j = ref !i in
    while !j < n && b.(!j) = b.(!i) do incr j done;
    if !j - !i >= rle_min then begin
      if not !first then Buffer.add_char buf '.';
      Buffer.add_string buf (Printf.sprintf "%02x^%d" b.(!i) (!j - !i));
      first := false; lit := false
    end else begin
      if not !lit then begin
        if not !first then Buffer.add_char buf '.';
        lit := true; first := false
      end;
      for _ = !i to !j - 1 do Buffer.add_string buf (Printf.sprintf "%02x" b.(!i)) done
    end;
    i := !j
  done;
  Buffer.contents buf

let arr_of_bytes (l : n list) : int array =
  let len = List.length l in
  let a = Array.make len 0 in
  let rec go i = function [] -> () | x :: r -> a.(i) <- int_of_n x; go (i + 1) r in
  go 0 l; a

let fmt_bytes (l : n list) : string = fmt_bytes_arr (arr_of_bytes l)
let fmt_obytes = function None -> "~" | Some l -> fmt_bytes l

let parse_bytes (s : string) : n list option =
  if s = "~" then None else begin
    if String.length s = 0 || s.[0] <> 'b' then failwith ("bad bytes token " ^ s);
    let body = String.sub s 1 (String.length s - 1) in
    if body = "" then Some [] else begin
      let segs = String.split_on_char '.' body in
      (* build the list back to front *)
      let acc = ref [] in
      List.iter (fun seg ->
        match String.index_opt seg '^' with
        | Some i ->
          let v = byte_tab.(int_of_string ("0x" ^ String.sub seg 0 i)) in
          let cnt = int_of_string (String.sub seg (i + 1) (String.length seg - i - 1)) in
          for _ = 1 to cnt do acc := v :: !acc done
        | None ->
          let l = String.length seg / 2 in
          for k = 0 to l - 1 do
            acc := byte_tab.(hexval seg.[2*k] * 16 + hexval seg.[2*k+1]) :: !acc
          done) segs;
      Some (List.rev !acc)
    end
  end

let bytes_of_tok s = match parse_bytes s with None -> [] | Some l -> l

(* ---------- trees ---------- *)
type tree = A of string | L of tree list

let tokenize (s : string) : string list =
  let toks = ref [] in
  let n = String.length s in
  let i = ref 0 in
  while !i < n do
    let c = s.[!i] in
    if c = ' ' then incr i
    else if c = '(' || c = ')' then (toks := String.make 1 c :: !toks; incr i)
    else begin
      let j = ref !i in
      while !j < n && s.[!j] <> ' ' && s.[!j] <> '(' && s.[!j] <> ')' do incr j done;
      toks := String.sub s !i (!j - !i) :: !toks;
      i := !j
    end
  done;
  List.rev !toks

let parse_tree (s : string) : tree =
  let toks = ref (tokenize s) in
  let next () = match !toks with [] -> failwith "tree: eof" | t :: r -> toks := r; t in
  let rec item () =
    let t = next () in
    if t = "(" then L (items [])
    else if t = ")" then failwith "tree: unexpected )"
    else A t
  and items acc =
    match !toks with
    | ")" :: r -> toks := r; List.rev acc
    | [] -> failwith "tree: missing )"
    | _ -> let x = item () in items (x :: acc)
  in
  item ()

let num = function A s -> n_of_hex s | _ -> failwith "number expected"
let atom = function A s -> s | _ -> failwith "atom expected"
let kids = function L l -> l | _ -> failwith "list expected"

let group_of t = match kids t with
  | [a; b; c; d] -> { g_node = num a; g_name = bytes_of_tok (atom b); g_gid = num c; g_rid = num d }
  | _ -> failwith "group"
let entry_of t = match kids t with
  | [ty; te; ix; d; id; dt; ts] ->
    { e_type = num ty; e_term = num te; e_index = num ix; e_data = parse_bytes (atom d);
      e_id = num id; e_dtype = num dt; e_ts = num ts }
  | _ -> failwith "entry"
let snap_of t = match kids t with
  | [d; md] ->
    (match kids md with
     | [c; ix; te] ->
       (match kids c with
        | [ns; gs; ls; lgs] ->
          { s_data = parse_bytes (atom d);
            s_meta = { sm_conf = { c_nodes = List.map num (kids ns); c_groups = List.map group_of (kids gs);
                                   c_learners = List.map num (kids ls); c_lgroups = List.map group_of (kids lgs) };
                       sm_index = num ix; sm_term = num te } }
        | _ -> failwith "conf")
     | _ -> failwith "meta")
  | _ -> failwith "snap"
let msg_of t = match kids t with
  | [ty; to_; from; term; lt; ix; es; commit; snap; rej; rh; ctx; fg; tg] ->
    { m_type = num ty; m_to = num to_; m_from = num from; m_term = num term; m_logterm = num lt; m_index = num ix;
      m_entries = List.map entry_of (kids es); m_commit = num commit; m_snap = snap_of snap;
      m_reject = (atom rej <> "0"); m_rhint = num rh; m_ctx = parse_bytes (atom ctx);
      m_fromg = group_of fg; m_tog = group_of tg }
  | _ -> failwith "msg"

let hx = hex_of_n
let fmt_group g = "(" ^ hx g.g_node ^ " " ^ fmt_bytes g.g_name ^ " " ^ hx g.g_gid ^ " " ^ hx g.g_rid ^ ")"
let fmt_entry e =
  "(" ^ hx e.e_type ^ " " ^ hx e.e_term ^ " " ^ hx e.e_index ^ " " ^ fmt_obytes e.e_data ^ " " ^ hx e.e_id ^ " " ^
  hx e.e_dtype ^ " " ^ hx e.e_ts ^ ")"
let fmt_list f l = "(" ^ String.concat " " (List.map f l) ^ ")"
let fmt_snap s =
  let c = s.s_meta.sm_conf in
  "(" ^ fmt_obytes s.s_data ^ " ((" ^ fmt_list hx c.c_nodes ^ " " ^ fmt_list fmt_group c.c_groups ^ " " ^
  fmt_list hx c.c_learners ^ " " ^ fmt_list fmt_group c.c_lgroups ^ ") " ^ hx s.s_meta.sm_index ^ " " ^ hx s.s_meta.sm_term ^ "))"
let fmt_msg m =
  "(" ^ hx m.m_type ^ " " ^ hx m.m_to ^ " " ^ hx m.m_from ^ " " ^ hx m.m_term ^ " " ^ hx m.m_logterm ^ " " ^ hx m.m_index ^ " " ^
  fmt_list fmt_entry m.m_entries ^ " " ^ hx m.m_commit ^ " " ^ fmt_snap m.m_snap ^ " " ^ (if m.m_reject then "1" else "0") ^ " " ^
  hx m.m_rhint ^ " " ^ fmt_obytes m.m_ctx ^ " " ^ fmt_group m.m_fromg ^ " " ^ fmt_group m.m_tog ^ ")"

let perr_name = function PEof -> "ueof" | POverflow -> "overflow" | PInvLen -> "invlen" | PWire -> "wire" | PFuel -> "fuel"
let derr_name = function
  | DEof -> "eof" | DUnexpEof -> "ueof" | DProto e -> perr_name e | DLimit -> "limit" | DMismatch -> "mismatch"
  | DBadType -> "badtype" | DPanic -> "panic" | DFuel -> "fuel"

(* ---------- running the model ---------- *)
let run codec local remote (s : n list) : message list * derr =
  if codec = "v2" then v2_run local remote s else plain_run s

let rec take k l = if k <= 0 then [] else match l with [] -> [] | x :: r -> x :: take (k - 1) r

let rec is_prefix (a : message list) (b : message list) =
  match a, b with
  | [], _ -> true
  | x :: a', y :: b' -> x = y && is_prefix a' b'
  | _ :: _, [] -> false

let cuts_of spec n =
  if spec = "-" || spec = "" then []
  else if spec = "all" then List.init n (fun i -> i)
  else List.filter (fun v -> v >= 0 && v <= n) (List.map int_of_string (String.split_on_char ',' spec))

let fmt_cuts (rs : (int * int * string * int) list) : string =
  if rs = [] then "-" else begin
    let parts = ref [] in
    let rec go = function
      | [] -> ()
      | (k, c, e, s) :: rest ->
        let rec ext last = function
          | (k', c', e', s') :: r when k' = last + 1 && c' = c && e' = e && s' = s -> ext k' r
          | r -> (last, r) in
        let (last, rest') = ext k rest in
        parts := Printf.sprintf "%d-%d:%d:%s:%d" k last c e s :: !parts;
        go rest' in
    go rs;
    String.concat " " (List.rev !parts)
  end

let run_cuts codec local remote (s : n list) (full : message list) spec : string =
  let n = List.length s in
  fmt_cuts (List.map (fun k ->
    let (got, e) = run codec local remote (take k s) in
    (k, List.length got, derr_name e, if is_prefix got full then 1 else 0)) (cuts_of spec n))

let () =
  read_lines stdin (fun line ->
    match split_on '\t' line with
    | id :: "S" :: codec :: local :: remote :: payload :: cuts :: _ ->
      let local = n_of_hex local and remote = n_of_hex remote in
      let ms = List.map msg_of (kids (parse_tree payload)) in
      let wf, stream =
        if codec = "v2" then v2_seq_ok local remote st0 ms, v2_encode_all st0 ms
        else plain_seq_ok ms, plain_encode_all ms in
      let (full, e) = run codec local remote stream in
      let kinds =
        if codec <> "v2" || ms = [] then "-" else begin
          let b = Buffer.create 16 in
          let rec go st = function
            | [] -> ()
            | m :: r ->
              (match v2_frame st m with
               | k :: _ -> Buffer.add_string b (dec_of_n k)
               | [] -> Buffer.add_char b '?');
              go (v2_next st m) r in
          go st0 ms; Buffer.contents b
        end in
      Printf.printf "%s\twf=%d kinds=%s bytes=%s dec=%s err=%s cuts=%s\n" id (if wf then 1 else 0) kinds (fmt_bytes stream)
        (fmt_list fmt_msg full) (derr_name e) (run_cuts codec local remote stream full cuts)
    | id :: "L" :: codec :: local :: remote :: payload :: _ ->
      (* a sequence of connections: for each one a fresh encoder and a fresh decoder (Model.v conns_run) *)
      let local = n_of_hex local and remote = n_of_hex remote in
      let conns = List.map (fun c -> List.map msg_of (kids c)) (kids (parse_tree payload)) in
      let v2 = (codec = "v2" || codec = "v2q") in
      let wf = List.for_all (fun ms -> if v2 then v2_seq_ok local remote st0 ms else plain_seq_ok ms) conns in
      let results = if v2 then conns_run local remote (conns_encode conns)
                    else List.map plain_run (List.map plain_encode_all conns) in
      let parts = List.map (fun (ms, e) ->
        let ms = List.filter (fun m -> m <> link_heartbeat) ms in
        Printf.sprintf "dec=%s err=%s" (fmt_list fmt_msg ms) (derr_name e)) results in
      Printf.printf "%s\t%s\n" id (String.concat " | " (Printf.sprintf "wf=%d" (if wf then 1 else 0) :: parts))
    | id :: "T" :: tcodec :: local :: remote :: payload :: db :: _ ->
      (* two real transports: per phase MsgApp over a fresh msgappv2 connection, MsgSnap over the pipeline
         (or, for the last one when a db payload is given, the snapshot path), the rest over the message stream *)
      let local = n_of_hex local and remote = n_of_hex remote in
      let phases = List.map (fun c -> List.map msg_of (kids c)) (kids (parse_tree payload)) in
      let use_db = db <> "-" && db <> "" in
      let dbb = if use_db then bytes_of_tok db else [] in
      let nph = List.length phases in
      let snapdb = ref "-" in
      let parts = List.mapi (fun pi ms ->
        if tcodec = "v2chaos" && pi = nph - 1 then "chaos=ok" else
        let apps = List.filter (fun m -> m.m_type = msg_app) ms in
        let snaps = List.filter (fun m -> m.m_type = msg_snap) ms in
        let others = List.filter (fun m -> m.m_type <> msg_app && m.m_type <> msg_snap) ms in
        let (da, _) = v2_run local remote (v2_encode_all st0 apps) in
        let da = List.filter (fun m -> m <> link_heartbeat) da in
        let (dox, _) = plain_run (plain_encode_all others) in
        let nsn = List.length snaps in
        let ds = List.concat (List.mapi (fun i m ->
          if use_db && pi = nph - 1 && i = nsn - 1 then
            (match snap_receive false (snap_body m dbb) with
             | SnapDelivered (m', d) -> snapdb := fmt_bytes d; [fmt_msg m']
             | SnapRejected -> [])
          else (match pipeline_receive false (pipeline_body m) with Some m' -> [fmt_msg m'] | None -> [])) snaps) in
        let ds = List.sort compare ds in
        Printf.sprintf "app=%s other=%s snap=(%s)" (fmt_list fmt_msg da) (fmt_list fmt_msg dox) (String.concat " " ds)) phases in
      Printf.printf "%s\tunreach=0 | %s | snapdb=%s\n" id (String.concat " | " parts) !snapdb
    | id :: "H" :: kind :: _ :: _ :: payload :: spec :: _ ->
      (* the pipeline / snapshot handler on a body cut at k, ending cleanly (s=0) or with an HTTP-level error (s=1) *)
      let m = (match List.map msg_of (kids (parse_tree payload)) with [m] -> m | _ -> failwith "H: one message") in
      let (dbtok, cuts) = (match String.index_opt spec ' ' with
        | Some i -> (String.sub spec 0 i, String.sub spec (i + 1) (String.length spec - i - 1))
        | None -> failwith "H: spec") in
      let db = if dbtok = "-" then [] else bytes_of_tok dbtok in
      let body = if kind = "pipe" then pipeline_body m else snap_body m db in
      let n = List.length body in
      let outs = List.map (fun sp ->
        match String.split_on_char ':' sp with
        | [k; s] ->
          let k = min (int_of_string k) n and short = (s = "1") in
          let p = take k body in
          let res =
            if kind = "pipe" then (match pipeline_receive short p with Some m' -> "msg:" ^ fmt_msg m' | None -> "rej")
            else (match snap_receive short p with
                  | SnapDelivered (m', d) -> "msg:" ^ fmt_msg m' ^ " db:" ^ fmt_bytes d
                  | SnapRejected -> "rej") in
          Printf.sprintf "%d/%s=%s" k s res
        | _ -> failwith "H: cut") (String.split_on_char ',' cuts) in
      Printf.printf "%s\t%s\n" id (String.concat " | " outs)
    | id :: "R" :: codec :: local :: remote :: payload :: cuts :: _ ->
      let local = n_of_hex local and remote = n_of_hex remote in
      let stream = bytes_of_tok payload in
      let (full, e) = run codec local remote stream in
      Printf.printf "%s\tdec=%s err=%s cuts=%s\n" id (fmt_list fmt_msg full) (derr_name e)
        (run_cuts codec local remote stream full cuts)
    | _ -> ())
