(* Stream/ProofsProto.v — C16: the protobuf layer (Stream/Proto.v): varint and field round trips,
   Size() = length of MarshalTo(), Unmarshal(Marshal(x)) = x for every wire type. *)
From Coq Require Import ZifyN ZifyNat ZifyBool.
From ZV Require Import Common.Bytes Stream.Consts Stream.Proto.
Open Scope N_scope.

Arguments N.mul : simpl never.
Arguments N.add : simpl never.
Arguments N.sub : simpl never.
Arguments N.land : simpl never.
Arguments N.shiftr : simpl never.
Arguments N.pow : simpl never.
Arguments N.ltb : simpl never.
Arguments N.leb : simpl never.
Arguments N.eqb : simpl never.
Arguments N.of_nat : simpl never.
Arguments N.to_nat : simpl never.
Arguments firstn : simpl never.
Arguments skipn : simpl never.

(* ---------- small arithmetic ---------- *)
Lemma land127 b : N.land b 127 = b mod 128.
Proof. change 127 with (N.ones 7). rewrite N.land_ones. reflexivity. Qed.
Lemma land_mask64 x : N.land x mask64 = x mod two64.
Proof. change mask64 with (N.ones 64). rewrite N.land_ones. reflexivity. Qed.
Lemma land_mask32 x : N.land x mask32 = x mod two32.
Proof. change mask32 with (N.ones 32). rewrite N.land_ones. reflexivity. Qed.
Lemma shiftr7 v : N.shiftr v 7 = v / 128.
Proof. rewrite N.shiftr_div_pow2. reflexivity. Qed.

Lemma len_app a b : len (a ++ b) = len a + len b.
Proof. unfold len. rewrite app_length. lia. Qed.
Lemma len_cons x a : len (x :: a) = 1 + len a.
Proof. unfold len. simpl length. lia. Qed.
Lemma len_nil : len [] = 0.
Proof. reflexivity. Qed.
Lemma to_nat_len a : N.to_nat (len a) = length a.
Proof. unfold len. lia. Qed.

Lemma firstn_len_app (a b : bytes) : firstn (N.to_nat (len a)) (a ++ b) = a.
Proof.
  rewrite to_nat_len. rewrite firstn_app, Nat.sub_diag, firstn_all.
  change (firstn 0 b) with (@nil N). apply app_nil_r.
Qed.
Lemma skipn_len_app (a b : bytes) : skipn (N.to_nat (len a)) (a ++ b) = b.
Proof.
  rewrite to_nat_len. rewrite skipn_app, Nat.sub_diag, skipn_all.
  reflexivity.
Qed.

(* ---------- varint ---------- *)
Lemma varint_rt_n : forall k d v p acc rest,
  (k < d)%nat -> v < 128 ^ N.of_nat (S k) -> v * p < two64 ->
  varint_dec_n d p acc (varint_enc_n k v ++ rest) = Ok (acc + v * p, rest).
Proof.
  induction k as [|k IH]; intros d v p acc rest Hd Hv Hp;
    (destruct d as [|d]; [lia|]).
  - (* last byte *)
    change (varint_enc_n 0 v) with [v]. cbn [app varint_dec_n].
    change (128 ^ N.of_nat 1) with 128 in Hv.
    rewrite land127, land_mask64.
    rewrite (N.mod_small v 128) by lia. rewrite (N.mod_small (v * p)) by exact Hp.
    destruct (v <? 128) eqn:E; [reflexivity|lia].
  - cbn [varint_enc_n]. destruct (v <? 128) eqn:E.
    + cbn [app varint_dec_n]. rewrite land127, land_mask64.
      rewrite (N.mod_small v 128) by lia. rewrite (N.mod_small (v * p)) by exact Hp.
      rewrite E. reflexivity.
    + cbn [app varint_dec_n].
      rewrite land127, shiftr7.
      assert (Hdm := N.div_mod v 128 ltac:(lia)).
      assert (Hr : v mod 128 < 128) by (apply N.mod_lt; lia).
      set (q := v / 128) in *. set (r := v mod 128) in *.
      replace (N.land (r + 128) 127) with r.
      2:{ rewrite land127. replace (r + 128) with (r + 1 * 128) by lia. rewrite N.mod_add by lia.
          symmetry. apply N.mod_small. exact Hr. }
      assert (Hrp : r * p <= v * p) by (apply N.mul_le_mono_r; lia).
      rewrite land_mask64, (N.mod_small (r * p)) by lia.
      replace (r + 128 <? 128) with false by lia.
      rewrite IH.
      * f_equal. f_equal. rewrite Hdm. ring.
      * lia.
      * (* q < 128 ^ S k *)
        replace (N.of_nat (S (S k))) with (N.succ (N.of_nat (S k))) in Hv by lia.
        rewrite N.pow_succ_r' in Hv. lia.
      * replace (q * (p * 128)) with ((128 * q) * p) by ring.
        assert (128 * q * p <= v * p) by (apply N.mul_le_mono_r; lia). lia.
Qed.

Lemma varint_rt v rest : v < two64 -> varint_dec (varint_enc v ++ rest) = Ok (v, rest).
Proof.
  intro H. unfold varint_dec, varint_enc.
  rewrite (varint_rt_n 9 10 v 1 0 rest).
  - f_equal. f_equal. lia.
  - lia.
  - change (128 ^ N.of_nat 10) with 1180591620717411303424. unfold two64 in H. lia.
  - rewrite N.mul_1_r. exact H.
Qed.

Lemma sov_enc_n : forall k v, len (varint_enc_n k v) = sov_n k v.
Proof.
  induction k as [|k IH]; intro v; cbn [varint_enc_n sov_n]; [reflexivity|].
  destruct (v <? 128); [reflexivity|]. rewrite len_cons, IH. reflexivity.
Qed.
Lemma len_varint v : len (varint_enc v) = sov v.
Proof. apply sov_enc_n. Qed.

Lemma sov_n_pos k v : 1 <= sov_n k v.
Proof. destruct k; cbn [sov_n]; [lia|]. destruct (v <? 128); lia. Qed.
Lemma sov_n_le k : forall v, sov_n k v <= N.of_nat (S k).
Proof.
  induction k as [|k IH]; intro v; cbn [sov_n]; [lia|].
  destruct (v <? 128); [lia|]. specialize (IH (N.shiftr v 7)). lia.
Qed.
Lemma sov_bounds v : 1 <= sov v <= 10.
Proof. unfold sov. split; [apply sov_n_pos|]. pose proof (sov_n_le 9 v). lia. Qed.

(* decoding consumes at least one byte and leaves a suffix *)
Lemma varint_dec_n_suffix : forall n p acc bs v r,
  varint_dec_n n p acc bs = Ok (v, r) -> exists pre, bs = pre ++ r /\ pre <> [].
Proof.
  induction n as [|n IH]; intros p acc bs v r H; cbn [varint_dec_n] in H; [discriminate|].
  destruct bs as [|b bs]; [discriminate|].
  destruct (b <? 128).
  - inversion H; subst. exists [b]. split; [reflexivity|discriminate].
  - apply IH in H. destruct H as [pre [-> _]]. exists (b :: pre). split; [reflexivity|discriminate].
Qed.
Lemma varint_dec_suffix bs v r : varint_dec bs = Ok (v, r) -> exists pre, bs = pre ++ r /\ pre <> [].
Proof. apply varint_dec_n_suffix. Qed.
Lemma varint_dec_shorter bs v r : varint_dec bs = Ok (v, r) -> (length r < length bs)%nat.
Proof.
  intro H. apply varint_dec_suffix in H. destruct H as [pre [-> Hne]].
  rewrite app_length. destruct pre; [congruence|]. simpl. lia.
Qed.

(* sign extension of the int32 fields *)
Lemma sext32_lt x : x < two32 -> sext32 x < two64.
Proof. unfold sext32, two31, two32, two64. intro. destruct (x <? 2147483648) eqn:E; lia. Qed.
Lemma low32_sext32 x : x < two32 -> low32 (sext32 x) = x.
Proof.
  intro H. unfold low32. rewrite land_mask32. unfold sext32.
  destruct (x <? two31) eqn:E.
  - apply N.mod_small. exact H.
  - replace (x + (two64 - two32)) with (x + 4294967295 * two32) by (unfold two64, two32; lia).
    rewrite N.mod_add by (unfold two32; lia). apply N.mod_small. exact H.
Qed.

(* ---------- field readers ---------- *)
Lemma vread_ok v rest : v < two64 -> vread 0 (varint_enc v ++ rest) = Ok (v, rest).
Proof. intro H. unfold vread. change (0 =? 0) with true. cbv iota. apply varint_rt. exact H. Qed.

Lemma read_len_n_ok l v r1 : l < two63 -> len r1 <= l -> v <= len r1 ->
  read_len_n l (varint_enc v ++ r1) = Ok (v, r1).
Proof.
  intros Hl Hr Hv. unfold read_len_n. rewrite varint_rt by (unfold two63, two64 in *; lia).
  cbn [bind].
  replace (two63 <=? v) with false by lia.
  replace (two63 <=? l - len r1 + v) with false by lia.
  replace (l <? l - len r1 + v) with false by lia.
  reflexivity.
Qed.

Lemma read_len_ok l d rest : l < two63 -> len (d ++ rest) <= l ->
  read_len l (varint_enc (len d) ++ d ++ rest) = Ok (d, rest).
Proof.
  intros Hl Hr. unfold read_len. rewrite read_len_n_ok; try assumption.
  - cbn [bind]. rewrite firstn_len_app, skipn_len_app. reflexivity.
  - rewrite len_app. lia.
Qed.

Lemma bread_ok l d rest : l < two63 -> len (d ++ rest) <= l ->
  bread 2 l (varint_enc (len d) ++ d ++ rest) = Ok (d, rest).
Proof. intros. unfold bread. change (2 =? 2) with true. cbv iota. apply read_len_ok; assumption. Qed.

(* ---------- the field loop ---------- *)
Lemma loop_nil {X} (step : N -> X -> bytes -> res (X * bytes)) f l x : fields_loop step f l x [] = Ok x.
Proof. destruct f; reflexivity. Qed.

Lemma loop_step_app {X} (step : N -> X -> bytes -> res (X * bytes)) f l x x' fld rest r2 :
  fld <> [] -> step l x (fld ++ rest) = Ok (x', r2) ->
  fields_loop step (S f) l x (fld ++ rest) = fields_loop step f l x' r2.
Proof.
  intros Hne H. destruct fld as [|b fld]; [congruence|].
  cbn [app fields_loop] in *. rewrite H. reflexivity.
Qed.

(* more fuel never changes a successful result *)
Lemma loop_fuel_mono {X} (step : N -> X -> bytes -> res (X * bytes)) :
  forall f k l x rest y, fields_loop step f l x rest = Ok y -> fields_loop step (f + k) l x rest = Ok y.
Proof.
  induction f as [|f IH]; intros k l x rest y H.
  - destruct rest; cbn [fields_loop] in H; [|discriminate]. rewrite loop_nil. exact H.
  - destruct rest as [|b rest]; [rewrite loop_nil; cbn in H; exact H|].
    cbn [Nat.add fields_loop] in *.
    destruct (step l x (b :: rest)) as [[x' r2]|e]; cbn [bind] in *; [|discriminate].
    apply IH. exact H.
Qed.

Ltac tag_reduce :=
  match goal with
  | |- context [read_tag (?t :: ?r)] =>
      let ft := eval vm_compute in (tag_split t) in
      match ft with
      | (?fn, ?wt) => change (read_tag (t :: r)) with (@Ok (N * N * bytes) (fn, wt, r))
      end
  end.

(* the dispatch on the (now literal) field number: decide the closed comparisons with the generated constants *)
Ltac eqb_reduce :=
  repeat match goal with
         | |- context [N.eqb ?a ?b] =>
             let v := eval vm_compute in (N.eqb a b) in
             match v with
             | true => change (N.eqb a b) with true
             | false => change (N.eqb a b) with false
             end
         end;
  cbv iota.

Lemma vfield_ne t v : vfield t v <> [].
Proof. discriminate. Qed.
Lemma bfield_ne t d : bfield t d <> [].
Proof. discriminate. Qed.
Lemma cons_ne (t : N) r : t :: r <> [].
Proof. discriminate. Qed.

(* ---------- Entry ---------- *)
Section EntrySteps.
Variables (l : N) (e : entry) (rest : bytes).
Lemma entry_step_1 v : v < two64 -> entry_step l e (vfield tg_Entry_Type v ++ rest) = Ok (set_e_type (low32 v) e, rest).
Proof. intro. unfold entry_step, vfield. cbn [app]. tag_reduce. cbn [bind]. eqb_reduce. rewrite vread_ok by assumption. reflexivity. Qed.
Lemma entry_step_2 v : v < two64 -> entry_step l e (vfield tg_Entry_Term v ++ rest) = Ok (set_e_term v e, rest).
Proof. intro. unfold entry_step, vfield. cbn [app]. tag_reduce. cbn [bind]. eqb_reduce. rewrite vread_ok by assumption. reflexivity. Qed.
Lemma entry_step_3 v : v < two64 -> entry_step l e (vfield tg_Entry_Index v ++ rest) = Ok (set_e_index v e, rest).
Proof. intro. unfold entry_step, vfield. cbn [app]. tag_reduce. cbn [bind]. eqb_reduce. rewrite vread_ok by assumption. reflexivity. Qed.
Lemma entry_step_4 d : l < two63 -> len (d ++ rest) <= l ->
  entry_step l e (bfield tg_Entry_Data d ++ rest) = Ok (set_e_data (Some d) e, rest).
Proof.
  intros. unfold entry_step, bfield. cbn [app]. tag_reduce. cbn [bind]. eqb_reduce.
  rewrite <- app_assoc. rewrite bread_ok by assumption. reflexivity.
Qed.
Lemma entry_step_5 v : v < two64 -> entry_step l e (vfield tg_Entry_ID v ++ rest) = Ok (set_e_id v e, rest).
Proof. intro. unfold entry_step, vfield. cbn [app]. tag_reduce. cbn [bind]. eqb_reduce. rewrite vread_ok by assumption. reflexivity. Qed.
Lemma entry_step_6 v : v < two64 -> entry_step l e (vfield tg_Entry_DataType v ++ rest) = Ok (set_e_dtype (low32 v) e, rest).
Proof. intro. unfold entry_step, vfield. cbn [app]. tag_reduce. cbn [bind]. eqb_reduce. rewrite vread_ok by assumption. reflexivity. Qed.
Lemma entry_step_7 v : v < two64 -> entry_step l e (vfield tg_Entry_Timestamp v ++ rest) = Ok (set_e_ts v e, rest).
Proof. intro. unfold entry_step, vfield. cbn [app]. tag_reduce. cbn [bind]. eqb_reduce. rewrite vread_ok by assumption. reflexivity. Qed.
End EntrySteps.

(* ---------- Size() is the length of MarshalTo() ---------- *)
Lemma len_vfield t v : len (vfield t v) = vfield_size v.
Proof. unfold vfield, vfield_size. rewrite len_cons, len_varint. reflexivity. Qed.
Lemma len_bfield t d : len (bfield t d) = bfield_size (len d).
Proof. unfold bfield, bfield_size. rewrite len_cons, len_app, len_varint. lia. Qed.
Lemma len_obfield t d : len (obfield t d) = obfield_size d.
Proof. destruct d; [apply len_bfield|reflexivity]. Qed.

Lemma entry_size_ok e : len (entry_marshal e) = entry_size e.
Proof.
  unfold entry_marshal, entry_size. rewrite !len_app, !len_vfield, len_obfield. lia.
Qed.

Lemma vfield_size_pos v : 2 <= vfield_size v.
Proof. unfold vfield_size. pose proof (sov_bounds v). lia. Qed.

Ltac split_ok H :=
  repeat match type of H with
         | (_ && _) = true => let H1 := fresh H in apply andb_true_iff in H as [H H1]
         end.
Ltac ok_lt :=
  repeat match goal with
         | H : u64 _ = true |- _ => unfold u64 in H; apply N.ltb_lt in H
         | H : u32 _ = true |- _ => unfold u32 in H; apply N.ltb_lt in H
         end.

(* all but the first [n] bytes of a right-nested append chain: used to bound the rest by l *)
Ltac len_tac := unfold len, bfield, vfield in *; repeat (rewrite ?app_length in *; cbn [length] in * ); lia.

Ltac vstep lem := erewrite loop_step_app; [ | apply vfield_ne | apply lem; assumption ].
Ltac bstep lem := erewrite loop_step_app; [ | apply bfield_ne | apply lem; [assumption | len_tac] ].

Lemma entry_rt e : entry_ok e = true -> entry_size e < two63 ->
  entry_unmarshal (entry_marshal e) = Ok e.
Proof.
  intros Hok Hsz. unfold entry_ok in Hok. split_ok Hok. ok_lt.
  unfold entry_unmarshal, entry_unmarshal_into, unmarshal_with.
  rewrite <- entry_size_ok in Hsz.
  assert (Hfuel : exists k, S (length (entry_marshal e)) = (7 + k)%nat).
  { exists (S (length (entry_marshal e)) - 7)%nat.
    unfold entry_marshal, vfield. repeat (rewrite ?app_length; cbn [length]). lia. }
  destruct Hfuel as [k ->].
  remember (len (entry_marshal e)) as l eqn:Hl.
  pose proof (sext32_lt (e_type e) ltac:(assumption)) as Ht.
  pose proof (sext32_lt (e_dtype e) ltac:(assumption)) as Hd.
  rewrite <- (app_nil_r (entry_marshal e)).
  unfold entry_marshal in *. rewrite <- !app_assoc.
  destruct e as [ty te ix da id dt ts]; cbn [e_type e_term e_index e_data e_id e_dtype e_ts] in *.
  cbn [Nat.add].
  vstep entry_step_1. vstep entry_step_2. vstep entry_step_3.
  destruct da as [d|]; cbn [obfield app] in *.
  - bstep entry_step_4.
    vstep entry_step_5. vstep entry_step_6. vstep entry_step_7.
    rewrite loop_nil. cbn. rewrite !low32_sext32 by assumption. reflexivity.
  - vstep entry_step_5. vstep entry_step_6. vstep entry_step_7.
    rewrite loop_nil. cbn. rewrite !low32_sext32 by assumption. reflexivity.
Qed.

(* ---------- Group ---------- *)
Section GroupSteps.
Variables (l : N) (g : group) (rest : bytes).
Lemma group_step_1 v : v < two64 -> group_step l g (vfield tg_Group_NodeId v ++ rest) = Ok (set_g_node v g, rest).
Proof. intro. unfold group_step, vfield. cbn [app]. tag_reduce. cbn [bind]. eqb_reduce. rewrite vread_ok by assumption. reflexivity. Qed.
Lemma group_step_2 d : l < two63 -> len (d ++ rest) <= l ->
  group_step l g (bfield tg_Group_Name d ++ rest) = Ok (set_g_name d g, rest).
Proof.
  intros. unfold group_step, bfield. cbn [app]. tag_reduce. cbn [bind]. eqb_reduce.
  rewrite <- app_assoc. rewrite bread_ok by assumption. reflexivity.
Qed.
Lemma group_step_3 v : v < two64 -> group_step l g (vfield tg_Group_GroupId v ++ rest) = Ok (set_g_gid v g, rest).
Proof. intro. unfold group_step, vfield. cbn [app]. tag_reduce. cbn [bind]. eqb_reduce. rewrite vread_ok by assumption. reflexivity. Qed.
Lemma group_step_4 v : v < two64 -> group_step l g (vfield tg_Group_RaftReplicaId v ++ rest) = Ok (set_g_rid v g, rest).
Proof. intro. unfold group_step, vfield. cbn [app]. tag_reduce. cbn [bind]. eqb_reduce. rewrite vread_ok by assumption. reflexivity. Qed.
End GroupSteps.

Lemma group_size_ok g : len (group_marshal g) = group_size g.
Proof. unfold group_marshal, group_size. rewrite !len_app, !len_vfield, len_bfield. lia. Qed.

Lemma group_rt g0 g : group_ok g = true -> group_size g < two63 ->
  group_unmarshal_into g0 (group_marshal g) = Ok g.
Proof.
  intros Hok Hsz. unfold group_ok in Hok. split_ok Hok. ok_lt.
  unfold group_unmarshal_into, unmarshal_with.
  rewrite <- group_size_ok in Hsz.
  assert (Hfuel : exists k, S (length (group_marshal g)) = (4 + k)%nat).
  { exists (S (length (group_marshal g)) - 4)%nat.
    unfold group_marshal, vfield, bfield. repeat (rewrite ?app_length; cbn [length]). lia. }
  destruct Hfuel as [k ->].
  remember (len (group_marshal g)) as l eqn:Hl.
  rewrite <- (app_nil_r (group_marshal g)).
  unfold group_marshal in *. rewrite <- !app_assoc.
  destruct g as [nd nm gi ri]; cbn [g_node g_name g_gid g_rid] in *.
  cbn [Nat.add].
  vstep group_step_1. bstep group_step_2. vstep group_step_3. vstep group_step_4.
  rewrite loop_nil. reflexivity.
Qed.

Lemma sub_group_eq t g : t :: varint_enc (group_size g) ++ group_marshal g = bfield t (group_marshal g).
Proof. unfold bfield. rewrite group_size_ok. reflexivity. Qed.

(* ---------- ConfState ---------- *)
Section ConfSteps.
Variables (l : N) (c : confstate) (rest : bytes).
Lemma conf_step_1 v : v < two64 -> conf_step l c (vfield tg_ConfState_Nodes v ++ rest) = Ok (set_c_nodes (c_nodes c ++ [v]) c, rest).
Proof.
  intro. unfold conf_step, vfield. cbn [app]. tag_reduce. cbn [bind]. eqb_reduce. unfold nums_read.
  change (0 =? 0) with true. cbv iota. rewrite varint_rt by assumption. reflexivity.
Qed.
Lemma conf_step_3 v : v < two64 -> conf_step l c (vfield tg_ConfState_Learners v ++ rest) = Ok (set_c_learners (c_learners c ++ [v]) c, rest).
Proof.
  intro. unfold conf_step, vfield. cbn [app]. tag_reduce. cbn [bind]. eqb_reduce. unfold nums_read.
  change (0 =? 0) with true. cbv iota. rewrite varint_rt by assumption. reflexivity.
Qed.
Lemma conf_step_2 g : group_ok g = true -> l < two63 -> len (group_marshal g ++ rest) <= l ->
  conf_step l c (bfield tg_ConfState_Groups (group_marshal g) ++ rest) = Ok (set_c_groups (c_groups c ++ [g]) c, rest).
Proof.
  intros Hg Hl Hr. unfold conf_step, bfield. cbn [app]. tag_reduce. cbn [bind]. eqb_reduce.
  rewrite <- app_assoc. rewrite bread_ok by assumption. cbn [bind].
  rewrite group_rt; [reflexivity|assumption|]. rewrite <- group_size_ok. rewrite len_app in Hr. lia.
Qed.
Lemma conf_step_4 g : group_ok g = true -> l < two63 -> len (group_marshal g ++ rest) <= l ->
  conf_step l c (bfield tg_ConfState_LearnerGroups (group_marshal g) ++ rest) = Ok (set_c_lgroups (c_lgroups c ++ [g]) c, rest).
Proof.
  intros Hg Hl Hr. unfold conf_step, bfield. cbn [app]. tag_reduce. cbn [bind]. eqb_reduce.
  rewrite <- app_assoc. rewrite bread_ok by assumption. cbn [bind].
  rewrite group_rt; [reflexivity|assumption|]. rewrite <- group_size_ok. rewrite len_app in Hr. lia.
Qed.
End ConfSteps.

Lemma conf_nodes_loop : forall ns f l c rest, forallb u64 ns = true ->
  fields_loop conf_step (length ns + f) l c (concat (map (vfield tg_ConfState_Nodes) ns) ++ rest) =
  fields_loop conf_step f l (set_c_nodes (c_nodes c ++ ns) c) rest.
Proof.
  induction ns as [|n ns IH]; intros f l c rest H.
  - cbn. rewrite app_nil_r. destruct c; reflexivity.
  - cbn [forallb] in H. apply andb_true_iff in H as [Hn Hns]. ok_lt.
    cbn [map concat length Nat.add]. rewrite <- app_assoc.
    vstep conf_step_1. rewrite IH by assumption. destruct c; cbn. rewrite <- app_assoc. reflexivity.
Qed.
Lemma conf_learners_loop : forall ns f l c rest, forallb u64 ns = true ->
  fields_loop conf_step (length ns + f) l c (concat (map (vfield tg_ConfState_Learners) ns) ++ rest) =
  fields_loop conf_step f l (set_c_learners (c_learners c ++ ns) c) rest.
Proof.
  induction ns as [|n ns IH]; intros f l c rest H.
  - cbn. rewrite app_nil_r. destruct c; reflexivity.
  - cbn [forallb] in H. apply andb_true_iff in H as [Hn Hns]. ok_lt.
    cbn [map concat length Nat.add]. rewrite <- app_assoc.
    vstep conf_step_3. rewrite IH by assumption. destruct c; cbn. rewrite <- app_assoc. reflexivity.
Qed.
Lemma conf_groups_loop : forall gs f l c rest, forallb group_ok gs = true -> l < two63 ->
  len (concat (map (fun g => bfield tg_ConfState_Groups (group_marshal g)) gs) ++ rest) <= l ->
  fields_loop conf_step (length gs + f) l c (concat (map (fun g => bfield tg_ConfState_Groups (group_marshal g)) gs) ++ rest) =
  fields_loop conf_step f l (set_c_groups (c_groups c ++ gs) c) rest.
Proof.
  induction gs as [|g gs IH]; intros f l c rest H Hl Hr.
  - cbn. rewrite app_nil_r. destruct c; reflexivity.
  - cbn [forallb] in H. apply andb_true_iff in H as [Hg Hgs].
    cbn [map concat length Nat.add] in *. rewrite <- app_assoc in *.
    erewrite loop_step_app; [ | apply bfield_ne | apply conf_step_2; [assumption|assumption| len_tac] ].
    rewrite IH; [|assumption|assumption| len_tac]. destruct c; cbn. rewrite <- app_assoc. reflexivity.
Qed.
Lemma conf_lgroups_loop : forall gs f l c rest, forallb group_ok gs = true -> l < two63 ->
  len (concat (map (fun g => bfield tg_ConfState_LearnerGroups (group_marshal g)) gs) ++ rest) <= l ->
  fields_loop conf_step (length gs + f) l c (concat (map (fun g => bfield tg_ConfState_LearnerGroups (group_marshal g)) gs) ++ rest) =
  fields_loop conf_step f l (set_c_lgroups (c_lgroups c ++ gs) c) rest.
Proof.
  induction gs as [|g gs IH]; intros f l c rest H Hl Hr.
  - cbn. rewrite app_nil_r. destruct c; reflexivity.
  - cbn [forallb] in H. apply andb_true_iff in H as [Hg Hgs].
    cbn [map concat length Nat.add] in *. rewrite <- app_assoc in *.
    erewrite loop_step_app; [ | apply bfield_ne | apply conf_step_4; [assumption|assumption| len_tac] ].
    rewrite IH; [|assumption|assumption| len_tac]. destruct c; cbn. rewrite <- app_assoc. reflexivity.
Qed.

Lemma concat_map_length_ge {A} (F : A -> bytes) xs :
  (forall x, (1 <= length (F x))%nat) -> (length xs <= length (concat (map F xs)))%nat.
Proof.
  intro H. induction xs as [|x xs IH]; cbn [map concat length]; [lia|].
  rewrite app_length. specialize (H x). lia.
Qed.
Lemma len_concat_map {A} (F : A -> bytes) (sz : A -> N) xs :
  (forall x, len (F x) = sz x) -> len (concat (map F xs)) = sum_map sz xs.
Proof.
  intro H. induction xs as [|x xs IH]; cbn [map concat sum_map fold_right]; [reflexivity|].
  rewrite len_app, H. unfold sum_map in IH. rewrite IH. reflexivity.
Qed.

Lemma vfield_len1 t v : (1 <= length (vfield t v))%nat.
Proof. unfold vfield. cbn [length]. lia. Qed.
Lemma bfield_len1 t d : (1 <= length (bfield t d))%nat.
Proof. unfold bfield. cbn [length]. lia. Qed.

Lemma conf_marshal_eq c : conf_marshal c =
  concat (map (vfield tg_ConfState_Nodes) (c_nodes c)) ++
  concat (map (fun g => bfield tg_ConfState_Groups (group_marshal g)) (c_groups c)) ++
  concat (map (vfield tg_ConfState_Learners) (c_learners c)) ++
  concat (map (fun g => bfield tg_ConfState_LearnerGroups (group_marshal g)) (c_lgroups c)).
Proof.
  unfold conf_marshal.
  rewrite (map_ext (fun g => tg_ConfState_Groups :: varint_enc (group_size g) ++ group_marshal g)
                   (fun g => bfield tg_ConfState_Groups (group_marshal g))) by (intro; apply sub_group_eq).
  rewrite (map_ext (fun g => tg_ConfState_LearnerGroups :: varint_enc (group_size g) ++ group_marshal g)
                   (fun g => bfield tg_ConfState_LearnerGroups (group_marshal g))) by (intro; apply sub_group_eq).
  reflexivity.
Qed.

Lemma conf_size_ok c : len (conf_marshal c) = conf_size c.
Proof.
  rewrite conf_marshal_eq. unfold conf_size. rewrite !len_app.
  rewrite (len_concat_map (vfield tg_ConfState_Nodes) vfield_size) by (intro; apply len_vfield).
  rewrite (len_concat_map (vfield tg_ConfState_Learners) vfield_size) by (intro; apply len_vfield).
  rewrite (len_concat_map (fun g => bfield tg_ConfState_Groups (group_marshal g)) (fun g => bfield_size (group_size g)))
    by (intro; rewrite len_bfield, group_size_ok; reflexivity).
  rewrite (len_concat_map (fun g => bfield tg_ConfState_LearnerGroups (group_marshal g)) (fun g => bfield_size (group_size g)))
    by (intro; rewrite len_bfield, group_size_ok; reflexivity).
  lia.
Qed.

Lemma conf_rt c : conf_ok c = true -> conf_size c < two63 ->
  conf_unmarshal_into conf0 (conf_marshal c) = Ok c.
Proof.
  intros Hok Hsz. unfold conf_ok in Hok. split_ok Hok.
  unfold conf_unmarshal_into, unmarshal_with.
  rewrite <- conf_size_ok in Hsz.
  assert (Hfuel : exists k, S (length (conf_marshal c)) =
            (length (c_nodes c) + (length (c_groups c) + (length (c_learners c) + (length (c_lgroups c) + k))))%nat).
  { exists (S (length (conf_marshal c)) - (length (c_nodes c) + (length (c_groups c) + (length (c_learners c) + length (c_lgroups c)))))%nat.
    rewrite conf_marshal_eq. rewrite !app_length.
    pose proof (concat_map_length_ge (vfield tg_ConfState_Nodes) (c_nodes c) (vfield_len1 tg_ConfState_Nodes)).
    pose proof (concat_map_length_ge (vfield tg_ConfState_Learners) (c_learners c) (vfield_len1 tg_ConfState_Learners)).
    pose proof (concat_map_length_ge (fun g => bfield tg_ConfState_Groups (group_marshal g)) (c_groups c) (fun g => bfield_len1 tg_ConfState_Groups _)).
    pose proof (concat_map_length_ge (fun g => bfield tg_ConfState_LearnerGroups (group_marshal g)) (c_lgroups c) (fun g => bfield_len1 tg_ConfState_LearnerGroups _)).
    lia. }
  destruct Hfuel as [k ->].
  remember (len (conf_marshal c)) as l eqn:Hl.
  rewrite <- (app_nil_r (conf_marshal c)).
  rewrite conf_marshal_eq in *. rewrite <- !app_assoc.
  rewrite conf_nodes_loop by assumption.
  rewrite conf_groups_loop; [|assumption|assumption| len_tac].
  rewrite conf_learners_loop by assumption.
  rewrite conf_lgroups_loop; [|assumption|assumption| len_tac].
  rewrite loop_nil. destruct c; reflexivity.
Qed.

Lemma sub_conf_eq t c : t :: varint_enc (conf_size c) ++ conf_marshal c = bfield t (conf_marshal c).
Proof. unfold bfield. rewrite conf_size_ok. reflexivity. Qed.

(* ---------- SnapshotMetadata ---------- *)
Section MetaSteps.
Variables (l : N) (s : snapmeta) (rest : bytes).
Lemma meta_step_1 c : sm_conf s = conf0 -> conf_ok c = true -> l < two63 -> len (conf_marshal c ++ rest) <= l ->
  meta_step l s (bfield tg_SnapshotMetadata_ConfState (conf_marshal c) ++ rest) = Ok (set_sm_conf c s, rest).
Proof.
  intros H0 Hc Hl Hr. unfold meta_step, bfield. cbn [app]. tag_reduce. cbn [bind]. eqb_reduce.
  rewrite <- app_assoc. rewrite bread_ok by assumption. cbn [bind]. rewrite H0.
  rewrite conf_rt; [reflexivity|assumption|]. rewrite <- conf_size_ok. rewrite len_app in Hr. lia.
Qed.
Lemma meta_step_2 v : v < two64 -> meta_step l s (vfield tg_SnapshotMetadata_Index v ++ rest) = Ok (set_sm_index v s, rest).
Proof. intro. unfold meta_step, vfield. cbn [app]. tag_reduce. cbn [bind]. eqb_reduce. rewrite vread_ok by assumption. reflexivity. Qed.
Lemma meta_step_3 v : v < two64 -> meta_step l s (vfield tg_SnapshotMetadata_Term v ++ rest) = Ok (set_sm_term v s, rest).
Proof. intro. unfold meta_step, vfield. cbn [app]. tag_reduce. cbn [bind]. eqb_reduce. rewrite vread_ok by assumption. reflexivity. Qed.
End MetaSteps.

Definition meta_ok (s : snapmeta) : bool := conf_ok (sm_conf s) && u64 (sm_index s) && u64 (sm_term s).

Lemma meta_marshal_eq s : meta_marshal s =
  bfield tg_SnapshotMetadata_ConfState (conf_marshal (sm_conf s)) ++ vfield tg_SnapshotMetadata_Index (sm_index s) ++ vfield tg_SnapshotMetadata_Term (sm_term s).
Proof. unfold meta_marshal. rewrite <- sub_conf_eq. cbn [app]. rewrite <- app_assoc. reflexivity. Qed.

Lemma meta_size_ok s : len (meta_marshal s) = meta_size s.
Proof.
  rewrite meta_marshal_eq. unfold meta_size. rewrite !len_app, !len_vfield, len_bfield, conf_size_ok. lia.
Qed.

Lemma meta_rt s : meta_ok s = true -> meta_size s < two63 ->
  meta_unmarshal_into meta0 (meta_marshal s) = Ok s.
Proof.
  intros Hok Hsz. unfold meta_ok in Hok. split_ok Hok. ok_lt.
  unfold meta_unmarshal_into, unmarshal_with.
  rewrite <- meta_size_ok in Hsz.
  assert (Hfuel : exists k, S (length (meta_marshal s)) = (3 + k)%nat).
  { exists (S (length (meta_marshal s)) - 3)%nat.
    rewrite meta_marshal_eq. unfold vfield, bfield. repeat (rewrite ?app_length; cbn [length]). lia. }
  destruct Hfuel as [k ->].
  remember (len (meta_marshal s)) as l eqn:Hl.
  rewrite <- (app_nil_r (meta_marshal s)).
  rewrite meta_marshal_eq in *. rewrite <- !app_assoc.
  destruct s as [c ix te]; cbn [sm_conf sm_index sm_term] in *.
  cbn [Nat.add].
  erewrite loop_step_app; [ | apply bfield_ne | apply meta_step_1; [reflexivity|assumption|assumption| len_tac] ].
  vstep meta_step_2. vstep meta_step_3.
  rewrite loop_nil. reflexivity.
Qed.

Lemma sub_meta_eq t s : t :: varint_enc (meta_size s) ++ meta_marshal s = bfield t (meta_marshal s).
Proof. unfold bfield. rewrite meta_size_ok. reflexivity. Qed.

(* ---------- Snapshot ---------- *)
Section SnapSteps.
Variables (l : N) (s : snapshot) (rest : bytes).
Lemma snap_step_1 d : l < two63 -> len (d ++ rest) <= l ->
  snap_step l s (bfield tg_Snapshot_Data d ++ rest) = Ok (set_s_data (Some d) s, rest).
Proof.
  intros. unfold snap_step, bfield. cbn [app]. tag_reduce. cbn [bind]. eqb_reduce.
  rewrite <- app_assoc. rewrite bread_ok by assumption. reflexivity.
Qed.
Lemma snap_step_2 md : s_meta s = meta0 -> meta_ok md = true -> l < two63 -> len (meta_marshal md ++ rest) <= l ->
  snap_step l s (bfield tg_Snapshot_Metadata (meta_marshal md) ++ rest) = Ok (set_s_meta md s, rest).
Proof.
  intros H0 Hc Hl Hr. unfold snap_step, bfield. cbn [app]. tag_reduce. cbn [bind]. eqb_reduce.
  rewrite <- app_assoc. rewrite bread_ok by assumption. cbn [bind]. rewrite H0.
  rewrite meta_rt; [reflexivity|assumption|]. rewrite <- meta_size_ok. rewrite len_app in Hr. lia.
Qed.
End SnapSteps.

Lemma snap_marshal_eq s : snap_marshal s = obfield tg_Snapshot_Data (s_data s) ++ bfield tg_Snapshot_Metadata (meta_marshal (s_meta s)).
Proof. unfold snap_marshal. rewrite <- sub_meta_eq. reflexivity. Qed.

Lemma snap_size_ok s : len (snap_marshal s) = snap_size s.
Proof. rewrite snap_marshal_eq. unfold snap_size. rewrite len_app, len_obfield, len_bfield, meta_size_ok. lia. Qed.

Lemma snap_ok_meta s : snap_ok s = true -> meta_ok (s_meta s) = true.
Proof. intro H. exact H. Qed.

Lemma snap_rt s : snap_ok s = true -> snap_size s < two63 ->
  snap_unmarshal_into snap0 (snap_marshal s) = Ok s.
Proof.
  intros Hok Hsz. apply snap_ok_meta in Hok.
  unfold snap_unmarshal_into, unmarshal_with.
  rewrite <- snap_size_ok in Hsz.
  assert (Hfuel : exists k, S (length (snap_marshal s)) = (2 + k)%nat).
  { exists (S (length (snap_marshal s)) - 2)%nat.
    rewrite snap_marshal_eq. unfold bfield. repeat (rewrite ?app_length; cbn [length]). lia. }
  destruct Hfuel as [k ->].
  remember (len (snap_marshal s)) as l eqn:Hl.
  rewrite <- (app_nil_r (snap_marshal s)).
  rewrite snap_marshal_eq in *. rewrite <- !app_assoc.
  destruct s as [da md]; cbn [s_data s_meta] in *.
  cbn [Nat.add].
  destruct da as [d|]; cbn [obfield app] in *.
  - bstep snap_step_1.
    erewrite loop_step_app; [ | apply bfield_ne | apply snap_step_2; [reflexivity|assumption|assumption| len_tac] ].
    rewrite loop_nil. reflexivity.
  - erewrite loop_step_app; [ | apply bfield_ne | apply snap_step_2; [reflexivity|assumption|assumption| len_tac] ].
    rewrite loop_nil. reflexivity.
Qed.

Lemma sub_snap_eq t s : t :: varint_enc (snap_size s) ++ snap_marshal s = bfield t (snap_marshal s).
Proof. unfold bfield. rewrite snap_size_ok. reflexivity. Qed.
Lemma sub_entry_eq t e : t :: varint_enc (entry_size e) ++ entry_marshal e = bfield t (entry_marshal e).
Proof. unfold bfield. rewrite entry_size_ok. reflexivity. Qed.

(* ---------- Message ---------- *)
Section MsgSteps.
Variables (l : N) (m : message) (rest : bytes).
Ltac vs := intro; unfold msg_step, vfield; cbn [app]; tag_reduce; cbn [bind]; rewrite vread_ok by assumption; reflexivity.
Lemma msg_step_1 v : v < two64 -> msg_step l m (vfield tg_Message_Type v ++ rest) = Ok (set_m_type (low32 v) m, rest).
Proof. vs. Qed.
Lemma msg_step_2 v : v < two64 -> msg_step l m (vfield tg_Message_To v ++ rest) = Ok (set_m_to v m, rest).
Proof. vs. Qed.
Lemma msg_step_3 v : v < two64 -> msg_step l m (vfield tg_Message_From v ++ rest) = Ok (set_m_from v m, rest).
Proof. vs. Qed.
Lemma msg_step_4 v : v < two64 -> msg_step l m (vfield tg_Message_Term v ++ rest) = Ok (set_m_term v m, rest).
Proof. vs. Qed.
Lemma msg_step_5 v : v < two64 -> msg_step l m (vfield tg_Message_LogTerm v ++ rest) = Ok (set_m_logterm v m, rest).
Proof. vs. Qed.
Lemma msg_step_6 v : v < two64 -> msg_step l m (vfield tg_Message_Index v ++ rest) = Ok (set_m_index v m, rest).
Proof. vs. Qed.
Lemma msg_step_8 v : v < two64 -> msg_step l m (vfield tg_Message_Commit v ++ rest) = Ok (set_m_commit v m, rest).
Proof. vs. Qed.
Lemma msg_step_10 v : v < two64 -> msg_step l m (vfield tg_Message_Reject v ++ rest) = Ok (set_m_reject (negb (v =? 0)) m, rest).
Proof. vs. Qed.
Lemma msg_step_11 v : v < two64 -> msg_step l m (vfield tg_Message_RejectHint v ++ rest) = Ok (set_m_rhint v m, rest).
Proof. vs. Qed.
Lemma msg_step_7 e : entry_ok e = true -> l < two63 -> len (entry_marshal e ++ rest) <= l ->
  msg_step l m (bfield tg_Message_Entries (entry_marshal e) ++ rest) = Ok (set_m_entries (m_entries m ++ [e]) m, rest).
Proof.
  intros He Hl Hr. unfold msg_step, bfield. cbn [app]. tag_reduce. cbn [bind]. eqb_reduce.
  rewrite <- app_assoc. rewrite bread_ok by assumption. cbn [bind].
  fold (entry_unmarshal (entry_marshal e)).
  rewrite entry_rt; [reflexivity|assumption|]. rewrite <- entry_size_ok. rewrite len_app in Hr. lia.
Qed.
Lemma msg_step_9 s : m_snap m = snap0 -> snap_ok s = true -> l < two63 -> len (snap_marshal s ++ rest) <= l ->
  msg_step l m (bfield tg_Message_Snapshot (snap_marshal s) ++ rest) = Ok (set_m_snap s m, rest).
Proof.
  intros H0 Hs Hl Hr. unfold msg_step, bfield. cbn [app]. tag_reduce. cbn [bind]. eqb_reduce.
  rewrite <- app_assoc. rewrite bread_ok by assumption. cbn [bind]. rewrite H0.
  rewrite snap_rt; [reflexivity|assumption|]. rewrite <- snap_size_ok. rewrite len_app in Hr. lia.
Qed.
Lemma msg_step_12 d : l < two63 -> len (d ++ rest) <= l ->
  msg_step l m (bfield tg_Message_Context d ++ rest) = Ok (set_m_ctx (Some d) m, rest).
Proof.
  intros. unfold msg_step, bfield. cbn [app]. tag_reduce. cbn [bind]. eqb_reduce.
  rewrite <- app_assoc. rewrite bread_ok by assumption. reflexivity.
Qed.
Lemma msg_step_13 g : group_ok g = true -> l < two63 -> len (group_marshal g ++ rest) <= l ->
  msg_step l m (bfield tg_Message_FromGroup (group_marshal g) ++ rest) = Ok (set_m_fromg g m, rest).
Proof.
  intros Hg Hl Hr. unfold msg_step, bfield. cbn [app]. tag_reduce. cbn [bind]. eqb_reduce.
  rewrite <- app_assoc. rewrite bread_ok by assumption. cbn [bind].
  rewrite group_rt; [reflexivity|assumption|]. rewrite <- group_size_ok. rewrite len_app in Hr. lia.
Qed.
Lemma msg_step_14 g : group_ok g = true -> l < two63 -> len (group_marshal g ++ rest) <= l ->
  msg_step l m (bfield tg_Message_ToGroup (group_marshal g) ++ rest) = Ok (set_m_tog g m, rest).
Proof.
  intros Hg Hl Hr. unfold msg_step, bfield. cbn [app]. tag_reduce. cbn [bind]. eqb_reduce.
  rewrite <- app_assoc. rewrite bread_ok by assumption. cbn [bind].
  rewrite group_rt; [reflexivity|assumption|]. rewrite <- group_size_ok. rewrite len_app in Hr. lia.
Qed.
End MsgSteps.

Lemma msg_entries_loop : forall es f l m rest, forallb entry_ok es = true -> l < two63 ->
  len (concat (map (fun e => bfield tg_Message_Entries (entry_marshal e)) es) ++ rest) <= l ->
  fields_loop msg_step (length es + f) l m (concat (map (fun e => bfield tg_Message_Entries (entry_marshal e)) es) ++ rest) =
  fields_loop msg_step f l (set_m_entries (m_entries m ++ es) m) rest.
Proof.
  induction es as [|e es IH]; intros f l m rest H Hl Hr.
  - cbn. rewrite app_nil_r. destruct m; reflexivity.
  - cbn [forallb] in H. apply andb_true_iff in H as [He Hes].
    cbn [map concat length Nat.add] in *. rewrite <- app_assoc in *.
    erewrite loop_step_app; [ | apply bfield_ne | apply msg_step_7; [assumption|assumption| len_tac] ].
    rewrite IH; [|assumption|assumption| len_tac]. destruct m; cbn. rewrite <- app_assoc. reflexivity.
Qed.

Definition reject_n (b : bool) : N := if b then 1 else 0.

Lemma msg_marshal_eq m : msg_marshal m =
  vfield tg_Message_Type (sext32 (m_type m)) ++ vfield tg_Message_To (m_to m) ++ vfield tg_Message_From (m_from m) ++ vfield tg_Message_Term (m_term m) ++
  vfield tg_Message_LogTerm (m_logterm m) ++ vfield tg_Message_Index (m_index m) ++
  concat (map (fun e => bfield tg_Message_Entries (entry_marshal e)) (m_entries m)) ++
  vfield tg_Message_Commit (m_commit m) ++ bfield tg_Message_Snapshot (snap_marshal (m_snap m)) ++ vfield tg_Message_Reject (reject_n (m_reject m)) ++
  vfield tg_Message_RejectHint (m_rhint m) ++ obfield tg_Message_Context (m_ctx m) ++
  bfield tg_Message_FromGroup (group_marshal (m_fromg m)) ++ bfield tg_Message_ToGroup (group_marshal (m_tog m)).
Proof.
  unfold msg_marshal.
  rewrite (map_ext (fun e => tg_Message_Entries :: varint_enc (entry_size e) ++ entry_marshal e)
                   (fun e => bfield tg_Message_Entries (entry_marshal e))) by (intro; apply sub_entry_eq).
  rewrite sub_snap_eq, !sub_group_eq.
  replace [tg_Message_Reject; if m_reject m then 1 else 0] with (vfield tg_Message_Reject (reject_n (m_reject m)))
    by (destruct (m_reject m); reflexivity).
  reflexivity.
Qed.

Lemma msg_size_ok m : len (msg_marshal m) = msg_size m.
Proof.
  rewrite msg_marshal_eq. unfold msg_size. rewrite !len_app, !len_vfield, !len_bfield, len_obfield.
  rewrite (len_concat_map (fun e => bfield tg_Message_Entries (entry_marshal e)) (fun e => bfield_size (entry_size e)))
    by (intro; rewrite len_bfield, entry_size_ok; reflexivity).
  rewrite snap_size_ok, !group_size_ok.
  replace (vfield_size (reject_n (m_reject m))) with 2 by (destruct (m_reject m); reflexivity).
  lia.
Qed.

Lemma msg_rt m : msg_ok m = true -> msg_unmarshal (msg_marshal m) = Ok m.
Proof.
  intros Hok. unfold msg_ok in Hok. split_ok Hok. ok_lt.
  match goal with H : (msg_size m <? two63) = true |- _ => apply N.ltb_lt in H; rename H into Hsz end.
  unfold msg_unmarshal, msg_unmarshal_into, unmarshal_with.
  rewrite <- msg_size_ok in Hsz.
  assert (Hfuel : exists k, S (length (msg_marshal m)) = (6 + (length (m_entries m) + (7 + k)))%nat).
  { exists (S (length (msg_marshal m)) - (6 + (length (m_entries m) + 7)))%nat.
    rewrite msg_marshal_eq.
    pose proof (concat_map_length_ge (fun e => bfield tg_Message_Entries (entry_marshal e)) (m_entries m) (fun e => bfield_len1 tg_Message_Entries _)).
    unfold vfield, bfield. repeat (rewrite ?app_length; cbn [length]). unfold bfield in H. lia. }
  destruct Hfuel as [k ->].
  remember (len (msg_marshal m)) as l eqn:Hl.
  pose proof (sext32_lt (m_type m) ltac:(assumption)) as Ht.
  assert (Hrj : reject_n (m_reject m) < two64) by (destruct (m_reject m); reflexivity).
  rewrite <- (app_nil_r (msg_marshal m)).
  rewrite msg_marshal_eq in *. rewrite <- !app_assoc.
  destruct m as [ty to from term lt ix es commit snap rej rh ctx fg tg];
    cbn [m_type m_to m_from m_term m_logterm m_index m_entries m_commit m_snap m_reject m_rhint m_ctx m_fromg m_tog] in *.
  cbn [Nat.add].
  vstep msg_step_1. vstep msg_step_2. vstep msg_step_3. vstep msg_step_4. vstep msg_step_5. vstep msg_step_6.
  rewrite msg_entries_loop; [|assumption|assumption| len_tac].
  cbn [Nat.add].
  vstep msg_step_8.
  erewrite loop_step_app; [ | apply bfield_ne | apply msg_step_9; [reflexivity|assumption|assumption| len_tac] ].
  vstep msg_step_10. vstep msg_step_11.
  destruct ctx as [d|]; cbn [obfield app] in *.
  - bstep msg_step_12.
    erewrite loop_step_app; [ | apply bfield_ne | apply msg_step_13; [assumption|assumption| len_tac] ].
    erewrite loop_step_app; [ | apply bfield_ne | apply msg_step_14; [assumption|assumption| len_tac] ].
    rewrite loop_nil. cbn. rewrite low32_sext32 by assumption. destruct rej; reflexivity.
  - erewrite loop_step_app; [ | apply bfield_ne | apply msg_step_13; [assumption|assumption| len_tac] ].
    erewrite loop_step_app; [ | apply bfield_ne | apply msg_step_14; [assumption|assumption| len_tac] ].
    rewrite loop_nil. cbn. rewrite low32_sext32 by assumption. destruct rej; reflexivity.
Qed.
