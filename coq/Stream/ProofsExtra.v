(* Stream/ProofsExtra.v — C16: corollaries of the round-trip theorems. *)
From ZV Require Import Common.Bytes Stream.Consts Stream.Proto Stream.Model Stream.ProofsProto Stream.Proofs.
Open Scope N_scope.

(* two well-formed sequences with the same bytes on the wire are the same sequence *)
Theorem v2_encoding_injective local remote ms1 ms2 :
  v2_seq_ok local remote st0 ms1 = true -> v2_seq_ok local remote st0 ms2 = true ->
  v2_encode_all st0 ms1 = v2_encode_all st0 ms2 -> ms1 = ms2.
Proof.
  intros H1 H2 E. pose proof (v2_roundtrip local remote ms1 H1) as R1.
  pose proof (v2_roundtrip local remote ms2 H2) as R2. rewrite E in R1. congruence.
Qed.

Theorem plain_encoding_injective ms1 ms2 :
  plain_seq_ok ms1 = true -> plain_seq_ok ms2 = true ->
  plain_encode_all ms1 = plain_encode_all ms2 -> ms1 = ms2.
Proof.
  intros H1 H2 E. pose proof (plain_roundtrip ms1 H1) as R1.
  pose proof (plain_roundtrip ms2 H2) as R2. rewrite E in R1. congruence.
Qed.

(* the stream of a concatenation is the concatenation of the streams, the second one encoded in the
   context the first one leaves (what makes a long-lived connection work) *)
Lemma v2_encode_all_app : forall ms1 st ms2,
  v2_encode_all st (ms1 ++ ms2) = v2_encode_all st ms1 ++ v2_encode_all (v2_enc_state st ms1) ms2.
Proof.
  induction ms1 as [|m ms1 IH]; intros st ms2; [reflexivity|].
  cbn [app v2_encode_all]. rewrite IH. unfold v2_enc_state. cbn [fold_left]. rewrite app_assoc. reflexivity.
Qed.

Lemma v2_seq_ok_app local remote : forall ms1 st ms2,
  v2_seq_ok local remote st (ms1 ++ ms2) =
  v2_seq_ok local remote st ms1 && v2_seq_ok local remote (v2_enc_state st ms1) ms2.
Proof.
  induction ms1 as [|m ms1 IH]; intros st ms2; [reflexivity|].
  cbn [app v2_seq_ok]. rewrite IH. unfold v2_enc_state. cbn [fold_left]. rewrite andb_assoc. reflexivity.
Qed.
