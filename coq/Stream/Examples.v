(* Stream/Examples.v — C16: concrete messages used by the non-vacuity examples and the
   `_refuted` witnesses of Properties/C16.v (definitions only). The same sequences are kept as
   cases in corpus/C16/witnesses.tsv and replayed on the Go code by every check run. *)
From ZV Require Import Common.Bytes Stream.Consts Stream.Proto Stream.Model.
Open Scope N_scope.

(* two raft groups between node 1 (sender, "remote") and node 2 (receiver, "local") *)
Definition gA_from := mkGroup 1 [110;115;45;48] 7 11.   (* "ns-0", group 7, replica 11 on node 1 *)
Definition gA_to   := mkGroup 2 [110;115;45;48] 7 12.
Definition gB_from := mkGroup 1 [110;115;45;49] 8 21.   (* "ns-1" *)
Definition gB_to   := mkGroup 2 [110;115;45;49] 8 22.

Definition ent (term index : N) (d : bytes) : entry := mkEntry 0 term index (Some d) (100 + index) 0 1600000000.

Definition app (fg tg : group) (term logterm index commit : N) (es : list entry) : message :=
  mkMsg msg_app (g_rid tg) (g_rid fg) term logterm index es commit snap0 false 0 None fg tg.

(* probe (full frame), two replicate-phase appends that continue it (compact frames), a link
   heartbeat, the other group (full frame), its continuation, back to group A (full frame) *)
Definition exA1 := app gA_from gA_to 3 2 10 9 [ent 3 11 [1;2;3]].
Definition exA2 := app gA_from gA_to 3 3 11 10 [ent 3 12 [4]; ent 3 13 []].
Definition exA3 := app gA_from gA_to 3 3 13 12 [].
Definition exB1 := app gB_from gB_to 5 5 40 40 [ent 5 41 [9;9]].
Definition exB2 := app gB_from gB_to 5 5 41 41 [ent 5 42 [8]].
Definition exA4 := app gA_from gA_to 3 3 13 13 [ent 3 14 [7]].
Definition ex_seq : list message := [exA1; exA2; exA3; link_heartbeat; exB1; exB2; exA4].

(* all message types on the plain codec, with a snapshot *)
Definition ex_snap : snapshot :=
  mkSnap (Some [5;5;5]) (mkMeta (mkConf [11;12] [gA_from; gA_to] [13] [gB_from]) 100 3).
Definition ex_plain : list message :=
  [ mkMsg 7 12 11 3 0 0 [] 0 ex_snap false 0 None gA_from gA_to;          (* MsgSnap *)
    mkMsg 4 11 12 3 0 13 [] 0 snap0 true 12 None gA_to gA_from;            (* MsgAppResp, reject *)
    mkMsg 5 12 11 4 3 13 [] 0 snap0 false 0 (Some [1]) gA_from gA_to;      (* MsgVote with context *)
    mkMsg 8 12 11 3 0 0 [] 13 snap0 false 0 (Some []) gA_from gA_to;       (* MsgHeartbeat, empty context *)
    exA1 ].

(* --- witnesses: one well-formedness clause dropped in the message that continues exA1 --- *)
Definition set_from (v : N) (m : message) := set_m_from v m.
Definition bad_from : message := set_m_from 99 exA2.                          (* From <> FromGroup.RaftReplicaId *)
Definition bad_type : message := set_m_type 4 exA2.                           (* a MsgAppResp that "continues" *)
Definition bad_name : message := set_m_fromg (set_g_name [120] gA_from) exA2. (* same ids, other name *)
Definition bad_ctx : message := set_m_ctx (Some [1;2]) exA2.                  (* context bytes on a MsgApp *)
Definition bad_reject : message := set_m_reject true exA2.
Definition bad_hb : message := set_m_commit 5 link_heartbeat.                 (* heartbeat-shaped message with a payload *)
