(* Stream/Wf.v — C16: the STATIC description of what the transport puts on a msgappv2 stream
   (raft/raft.go send: From = r.id = FromGroup.RaftReplicaId, FromGroup = r.group, ToGroup = the
   progress' group; transport/rafthttp/peer.go pick: only MsgApp goes to the msgappv2 writer;
   stream.go: the writer adds link heartbeats), as a boolean predicate that does not mention the
   encoder context. Stream/ProofsWf.v shows that it implies the context-relative premise
   [v2_seq_ok] of the round-trip theorems. Definitions only. *)
From ZV Require Import Common.Bytes Stream.Consts Stream.Proto Stream.Model.
Open Scope N_scope.

Definition msg_eq_heartbeat (m : message) : bool :=
  (m_type m =? link_heartbeat_type) && (m_to m =? 0) && (m_from m =? 0) &&
  (m_term m =? 0) && (m_logterm m =? 0) && (m_index m =? 0) && (match m_entries m with [] => true | _ => false end) &&
  (m_commit m =? 0) && snap_is_zero (m_snap m) && negb (m_reject m) && (m_rhint m =? 0) && is_none (m_ctx m) &&
  group_eqb (m_fromg m) group0 && group_eqb (m_tog m) group0.

(* a MsgApp as raft.send emits it on the stream from node [remote] to node [local] *)
Definition sent_app (local remote : N) (m : message) : bool :=
  (m_type m =? msg_app) &&
  (m_from m =? g_rid (m_fromg m)) && (m_to m =? g_rid (m_tog m)) &&
  (g_node (m_fromg m) =? remote) && (g_node (m_tog m) =? local) &&
  (1 <=? m_term m) &&                                   (* a leader's term is at least 1 *)
  snap_is_zero (m_snap m) && negb (m_reject m) && (m_rhint m =? 0) && is_none (m_ctx m) &&
  (msg_size m <=? read_bytes_limit) &&
  (nlen (m_entries m) <=? read_bytes_limit / 8) &&
  forallb (fun e => entry_size e <=? read_bytes_limit) (m_entries m).

Definition sent_msg (local remote : N) (m : message) : bool :=
  msg_ok m && (msg_eq_heartbeat m || sent_app local remote m).

(* a group's name is determined by its (node, group, replica) ids throughout the stream *)
Definition names_agree (a b : group) : bool := implb (same_group a b) (bytes_eqb (g_name a) (g_name b)).
Definition names_consistent (ms : list message) : bool :=
  forallb (fun m => forallb (fun m' => names_agree (m_fromg m) (m_fromg m') && names_agree (m_tog m) (m_tog m')) ms) ms.

Definition send_wf (local remote : N) (ms : list message) : bool :=
  forallb (sent_msg local remote) ms && names_consistent ms.
