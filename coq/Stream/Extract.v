(* Stream/Extract.v — extraction of the C16 model (ExtrOcamlBasic only) *)
From Coq Require Import ExtrOcamlBasic.
From ZV Require Import Stream.Consts Stream.Model.
Extraction Language OCaml.
Extraction "model.ml" Z.of_N N.of_nat Nat.add
  v2_encode_all v2_frame v2_next v2_run plain_encode_all plain_run v2_seq_ok plain_seq_ok st0 conns_encode conns_run link_heartbeat pipeline_body pipeline_receive snap_body snap_receive msg_app msg_snap
  msg_marshal msg_unmarshal entry_marshal entry_unmarshal msg_size entry_size.
