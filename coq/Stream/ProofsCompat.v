(* Stream/ProofsCompat.v — C16: forward compatibility of the protobuf layer. A marshalled message
   followed by fields this version does not know (field numbers 15 .. 2^28-1, wire types varint,
   fixed64, length-delimited, fixed32) unmarshals to the same message: the `default:` arm of
   Message.Unmarshal (skipRaft) skips exactly the unknown field. *)
From Coq Require Import ZifyN ZifyNat ZifyBool.
From ZV Require Import Common.Bytes Stream.Consts Stream.Proto Stream.ProofsProto.
Open Scope N_scope.

Arguments N.mul : simpl never.
Arguments N.add : simpl never.
Arguments N.sub : simpl never.
Arguments N.land : simpl never.
Arguments N.shiftr : simpl never.
Arguments N.pow : simpl never.
Arguments N.ltb : simpl never.
Arguments N.leb : simpl never.
Arguments N.eqb : simpl never.
Arguments N.of_nat : simpl never.
Arguments N.to_nat : simpl never.
Arguments firstn : simpl never.
Arguments skipn : simpl never.

(* the known fields of a marshalled message, with anything after them *)
Lemma msg_loop_rest m rest k : msg_ok m = true -> len (msg_marshal m ++ rest) < two63 ->
  exists j, fields_loop msg_step (6 + (length (m_entries m) + (7 + k))) (len (msg_marshal m ++ rest)) msg0 (msg_marshal m ++ rest)
            = fields_loop msg_step (j + k) (len (msg_marshal m ++ rest)) m rest.
Proof.
  intros Hok Hsz. unfold msg_ok in Hok. split_ok Hok. ok_lt.
  remember (len (msg_marshal m ++ rest)) as l eqn:Hl.
  pose proof (sext32_lt (m_type m) ltac:(assumption)) as Ht.
  assert (Hrj : reject_n (m_reject m) < two64) by (destruct (m_reject m); reflexivity).
  rewrite msg_marshal_eq in *. rewrite <- !app_assoc in *.
  destruct m as [ty to from term lt ix es commit snap rej rh ctx fg tg];
    cbn [m_type m_to m_from m_term m_logterm m_index m_entries m_commit m_snap m_reject m_rhint m_ctx m_fromg m_tog] in *.
  cbn [Nat.add].
  vstep msg_step_1. vstep msg_step_2. vstep msg_step_3. vstep msg_step_4. vstep msg_step_5. vstep msg_step_6.
  rewrite msg_entries_loop; [|assumption|assumption| len_tac].
  cbn [Nat.add].
  vstep msg_step_8.
  erewrite loop_step_app; [ | apply bfield_ne | apply msg_step_9; [reflexivity|assumption|assumption| len_tac] ].
  vstep msg_step_10. vstep msg_step_11.
  destruct ctx as [d|]; cbn [obfield app] in *.
  - bstep msg_step_12.
    erewrite loop_step_app; [ | apply bfield_ne | apply msg_step_13; [assumption|assumption| len_tac] ].
    erewrite loop_step_app; [ | apply bfield_ne | apply msg_step_14; [assumption|assumption| len_tac] ].
    exists 0%nat. cbn. rewrite low32_sext32 by assumption. destruct rej; reflexivity.
  - erewrite loop_step_app; [ | apply bfield_ne | apply msg_step_13; [assumption|assumption| len_tac] ].
    erewrite loop_step_app; [ | apply bfield_ne | apply msg_step_14; [assumption|assumption| len_tac] ].
    exists 1%nat. cbn. rewrite low32_sext32 by assumption. destruct rej; reflexivity.
Qed.

(* ---------- fields of a later version ---------- *)
Inductive ufield :=
| UVarint (fnum v : N)
| UFixed64 (fnum : N) (b : bytes)
| UBytes (fnum : N) (d : bytes)
| UFixed32 (fnum : N) (b : bytes).

Definition utag (fnum wt : N) : bytes := varint_enc (fnum * 8 + wt).
Definition ufield_enc (u : ufield) : bytes :=
  match u with
  | UVarint f v => utag f 0 ++ varint_enc v
  | UFixed64 f b => utag f 1 ++ b
  | UBytes f d => utag f 2 ++ varint_enc (len d) ++ d
  | UFixed32 f b => utag f 5 ++ b
  end.
Definition unknown_num (f : N) : Prop := 15 <= f < 268435456.
Definition ufield_ok (u : ufield) : Prop :=
  match u with
  | UVarint f v => unknown_num f /\ v < two64
  | UFixed64 f b => unknown_num f /\ length b = 8%nat
  | UBytes f d => unknown_num f
  | UFixed32 f b => unknown_num f /\ length b = 4%nat
  end.

Lemma tag_split_mk f wt : f < 268435456 -> wt < 8 -> tag_split (f * 8 + wt) = (f, wt).
Proof.
  intros Hf Hw. unfold tag_split, low32. rewrite land_mask32.
  rewrite N.shiftr_div_pow2. change (2 ^ 3) with 8.
  change 7 with (N.ones 3). rewrite N.land_ones. change (2 ^ 3) with 8.
  replace ((f * 8 + wt) / 8) with f.
  2:{ apply (N.div_unique (f * 8 + wt) 8 f wt); lia. }
  replace ((f * 8 + wt) mod 8) with wt.
  2:{ apply (N.mod_unique (f * 8 + wt) 8 f wt); lia. }
  rewrite N.mod_small by (unfold two32; lia). reflexivity.
Qed.

Lemma read_utag f wt rest : unknown_num f -> wt < 8 -> wt <> 4 ->
  read_tag (utag f wt ++ rest) = Ok (f, wt, rest).
Proof.
  intros [Hf1 Hf2] Hw H4. unfold read_tag, utag.
  rewrite varint_rt by (unfold two64; lia). cbn [bind].
  rewrite tag_split_mk by assumption.
  replace (wt =? 4) with false by lia.
  unfold bad_field. replace (f =? 0) with false by lia. replace (two31 <=? f) with false by (unfold two31; lia).
  reflexivity.
Qed.

(* field numbers above 14 fall into the `default:` arm *)
Lemma msg_step_default l m rest f wt r1 : 15 <= f ->
  read_tag rest = Ok (f, wt, r1) ->
  msg_step l m rest = (do r2 <- skip_field l rest ; Ok (m, r2)).
Proof.
  intros Hf Ht. unfold msg_step. rewrite Ht. cbn [bind].
  unfold fn_Message_Type, fn_Message_To, fn_Message_From, fn_Message_Term, fn_Message_LogTerm, fn_Message_Index,
    fn_Message_Entries, fn_Message_Commit, fn_Message_Snapshot, fn_Message_Reject, fn_Message_RejectHint,
    fn_Message_Context, fn_Message_FromGroup, fn_Message_ToGroup.
  repeat match goal with |- context [N.eqb f ?k] => replace (N.eqb f k) with false by lia end.
  reflexivity.
Qed.

Lemma utag_len f wt : 1 <= len (utag f wt).
Proof. unfold utag. rewrite len_varint. apply sov_bounds. Qed.

Lemma skip_ufield l u rest : ufield_ok u -> l < two63 -> len (ufield_enc u ++ rest) <= l ->
  skip_field l (ufield_enc u ++ rest) = Ok rest.
Proof.
  intros Hok Hl Hr. unfold skip_field.
  assert (Hskip : skip_raft (S (length (ufield_enc u ++ rest))) (ufield_enc u ++ rest) = Ok (len (ufield_enc u))).
  { cbn [skip_raft]. destruct u as [f v|f b|f d|f b]; cbn [ufield_enc ufield_ok] in *.
    - destruct Hok as [[Hf1 Hf2] Hv]. unfold utag at 1. rewrite <- app_assoc.
      rewrite varint_rt by (unfold two64; lia). cbn [bind].
      replace (N.land (f * 8 + 0) 7) with 0.
      2:{ change 7 with (N.ones 3). rewrite N.land_ones. change (2 ^ 3) with 8.
          apply (N.mod_unique _ 8 f); lia. }
      rewrite varint_rt by assumption. cbn [bind]. f_equal.
      rewrite !len_app. unfold utag. lia.
    - destruct Hok as [[Hf1 Hf2] Hb]. unfold utag at 1. rewrite <- app_assoc.
      rewrite varint_rt by (unfold two64; lia). cbn [bind].
      replace (N.land (f * 8 + 1) 7) with 1.
      2:{ change 7 with (N.ones 3). rewrite N.land_ones. change (2 ^ 3) with 8.
          apply (N.mod_unique _ 8 f); lia. }
      f_equal. rewrite !len_app. unfold utag, len. rewrite Hb. lia.
    - destruct Hok as [Hf1 Hf2]. unfold utag at 1. rewrite <- app_assoc.
      rewrite varint_rt by (unfold two64; lia). cbn [bind].
      replace (N.land (f * 8 + 2) 7) with 2.
      2:{ change 7 with (N.ones 3). rewrite N.land_ones. change (2 ^ 3) with 8.
          apply (N.mod_unique _ 8 f); lia. }
      assert (Hd : len d < two63).
      { rewrite !len_app in Hr. lia. }
      rewrite <- app_assoc. rewrite varint_rt by (unfold two63, two64 in *; lia). cbn [bind].
      replace (two63 <=? len d) with false by lia.
      rewrite !len_app in *. unfold utag in *.
      match goal with |- (if ?c then _ else _) = _ => replace c with false by lia end.
      f_equal. lia.
    - destruct Hok as [[Hf1 Hf2] Hb]. unfold utag at 1. rewrite <- app_assoc.
      rewrite varint_rt by (unfold two64; lia). cbn [bind].
      replace (N.land (f * 8 + 5) 7) with 5.
      2:{ change 7 with (N.ones 3). rewrite N.land_ones. change (2 ^ 3) with 8.
          apply (N.mod_unique _ 8 f); lia. }
      f_equal. rewrite !len_app. unfold utag, len. rewrite Hb. lia. }
  rewrite Hskip. cbn [bind].
  rewrite len_app in *.
  replace (two63 <=? l - (len (ufield_enc u) + len rest) + len (ufield_enc u)) with false by lia.
  replace (l <? l - (len (ufield_enc u) + len rest) + len (ufield_enc u)) with false by lia.
  rewrite skipn_len_app. reflexivity.
Qed.

Lemma ufield_tag u : ufield_ok u -> exists f wt r, 15 <= f /\ forall rest, read_tag (ufield_enc u ++ rest) = Ok (f, wt, r ++ rest).
Proof.
  destruct u as [f v|f b|f d|f b]; cbn [ufield_ok ufield_enc]; intro H.
  - destruct H as [Hf _]. exists f, 0, (varint_enc v). split; [apply Hf|]. intro rest.
    rewrite <- app_assoc. apply read_utag; [exact Hf|lia|lia].
  - destruct H as [Hf _]. exists f, 1, b. split; [apply Hf|]. intro rest.
    rewrite <- app_assoc. apply read_utag; [exact Hf|lia|lia].
  - exists f, 2, (varint_enc (len d) ++ d). split; [apply H|]. intro rest.
    rewrite <- app_assoc. apply read_utag; [exact H|lia|lia].
  - destruct H as [Hf _]. exists f, 5, b. split; [apply Hf|]. intro rest.
    rewrite <- app_assoc. apply read_utag; [exact Hf|lia|lia].
Qed.

Lemma ufield_enc_ne u : ufield_enc u <> [].
Proof.
  pose proof (utag_len 0 0).
  destruct u; cbn [ufield_enc]; intro E; apply (f_equal len) in E; rewrite ?len_app, len_nil in E;
    match goal with E : len (utag ?f ?w) + _ = 0 |- _ => pose proof (utag_len f w); lia end.
Qed.

Lemma unknown_loop : forall us fuel l m rest, Forall ufield_ok us -> l < two63 ->
  len (concat (map ufield_enc us) ++ rest) <= l ->
  fields_loop msg_step (length us + fuel) l m (concat (map ufield_enc us) ++ rest) = fields_loop msg_step fuel l m rest.
Proof.
  induction us as [|u us IH]; intros fuel l m rest Hok Hl Hr; [reflexivity|].
  inversion Hok as [|? ? Hu Hus]; subst.
  cbn [map concat length Nat.add] in *. rewrite <- app_assoc in *.
  destruct (ufield_tag u Hu) as [f [wt [r [Hf Htag]]]].
  erewrite loop_step_app; [ | apply ufield_enc_ne | ].
  2:{ erewrite msg_step_default; [|exact Hf|apply Htag].
      rewrite skip_ufield; [reflexivity|assumption|assumption|assumption]. }
  apply IH; [assumption|assumption|]. rewrite len_app in Hr. lia.
Qed.

(* a marshalled message followed by any number of unknown fields unmarshals to the same message *)
Theorem msg_forward_compatible m us :
  msg_ok m = true -> Forall ufield_ok us ->
  len (msg_marshal m ++ concat (map ufield_enc us)) < two63 ->
  msg_unmarshal (msg_marshal m ++ concat (map ufield_enc us)) = Ok m.
Proof.
  intros Hok Hus Hsz.
  unfold msg_unmarshal, msg_unmarshal_into, unmarshal_with.
  set (bs := msg_marshal m ++ concat (map ufield_enc us)) in *.
  (* enough fuel: one unit per field *)
  assert (Hfuel : exists k, S (length bs) = (6 + (length (m_entries m) + (7 + length us)) + k)%nat).
  { exists (S (length bs) - (6 + (length (m_entries m) + (7 + length us))))%nat.
    unfold bs. rewrite app_length, msg_marshal_eq.
    pose proof (concat_map_length_ge (fun e => bfield tg_Message_Entries (entry_marshal e)) (m_entries m) (fun e => bfield_len1 tg_Message_Entries _)) as H1.
    assert (H2 : (length us <= length (concat (map ufield_enc us)))%nat).
    { apply concat_map_length_ge. intro u. pose proof (ufield_enc_ne u). destruct (ufield_enc u); [congruence|cbn; lia]. }
    unfold vfield, bfield. repeat (rewrite ?app_length; cbn [length]). unfold bfield in H1. lia. }
  destruct Hfuel as [k ->]. apply loop_fuel_mono.
  destruct (msg_loop_rest m (concat (map ufield_enc us)) (length us) Hok Hsz) as [j Hj].
  fold bs in Hj. rewrite Hj.
  replace (j + length us)%nat with (length us + j)%nat by lia.
  rewrite <- (app_nil_r (concat (map ufield_enc us))).
  rewrite unknown_loop; [apply loop_nil|assumption|exact Hsz|].
  rewrite app_nil_r. unfold bs. rewrite len_app. lia.
Qed.

(* ---------- the generated constants are coherent: every tag byte MarshalTo writes is the single-byte
   varint of (field number << 3 | wire type) that Unmarshal dispatches on ---------- *)
Definition all_tags : list (N * N * N) :=
  [(tg_Group_NodeId, fn_Group_NodeId, wt_Group_NodeId);
   (tg_Group_Name, fn_Group_Name, wt_Group_Name);
   (tg_Group_GroupId, fn_Group_GroupId, wt_Group_GroupId);
   (tg_Group_RaftReplicaId, fn_Group_RaftReplicaId, wt_Group_RaftReplicaId);
   (tg_Entry_Type, fn_Entry_Type, wt_Entry_Type);
   (tg_Entry_Term, fn_Entry_Term, wt_Entry_Term);
   (tg_Entry_Index, fn_Entry_Index, wt_Entry_Index);
   (tg_Entry_Data, fn_Entry_Data, wt_Entry_Data);
   (tg_Entry_ID, fn_Entry_ID, wt_Entry_ID);
   (tg_Entry_DataType, fn_Entry_DataType, wt_Entry_DataType);
   (tg_Entry_Timestamp, fn_Entry_Timestamp, wt_Entry_Timestamp);
   (tg_ConfState_Nodes, fn_ConfState_Nodes, wt_ConfState_Nodes);
   (tg_ConfState_Groups, fn_ConfState_Groups, wt_ConfState_Groups);
   (tg_ConfState_Learners, fn_ConfState_Learners, wt_ConfState_Learners);
   (tg_ConfState_LearnerGroups, fn_ConfState_LearnerGroups, wt_ConfState_LearnerGroups);
   (tg_SnapshotMetadata_ConfState, fn_SnapshotMetadata_ConfState, wt_SnapshotMetadata_ConfState);
   (tg_SnapshotMetadata_Index, fn_SnapshotMetadata_Index, wt_SnapshotMetadata_Index);
   (tg_SnapshotMetadata_Term, fn_SnapshotMetadata_Term, wt_SnapshotMetadata_Term);
   (tg_Snapshot_Data, fn_Snapshot_Data, wt_Snapshot_Data);
   (tg_Snapshot_Metadata, fn_Snapshot_Metadata, wt_Snapshot_Metadata);
   (tg_Message_Type, fn_Message_Type, wt_Message_Type);
   (tg_Message_To, fn_Message_To, wt_Message_To);
   (tg_Message_From, fn_Message_From, wt_Message_From);
   (tg_Message_Term, fn_Message_Term, wt_Message_Term);
   (tg_Message_LogTerm, fn_Message_LogTerm, wt_Message_LogTerm);
   (tg_Message_Index, fn_Message_Index, wt_Message_Index);
   (tg_Message_Entries, fn_Message_Entries, wt_Message_Entries);
   (tg_Message_Commit, fn_Message_Commit, wt_Message_Commit);
   (tg_Message_Snapshot, fn_Message_Snapshot, wt_Message_Snapshot);
   (tg_Message_Reject, fn_Message_Reject, wt_Message_Reject);
   (tg_Message_RejectHint, fn_Message_RejectHint, wt_Message_RejectHint);
   (tg_Message_Context, fn_Message_Context, wt_Message_Context);
   (tg_Message_FromGroup, fn_Message_FromGroup, wt_Message_FromGroup);
   (tg_Message_ToGroup, fn_Message_ToGroup, wt_Message_ToGroup)].
Lemma tags_consistent :
  forallb (fun '(t, f, w) => (t =? f * 8 + w) && (t <? 128) && ((w =? 0) || (w =? 2))) all_tags = true.
Proof. vm_compute. reflexivity. Qed.
