(* Scan/Model.v — C13: cursor scans.
   Hand-written executable model of:
     engine/iterator.go      rangeLimitIterator (RangeOpen, Limit{0,-1}), RangeLimitedIterator.Valid/Next,
                             over an ideal cursor on a sorted key list (Seek = first >=, SeekForPrev = last <=,
                             SeekToFirst; the cursors of the engines themselves are C20's subject)
     rockredis/scan.go       getDataStoreType, buildScanKeyRange, encodeScanMinKey, encodeScanMaxKey, encodeScanKey,
                             decodeScanKey, checkScanCount, buildMatchRegexp (the empty pattern), scanGenericUseBuffer,
                             buildSpecificDataScanKeyRange, encodeSpecificDataScanMinKey/MaxKey/Key,
                             buildSpecificDataScanIterator, hScanGeneric / sScanGeneric / zScanGeneric
                             (after GetCollVersionKey, whose result — table, version key, exists — is an input)
     rockredis/t_collections.go encodeMetaKey, encodeCollSubKey, decodeCollSubKey
     rockredis/t_table.go    encodeDataTablePrefixToBuf, decodeDataTablePrefixFromBuf
     rockredis/t_kv.go, t_hash.go (…)  encodeKVKey, decodeKVKey, h/s/z/lEncodeSizeKey, …DecodeSizeKey, h/s/zDecode…Key
     common/type.go          ExtractTable;  common/limit.go CheckKey
     node/scan.go            parseScanArgs (the clamping of COUNT, after Atoi), scanCommand, advanceScanCommand,
                             hscanCommand, sscanCommand, zscanCommand
     server/scan_merge.go    decodeScanCursor (the re-wrapping "table:cursor" of one partition's cursor),
                             doScanCommon / doMergeScan / doScanNodesFilter (COUNT split, merged cursor, merged page;
                             not: base64 text of the cursor, Go map order of the partitions)
   and of the client loop "feed the returned cursor back until it is empty" (with fuel).
   An operation returns [Err] where Go returns a non-nil error and [Panic] where Go faults.
   No proofs in this file. *)
From ZV Require Export Common.Bytes.
From ZV Require Import Scan.Consts.
Open Scope N_scope.

Inductive outcome (A : Type) : Type :=
| Ok (a : A)
| Err
| Panic.
Arguments Ok {A} a.
Arguments Err {A}.
Arguments Panic {A}.

(* ---------- helpers ---------- *)

(* k[len(k)-1] = k[len(k)-1] + 1 (byte arithmetic); every caller passes at least the type byte *)
Fixpoint incr_last (k : bytes) : bytes :=
  match k with
  | [] => []
  | [c] => [(c + 1) mod 256]
  | x :: r => x :: incr_last r
  end.

(* binary.BigEndian.PutUint16(buf, uint16(n)) *)
Definition be16 (n : nat) : bytes :=
  let v := N.of_nat n in [(v / 256) mod 256; v mod 256].

Fixpoint last_opt {A : Type} (l : list A) : option A :=
  match l with
  | [] => None
  | [x] => Some x
  | _ :: r => last_opt r
  end.

(* bytes.IndexByte + slicing: split at the first separator *)
Fixpoint split_first (sep : N) (bs : bytes) : option (bytes * bytes) :=
  match bs with
  | [] => None
  | x :: r => if x =? sep then Some ([], r)
              else match split_first sep r with
                   | Some (a, b) => Some (x :: a, b)
                   | None => None
                   end
  end.
(* common.ExtractTable: (table, rest) or an error *)
Definition extract_table (raw : bytes) : option (bytes * bytes) := split_first key_sep raw.

(* ---------- engine/iterator.go over an ideal cursor ---------- *)
(* The database is the ascending list of its keys. A forward cursor is the list of keys from the
   current one on; a reverse cursor is the descending list of keys from the current one down. *)

(* Seek(min): first key >= min *)
Fixpoint seek_ge (min : bytes) (l : list bytes) : list bytes :=
  match l with
  | [] => []
  | k :: r => if bytes_ltb k min then seek_ge min r else l
  end.
(* SeekForPrev(max) on the descending list: first key <= max *)
Fixpoint seek_le (max : bytes) (l : list bytes) : list bytes :=
  match l with
  | [] => []
  | k :: r => if bytes_ltb max k then seek_le max r else l
  end.

(* rangeLimitIterator, !reverse, Min != nil, RangeLOpen: Seek(Min); if Valid && key <= Min then Next *)
Definition fwd_open_start (min : bytes) (db : list bytes) : list bytes :=
  match seek_ge min db with
  | k :: r => if bytes_leb k min then r else k :: r
  | [] => []
  end.
(* rangeLimitIterator, reverse, Max != nil, RangeROpen: SeekForPrev(Max); if !Valid then { SeekToFirst;
   if Valid && key > Max then Prev }; if Valid && key >= Max then Prev *)
Definition rev_open_start (max : bytes) (db : list bytes) : list bytes :=
  let c := match seek_le max (rev db) with
           | [] => match db with
                   | [] => []
                   | k0 :: _ => if bytes_ltb max k0 then [] (* Prev before the first key *) else [k0]
                   end
           | c => c
           end in
  match c with
  | k :: r => if bytes_leb max k then r else k :: r
  | [] => []
  end.
(* RangeLimitedIterator.Valid with Limit{0,-1}: !reverse: Max != nil, ROpen: key < Max;
   reverse: Min != nil, LOpen: key > Min *)
Definition valid_fwd (max k : bytes) : bool := bytes_ltb k max.
Definition valid_rev (min k : bytes) : bool := bytes_ltb min k.

(* ---------- key codecs used by the scans ---------- *)

Definition encode_kv_key (key : bytes) : bytes := kv_type :: key.
Definition decode_kv_key (ek : bytes) : outcome bytes :=
  match ek with
  | [] => Err
  | t :: r => if t =? kv_type then Ok r else Err
  end.
(* [t]"meta:"key — hEncodeSizeKey, sEncodeSizeKey, zEncodeSizeKey, lEncodeMetaKey, bitEncodeMetaKey *)
Definition size_key (t : N) (key : bytes) : bytes := t :: meta_prefix ++ key.
(* h/s/zDecodeSizeKey, lDecodeMetaKey: only the length and the type byte are checked *)
Definition decode_size_key (t : N) (ek : bytes) : outcome bytes :=
  match ek with
  | [] => Err
  | t0 :: r => if (length ek <? 1 + length meta_prefix)%nat || negb (t0 =? t) then Err
               else Ok (skipn (length meta_prefix) r)
  end.

(* encodeMetaKey(dt, key) *)
Definition encode_meta_key (dt : N) (key : bytes) : outcome bytes :=
  if dt =? kv_type then Ok (encode_kv_key key)
  else if (dt =? hash_type) || (dt =? hsize_type) then Ok (size_key hsize_type key)
  else if (dt =? set_type) || (dt =? ssize_type) then Ok (size_key ssize_type key)
  else if (dt =? bitmap_type) || (dt =? bitmap_meta_type) then Ok (size_key bitmap_meta_type key)
  else if (dt =? list_type) || (dt =? lmeta_type) then Ok (size_key lmeta_type key)
  else if (dt =? zset_type) || (dt =? zsize_type) || (dt =? zscore_type) then Ok (size_key zsize_type key)
  else Err.

(* decodeScanKey(storeDataType, ek) *)
Definition decode_scan_key (t : N) (ek : bytes) : outcome bytes :=
  if t =? kv_type then decode_kv_key ek
  else if (t =? lmeta_type) || (t =? hsize_type) || (t =? zsize_type) || (t =? ssize_type) then decode_size_key t ek
  else Err.

(* encodeDataTablePrefixToBuf for a collection type: [dt][len16] table ':' *)
Definition table_prefix (dt : N) (table : bytes) : bytes :=
  dt :: be16 (length table) ++ table ++ [table_start_sep].
(* encodeCollSubKey (dt in {hash, set, zset}) *)
Definition coll_prefix (dt : N) (table key : bytes) : bytes :=
  table_prefix dt table ++ be16 (length key) ++ key ++ [coll_start_sep].
Definition coll_key (dt : N) (table key sub : bytes) : bytes := coll_prefix dt table key ++ sub.
Definition is_coll_type (dt : N) : bool := (dt =? hash_type) || (dt =? set_type) || (dt =? zset_type).

(* decodeDataTablePrefixFromBuf(buf, dt): buf[pos] after the table is not bounds-checked *)
Definition decode_table_prefix (buf : bytes) (dt : N) : outcome (bytes * bytes) :=
  match buf with
  | [] => Err
  | b0 :: r =>
      if negb (b0 =? dt) then Err else
      match r with
      | h :: l :: r2 =>
          let n := N.to_nat (h * 256 + l) in
          if (length r2 <? n)%nat then Err else
          match skipn n r2 with
          | [] => Panic
          | s :: rest => if s =? table_start_sep then Ok (firstn n r2, rest) else Err
          end
      | _ => Err
      end
  end.
(* decodeCollSubKey: (dt, table, key, subkey) *)
Definition decode_coll_sub_key (dbk : bytes) : outcome (N * bytes * bytes * bytes) :=
  match dbk with
  | [] => Panic
  | dt :: _ =>
      if negb (is_coll_type dt) then Err else
      match decode_table_prefix dbk dt with
      | Err => Err
      | Panic => Panic
      | Ok (table, r) =>
          match r with
          | h :: l :: r2 =>
              let n := N.to_nat (h * 256 + l) in
              if (length r2 <? n)%nat then Err else
              match skipn n r2 with
              | [] => Panic
              | s :: sub => if s =? coll_start_sep then Ok (dt, table, firstn n r2, sub) else Err
              end
          | _ => Err
          end
      end
  end.
(* hDecodeHashKey / sDecodeSetKey / zDecodeSetKey: the element name *)
Definition decode_coll_elem (want : N) (ek : bytes) : outcome bytes :=
  match decode_coll_sub_key ek with
  | Ok (dt, _, _, sub) => if dt =? want then Ok sub else Err
  | Err => Err
  | Panic => Panic
  end.

(* ---------- rockredis/scan.go ---------- *)

Inductive dtype := KV | LIST | HASH | SET | ZSET.

Definition get_data_store_type (d : dtype) : N :=
  match d with
  | KV => kv_type
  | LIST => lmeta_type
  | HASH => hsize_type
  | SET => ssize_type
  | ZSET => zsize_type
  end.

(* checkScanCount *)
Definition check_scan_count (count : Z) : N :=
  if (count <=? 0)%Z then default_scan_count
  else if (Z.of_N max_batch_num <? count)%Z then max_batch_num
  else Z.to_N count.

Definition encode_scan_key (t : N) (key : bytes) : outcome bytes := encode_meta_key t key.
(* encodeScanMaxKey(t, nil) *)
Definition encode_scan_max_key_nil (t : N) : outcome bytes :=
  match encode_scan_key t [] with
  | Ok k => Ok (incr_last k)
  | Err => Err
  | Panic => Panic
  end.
(* buildScanKeyRange *)
Definition build_scan_key_range (t : N) (key : bytes) (reverse : bool) : outcome (bytes * bytes) :=
  if reverse then
    match encode_scan_key t key with
    | Ok mx => match encode_scan_key t [] with Ok mn => Ok (mn, mx) | Err => Err | Panic => Panic end
    | Err => Err
    | Panic => Panic
    end
  else
    match encode_scan_key t key with
    | Ok mn => match encode_scan_max_key_nil t with Ok mx => Ok (mn, mx) | Err => Err | Panic => Panic end
    | Err => Err
    | Panic => Panic
    end.

(* encodeSpecificDataScanKey *)
Definition encode_specific_key (dt : N) (table key cursor : bytes) : outcome bytes :=
  if is_coll_type dt then Ok (coll_key dt table key cursor) else Err.
(* buildSpecificDataScanKeyRange *)
Definition build_specific_range (dt : N) (table key cursor : bytes) (reverse : bool) : outcome (bytes * bytes) :=
  if reverse then
    match encode_specific_key dt table key cursor with
    | Ok mx => match encode_specific_key dt table key [] with Ok mn => Ok (mn, mx) | Err => Err | Panic => Panic end
    | Err => Err
    | Panic => Panic
    end
  else
    match encode_specific_key dt table key cursor with
    | Ok mn => match encode_specific_key dt table key [] with
               | Ok k => Ok (mn, incr_last k)
               | Err => Err
               | Panic => Panic
               end
    | Err => Err
    | Panic => Panic
    end.

Section WithMatch.
  (* buildMatchRegexp for a non-empty pattern: None = glob.Compile fails. The glob library is not modelled. *)
  Variable compile : bytes -> option (bytes -> bool).

  (* r == nil || r.Match(k) *)
  Definition matcher (pat : bytes) : option (bytes -> bool) :=
    match pat with
    | [] => Some (fun _ => true)
    | _ => compile pat
    end.

  (* for i := 0; it.Valid() && i < count; it.Next() { decode error -> continue; no match -> continue; append; i++ } *)
  Fixpoint scan_loop (valid : bytes -> bool) (dec : bytes -> outcome bytes) (m : bytes -> bool)
           (cur : list bytes) (n : nat) : list bytes :=
    match cur with
    | [] => []
    | k :: r =>
        match n with
        | O => []
        | S n' =>
            if valid k then
              match dec k with
              | Ok x => if m x then x :: scan_loop valid dec m r n' else scan_loop valid dec m r n
              | _ => scan_loop valid dec m r n
              end
            else []
        end
    end.

  (* the loop of h/s/zScanGeneric: a decode error ends the call with that error *)
  Fixpoint coll_loop (valid : bytes -> bool) (dec : bytes -> outcome bytes) (m : bytes -> bool)
           (cur : list bytes) (n : nat) : outcome (list bytes) :=
    match cur with
    | [] => Ok []
    | k :: r =>
        match n with
        | O => Ok []
        | S n' =>
            if valid k then
              match dec k with
              | Ok x => if m x then
                          match coll_loop valid dec m r n' with
                          | Ok l => Ok (x :: l)
                          | e => e
                          end
                        else coll_loop valid dec m r n
              | Err => Err
              | Panic => Panic
              end
            else Ok []
        end
    end.

  (* RockDB.Scan -> scanGenericUseBuffer *)
  Definition scan_generic (db : list bytes) (t : N) (key : bytes) (count : Z) (pat : bytes) (reverse : bool)
    : outcome (list bytes) :=
    match matcher pat with
    | None => Err
    | Some m =>
        match build_scan_key_range t key reverse with
        | Err => Err
        | Panic => Panic
        | Ok (mn, mx) =>
            let n := N.to_nat (check_scan_count count) in
            if reverse then Ok (scan_loop (valid_rev mn) (decode_scan_key t) m (rev_open_start mx db) n)
            else Ok (scan_loop (valid_fwd mx) (decode_scan_key t) m (fwd_open_start mn db) n)
        end
    end.

  (* hScanGeneric / sScanGeneric / zScanGeneric after GetCollVersionKey(key) = (table, verkey, exists);
     dt is the element type (hash_type / set_type / zset_type) *)
  Definition coll_scan_generic (db : list bytes) (dt : N) (table verkey : bytes) (exists_ : bool)
             (cursor : bytes) (count : Z) (pat : bytes) (reverse : bool) : outcome (list bytes) :=
    let n := N.to_nat (check_scan_count count) in
    match matcher pat with
    | None => Err
    | Some m =>
        if negb exists_ then Ok [] else
        (* buildSpecificDataScanIterator: checkKeySize(key) *)
        if (N.to_nat max_key_size <? length verkey)%nat || (length verkey =? 0)%nat then Err else
        match build_specific_range dt table verkey cursor reverse with
        | Err => Err
        | Panic => Panic
        | Ok (mn, mx) =>
            if reverse then coll_loop (valid_rev mn) (decode_coll_elem dt) m (rev_open_start mx db) n
            else coll_loop (valid_fwd mx) (decode_coll_elem dt) m (fwd_open_start mn db) n
        end
    end.

  (* ---------- node/scan.go ---------- *)

  (* parseScanArgs: cursor = args[0], taken literally: only the EMPTY cursor means "from the start"; there is no
     sentinel such as redis' "0" (a cursor is the raw name of the last element returned, so any non-empty
     sentinel would collide with an element of that name) *)
  Definition parse_cursor (arg : bytes) : bytes := arg.

  (* parseScanArgs, after strconv.Atoi: count < 0 -> 0; count > MAX_BATCH_NUM -> MAX_BATCH_NUM *)
  Definition clamp_count (count : Z) : Z :=
    let c := if (count <? 0)%Z then 0%Z else count in
    if (Z.of_N node_max_batch_num <? c)%Z then Z.of_N node_max_batch_num else c.

  (* one reply: the elements and the next cursor *)
  Definition page : Type := (list bytes * bytes)%type.

  (* if length < count || (count == 0 && length == 0) { "" } else { f(ay[len(ay)-1]) } *)
  Definition next_cursor (ay : list bytes) (count : Z) (f : bytes -> bytes) : outcome bytes :=
    let len := Z.of_nat (length ay) in
    if (len <? count)%Z || ((count =? 0)%Z && (len =? 0)%Z) then Ok []
    else match last_opt ay with
         | Some item => Ok (f item)
         | None => Panic
         end.

  Definition same_table (table v : bytes) : bool :=
    match extract_table v with
    | Some (tab, _) => bytes_eqb tab table
    | None => false
    end.
  (* for idx, v := range ay { if err != nil || tab != table { ay = ay[:idx]; break } } *)
  Fixpoint cut_table (table : bytes) (ay : list bytes) : list bytes :=
    match ay with
    | [] => []
    | v :: r => if same_table table v then v :: cut_table table r else []
    end.

  (* the part scanCommand and advanceScanCommand share (they differ in the data type only) *)
  Definition key_scan_command (db : list bytes) (d : dtype) (reverse : bool) (cursor pat : bytes) (count0 : Z)
    : outcome page :=
    let count := clamp_count count0 in
    let cursor := parse_cursor cursor in
    match extract_table cursor with
    | None => Err
    | Some (table, _) =>
        match scan_generic db (get_data_store_type d) cursor count pat reverse with
        | Err => Err
        | Panic => Panic
        | Ok ay =>
            match next_cursor ay count
                    (fun item => match extract_table item with Some (_, rk) => rk | None => [] end) with
            | Err => Err
            | Panic => Panic
            | Ok nc =>
                match last_opt ay with
                | Some item =>
                    match extract_table item with
                    | Some (tab, _) =>
                        if negb (bytes_eqb tab table) then Ok (cut_table table ay, []) else Ok (ay, nc)
                    | None => Ok (ay, nc)
                    end
                | None => Ok (ay, nc)
                end
            end
        end
    end.

  (* hscanCommand / sscanCommand / zscanCommand (element names only) *)
  Definition coll_scan_command (db : list bytes) (dt : N) (table verkey : bytes) (exists_ : bool)
             (reverse : bool) (cursor pat : bytes) (count0 : Z) : outcome page :=
    let count := clamp_count count0 in
    match coll_scan_generic db dt table verkey exists_ (parse_cursor cursor) count pat reverse with
    | Err => Err
    | Panic => Panic
    | Ok ay =>
        match next_cursor ay count (fun item => item) with
        | Ok nc => Ok (ay, nc)
        | Err => Err
        | Panic => Panic
        end
    end.

  (* ---------- the client: feed the cursor back until it is empty ---------- *)

  Inductive status := Done | Failed | Faulted | OutOfFuel.

  Fixpoint iterate (fuel : nat) (call : bytes -> outcome page) (cursor : bytes) : list page * status :=
    match fuel with
    | O => ([], OutOfFuel)
    | S f =>
        match call cursor with
        | Err => ([], Failed)
        | Panic => ([], Faulted)
        | Ok (items, next) =>
            match next with
            | [] => ([(items, next)], Done)
            | _ => let '(ps, st) := iterate f call next in ((items, next) :: ps, st)
            end
        end
    end.

  (* server/scan_merge.go decodeScanCursor for one partition: the next request carries table ':' cursor *)
  Definition wrap_cursor (table c : bytes) : bytes := table ++ key_sep :: c.

  Definition iterate_keys (fuel : nat) (db : list bytes) (d : dtype) (reverse : bool) (table start pat : bytes)
             (count : Z) : list page * status :=
    iterate fuel (fun c => key_scan_command db d reverse (wrap_cursor table c) pat count) start.

  Definition iterate_coll (fuel : nat) (db : list bytes) (dt : N) (table verkey : bytes) (exists_ : bool)
             (reverse : bool) (start pat : bytes) (count : Z) : list page * status :=
    iterate fuel (fun c => coll_scan_command db dt table verkey exists_ reverse c pat count) start.
End WithMatch.

(* ---------- server/scan_merge.go: the scan over all partitions ---------- *)
(* The cursor a client holds lists, for every partition that still has elements, that partition's cursor
   (base64 text in the code; the encoding is not modelled); the empty list is the empty cursor.
   The partitions are visited in list order here; the code visits them in Go map order and concatenates
   the pages in that order, so only the order within a partition is meaningful. *)
Definition mcursor : Type := list (nat * bytes).

(* doScanCommon: a COUNT argument is divided by the number of partitions this request goes to
   (Go integer division); without COUNT the partitions see no COUNT either (count 0) *)
Definition every_count (has_count : bool) (count : Z) (np : nat) : Z :=
  if has_count then Z.quot count (Z.of_nat np) else 0%Z.

Section Merge.
  (* partition p's scan handler with the COUNT it is given, on cursor c *)
  Variable call : Z -> nat -> bytes -> outcome page.

  (* doMergeScan: the pages of the requested partitions, concatenated; the next cursor keeps the
     partitions whose own next cursor is not empty *)
  Fixpoint merged_pages (cnt : Z) (ts : mcursor) : outcome (list bytes * mcursor) :=
    match ts with
    | [] => Ok ([], [])
    | (p, c) :: r =>
        match call cnt p c with
        | Err => Err
        | Panic => Panic
        | Ok (items, nx) =>
            match merged_pages cnt r with
            | Ok (its, mc) => Ok (items ++ its, match nx with [] => mc | _ => (p, nx) :: mc end)
            | e => e
            end
        end
    end.

  (* one request: doScanNodesFilter keeps the partitions named in the cursor, doScanCommon splits COUNT
     among them *)
  Definition merged_call (has_count : bool) (count : Z) (ts : mcursor) : outcome (list bytes * mcursor) :=
    merged_pages (every_count has_count count (length ts)) ts.

  (* the client: repeat until the merged cursor is empty; every reply = (keys, next merged cursor) *)
  Fixpoint miterate (has_count : bool) (count : Z) (fuel : nat) (ts : mcursor)
    : list (list bytes * mcursor) * status :=
    match fuel with
    | O => ([], OutOfFuel)
    | S f =>
        match merged_call has_count count ts with
        | Err => ([], Failed)
        | Panic => ([], Faulted)
        | Ok (items, mc) =>
            match mc with
            | [] => ([(items, mc)], Done)
            | _ => let '(ps, st) := miterate has_count count f mc in ((items, mc) :: ps, st)
            end
        end
    end.
End Merge.

(* doScanNodesFilter with the empty cursor: every partition starts from the given cursor *)
Definition all_partitions (np : nat) (start : bytes) : mcursor := map (fun p => (p, start)) (seq 0 np).

(* SCAN/ADVSCAN (+REV) over a namespace of partitions with the stores dbs *)
Definition merged_keys (compile : bytes -> option (bytes -> bool)) (fuel : nat) (dbs : list (list bytes))
           (d : dtype) (reverse : bool) (table start pat : bytes) (has_count : bool) (count : Z)
  : list (list bytes * mcursor) * status :=
  miterate (fun cnt p c => key_scan_command compile (nth p dbs []) d reverse (wrap_cursor table c) pat cnt)
           has_count count fuel (all_partitions (length dbs) start).

(* ---------- server/scan_merge.go: the text of the merged cursor ---------- *)
(* doMergeScan writes, decodeScanCursor reads: base64( pid ':' base64(cursor) ';' ... ). *)

(* bytes.Split(s, sep) for a one-byte separator *)
Fixpoint split_all (sep : N) (s : bytes) : list bytes :=
  match s with
  | [] => [[]]
  | x :: r =>
      if x =? sep then [] :: split_all sep r
      else match split_all sep r with
           | a :: l => (x :: a) :: l
           | [] => [[x]]
           end
  end.

(* bytes.TrimRight(s, string(sep)) *)
Fixpoint trim_right (sep : N) (s : bytes) : bytes :=
  match s with
  | [] => []
  | x :: r => match trim_right sep r with
              | [] => if x =? sep then [] else [x]
              | t => x :: t
              end
  end.

Section CursorText.
  (* not modelled: encoding/base64 StdEncoding and strconv.Itoa / Atoi *)
  Variable b64 : bytes -> bytes.
  Variable b64dec : bytes -> option bytes.
  Variable itoa : nat -> bytes.
  Variable atoi : bytes -> option nat.

  (* doMergeScan: for every partition with a non-empty next cursor: pid ':' base64(cursor) ';' *)
  Fixpoint cursor_segments (mc : mcursor) : bytes :=
    match mc with
    | [] => []
    | (p, c) :: r => itoa p ++ scan_node_sep :: b64 c ++ scan_cursor_sep :: cursor_segments r
    end.
  (* the cursor text of the reply *)
  Definition encode_mcursor (mc : mcursor) : bytes := b64 (cursor_segments mc).

  (* the loop of decodeScanCursor over the ';'-separated pieces *)
  Fixpoint decode_segments (pieces : list bytes) : outcome mcursor :=
    match pieces with
    | [] => Ok []
    | c :: r =>
        match split_all scan_node_sep c with
        | [pid; enc] =>
            match b64dec enc with
            | None => Err
            | Some cur =>
                match atoi pid with
                | None => Err
                | Some p => match decode_segments r with
                            | Ok l => Ok ((p, cur) :: l)
                            | e => e
                            end
                end
            end
        | _ => Err
        end
    end.

  (* server/scan_merge.go decodeScanCursor on the request key "table:cursortext":
     (table, the partitions to ask with their cursors); the empty list = ask every partition from the start *)
  Definition decode_scan_cursor (key : bytes) : outcome (bytes * mcursor) :=
    match split_all scan_node_sep key with
    | [table; enc] =>
        match table with
        | [] => Err
        | _ =>
            match enc with
            | [] => Ok (table, [])
            | _ =>
                match b64dec enc with
                | None => Err
                | Some decoded =>
                    match decode_segments (split_all scan_cursor_sep (trim_right scan_cursor_sep decoded)) with
                    | Ok mc => Ok (table, mc)
                    | Err => Err
                    | Panic => Panic
                    end
                end
            end
        end
    | _ => Err
    end.
End CursorText.


(* ---------- encoding/base64 StdEncoding and strconv.Itoa / Atoi, as far as the cursor text needs them ---------- *)
(* EncodeToString exactly; DecodeString on well-formed padded text (the skipping of CR/LF is not modelled);
   Itoa for non-negative numbers; Atoi for plain digit strings (Go also accepts a sign). *)
Definition b64char (i : N) : N :=
  if i <? 26 then 65 + i else if i <? 52 then 97 + (i - 26) else if i <? 62 then 48 + (i - 52)
  else if i =? 62 then 43 else 47.
Definition b64val (c : N) : option N :=
  if (65 <=? c) && (c <=? 90) then Some (c - 65)
  else if (97 <=? c) && (c <=? 122) then Some (c - 97 + 26)
  else if (48 <=? c) && (c <=? 57) then Some (c - 48 + 52)
  else if c =? 43 then Some 62 else if c =? 47 then Some 63 else None.
Definition pad : N := 61.

Fixpoint b64enc (l : bytes) : bytes :=
  match l with
  | [] => []
  | [a] => [b64char (a / 4); b64char ((a mod 4) * 16); pad; pad]
  | [a; b] => [b64char (a / 4); b64char ((a mod 4) * 16 + b / 16); b64char ((b mod 16) * 4); pad]
  | a :: b :: c :: r =>
      b64char (a / 4) :: b64char ((a mod 4) * 16 + b / 16) :: b64char ((b mod 16) * 4 + c / 64)
      :: b64char (c mod 64) :: b64enc r
  end.

Fixpoint b64dec (l : bytes) : option bytes :=
  match l with
  | [] => Some []
  | c0 :: c1 :: c2 :: c3 :: r =>
      match b64val c0, b64val c1 with
      | Some v0, Some v1 =>
          if c2 =? pad then
            if (c3 =? pad) then match r with [] => Some [v0 * 4 + v1 / 16] | _ => None end else None
          else match b64val c2 with
               | None => None
               | Some v2 =>
                   if c3 =? pad then
                     match r with [] => Some [v0 * 4 + v1 / 16; (v1 mod 16) * 16 + v2 / 4] | _ => None end
                   else match b64val c3 with
                        | None => None
                        | Some v3 =>
                            match b64dec r with
                            | Some t => Some ((v0 * 4 + v1 / 16) :: ((v1 mod 16) * 16 + v2 / 4) :: ((v2 mod 4) * 64 + v3) :: t)
                            | None => None
                            end
                        end
               end
      | _, _ => None
      end
  | _ => None
  end.


Fixpoint dec_digits (fuel : nat) (v : N) (acc : bytes) : bytes :=
  match fuel with
  | O => acc
  | S f => let acc' := (48 + v mod 10) :: acc in
           if v / 10 =? 0 then acc' else dec_digits f (v / 10) acc'
  end.
Definition itoa (p : nat) : bytes := dec_digits (S p) (N.of_nat p) [].
Fixpoint atoi_acc (l : bytes) (acc : N) : option N :=
  match l with
  | [] => Some acc
  | d :: r => if (48 <=? d) && (d <=? 57) then atoi_acc r (acc * 10 + (d - 48)) else None
  end.
Definition atoi (l : bytes) : option nat :=
  match l with
  | [] => None
  | _ => match atoi_acc l 0 with Some v => Some (N.to_nat v) | None => None end
  end.

(* the cursor text with these functions *)
Definition real_decode_scan_cursor (key : bytes) : outcome (bytes * mcursor) := decode_scan_cursor b64dec atoi key.
Definition real_encode_mcursor (mc : mcursor) : bytes := encode_mcursor b64enc itoa mc.

(* ---------- rockredis/fullscan.go + node/scan.go fullScanCommand: FULLSCAN ---------- *)
(* FULLSCAN table:cursor type: every element (KV: every key) of every key of that type in the table, grouped by
   key; the cursor text is base64(stored key) ':' base64(element cursor). Modelled for the local-deletion
   policy (the stored key of a collection is the key itself: decodeFromVersionKey is the identity) and without
   values: an item is (key, element name); for KV the element name is empty, for a list it is the 8-byte
   sequence number. The merge over partitions (server doMergeFullScan) is not modelled. *)

(* getFullScanDataStoreType *)
Definition fs_store_type (d : dtype) : N :=
  match d with
  | KV => kv_type
  | LIST => list_type
  | HASH => hash_type
  | SET => set_type
  | ZSET => zset_type
  end.

(* encodeDataTablePrefixToBuf for any data type: KV has no table length *)
Definition data_table_prefix (dt : N) (table : bytes) : bytes :=
  dt :: (if dt =? kv_type then [] else be16 (length table)) ++ table ++ [table_start_sep].

(* binary.BigEndian.PutUint64 of a small non-negative number *)
Definition be64 (v : N) : bytes :=
  [(v / 72057594037927936) mod 256; (v / 281474976710656) mod 256; (v / 1099511627776) mod 256;
   (v / 4294967296) mod 256; (v / 16777216) mod 256; (v / 65536) mod 256; (v / 256) mod 256; v mod 256].

(* decodeFullScanCursor: (stored key, element cursor) *)
Definition decode_fs_cursor (rk : bytes) : outcome (bytes * bytes) :=
  match index_of key_sep rk with
  | None => Ok (rk, [])
  | Some O => Ok (rk, [])
  | Some i =>
      match b64dec (firstn i rk), b64dec (skipn (S i) rk) with
      | Some k, Some c => Ok (k, c)
      | _, _ => Err
      end
  end.
(* encodeFullScanCursor *)
Definition encode_fs_cursor (key cursor : bytes) : bytes := b64enc key ++ key_sep :: b64enc cursor.

(* encodeFullScanMinKey / encodeFullScanKey: the engine key to continue after *)
Definition encode_fs_key (dt : N) (table key cursor : bytes) : outcome bytes :=
  if dt =? kv_type then Ok (encode_kv_key (table ++ table_start_sep :: key))
  else if dt =? list_type then
    match cursor with
    | [] => Ok (data_table_prefix dt table ++ be16 (length key) ++ key ++ be64 list_min_seq)
    | _ => if (length cursor =? 8)%nat
           then Ok (data_table_prefix dt table ++ be16 (length key) ++ key ++ cursor)   (* Int64 then PutUint64 *)
           else Err
    end
  else if is_coll_type dt then Ok (coll_key dt table key cursor)
  else Err.

(* lDecodeListKey: (key, the 8 bytes of the sequence number) *)
Definition decode_list_key (ek : bytes) : outcome (bytes * bytes) :=
  match decode_table_prefix ek list_type with
  | Err => Err
  | Panic => Panic
  | Ok (_, r) =>
      match r with
      | h :: l :: r2 =>
          let n := N.to_nat (h * 256 + l) in
          if negb (length r2 =? n + 8)%nat then Err else Ok (firstn n r2, skipn n r2)
      | _ => Err
      end
  end.

(* the item functions of kv/hash/list/set/zsetFullScan: (key as matched and returned, stored key, element cursor) *)
Definition decode_fs_item (dt : N) (ek : bytes) : outcome (bytes * bytes) :=
  if dt =? kv_type then match decode_kv_key ek with Ok raw => Ok (raw, []) | Err => Err | Panic => Panic end
  else if dt =? list_type then decode_list_key ek
  else match decode_coll_sub_key ek with
       | Ok (dt', _, key, sub) => if dt' =? dt then Ok (key, sub) else Err
       | Err => Err
       | Panic => Panic
       end.

Definition fs_item : Type := (bytes * bytes)%type.          (* key, element *)
Definition fs_page : Type := (list fs_item * bytes)%type.   (* items in order, next cursor *)

Section FullScan.
  Variable compile : bytes -> option (bytes -> bool).

  (* the loop of fullScanCommon: a decode error ends the call with that error; the pattern is matched against
     the key; every element counts *)
  Fixpoint fs_loop (valid : bytes -> bool) (dt : N) (m : bytes -> bool) (cur : list bytes) (n : nat)
    : outcome (list fs_item) :=
    match cur with
    | [] => Ok []
    | k :: r =>
        match n with
        | O => Ok []
        | S n' =>
            if valid k then
              match decode_fs_item dt k with
              | Ok (key, c) =>
                  if m key then
                    match fs_loop valid dt m r n' with
                    | Ok l => Ok ((key, c) :: l)
                    | e => e
                    end
                  else fs_loop valid dt m r n
              | Err => Err
              | Panic => Panic
              end
            else Ok []
        end
    end.

  (* RockDB.FullScan -> fullScanCommon *)
  Definition full_scan (db : list bytes) (d : dtype) (key : bytes) (count : Z) (pat : bytes) : outcome fs_page :=
    let dt := fs_store_type d in
    match matcher compile pat with
    | None => Err
    | Some m =>
        match extract_table key with
        | None => Err
        | Some (table, rk) =>
            let n := N.to_nat (check_scan_count count) in
            match decode_fs_cursor rk with
            | Err => Err
            | Panic => Panic
            | Ok (k, c) =>
                match encode_fs_key dt table k c with
                | Err => Err
                | Panic => Panic
                | Ok mn =>
                    let mx := incr_last (data_table_prefix dt table) in
                    match fs_loop (valid_fwd mx) dt m (fwd_open_start mn db) n with
                    | Err => Err
                    | Panic => Panic
                    | Ok items =>
                        if (length items <? n)%nat then Ok (items, [])
                        else match last_opt items with
                             | None => Ok (items, [])
                             | Some (ikey, icur) =>
                                 if dt =? kv_type
                                 then match extract_table ikey with
                                      | Some (_, r) => Ok (items, encode_fs_cursor r icur)
                                      | None => Ok (items, encode_fs_cursor ikey icur)
                                      end
                                 else Ok (items, encode_fs_cursor ikey icur)
                             end
                    end
                end
            end
        end
    end.

  (* node fullScanCommand: the cursor must contain the separator; COUNT clamped by parseScanArgs *)
  Definition full_scan_command (db : list bytes) (d : dtype) (cursor pat : bytes) (count0 : Z) : outcome fs_page :=
    match index_of key_sep cursor with
    | None => Err
    | Some _ => full_scan db d cursor (clamp_count count0) pat
    end.

  (* the client: table ':' cursor, until the cursor is empty *)
  Fixpoint fs_iterate (fuel : nat) (call : bytes -> outcome fs_page) (cursor : bytes) : list fs_page * status :=
    match fuel with
    | O => ([], OutOfFuel)
    | S f =>
        match call cursor with
        | Err => ([], Failed)
        | Panic => ([], Faulted)
        | Ok (items, next) =>
            match next with
            | [] => ([(items, next)], Done)
            | _ => let '(ps, st) := fs_iterate f call next in ((items, next) :: ps, st)
            end
        end
    end.

  Definition iterate_fullscan (fuel : nat) (db : list bytes) (d : dtype) (table pat : bytes) (count : Z)
    : list fs_page * status :=
    fs_iterate fuel (fun c => full_scan_command db d (wrap_cursor table c) pat count) [].
End FullScan.

(* ---------- the pattern class the correspondence check generates: literals, '*', '?' ---------- *)
Definition star : N := 42.
Definition qmark : N := 63.
Fixpoint mini_glob (p : bytes) : bytes -> bool :=
  match p with
  | [] => fun s => match s with [] => true | _ => false end
  | c :: p' =>
      if c =? star then
        (fix any (s : bytes) : bool :=
           mini_glob p' s || match s with [] => false | _ :: s' => any s' end)
      else if c =? qmark then
        fun s => match s with [] => false | _ :: s' => mini_glob p' s' end
      else
        fun s => match s with [] => false | x :: s' => (x =? c) && mini_glob p' s' end
  end.
Definition mini_compile (p : bytes) : option (bytes -> bool) := Some (mini_glob p).

(* ---------- checks on the store the driver runs ---------- *)
Fixpoint is_sorted (l : list bytes) : bool :=
  match l with
  | [] => true
  | a :: r => match r with
              | [] => true
              | b :: _ => bytes_ltb a b && is_sorted r
              end
  end.
Fixpoint mem_key (k : bytes) (l : list bytes) : bool :=
  match l with
  | [] => false
  | x :: r => bytes_eqb x k || mem_key k r
  end.
Definition count_missing (keys db : list bytes) : nat :=
  length (filter (fun k => negb (mem_key k db)) keys).
