(* driver for the C13 model: reads case lines on stdin, prints "<id>\t<model output>".
   The lines of one store come in the order T* C* P (K|E|R)*; T and C are answered when P arrives. *)
open Model
open Vio

let hl_parse s = if s = "" then [] else List.map bytes_of_hex (split_on ',' s)
let hl_print l = String.concat "," (List.map hex_of_bytes l)

let dtype_of = function
  | "kv" -> KV | "hash" -> HASH | "list" -> LIST | "set" -> SET | _ -> ZSET
let elem_type = function "h" -> hash_type | "s" -> set_type | _ -> zset_type
let size_type_of_elem = function "h" -> hsize_type | "s" -> ssize_type | _ -> zsize_type
let store_type_of = function
  | "kv" -> kv_type | "hash" -> hsize_type | "list" -> lmeta_type | "set" -> ssize_type | _ -> zsize_type

let db : n list list ref = ref []
let pend_t : (string * string * n list list) list ref = ref []      (* id, type, raw keys *)
let pend_c : (string * string * n list * n list * n list * n list list) list ref = ref []
let nkeys = ref 0      (* number of keys of all types: the iteration bound of K cases *)
let nelems = ref 0     (* number of elements of all collections: the bound of E cases *)
(* live-server scenario: the single-store databases the merged scan is compared with *)
let srv_kv : n list list list ref = ref []
let srv_hash : n list list list ref = ref []
let sort_keys (l : n list list) : n list list =
  List.map bytes_of_hex (List.sort_uniq compare (List.map hex_of_bytes l))

let pages_str (ps, st) =
  let calls = List.length ps + (match st with Failed | Faulted -> 1 | _ -> 0) in
  let body = List.map (fun (items, next) -> hex_of_bytes next ^ ">" ^ hl_print items) ps in
  let body = match st with Failed -> body @ ["err"] | Faulted -> body @ ["panic"] | _ -> body in
  Printf.sprintf "calls=%d%s | %s" calls (match st with OutOfFuel -> " NONTERM" | _ -> "") (String.concat " | " body)

let () =
  read_lines stdin (fun line ->
    match split_on '\t' line with
    | id :: "T" :: tn :: keys :: _ ->
      pend_t := (id, tn, hl_parse keys) :: !pend_t
    | id :: "C" :: ct :: table :: verkey :: raw :: elems :: _ ->
      pend_c := (id, ct, bytes_of_hex table, bytes_of_hex verkey, bytes_of_hex raw, hl_parse elems) :: !pend_c
    | id :: "P" :: _eng :: _pol :: dump :: _ ->
      db := hl_parse dump;
      nkeys := 0; nelems := 0;
      List.iter (fun (tid, tn, keys) ->
        nkeys := !nkeys + List.length keys;
        let eks = List.map (fun raw -> match encode_meta_key (store_type_of tn) raw with Ok k -> k | _ -> []) keys in
        Printf.printf "%s\tmissing=%d\n" tid (int_of_nat (count_missing eks !db))) (List.rev !pend_t);
      List.iter (fun (cid, ct, table, verkey, raw, elems) ->
        nelems := !nelems + List.length elems;
        let eks = List.map (fun e -> coll_key (elem_type ct) table verkey e) elems in
        let ex = mem_key (size_key (size_type_of_elem ct) raw) !db in
        Printf.printf "%s\tmissing=%d exists=%d\n" cid (int_of_nat (count_missing eks !db)) (if ex then 1 else 0))
        (List.rev !pend_c);
      pend_t := []; pend_c := [];
      Printf.printf "%s\tn=%d sorted=%d\n" id (List.length !db) (if is_sorted !db then 1 else 0)
    | id :: "R" :: "K" :: t :: rev :: cursor :: _ ->
      let out = (match build_scan_key_range (n_of_dec t) (bytes_of_hex cursor) (rev = "1") with
                 | Ok (mn, mx) -> hex_of_bytes mn ^ " " ^ hex_of_bytes mx
                 | Err -> "err" | Panic -> "panic") in
      Printf.printf "%s\t%s\n" id out
    | id :: "R" :: "E" :: ct :: rev :: table :: verkey :: cursor :: _ ->
      let out = (match build_specific_range (elem_type ct) (bytes_of_hex table) (bytes_of_hex verkey) (bytes_of_hex cursor) (rev = "1") with
                 | Ok (mn, mx) -> hex_of_bytes mn ^ " " ^ hex_of_bytes mx
                 | Err -> "err" | Panic -> "panic") in
      Printf.printf "%s\t%s\n" id out
    | id :: "K" :: _cmd :: tn :: rev :: table :: start :: count :: pat :: _ ->
      let r = iterate_keys mini_compile (nat_of_int (!nkeys + 3)) !db (dtype_of tn) (rev = "1")
                (bytes_of_hex table) (bytes_of_hex start) (bytes_of_hex pat) (z_of_int (int_of_string count)) in
      Printf.printf "%s\t%s\n" id (pages_str r)
    | id :: "E" :: ct :: rev :: table :: verkey :: raw :: start :: count :: pat :: _ ->
      let ex = mem_key (size_key (size_type_of_elem ct) (bytes_of_hex raw)) !db in
      let r = iterate_coll mini_compile (nat_of_int (!nelems + 3)) !db (elem_type ct) (bytes_of_hex table) (bytes_of_hex verkey) ex
                (rev = "1") (bytes_of_hex start) (bytes_of_hex pat) (z_of_int (int_of_string count)) in
      Printf.printf "%s\t%s\n" id (pages_str r)
    | id :: "W" :: np :: raws :: decoys :: rp :: dp :: _ ->
      (* one store per partition: the keys routed there (the routing itself is C15's subject: an input here) *)
      let np = int_of_string np in
      let rs = hl_parse raws and ds = hl_parse decoys in
      let ints s = if s = "" then [] else List.map int_of_string (split_on ',' s) in
      let rpi = ints rp and dpi = ints dp in
      let part l pl p = List.filter_map (fun (k, q) -> if q = p then Some k else None) (List.combine l pl) in
      srv_kv := List.init np (fun p ->
        sort_keys (List.map (fun r -> match encode_meta_key kv_type r with Ok k -> k | _ -> []) (part rs rpi p @ part ds dpi p)));
      srv_hash := List.init np (fun p -> sort_keys (List.map (fun r -> size_key hsize_type r) (part rs rpi p)));
      Printf.printf "%s\t%s\n" id
        (if List.for_all is_sorted !srv_kv && List.for_all is_sorted !srv_hash then "ok" else "unsorted")
    | id :: "S" :: _cmd :: tn :: rev :: table :: start :: count :: pat :: _np :: _ ->
      let dbs = if tn = "kv" then !srv_kv else !srv_hash in
      let tb = bytes_of_hex table in
      let total = List.fold_left (fun a d -> a + List.length d) 0 dbs in
      let cnt = int_of_string count in
      let (mps, st) = merged_keys mini_compile (nat_of_int (total + 3)) dbs (dtype_of tn) (rev = "1")
                tb (bytes_of_hex start) (bytes_of_hex pat) (cnt <> 0) (z_of_int cnt) in
      let strip k = (* the server strips "table:" from every key *)
        let rec drop i l = if i = 0 then l else (match l with [] -> [] | _ :: r -> drop (i - 1) r) in
        drop (List.length tb + 1) k in
      let items = List.map strip (List.concat (List.map fst mps)) in
      let items = List.map bytes_of_hex (List.sort compare (List.map hex_of_bytes items)) in
      let cur_str mc = if mc = [] then "-" else
        String.concat "," (List.map (fun (p, c) -> string_of_int (int_of_nat p) ^ ":" ^ hex_of_bytes c) mc) in
      Printf.printf "%s\t%scalls=%d set=%s perpart=ok cursors=%s\n" id
        (match st with Done -> "" | OutOfFuel -> "NONTERM " | _ -> "err ") (List.length mps) (hl_print items)
        (String.concat "|" (List.map (fun (_, mc) -> cur_str mc) mps))
    | id :: "F" :: tn :: table :: count :: pat :: _ ->
      let (ps, st) = iterate_fullscan mini_compile (nat_of_int (!nkeys + !nelems + 3)) !db (dtype_of tn)
                (bytes_of_hex table) (bytes_of_hex pat) (z_of_int (int_of_string count)) in
      let plain = (tn = "kv" || tn = "list") in
      let group items =
        (* consecutive items of one key form one group *)
        let rec go acc cur = function
          | [] -> List.rev (match cur with None -> acc | Some g -> g :: acc)
          | (k, e) :: r ->
            (match cur with
             | Some (k0, es) when k0 = k -> go acc (Some (k0, e :: es)) r
             | Some g -> go (g :: acc) (Some (k, [e])) r
             | None -> go acc (Some (k, [e])) r) in
        go [] None items in
      let page_str (items, next) =
        hex_of_bytes next ^ ">" ^
        String.concat "," (List.map (fun (k, es) ->
            hex_of_bytes k ^ "=" ^ String.concat "+" (List.map (fun e -> if plain then "-" else hex_of_bytes e) (List.rev es)))
            (group items)) in
      let calls = List.length ps + (match st with Failed | Faulted -> 1 | _ -> 0) in
      let body = List.map page_str ps in
      let body = match st with Failed -> body @ ["err"] | Faulted -> body @ ["panic"] | _ -> body in
      Printf.printf "%s\tcalls=%d%s | %s\n" id calls (match st with OutOfFuel -> " NONTERM" | _ -> "") (String.concat " | " body)
    | id :: "X" :: table :: texts :: _ ->
      let tb = bytes_of_hex table in
      let ts = hl_parse texts in
      let res = List.map (fun t ->
          match real_decode_scan_cursor (tb @ (scan_node_sep :: t)) with
          | Ok (_, mc) ->
            (String.concat "," (List.map (fun (p, c) -> string_of_int (int_of_nat p) ^ ":" ^ hex_of_bytes c) mc),
             hex_of_bytes (real_encode_mcursor mc))
          | _ -> ("?", "?")) ts in
      Printf.printf "%s\tdec=%s enc=%s\n" id (String.concat "|" (List.map fst res)) (String.concat "," (List.map snd res))
    | _ -> ())
