(* Scan/ProofsB64.v — the base64 and decimal functions of the model: decoding inverts encoding, the output
   alphabet contains neither ':' nor ';'. *)
From ZV Require Import Common.Bytes Scan.Consts Scan.Model.
From Coq Require Import Lia ZArith.
Open Scope N_scope.

Lemma b64val_char i : i < 64 -> b64val (b64char i) = Some i.
Proof.
  intro H. unfold b64char.
  destruct (N.ltb_spec i 26); [unfold b64val|destruct (N.ltb_spec i 52); [unfold b64val|destruct (N.ltb_spec i 62); [unfold b64val|]]].
  - replace ((65 <=? 65 + i) && (65 + i <=? 90)) with true by (symmetry; apply andb_true_iff; split; apply N.leb_le; lia).
    f_equal. lia.
  - replace ((65 <=? 97 + (i - 26)) && (97 + (i - 26) <=? 90)) with false by (symmetry; apply andb_false_iff; right; apply N.leb_gt; lia).
    replace ((97 <=? 97 + (i - 26)) && (97 + (i - 26) <=? 122)) with true by (symmetry; apply andb_true_iff; split; apply N.leb_le; lia).
    f_equal. lia.
  - replace ((65 <=? 48 + (i - 52)) && (48 + (i - 52) <=? 90)) with false by (symmetry; apply andb_false_iff; left; apply N.leb_gt; lia).
    replace ((97 <=? 48 + (i - 52)) && (48 + (i - 52) <=? 122)) with false by (symmetry; apply andb_false_iff; left; apply N.leb_gt; lia).
    replace ((48 <=? 48 + (i - 52)) && (48 + (i - 52) <=? 57)) with true by (symmetry; apply andb_true_iff; split; apply N.leb_le; lia).
    f_equal. lia.
  - assert (i = 62 \/ i = 63) as [-> | ->] by lia; reflexivity.
Qed.

Lemma b64char_range i : i < 64 -> 43 <= b64char i <= 122 /\ b64char i <> 58 /\ b64char i <> 59 /\ b64char i <> pad.
Proof.
  intro H. unfold b64char, pad.
  destruct (N.ltb_spec i 26); [lia|]. destruct (N.ltb_spec i 52); [lia|]. destruct (N.ltb_spec i 62); [lia|].
  destruct (N.eqb_spec i 62); lia.
Qed.

Ltac Zify.zify_post_hook ::= Z.to_euclidean_division_equations.

Lemma b64_group a b c : a < 256 -> b < 256 -> c < 256 ->
  a / 4 < 64 /\ (a mod 4) * 16 + b / 16 < 64 /\ (b mod 16) * 4 + c / 64 < 64 /\ c mod 64 < 64 /\
  (a / 4) * 4 + ((a mod 4) * 16 + b / 16) / 16 = a /\
  (((a mod 4) * 16 + b / 16) mod 16) * 16 + ((b mod 16) * 4 + c / 64) / 4 = b /\
  (((b mod 16) * 4 + c / 64) mod 4) * 64 + c mod 64 = c.
Proof. intros. repeat split; lia. Qed.

Lemma b64char_any i : b64char i <> 58 /\ b64char i <> 59 /\ b64char i <> pad /\ b64char i < 256.
Proof.
  unfold b64char, pad.
  destruct (N.ltb_spec i 26); [lia|]. destruct (N.ltb_spec i 52); [lia|]. destruct (N.ltb_spec i 62); [lia|].
  destruct (N.eqb_spec i 62); lia.
Qed.

Lemma list_ind3 {A} (P : list A -> Prop) :
  P [] -> (forall a, P [a]) -> (forall a b, P [a; b]) ->
  (forall a b c r, P r -> P (a :: b :: c :: r)) -> forall l, P l.
Proof.
  intros H0 H1 H2 H3. fix IH 1. intros [|a [|b [|c r]]]; [apply H0|apply H1|apply H2|apply H3; apply IH].
Qed.

Lemma b64dec_enc : forall l, bytes_ok l = true -> b64dec (b64enc l) = Some l.
Proof.
  induction l as [|a|a b|a b c r IH] using list_ind3; intro Hok.
  - reflexivity.
  - cbn in Hok. unfold byte_ok in Hok. rewrite andb_true_r in Hok. apply N.ltb_lt in Hok.
    destruct (b64_group a 0 0 Hok) as [G0 [G1 _]]; try lia.
    cbn [b64enc b64dec]. rewrite N.div_0_l, N.add_0_r in G1 by lia.
    rewrite !b64val_char by assumption. rewrite N.eqb_refl. f_equal. f_equal. lia.
  - cbn in Hok. unfold byte_ok in Hok. rewrite andb_true_r in Hok. apply andb_true_iff in Hok.
    destruct Hok as [Ha Hb]. apply N.ltb_lt in Ha, Hb.
    destruct (b64_group a b 0 Ha Hb) as [G0 [G1 [G2 _]]]; try lia.
    rewrite N.div_0_l, N.add_0_r in G2 by lia.
    cbn [b64enc b64dec]. rewrite !b64val_char by assumption.
    destruct (b64char_any ((b mod 16) * 4)) as [_ [_ [Hp _]]].
    replace (b64char (b mod 16 * 4) =? pad) with false by (symmetry; now apply N.eqb_neq).
    rewrite N.eqb_refl. f_equal. f_equal; [lia|]. f_equal. lia.
  - cbn in Hok. unfold byte_ok in Hok. apply andb_true_iff in Hok. destruct Hok as [Ha Hok].
    apply andb_true_iff in Hok. destruct Hok as [Hb Hok]. apply andb_true_iff in Hok. destruct Hok as [Hc Hr].
    apply N.ltb_lt in Ha, Hb, Hc.
    destruct (b64_group a b c Ha Hb Hc) as [G0 [G1 [G2 [G3 [E0 [E1 E2]]]]]].
    cbn [b64enc b64dec]. rewrite !b64val_char by assumption.
    destruct (b64char_any ((b mod 16) * 4 + c / 64)) as [_ [_ [Hp2 _]]].
    destruct (b64char_any (c mod 64)) as [_ [_ [Hp3 _]]].
    replace (b64char (b mod 16 * 4 + c / 64) =? pad) with false by (symmetry; now apply N.eqb_neq).
    replace (b64char (c mod 64) =? pad) with false by (symmetry; now apply N.eqb_neq).
    rewrite (IH Hr). rewrite E0, E1, E2. reflexivity.
Qed.

Lemma b64enc_chars : forall l, Forall (fun ch => ch <> 58 /\ ch <> 59 /\ ch < 256) (b64enc l).
Proof.
  assert (forall i, (fun ch => ch <> 58 /\ ch <> 59 /\ ch < 256) (b64char i)) as Hc
    by (intro i; destruct (b64char_any i) as [A [B [_ D]]]; auto).
  assert ((fun ch => ch <> 58 /\ ch <> 59 /\ ch < 256) pad) as Hp by (unfold pad; lia).
  induction l as [|a|a b|a b c r IH] using list_ind3; cbn [b64enc]; repeat constructor; auto; try apply Hc; try apply Hp.
Qed.

Lemma b64enc_alphabet x : ~ In scan_node_sep (b64enc x) /\ ~ In scan_cursor_sep (b64enc x).
Proof.
  pose proof (b64enc_chars x) as H. rewrite Forall_forall in H.
  split; intro Hin; destruct (H _ Hin) as [A [B _]]; [now apply A|now apply B].
Qed.

Lemma b64enc_ok x : bytes_ok (b64enc x) = true.
Proof.
  apply forallb_forall. intros ch Hin. pose proof (b64enc_chars x) as H. rewrite Forall_forall in H.
  destruct (H _ Hin) as [_ [_ C]]. now apply N.ltb_lt.
Qed.

Lemma b64enc_nonempty x : x <> [] -> b64enc x <> [].
Proof. destruct x as [|a [|b [|c r]]]; [congruence|discriminate|discriminate|discriminate]. Qed.

(* decimal conversion: a finite sweep over the partition ids below 1024 (the largest partition count) *)
Definition pid_bound : nat := 1024.
Definition itoa_check (p : nat) : bool :=
  match atoi (itoa p) with Some q => Nat.eqb p q | None => false end &&
  forallb (fun d => (48 <=? d) && (d <=? 57)) (itoa p).

Lemma itoa_sweep : forallb itoa_check (seq 0 pid_bound) = true.
Proof. vm_compute. reflexivity. Qed.

Lemma itoa_spec p : (p < pid_bound)%nat ->
  atoi (itoa p) = Some p /\ Forall (fun d => 48 <= d <= 57) (itoa p).
Proof.
  intro H. pose proof itoa_sweep as S. rewrite forallb_forall in S.
  specialize (S p). unfold itoa_check in S. rewrite andb_true_iff in S.
  destruct S as [S1 S2]; [apply in_seq; lia|]. split.
  - destruct (atoi (itoa p)) as [q|]; [|discriminate]. apply Nat.eqb_eq in S1. now subst.
  - apply Forall_forall. intros d Hd. rewrite forallb_forall in S2. specialize (S2 d Hd).
    apply andb_true_iff in S2. destruct S2 as [A B]. apply N.leb_le in A, B. lia.
Qed.
