(* Scan/Extract.v — extraction of the C13 model (ExtrOcamlBasic only) *)
From Coq Require Import ExtrOcamlBasic.
From ZV Require Import Scan.Consts Scan.Model.
Extraction Language OCaml.
Extraction "model.ml" Z.of_N N.of_nat Nat.add
  build_scan_key_range build_specific_range get_data_store_type
  iterate_keys iterate_coll iterate_fullscan merged_keys mini_compile real_decode_scan_cursor real_encode_mcursor scan_node_sep
  encode_meta_key coll_key size_key is_sorted mem_key count_missing
  hash_type set_type zset_type kv_type hsize_type ssize_type zsize_type lmeta_type.
