(* Scan/ProofsOrder.v — facts about the byte-lexicographic order that the scan ranges rest on:
   appending to a common prefix preserves the order; the keys strictly between p and "p with its last
   byte + 1" are exactly the proper extensions of p; prefix ranges are convex. *)
From ZV Require Import Common.Bytes Common.BytesFacts Scan.Consts Scan.Model.
From Coq Require Import Lia.
Open Scope N_scope.

(* ---------- ltb / leb ---------- *)

Lemma leb_negb_ltb a b : bytes_leb a b = negb (bytes_ltb b a).
Proof.
  unfold bytes_leb, bytes_ltb. rewrite (bytes_cmp_antisym a b).
  destruct (bytes_cmp a b); reflexivity.
Qed.

Lemma ltb_asym a b : bytes_ltb a b = true -> bytes_ltb b a = false.
Proof.
  intro H. destruct (bytes_ltb b a) eqn:E; [|reflexivity].
  pose proof (bytes_ltb_trans _ _ _ H E) as T. rewrite bytes_ltb_irrefl in T. discriminate.
Qed.

Lemma ltb_false_cases a b : bytes_ltb a b = false -> a = b \/ bytes_ltb b a = true.
Proof.
  intro H. destruct (bytes_ltb_total a b) as [T|[T|T]]; [congruence|auto|auto].
Qed.

Lemma ltb_leb a b : bytes_ltb a b = true -> bytes_leb a b = true.
Proof. intro H. rewrite leb_negb_ltb, (ltb_asym _ _ H). reflexivity. Qed.

Lemma leb_refl a : bytes_leb a a = true.
Proof. rewrite leb_negb_ltb, bytes_ltb_irrefl. reflexivity. Qed.

Lemma leb_ltb_trans a b c : bytes_leb a b = true -> bytes_ltb b c = true -> bytes_ltb a c = true.
Proof.
  rewrite leb_negb_ltb. intros H1 H2. apply negb_true_iff in H1.
  destruct (ltb_false_cases _ _ H1) as [->|T]; [assumption|].
  exact (bytes_ltb_trans _ _ _ T H2).
Qed.

Lemma ltb_leb_trans a b c : bytes_ltb a b = true -> bytes_leb b c = true -> bytes_ltb a c = true.
Proof.
  rewrite leb_negb_ltb. intros H1 H2. apply negb_true_iff in H2.
  destruct (ltb_false_cases _ _ H2) as [<-|T]; [assumption|].
  exact (bytes_ltb_trans _ _ _ H1 T).
Qed.

Lemma ltb_nil_l s : bytes_ltb [] s = match s with [] => false | _ => true end.
Proof. destruct s; reflexivity. Qed.

Lemma ltb_nil_r s : bytes_ltb s [] = false.
Proof. destruct s; reflexivity. Qed.

(* ---------- a common prefix ---------- *)

Lemma cmp_app p a b : bytes_cmp (p ++ a) (p ++ b) = bytes_cmp a b.
Proof.
  induction p as [|x p IH]; simpl; [reflexivity|].
  rewrite N.compare_refl. exact IH.
Qed.

Lemma ltb_app p a b : bytes_ltb (p ++ a) (p ++ b) = bytes_ltb a b.
Proof. unfold bytes_ltb. now rewrite cmp_app. Qed.

Lemma leb_app p a b : bytes_leb (p ++ a) (p ++ b) = bytes_leb a b.
Proof. unfold bytes_leb. now rewrite cmp_app. Qed.

Lemma leb_prefix p s : bytes_leb p (p ++ s) = true.
Proof.
  rewrite <- (app_nil_r p) at 1. rewrite leb_app. destruct s; reflexivity.
Qed.

(* ---------- incr_last ---------- *)

Lemma incr_last_snoc q c : incr_last (q ++ [c]) = q ++ [(c + 1) mod 256].
Proof.
  induction q as [|x q IH]; simpl; [reflexivity|].
  rewrite IH. destruct (q ++ [c]) eqn:E; [destruct q; discriminate|reflexivity].
Qed.

(* the keys in [q·c, q·(c+1)) are the extensions of q·c *)
Lemma between_prefix q c k :
  c < 255 ->
  bytes_leb (q ++ [c]) k = true -> bytes_ltb k (q ++ [c + 1]) = true ->
  exists s, k = (q ++ [c]) ++ s.
Proof.
  intros Hc. revert k. induction q as [|a q IH]; intros k Hle Hlt.
  - destruct k as [|x k]; [discriminate|].
    unfold bytes_leb, bytes_ltb in *. cbn [app bytes_cmp] in *.
    destruct (c ?= x) eqn:E1.
    + apply N.compare_eq in E1. subst. exists k. reflexivity.
    + exfalso. rewrite N.compare_lt_iff in E1.
      destruct (x ?= c + 1) eqn:E2.
      * destruct k; cbn [bytes_cmp] in Hlt; discriminate.
      * rewrite N.compare_lt_iff in E2. lia.
      * discriminate.
    + discriminate.
  - destruct k as [|x k]; [discriminate|].
    unfold bytes_leb, bytes_ltb in *. cbn [app bytes_cmp] in *.
    destruct (a ?= x) eqn:E1.
    + apply N.compare_eq in E1. subst x. rewrite N.compare_refl in Hlt.
      destruct (IH k Hle Hlt) as [s Hs]. exists s. cbn [app]. now rewrite Hs.
    + exfalso. rewrite (N.compare_antisym a x), E1 in Hlt. simpl in Hlt. discriminate.
    + discriminate.
Qed.

Lemma extension_in_range q c s :
  bytes_ltb ((q ++ [c]) ++ s) (q ++ [c + 1]) = true.
Proof.
  rewrite <- app_assoc, ltb_app. simpl. unfold bytes_ltb. simpl.
  replace (c ?= c + 1) with Lt; [reflexivity|].
  symmetry. apply N.compare_lt_iff. lia.
Qed.

(* the keys strictly between p and p·c are the extensions p·s with [] < s < c *)
Lemma between_prefix_rev p c k :
  bytes_ltb p k = true -> bytes_ltb k (p ++ c) = true ->
  exists s, k = p ++ s /\ bytes_ltb s c = true /\ s <> [].
Proof.
  revert k. induction p as [|a p IH]; intros k H1 H2.
  - exists k. simpl in *. repeat split; auto. intros ->. discriminate.
  - destruct k as [|x k]; [discriminate|].
    unfold bytes_ltb in *. simpl in *.
    destruct (a ?= x) eqn:E1.
    + apply N.compare_eq in E1. subst x. rewrite N.compare_refl in H2.
      destruct (IH k H1 H2) as [s [Hs [Hlt Hne]]]. exists s. subst k. auto.
    + exfalso. rewrite (N.compare_antisym a x), E1 in H2. simpl in H2. discriminate.
    + discriminate.
Qed.

(* ---------- stripping a prefix ---------- *)

Fixpoint strip (p k : bytes) : option bytes :=
  match p with
  | [] => Some k
  | a :: p' => match k with
               | [] => None
               | x :: k' => if x =? a then strip p' k' else None
               end
  end.

Lemma strip_app p s : strip p (p ++ s) = Some s.
Proof. induction p as [|a p IH]; simpl; [reflexivity|]. now rewrite N.eqb_refl. Qed.

Lemma strip_some p k s : strip p k = Some s -> k = p ++ s.
Proof.
  revert k. induction p as [|a p IH]; intros k H; simpl in *.
  - now inversion H.
  - destruct k as [|x k]; [discriminate|].
    destruct (x =? a) eqn:E; [|discriminate]. apply N.eqb_eq in E. subst. f_equal. now apply IH.
Qed.

Lemma strip_none p k : strip p k = None -> forall s, k <> p ++ s.
Proof. intros H s ->. rewrite strip_app in H. discriminate. Qed.

(* ---------- prefix ranges are convex ---------- *)

Lemma prefix_convex q x y z :
  bytes_ltb (q ++ x) y = true -> bytes_ltb y (q ++ z) = true -> exists s, y = q ++ s.
Proof.
  revert y. induction q as [|a q IH]; intros y H1 H2.
  - exists y. reflexivity.
  - destruct y as [|b y]; [discriminate|].
    unfold bytes_ltb in *. simpl in *.
    destruct (a ?= b) eqn:E1.
    + apply N.compare_eq in E1. subst b. rewrite N.compare_refl in H2.
      destruct (IH y H1 H2) as [s ->]. exists s. reflexivity.
    + exfalso. rewrite (N.compare_antisym a b), E1 in H2. simpl in H2. discriminate.
    + discriminate.
Qed.

(* ---------- ExtractTable ---------- *)

Lemma split_first_intro sep a b : ~ In sep a -> split_first sep (a ++ sep :: b) = Some (a, b).
Proof.
  induction a as [|y a IH]; intro Hn; cbn [app split_first].
  - now rewrite N.eqb_refl.
  - destruct (y =? sep) eqn:E.
    + apply N.eqb_eq in E. subst. exfalso. apply Hn. now left.
    + rewrite IH; [reflexivity|]. intro Hx. apply Hn. now right.
Qed.

Lemma split_first_some sep bs : forall a b,
  split_first sep bs = Some (a, b) -> bs = a ++ sep :: b /\ ~ In sep a.
Proof.
  induction bs as [|x r IH]; intros a b H; cbn [split_first] in H; [discriminate|].
  destruct (x =? sep) eqn:E.
  - apply N.eqb_eq in E. subst x. inversion H; subst. split; [reflexivity|]. intros [].
  - apply N.eqb_neq in E. destruct (split_first sep r) as [[a' b']|] eqn:S; [|discriminate].
    inversion H; subst. destruct (IH a' b eq_refl) as [-> Hn]. split; [reflexivity|].
    intros [Hx|Hx]; [congruence|auto].
Qed.

Lemma extract_table_wrap table c :
  ~ In key_sep table -> extract_table (wrap_cursor table c) = Some (table, c).
Proof. intro H. unfold extract_table, wrap_cursor. now apply split_first_intro. Qed.

Lemma same_table_iff table v :
  ~ In key_sep table ->
  (same_table table v = true <-> exists rk, v = wrap_cursor table rk).
Proof.
  intro Hn. unfold same_table, extract_table. split.
  - destruct (split_first key_sep v) as [[tab rk]|] eqn:S; [|discriminate].
    intro H. apply bytes_eqb_eq in H. subst tab.
    apply split_first_some in S. destruct S as [-> _]. exists rk. reflexivity.
  - intros [rk ->]. fold (extract_table (wrap_cursor table rk)).
    rewrite extract_table_wrap by assumption. apply bytes_eqb_refl.
Qed.
