(* Scan/ProofsMerge.v — the scan over all partitions (server/scan_merge.go).
   Every partition is a server of a list that remains to be delivered: one request returns a non-empty
   prefix of it and a cursor for the rest, or the rest with the empty cursor — whatever page size it is
   given (the server changes the per-partition COUNT from request to request). Then the merged iteration
   ends with the empty cursor and returns, up to the interleaving of the partitions, exactly what remained
   in the partitions at the start: every element once. *)
From ZV Require Import Common.Bytes Scan.Consts Scan.Model Scan.ProofsIter.
From Coq Require Import Permutation Lia PeanoNat ZArith.
Open Scope N_scope.

Section MergeProofs.
  Variable call : Z -> nat -> bytes -> outcome page.
  (* what partition p still has to deliver when its cursor is c *)
  Variable rem : nat -> bytes -> list bytes.
  Hypothesis step : forall cnt p c, exists items next rem',
    call cnt p c = Ok (items, next) /\
    rem p c = items ++ rem' /\
    (next = [] -> rem' = []) /\
    (next <> [] -> items <> [] /\ rem' = rem p next).

  Definition remaining_all (ts : mcursor) : list bytes := concat (map (fun t => rem (fst t) (snd t)) ts).
  (* an upper bound for the number of requests still needed *)
  Definition measure (ts : mcursor) : nat :=
    fold_right (fun t acc => S (length (rem (fst t) (snd t))) + acc)%nat 0%nat ts.

  Lemma merged_pages_step cnt : forall ts, exists items mc,
    merged_pages call cnt ts = Ok (items, mc) /\
    Permutation (remaining_all ts) (items ++ remaining_all mc) /\
    (measure mc + Nat.min 1 (length ts) <= measure ts)%nat.
  Proof.
    induction ts as [|[p c] r IH].
    - exists [], []. split; [reflexivity|]. split; [constructor|]. cbn. lia.
    - destruct IH as [its [mc [Hc [Hp Hm]]]].
      destruct (step cnt p c) as [items [next [rem' [Hcall [Hrem [Hfin Hgo]]]]]].
      cbn [merged_pages]. rewrite Hcall, Hc.
      unfold remaining_all in *. cbn [map concat fst snd]. rewrite Hrem.
      destruct next as [|b nx].
      + rewrite (Hfin eq_refl), app_nil_r.
        exists (items ++ its), mc. split; [reflexivity|]. split.
        * rewrite <- app_assoc. now apply Permutation_app_head.
        * cbn [measure fold_right fst snd length] in *. fold (measure mc) in *. fold (measure r) in *.
          destruct r; cbn [length Nat.min] in *; lia.
      + destruct (Hgo ltac:(discriminate)) as [Hne ->].
        exists (items ++ its), ((p, b :: nx) :: mc). split; [reflexivity|]. split.
        * cbn [map concat fst snd]. rewrite <- !app_assoc. apply Permutation_app_head.
          rewrite Hp. rewrite !app_assoc. apply Permutation_app_tail. apply Permutation_app_comm.
        * cbn [measure fold_right fst snd length] in *. fold (measure mc) in *. fold (measure r) in *.
          rewrite Hrem, app_length.
          assert (1 <= length items)%nat by (destruct items; [congruence|cbn; lia]).
          destruct r; cbn [length Nat.min] in *; lia.
  Qed.

  Lemma merged_pages_nil cnt : merged_pages call cnt [] = Ok ([], []).
  Proof. reflexivity. Qed.

  Theorem merged_iterate has_count count : forall fuel ts,
    (measure ts < fuel)%nat ->
    exists mpages,
      miterate call has_count count fuel ts = (mpages, Done) /\
      Permutation (concat (map fst mpages)) (remaining_all ts) /\
      (length mpages <= Nat.max 1 (measure ts))%nat.
  Proof.
    induction fuel as [|f IH]; intros ts Hfuel; [lia|].
    cbn [miterate]. unfold merged_call.
    destruct (merged_pages_step (every_count has_count count (length ts)) ts) as [items [mc [Hc [Hp Hm]]]].
    rewrite Hc. destruct mc as [|t mc'].
    - eexists. split; [reflexivity|]. split.
      + cbn [map concat fst]. rewrite app_nil_r. rewrite Hp. unfold remaining_all. cbn. now rewrite app_nil_r.
      + cbn [length]. lia.
    - assert (ts <> []) as Hts.
      { intros ->. cbn in Hc. inversion Hc. }
      assert (1 <= length ts)%nat by (destruct ts; [congruence|cbn; lia]).
      assert (1 <= measure (t :: mc'))%nat by (cbn; lia).
      destruct (IH (t :: mc')) as [mp [Hit [Hperm Hlen]]]; [lia|].
      rewrite Hit. eexists. split; [reflexivity|]. split.
      + cbn [map concat fst]. rewrite Hp. now apply Permutation_app_head.
      + cbn [length]. lia.
  Qed.
End MergeProofs.
