(* Scan/ProofsCodec.v — C13 on engine BYTES: the store is the byte encoding (C12's codec model, coq/Codec) of an
   arbitrary universe of well-formed data keys of all kinds (Codec.Spec.ekey: kv, size/meta records, hash/set/
   zset members, list elements, zset score index, bitmap, json, table meta, expire records). The scan model's
   own encoders coincide with C12's, and C12's injectivity theorem turns "stored under the addressed prefix"
   into "is an element of the addressed collection / a key of the addressed type and table". *)
From ZV Require Import Common.Bytes Common.BytesFacts Scan.Consts Scan.Model
     Scan.ProofsOrder Scan.ProofsIter Scan.ProofsRange Scan.Proofs.
From ZV Require Codec.Consts Codec.MemCmp Codec.Keys Codec.Spec Codec.Proofs.
From Coq Require Import Lia ZArith Sorting.Sorted.
Open Scope N_scope.

Module CK := ZV.Codec.Keys.
Module CS := ZV.Codec.Spec.
Module CM := ZV.Codec.MemCmp.

Ltac Zify.zify_post_hook ::= Z.to_euclidean_division_equations.

(* ---------- the scan model's encoders are C12's ---------- *)

Lemma be16_same n : be16 n = CM.be16 n.
Proof.
  unfold be16, CM.be16, CM.u16_of_len. cbn [CM.be]. f_equal; [|f_equal].
  - change (256 ^ N.of_nat 1) with 256. lia.
  - change (256 ^ N.of_nat 1) with 256. change (256 ^ N.of_nat 0) with 1. rewrite N.div_1_r. lia.
Qed.

Lemma is_coll_type_same dt : is_coll_type dt = CK.is_coll_type dt.
Proof. reflexivity. Qed.

Lemma coll_key_same dt t k s : is_coll_type dt = true -> coll_key dt t k s = CK.coll_key dt t k s.
Proof.
  intro H. unfold coll_key, coll_prefix, table_prefix, CK.coll_key, CK.table_prefix.
  assert ((dt =? Codec.Consts.kv_type) = false) as E.
  { unfold is_coll_type in H. apply N.eqb_neq. intros ->. vm_compute in H. discriminate. }
  rewrite E, !be16_same. cbn [app]. repeat rewrite <- app_assoc. reflexivity.
Qed.

Lemma kv_key_same raw : encode_kv_key raw = CK.encode_kv_key raw.
Proof. reflexivity. Qed.

Lemma size_key_same ty raw : size_key ty raw = CK.size_key ty raw.
Proof. reflexivity. Qed.

Lemma pack_same t rk : wrap_cursor t rk = CK.pack_redis_key t rk.
Proof. reflexivity. Qed.

Lemma no_sep_same t : CS.no_sep t <-> ~ In key_sep t.
Proof. reflexivity. Qed.

(* ---------- a store = the encoding of a universe of keys ---------- *)

Definition store_of (xs : list CS.ekey) : list bytes := map CS.encode_ekey xs.

Lemma norm_coll x dt t k s : CS.ekey_norm x = CS.KColl dt t k s -> x = CS.KColl dt t k s.
Proof. destruct x; cbn; intro H; try discriminate; exact H. Qed.

Lemma norm_kv x t rk : CS.ekey_norm x = CS.KKV t rk -> x = CS.KKV t rk.
Proof. destruct x; cbn; intro H; try discriminate; exact H. Qed.

Lemma norm_meta x ty t rk : CS.ekey_norm x = CS.KMeta ty t rk -> x = CS.KMeta ty t rk.
Proof. destruct x; cbn; intro H; try discriminate; exact H. Qed.

(* the elements a collection scan can return are exactly the stored members of that collection *)
Theorem elems_of_store xs dt t k s :
  Forall CS.wf_ekey xs -> is_coll_type dt = true -> ~ In key_sep t -> N.of_nat (length k) < 65536 ->
  (In s (elems dt t k (store_of xs)) <-> s <> [] /\ In (CS.KColl dt t k s) xs).
Proof.
  intros Hwf Hdt Ht Hk. rewrite elems_spec. unfold store_of.
  assert (CS.wf_ekey (CS.KColl dt t k s)) as Hw by (cbn; auto).
  split; intros [Hne Hin]; split; auto.
  - apply in_map_iff in Hin. destruct Hin as [x [Hx Hxin]].
    rewrite coll_key_same in Hx by exact Hdt.
    change (CK.coll_key dt t k s) with (CS.encode_ekey (CS.KColl dt t k s)) in Hx.
    rewrite Forall_forall in Hwf.
    pose proof (ZV.Codec.ProofsKeys.ekey_inj x _ (Hwf x Hxin) Hw Hx) as Hn.
    cbn [CS.ekey_norm] in Hn. apply norm_coll in Hn. now subst.
  - apply in_map_iff. exists (CS.KColl dt t k s). split; [|exact Hin].
    cbn [CS.encode_ekey]. now rewrite coll_key_same.
Qed.

(* the structured key behind a raw key "table:key" of a scanned type *)
Definition key_of (d : dtype) (t rk : bytes) : CS.ekey :=
  match d with
  | KV => CS.KKV t rk
  | _ => CS.KMeta (get_data_store_type d) t rk
  end.

Lemma key_of_wf d t rk : ~ In key_sep t -> CS.wf_ekey (key_of d t rk).
Proof. intro H. destruct d; cbn; auto. Qed.

Lemma key_of_encode d t rk : CS.encode_ekey (key_of d t rk) = type_prefix d ++ wrap_cursor t rk.
Proof. destruct d; reflexivity. Qed.

(* a key of the universe whose encoding starts with the prefix of type d is a key of that type *)
Lemma type_prefix_owner d x raw :
  CS.wf_ekey x -> CS.encode_ekey x = type_prefix d ++ raw ->
  exists t rk, x = key_of d t rk /\ raw = wrap_cursor t rk /\ ~ In key_sep t.
Proof.
  intros Hw He.
  destruct x as [t rk|ty t rk|dt t k sub|t k seq|t k sc m|t k i|t rk|t|it t|dt r w|dt r]; cbn [CS.encode_ekey] in He.
  - (* KKV *) destruct d; cbn in He; try discriminate.
    inversion He. exists t, rk. repeat split. exact Hw.
  - (* KMeta *) destruct Hw as [Hm Hs].
    destruct d; cbn in He; inversion He as [[H1 H2]]; subst;
      try (vm_compute in Hm; discriminate);
      try (exists t, rk; repeat split; exact Hs).
  - (* KColl *) destruct Hw as [Hc _]. exfalso. unfold CK.coll_key, CK.table_prefix in He.
    destruct d; cbn in He; inversion He as [[H1 H2]]; subst; vm_compute in Hc; discriminate.
  - exfalso. unfold CK.l_encode_list_key, CK.table_prefix in He. destruct d; cbn in He; inversion He.
  - exfalso. unfold CK.z_encode_score_key, CK.z_encode_score_key_internal, CK.table_prefix in He.
    destruct d; cbn in He; inversion He.
  - exfalso. unfold CK.encode_bitmap_key, CK.table_prefix in He. destruct d; cbn in He; inversion He.
  - exfalso. unfold CK.encode_json_key, CK.table_prefix in He. destruct d; cbn in He; inversion He.
  - exfalso. unfold CK.encode_table_meta_key in He. destruct d; cbn in He; inversion He.
  - exfalso. unfold CK.encode_table_index_meta_key in He. destruct d; cbn in He; inversion He.
  - exfalso. unfold CK.exp_encode_time_key in He. destruct d; cbn in He; inversion He.
  - exfalso. unfold CK.exp_encode_meta_key in He. destruct d; cbn in He; inversion He.
Qed.

(* the raw keys a key scan of type d can return are exactly the stored keys of that type *)
Theorem rawkeys_of_store xs d raw :
  Forall CS.wf_ekey xs ->
  (In raw (rawkeys d (store_of xs)) <->
   exists t rk, raw = wrap_cursor t rk /\ ~ In key_sep t /\ In (key_of d t rk) xs).
Proof.
  intro Hwf. rewrite rawkeys_spec. unfold store_of. split.
  - intros [Hne Hin]. apply in_map_iff in Hin. destruct Hin as [x [Hx Hxin]].
    rewrite Forall_forall in Hwf.
    destruct (type_prefix_owner d x raw (Hwf x Hxin) Hx) as [t [rk [-> [-> Ht]]]].
    exists t, rk. auto.
  - intros [t [rk [-> [Ht Hin]]]]. split.
    + unfold wrap_cursor. destruct t; discriminate.
    + apply in_map_iff. exists (key_of d t rk). split; [apply key_of_encode|exact Hin].
Qed.

(* every raw key of a well-formed universe has a table: the hypothesis of the key-scan theorems holds *)
Lemma keys_have_table_of_store xs d :
  Forall CS.wf_ekey xs -> Forall (fun raw => extract_table raw <> None) (rawkeys d (store_of xs)).
Proof.
  intro Hwf. apply Forall_forall. intros raw Hin. apply (rawkeys_of_store xs d raw Hwf) in Hin.
  destruct Hin as [t [rk [-> [Ht _]]]]. rewrite extract_table_wrap by exact Ht. discriminate.
Qed.

Lemma same_table_wrap table t rk :
  ~ In key_sep table -> ~ In key_sep t -> (same_table table (wrap_cursor t rk) = true <-> t = table).
Proof.
  intros Htab Ht. unfold same_table. rewrite extract_table_wrap by exact Ht. split.
  - intro H. now apply bytes_eqb_eq in H.
  - intros ->. apply bytes_eqb_refl.
Qed.

(* ---------- the headline theorems over such a store ---------- *)

Lemma names_length p l : (length (names p l) <= length l)%nat.
Proof.
  unfold names. induction l as [|k r IH]; [reflexivity|]. cbn [flat_map length]. rewrite app_length.
  unfold name_of at 1. destruct (strip p k) as [s|]; [destruct (nonemptyb s)|]; cbn [length]; lia.
Qed.

Lemma filter_length_le {A} (f : A -> bool) l : (length (filter f l) <= length l)%nat.
Proof. induction l as [|x r IH]; [reflexivity|]. cbn [filter]. destruct (f x); cbn [length]; lia. Qed.

Lemma div_fuel a b n fuel : (0 < n)%nat -> (a <= b)%nat -> (b / n < fuel)%nat -> (a / n < fuel)%nat.
Proof.
  intros Hn Hab Hf. apply Nat.le_lt_trans with (m := (b / n)%nat); [|exact Hf].
  apply Nat.div_le_mono; lia.
Qed.

Definition beyond (reverse : bool) (cursor s : bytes) : bool :=
  if reverse then bytes_ltb s cursor else bytes_ltb cursor s.

(* H/S/ZSCAN (+REV) on the byte image of any well-formed key universe: exactly the non-empty members of the
   addressed collection that match and lie beyond the cursor, in order, each once *)
Theorem coll_scan_store compile xs dt t k pat m count (reverse : bool) start fuel :
  Forall CS.wf_ekey xs -> sorted_db (store_of xs) ->
  is_coll_type dt = true -> ~ In key_sep t ->
  N.of_nat (length t) < 65536 -> 0 < N.of_nat (length k) <= max_key_size ->
  matcher compile pat = Some m -> (1 <= count)%Z ->
  (length xs / eff_count count < fuel)%nat ->
  exists pages,
    iterate_coll compile fuel (store_of xs) dt t k true reverse start pat count = (pages, Done) /\
    (forall s, In s (concat (map fst pages)) <->
       (s <> [] /\ In (CS.KColl dt t k s) xs /\ m s = true /\ beyond reverse start s = true)) /\
    sorted (if reverse then ltr else ltf) (concat (map fst pages)) /\
    (length pages <= length xs / eff_count count + 1)%nat.
Proof.
  intros Hwf Hs Hdt Ht Htl Hkl Hm Hc Hfuel.
  assert (N.of_nat (length k) < 65536) as Hk16 by (unfold max_key_size in Hkl; lia).
  pose proof (eff_count_pos count Hc) as Hn.
  assert (length (elems dt t k (store_of xs)) <= length xs)%nat as Hlen.
  { unfold elems. etransitivity; [apply names_length|]. unfold store_of. now rewrite map_length. }
  destruct reverse.
  - set (R := filter m (filter (fun s => bytes_ltb s start) (rev (elems dt t k (store_of xs))))).
    assert (length R <= length xs)%nat as HR.
    { unfold R. etransitivity; [apply filter_length_le|]. etransitivity; [apply filter_length_le|].
      now rewrite rev_length. }
    destruct (coll_scan_rev compile _ dt t k pat m count Hs Hdt Htl Hkl Hm Hc start fuel)
      as [pages [Hit [Hcat Hcnt]]]; [fold R; now apply (div_fuel _ _ _ _ Hn HR)|].
    fold R in Hcat, Hcnt. exists pages. split; [exact Hit|]. rewrite Hcat. split; [|split].
    + intro s. unfold R, beyond. rewrite !filter_In, <- in_rev, (elems_of_store xs dt t k s Hwf Hdt Ht Hk16). tauto.
    + unfold R. apply (sorted_filter ltr), (sorted_filter ltr). now apply elems_rev_sorted.
    + rewrite Hcnt. assert (length R / eff_count count <= length xs / eff_count count)%nat by (apply Nat.div_le_mono; lia). lia.
  - set (R := filter m (filter (fun s => bytes_ltb start s) (elems dt t k (store_of xs)))).
    assert (length R <= length xs)%nat as HR.
    { unfold R. etransitivity; [apply filter_length_le|]. etransitivity; [apply filter_length_le|]. exact Hlen. }
    destruct (coll_scan_fwd compile _ dt t k pat m count Hs Hdt Htl Hkl Hm Hc start fuel)
      as [pages [Hit [Hcat Hcnt]]]; [fold R; now apply (div_fuel _ _ _ _ Hn HR)|].
    fold R in Hcat, Hcnt. exists pages. split; [exact Hit|]. rewrite Hcat. split; [|split].
    + intro s. unfold R, beyond. rewrite !filter_In, (elems_of_store xs dt t k s Hwf Hdt Ht Hk16). tauto.
    + unfold R. apply (sorted_filter ltf), (sorted_filter ltf). now apply elems_sorted.
    + rewrite Hcnt. assert (length R / eff_count count <= length xs / eff_count count)%nat by (apply Nat.div_le_mono; lia). lia.
Qed.

(* SCAN/ADVSCAN (+REV) on the byte image of any well-formed key universe: exactly the keys of the addressed
   type and table that match and lie beyond the cursor — nothing of another type, table or collection *)
Theorem key_scan_store compile xs d table pat m count (reverse : bool) start fuel :
  Forall CS.wf_ekey xs -> sorted_db (store_of xs) -> ~ In key_sep table ->
  matcher compile pat = Some m -> (1 <= count)%Z ->
  (length xs / eff_count count < fuel)%nat ->
  exists pages,
    iterate_keys compile fuel (store_of xs) d reverse table start pat count = (pages, Done) /\
    (forall raw, In raw (concat (map fst pages)) <->
       (exists rk, raw = wrap_cursor table rk /\ In (key_of d table rk) xs /\ m raw = true /\
                   beyond reverse (wrap_cursor table start) raw = true)) /\
    sorted (if reverse then ltr else ltf) (concat (map fst pages)) /\
    (length pages <= length xs / eff_count count + 1)%nat.
Proof.
  intros Hwf Hs Htab Hm Hc Hfuel.
  pose proof (eff_count_pos count Hc) as Hn.
  pose proof (keys_have_table_of_store xs d Hwf) as Hk.
  assert (length (rawkeys d (store_of xs)) <= length xs)%nat as Hlen.
  { unfold rawkeys. etransitivity; [apply names_length|]. unfold store_of. now rewrite map_length. }
  assert (forall raw, (In raw (rawkeys d (store_of xs)) /\ same_table table raw = true) <->
                      exists rk, raw = wrap_cursor table rk /\ In (key_of d table rk) xs) as Hmem.
  { intro raw. rewrite (rawkeys_of_store xs d raw Hwf). split.
    - intros [[t [rk [-> [Ht Hin]]]] Hsame]. apply (same_table_wrap table t rk Htab Ht) in Hsame. subst. eauto.
    - intros [rk [-> Hin]]. split; [exists table, rk; auto|]. now apply (same_table_wrap table table rk Htab Htab). }
  destruct reverse.
  - set (R := filter m (filter (fun s => bytes_ltb s (wrap_cursor table start))
                          (filter (same_table table) (rev (rawkeys d (store_of xs)))))).
    assert (length R <= length xs)%nat as HR.
    { unfold R. repeat (etransitivity; [apply filter_length_le|]). now rewrite rev_length. }
    destruct (key_scan_rev compile _ d table pat m count Hs Htab Hk Hm Hc start fuel)
      as [pages [Hit [Hcat [Hcnt _]]]]; [fold R; now apply (div_fuel _ _ _ _ Hn HR)|].
    fold R in Hcat, Hcnt. exists pages. split; [exact Hit|]. rewrite Hcat. split; [|split].
    + intro raw. unfold R, beyond. rewrite !filter_In, <- in_rev. specialize (Hmem raw). split.
      * intros [[[H1 H2] H3] H4]. destruct (proj1 Hmem (conj H1 H2)) as [rk [-> Hin]]. eauto.
      * intros [rk [-> [Hin [H3 H4]]]]. destruct (proj2 Hmem (ex_intro _ rk (conj eq_refl Hin))). auto.
    + unfold R. repeat apply (sorted_filter ltr). now apply rawkeys_rev_sorted.
    + assert (length R / eff_count count <= length xs / eff_count count)%nat by (apply Nat.div_le_mono; lia). lia.
  - set (R := filter m (filter (fun s => bytes_ltb (wrap_cursor table start) s)
                          (filter (same_table table) (rawkeys d (store_of xs))))).
    assert (length R <= length xs)%nat as HR.
    { unfold R. repeat (etransitivity; [apply filter_length_le|]). exact Hlen. }
    destruct (key_scan_fwd compile _ d table pat m count Hs Htab Hk Hm Hc start fuel)
      as [pages [Hit [Hcat [Hcnt _]]]]; [fold R; now apply (div_fuel _ _ _ _ Hn HR)|].
    fold R in Hcat, Hcnt. exists pages. split; [exact Hit|]. rewrite Hcat. split; [|split].
    + intro raw. unfold R, beyond. rewrite !filter_In. specialize (Hmem raw). split.
      * intros [[[H1 H2] H3] H4]. destruct (proj1 Hmem (conj H1 H2)) as [rk [-> Hin]]. eauto.
      * intros [rk [-> [Hin [H3 H4]]]]. destruct (proj2 Hmem (ex_intro _ rk (conj eq_refl Hin))). auto.
    + unfold R. repeat apply (sorted_filter ltf). now apply rawkeys_sorted.
    + assert (length R / eff_count count <= length xs / eff_count count)%nat by (apply Nat.div_le_mono; lia). lia.
Qed.
