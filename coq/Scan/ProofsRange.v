(* Scan/ProofsRange.v — from engine keys to names.
   The two walking orders; the model's iterator functions are the generic ones of ProofsIter;
   a reversed ascending list is sorted for the converse order; the keys of a scan range are exactly
   the keys "prefix ++ non-empty name" with the name beyond the cursor, so a page of the store is the
   first n elements of the name-level stream. *)
From ZV Require Import Common.Bytes Common.BytesFacts Scan.Consts Scan.Model Scan.ProofsOrder Scan.ProofsIter.
From Coq Require Import Sorting.Sorted Lia PeanoNat.
Open Scope N_scope.

(* ---------- the two orders ---------- *)

Definition ltf (a b : bytes) : bool := bytes_ltb a b.
Definition ltr (a b : bytes) : bool := bytes_ltb b a.

Lemma ltf_irrefl a : ltf a a = false. Proof. apply bytes_ltb_irrefl. Qed.
Lemma ltf_trans a b c : ltf a b = true -> ltf b c = true -> ltf a c = true.
Proof. apply bytes_ltb_trans. Qed.
Lemma ltf_total a b : ltf a b = true \/ a = b \/ ltf b a = true.
Proof. apply bytes_ltb_total. Qed.
Lemma ltr_irrefl a : ltr a a = false. Proof. apply bytes_ltb_irrefl. Qed.
Lemma ltr_trans a b c : ltr a b = true -> ltr b c = true -> ltr a c = true.
Proof. unfold ltr. intros H1 H2. exact (bytes_ltb_trans _ _ _ H2 H1). Qed.
Lemma ltr_total a b : ltr a b = true \/ a = b \/ ltr b a = true.
Proof. unfold ltr. destruct (bytes_ltb_total a b) as [H|[H|H]]; auto. Qed.

Definition sorted_db (db : list bytes) : Prop := sorted ltf db.

Lemma sorted_app lt l1 l2 :
  sorted lt l1 -> sorted lt l2 -> (forall x y, In x l1 -> In y l2 -> lt x y = true) -> sorted lt (l1 ++ l2).
Proof.
  intros H1 H2 H. induction H1 as [|a l1 Hs IH Hf]; [exact H2|].
  cbn [app]. constructor.
  - apply IH. intros x y Hx Hy. apply H; [now right|exact Hy].
  - apply Forall_app. split; [exact Hf|]. apply Forall_forall. intros y Hy. apply H; [now left|exact Hy].
Qed.

Lemma sorted_rev db : sorted ltf db -> sorted ltr (rev db).
Proof.
  induction 1 as [|k r Hs IH Hf]; [constructor|]. cbn [rev].
  apply sorted_app; [exact IH|repeat constructor|].
  intros x y Hx [<-|[]]. apply in_rev in Hx. rewrite Forall_forall in Hf. unfold ltr. now apply Hf.
Qed.

(* ---------- the model's iterator start = the generic one ---------- *)

Lemma seek_ge_gseek b l : seek_ge b l = gseek ltf b l.
Proof. induction l as [|k r IH]; [reflexivity|]. cbn [seek_ge gseek]. unfold ltf at 1. now rewrite IH. Qed.

Lemma fwd_open_start_gopen b db : fwd_open_start b db = gopen ltf b db.
Proof.
  unfold fwd_open_start, gopen. rewrite seek_ge_gseek.
  destruct (gseek ltf b db) as [|k r]; [reflexivity|]. unfold ltf. now rewrite leb_negb_ltb.
Qed.

Lemma seek_le_gseek b l : seek_le b l = gseek ltr b l.
Proof. induction l as [|k r IH]; [reflexivity|]. cbn [seek_le gseek]. unfold ltr at 1. now rewrite IH. Qed.

Lemma gseek_nil lt b l : gseek lt b l = [] -> Forall (fun k => lt k b = true) l.
Proof.
  induction l as [|k r IH]; [constructor|]. cbn [gseek]. destruct (lt k b) eqn:E; [|discriminate].
  intro H. constructor; auto.
Qed.

(* the SeekToFirst fallback of the reverse iterator never yields an element for an open upper bound *)
Lemma rev_open_start_gopen b db : rev_open_start b db = gopen ltr b (rev db).
Proof.
  unfold rev_open_start, gopen. rewrite seek_le_gseek.
  destruct (gseek ltr b (rev db)) as [|k r] eqn:E.
  - destruct db as [|k0 db']; [reflexivity|].
    apply gseek_nil in E. rewrite Forall_forall in E.
    assert (ltr k0 b = true) as H by (apply E; apply in_rev; rewrite rev_involutive; now left).
    unfold ltr in H. now rewrite H.
  - unfold ltr. now rewrite leb_negb_ltb.
Qed.

(* ---------- names under a prefix ---------- *)

Definition nonemptyb (s : bytes) : bool := match s with [] => false | _ => true end.

Definition name_of (p k : bytes) : list bytes :=
  match strip p k with
  | Some s => if nonemptyb s then [s] else []
  | None => []
  end.
(* the non-empty names s with p ++ s in the list, in the list's order *)
Definition names (p : bytes) (l : list bytes) : list bytes := flat_map (name_of p) l.

Lemma names_in p l s : In s (names p l) <-> (s <> [] /\ In (p ++ s) l).
Proof.
  unfold names. rewrite in_flat_map. split.
  - intros [k [Hk Hs]]. unfold name_of in Hs. destruct (strip p k) as [s'|] eqn:E; [|destruct Hs].
    destruct s' as [|b s']; [destruct Hs|]. destruct Hs as [<-|[]].
    apply strip_some in E. subst k. split; [discriminate|exact Hk].
  - intros [Hne Hin]. exists (p ++ s). split; [exact Hin|]. unfold name_of.
    rewrite strip_app. destruct s; [congruence|]. now left.
Qed.

Lemma names_nonempty p l : Forall (fun s => s <> []) (names p l).
Proof. apply Forall_forall. intros s Hs. now apply names_in in Hs. Qed.

Lemma names_rev p l : names p (rev l) = rev (names p l).
Proof.
  unfold names. induction l as [|k r IH]; [reflexivity|].
  cbn [rev flat_map]. rewrite flat_map_app, IH, rev_app_distr. cbn [flat_map]. rewrite app_nil_r.
  f_equal. unfold name_of. destruct (strip p k) as [s|]; [|reflexivity]. now destruct (nonemptyb s).
Qed.

Section Dir.
  Variable lt : bytes -> bytes -> bool.
  Hypothesis lt_app : forall p a b, lt (p ++ a) (p ++ b) = lt a b.

  Lemma names_sorted p l : sorted lt l -> sorted lt (names p l).
  Proof.
    induction 1 as [|k r Hs IH Hf]; [constructor|].
    unfold names. cbn [flat_map]. fold (names p r).
    unfold name_of. destruct (strip p k) as [s|] eqn:E; [|exact IH].
    destruct (nonemptyb s); [|exact IH]. cbn [app]. constructor; [exact IH|].
    apply Forall_forall. intros s' Hs'. apply names_in in Hs'. destruct Hs' as [_ Hin].
    apply strip_some in E. subst k. rewrite Forall_forall in Hf.
    rewrite <- (lt_app p). now apply Hf.
  Qed.

  (* If the in-range test of the engine keys is, key by key, "has the prefix, the name is non-empty
     and beyond the cursor", then selecting from the filtered key list = filtering the names. *)
  Variable dec : bytes -> outcome bytes.
  Variable m : bytes -> bool.
  Variable p : bytes.
  Hypothesis dec_ok : forall s, dec (p ++ s) = Ok s.

  Lemma sel_names (inrange : bytes -> bool) (c : bytes) l :
    (forall k, inrange k = match strip p k with
                           | Some s => nonemptyb s && lt c s
                           | None => false
                           end) ->
    sel dec m (filter inrange l) = filter m (filter (fun s => lt c s) (names p l)).
  Proof.
    intro Hin. induction l as [|k r IH]; [reflexivity|].
    cbn [filter]. unfold names. cbn [flat_map]. fold (names p r).
    rewrite Hin. unfold name_of. destruct (strip p k) as [s|] eqn:E.
    - apply strip_some in E. subst k.
      destruct (nonemptyb s); cbn [andb app]; [|exact IH].
      cbn [filter]. destruct (lt c s) eqn:E2; cbn [filter].
      + unfold sel. cbn [flat_map]. fold (sel dec m (filter inrange r)).
        unfold selk. rewrite dec_ok. destruct (m s); cbn [app]; now rewrite IH.
      + exact IH.
    - exact IH.
  Qed.
End Dir.

Lemma ltf_app p a b : ltf (p ++ a) (p ++ b) = ltf a b.
Proof. apply ltb_app. Qed.
Lemma ltr_app p a b : ltr (p ++ a) (p ++ b) = ltr a b.
Proof. unfold ltr. apply ltb_app. Qed.

(* ---------- the two range shapes ---------- *)

(* forwards: (p·c, p with last byte + 1), p = q·c0 *)
Lemma inrange_fwd q c0 c k :
  c0 < 255 ->
  ltf ((q ++ [c0]) ++ c) k && ltf k (q ++ [c0 + 1]) =
  match strip (q ++ [c0]) k with
  | Some s => nonemptyb s && ltf c s
  | None => false
  end.
Proof.
  intro Hc. unfold ltf. destruct (strip (q ++ [c0]) k) as [s|] eqn:E.
  - apply strip_some in E. subst k. rewrite ltb_app, extension_in_range, andb_true_r.
    destruct s as [|b s]; [now rewrite ltb_nil_r|reflexivity].
  - destruct (bytes_ltb ((q ++ [c0]) ++ c) k) eqn:E1; [|reflexivity].
    destruct (bytes_ltb k (q ++ [c0 + 1])) eqn:E2; [|reflexivity]. exfalso.
    assert (bytes_leb (q ++ [c0]) k = true) as Hle.
    { apply ltb_leb. eapply leb_ltb_trans; [apply leb_prefix|exact E1]. }
    destruct (between_prefix q c0 k Hc Hle E2) as [s Hs].
    exact (strip_none _ _ E s Hs).
Qed.

(* backwards: (p, p·c) walked downwards *)
Lemma inrange_rev p c k :
  ltr (p ++ c) k && ltr k p =
  match strip p k with
  | Some s => nonemptyb s && ltr c s
  | None => false
  end.
Proof.
  unfold ltr. destruct (strip p k) as [s|] eqn:E.
  - apply strip_some in E. subst k. rewrite ltb_app.
    replace (bytes_ltb p (p ++ s)) with (bytes_ltb (p ++ []) (p ++ s)) by now rewrite app_nil_r.
    rewrite ltb_app, ltb_nil_l.
    destruct s; cbn [nonemptyb]; [now rewrite andb_false_r|now rewrite andb_true_r].
  - destruct (bytes_ltb k (p ++ c)) eqn:E1; [|reflexivity].
    destruct (bytes_ltb p k) eqn:E2; [|reflexivity]. exfalso.
    destruct (between_prefix_rev p c k E2 E1) as [s [Hs _]].
    exact (strip_none _ _ E s Hs).
Qed.

(* ---------- one page of the store ---------- *)

Section Page.
  Variable dec : bytes -> outcome bytes.
  Variable m : bytes -> bool.
  Variables (q : bytes) (c0 : N).
  Hypothesis c0_small : c0 < 255.
  Let p := q ++ [c0].
  Hypothesis dec_ok : forall s, dec (p ++ s) = Ok s.
  Variable db : list bytes.
  Hypothesis db_sorted : sorted_db db.

  Lemma filter_filter_and {A} (f g : A -> bool) l :
    filter f (filter g l) = filter (fun x => g x && f x) l.
  Proof.
    induction l as [|x r IH]; [reflexivity|]. cbn [filter].
    destruct (g x); cbn [filter andb]; [destruct (f x)|]; now rewrite IH.
  Qed.

  Lemma page_fwd c n :
    scan_loop (valid_fwd (incr_last p)) dec m (fwd_open_start (p ++ c) db) n =
    firstn n (stream ltf m (names p db) c).
  Proof.
    unfold p. rewrite incr_last_snoc, N.mod_small by lia.
    rewrite fwd_open_start_gopen, (gopen_filter ltf ltf_irrefl ltf_trans ltf_total) by exact db_sorted.
    change (valid_fwd (q ++ [c0 + 1])) with (fun k => ltf k (q ++ [c0 + 1])).
    rewrite (scan_loop_firstn ltf ltf_trans dec m)
      by (apply (sorted_filter ltf); exact db_sorted).
    rewrite filter_filter_and. unfold stream. f_equal.
    apply (sel_names ltf dec m (q ++ [c0]) dec_ok).
    intro k. apply inrange_fwd. exact c0_small.
  Qed.

  Lemma page_rev c n :
    scan_loop (valid_rev p) dec m (rev_open_start (p ++ c) db) n =
    firstn n (stream ltr m (names p (rev db)) c).
  Proof.
    rewrite rev_open_start_gopen, (gopen_filter ltr ltr_irrefl ltr_trans ltr_total)
      by (apply sorted_rev; exact db_sorted).
    change (valid_rev p) with (fun k => ltr k p).
    rewrite (scan_loop_firstn ltr ltr_trans dec m)
      by (apply (sorted_filter ltr); apply sorted_rev; exact db_sorted).
    rewrite filter_filter_and. unfold stream. f_equal.
    apply (sel_names ltr dec m p dec_ok).
    intro k. apply inrange_rev.
  Qed.

  (* every key the loop can see decodes: the collection loops never end with a decode error *)
  Lemma visible_decodes_fwd c :
    Forall (fun k => valid_fwd (incr_last p) k = true -> exists x, dec k = Ok x) (fwd_open_start (p ++ c) db).
  Proof.
    unfold p. rewrite incr_last_snoc, N.mod_small by lia.
    rewrite fwd_open_start_gopen, (gopen_filter ltf ltf_irrefl ltf_trans ltf_total) by exact db_sorted.
    apply Forall_forall. intros k Hk Hv. apply filter_In in Hk. destruct Hk as [_ Hlo].
    pose proof (inrange_fwd q c0 c k c0_small) as H. unfold valid_fwd in Hv. unfold ltf in *.
    rewrite Hlo, Hv in H. cbn [andb] in H.
    destruct (strip (q ++ [c0]) k) as [s|] eqn:E; [|discriminate].
    apply strip_some in E. subst k. exists s. apply dec_ok.
  Qed.

  Lemma visible_decodes_rev c :
    Forall (fun k => valid_rev p k = true -> exists x, dec k = Ok x) (rev_open_start (p ++ c) db).
  Proof.
    rewrite rev_open_start_gopen, (gopen_filter ltr ltr_irrefl ltr_trans ltr_total)
      by (apply sorted_rev; exact db_sorted).
    apply Forall_forall. intros k Hk Hv. apply filter_In in Hk. destruct Hk as [_ Hlo].
    pose proof (inrange_rev p c k) as H. unfold valid_rev in Hv. unfold ltr in *.
    rewrite Hlo, Hv in H. cbn [andb] in H.
    destruct (strip p k) as [s|] eqn:E; [|discriminate].
    apply strip_some in E. subst k. exists s. apply dec_ok.
  Qed.
End Page.
