(* Scan/ProofsCluster.v — SCAN/ADVSCAN (+REV) over all partitions of a namespace: every partition's handler
   is a step on its remaining result (ProofsIter.cut_step, for whatever COUNT it is given), hence the merged
   iteration (ProofsMerge) delivers the results of all partitions, each key once. *)
From ZV Require Import Common.Bytes Common.BytesFacts Scan.Consts Scan.Model
     Scan.ProofsOrder Scan.ProofsIter Scan.ProofsRange Scan.Proofs Scan.ProofsMerge.
From Coq Require Import Permutation Lia PeanoNat ZArith Sorting.Sorted.
Open Scope N_scope.

Section Cluster.
  Variable compile : bytes -> option (bytes -> bool).
  Variables (dbs : list (list bytes)) (d : dtype) (table pat : bytes) (m : bytes -> bool).
  Let np := length dbs.
  Hypothesis dbs_ok : forall p, (p < np)%nat ->
    sorted_db (nth p dbs []) /\
    Forall (fun raw => extract_table raw <> None) (rawkeys d (nth p dbs [])).
  Hypothesis table_ok : ~ In key_sep table.
  Hypothesis pat_ok : matcher compile pat = Some m.
  Variable reverse : bool.

  (* the matching keys of the table in partition p beyond (reverse: below) the cursor *)
  Definition part_result (start : bytes) (p : nat) : list bytes :=
    if reverse
    then filter m (filter (fun s => bytes_ltb s (wrap_cursor table start))
                     (filter (same_table table) (rev (rawkeys d (nth p dbs [])))))
    else filter m (filter (fun s => bytes_ltb (wrap_cursor table start) s)
                     (filter (same_table table) (rawkeys d (nth p dbs [])))).

  Let call := fun (cnt : Z) (p : nat) (c : bytes) =>
    key_scan_command compile (nth p dbs []) d reverse (wrap_cursor table c) pat cnt.

  Lemma db_ok_any p :
    sorted_db (nth p dbs []) /\
    Forall (fun raw => extract_table raw <> None) (rawkeys d (nth p dbs [])).
  Proof.
    destruct (Nat.lt_ge_cases p np) as [H|H]; [now apply dbs_ok|].
    rewrite nth_overflow by exact H. split; constructor.
  Qed.

  Lemma part_result_remaining c p :
    part_result c p =
    if reverse
    then remaining ltr m (rev (rawkeys d (nth p dbs []))) (same_table table) (wrap_cursor table) c
    else remaining ltf m (rawkeys d (nth p dbs [])) (same_table table) (wrap_cursor table) c.
  Proof.
    unfold part_result, remaining, stream, ltr, ltf. destruct reverse; apply filter_comm3.
  Qed.

  Lemma key_step cnt p c : exists items next rem',
    call cnt p c = Ok (items, next) /\
    part_result c p = items ++ rem' /\
    (next = [] -> rem' = []) /\
    (next <> [] -> items <> [] /\ rem' = part_result next p).
  Proof.
    destruct (db_ok_any p) as [Hs Hk]. unfold call.
    rewrite part_result_remaining.
    assert (forall nx, part_result nx p =
              if reverse
              then remaining ltr m (rev (rawkeys d (nth p dbs []))) (same_table table) (wrap_cursor table) nx
              else remaining ltf m (rawkeys d (nth p dbs [])) (same_table table) (wrap_cursor table) nx) as Hpr
      by (intro nx; apply part_result_remaining).
    destruct (Z_le_gt_dec 1 cnt) as [Hc|Hc]; destruct reverse.
    - rewrite (key_call_rev compile _ d table pat m cnt Hs table_ok Hk pat_ok Hc).
      destruct (cut_step ltr ltr_irrefl ltr_trans (fun _ => Err) m _ (rawkeys_rev_sorted _ d Hs)
                  (eff_count cnt) (eff_count_pos cnt Hc) (same_table table) rk_of (wrap_cursor table)
                  (wrap_rk table table_ok) (rk_empty_last_rev (nth p dbs []) d table m table_ok) (down_closed_rev table table_ok) c)
        as [items [next [rem' [E [H1 [H2 H3]]]]]].
      exists items, next, rem'. rewrite E. repeat split; auto; try (now apply H3).
      rewrite Hpr. now apply H3.
    - rewrite (key_call_fwd compile _ d table pat m cnt Hs table_ok Hk pat_ok Hc).
      destruct (cut_step ltf ltf_irrefl ltf_trans (fun _ => Err) m _ (rawkeys_sorted _ d Hs)
                  (eff_count cnt) (eff_count_pos cnt Hc) (same_table table) rk_of (wrap_cursor table)
                  (wrap_rk table table_ok) (rk_empty_last_fwd (nth p dbs []) d table m table_ok)
                  (down_closed_fwd table table_ok) c)
        as [items [next [rem' [E [H1 [H2 H3]]]]]].
      exists items, next, rem'. rewrite E. repeat split; auto; try (now apply H3).
      rewrite Hpr. now apply H3.
    - assert (cnt <= 0)%Z as Hc0 by lia.
      rewrite (key_call_rev0 compile _ d table pat m cnt Hs table_ok Hk pat_ok Hc0).
      destruct (cut_step0 ltr ltr_irrefl ltr_trans (fun _ => Err) m _ (rawkeys_rev_sorted _ d Hs)
                  (N.to_nat default_scan_count) n0_pos (same_table table) rk_of (wrap_cursor table)
                  (wrap_rk table table_ok) (rk_empty_last_rev (nth p dbs []) d table m table_ok) (down_closed_rev table table_ok) c)
        as [items [next [rem' [E [H1 [H2 H3]]]]]].
      exists items, next, rem'. rewrite E. repeat split; auto; try (now apply H3).
      rewrite Hpr. now apply H3.
    - assert (cnt <= 0)%Z as Hc0 by lia.
      rewrite (key_call_fwd0 compile _ d table pat m cnt Hs table_ok Hk pat_ok Hc0).
      destruct (cut_step0 ltf ltf_irrefl ltf_trans (fun _ => Err) m _ (rawkeys_sorted _ d Hs)
                  (N.to_nat default_scan_count) n0_pos (same_table table) rk_of (wrap_cursor table)
                  (wrap_rk table table_ok) (rk_empty_last_fwd (nth p dbs []) d table m table_ok)
                  (down_closed_fwd table table_ok) c)
        as [items [next [rem' [E [H1 [H2 H3]]]]]].
      exists items, next, rem'. rewrite E. repeat split; auto; try (now apply H3).
      rewrite Hpr. now apply H3.
  Qed.

  (* the number of requests is at most: for every partition, its result size + 1 *)
  Definition request_bound (start : bytes) : nat :=
    list_sum (map (fun p => S (length (part_result start p))) (seq 0 np)).

  Theorem cluster_scan has_count count start fuel :
    (request_bound start < fuel)%nat ->
    exists mpages,
      merged_keys compile fuel dbs d reverse table start pat has_count count = (mpages, Done) /\
      Permutation (concat (map fst mpages)) (concat (map (part_result start) (seq 0 np))) /\
      (length mpages <= Nat.max 1 (request_bound start))%nat.
  Proof.
    intro Hfuel. unfold merged_keys. fold np. fold call.
    assert (forall l, remaining_all (fun p c => part_result c p) (map (fun p => (p, start)) l) =
                      concat (map (part_result start) l)) as Hra.
    { induction l as [|q l IH]; [reflexivity|]. unfold remaining_all in *. cbn [map concat fst snd]. now rewrite IH. }
    assert (forall l, measure (fun p c => part_result c p) (map (fun p => (p, start)) l) =
                      list_sum (map (fun p => S (length (part_result start p))) l)) as Hme.
    { unfold measure. induction l as [|q l IH]; [reflexivity|]. cbn [map fold_right list_sum fst snd]. now rewrite IH. }
    destruct (merged_iterate call (fun p c => part_result c p) key_step has_count count fuel (all_partitions np start))
      as [mp [Hit [Hperm Hlen]]].
    - unfold all_partitions. rewrite Hme. exact Hfuel.
    - exists mp. unfold all_partitions in *. rewrite Hra in Hperm. rewrite Hme in Hlen. auto.
  Qed.
End Cluster.
