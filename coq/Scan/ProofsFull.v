(* Scan/ProofsFull.v — FULLSCAN (rockredis/fullscan.go as fixed by e17393d/5624e60, local-deletion policy):
   iterating by cursor returns every element of every key of the addressed type and table whose key matches,
   exactly once, in engine order, in |R|/COUNT + 1 calls.
   The engine keys of the table are prefix ++ body; the iteration is the generic stream argument of ProofsIter
   over the bodies, the cursor text base64(key):base64(sub) encodes the last body. *)
From ZV Require Import Common.Bytes Common.BytesFacts Scan.Consts Scan.Model
     Scan.ProofsOrder Scan.ProofsIter Scan.ProofsRange Scan.Proofs Scan.ProofsB64.
From Coq Require Import Sorting.Sorted Lia PeanoNat ZArith.
Open Scope N_scope.

(* ---------- the generic iteration with an encoded cursor ---------- *)

Section FSGen.
  Variable m : bytes -> bool.
  Variable NL : list bytes.
  Hypothesis NL_sorted : sorted ltf NL.
  Variable n : nat.
  Hypothesis n_pos : (0 < n)%nat.
  Variable nm : bytes -> bytes.            (* cursor text -> body to continue after *)
  Variable enc : bytes -> bytes.           (* body -> cursor text *)
  Variable out : bytes -> fs_item.         (* body -> (key, element) *)
  Variable good : bytes -> Prop.           (* the cursor texts that occur *)
  Hypothesis nm_enc : forall x, In x NL -> nm (enc x) = x.
  Hypothesis enc_nonempty : forall x, In x NL -> enc x <> [].
  Hypothesis good_enc : forall x, In x NL -> good (enc x).

  Definition fs_next (pg : list bytes) : bytes :=
    if (length pg <? n)%nat then []
    else match last_opt pg with Some x => enc x | None => [] end.

  Variable call : bytes -> outcome fs_page.
  Hypothesis call_spec : forall c, good c ->
    call c = Ok (map out (firstn n (stream ltf m NL (nm c))), fs_next (firstn n (stream ltf m NL (nm c)))).

  Theorem fs_iterate_plain : forall fuel c, good c ->
    (length (stream ltf m NL (nm c)) / n < fuel)%nat ->
    exists pages,
      fs_iterate fuel call c = (pages, Done) /\
      concat (map fst pages) = map out (stream ltf m NL (nm c)) /\
      length pages = (length (stream ltf m NL (nm c)) / n + 1)%nat.
  Proof.
    induction fuel as [|f IH]; intros c Hgood Hfuel; [lia|].
    cbn [fs_iterate]. rewrite call_spec by exact Hgood. unfold fs_next.
    set (S := stream ltf m NL (nm c)) in *.
    destruct (length (firstn n S) <? n)%nat eqn:E.
    - apply Nat.ltb_lt in E. rewrite firstn_length in E.
      assert (length S < n)%nat as Hlen by lia.
      rewrite firstn_all2 by lia. eexists. split; [reflexivity|]. split.
      + cbn. now rewrite app_nil_r.
      + rewrite Nat.div_small by exact Hlen. reflexivity.
    - apply Nat.ltb_ge in E. rewrite firstn_length in E.
      assert (n <= length S)%nat as Hlen by lia.
      destruct (last_opt_some (firstn n S)) as [x Hx].
      { apply firstn_nonempty; [exact n_pos|]. destruct S; [cbn in Hlen; lia|discriminate]. }
      rewrite Hx.
      assert (In x NL) as HxNL.
      { pose proof (last_opt_in _ _ Hx) as Hin.
        assert (In x S) as Hin2 by (rewrite <- (firstn_skipn n S); apply in_or_app; now left).
        unfold S, stream in Hin2. apply filter_In in Hin2. destruct Hin2 as [Hin2 _].
        apply filter_In in Hin2. tauto. }
      pose proof (stream_chain ltf ltf_irrefl ltf_trans (fun _ => Err) m NL NL_sorted (nm c) n x Hx Hlen) as Hchain.
      fold S in Hchain.
      assert (length S = n + length (stream ltf m NL x))%nat as Hsplit by (rewrite Hchain, skipn_length; lia).
      assert (length S / n = 1 + length (stream ltf m NL x) / n)%nat as Hdiv.
      { rewrite Hsplit. replace (n + length (stream ltf m NL x))%nat with (1 * n + length (stream ltf m NL x))%nat by lia.
        rewrite Nat.div_add_l by lia. reflexivity. }
      destruct (IH (enc x)) as [pages [Hit [Hcat Hcnt]]]; [now apply good_enc|rewrite (nm_enc x HxNL); lia|].
      rewrite (nm_enc x HxNL) in Hcat, Hcnt.
      pose proof (enc_nonempty x HxNL) as Hne.
      destruct (enc x) as [|b0 r0] eqn:Ee; [congruence|].
      rewrite Hit. eexists. split; [reflexivity|]. split.
      + cbn [map concat fst]. rewrite Hcat, Hchain, <- map_app. now rewrite firstn_skipn.
      + cbn [length]. rewrite Hcnt, Hdiv. lia.
  Qed.
End FSGen.

(* ---------- bodies ---------- *)

(* the key the cursor carries: KV drops the table *)
Definition cursor_key (dt : N) (ikey : bytes) : bytes :=
  if dt =? kv_type then match extract_table ikey with Some (_, r) => r | None => ikey end else ikey.

(* what follows the table prefix in the engine key to continue after *)
Definition body_of (dt : N) (k c : bytes) : bytes :=
  if dt =? kv_type then k
  else if dt =? list_type then be16 (length k) ++ k ++ (match c with [] => be64 list_min_seq | _ => c end)
  else be16 (length k) ++ k ++ coll_start_sep :: c.

Definition fs_type_ok (dt : N) : bool := (dt =? kv_type) || (dt =? list_type) || is_coll_type dt.

Lemma fs_store_type_ok d : fs_type_ok (fs_store_type d) = true.
Proof. destruct d; reflexivity. Qed.

Lemma data_table_prefix_snoc dt table :
  data_table_prefix dt table = (dt :: (if dt =? kv_type then [] else be16 (length table)) ++ table) ++ [table_start_sep].
Proof. unfold data_table_prefix. cbn [app]. f_equal. now rewrite app_assoc. Qed.

Lemma encode_fs_key_body dt table k c :
  fs_type_ok dt = true -> (dt =? list_type = true -> c = [] \/ length c = 8%nat) ->
  encode_fs_key dt table k c = Ok (data_table_prefix dt table ++ body_of dt k c).
Proof.
  intros Hty Hl. unfold encode_fs_key, body_of, data_table_prefix.
  destruct (dt =? kv_type) eqn:Ekv.
  - apply N.eqb_eq in Ekv. subst. unfold encode_kv_key. cbn [app]. repeat rewrite <- app_assoc; reflexivity.
  - destruct (dt =? list_type) eqn:El.
    + destruct c as [|c0 cr]; [repeat rewrite <- app_assoc; reflexivity|].
      destruct (Hl eq_refl) as [H|H]; [discriminate|]. rewrite H. cbn [Nat.eqb]. repeat rewrite <- app_assoc; reflexivity.
    + unfold fs_type_ok in Hty. rewrite Ekv, El in Hty. cbn [orb] in Hty. rewrite Hty.
      unfold coll_key, coll_prefix, table_prefix. cbn [app]. repeat rewrite <- app_assoc. reflexivity.
Qed.

Lemma index_of_app c a b : ~ In c a -> index_of c (a ++ c :: b) = Some (length a).
Proof.
  induction a as [|x a IH]; intro H; cbn [app index_of length].
  - now rewrite N.eqb_refl.
  - destruct (x =? c) eqn:E; [apply N.eqb_eq in E; subst; exfalso; apply H; now left|].
    rewrite IH; [reflexivity|]. intro Hx. apply H. now right.
Qed.

Lemma skipn_exact_cons {A} (a : list A) x b : skipn (S (length a)) (a ++ x :: b) = b.
Proof. induction a as [|y a IH]; [reflexivity|exact IH]. Qed.

Lemma decode_encode_fs_cursor k c :
  k <> [] -> bytes_ok k = true -> bytes_ok c = true ->
  decode_fs_cursor (encode_fs_cursor k c) = Ok (k, c).
Proof.
  intros Hk Hbk Hbc. unfold decode_fs_cursor, encode_fs_cursor.
  assert (~ In key_sep (b64enc k)) as Hno by apply (proj1 (b64enc_alphabet k)).
  rewrite (index_of_app key_sep (b64enc k) (b64enc c) Hno).
  pose proof (b64enc_nonempty k Hk) as Hne.
  pose proof (firstn_exact (b64enc k) (key_sep :: b64enc c)) as Hf.
  pose proof (skipn_exact_cons (b64enc k) key_sep (b64enc c)) as Hs.
  destruct (length (b64enc k)) as [|i] eqn:El; [destruct (b64enc k); [congruence|discriminate]|].
  rewrite Hf, Hs. now rewrite !b64dec_enc.
Qed.

Lemma last_opt_map {A B} (f : A -> B) l : last_opt (map f l) = option_map f (last_opt l).
Proof.
  induction l as [|a l IH]; [reflexivity|]. destruct l as [|b l]; [reflexivity|].
  change (last_opt (map f (a :: b :: l))) with (last_opt (map f (b :: l))).
  change (last_opt (a :: b :: l)) with (last_opt (b :: l)). exact IH.
Qed.

(* ---------- FULLSCAN of one type and table ---------- *)

Section Full.
  Variable compile : bytes -> option (bytes -> bool).
  Variables (db : list bytes) (d : dtype) (table pat : bytes) (mk : bytes -> bool) (count : Z).
  Hypothesis db_sorted : sorted_db db.
  Hypothesis table_ok : ~ In key_sep table.
  Hypothesis pat_ok : matcher compile pat = Some mk.
  Hypothesis count_pos : (1 <= count)%Z.

  Let dt := fs_store_type d.
  Let P := data_table_prefix dt table.
  Let n := eff_count count.

  (* the bodies of the stored element keys of this type and table *)
  Definition bodies : list bytes := names P db.
  Definition outb (s : bytes) : fs_item :=
    match decode_fs_item dt (P ++ s) with Ok it => it | _ => ([], []) end.
  Definition mb (s : bytes) : bool := mk (fst (outb s)).

  (* every stored element key of the table is a well-formed key of this type, with a non-empty key name and
     byte-valued parts (what the write path produces) *)
  Hypothesis bodies_wf : forall s, In s bodies -> exists key cur,
    decode_fs_item dt (P ++ s) = Ok (key, cur) /\
    body_of dt (cursor_key dt key) cur = s /\
    cursor_key dt key <> [] /\ bytes_ok (cursor_key dt key) = true /\ bytes_ok cur = true /\
    (dt =? list_type = true -> length cur = 8%nat).

  Definition fs_enc (x : bytes) : bytes :=
    let '(ikey, icur) := outb x in encode_fs_cursor (cursor_key dt ikey) icur.
  Definition fs_nm (ctext : bytes) : bytes :=
    match decode_fs_cursor ctext with Ok (k, c) => body_of dt k c | _ => [] end.
  Definition fs_good (ctext : bytes) : Prop := ctext = [] \/ exists x, In x bodies /\ ctext = fs_enc x.

  Lemma outb_wf x : In x bodies -> exists key cur,
    outb x = (key, cur) /\ body_of dt (cursor_key dt key) cur = x /\
    cursor_key dt key <> [] /\ bytes_ok (cursor_key dt key) = true /\ bytes_ok cur = true /\
    (dt =? list_type = true -> length cur = 8%nat).
  Proof.
    intro H. destruct (bodies_wf x H) as [key [cur [Hd Hrest]]]. exists key, cur. unfold outb. now rewrite Hd.
  Qed.

  Lemma fs_nm_enc x : In x bodies -> fs_nm (fs_enc x) = x.
  Proof.
    intro H. destruct (outb_wf x H) as [key [cur [Ho [Hb [Hne [Hk [Hc _]]]]]]].
    unfold fs_nm, fs_enc. rewrite Ho. now rewrite decode_encode_fs_cursor.
  Qed.

  Lemma fs_enc_nonempty x : In x bodies -> fs_enc x <> [].
  Proof.
    intro H. destruct (outb_wf x H) as [key [cur [Ho [_ [Hne _]]]]].
    unfold fs_enc. rewrite Ho. unfold encode_fs_cursor. destruct (b64enc (cursor_key dt key)); discriminate.
  Qed.

  Definition sdec (ek : bytes) : outcome bytes :=
    match strip P ek with Some s => Ok s | None => Err end.

  Lemma sdec_ok s : sdec (P ++ s) = Ok s.
  Proof. unfold sdec. now rewrite strip_app. Qed.

  Lemma P_snoc : exists q, P = q ++ [table_start_sep].
  Proof. eexists. unfold P. apply data_table_prefix_snoc. Qed.

  (* the keys the loop can see are stored element keys of the table *)
  Lemma visible_bodies c :
    Forall (fun k => valid_fwd (incr_last P) k = true -> exists s, k = P ++ s /\ In s bodies)
           (fwd_open_start (P ++ c) db).
  Proof.
    destruct P_snoc as [q Hq].
    assert (table_start_sep < 255) as Hsep by reflexivity.
    rewrite Hq. rewrite incr_last_snoc, N.mod_small by (unfold table_start_sep; lia).
    rewrite fwd_open_start_gopen, (gopen_filter ltf ltf_irrefl ltf_trans ltf_total) by exact db_sorted.
    apply Forall_forall. intros k Hk Hv. apply filter_In in Hk. destruct Hk as [Hin Hlo].
    pose proof (inrange_fwd q table_start_sep c k Hsep) as H. unfold valid_fwd in Hv. unfold ltf in *.
    rewrite Hlo, Hv in H. cbn [andb] in H.
    destruct (strip (q ++ [table_start_sep]) k) as [s|] eqn:E; [|discriminate].
    apply strip_some in E. subst k. exists s. split; [reflexivity|].
    unfold bodies. rewrite Hq. apply names_in. split; [|exact Hin].
    destruct s; [discriminate|discriminate].
  Qed.

  Lemma fs_loop_bodies valid : forall cur k,
    Forall (fun ek => valid ek = true -> exists s, ek = P ++ s /\ In s bodies) cur ->
    fs_loop valid dt mk cur k = Ok (map outb (scan_loop valid sdec mb cur k)).
  Proof.
    induction cur as [|ek r IH]; intros k Hall; [now destruct k|].
    inversion Hall as [|x l Hek Hr]; subst.
    cbn [fs_loop scan_loop]. destruct k as [|k']; [reflexivity|].
    destruct (valid ek) eqn:V; [|reflexivity].
    destruct (Hek eq_refl) as [s [-> Hs]].
    rewrite sdec_ok. destruct (bodies_wf s Hs) as [key [cur0 [Hd _]]].
    assert (outb s = (key, cur0)) as Ho by (unfold outb; now rewrite Hd).
    assert (mb s = mk key) as Hmb by (unfold mb; now rewrite Ho).
    rewrite Hd, Hmb. destruct (mk key).
    - rewrite (IH k' Hr). cbn [map]. now rewrite Ho.
    - apply IH. exact Hr.
  Qed.

  Lemma full_scan_page ctext : fs_good ctext ->
    full_scan compile db d (wrap_cursor table ctext) (clamp_count count) pat =
    Ok (map outb (firstn n (stream ltf mb bodies (fs_nm ctext))),
        fs_next n fs_enc (firstn n (stream ltf mb bodies (fs_nm ctext)))).
  Proof.
    intro Hgood. unfold full_scan. fold dt. rewrite pat_ok, (extract_table_wrap table ctext table_ok).
    destruct (count_norm count count_pos) as [_ [Hn _]]. rewrite Hn. fold n.
    assert (exists k c, decode_fs_cursor ctext = Ok (k, c) /\
                        (dt =? list_type = true -> c = [] \/ length c = 8%nat)) as [k [c [Hdec Hlist]]].
    { destruct Hgood as [->|[x [Hx ->]]].
      - exists [], []. split; [reflexivity|]. auto.
      - destruct (outb_wf x Hx) as [key [cur [Ho [Hb [Hne [Hk [Hc Hl]]]]]]].
        exists (cursor_key dt key), cur. unfold fs_enc. rewrite Ho. split; [now apply decode_encode_fs_cursor|].
        intro E. right. now apply Hl. }
    unfold fs_nm. rewrite Hdec.
    rewrite (encode_fs_key_body dt table k c (fs_store_type_ok d) Hlist). fold P.
    rewrite (fs_loop_bodies _ _ n (visible_bodies (body_of dt k c))).
    destruct P_snoc as [q Hq].
    pose proof (page_fwd sdec mb q table_start_sep ltac:(reflexivity)) as Hpg.
    rewrite <- Hq in Hpg. rewrite (Hpg sdec_ok db db_sorted (body_of dt k c) n). fold bodies.
    set (pg := firstn n (stream ltf mb bodies (body_of dt k c))).
    rewrite map_length. unfold fs_next.
    destruct (length pg <? n)%nat; [reflexivity|].
    rewrite last_opt_map. destruct (last_opt pg) as [x|]; [|reflexivity]. cbn [option_map].
    unfold fs_enc, cursor_key. destruct (outb x) as [ikey icur].
    destruct (dt =? kv_type); [|reflexivity]. now destruct (extract_table ikey) as [[? ?]|].
  Qed.

  Lemma full_scan_call ctext : fs_good ctext ->
    full_scan_command compile db d (wrap_cursor table ctext) pat count =
    Ok (map outb (firstn n (stream ltf mb bodies (fs_nm ctext))),
        fs_next n fs_enc (firstn n (stream ltf mb bodies (fs_nm ctext)))).
  Proof.
    intro H. unfold full_scan_command, wrap_cursor.
    rewrite (index_of_app key_sep table ctext table_ok). now apply full_scan_page.
  Qed.

  Lemma bodies_sorted : sorted ltf bodies.
  Proof. apply (names_sorted ltf ltf_app). exact db_sorted. Qed.

  (* the result: the elements of the keys that match, from the start of the table on, in engine order *)
  Definition fs_result : list fs_item := map outb (filter mb (filter (fun s => bytes_ltb (body_of dt [] []) s) bodies)).

  Theorem fullscan_exact fuel :
    (length fs_result / n < fuel)%nat ->
    exists pages,
      iterate_fullscan compile fuel db d table pat count = (pages, Done) /\
      concat (map fst pages) = fs_result /\
      length pages = (length fs_result / n + 1)%nat.
  Proof.
    intro Hfuel. unfold iterate_fullscan.
    assert (fs_result = map outb (stream ltf mb bodies (fs_nm []))) as HR by reflexivity.
    rewrite HR in *. rewrite map_length in *.
    destruct (fs_iterate_plain mb bodies bodies_sorted n (eff_count_pos count count_pos) fs_nm fs_enc outb fs_good
                fs_nm_enc fs_enc_nonempty (fun x Hx => or_intror (ex_intro _ x (conj Hx eq_refl)))
                (fun c => full_scan_command compile db d (wrap_cursor table c) pat count) full_scan_call
                fuel [] (or_introl eq_refl) Hfuel) as [pages [H1 [H2 H3]]].
    exists pages. auto.
  Qed.
End Full.
