(* Scan/ProofsFullCodec.v — FULLSCAN on engine BYTES: over the byte image of a well-formed key universe (C12's
   codec model) the hypothesis of ProofsFull.fullscan_exact holds, and the result is exactly the elements of
   the keys of the addressed type and table. C12's table-range theorem identifies the owners of the engine
   keys under the table prefix. *)
From ZV Require Import Common.Bytes Common.BytesFacts Scan.Consts Scan.Model
     Scan.ProofsOrder Scan.ProofsIter Scan.ProofsRange Scan.Proofs Scan.ProofsB64 Scan.ProofsCodec Scan.ProofsFull.
From ZV Require Codec.Consts Codec.MemCmp Codec.Keys Codec.Spec Codec.Proofs.
From Coq Require Import Lia ZArith Sorting.Sorted.
Open Scope N_scope.

Module CK := ZV.Codec.Keys.
Module CS := ZV.Codec.Spec.
Module CM := ZV.Codec.MemCmp.
Module CP := ZV.Codec.ProofsKeys.
Module CR := ZV.Codec.ProofsKeyRanges.

Lemma incr_last_same k : incr_last k = CK.incr_last k.
Proof.
  induction k as [|x r IH]; [reflexivity|]. destruct r as [|y r]; [reflexivity|].
  change (incr_last (x :: y :: r)) with (x :: incr_last (y :: r)).
  change (CK.incr_last (x :: y :: r)) with (x :: CK.incr_last (y :: r)). now rewrite IH.
Qed.

Lemma table_prefix_same dt t : data_table_prefix dt t = CK.table_prefix dt t.
Proof. unfold data_table_prefix, CK.table_prefix. destruct (dt =? kv_type) eqn:E; change (dt =? Codec.Consts.kv_type) with (dt =? kv_type); rewrite E; [reflexivity|]. now rewrite be16_same. Qed.

(* what FULLSCAN returns for a key of the universe *)
Definition fs_item_of (x : CS.ekey) : fs_item :=
  match x with
  | CS.KKV t rk => (wrap_cursor t rk, [])
  | CS.KColl _ _ k sub => (k, sub)
  | CS.KList _ k seq => (k, CM.be 8 (CM.u64_of_z seq))
  | _ => ([], [])
  end.
(* the keys FULLSCAN of type dt and table t ranges over: that type and table, with a non-empty key name *)
Definition fs_member (dt : N) (t : bytes) (x : CS.ekey) : Prop :=
  CS.ekey_type x = dt /\ CS.ekey_table x = t /\
  match x with CS.KKV _ rk => rk <> [] | _ => True end.

Lemma decode_list_key_ok table k tail :
  N.of_nat (length table) < 65536 -> N.of_nat (length k) < 65536 -> length tail = 8%nat ->
  decode_list_key (data_table_prefix list_type table ++ be16 (length k) ++ k ++ tail) = Ok (k, tail).
Proof.
  intros Ht Hk Hl. unfold decode_list_key.
  change (data_table_prefix list_type table) with (table_prefix list_type table).
  rewrite (decode_table_prefix_ok list_type table _ Ht).
  destruct (be16_decode _ Hk) as [h [lo [Hb16 Hn]]]. rewrite Hb16. cbn [app]. rewrite Hn.
  rewrite app_length, Hl, Nat.eqb_refl. cbn [negb]. now rewrite firstn_exact, skipn_exact.
Qed.

Section FullStore.
  Variable xs : list CS.ekey.
  Hypothesis xs_wf : Forall CS.wf_ekey xs.
  Hypothesis xs_bytes : Forall (fun x => bytes_ok (CS.encode_ekey x) = true) xs.
  (* collections and lists have non-empty key names (common.CheckKey on the write path) *)
  Hypothesis xs_keys : Forall (fun x => match x with
                                        | CS.KColl _ _ k _ | CS.KList _ k _ => k <> []
                                        | _ => True end) xs.
  Variable d : dtype.
  Variable table : bytes.
  Hypothesis table_ok : ~ In key_sep table.
  Hypothesis table_len : N.of_nat (length table) < 65536.

  Let dt := fs_store_type d.
  Let P := data_table_prefix dt table.

  Lemma dt_table_type : CP.is_table_type dt = true.
  Proof. unfold dt. destruct d; reflexivity. Qed.

  Lemma bytes_ok_app_inv a b : bytes_ok (a ++ b) = true -> bytes_ok a = true /\ bytes_ok b = true.
  Proof. unfold bytes_ok. rewrite forallb_app. apply andb_true_iff. Qed.

  (* the owner of an engine key under the table prefix *)
  Lemma prefix_owner x s : In x xs -> CS.encode_ekey x = P ++ s -> CS.ekey_type x = dt /\ CS.ekey_table x = table.
  Proof.
    intros Hin He. rewrite Forall_forall in xs_wf.
    apply (CR.table_range_iff dt table x dt_table_type table_ok (xs_wf x Hin)).
    unfold CK.in_range, CK.encode_data_table_start, CK.encode_data_table_end.
    rewrite <- table_prefix_same, <- incr_last_same. fold P. rewrite He.
    apply andb_true_iff. split; [apply leb_prefix|].
    unfold P. rewrite data_table_prefix_snoc, incr_last_snoc, N.mod_small by (unfold table_start_sep; lia).
    apply extension_in_range.
  Qed.

  Lemma body_item x s : In x xs -> CS.encode_ekey x = P ++ s -> s <> [] ->
    decode_fs_item dt (P ++ s) = Ok (fs_item_of x) /\
    body_of dt (cursor_key dt (fst (fs_item_of x))) (snd (fs_item_of x)) = s /\
    cursor_key dt (fst (fs_item_of x)) <> [] /\
    bytes_ok (cursor_key dt (fst (fs_item_of x))) = true /\ bytes_ok (snd (fs_item_of x)) = true /\
    (dt =? list_type = true -> length (snd (fs_item_of x)) = 8%nat) /\
    fs_member dt table x.
  Proof.
    intros Hin He Hne. destruct (prefix_owner x s Hin He) as [Hty Htab].
    pose proof Hin as Hin0. rewrite Forall_forall in xs_wf, xs_bytes, xs_keys.
    pose proof (xs_wf x Hin) as Hw. pose proof (xs_bytes x Hin) as Hb. pose proof (xs_keys x Hin) as Hk.
    rewrite <- He.
    destruct x as [t rk|ty t rk|dt' t k sub|t k seq|t k sc m|t k i|t rk|t|it t|dt' r w|dt' r];
      cbn [CS.ekey_type CS.ekey_table] in Hty, Htab; subst t || idtac.
    - (* KKV *) assert (dt = kv_type) as Edt by (symmetry; exact Hty).
      assert (d = KV) as -> by (destruct d; try reflexivity; vm_compute in Edt; discriminate).
      cbn [CS.encode_ekey fs_item_of fst snd] in *.
      assert (s = rk) as ->.
      { unfold P, dt in He. cbn in He. unfold CK.encode_kv_key, CK.pack_redis_key in He.
        inversion He as [He']. rewrite <- app_assoc in He'. cbn [app] in He'.
        apply app_inv_head in He'. now inversion He'. }
      unfold decode_fs_item, cursor_key, body_of. cbn [fs_store_type]. rewrite !N.eqb_refl.
      change (CK.encode_kv_key (CK.pack_redis_key table rk)) with (encode_kv_key (wrap_cursor table rk)).
      unfold decode_kv_key, encode_kv_key. rewrite N.eqb_refl.
      rewrite extract_table_wrap by exact table_ok.
      unfold CK.encode_kv_key, CK.pack_redis_key in Hb. cbn [bytes_ok forallb] in Hb.
      apply andb_true_iff in Hb. destruct Hb as [_ Hb]. apply bytes_ok_app_inv in Hb. destruct Hb as [_ Hb].
      cbn [bytes_ok forallb] in Hb. apply andb_true_iff in Hb. destruct Hb as [_ Hb].
      repeat split; auto. intro E. vm_compute in E. discriminate.
    - (* KMeta *) exfalso. destruct Hw as [Hm _]. subst ty. destruct d; vm_compute in Hm; discriminate.
    - (* KColl *) destruct Hw as [Hc [_ Hk16]]. subst dt'.
      assert (is_coll_type dt = true) as Hc' by exact Hc.
      cbn [CS.encode_ekey fs_item_of fst snd] in *.
      rewrite <- coll_key_same in * by exact Hc'.
      assert ((dt =? kv_type) = false) as Ekv.
      { apply N.eqb_neq. intro E. rewrite E in Hc'. vm_compute in Hc'. discriminate. }
      assert ((dt =? list_type) = false) as El.
      { apply N.eqb_neq. intro E. rewrite E in Hc'. vm_compute in Hc'. discriminate. }
      assert (s = be16 (length k) ++ k ++ coll_start_sep :: sub) as ->.
      { assert (coll_key dt table k sub = P ++ (be16 (length k) ++ k ++ coll_start_sep :: sub)) as Ec.
        { unfold coll_key, coll_prefix, table_prefix, P, data_table_prefix. rewrite Ekv. cbn [app].
          repeat rewrite <- app_assoc. reflexivity. }
        rewrite Ec in He. apply app_inv_head in He. now symmetry. }
      unfold decode_fs_item. rewrite Ekv, El.
      rewrite (decode_coll_sub_key_ok dt table k sub Hc' table_len Hk16). rewrite N.eqb_refl.
      unfold cursor_key, body_of. rewrite Ekv, El.
      unfold coll_key, coll_prefix in Hb.
      assert (bytes_ok k = true /\ bytes_ok sub = true) as [Hbk Hbs].
      { apply bytes_ok_app_inv in Hb. destruct Hb as [Hb Hbs]. split; [|exact Hbs].
        apply bytes_ok_app_inv in Hb. destruct Hb as [_ Hb]. apply bytes_ok_app_inv in Hb. destruct Hb as [_ Hb].
        apply bytes_ok_app_inv in Hb. tauto. }
      repeat split; auto. congruence.
    - (* KList *) destruct Hw as [_ [Hk16 _]].
      assert (dt = list_type) as Edt by (symmetry; exact Hty).
      assert (d = LIST) as Ed by (destruct d; try reflexivity; vm_compute in Edt; discriminate).
      cbn [CS.encode_ekey fs_item_of fst snd] in *.
      pose proof (ZV.Codec.ProofsNum.be_length 8 (CM.u64_of_z seq)) as Hl8.
      set (tail := CM.be 8 (CM.u64_of_z seq)) in *.
      assert (CK.l_encode_list_key table k seq = P ++ be16 (length k) ++ k ++ tail) as Ec.
      { unfold CK.l_encode_list_key, P. rewrite <- table_prefix_same, <- be16_same. rewrite Edt. reflexivity. }
      rewrite Ec in *. apply app_inv_head in He. subst s.
      assert (tail <> []) as Htl by (intro E; rewrite E in Hl8; discriminate).
      unfold decode_fs_item, cursor_key, body_of. rewrite Edt.
      change (list_type =? kv_type) with false. rewrite N.eqb_refl.
      unfold P. rewrite Edt. rewrite (decode_list_key_ok table k tail table_len Hk16 Hl8).
      assert (bytes_ok k = true /\ bytes_ok tail = true) as [Hbk Hbs].
      { apply bytes_ok_app_inv in Hb. destruct Hb as [_ Hb]. apply bytes_ok_app_inv in Hb. destruct Hb as [_ Hb].
        apply bytes_ok_app_inv in Hb. tauto. }
      destruct tail as [|b0 br] eqn:Et; [congruence|].
      repeat split; auto; congruence.
    - exfalso. destruct d; vm_compute in Hty; discriminate.
    - exfalso. destruct d; vm_compute in Hty; discriminate.
    - exfalso. destruct d; vm_compute in Hty; discriminate.
    - exfalso. destruct d; vm_compute in Hty; discriminate.
    - exfalso. destruct d; vm_compute in Hty; discriminate.
    - exfalso. destruct d; vm_compute in Hty; discriminate.
    - exfalso. destruct d; vm_compute in Hty; discriminate.
  Qed.

  Lemma bodies_wf_store : forall s, In s (bodies (store_of xs) d table) -> exists key cur,
    decode_fs_item dt (P ++ s) = Ok (key, cur) /\
    body_of dt (cursor_key dt key) cur = s /\
    cursor_key dt key <> [] /\ bytes_ok (cursor_key dt key) = true /\ bytes_ok cur = true /\
    (dt =? list_type = true -> length cur = 8%nat).
  Proof.
    intros s Hs. unfold bodies in Hs. apply names_in in Hs. destruct Hs as [Hne Hin].
    unfold store_of in Hin. apply in_map_iff in Hin. destruct Hin as [x [He Hx]].
    destruct (body_item x s Hx He Hne) as [H1 [H2 [H3 [H4 [H5 [H6 _]]]]]].
    exists (fst (fs_item_of x)), (snd (fs_item_of x)). rewrite <- surjective_pairing. repeat split; assumption.
  Qed.
End FullStore.

(* ---------- the headline theorem ---------- *)

Lemma be16_above_zero n a b : 0 < N.of_nat n < 65536 -> bytes_ltb (0 :: 0 :: a) (be16 n ++ b) = true.
Proof.
  intro H. unfold be16. set (v := N.of_nat n) in *. cbn [app]. unfold bytes_ltb. cbn [bytes_cmp].
  assert (v / 256 < 256) as Hd by (apply N.div_lt_upper_bound; lia).
  rewrite (N.mod_small (v / 256)) by exact Hd.
  destruct (0 ?= v / 256) eqn:E1.
  - apply N.compare_eq in E1.
    assert (v mod 256 = v) as Hm by (apply N.mod_small; pose proof (N.div_mod' v 256); lia).
    rewrite Hm. destruct (0 ?= v) eqn:E2; [apply N.compare_eq in E2; lia|reflexivity|].
    rewrite N.compare_gt_iff in E2. lia.
  - reflexivity.
  - rewrite N.compare_gt_iff in E1. lia.
Qed.

Section FullStoreThm.
  Variable compile : bytes -> option (bytes -> bool).
  Variable xs : list CS.ekey.
  Hypothesis xs_wf : Forall CS.wf_ekey xs.
  Hypothesis xs_bytes : Forall (fun x => bytes_ok (CS.encode_ekey x) = true) xs.
  Hypothesis xs_keys : Forall (fun x => match x with
                                        | CS.KColl _ _ k _ | CS.KList _ k _ => k <> []
                                        | _ => True end) xs.
  Hypothesis xs_sorted : sorted_db (store_of xs).
  Variables (d : dtype) (table pat : bytes) (mk : bytes -> bool) (count : Z).
  Hypothesis table_ok : ~ In key_sep table.
  Hypothesis table_len : N.of_nat (length table) < 65536.
  Hypothesis pat_ok : matcher compile pat = Some mk.
  Hypothesis count_pos : (1 <= count)%Z.

  Let dt := fs_store_type d.
  Let P := data_table_prefix dt table.

  (* the engine key of a member is the table prefix followed by a body beyond the start of the table *)
  Lemma member_body x : In x xs -> fs_member dt table x ->
    exists s, CS.encode_ekey x = P ++ s /\ s <> [] /\ bytes_ltb (body_of dt [] []) s = true.
  Proof.
    intros Hin [Hty [Htab Hne]]. rewrite Forall_forall in xs_wf, xs_keys.
    pose proof (xs_wf x Hin) as Hw. pose proof (xs_keys x Hin) as Hk.
    destruct x as [t rk|ty t rk|dt' t k sub|t k seq|t k sc m|t k i|t rk|t|it t|dt' r w|dt' r];
      cbn [CS.ekey_type CS.ekey_table] in Hty, Htab; subst t || idtac.
    - assert (dt = kv_type) as Edt by (symmetry; exact Hty).
      exists rk. cbn [CS.encode_ekey]. unfold P, body_of. rewrite Edt. cbn.
      split; [unfold CK.encode_kv_key, CK.pack_redis_key; now rewrite <- app_assoc|].
      split; [exact Hne|]. destruct rk; [congruence|reflexivity].
    - exfalso. destruct Hw as [Hm _]. subst ty. destruct d; vm_compute in Hm; discriminate.
    - destruct Hw as [Hc [_ Hk16]]. subst dt'. assert (is_coll_type dt = true) as Hc' by exact Hc.
      assert ((dt =? kv_type) = false) as Ekv by (apply N.eqb_neq; intro E; rewrite E in Hc'; vm_compute in Hc'; discriminate).
      assert ((dt =? list_type) = false) as El by (apply N.eqb_neq; intro E; rewrite E in Hc'; vm_compute in Hc'; discriminate).
      exists (be16 (length k) ++ k ++ coll_start_sep :: sub). cbn [CS.encode_ekey].
      rewrite <- coll_key_same by exact Hc'. split.
      { unfold coll_key, coll_prefix, table_prefix, P, data_table_prefix. rewrite Ekv. cbn [app].
        repeat rewrite <- app_assoc. reflexivity. }
      split; [unfold be16; discriminate|].
      unfold body_of. rewrite Ekv, El. cbn [length be16 app]. change (N.of_nat 0 / 256 mod 256) with 0.
      change (N.of_nat 0 mod 256) with 0.
      apply be16_above_zero. unfold CS.len16 in Hk16. destruct k; [congruence|cbn [length] in *; lia].
    - destruct Hw as [_ [Hk16 _]]. assert (dt = list_type) as Edt by (symmetry; exact Hty).
      exists (be16 (length k) ++ k ++ CM.be 8 (CM.u64_of_z seq)). cbn [CS.encode_ekey]. split.
      { unfold CK.l_encode_list_key, P. rewrite <- table_prefix_same, <- be16_same. rewrite Edt. reflexivity. }
      split; [unfold be16; discriminate|].
      unfold body_of. rewrite Edt. change (list_type =? kv_type) with false. rewrite N.eqb_refl.
      cbn [length be16 app]. change (N.of_nat 0 / 256 mod 256) with 0. change (N.of_nat 0 mod 256) with 0.
      apply be16_above_zero. unfold CS.len16 in Hk16. destruct k; [congruence|cbn [length] in *; lia].
    - exfalso. destruct d; vm_compute in Hty; discriminate.
    - exfalso. destruct d; vm_compute in Hty; discriminate.
    - exfalso. destruct d; vm_compute in Hty; discriminate.
    - exfalso. destruct d; vm_compute in Hty; discriminate.
    - exfalso. destruct d; vm_compute in Hty; discriminate.
    - exfalso. destruct d; vm_compute in Hty; discriminate.
    - exfalso. destruct d; vm_compute in Hty; discriminate.
  Qed.

  Theorem fullscan_store fuel :
    (length xs / eff_count count < fuel)%nat ->
    exists pages,
      iterate_fullscan compile fuel (store_of xs) d table pat count = (pages, Done) /\
      (forall it, In it (concat (map fst pages)) <->
         exists x, In x xs /\ fs_member dt table x /\ fs_item_of x = it /\ mk (fst it) = true) /\
      (length pages <= length xs / eff_count count + 1)%nat.
  Proof.
    intro Hfuel.
    pose proof (bodies_wf_store xs xs_wf xs_bytes xs_keys d table table_ok table_len) as Hwf.
    pose proof (eff_count_pos count count_pos) as Hn.
    set (R := fs_result (store_of xs) d table mk).
    assert (length R <= length xs)%nat as HR.
    { unfold R, fs_result. rewrite map_length. etransitivity; [apply filter_length_le|].
      etransitivity; [apply filter_length_le|]. unfold bodies. etransitivity; [apply names_length|].
      unfold store_of. now rewrite map_length. }
    destruct (fullscan_exact compile (store_of xs) d table pat mk count xs_sorted table_ok pat_ok count_pos Hwf fuel)
      as [pages [Hit [Hcat Hcnt]]]; [fold R; now apply (div_fuel _ _ _ _ Hn HR)|].
    fold R in Hcat, Hcnt. exists pages. split; [exact Hit|]. rewrite Hcat. split.
    - intro it. unfold R, fs_result. rewrite in_map_iff. split.
      + intros [s [Ho Hs]]. apply filter_In in Hs. destruct Hs as [Hs Hmb]. apply filter_In in Hs. destruct Hs as [Hs _].
        pose proof Hs as Hs0. unfold bodies in Hs. apply names_in in Hs. destruct Hs as [Hne Hin].
        unfold store_of in Hin. apply in_map_iff in Hin. destruct Hin as [x [He Hx]].
        destruct (body_item xs xs_wf xs_bytes xs_keys d table table_ok table_len x s Hx He Hne) as [Hd [_ [_ [_ [_ [_ Hmem]]]]]].
        exists x. split; [exact Hx|]. split; [exact Hmem|].
        assert (outb d table s = fs_item_of x) as Hos by (unfold outb; now rewrite Hd).
        split; [now rewrite <- Ho, Hos|]. rewrite <- Ho. unfold mb in Hmb. exact Hmb.
      + intros [x [Hx [Hmem [Hi Hm]]]]. destruct (member_body x Hx Hmem) as [s [He [Hne Hstart]]].
        destruct (body_item xs xs_wf xs_bytes xs_keys d table table_ok table_len x s Hx He Hne) as [Hd _].
        assert (outb d table s = fs_item_of x) as Hos by (unfold outb; now rewrite Hd).
        exists s. split; [now rewrite Hos|].
        apply filter_In. split; [apply filter_In; split; [|exact Hstart]|].
        * unfold bodies. apply names_in. split; [exact Hne|]. unfold store_of. apply in_map_iff. exists x. auto.
        * unfold mb. rewrite Hos, Hi. exact Hm.
    - rewrite Hcnt. assert (length R / eff_count count <= length xs / eff_count count)%nat by (apply Nat.div_le_mono; lia). lia.
  Qed.
End FullStoreThm.
