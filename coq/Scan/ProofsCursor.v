(* Scan/ProofsCursor.v — the text of the merged cursor (server/scan_merge.go doMergeScan / decodeScanCursor):
   what a reply encodes is what the next request decodes, given of encoding/base64 and strconv only that
   decoding inverts encoding and that their output contains neither ':' nor ';'. *)
From ZV Require Import Common.Bytes Common.BytesFacts Scan.Consts Scan.Model Scan.ProofsOrder Scan.ProofsB64.
From Coq Require Import Lia.
Open Scope N_scope.


Lemma split_all_no_sep sep s : ~ In sep s -> split_all sep s = [s].
Proof.
  induction s as [|x r IH]; intro H; [reflexivity|]. cbn [split_all].
  destruct (x =? sep) eqn:E; [apply N.eqb_eq in E; subst; exfalso; apply H; now left|].
  rewrite IH; [reflexivity|]. intro Hx. apply H. now right.
Qed.

Lemma split_all_app sep a rest : ~ In sep a -> split_all sep (a ++ sep :: rest) = a :: split_all sep rest.
Proof.
  induction a as [|x a IH]; intro H; cbn [app split_all].
  - now rewrite N.eqb_refl.
  - destruct (x =? sep) eqn:E; [apply N.eqb_eq in E; subst; exfalso; apply H; now left|].
    rewrite IH; [reflexivity|]. intro Hx. apply H. now right.
Qed.

Lemma trim_right_snoc sep s : (forall t, s <> t ++ [sep]) -> trim_right sep (s ++ [sep]) = s.
Proof.
  induction s as [|x r IH]; intro H.
  - cbn. now rewrite N.eqb_refl.
  - cbn [app trim_right]. rewrite IH.
    + destruct r as [|y r']; [|reflexivity].
      destruct (x =? sep) eqn:E; [|reflexivity]. apply N.eqb_eq in E. subst. exfalso. apply (H []). reflexivity.
    + intros t Ht. apply (H (x :: t)). now rewrite Ht.
Qed.

Section CursorProofs.
  Variable b64 : bytes -> bytes.
  Variable b64dec : bytes -> option bytes.
  Variable itoa : nat -> bytes.
  Variable atoi : bytes -> option nat.
  (* the partition ids the decimal conversion is known to round-trip *)
  Variable okp : nat -> Prop.
  (* what is used of base64 and of the decimal conversion *)
  Hypothesis b64_inv : forall x, bytes_ok x = true -> b64dec (b64 x) = Some x.
  Hypothesis b64_alphabet : forall x, ~ In scan_node_sep (b64 x) /\ ~ In scan_cursor_sep (b64 x).
  Hypothesis b64_bytes : forall x, bytes_ok (b64 x) = true.
  Hypothesis b64_nonempty : forall x, x <> [] -> b64 x <> [].
  Hypothesis atoi_inv : forall p, okp p -> atoi (itoa p) = Some p.
  Hypothesis itoa_digits : forall p, okp p ->
    ~ In scan_node_sep (itoa p) /\ ~ In scan_cursor_sep (itoa p) /\ bytes_ok (itoa p) = true.

  Definition mcursor_ok (mc : mcursor) : Prop := Forall (fun t => okp (fst t) /\ bytes_ok (snd t) = true) mc.

  Lemma piece_no_cursor_sep p c : okp p -> ~ In scan_cursor_sep (itoa p ++ scan_node_sep :: b64 c).
  Proof.
    intros Hp H. apply in_app_or in H. destruct H as [H|[H|H]].
    - now apply (proj1 (proj2 (itoa_digits p Hp))).
    - discriminate.
    - now apply (proj2 (b64_alphabet c)).
  Qed.

  Lemma bytes_ok_app a b : bytes_ok (a ++ b) = bytes_ok a && bytes_ok b.
  Proof. unfold bytes_ok. apply forallb_app. Qed.

  Lemma segments_bytes mc : mcursor_ok mc -> bytes_ok (cursor_segments b64 itoa mc) = true.
  Proof.
    induction 1 as [|[p c] r [Hp Hc] _ IH]; [reflexivity|].
    cbn [cursor_segments fst snd] in *. rewrite bytes_ok_app. cbn [bytes_ok forallb].
    fold (bytes_ok (b64 c ++ scan_cursor_sep :: cursor_segments b64 itoa r)).
    rewrite bytes_ok_app. cbn [bytes_ok forallb]. fold (bytes_ok (cursor_segments b64 itoa r)).
    rewrite (proj2 (proj2 (itoa_digits p Hp))), b64_bytes, IH. reflexivity.
  Qed.

  (* the pieces between the ';' are the per-partition segments *)
  Lemma split_segments : forall mc, mcursor_ok mc -> mc <> [] ->
    exists body, cursor_segments b64 itoa mc = body ++ [scan_cursor_sep] /\
                 (forall t, body <> t ++ [scan_cursor_sep]) /\
                 split_all scan_cursor_sep body = map (fun t => itoa (fst t) ++ scan_node_sep :: b64 (snd t)) mc.
  Proof.
    induction mc as [|[p c] r IH]; intros Hok Hne; [congruence|].
    inversion Hok as [|t0 r0 [Hp _] Hokr]; subst. cbn [fst] in Hp.
    cbn [cursor_segments]. destruct r as [|t r'].
    - exists (itoa p ++ scan_node_sep :: b64 c). cbn [cursor_segments map fst snd].
      split; [now rewrite <- app_assoc|]. split.
      + intros t Ht. apply (piece_no_cursor_sep p c Hp). rewrite Ht. apply in_or_app. right. now left.
      + apply split_all_no_sep. now apply piece_no_cursor_sep.
    - destruct IH as [body [Hb [Hlast Hs]]]; [exact Hokr|discriminate|].
      exists ((itoa p ++ scan_node_sep :: b64 c) ++ scan_cursor_sep :: body). split.
      + rewrite Hb. rewrite <- !app_assoc. cbn [app]. reflexivity.
      + split.
        * intros t0 Ht.
          assert (body <> []) as Hbn.
          { intros ->. destruct t as [p' c']. cbn [cursor_segments app] in Hb.
            destruct (itoa p') as [|d0 ds]; cbn [app] in Hb.
            - first [ now inversion Hb | inversion Hb as [[H1 H2]]; vm_compute in H1; discriminate ].
            - first [ now inversion Hb | inversion Hb as [[H1 H2]]; destruct ds; discriminate ]. }
          destruct (exists_last Hbn) as [b' [z Hz]]. rewrite Hz in Ht.
          assert (z = scan_cursor_sep) as ->.
          { rewrite app_comm_cons, app_assoc in Ht. apply app_inj_tail in Ht. tauto. }
          now apply (Hlast b').
        * rewrite split_all_app by (now apply piece_no_cursor_sep). cbn [map fst snd]. now rewrite Hs.
  Qed.

  Lemma decode_segments_ok : forall mc, mcursor_ok mc ->
    decode_segments b64dec atoi (map (fun t => itoa (fst t) ++ scan_node_sep :: b64 (snd t)) mc) = Ok mc.
  Proof.
    induction 1 as [|[p c] r [Hp Hc] _ IH]; [reflexivity|]. cbn [map decode_segments fst snd] in *.
    rewrite split_all_app by apply (proj1 (itoa_digits p Hp)).
    rewrite split_all_no_sep by apply (proj1 (b64_alphabet c)).
    now rewrite (b64_inv c Hc), (atoi_inv p Hp), IH.
  Qed.

  (* the cursor text a reply carries is decoded by the next request into the same partitions and cursors *)
  Theorem mcursor_roundtrip table mc :
    table <> [] -> ~ In scan_node_sep table -> mc <> [] -> mcursor_ok mc ->
    decode_scan_cursor b64dec atoi (table ++ scan_node_sep :: encode_mcursor b64 itoa mc) = Ok (table, mc).
  Proof.
    intros Ht Hsep Hmc Hok. unfold decode_scan_cursor, encode_mcursor.
    rewrite split_all_app by exact Hsep.
    rewrite split_all_no_sep by apply (proj1 (b64_alphabet _)).
    destruct table as [|t0 tb]; [congruence|].
    destruct (split_segments mc Hok Hmc) as [body [Hb [Hlast Hs]]].
    assert (cursor_segments b64 itoa mc <> []) as Hne by (rewrite Hb; destruct body; discriminate).
    pose proof (b64_nonempty _ Hne) as Hne2.
    destruct (b64 (cursor_segments b64 itoa mc)) as [|e0 er] eqn:Eb; [congruence|].
    rewrite <- Eb, (b64_inv _ (segments_bytes mc Hok)), Hb, (trim_right_snoc _ _ Hlast), Hs, (decode_segments_ok mc Hok).
    reflexivity.
  Qed.

  (* the empty cursor (first request, and the end of the iteration) *)
  Lemma mcursor_empty table :
    table <> [] -> ~ In scan_node_sep table ->
    decode_scan_cursor b64dec atoi (table ++ [scan_node_sep]) = Ok (table, []).
  Proof.
    intros Ht Hsep. unfold decode_scan_cursor.
    rewrite split_all_app by exact Hsep. cbn [split_all]. destruct table; [congruence|reflexivity].
  Qed.
End CursorProofs.

(* ---------- with the base64 and decimal functions of the model ---------- *)

Definition real_mcursor_ok (mc : mcursor) : Prop :=
  Forall (fun t => (fst t < pid_bound)%nat /\ bytes_ok (snd t) = true) mc.

Theorem real_mcursor_roundtrip table mc :
  table <> [] -> ~ In scan_node_sep table -> mc <> [] -> real_mcursor_ok mc ->
  decode_scan_cursor b64dec atoi (table ++ scan_node_sep :: encode_mcursor b64enc itoa mc) = Ok (table, mc).
Proof.
  apply (mcursor_roundtrip b64enc b64dec itoa atoi (fun p => (p < pid_bound)%nat)
           b64dec_enc b64enc_alphabet b64enc_ok b64enc_nonempty).
  - intros p Hp. exact (proj1 (itoa_spec p Hp)).
  - intros p Hp. pose proof (proj2 (itoa_spec p Hp)) as Hd. rewrite Forall_forall in Hd.
    repeat split.
    + intro Hin. specialize (Hd _ Hin). unfold scan_node_sep in Hd. lia.
    + intro Hin. specialize (Hd _ Hin). unfold scan_cursor_sep in Hd. lia.
    + apply forallb_forall. intros x Hin. specialize (Hd _ Hin). apply N.ltb_lt. lia.
Qed.
