(* Scan/ProofsCursor.v — the text of the merged cursor (server/scan_merge.go doMergeScan / decodeScanCursor):
   what a reply encodes is what the next request decodes, given of encoding/base64 and strconv only that
   decoding inverts encoding and that their output contains neither ':' nor ';'. *)
From ZV Require Import Common.Bytes Common.BytesFacts Scan.Consts Scan.Model Scan.ProofsOrder.
From Coq Require Import Lia.
Open Scope N_scope.


Lemma split_all_no_sep sep s : ~ In sep s -> split_all sep s = [s].
Proof.
  induction s as [|x r IH]; intro H; [reflexivity|]. cbn [split_all].
  destruct (x =? sep) eqn:E; [apply N.eqb_eq in E; subst; exfalso; apply H; now left|].
  rewrite IH; [reflexivity|]. intro Hx. apply H. now right.
Qed.

Lemma split_all_app sep a rest : ~ In sep a -> split_all sep (a ++ sep :: rest) = a :: split_all sep rest.
Proof.
  induction a as [|x a IH]; intro H; cbn [app split_all].
  - now rewrite N.eqb_refl.
  - destruct (x =? sep) eqn:E; [apply N.eqb_eq in E; subst; exfalso; apply H; now left|].
    rewrite IH; [reflexivity|]. intro Hx. apply H. now right.
Qed.

Lemma trim_right_snoc sep s : (forall t, s <> t ++ [sep]) -> trim_right sep (s ++ [sep]) = s.
Proof.
  induction s as [|x r IH]; intro H.
  - cbn. now rewrite N.eqb_refl.
  - cbn [app trim_right]. rewrite IH.
    + destruct r as [|y r']; [|reflexivity].
      destruct (x =? sep) eqn:E; [|reflexivity]. apply N.eqb_eq in E. subst. exfalso. apply (H []). reflexivity.
    + intros t Ht. apply (H (x :: t)). now rewrite Ht.
Qed.

Section CursorProofs.
  Variable b64 : bytes -> bytes.
  Variable b64dec : bytes -> option bytes.
  Variable itoa : nat -> bytes.
  Variable atoi : bytes -> option nat.
  (* what is used of base64 and of the decimal conversion *)
  Hypothesis b64_inv : forall x, b64dec (b64 x) = Some x.
  Hypothesis b64_alphabet : forall x, ~ In scan_node_sep (b64 x) /\ ~ In scan_cursor_sep (b64 x).
  Hypothesis b64_nonempty : forall x, x <> [] -> b64 x <> [].
  Hypothesis atoi_inv : forall p, atoi (itoa p) = Some p.
  Hypothesis itoa_digits : forall p, ~ In scan_node_sep (itoa p) /\ ~ In scan_cursor_sep (itoa p).

  Lemma piece_no_scan_cursor_sep p c : ~ In scan_cursor_sep (itoa p ++ scan_node_sep :: b64 c).
  Proof.
    intro H. apply in_app_or in H. destruct H as [H|[H|H]].
    - now apply (proj2 (itoa_digits p)).
    - discriminate.
    - now apply (proj2 (b64_alphabet c)).
  Qed.

  (* the pieces between the ';' are the per-partition segments *)
  Lemma split_segments : forall mc, mc <> [] ->
    exists body, cursor_segments b64 itoa mc = body ++ [scan_cursor_sep] /\
                 (forall t, body <> t ++ [scan_cursor_sep]) /\
                 split_all scan_cursor_sep body = map (fun t => itoa (fst t) ++ scan_node_sep :: b64 (snd t)) mc.
  Proof.
    induction mc as [|[p c] r IH]; intro Hne; [congruence|].
    cbn [cursor_segments]. destruct r as [|t r'].
    - exists (itoa p ++ scan_node_sep :: b64 c). cbn [cursor_segments map fst snd].
      split; [now rewrite <- app_assoc|]. split.
      + intros t Ht. apply (piece_no_scan_cursor_sep p c). rewrite Ht. apply in_or_app. right. now left.
      + apply split_all_no_sep. apply piece_no_scan_cursor_sep.
    - destruct IH as [body [Hb [Hlast Hs]]]; [discriminate|].
      exists ((itoa p ++ scan_node_sep :: b64 c) ++ scan_cursor_sep :: body). split.
      + rewrite Hb. rewrite <- !app_assoc. cbn [app]. reflexivity.
      + split.
        * intros t0 Ht. 
          assert (body <> []) as Hbn.
          { intros ->. destruct t as [p' c']. cbn [cursor_segments app] in Hb.
            destruct (itoa p') as [|d0 ds]; cbn [app] in Hb.
            - first [ now inversion Hb | inversion Hb as [[H1 H2]]; vm_compute in H1; discriminate ].
            - first [ now inversion Hb | inversion Hb as [[H1 H2]]; destruct ds; discriminate ]. }
          destruct (exists_last Hbn) as [b' [z Hz]]. rewrite Hz in Ht.
          assert (z = scan_cursor_sep) as ->.
          { rewrite app_comm_cons, app_assoc in Ht. apply app_inj_tail in Ht. tauto. }
          now apply (Hlast b').
        * rewrite split_all_app by apply piece_no_scan_cursor_sep. cbn [map fst snd]. now rewrite Hs.
  Qed.

  Lemma decode_segments_ok : forall mc,
    decode_segments b64dec atoi (map (fun t => itoa (fst t) ++ scan_node_sep :: b64 (snd t)) mc) = Ok mc.
  Proof.
    induction mc as [|[p c] r IH]; [reflexivity|]. cbn [map decode_segments fst snd].
    rewrite split_all_app by apply (proj1 (itoa_digits p)).
    rewrite split_all_no_sep by apply (proj1 (b64_alphabet c)).
    now rewrite b64_inv, atoi_inv, IH.
  Qed.

  (* the cursor text a reply carries is decoded by the next request into the same partitions and cursors *)
  Theorem mcursor_roundtrip table mc :
    table <> [] -> ~ In scan_node_sep table -> mc <> [] ->
    decode_scan_cursor b64dec atoi (table ++ scan_node_sep :: encode_mcursor b64 itoa mc) = Ok (table, mc).
  Proof.
    intros Ht Hsep Hmc. unfold decode_scan_cursor, encode_mcursor.
    rewrite split_all_app by exact Hsep.
    rewrite split_all_no_sep by apply (proj1 (b64_alphabet _)).
    destruct table as [|t0 tb]; [congruence|].
    destruct (split_segments mc Hmc) as [body [Hb [Hlast Hs]]].
    assert (cursor_segments b64 itoa mc <> []) as Hne by (rewrite Hb; destruct body; discriminate).
    pose proof (b64_nonempty _ Hne) as Hne2.
    destruct (b64 (cursor_segments b64 itoa mc)) as [|e0 er] eqn:Eb; [congruence|].
    rewrite <- Eb, b64_inv, Hb, (trim_right_snoc _ _ Hlast), Hs, decode_segments_ok. reflexivity.
  Qed.

  (* the empty cursor (first request, and the end of the iteration) *)
  Lemma mcursor_empty table :
    table <> [] -> ~ In scan_node_sep table ->
    decode_scan_cursor b64dec atoi (table ++ [scan_node_sep]) = Ok (table, []).
  Proof.
    intros Ht Hsep. unfold decode_scan_cursor.
    rewrite split_all_app by exact Hsep. cbn [split_all]. destruct table; [congruence|reflexivity].
  Qed.
End CursorProofs.
