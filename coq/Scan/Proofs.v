(* Scan/Proofs.v — C13: the scan commands of the model, iterated by cursor, enumerate exactly the
   addressed elements, once, in order, in |result|/COUNT + 1 calls. *)
From ZV Require Import Common.Bytes Common.BytesFacts Scan.Consts Scan.Model
     Scan.ProofsOrder Scan.ProofsIter Scan.ProofsRange.
From Coq Require Import Sorting.Sorted Lia PeanoNat ZArith Znat.
Open Scope N_scope.

(* ---------- COUNT ---------- *)

(* the page size in force for COUNT >= 1 *)
Definition eff_count (count : Z) : nat := Z.to_nat (Z.min count (Z.of_N node_max_batch_num)).

Lemma count_norm count : (1 <= count)%Z ->
  (0 < clamp_count count)%Z /\
  N.to_nat (check_scan_count (clamp_count count)) = eff_count count /\
  Z.of_nat (eff_count count) = clamp_count count.
Proof.
  intro H. unfold clamp_count, check_scan_count, eff_count.
  change (Z.of_N node_max_batch_num) with 5000%Z. change (Z.of_N max_batch_num) with 5000%Z.
  destruct (Z.ltb_spec count 0); [lia|].
  destruct (Z.ltb_spec 5000 count).
  - change (5000 <=? 0)%Z with false. change (5000 <? 5000)%Z with false. cbn match.
    rewrite Z_N_nat. rewrite Z.min_r by lia. repeat split; lia.
  - destruct (Z.leb_spec count 0); [lia|]. destruct (Z.ltb_spec 5000 count); [lia|].
    rewrite Z_N_nat. rewrite Z.min_l by lia. repeat split; lia.
Qed.

Lemma eff_count_pos count : (1 <= count)%Z -> (0 < eff_count count)%nat.
Proof. intro H. destruct (count_norm count H) as [H1 [_ H3]]. lia. Qed.

Lemma next_cursor_spec ay count f : (1 <= count)%Z ->
  next_cursor ay (clamp_count count) f =
  Ok (if (length ay <? eff_count count)%nat then []
      else match last_opt ay with Some x => f x | None => [] end).
Proof.
  intro H. destruct (count_norm count H) as [H1 [_ H3]]. unfold next_cursor.
  rewrite <- H3.
  replace (Z.of_nat (eff_count count) =? 0)%Z with false by (symmetry; apply Z.eqb_neq; lia).
  rewrite orb_false_r.
  destruct (Nat.ltb_spec (length ay) (eff_count count)) as [Hl|Hl].
  - replace (Z.of_nat (length ay) <? Z.of_nat (eff_count count))%Z with true
      by (symmetry; apply Z.ltb_lt; lia). reflexivity.
  - replace (Z.of_nat (length ay) <? Z.of_nat (eff_count count))%Z with false
      by (symmetry; apply Z.ltb_ge; lia).
    destruct ay as [|a ay']; [cbn in Hl; lia|].
    destruct (last_opt_some (a :: ay')) as [x ->]; [discriminate|]. reflexivity.
Qed.

(* ---------- decoding what was encoded ---------- *)

Lemma skipn_exact {A} (l r : list A) : skipn (length l) (l ++ r) = r.
Proof. induction l; [reflexivity|exact IHl]. Qed.
Lemma firstn_exact {A} (l r : list A) : firstn (length l) (l ++ r) = l.
Proof. induction l; [reflexivity|]. cbn. now rewrite IHl. Qed.

Lemma be16_decode n : N.of_nat n < 65536 ->
  exists h lo, be16 n = [h; lo] /\ N.to_nat (h * 256 + lo) = n.
Proof.
  intro H. unfold be16. eexists. eexists. split; [reflexivity|].
  set (v := N.of_nat n) in *. assert (v < 65536) as Hv by exact H.
  assert (v / 256 < 256) as Hd by (apply N.div_lt_upper_bound; lia).
  rewrite (N.mod_small (v / 256)) by exact Hd.
  pose proof (N.div_mod' v 256) as Hdm.
  replace (v / 256 * 256 + v mod 256) with v by lia. unfold v. apply Nat2N.id.
Qed.

Lemma decode_table_prefix_ok dt table rest : N.of_nat (length table) < 65536 ->
  decode_table_prefix (table_prefix dt table ++ rest) dt = Ok (table, rest).
Proof.
  intro H. destruct (be16_decode _ H) as [h [lo [Hb Hn]]].
  unfold table_prefix. rewrite Hb. cbn [app decode_table_prefix].
  rewrite N.eqb_refl. cbn [negb]. rewrite Hn.
  rewrite <- app_assoc. cbn [app].
  replace (length (table ++ table_start_sep :: rest) <? length table)%nat with false
    by (symmetry; apply Nat.ltb_ge; rewrite app_length; lia).
  rewrite skipn_exact, firstn_exact. rewrite N.eqb_refl. reflexivity.
Qed.

Lemma decode_coll_elem_ok dt table key s :
  is_coll_type dt = true -> N.of_nat (length table) < 65536 -> N.of_nat (length key) < 65536 ->
  decode_coll_elem dt (coll_prefix dt table key ++ s) = Ok s.
Proof.
  intros Hdt Ht Hk. unfold decode_coll_elem, decode_coll_sub_key.
  assert (coll_prefix dt table key ++ s =
          table_prefix dt table ++ (be16 (length key) ++ key ++ coll_start_sep :: s)) as E.
  { unfold coll_prefix. repeat rewrite <- app_assoc. reflexivity. }
  rewrite E.
  assert (exists r, table_prefix dt table ++ (be16 (length key) ++ key ++ coll_start_sep :: s) = dt :: r) as [r Er]
    by (unfold table_prefix; eexists; reflexivity).
  rewrite Er. rewrite Hdt. cbn [negb]. rewrite <- Er.
  rewrite decode_table_prefix_ok by exact Ht.
  destruct (be16_decode _ Hk) as [h [lo [Hb Hn]]]. rewrite Hb. cbn [app]. rewrite Hn.
  replace (length (key ++ coll_start_sep :: s) <? length key)%nat with false
    by (symmetry; apply Nat.ltb_ge; rewrite app_length; lia).
  rewrite skipn_exact, firstn_exact. rewrite !N.eqb_refl. reflexivity.
Qed.

(* ---------- collections ---------- *)

Definition coll_q (dt : N) (table key : bytes) : bytes := table_prefix dt table ++ be16 (length key) ++ key.

Lemma coll_prefix_snoc dt table key : coll_prefix dt table key = coll_q dt table key ++ [coll_start_sep].
Proof. unfold coll_prefix, coll_q. now repeat rewrite <- app_assoc. Qed.

(* the non-empty element names of collection (dt, table, key) in the store, ascending *)
Definition elems (dt : N) (table key : bytes) (db : list bytes) : list bytes :=
  names (coll_prefix dt table key) db.

Section Coll.
  Variable compile : bytes -> option (bytes -> bool).
  Variables (db : list bytes) (dt : N) (table verkey : bytes) (pat : bytes) (m : bytes -> bool) (count : Z).
  Hypothesis db_sorted : sorted_db db.
  Hypothesis dt_coll : is_coll_type dt = true.
  Hypothesis table_len : N.of_nat (length table) < 65536.
  Hypothesis key_len : 0 < N.of_nat (length verkey) <= max_key_size.
  Hypothesis pat_ok : matcher compile pat = Some m.
  Hypothesis count_pos : (1 <= count)%Z.

  Let p := coll_prefix dt table verkey.
  Let n := eff_count count.

  Lemma key_len16 : N.of_nat (length verkey) < 65536.
  Proof. unfold max_key_size in key_len. lia. Qed.

  Lemma key_size_check : (N.to_nat max_key_size <? length verkey)%nat || (length verkey =? 0)%nat = false.
  Proof.
    apply orb_false_iff. split; [apply Nat.ltb_ge; lia|apply Nat.eqb_neq; lia].
  Qed.

  Lemma dec_ok_coll s : decode_coll_elem dt (p ++ s) = Ok s.
  Proof. apply decode_coll_elem_ok; [exact dt_coll|exact table_len|exact key_len16]. Qed.

  Lemma sep_small : coll_start_sep < 255. Proof. reflexivity. Qed.

  Lemma coll_call_fwd c :
    coll_scan_command compile db dt table verkey true false c pat count =
    Ok (firstn n (stream ltf m (elems dt table verkey db) c),
        next_of n (firstn n (stream ltf m (elems dt table verkey db) c))).
  Proof.
    unfold coll_scan_command, coll_scan_generic, parse_cursor. rewrite pat_ok. cbn [negb].
    rewrite key_size_check. unfold build_specific_range, encode_specific_key. rewrite dt_coll.
    destruct (count_norm count count_pos) as [_ [Hn _]]. rewrite Hn. fold n.
    unfold coll_key. fold p. rewrite app_nil_r.
    pose proof (visible_decodes_fwd (decode_coll_elem dt) (coll_q dt table verkey) coll_start_sep sep_small) as Hvis.
    pose proof (page_fwd (decode_coll_elem dt) m (coll_q dt table verkey) coll_start_sep sep_small) as Hpg.
    rewrite <- coll_prefix_snoc in Hvis, Hpg. fold p in Hvis, Hpg.
    rewrite (coll_loop_scan_loop _ m _ _ (Hvis dec_ok_coll db db_sorted c)).
    rewrite (Hpg dec_ok_coll db db_sorted c n).
    rewrite next_cursor_spec by exact count_pos. fold n. unfold next_of, elems. fold p.
    destruct (length (firstn n (stream ltf m (names p db) c)) <? n)%nat; [reflexivity|].
    now destruct (last_opt (firstn n (stream ltf m (names p db) c))).
  Qed.

  Lemma coll_call_rev c :
    coll_scan_command compile db dt table verkey true true c pat count =
    Ok (firstn n (stream ltr m (rev (elems dt table verkey db)) c),
        next_of n (firstn n (stream ltr m (rev (elems dt table verkey db)) c))).
  Proof.
    unfold coll_scan_command, coll_scan_generic, parse_cursor. rewrite pat_ok. cbn [negb].
    rewrite key_size_check. unfold build_specific_range, encode_specific_key. rewrite dt_coll.
    destruct (count_norm count count_pos) as [_ [Hn _]]. rewrite Hn. fold n.
    unfold coll_key. fold p. rewrite app_nil_r.
    pose proof (visible_decodes_rev (decode_coll_elem dt) (coll_q dt table verkey) coll_start_sep) as Hvis.
    pose proof (page_rev (decode_coll_elem dt) m (coll_q dt table verkey) coll_start_sep) as Hpg.
    rewrite <- coll_prefix_snoc in Hvis, Hpg. fold p in Hvis, Hpg.
    rewrite (coll_loop_scan_loop _ m _ _ (Hvis dec_ok_coll db db_sorted c)).
    rewrite (Hpg dec_ok_coll db db_sorted c n).
    rewrite next_cursor_spec by exact count_pos. fold n. unfold next_of, elems. fold p.
    rewrite names_rev.
    destruct (length (firstn n (stream ltr m (rev (names p db)) c)) <? n)%nat; [reflexivity|].
    now destruct (last_opt (firstn n (stream ltr m (rev (names p db)) c))).
  Qed.

  Lemma elems_sorted : sorted ltf (elems dt table verkey db).
  Proof. apply (names_sorted ltf ltf_app). exact db_sorted. Qed.

  Lemma elems_rev_sorted : sorted ltr (rev (elems dt table verkey db)).
  Proof.
    unfold elems. rewrite <- names_rev. apply (names_sorted ltr ltr_app). now apply sorted_rev.
  Qed.

  Theorem coll_scan_fwd start fuel :
    let R := filter m (filter (fun s => bytes_ltb start s) (elems dt table verkey db)) in
    (length R / n < fuel)%nat ->
    exists pages,
      iterate_coll compile fuel db dt table verkey true false start pat count = (pages, Done) /\
      concat (map fst pages) = R /\
      length pages = (length R / n + 1)%nat.
  Proof.
    intros R Hfuel. unfold iterate_coll.
    apply (iterate_plain ltf ltf_irrefl ltf_trans (fun _ => Err) m (elems dt table verkey db) elems_sorted
             (names_nonempty _ _) n (eff_count_pos count count_pos)
             (fun c => coll_scan_command compile db dt table verkey true false c pat count) coll_call_fwd).
    exact Hfuel.
  Qed.

  Theorem coll_scan_rev start fuel :
    let R := filter m (filter (fun s => bytes_ltb s start) (rev (elems dt table verkey db))) in
    (length R / n < fuel)%nat ->
    exists pages,
      iterate_coll compile fuel db dt table verkey true true start pat count = (pages, Done) /\
      concat (map fst pages) = R /\
      length pages = (length R / n + 1)%nat.
  Proof.
    intros R Hfuel. unfold iterate_coll.
    assert (Forall (fun s => s <> []) (rev (elems dt table verkey db))) as Hne.
    { apply Forall_forall. intros s Hs. apply in_rev in Hs.
      pose proof (names_nonempty p db) as H. rewrite Forall_forall in H. now apply H. }
    apply (iterate_plain ltr ltr_irrefl ltr_trans (fun _ => Err) m (rev (elems dt table verkey db)) elems_rev_sorted
             Hne n (eff_count_pos count count_pos)
             (fun c => coll_scan_command compile db dt table verkey true true c pat count) coll_call_rev).
    exact Hfuel.
  Qed.
End Coll.

(* a collection whose meta key is absent (or expired): one empty page *)
Lemma coll_scan_absent compile db dt table verkey rev start pat count m fuel :
  matcher compile pat = Some m -> (1 <= count)%Z ->
  iterate_coll compile (S fuel) db dt table verkey false rev start pat count = ([([], [])], Done).
Proof.
  intros Hm Hc. unfold iterate_coll. cbn [iterate].
  unfold coll_scan_command, coll_scan_generic, parse_cursor. rewrite Hm. cbn [negb].
  rewrite next_cursor_spec by exact Hc. cbn [length].
  replace (0 <? eff_count count)%nat with true
    by (symmetry; apply Nat.ltb_lt; now apply eff_count_pos).
  reflexivity.
Qed.

(* ---------- keys of a type, restricted to a table ---------- *)

Definition type_prefix (d : dtype) : bytes :=
  match d with
  | KV => [kv_type]
  | _ => get_data_store_type d :: meta_prefix
  end.

Lemma type_prefix_snoc d : exists q c0, type_prefix d = q ++ [c0] /\ c0 < 255.
Proof.
  destruct d; [exists [], kv_type|exists [lmeta_type; 109; 101; 116; 97], 58|exists [hsize_type; 109; 101; 116; 97], 58
               |exists [ssize_type; 109; 101; 116; 97], 58|exists [zsize_type; 109; 101; 116; 97], 58];
    split; reflexivity.
Qed.

Lemma encode_scan_key_ok d key :
  encode_scan_key (get_data_store_type d) key = Ok (type_prefix d ++ key).
Proof. destruct d; reflexivity. Qed.

Lemma decode_scan_key_ok d s :
  decode_scan_key (get_data_store_type d) (type_prefix d ++ s) = Ok s.
Proof. destruct d; reflexivity. Qed.

(* the non-empty raw keys "table:key" of type d in the store, ascending *)
Definition rawkeys (d : dtype) (db : list bytes) : list bytes := names (type_prefix d) db.

Definition rk_of (x : bytes) : bytes :=
  match extract_table x with Some (_, r) => r | None => [] end.

Section Keys.
  Variable compile : bytes -> option (bytes -> bool).
  Variables (db : list bytes) (d : dtype) (table : bytes) (pat : bytes) (m : bytes -> bool) (count : Z).
  Hypothesis db_sorted : sorted_db db.
  Hypothesis table_ok : ~ In key_sep table.
  (* every stored key was written as "table:key" (the write path refuses anything else) ... *)
  Hypothesis keys_have_table : Forall (fun raw => extract_table raw <> None) (rawkeys d db).
  Hypothesis pat_ok : matcher compile pat = Some m.
  Hypothesis count_pos : (1 <= count)%Z.

  Let p := type_prefix d.
  Let n := eff_count count.
  Let inT := same_table table.

  Lemma scan_generic_fwd c :
    scan_generic compile db (get_data_store_type d) c (clamp_count count) pat false =
    Ok (firstn n (stream ltf m (rawkeys d db) c)).
  Proof.
    unfold scan_generic. rewrite pat_ok. unfold build_scan_key_range, encode_scan_max_key_nil.
    rewrite !encode_scan_key_ok. rewrite app_nil_r.
    destruct (count_norm count count_pos) as [_ [Hn _]]. rewrite Hn. fold n. f_equal.
    destruct (type_prefix_snoc d) as [q [c0 [Hp Hc0]]].
    pose proof (page_fwd (decode_scan_key (get_data_store_type d)) m q c0 Hc0) as Hpg.
    rewrite <- Hp in Hpg. unfold rawkeys. apply Hpg; [apply decode_scan_key_ok|exact db_sorted].
  Qed.

  Lemma scan_generic_rev c :
    scan_generic compile db (get_data_store_type d) c (clamp_count count) pat true =
    Ok (firstn n (stream ltr m (rev (rawkeys d db)) c)).
  Proof.
    unfold scan_generic. rewrite pat_ok. unfold build_scan_key_range.
    rewrite !encode_scan_key_ok. rewrite app_nil_r.
    destruct (count_norm count count_pos) as [_ [Hn _]]. rewrite Hn. fold n. f_equal.
    destruct (type_prefix_snoc d) as [q [c0 [Hp Hc0]]].
    pose proof (page_rev (decode_scan_key (get_data_store_type d)) m q c0) as Hpg.
    rewrite <- Hp in Hpg. unfold rawkeys. rewrite <- names_rev.
    apply Hpg; [apply decode_scan_key_ok|exact db_sorted].
  Qed.

  Lemma cut_table_cut l : cut_table table l = cut inT l.
  Proof. induction l as [|v r IH]; [reflexivity|]. cbn [cut_table cut]. unfold inT. now rewrite IH. Qed.

  Lemma key_call_post reverse c (pg : list bytes) :
    Forall (fun raw => extract_table raw <> None) pg ->
    scan_generic compile db (get_data_store_type d) (wrap_cursor table c) (clamp_count count) pat reverse = Ok pg ->
    key_scan_command compile db d reverse (wrap_cursor table c) pat count = Ok (node_post n inT rk_of pg).
  Proof.
    intros Hpg Hscan. unfold key_scan_command, parse_cursor. rewrite extract_table_wrap by exact table_ok.
    rewrite Hscan. rewrite next_cursor_spec by exact count_pos. fold n. unfold node_post.
    destruct (last_opt pg) as [x|] eqn:Hl.
    - assert (extract_table x <> None) as Hx.
      { rewrite Forall_forall in Hpg. apply Hpg. now apply last_opt_in. }
      unfold inT, same_table. fold (rk_of x).
      destruct (extract_table x) as [[tab r]|] eqn:Ex; [|congruence].
      destruct (bytes_eqb tab table); cbn [negb]; [reflexivity|].
      now rewrite cut_table_cut.
    - destruct pg as [|a pg']; [|destruct (last_opt_some (a :: pg')) as [y Hy]; [discriminate|congruence]].
      cbn [length]. replace (0 <? n)%nat with true
        by (symmetry; apply Nat.ltb_lt; unfold n; now apply eff_count_pos).
      reflexivity.
  Qed.

  Lemma wrap_rk x : inT x = true -> wrap_cursor table (rk_of x) = x.
  Proof.
    intro H. apply (same_table_iff table x table_ok) in H. destruct H as [r ->].
    unfold rk_of. now rewrite extract_table_wrap.
  Qed.

  (* no key of the table has the empty name *)
  Definition no_empty_name : Prop := ~ In (type_prefix d ++ wrap_cursor table []) db.

  Lemma rk_nonempty : no_empty_name -> forall x, In x (rawkeys d db) -> inT x = true -> rk_of x <> [].
  Proof.
    intros Hno x Hx H. apply (same_table_iff table x table_ok) in H. destruct H as [r ->].
    unfold rk_of. rewrite extract_table_wrap by exact table_ok. intros ->.
    apply names_in in Hx. destruct Hx as [_ Hx]. exact (Hno Hx).
  Qed.

  Lemma empty_rk_is_table_start x : inT x = true -> rk_of x = [] -> x = wrap_cursor table [].
  Proof.
    intros H E. apply (same_table_iff table x table_ok) in H. destruct H as [r ->].
    unfold rk_of in E. rewrite extract_table_wrap in E by exact table_ok. now subst.
  Qed.

  (* forwards the key "table:" is never beyond a cursor of the table *)
  Lemma rk_empty_last_fwd c x :
    In x (stream ltf m (rawkeys d db) (wrap_cursor table c)) -> inT x = true -> rk_of x = [] ->
    filter inT (stream ltf m (rawkeys d db) x) = [].
  Proof.
    intros Hx HT E. exfalso. rewrite (empty_rk_is_table_start x HT E) in Hx.
    unfold stream in Hx. apply filter_In in Hx. destruct Hx as [Hx _]. apply filter_In in Hx.
    destruct Hx as [_ Hlt]. unfold ltf, wrap_cursor in Hlt.
    replace (table ++ key_sep :: c) with ((table ++ [key_sep]) ++ c) in Hlt by now rewrite <- app_assoc.
    replace (table ++ [key_sep]) with ((table ++ [key_sep]) ++ []) in Hlt at 2 by apply app_nil_r.
    rewrite ltb_app, ltb_nil_r in Hlt. discriminate.
  Qed.

  (* backwards it is the last key of the table *)
  Lemma rk_empty_last_rev c x :
    In x (stream ltr m (rev (rawkeys d db)) (wrap_cursor table c)) -> inT x = true -> rk_of x = [] ->
    filter inT (stream ltr m (rev (rawkeys d db)) x) = [].
  Proof.
    intros _ HT E. rewrite (empty_rk_is_table_start x HT E).
    apply filter_none. apply Forall_forall. intros y Hy.
    unfold stream in Hy. apply filter_In in Hy. destruct Hy as [Hy _]. apply filter_In in Hy. destruct Hy as [_ Hlt].
    destruct (inT y) eqn:Ey; [|reflexivity]. exfalso.
    apply (same_table_iff table y table_ok) in Ey. destruct Ey as [r ->].
    unfold ltr, wrap_cursor in Hlt.
    replace (table ++ key_sep :: r) with ((table ++ [key_sep]) ++ r) in Hlt by now rewrite <- app_assoc.
    replace (table ++ [key_sep]) with ((table ++ [key_sep]) ++ []) in Hlt at 2 by apply app_nil_r.
    rewrite ltb_app, ltb_nil_r in Hlt. discriminate.
  Qed.

  Lemma wrap_split c : wrap_cursor table c = (table ++ [key_sep]) ++ c.
  Proof. unfold wrap_cursor. now rewrite <- app_assoc. Qed.

  Lemma down_closed_fwd c x y :
    ltf (wrap_cursor table c) x = true -> ltf x y = true -> inT y = true -> inT x = true.
  Proof.
    intros H1 H2 Hy. apply (same_table_iff table y table_ok) in Hy. destruct Hy as [ry ->].
    apply (same_table_iff table x table_ok). rewrite wrap_split in *. unfold ltf in *.
    destruct (prefix_convex _ _ _ _ H1 H2) as [s ->]. exists s. now rewrite wrap_split.
  Qed.

  Lemma down_closed_rev c x y :
    ltr (wrap_cursor table c) x = true -> ltr x y = true -> inT y = true -> inT x = true.
  Proof.
    intros H1 H2 Hy. apply (same_table_iff table y table_ok) in Hy. destruct Hy as [ry ->].
    apply (same_table_iff table x table_ok). rewrite wrap_split in *. unfold ltr in *.
    destruct (prefix_convex _ _ _ _ H2 H1) as [s ->]. exists s. now rewrite wrap_split.
  Qed.

  Lemma firstn_forall {A} (P : A -> Prop) k l : Forall P l -> Forall P (firstn k l).
  Proof.
    intro H. rewrite <- (firstn_skipn k l) in H. apply Forall_app in H. tauto.
  Qed.

  Lemma stream_forall lt0 (P : bytes -> Prop) l c : Forall P l -> Forall P (stream lt0 m l c).
  Proof.
    intro H. apply Forall_forall. intros x Hx. unfold stream in Hx.
    apply filter_In in Hx. destruct Hx as [Hx _]. apply filter_In in Hx. destruct Hx as [Hx _].
    rewrite Forall_forall in H. now apply H.
  Qed.

  Lemma key_call_fwd c :
    key_scan_command compile db d false (wrap_cursor table c) pat count =
    Ok (node_post n inT rk_of (firstn n (stream ltf m (rawkeys d db) (wrap_cursor table c)))).
  Proof.
    apply key_call_post; [|apply scan_generic_fwd].
    apply firstn_forall, stream_forall. exact keys_have_table.
  Qed.

  Lemma key_call_rev c :
    key_scan_command compile db d true (wrap_cursor table c) pat count =
    Ok (node_post n inT rk_of (firstn n (stream ltr m (rev (rawkeys d db)) (wrap_cursor table c)))).
  Proof.
    apply key_call_post; [|apply scan_generic_rev].
    apply firstn_forall, stream_forall. apply Forall_forall. intros x Hx. apply in_rev in Hx.
    rewrite Forall_forall in keys_have_table. now apply keys_have_table.
  Qed.

  Lemma rawkeys_sorted : sorted ltf (rawkeys d db).
  Proof. apply (names_sorted ltf ltf_app). exact db_sorted. Qed.

  Lemma rawkeys_rev_sorted : sorted ltr (rev (rawkeys d db)).
  Proof. unfold rawkeys. rewrite <- names_rev. apply (names_sorted ltr ltr_app). now apply sorted_rev. Qed.

  Lemma filter_comm3 (f g h : bytes -> bool) l :
    filter f (filter g (filter h l)) = filter h (filter f (filter g l)).
  Proof.
    induction l as [|x r IH]; [reflexivity|]. cbn [filter].
    destruct (h x) eqn:Eh; destruct (g x) eqn:Eg; cbn [filter]; rewrite ?Eh, ?Eg;
      destruct (f x) eqn:Ef; cbn [filter]; rewrite ?Eh, ?Ef, ?Eg; cbn [filter]; rewrite ?Eh; now rewrite IH.
  Qed.

  Theorem key_scan_fwd start fuel :
    let R := filter m (filter (fun s => bytes_ltb (wrap_cursor table start) s)
                         (filter (same_table table) (rawkeys d db))) in
    (length R / n < fuel)%nat ->
    exists pages,
      iterate_keys compile fuel db d false table start pat count = (pages, Done) /\
      concat (map fst pages) = R /\
      (length pages <= length R / n + 1)%nat /\
      (no_empty_name -> length pages = (length R / n + 1)%nat).
  Proof.
    intros R Hfuel. unfold iterate_keys.
    assert (R = filter inT (stream ltf m (rawkeys d db) (wrap_cursor table start))) as HR.
    { unfold R, stream, inT, ltf. apply filter_comm3. }
    rewrite HR in *.
    destruct (iterate_cut ltf ltf_irrefl ltf_trans (fun _ => Err) m (rawkeys d db) rawkeys_sorted n
             (eff_count_pos count count_pos) inT rk_of (wrap_cursor table) wrap_rk rk_empty_last_fwd down_closed_fwd
             (fun c => key_scan_command compile db d false (wrap_cursor table c) pat count) key_call_fwd
             fuel start Hfuel) as [pages [H1 [H2 [H3 H4]]]].
    exists pages. repeat split; auto. intro Hno. apply H4. exact (rk_nonempty Hno).
  Qed.

  Theorem key_scan_rev start fuel :
    let R := filter m (filter (fun s => bytes_ltb s (wrap_cursor table start))
                         (filter (same_table table) (rev (rawkeys d db)))) in
    (length R / n < fuel)%nat ->
    exists pages,
      iterate_keys compile fuel db d true table start pat count = (pages, Done) /\
      concat (map fst pages) = R /\
      (length pages <= length R / n + 1)%nat /\
      (no_empty_name -> length pages = (length R / n + 1)%nat).
  Proof.
    intros R Hfuel. unfold iterate_keys.
    assert (R = filter inT (stream ltr m (rev (rawkeys d db)) (wrap_cursor table start))) as HR.
    { unfold R, stream, inT, ltr. apply filter_comm3. }
    rewrite HR in *.
    destruct (iterate_cut ltr ltr_irrefl ltr_trans (fun _ => Err) m (rev (rawkeys d db)) rawkeys_rev_sorted n
             (eff_count_pos count count_pos) inT rk_of (wrap_cursor table) wrap_rk rk_empty_last_rev down_closed_rev
             (fun c => key_scan_command compile db d true (wrap_cursor table c) pat count) key_call_rev
             fuel start Hfuel) as [pages [H1 [H2 [H3 H4]]]].
    exists pages. repeat split; auto. intro Hno. apply H4.
    intros x Hx. apply in_rev in Hx. now apply (rk_nonempty Hno).
  Qed.
End Keys.

(* ---------- what the results consist of ---------- *)

Lemma elems_spec dt table key db s :
  In s (elems dt table key db) <-> (s <> [] /\ In (coll_key dt table key s) db).
Proof. apply names_in. Qed.

Lemma rawkeys_spec d db raw :
  In raw (rawkeys d db) <-> (raw <> [] /\ In (type_prefix d ++ raw) db).
Proof. apply names_in. Qed.

Lemma sorted_ltf_iff l : sorted ltf l <-> StronglySorted (fun a b => bytes_ltb a b = true) l.
Proof. reflexivity. Qed.

Lemma sorted_NoDup lt0 l : (forall a, lt0 a a = false) -> sorted lt0 l -> NoDup l.
Proof.
  intros Hirr H. induction H as [|k r Hs IH Hf]; constructor; [|exact IH].
  intro Hin. rewrite Forall_forall in Hf. specialize (Hf k Hin). rewrite Hirr in Hf. discriminate.
Qed.

(* an element key determines its collection: no key of another (type, table, key) carries this prefix *)
Lemma decode_coll_sub_key_ok dt table key s :
  is_coll_type dt = true -> N.of_nat (length table) < 65536 -> N.of_nat (length key) < 65536 ->
  decode_coll_sub_key (coll_key dt table key s) = Ok (dt, table, key, s).
Proof.
  intros Hdt Ht Hk. unfold decode_coll_sub_key, coll_key.
  assert (coll_prefix dt table key ++ s =
          table_prefix dt table ++ (be16 (length key) ++ key ++ coll_start_sep :: s)) as E.
  { unfold coll_prefix. repeat rewrite <- app_assoc. reflexivity. }
  rewrite E.
  assert (exists r, table_prefix dt table ++ (be16 (length key) ++ key ++ coll_start_sep :: s) = dt :: r) as [r Er]
    by (unfold table_prefix; eexists; reflexivity).
  rewrite Er. rewrite Hdt. cbn [negb]. rewrite <- Er.
  rewrite decode_table_prefix_ok by exact Ht.
  destruct (be16_decode _ Hk) as [h [lo [Hb Hn]]]. rewrite Hb. cbn [app]. rewrite Hn.
  replace (length (key ++ coll_start_sep :: s) <? length key)%nat with false
    by (symmetry; apply Nat.ltb_ge; rewrite app_length; lia).
  rewrite skipn_exact, firstn_exact. rewrite !N.eqb_refl. reflexivity.
Qed.

Lemma coll_key_inj dt table key s dt' table' key' s' :
  is_coll_type dt = true -> N.of_nat (length table) < 65536 -> N.of_nat (length key) < 65536 ->
  is_coll_type dt' = true -> N.of_nat (length table') < 65536 -> N.of_nat (length key') < 65536 ->
  coll_key dt table key s = coll_key dt' table' key' s' ->
  dt = dt' /\ table = table' /\ key = key' /\ s = s'.
Proof.
  intros H1 H2 H3 H4 H5 H6 E.
  pose proof (decode_coll_sub_key_ok dt table key s H1 H2 H3) as D1.
  pose proof (decode_coll_sub_key_ok dt' table' key' s' H4 H5 H6) as D2.
  rewrite E in D1. rewrite D1 in D2. inversion D2. auto.
Qed.

Lemma type_prefix_inj d d' a b : type_prefix d ++ a = type_prefix d' ++ b -> d = d' /\ a = b.
Proof.
  destruct d, d'; intro H; try (split; [reflexivity|]); try (now inversion H); discriminate.
Qed.

(* a raw key belongs to exactly the table before its first ':' *)
Lemma same_table_spec table raw :
  ~ In key_sep table ->
  (same_table table raw = true <-> exists key, raw = table ++ key_sep :: key).
Proof. intro H. apply (same_table_iff table raw H). Qed.

(* ---------- without a COUNT argument (or COUNT <= 0): the default page size ---------- *)

Lemma clamp_nonpos count : (count <= 0)%Z -> clamp_count count = 0%Z.
Proof.
  intro H. unfold clamp_count. destruct (Z.ltb_spec count 0).
  - reflexivity.
  - assert (count = 0)%Z as -> by lia. reflexivity.
Qed.

Lemma n0_pos : (0 < N.to_nat default_scan_count)%nat.
Proof. unfold default_scan_count. lia. Qed.

Lemma next_cursor_spec0 ay f :
  next_cursor ay 0 f = Ok (match last_opt ay with Some x => f x | None => [] end).
Proof.
  unfold next_cursor.
  destruct ay as [|a ay']; [reflexivity|].
  replace (Z.of_nat (length (a :: ay')) <? 0)%Z with false by (symmetry; apply Z.ltb_ge; lia).
  replace (Z.of_nat (length (a :: ay')) =? 0)%Z with false by (symmetry; apply Z.eqb_neq; cbn [length]; lia).
  cbn [orb andb]. destruct (last_opt_some (a :: ay')) as [x ->]; [discriminate|]. reflexivity.
Qed.

Section Coll0.
  Variable compile : bytes -> option (bytes -> bool).
  Variables (db : list bytes) (dt : N) (table verkey : bytes) (pat : bytes) (m : bytes -> bool) (count : Z).
  Hypothesis db_sorted : sorted_db db.
  Hypothesis dt_coll : is_coll_type dt = true.
  Hypothesis table_len : N.of_nat (length table) < 65536.
  Hypothesis key_len : 0 < N.of_nat (length verkey) <= max_key_size.
  Hypothesis pat_ok : matcher compile pat = Some m.
  Hypothesis count_nonpos : (count <= 0)%Z.

  Let p := coll_prefix dt table verkey.
  Let n := N.to_nat default_scan_count.

  Lemma key_len160 : N.of_nat (length verkey) < 65536.
  Proof. unfold max_key_size in key_len. lia. Qed.

  Lemma key_size_check0 : (N.to_nat max_key_size <? length verkey)%nat || (length verkey =? 0)%nat = false.
  Proof.
    apply orb_false_iff. split; [apply Nat.ltb_ge; lia|apply Nat.eqb_neq; lia].
  Qed.

  Lemma dec_ok_coll0 s : decode_coll_elem dt (p ++ s) = Ok s.
  Proof. apply decode_coll_elem_ok; [exact dt_coll|exact table_len|exact key_len160]. Qed.

  Lemma sep_small0 : coll_start_sep < 255. Proof. reflexivity. Qed.

  Lemma coll_call_fwd0 c :
    coll_scan_command compile db dt table verkey true false c pat count =
    Ok (firstn n (stream ltf m (elems dt table verkey db) c),
        next_of0 (firstn n (stream ltf m (elems dt table verkey db) c))).
  Proof.
    unfold coll_scan_command, coll_scan_generic, parse_cursor. rewrite pat_ok. cbn [negb].
    rewrite key_size_check0. unfold build_specific_range, encode_specific_key. rewrite dt_coll.
    rewrite (clamp_nonpos count count_nonpos). change (N.to_nat (check_scan_count 0)) with n.
    unfold coll_key. fold p. rewrite app_nil_r.
    pose proof (visible_decodes_fwd (decode_coll_elem dt) (coll_q dt table verkey) coll_start_sep sep_small0) as Hvis.
    pose proof (page_fwd (decode_coll_elem dt) m (coll_q dt table verkey) coll_start_sep sep_small0) as Hpg.
    rewrite <- coll_prefix_snoc in Hvis, Hpg. fold p in Hvis, Hpg.
    rewrite (coll_loop_scan_loop _ m _ _ (Hvis dec_ok_coll0 db db_sorted c)).
    rewrite (Hpg dec_ok_coll0 db db_sorted c n).
    rewrite ?(clamp_nonpos count count_nonpos). rewrite next_cursor_spec0. unfold next_of0, elems. fold p.
    destruct (length (firstn n (stream ltf m (names p db) c)) <? n)%nat; [reflexivity|].
    now destruct (last_opt (firstn n (stream ltf m (names p db) c))).
  Qed.

  Lemma coll_call_rev0 c :
    coll_scan_command compile db dt table verkey true true c pat count =
    Ok (firstn n (stream ltr m (rev (elems dt table verkey db)) c),
        next_of0 (firstn n (stream ltr m (rev (elems dt table verkey db)) c))).
  Proof.
    unfold coll_scan_command, coll_scan_generic, parse_cursor. rewrite pat_ok. cbn [negb].
    rewrite key_size_check0. unfold build_specific_range, encode_specific_key. rewrite dt_coll.
    rewrite (clamp_nonpos count count_nonpos). change (N.to_nat (check_scan_count 0)) with n.
    unfold coll_key. fold p. rewrite app_nil_r.
    pose proof (visible_decodes_rev (decode_coll_elem dt) (coll_q dt table verkey) coll_start_sep) as Hvis.
    pose proof (page_rev (decode_coll_elem dt) m (coll_q dt table verkey) coll_start_sep) as Hpg.
    rewrite <- coll_prefix_snoc in Hvis, Hpg. fold p in Hvis, Hpg.
    rewrite (coll_loop_scan_loop _ m _ _ (Hvis dec_ok_coll0 db db_sorted c)).
    rewrite (Hpg dec_ok_coll0 db db_sorted c n).
    rewrite ?(clamp_nonpos count count_nonpos). rewrite next_cursor_spec0. unfold next_of0, elems. fold p.
    rewrite names_rev.
    destruct (length (firstn n (stream ltr m (rev (names p db)) c)) <? n)%nat; [reflexivity|].
    now destruct (last_opt (firstn n (stream ltr m (rev (names p db)) c))).
  Qed.

  Lemma elems_sorted0 : sorted ltf (elems dt table verkey db).
  Proof. apply (names_sorted ltf ltf_app). exact db_sorted. Qed.

  Lemma elems_rev_sorted0 : sorted ltr (rev (elems dt table verkey db)).
  Proof.
    unfold elems. rewrite <- names_rev. apply (names_sorted ltr ltr_app). now apply sorted_rev.
  Qed.

  Theorem coll_scan_fwd0 start fuel :
    let R := filter m (filter (fun s => bytes_ltb start s) (elems dt table verkey db)) in
    (length R / n + 1 < fuel)%nat ->
    exists pages,
      iterate_coll compile fuel db dt table verkey true false start pat count = (pages, Done) /\
      concat (map fst pages) = R /\
      (length pages <= length R / n + 2)%nat.
  Proof.
    intros R Hfuel. unfold iterate_coll.
    apply (iterate_plain0 ltf ltf_irrefl ltf_trans (fun _ => Err) m (elems dt table verkey db) elems_sorted0
             (names_nonempty _ _) n n0_pos
             (fun c => coll_scan_command compile db dt table verkey true false c pat count) coll_call_fwd0).
    exact Hfuel.
  Qed.

  Theorem coll_scan_rev0 start fuel :
    let R := filter m (filter (fun s => bytes_ltb s start) (rev (elems dt table verkey db))) in
    (length R / n + 1 < fuel)%nat ->
    exists pages,
      iterate_coll compile fuel db dt table verkey true true start pat count = (pages, Done) /\
      concat (map fst pages) = R /\
      (length pages <= length R / n + 2)%nat.
  Proof.
    intros R Hfuel. unfold iterate_coll.
    assert (Forall (fun s => s <> []) (rev (elems dt table verkey db))) as Hne.
    { apply Forall_forall. intros s Hs. apply in_rev in Hs.
      pose proof (names_nonempty p db) as H. rewrite Forall_forall in H. now apply H. }
    apply (iterate_plain0 ltr ltr_irrefl ltr_trans (fun _ => Err) m (rev (elems dt table verkey db)) elems_rev_sorted0
             Hne n n0_pos
             (fun c => coll_scan_command compile db dt table verkey true true c pat count) coll_call_rev0).
    exact Hfuel.
  Qed.
End Coll0.

Section Keys0.
  Variable compile : bytes -> option (bytes -> bool).
  Variables (db : list bytes) (d : dtype) (table : bytes) (pat : bytes) (m : bytes -> bool) (count : Z).
  Hypothesis db_sorted : sorted_db db.
  Hypothesis table_ok : ~ In key_sep table.
  (* every stored key was written as "table:key" (the write path refuses anything else) ... *)
  Hypothesis keys_have_table : Forall (fun raw => extract_table raw <> None) (rawkeys d db).
  Hypothesis pat_ok : matcher compile pat = Some m.
  Hypothesis count_nonpos : (count <= 0)%Z.

  Let p := type_prefix d.
  Let n := N.to_nat default_scan_count.
  Let inT := same_table table.

  Lemma scan_generic_fwd0 c :
    scan_generic compile db (get_data_store_type d) c (clamp_count count) pat false =
    Ok (firstn n (stream ltf m (rawkeys d db) c)).
  Proof.
    unfold scan_generic. rewrite pat_ok. unfold build_scan_key_range, encode_scan_max_key_nil.
    rewrite !encode_scan_key_ok. rewrite app_nil_r.
    rewrite (clamp_nonpos count count_nonpos). change (N.to_nat (check_scan_count 0)) with n. f_equal.
    destruct (type_prefix_snoc d) as [q [c0 [Hp Hc0]]].
    pose proof (page_fwd (decode_scan_key (get_data_store_type d)) m q c0 Hc0) as Hpg.
    rewrite <- Hp in Hpg. unfold rawkeys. apply Hpg; [apply decode_scan_key_ok|exact db_sorted].
  Qed.

  Lemma scan_generic_rev0 c :
    scan_generic compile db (get_data_store_type d) c (clamp_count count) pat true =
    Ok (firstn n (stream ltr m (rev (rawkeys d db)) c)).
  Proof.
    unfold scan_generic. rewrite pat_ok. unfold build_scan_key_range.
    rewrite !encode_scan_key_ok. rewrite app_nil_r.
    rewrite (clamp_nonpos count count_nonpos). change (N.to_nat (check_scan_count 0)) with n. f_equal.
    destruct (type_prefix_snoc d) as [q [c0 [Hp Hc0]]].
    pose proof (page_rev (decode_scan_key (get_data_store_type d)) m q c0) as Hpg.
    rewrite <- Hp in Hpg. unfold rawkeys. rewrite <- names_rev.
    apply Hpg; [apply decode_scan_key_ok|exact db_sorted].
  Qed.

  Lemma cut_table_cut0 l : cut_table table l = cut inT l.
  Proof. induction l as [|v r IH]; [reflexivity|]. cbn [cut_table cut]. unfold inT. now rewrite IH. Qed.

  Lemma key_call_post0 reverse c (pg : list bytes) :
    Forall (fun raw => extract_table raw <> None) pg ->
    scan_generic compile db (get_data_store_type d) (wrap_cursor table c) (clamp_count count) pat reverse = Ok pg ->
    key_scan_command compile db d reverse (wrap_cursor table c) pat count = Ok (node_post0 inT rk_of pg).
  Proof.
    intros Hpg Hscan. unfold key_scan_command, parse_cursor. rewrite extract_table_wrap by exact table_ok.
    rewrite Hscan. rewrite ?(clamp_nonpos count count_nonpos). rewrite next_cursor_spec0. unfold node_post0.
    destruct (last_opt pg) as [x|] eqn:Hl.
    - assert (extract_table x <> None) as Hx.
      { rewrite Forall_forall in Hpg. apply Hpg. now apply last_opt_in. }
      unfold inT, same_table. fold (rk_of x).
      destruct (extract_table x) as [[tab r]|] eqn:Ex; [|congruence].
      destruct (bytes_eqb tab table); cbn [negb]; [reflexivity|].
      now rewrite cut_table_cut0.
    - destruct pg as [|a pg']; [|destruct (last_opt_some (a :: pg')) as [y Hy]; [discriminate|congruence]].
      cbn [length]. replace (0 <? n)%nat with true
        by (symmetry; apply Nat.ltb_lt; unfold n; exact n0_pos).
      reflexivity.
  Qed.

  Lemma wrap_rk0 x : inT x = true -> wrap_cursor table (rk_of x) = x.
  Proof.
    intro H. apply (same_table_iff table x table_ok) in H. destruct H as [r ->].
    unfold rk_of. now rewrite extract_table_wrap.
  Qed.

  (* no key of the table has the empty name *)
  Definition no_empty_name0 : Prop := ~ In (type_prefix d ++ wrap_cursor table []) db.

  Lemma rk_nonempty0 : no_empty_name0 -> forall x, In x (rawkeys d db) -> inT x = true -> rk_of x <> [].
  Proof.
    intros Hno x Hx H. apply (same_table_iff table x table_ok) in H. destruct H as [r ->].
    unfold rk_of. rewrite extract_table_wrap by exact table_ok. intros ->.
    apply names_in in Hx. destruct Hx as [_ Hx]. exact (Hno Hx).
  Qed.

  Lemma empty_rk_is_table_start0 x : inT x = true -> rk_of x = [] -> x = wrap_cursor table [].
  Proof.
    intros H E. apply (same_table_iff table x table_ok) in H. destruct H as [r ->].
    unfold rk_of in E. rewrite extract_table_wrap in E by exact table_ok. now subst.
  Qed.

  (* forwards the key "table:" is never beyond a cursor of the table *)
  Lemma rk_empty_last_fwd0 c x :
    In x (stream ltf m (rawkeys d db) (wrap_cursor table c)) -> inT x = true -> rk_of x = [] ->
    filter inT (stream ltf m (rawkeys d db) x) = [].
  Proof.
    intros Hx HT E. exfalso. rewrite (empty_rk_is_table_start0 x HT E) in Hx.
    unfold stream in Hx. apply filter_In in Hx. destruct Hx as [Hx _]. apply filter_In in Hx.
    destruct Hx as [_ Hlt]. unfold ltf, wrap_cursor in Hlt.
    replace (table ++ key_sep :: c) with ((table ++ [key_sep]) ++ c) in Hlt by now rewrite <- app_assoc.
    replace (table ++ [key_sep]) with ((table ++ [key_sep]) ++ []) in Hlt at 2 by apply app_nil_r.
    rewrite ltb_app, ltb_nil_r in Hlt. discriminate.
  Qed.

  (* backwards it is the last key of the table *)
  Lemma rk_empty_last_rev0 c x :
    In x (stream ltr m (rev (rawkeys d db)) (wrap_cursor table c)) -> inT x = true -> rk_of x = [] ->
    filter inT (stream ltr m (rev (rawkeys d db)) x) = [].
  Proof.
    intros _ HT E. rewrite (empty_rk_is_table_start0 x HT E).
    apply filter_none. apply Forall_forall. intros y Hy.
    unfold stream in Hy. apply filter_In in Hy. destruct Hy as [Hy _]. apply filter_In in Hy. destruct Hy as [_ Hlt].
    destruct (inT y) eqn:Ey; [|reflexivity]. exfalso.
    apply (same_table_iff table y table_ok) in Ey. destruct Ey as [r ->].
    unfold ltr, wrap_cursor in Hlt.
    replace (table ++ key_sep :: r) with ((table ++ [key_sep]) ++ r) in Hlt by now rewrite <- app_assoc.
    replace (table ++ [key_sep]) with ((table ++ [key_sep]) ++ []) in Hlt at 2 by apply app_nil_r.
    rewrite ltb_app, ltb_nil_r in Hlt. discriminate.
  Qed.

  Lemma wrap_split0 c : wrap_cursor table c = (table ++ [key_sep]) ++ c.
  Proof. unfold wrap_cursor. now rewrite <- app_assoc. Qed.

  Lemma down_closed_fwd0 c x y :
    ltf (wrap_cursor table c) x = true -> ltf x y = true -> inT y = true -> inT x = true.
  Proof.
    intros H1 H2 Hy. apply (same_table_iff table y table_ok) in Hy. destruct Hy as [ry ->].
    apply (same_table_iff table x table_ok). rewrite wrap_split0 in *. unfold ltf in *.
    destruct (prefix_convex _ _ _ _ H1 H2) as [s ->]. exists s. now rewrite wrap_split0.
  Qed.

  Lemma down_closed_rev0 c x y :
    ltr (wrap_cursor table c) x = true -> ltr x y = true -> inT y = true -> inT x = true.
  Proof.
    intros H1 H2 Hy. apply (same_table_iff table y table_ok) in Hy. destruct Hy as [ry ->].
    apply (same_table_iff table x table_ok). rewrite wrap_split0 in *. unfold ltr in *.
    destruct (prefix_convex _ _ _ _ H2 H1) as [s ->]. exists s. now rewrite wrap_split0.
  Qed.

  Lemma firstn_forall0 {A} (P : A -> Prop) k l : Forall P l -> Forall P (firstn k l).
  Proof.
    intro H. rewrite <- (firstn_skipn k l) in H. apply Forall_app in H. tauto.
  Qed.

  Lemma stream_forall0 lt0 (P : bytes -> Prop) l c : Forall P l -> Forall P (stream lt0 m l c).
  Proof.
    intro H. apply Forall_forall. intros x Hx. unfold stream in Hx.
    apply filter_In in Hx. destruct Hx as [Hx _]. apply filter_In in Hx. destruct Hx as [Hx _].
    rewrite Forall_forall in H. now apply H.
  Qed.

  Lemma key_call_fwd0 c :
    key_scan_command compile db d false (wrap_cursor table c) pat count =
    Ok (node_post0 inT rk_of (firstn n (stream ltf m (rawkeys d db) (wrap_cursor table c)))).
  Proof.
    apply key_call_post0; [|apply scan_generic_fwd0].
    apply firstn_forall0, stream_forall0. exact keys_have_table.
  Qed.

  Lemma key_call_rev0 c :
    key_scan_command compile db d true (wrap_cursor table c) pat count =
    Ok (node_post0 inT rk_of (firstn n (stream ltr m (rev (rawkeys d db)) (wrap_cursor table c)))).
  Proof.
    apply key_call_post0; [|apply scan_generic_rev0].
    apply firstn_forall0, stream_forall0. apply Forall_forall. intros x Hx. apply in_rev in Hx.
    rewrite Forall_forall in keys_have_table. now apply keys_have_table.
  Qed.

  Lemma rawkeys_sorted0 : sorted ltf (rawkeys d db).
  Proof. apply (names_sorted ltf ltf_app). exact db_sorted. Qed.

  Lemma rawkeys_rev_sorted0 : sorted ltr (rev (rawkeys d db)).
  Proof. unfold rawkeys. rewrite <- names_rev. apply (names_sorted ltr ltr_app). now apply sorted_rev. Qed.

  Lemma filter_comm30 (f g h : bytes -> bool) l :
    filter f (filter g (filter h l)) = filter h (filter f (filter g l)).
  Proof.
    induction l as [|x r IH]; [reflexivity|]. cbn [filter].
    destruct (h x) eqn:Eh; destruct (g x) eqn:Eg; cbn [filter]; rewrite ?Eh, ?Eg;
      destruct (f x) eqn:Ef; cbn [filter]; rewrite ?Eh, ?Ef, ?Eg; cbn [filter]; rewrite ?Eh; now rewrite IH.
  Qed.

  Theorem key_scan_fwd0 start fuel :
    let R := filter m (filter (fun s => bytes_ltb (wrap_cursor table start) s)
                         (filter (same_table table) (rawkeys d db))) in
    (length R / n + 1 < fuel)%nat ->
    exists pages,
      iterate_keys compile fuel db d false table start pat count = (pages, Done) /\
      concat (map fst pages) = R /\
      (length pages <= length R / n + 2)%nat.
  Proof.
    intros R Hfuel. unfold iterate_keys.
    assert (R = filter inT (stream ltf m (rawkeys d db) (wrap_cursor table start))) as HR.
    { unfold R, stream, inT, ltf. apply filter_comm30. }
    rewrite HR in *.
    apply (iterate_cut0 ltf ltf_irrefl ltf_trans (fun _ => Err) m (rawkeys d db) rawkeys_sorted0 n
             n0_pos inT rk_of (wrap_cursor table) wrap_rk0 rk_empty_last_fwd0 down_closed_fwd0
             (fun c => key_scan_command compile db d false (wrap_cursor table c) pat count) key_call_fwd0).
    exact Hfuel.
  Qed.

  Theorem key_scan_rev0 start fuel :
    let R := filter m (filter (fun s => bytes_ltb s (wrap_cursor table start))
                         (filter (same_table table) (rev (rawkeys d db)))) in
    (length R / n + 1 < fuel)%nat ->
    exists pages,
      iterate_keys compile fuel db d true table start pat count = (pages, Done) /\
      concat (map fst pages) = R /\
      (length pages <= length R / n + 2)%nat.
  Proof.
    intros R Hfuel. unfold iterate_keys.
    assert (R = filter inT (stream ltr m (rev (rawkeys d db)) (wrap_cursor table start))) as HR.
    { unfold R, stream, inT, ltr. apply filter_comm30. }
    rewrite HR in *.
    apply (iterate_cut0 ltr ltr_irrefl ltr_trans (fun _ => Err) m (rev (rawkeys d db)) rawkeys_rev_sorted0 n
             n0_pos inT rk_of (wrap_cursor table) wrap_rk0 rk_empty_last_rev0 down_closed_rev0
             (fun c => key_scan_command compile db d true (wrap_cursor table c) pat count) key_call_rev0).
    exact Hfuel.
  Qed.
End Keys0.

(* ---------- which cursor texts mean "from the start" ---------- *)

(* only the empty one; every cursor a scan hands out is the non-empty name of the last element of a full page
   (theorems above), so no returned cursor is ever taken for the start *)
Lemma parse_cursor_start c : parse_cursor c = [] <-> c = [].
Proof. reflexivity. Qed.

Lemma parse_cursor_literal c : parse_cursor c = c.
Proof. reflexivity. Qed.

(* redis' start sentinel "0" as an alternative interpretation *)
Definition zero_sentinel (c : bytes) : bytes :=
  match c with [48] => [] | _ => c end.

(* with it an element really named "0" that ends a page sends the scan back to the start: the iteration over the
   hash t:h = {"-1", "0", "00"} with COUNT 1 never reaches the empty cursor *)
Definition sentinel_db : list bytes :=
  [ coll_key hash_type [116] [104] [45; 49]; coll_key hash_type [116] [104] [48];
    coll_key hash_type [116] [104] [48; 48]; size_key hsize_type [116; 58; 104] ].

Lemma zero_sentinel_refuted :
  is_sorted sentinel_db = true /\
  (* the code: 4 calls, every field once *)
  iterate 10 (fun c => coll_scan_command mini_compile sentinel_db hash_type [116] [104] true false c [] 1) [] =
    ([([[45; 49]], [45; 49]); ([[48]], [48]); ([[48; 48]], [48; 48]); ([], [])], Done) /\
  (* with the sentinel: out of fuel, "-1" and "0" over and over *)
  snd (iterate 10
         (fun c => coll_scan_command mini_compile sentinel_db hash_type [116] [104] true false (zero_sentinel c) [] 1) [])
    = OutOfFuel /\
  (* and backwards from above the elements below "0" are lost *)
  map fst (fst (iterate 10
         (fun c => coll_scan_command mini_compile sentinel_db hash_type [116] [104] true true (zero_sentinel c) [] 1) [255]))
    = [[[48; 48]]; [[48]]; []].
Proof. vm_compute. repeat split; reflexivity. Qed.
