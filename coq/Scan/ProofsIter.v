(* Scan/ProofsIter.v — the iteration argument, generic in the direction.
   [lt] is the order in which the iterator walks (byte order forwards, its converse backwards).
   Part 1: the range iterator and the page loop over a sorted key list = first n of the filtered list.
   Part 2: name level: the cursor chain; feeding the cursor back until it is empty enumerates the
           stream exactly once, in order, in |S|/n + 1 calls — without and with the table cut. *)
From ZV Require Import Common.Bytes Common.BytesFacts Scan.Consts Scan.Model Scan.ProofsOrder.
From Coq Require Import Sorting.Sorted Lia PeanoNat.
Open Scope N_scope.

(* ---------- list helpers ---------- *)

Lemma filter_all {A} (f : A -> bool) l : Forall (fun x => f x = true) l -> filter f l = l.
Proof. induction 1 as [|x l Hx _ IH]; simpl; [reflexivity|]. now rewrite Hx, IH. Qed.

Lemma filter_none {A} (f : A -> bool) l : Forall (fun x => f x = false) l -> filter f l = [].
Proof. induction 1 as [|x l Hx _ IH]; simpl; [reflexivity|]. now rewrite Hx. Qed.

Lemma last_opt_in {A} (l : list A) x : last_opt l = Some x -> In x l.
Proof.
  induction l as [|a l IH]; simpl; [discriminate|].
  destruct l as [|b l]; [intro H; inversion H; now left|]. intro H. right. now apply IH.
Qed.

Lemma last_opt_cons {A} (a : A) l : l <> [] -> last_opt (a :: l) = last_opt l.
Proof. destruct l; [congruence|reflexivity]. Qed.

Lemma last_opt_some {A} (l : list A) : l <> [] -> exists x, last_opt l = Some x.
Proof.
  induction l as [|a l IH]; [congruence|]. intros _. destruct l as [|b l]; [now exists a|].
  destruct IH as [x Hx]; [discriminate|]. exists x. now rewrite last_opt_cons by discriminate.
Qed.

Lemma last_opt_app {A} (l1 l2 : list A) : l2 <> [] -> last_opt (l1 ++ l2) = last_opt l2.
Proof.
  intro H. induction l1 as [|a l1 IH]; [reflexivity|]. cbn [app].
  rewrite last_opt_cons; [exact IH|]. destruct l1; [exact H|discriminate].
Qed.

Lemma firstn_nonempty {A} (l : list A) j : (0 < j)%nat -> l <> [] -> firstn j l <> [].
Proof. destruct j; [lia|]. destruct l; [congruence|]. discriminate. Qed.

Section Gen.
  Variable lt : bytes -> bytes -> bool.
  Hypothesis lt_irrefl : forall a, lt a a = false.
  Hypothesis lt_trans : forall a b c, lt a b = true -> lt b c = true -> lt a c = true.
  Hypothesis lt_total : forall a b, lt a b = true \/ a = b \/ lt b a = true.

  Definition sorted (l : list bytes) : Prop := StronglySorted (fun a b => lt a b = true) l.

  Lemma lt_asym a b : lt a b = true -> lt b a = false.
  Proof.
    intro H. destruct (lt b a) eqn:E; [|reflexivity].
    pose proof (lt_trans _ _ _ H E) as T. rewrite lt_irrefl in T. discriminate.
  Qed.

  Lemma sorted_filter f l : sorted l -> sorted (filter f l).
  Proof.
    induction 1 as [|k r Hs IH Hf]; simpl; [constructor|].
    destruct (f k); [|exact IH]. constructor; [exact IH|].
    apply Forall_forall. intros x Hx. apply filter_In in Hx. destruct Hx as [Hx _].
    rewrite Forall_forall in Hf. now apply Hf.
  Qed.

  (* ----- part 1: the iterator ----- *)

  (* skip the keys before b, then (open bound) the key equal to b *)
  Fixpoint gseek (b : bytes) (l : list bytes) : list bytes :=
    match l with
    | [] => []
    | k :: r => if lt k b then gseek b r else l
    end.
  Definition gopen (b : bytes) (l : list bytes) : list bytes :=
    match gseek b l with
    | k :: r => if negb (lt b k) then r else k :: r
    | [] => []
    end.

  Lemma gopen_filter b l : sorted l -> gopen b l = filter (fun k => lt b k) l.
  Proof.
    induction 1 as [|k r Hs IH Hf]; [reflexivity|].
    unfold gopen. cbn [gseek filter]. destruct (lt k b) eqn:E.
    - rewrite (lt_asym _ _ E). exact IH.
    - destruct (lt b k) eqn:E2; cbn [negb].
      + f_equal. symmetry. apply filter_all. eapply Forall_impl; [|exact Hf].
        intros x Hx. cbn beta in *. eapply lt_trans; eauto.
      + assert (k = b) as -> by (destruct (lt_total k b) as [T|[T|T]]; congruence).
        symmetry. apply filter_all. exact Hf.
  Qed.

  Variable dec : bytes -> outcome bytes.
  Variable m : bytes -> bool.

  Definition selk (k : bytes) : list bytes :=
    match dec k with
    | Ok x => if m x then [x] else []
    | _ => []
    end.
  Definition sel (l : list bytes) : list bytes := flat_map selk l.

  Lemma scan_loop_firstn hi l : sorted l -> forall n,
    scan_loop (fun k => lt k hi) dec m l n = firstn n (sel (filter (fun k => lt k hi) l)).
  Proof.
    induction 1 as [|k r Hs IH Hf]; intro n; [now destruct n|].
    cbn [scan_loop filter]. destruct n as [|n'].
    - reflexivity.
    - destruct (lt k hi) eqn:V.
      + unfold sel. cbn [flat_map]. fold (sel (filter (fun k0 => lt k0 hi) r)). unfold selk at 1.
        destruct (dec k) as [x| |]; cbn [app]; try apply IH.
        destruct (m x); cbn [app firstn]; [f_equal|]; apply IH.
      + rewrite (filter_none (fun k0 => lt k0 hi) r); [reflexivity|].
        eapply Forall_impl; [|exact Hf]. intros x Hx. cbn beta in *.
        destruct (lt x hi) eqn:E; [|reflexivity].
        rewrite (lt_trans _ _ _ Hx E) in V. discriminate.
  Qed.

  Lemma coll_loop_scan_loop valid l :
    Forall (fun k => valid k = true -> exists x, dec k = Ok x) l -> forall n,
    coll_loop valid dec m l n = Ok (scan_loop valid dec m l n).
  Proof.
    induction 1 as [|k r Hk _ IH]; intro n; [now destruct n|].
    cbn [coll_loop scan_loop]. destruct n as [|n']; [reflexivity|].
    destruct (valid k) eqn:V; [|reflexivity].
    destruct (Hk eq_refl) as [x ->]. destruct (m x); [|apply IH]. now rewrite IH.
  Qed.

  (* ----- part 2: the cursor chain on a sorted list of names ----- *)

  Lemma chain F : sorted F -> forall j x,
    last_opt (firstn j (filter m F)) = Some x -> (j <= length (filter m F))%nat ->
    filter m (filter (fun s => lt x s) F) = skipn j (filter m F).
  Proof.
    induction 1 as [|k r Hs IH Hf]; intros j x Hl Hj.
    - destruct j; discriminate.
    - assert (forall y, In y (filter m r) -> lt y k = false) as Hbefore.
      { intros y Hy. apply filter_In in Hy. destruct Hy as [Hy _].
        rewrite Forall_forall in Hf. apply lt_asym. now apply Hf. }
      cbn [filter] in *. destruct (m k) eqn:M.
      + destruct j as [|j']; [discriminate|]. cbn [firstn skipn length] in *.
        destruct j' as [|j''].
        * cbn [firstn last_opt] in Hl. inversion Hl; subst x.
          rewrite lt_irrefl. rewrite (filter_all (fun s => lt k s) r); [reflexivity|exact Hf].
        * assert (firstn (S j'') (filter m r) <> []) as Hne.
          { apply firstn_nonempty; [lia|]. destruct (filter m r); [cbn in Hj; lia|discriminate]. }
          rewrite last_opt_cons in Hl by exact Hne.
          assert (In x (filter m r)) as Hx.
          { apply last_opt_in in Hl. revert Hl. generalize (S j''). intros n0 Hl.
            rewrite <- (firstn_skipn n0 (filter m r)). apply in_or_app. now left. }
          rewrite (Hbefore x Hx). apply IH; [exact Hl|lia].
      + assert (In x (filter m r)) as Hx.
        { apply last_opt_in in Hl. rewrite <- (firstn_skipn j (filter m r)). apply in_or_app. now left. }
        rewrite (Hbefore x Hx). now apply IH.
  Qed.

  Lemma filter_lt_narrow c x l :
    lt c x = true ->
    filter (fun s => lt x s) l = filter (fun s => lt x s) (filter (fun s => lt c s) l).
  Proof.
    intro Hcx. induction l as [|s r IH]; [reflexivity|]. cbn [filter].
    destruct (lt x s) eqn:E.
    - rewrite (lt_trans _ _ _ Hcx E). cbn [filter]. rewrite E. f_equal. exact IH.
    - destruct (lt c s); [cbn [filter]; rewrite E|]; exact IH.
  Qed.

  (* the stream after cursor c *)
  Variable NL : list bytes.
  Hypothesis NL_sorted : sorted NL.
  Hypothesis NL_nonempty : Forall (fun s => s <> []) NL.

  Definition stream (c : bytes) : list bytes := filter m (filter (fun s => lt c s) NL).

  Lemma stream_in c x : In x (stream c) -> In x NL /\ lt c x = true /\ m x = true.
  Proof.
    unfold stream. intro H. apply filter_In in H. destruct H as [H Hm].
    apply filter_In in H. tauto.
  Qed.

  Lemma stream_sorted c : sorted (stream c).
  Proof. unfold stream. now repeat apply sorted_filter. Qed.

  Lemma stream_chain c j x :
    last_opt (firstn j (stream c)) = Some x -> (j <= length (stream c))%nat ->
    stream x = skipn j (stream c).
  Proof.
    intros Hl Hj. unfold stream in *.
    assert (In x (filter m (filter (fun s => lt c s) NL))) as Hx.
    { apply last_opt_in in Hl. rewrite <- (firstn_skipn j (filter m _)). apply in_or_app. now left. }
    apply stream_in in Hx. destruct Hx as [_ [Hcx _]].
    rewrite <- (chain (filter (fun s => lt c s) NL) (sorted_filter _ _ NL_sorted) j x Hl Hj).
    f_equal. now apply filter_lt_narrow.
  Qed.

  Variable n : nat.
  Hypothesis n_pos : (0 < n)%nat.

  (* -- collections: a page is the first n of the stream, the cursor its last element -- *)

  Definition next_of (pg : list bytes) : bytes :=
    if (length pg <? n)%nat then []
    else match last_opt pg with Some x => x | None => [] end.

  Section Plain.
    Variable call : bytes -> outcome page.
    Hypothesis call_spec : forall c, call c = Ok (firstn n (stream c), next_of (firstn n (stream c))).

    Theorem iterate_plain : forall fuel c,
      (length (stream c) / n < fuel)%nat ->
      exists pages,
        iterate fuel call c = (pages, Done) /\
        concat (map fst pages) = stream c /\
        length pages = (length (stream c) / n + 1)%nat.
    Proof.
      induction fuel as [|f IH]; intros c Hfuel; [lia|].
      cbn [iterate]. rewrite call_spec. unfold next_of.
      destruct (length (firstn n (stream c)) <? n)%nat eqn:E.
      - apply Nat.ltb_lt in E. rewrite firstn_length in E.
        assert (length (stream c) < n)%nat as Hlen by lia.
        rewrite firstn_all2 by lia. eexists. split; [reflexivity|]. split.
        + cbn. now rewrite app_nil_r.
        + rewrite Nat.div_small by exact Hlen. reflexivity.
      - apply Nat.ltb_ge in E. rewrite firstn_length in E.
        assert (n <= length (stream c))%nat as Hlen by lia.
        destruct (last_opt_some (firstn n (stream c))) as [x Hx].
        { apply firstn_nonempty; [exact n_pos|]. destruct (stream c); [cbn in Hlen; lia|discriminate]. }
        rewrite Hx.
        assert (x <> []) as Hxne.
        { pose proof (last_opt_in _ _ Hx) as Hin.
          assert (In x (stream c)) as Hin2.
          { rewrite <- (firstn_skipn n (stream c)). apply in_or_app. now left. }
          apply stream_in in Hin2. destruct Hin2 as [Hin2 _].
          rewrite Forall_forall in NL_nonempty. now apply NL_nonempty. }
        pose proof (stream_chain c n x Hx Hlen) as Hchain.
        assert (length (stream c) = n + length (stream x))%nat as Hsplit.
        { rewrite Hchain, skipn_length. lia. }
        assert (length (stream c) / n = 1 + length (stream x) / n)%nat as Hdiv.
        { rewrite Hsplit. replace (n + length (stream x))%nat with (1 * n + length (stream x))%nat by lia.
          rewrite Nat.div_add_l by lia. reflexivity. }
        destruct (IH x) as [pages [Hit [Hcat Hcnt]]]; [lia|].
        destruct x as [|b x']; [congruence|].
        rewrite Hit. eexists. split; [reflexivity|]. split.
        + cbn [map concat fst]. rewrite Hcat, Hchain. apply firstn_skipn.
        + cbn [length]. rewrite Hcnt, Hdiv. lia.
    Qed.
  End Plain.


  (* -- the same without a COUNT argument (count 0): the cursor is empty only after an empty page -- *)

  Definition next_of0 (pg : list bytes) : bytes :=
    match last_opt pg with Some x => x | None => [] end.

  Lemma firstn_length_firstn {A} (l : list A) k : firstn (length (firstn k l)) l = firstn k l.
  Proof.
    rewrite firstn_length. destruct (Nat.le_gt_cases k (length l)) as [H|H].
    - now rewrite Nat.min_l by exact H.
    - rewrite Nat.min_r by lia. now rewrite firstn_all, firstn_all2 by lia.
  Qed.

  Section Plain0.
    Variable call : bytes -> outcome page.
    Hypothesis call_spec : forall c, call c = Ok (firstn n (stream c), next_of0 (firstn n (stream c))).

    Theorem iterate_plain0 : forall fuel c,
      (length (stream c) / n + 1 < fuel)%nat ->
      exists pages,
        iterate fuel call c = (pages, Done) /\
        concat (map fst pages) = stream c /\
        (length pages <= length (stream c) / n + 2)%nat.
    Proof.
      induction fuel as [|f IH]; intros c Hfuel; [lia|].
      cbn [iterate]. rewrite call_spec. unfold next_of0.
      destruct (stream c) as [|s0 S0] eqn:ES.
      - rewrite firstn_nil. cbn [last_opt]. eexists. split; [reflexivity|]. split; [reflexivity|]. cbn [length]. lia.
      - destruct (last_opt_some (firstn n (s0 :: S0))) as [x Hx];
          [apply firstn_nonempty; [exact n_pos|discriminate]|].
        rewrite Hx. rewrite <- ES in *.
        assert (x <> []) as Hxne.
        { pose proof (last_opt_in _ _ Hx) as Hin.
          assert (In x (stream c)) as Hin2.
          { rewrite <- (firstn_skipn n (stream c)). apply in_or_app. now left. }
          apply stream_in in Hin2. destruct Hin2 as [Hin2 _].
          rewrite Forall_forall in NL_nonempty. now apply NL_nonempty. }
        assert (stream x = skipn (length (firstn n (stream c))) (stream c)) as Hchain.
        { apply stream_chain; [now rewrite firstn_length_firstn|rewrite firstn_length; lia]. }
        destruct x as [|b x']; [congruence|].
        destruct (Nat.le_gt_cases n (length (stream c))) as [Hlen|Hlen].
        + (* a full page *)
          rewrite firstn_length, Nat.min_l in Hchain by exact Hlen.
          assert (length (stream c) = n + length (stream (b :: x')))%nat as Hsplit.
          { rewrite Hchain, skipn_length. lia. }
          assert (length (stream c) / n = 1 + length (stream (b :: x')) / n)%nat as Hdiv.
          { rewrite Hsplit. replace (n + length (stream (b :: x')))%nat with (1 * n + length (stream (b :: x')))%nat by lia.
            rewrite Nat.div_add_l by lia. reflexivity. }
          destruct (IH (b :: x')) as [pages [Hit [Hcat Hcnt]]]; [lia|].
          rewrite Hit. eexists. split; [reflexivity|]. split.
          * cbn [map concat fst]. rewrite Hcat, Hchain. apply firstn_skipn.
          * cbn [length]. lia.
        + (* the rest of the stream, shorter than a page: one more call returns the empty page *)
          rewrite firstn_all2 in * by lia. rewrite skipn_all in Hchain.
          destruct f as [|f']; [lia|]. cbn [iterate]. rewrite call_spec, Hchain, firstn_nil. cbn [last_opt next_of0].
          eexists. split; [reflexivity|]. split.
          * cbn. now rewrite app_nil_r.
          * cbn [length]. lia.
    Qed.
  End Plain0.

  (* -- keys of a table: the store streams the whole type, the node cuts at the table end -- *)

  Section Cut.
    Variable inT : bytes -> bool.            (* the key belongs to the scanned table *)
    Variable rk : bytes -> bytes.            (* the key without "table:" *)
    Variable wrap : bytes -> bytes.          (* "table:" in front of a cursor *)
    Hypothesis wrap_rk : forall x, inT x = true -> wrap (rk x) = x.
    (* a key whose name is empty is the first of its table in byte order: when it is the cursor, nothing of
       the table remains (forwards it is never reached, backwards it is the last one) *)
    Hypothesis rk_empty_last : forall c x,
      In x (stream (wrap c)) -> inT x = true -> rk x = [] -> filter inT (stream x) = [].
    Definition no_empty_rk : Prop := forall x, In x NL -> inT x = true -> rk x <> [].
    (* the table is an interval that contains every cursor *)
    Hypothesis down_closed : forall c x y,
      lt (wrap c) x = true -> lt x y = true -> inT y = true -> inT x = true.

    Fixpoint cut (l : list bytes) : list bytes :=
      match l with
      | [] => []
      | v :: r => if inT v then v :: cut r else []
      end.

    Definition node_post (pg : list bytes) : page :=
      match last_opt pg with
      | None => ([], [])
      | Some x =>
          if inT x then (pg, if (length pg <? n)%nat then [] else rk x)
          else (cut pg, [])
      end.

    Variable call : bytes -> outcome page.
    Hypothesis call_spec : forall c, call c = Ok (node_post (firstn n (stream (wrap c)))).

    (* the stream is: the elements of the table, then the rest *)
    Lemma stream_shape c : exists A B,
      stream (wrap c) = A ++ B /\ Forall (fun x => inT x = true) A /\ Forall (fun x => inT x = false) B.
    Proof.
      assert (forall x, In x (stream (wrap c)) -> lt (wrap c) x = true) as Hgt.
      { intros x Hx. now apply stream_in in Hx. }
      pose proof (stream_sorted (wrap c)) as Hs. revert Hs Hgt.
      generalize (stream (wrap c)). intros l Hs. induction Hs as [|y r Hs IH Hf]; intro Hgt.
      - exists [], []. repeat split; constructor.
      - destruct (inT y) eqn:Ey.
        + destruct IH as [A [B [-> [HA HB]]]]; [intros x Hx; apply Hgt; now right|].
          exists (y :: A), B. repeat split; [|exact HB]. now constructor.
        + exists [], (y :: r). repeat split; [constructor|]. constructor; [exact Ey|].
          apply Forall_forall. intros z Hz. destruct (inT z) eqn:Ez; [|reflexivity].
          rewrite Forall_forall in Hf.
          rewrite (down_closed c y z (Hgt y (or_introl eq_refl)) (Hf z Hz) Ez) in Ey. discriminate.
    Qed.

    Lemma filter_shape A B :
      Forall (fun x => inT x = true) A -> Forall (fun x => inT x = false) B -> filter inT (A ++ B) = A.
    Proof.
      intros HA HB. rewrite filter_app, (filter_all _ _ HA), (filter_none _ _ HB). apply app_nil_r.
    Qed.

    Lemma cut_shape A B :
      Forall (fun x => inT x = true) A -> Forall (fun x => inT x = false) B -> cut (A ++ B) = A.
    Proof.
      intros HA HB. induction HA as [|a A Ha _ IH]; cbn [app cut].
      - destruct HB as [|b B Hb _]; [reflexivity|]. cbn [cut]. now rewrite Hb.
      - now rewrite Ha, IH.
    Qed.

    Theorem iterate_cut : forall fuel c,
      (length (filter inT (stream (wrap c))) / n < fuel)%nat ->
      exists pages,
        iterate fuel call c = (pages, Done) /\
        concat (map fst pages) = filter inT (stream (wrap c)) /\
        (length pages <= length (filter inT (stream (wrap c))) / n + 1)%nat /\
        (no_empty_rk -> length pages = (length (filter inT (stream (wrap c))) / n + 1)%nat).
    Proof.
      induction fuel as [|f IH]; intros c Hfuel; [lia|].
      cbn [iterate]. rewrite call_spec. unfold node_post.
      destruct (stream_shape c) as [A [B [HS [HA HB]]]].
      rewrite HS in *. rewrite (filter_shape A B HA HB) in *.
      destruct (last_opt (firstn n (A ++ B))) as [x|] eqn:Hl.
      2:{ (* empty page: the stream is empty *)
        assert (A ++ B = []) as Hnil.
        { destruct (A ++ B) eqn:E; [reflexivity|]. exfalso.
          destruct (last_opt_some (firstn n (b :: l))) as [y Hy]; [apply firstn_nonempty; [exact n_pos|discriminate]|].
          congruence. }
        apply app_eq_nil in Hnil. destruct Hnil as [-> ->].
        eexists. split; [reflexivity|]. split; [reflexivity|].
        cbn [length]. rewrite Nat.div_0_l by lia. split; [lia|reflexivity]. }
      destruct (Nat.le_gt_cases n (length A)) as [Hn|Hn].
      - (* the page lies inside the table *)
        assert (firstn n (A ++ B) = firstn n A) as Hpg.
        { rewrite firstn_app. replace (n - length A)%nat with 0%nat by lia. cbn [firstn]. apply app_nil_r. }
        rewrite Hpg in *.
        assert (In x A) as HxA.
        { apply last_opt_in in Hl. rewrite <- (firstn_skipn n A). apply in_or_app. now left. }
        assert (inT x = true) as HTx by (rewrite Forall_forall in HA; now apply HA).
        rewrite HTx. rewrite firstn_length.
        replace (Nat.min n (length A)) with n by lia. rewrite Nat.ltb_irrefl.
        assert (In x NL) as HxNL.
        { assert (In x (stream (wrap c))) as H by (rewrite HS; apply in_or_app; now left).
          now apply stream_in in H. }
        assert (In x (stream (wrap c))) as HxS by (rewrite HS; apply in_or_app; now left).
        assert (stream x = skipn n (A ++ B)) as Hchain.
        { rewrite <- HS. apply stream_chain.
          - rewrite HS, firstn_app. replace (n - length A)%nat with 0%nat by lia.
            cbn [firstn]. rewrite app_nil_r. exact Hl.
          - rewrite HS, app_length. lia. }
        assert (filter inT (stream x) = skipn n A) as Hrest.
        { rewrite Hchain, skipn_app. replace (n - length A)%nat with 0%nat by lia. cbn [skipn].
          apply filter_shape; [|exact HB]. rewrite <- (firstn_skipn n A) in HA.
          apply Forall_app in HA. tauto. }
        assert (length A = n + length (skipn n A))%nat as Hsplit by (rewrite skipn_length; lia).
        assert (length A / n = 1 + length (skipn n A) / n)%nat as Hdiv.
        { rewrite Hsplit at 1. replace (n + length (skipn n A))%nat with (1 * n + length (skipn n A))%nat by lia.
          rewrite Nat.div_add_l by lia. reflexivity. }
        pose proof (wrap_rk x HTx) as Hw.
        destruct (rk x) as [|b0 r0] eqn:Erk.
        + (* the key with the empty name ends the iteration: nothing of the table remains *)
          assert (skipn n A = []) as Hnil by (rewrite <- Hrest; now apply (rk_empty_last c x)).
          eexists. split; [reflexivity|]. split.
          * cbn [map concat fst]. rewrite app_nil_r. rewrite <- (firstn_skipn n A) at 2. now rewrite Hnil, app_nil_r.
          * split; [cbn [length]; lia|]. intro Hne. exfalso. exact (Hne x HxNL HTx Erk).
        + rewrite <- Hw in Hrest.
          destruct (IH (b0 :: r0)) as [pages [Hit [Hcat [Hle Heq]]]]; [rewrite Hrest; lia|].
          rewrite Hit. eexists. split; [reflexivity|]. split.
          * cbn [map concat fst]. rewrite Hcat, Hrest. apply firstn_skipn.
          * rewrite Hrest in Hle, Heq. split; [cbn [length]; lia|]. intro Hne. cbn [length]. rewrite (Heq Hne). lia.
      - (* the page reaches the end of the table *)
        assert (firstn n (A ++ B) = A ++ firstn (n - length A) B) as Hpg.
        { rewrite firstn_app. now rewrite (firstn_all2 A) by lia. }
        rewrite Hpg in *.
        assert (length A / n = 0)%nat as Hdiv by (apply Nat.div_small; lia).
        destruct (firstn (n - length A) B) as [|b B'] eqn:EB.
        + (* nothing after the table *)
          rewrite app_nil_r in *.
          assert (In x A) as HxA by (now apply last_opt_in in Hl).
          assert (inT x = true) as HTx by (rewrite Forall_forall in HA; now apply HA).
          rewrite HTx. replace (length A <? n)%nat with true by (symmetry; apply Nat.ltb_lt; lia).
          eexists. split; [reflexivity|]. split.
          * cbn. apply app_nil_r.
          * rewrite Hdiv. split; [cbn; lia|reflexivity].
        + (* the last element of the page lies outside *)
          assert (Forall (fun x => inT x = false) (b :: B')) as HB'.
          { rewrite <- EB. rewrite <- (firstn_skipn (n - length A) B) in HB. apply Forall_app in HB. tauto. }
          rewrite last_opt_app in Hl by discriminate.
          assert (inT x = false) as HTx.
          { apply last_opt_in in Hl. rewrite Forall_forall in HB'. now apply HB'. }
          rewrite HTx. rewrite (cut_shape A (b :: B') HA HB').
          eexists. split; [reflexivity|]. split.
          * cbn. apply app_nil_r.
          * rewrite Hdiv. split; [cbn; lia|reflexivity].
    Qed.

    (* without a COUNT argument *)
    Definition node_post0 (pg : list bytes) : page :=
      match last_opt pg with
      | None => ([], [])
      | Some x => if inT x then (pg, rk x) else (cut pg, [])
      end.

    Variable call0 : bytes -> outcome page.
    Hypothesis call0_spec : forall c, call0 c = Ok (node_post0 (firstn n (stream (wrap c)))).

    Theorem iterate_cut0 : forall fuel c,
      (length (filter inT (stream (wrap c))) / n + 1 < fuel)%nat ->
      exists pages,
        iterate fuel call0 c = (pages, Done) /\
        concat (map fst pages) = filter inT (stream (wrap c)) /\
        (length pages <= length (filter inT (stream (wrap c))) / n + 2)%nat.
    Proof.
      induction fuel as [|f IH]; intros c Hfuel; [lia|].
      cbn [iterate]. rewrite call0_spec. unfold node_post0.
      destruct (stream_shape c) as [A [B [HS [HA HB]]]].
      rewrite HS in *. rewrite (filter_shape A B HA HB) in *.
      destruct (last_opt (firstn n (A ++ B))) as [x|] eqn:Hl.
      2:{ assert (A ++ B = []) as Hnil.
        { destruct (A ++ B) eqn:E; [reflexivity|]. exfalso.
          destruct (last_opt_some (firstn n (b :: l))) as [y Hy]; [apply firstn_nonempty; [exact n_pos|discriminate]|].
          congruence. }
        apply app_eq_nil in Hnil. destruct Hnil as [-> ->].
        eexists. split; [reflexivity|]. split; [reflexivity|]. cbn [length]. lia. }
      destruct (Nat.le_gt_cases n (length A)) as [Hn|Hn].
      - assert (firstn n (A ++ B) = firstn n A) as Hpg.
        { rewrite firstn_app. replace (n - length A)%nat with 0%nat by lia. cbn [firstn]. apply app_nil_r. }
        rewrite Hpg in *.
        assert (In x A) as HxA.
        { apply last_opt_in in Hl. rewrite <- (firstn_skipn n A). apply in_or_app. now left. }
        assert (inT x = true) as HTx by (rewrite Forall_forall in HA; now apply HA).
        rewrite HTx.
        assert (In x NL) as HxNL.
        { assert (In x (stream (wrap c))) as H by (rewrite HS; apply in_or_app; now left).
          now apply stream_in in H. }
        assert (In x (stream (wrap c))) as HxS by (rewrite HS; apply in_or_app; now left).
        assert (stream x = skipn n (A ++ B)) as Hchain.
        { rewrite <- HS. apply stream_chain.
          - rewrite HS, firstn_app. replace (n - length A)%nat with 0%nat by lia.
            cbn [firstn]. rewrite app_nil_r. exact Hl.
          - rewrite HS, app_length. lia. }
        assert (filter inT (stream x) = skipn n A) as Hrest.
        { rewrite Hchain, skipn_app. replace (n - length A)%nat with 0%nat by lia. cbn [skipn].
          apply filter_shape; [|exact HB]. rewrite <- (firstn_skipn n A) in HA.
          apply Forall_app in HA. tauto. }
        assert (length A = n + length (skipn n A))%nat as Hsplit by (rewrite skipn_length; lia).
        assert (length A / n = 1 + length (skipn n A) / n)%nat as Hdiv.
        { rewrite Hsplit at 1. replace (n + length (skipn n A))%nat with (1 * n + length (skipn n A))%nat by lia.
          rewrite Nat.div_add_l by lia. reflexivity. }
        pose proof (wrap_rk x HTx) as Hw.
        destruct (rk x) as [|b0 r0] eqn:Erk.
        + assert (skipn n A = []) as Hnil by (rewrite <- Hrest; now apply (rk_empty_last c x)).
          eexists. split; [reflexivity|]. split.
          * cbn [map concat fst]. rewrite app_nil_r. rewrite <- (firstn_skipn n A) at 2. now rewrite Hnil, app_nil_r.
          * cbn [length]. lia.
        + rewrite <- Hw in Hrest.
          destruct (IH (b0 :: r0)) as [pages [Hit [Hcat Hcnt]]]; [rewrite Hrest; lia|].
          rewrite Hit. eexists. split; [reflexivity|]. split.
          * cbn [map concat fst]. rewrite Hcat, Hrest. apply firstn_skipn.
          * cbn [length]. rewrite Hrest in Hcnt. lia.
      - assert (firstn n (A ++ B) = A ++ firstn (n - length A) B) as Hpg.
        { rewrite firstn_app. now rewrite (firstn_all2 A) by lia. }
        rewrite Hpg in *.
        destruct (firstn (n - length A) B) as [|b B'] eqn:EB.
        + (* the table's rest, nothing behind it: one more call returns the empty page *)
          assert (B = []) as ->.
          { destruct B as [|b0 B0]; [reflexivity|]. destruct (n - length A)%nat eqn:En; [lia|discriminate]. }
          rewrite app_nil_r in *.
          assert (In x A) as HxA by (now apply last_opt_in in Hl).
          assert (inT x = true) as HTx by (rewrite Forall_forall in HA; now apply HA).
          rewrite HTx.
          assert (In x NL) as HxNL.
          { assert (In x (stream (wrap c))) as H by (rewrite HS; exact HxA). now apply stream_in in H. }
          assert (stream x = []) as Hchain.
          { rewrite (stream_chain (wrap c) (length A) x); [rewrite HS; apply skipn_all|rewrite HS, firstn_all; exact Hl|rewrite HS; lia]. }
          pose proof (wrap_rk x HTx) as Hw.
          destruct (rk x) as [|b0 r0] eqn:Erk.
          { eexists. split; [reflexivity|]. split; [cbn; now rewrite app_nil_r|cbn [length]; lia]. }
          rewrite <- Hw in Hchain.
          destruct f as [|f']; [lia|]. cbn [iterate]. rewrite call0_spec, Hchain, firstn_nil. cbn [last_opt].
          eexists. split; [reflexivity|]. split.
          * cbn. now rewrite app_nil_r.
          * cbn [length]. lia.
        + assert (Forall (fun x => inT x = false) (b :: B')) as HB'.
          { rewrite <- EB. rewrite <- (firstn_skipn (n - length A) B) in HB. apply Forall_app in HB. tauto. }
          rewrite last_opt_app in Hl by discriminate.
          assert (inT x = false) as HTx.
          { apply last_opt_in in Hl. rewrite Forall_forall in HB'. now apply HB'. }
          rewrite HTx. rewrite (cut_shape A (b :: B') HA HB').
          eexists. split; [reflexivity|]. split.
          * cbn. apply app_nil_r.
          * cbn [length]. lia.
    Qed.

    (* one request seen as a step on what remains to be delivered (used for the scan over several partitions,
       where the page size changes from request to request) *)
    Definition remaining (c : bytes) : list bytes := filter inT (stream (wrap c)).

    Lemma cut_step_common c (post : list bytes -> page) :
      (forall pg x, last_opt pg = Some x -> inT x = true -> length pg = n -> post pg = (pg, rk x)) ->
      (forall pg x, last_opt pg = Some x -> inT x = false -> post pg = (cut pg, [])) ->
      (post [] = ([], [])) ->
      (* the page is the table's whole rest, shorter than n: either the empty cursor, or the last key *)
      (forall pg x, last_opt pg = Some x -> inT x = true -> (length pg < n)%nat ->
                    post pg = (pg, []) \/ post pg = (pg, rk x)) ->
      exists items next rem',
        post (firstn n (stream (wrap c))) = (items, next) /\
        remaining c = items ++ rem' /\
        (next = [] -> rem' = []) /\
        (next <> [] -> items <> [] /\ rem' = remaining next).
    Proof.
      intros Hfull Hout Hnil Hshort. unfold remaining.
      destruct (stream_shape c) as [A [B [HS [HA HB]]]].
      rewrite HS. rewrite (filter_shape A B HA HB).
      destruct (last_opt (firstn n (A ++ B))) as [x|] eqn:Hl.
      2:{ assert (A ++ B = []) as Hnil2.
        { destruct (A ++ B) eqn:E; [reflexivity|]. exfalso.
          destruct (last_opt_some (firstn n (b :: l))) as [y Hy]; [apply firstn_nonempty; [exact n_pos|discriminate]|].
          congruence. }
        apply app_eq_nil in Hnil2. destruct Hnil2 as [-> ->]. cbn [app]. rewrite firstn_nil, Hnil.
        exists [], [], []. split; [reflexivity|]. split; [now rewrite ?app_nil_r|]. split; [reflexivity|intro Hne; congruence]. }
      destruct (Nat.le_gt_cases n (length A)) as [Hn|Hn].
      - assert (firstn n (A ++ B) = firstn n A) as Hpg.
        { rewrite firstn_app. replace (n - length A)%nat with 0%nat by lia. cbn [firstn]. apply app_nil_r. }
        rewrite Hpg in *.
        assert (In x A) as HxA.
        { apply last_opt_in in Hl. rewrite <- (firstn_skipn n A). apply in_or_app. now left. }
        assert (inT x = true) as HTx by (rewrite Forall_forall in HA; now apply HA).
        assert (In x NL) as HxNL.
        { assert (In x (stream (wrap c))) as H by (rewrite HS; apply in_or_app; now left).
          now apply stream_in in H. }
        assert (In x (stream (wrap c))) as HxS by (rewrite HS; apply in_or_app; now left).
        assert (stream x = skipn n (A ++ B)) as Hchain.
        { rewrite <- HS. apply stream_chain.
          - rewrite HS, firstn_app. replace (n - length A)%nat with 0%nat by lia.
            cbn [firstn]. rewrite app_nil_r. exact Hl.
          - rewrite HS, app_length. lia. }
        assert (filter inT (stream x) = skipn n A) as Hrest.
        { rewrite Hchain, skipn_app. replace (n - length A)%nat with 0%nat by lia. cbn [skipn].
          apply filter_shape; [|exact HB]. rewrite <- (firstn_skipn n A) in HA.
          apply Forall_app in HA. tauto. }
        rewrite (Hfull _ x Hl HTx) by (rewrite firstn_length; lia).
        exists (firstn n A), (rk x), (skipn n A). split; [reflexivity|]. split; [symmetry; apply firstn_skipn|].
        split.
        { intro Erk. rewrite <- Hrest. now apply (rk_empty_last c x). }
        intros _. split; [|now rewrite (wrap_rk x HTx), Hrest].
        apply firstn_nonempty; [exact n_pos|]. destruct A; [destruct HxA|discriminate].
      - assert (firstn n (A ++ B) = A ++ firstn (n - length A) B) as Hpg.
        { rewrite firstn_app. now rewrite (firstn_all2 A) by lia. }
        rewrite Hpg in *.
        destruct (firstn (n - length A) B) as [|b B'] eqn:EB.
        + assert (B = []) as ->.
          { destruct B as [|b0 B0]; [reflexivity|]. destruct (n - length A)%nat eqn:En; [lia|discriminate]. }
          rewrite app_nil_r in *.
          assert (In x A) as HxA by (now apply last_opt_in in Hl).
          assert (inT x = true) as HTx by (rewrite Forall_forall in HA; now apply HA).
          assert (In x NL) as HxNL.
          { assert (In x (stream (wrap c))) as H by (rewrite HS; exact HxA). now apply stream_in in H. }
          assert (stream (wrap (rk x)) = []) as Hchain.
          { rewrite wrap_rk by exact HTx.
            rewrite (stream_chain (wrap c) (length A) x); [rewrite HS; apply skipn_all|rewrite HS, firstn_all; exact Hl|rewrite HS; lia]. }
          destruct (Hshort A x Hl HTx Hn) as [E|E]; rewrite E.
          * exists A, [], []. split; [reflexivity|]. split; [now rewrite ?app_nil_r|]. split; [reflexivity|intro Hne; congruence].
          * exists A, (rk x), []. split; [reflexivity|]. split; [now rewrite app_nil_r|]. split; [reflexivity|].
            intros _. split; [destruct A; [destruct HxA|discriminate]|]. now rewrite Hchain.
        + assert (Forall (fun x => inT x = false) (b :: B')) as HB'.
          { rewrite <- EB. rewrite <- (firstn_skipn (n - length A) B) in HB. apply Forall_app in HB. tauto. }
          rewrite last_opt_app in Hl by discriminate.
          assert (inT x = false) as HTx.
          { apply last_opt_in in Hl. rewrite Forall_forall in HB'. now apply HB'. }
          rewrite (Hout (A ++ b :: B') x); [|rewrite last_opt_app by discriminate; exact Hl|exact HTx].
          rewrite (cut_shape A (b :: B') HA HB').
          exists A, [], []. split; [reflexivity|]. split; [now rewrite ?app_nil_r|]. split; [reflexivity|intro Hne; congruence].
    Qed.

    Lemma cut_step c : exists items next rem',
      node_post (firstn n (stream (wrap c))) = (items, next) /\
      remaining c = items ++ rem' /\
      (next = [] -> rem' = []) /\
      (next <> [] -> items <> [] /\ rem' = remaining next).
    Proof.
      apply (cut_step_common c node_post); unfold node_post.
      - intros pg x Hl HT Hlen. rewrite Hl, HT, Hlen, Nat.ltb_irrefl. reflexivity.
      - intros pg x Hl HT. now rewrite Hl, HT.
      - reflexivity.
      - intros pg x Hl HT Hlen. left. rewrite Hl, HT.
        now replace (length pg <? n)%nat with true by (symmetry; apply Nat.ltb_lt; exact Hlen).
    Qed.

    Lemma cut_step0 c : exists items next rem',
      node_post0 (firstn n (stream (wrap c))) = (items, next) /\
      remaining c = items ++ rem' /\
      (next = [] -> rem' = []) /\
      (next <> [] -> items <> [] /\ rem' = remaining next).
    Proof.
      apply (cut_step_common c node_post0); unfold node_post0.
      - intros pg x Hl HT _. now rewrite Hl, HT.
      - intros pg x Hl HT. now rewrite Hl, HT.
      - reflexivity.
      - intros pg x Hl HT _. right. now rewrite Hl, HT.
    Qed.
  End Cut.
End Gen.
