(* driver for the C18 model: reads event lines on stdin (one sequence after the other, an "I" line
   starts a sequence), keeps the model state, prints "<id>\t<ret> | <attempts> | <state>" *)
open Model
open Vio

let ints s = if s = "-" || s = "" then [] else List.map n_of_dec (split_on ',' s)
let pairs s =
  if s = "-" || s = "" then [] else
  List.map (fun p -> match split_on ':' p with
    | [a; b] -> (n_of_dec a, n_of_dec b) | _ -> failwith ("bad pair " ^ p)) (split_on ',' s)
let triples s =
  if s = "-" || s = "" then [] else
  List.map (fun p -> match split_on ':' p with
    | [a; b; c] -> (n_of_dec a, (n_of_dec c, n_of_dec b)) | _ -> failwith ("bad triple " ^ p)) (split_on ',' s)
let place s = if s = "panic" then PPanic else if s = "x" || s = "short" || s = "nondet" then PErr else PList (ints s)

let join l = if l = [] then "-" else String.concat "," l
let sort_by_key l = List.sort (fun (a, _) (b, _) -> compare (int_of_n a) (int_of_n b)) l
let info_str (i : rinfo) =
  Printf.sprintf "n=%s i=%s r=%s m=%s l=%s"
    (join (List.map dec_of_n i.raft_nodes))
    (join (List.map (fun (k, v) -> dec_of_n k ^ ":" ^ dec_of_n v) (sort_by_key i.raft_ids)))
    (join (List.map (fun (k, (t, id)) -> dec_of_n k ^ ":" ^ dec_of_n id ^ ":" ^ dec_of_n t) (sort_by_key i.removings)))
    (dec_of_n i.max_id)
    (join (List.map dec_of_n i.learners))
let code_str = function
  | COk -> "ok" | CChanged -> "changed" | CWaiting -> "waiting" | CNoNode -> "nonode"
  | CConfInvalid -> "confinvalid" | CRegUnstable -> "regunstable" | CWaitSync -> "waitsync"
  | CConflict -> "conflict" | CNoRaftId -> "noraftid" | CNotEnough -> "notenough" | CRegErr -> "regerr"
  | CNone -> "-" | CPanic -> "panic"
let ret_str = function RCode c -> code_str c | RBool b -> if b then "true" else "false" | RNone -> "-"
  | RPair (a, b) -> (if a then "true" else "false") ^ "," ^ (if b then "true" else "false")
  | RPanic -> "panic"
  | RL LOk -> "lok" | RL LErr -> "lerr" | RL LRegErr -> "lregerr"
let rm_str = function RMarked -> "marked" | RPending -> "pending" | RTransferred -> "data_transferred" | RDone -> "done"
let b01 b = if b then "1" else "0"
let atts_str (l : attempt list) =
  if l = [] then "-" else
  String.concat "" (List.map (fun a ->
    Printf.sprintf "{%s g=%s %s}" (info_str a.a_value) (dec_of_n a.a_gen) (if a.a_ok then "ok" else "fail")) l)
let state_str (s : st) =
  Printf.sprintf "reg[%s e=%s] wait=%s un=%s au=%s ne=%s st=%s dn=%s rn=%s fail=%s ln=%s ls=%s rp=%s up=%s md=%s"
    (info_str s.s_reg.r_info) (dec_of_n s.s_reg.r_info.epoch)
    (match s.s_waiting with None -> "-" | Some t -> dec_of_n t)
    (b01 s.s_unstable) (b01 s.s_auto) (dec_of_n s.s_nepoch) (dec_of_n s.s_stable)
    (join (List.map dec_of_n (List.sort (fun a b -> compare (int_of_n a) (int_of_n b)) s.s_nodes)))
    (join (List.map (fun (k, v) -> dec_of_n k ^ ":" ^ rm_str v) (sort_by_key s.s_rmnodes)))
    (dec_of_n s.s_reg.r_fail)
    (join (List.map (fun (k, _) -> dec_of_n k) (sort_by_key s.s_lnodes)))
    (match s.s_lstart with None -> "-" | Some true -> "1" | Some false -> "0")
    (dec_of_n s.s_replica) (b01 s.s_upgrading) (dec_of_n s.s_reg.r_mode)

let parse_answers s =
  List.map (fun p ->
    match String.index_opt p '=' with
    | None -> failwith ("bad answer " ^ p)
    | Some i ->
      let k = n_of_dec (String.sub p 0 i) and v = String.sub p (i + 1) (String.length p - i - 1) in
      if v = "!" then (k, None) else
      (match split_on '/' v with
       | [m; sy] ->
         let ms = if m = "x" then None else Some (pairs m) in
         (k, Some (ms, sy = "1"))
       | _ -> failwith ("bad answer " ^ p))) (split_on ';' s)

let parse_lnodes s =
  if s = "-" || s = "" then [] else
  List.map (fun p ->
    let n = String.length p in
    if n > 0 && p.[n - 1] = '!' then (n_of_dec (String.sub p 0 (n - 1)), false) else (n_of_dec p, true)) (split_on ',' s)

let cur : st option ref = ref None

let () =
  read_lines stdin (fun line ->
    match split_on '\t' line with
    | id :: "I" :: replica :: nodes :: ids :: rms :: maxid :: auto :: rest ->
      let lrn = (match rest with _ver :: l :: _ -> ints l | _ -> []) in
      let info = { raft_nodes = ints nodes; raft_ids = pairs ids; removings = triples rms;
                   max_id = n_of_dec maxid; learners = lrn; epoch = n_of_int 1 } in
      let s = init_state (n_of_dec replica) info (auto = "1") in
      cur := Some s;
      Printf.printf "%s\t- | - | %s\n" id (state_str s)
    | id :: "Z" :: replica :: _pnum :: nodes :: _ver :: pl :: _ ->
      let place = if pl = "x" || pl = "panic" || pl = "" then None
                  else Some (List.map ints (split_on ';' pl)) in
      let (c, parts) = create_namespace (n_of_dec replica) (n_of_int (List.length (ints nodes))) place in
      let ws = List.concat (List.mapi (fun p o -> match o with
          | None -> []
          | Some i -> [Printf.sprintf "{p=%d %s g=0 ok}" p (info_str i)]) parts) in
      Printf.printf "%s\t%s | %s\n" id (match c with COk -> "ok" | CNoNode -> "nonode" | _ -> "err")
        (if ws = [] then "-" else String.concat "" ws)
    | id :: kind :: f ->
      (match !cur with
       | None -> Printf.printf "%s\tno-sequence\n" id
       | Some s ->
         let ev = (match kind, f with
           | "N", l :: ll :: _ -> Some (ENodes (ints l, parse_lnodes ll))
           | "N", l :: _ -> Some (ENodes (ints l, []))
           | "A", l :: _ -> Some (EAnswer (parse_answers l))
           | "T", d :: _ -> Some (ETick (n_of_dec d))
           | "C", full :: _single :: pa :: pv :: _ -> Some (ECheck (full = "1", place pa, place pv))
           | "M", d :: p :: _ -> Some (EMigrate (n_of_dec d, place p))
           | "D", k :: _ -> Some (EAdd (n_of_dec k))
           | "R", k :: _ -> Some (ERemove (n_of_dec k))
           | "F", _ -> Some EFinish
           | "X", k :: _ -> Some (EFail (n_of_dec k))
           | "O", b :: _ -> Some (EAuto (b = "1"))
           | "B", p :: _ -> Some (EBalance (place p))
           | "K", k :: _ -> Some (EMarkNode (n_of_dec k))
           | "P", p :: _ -> Some (EProcess (place p))
           | "LC", _ -> Some ELCheck
           | "LS", b :: _ -> Some (ELStart (b = "1"))
           | "LA", k :: _ -> Some (ELAdd (n_of_dec k))
           | "LL", k :: _ -> Some (ELLeader (n_of_dec k))
           | "LR", k :: c :: _ -> Some (ELRemove (n_of_dec k, c = "1"))
           | "LX", _ -> Some ELRemoveAll
           | "G", r :: _ -> Some (EReplica (n_of_dec r))
           | "U", b :: _ -> Some (EUpgrade (b = "1"))
           | "Y", m :: _ -> Some (ERegMode (n_of_dec m))
           | _ -> None) in
         (match ev with
          | None -> Printf.printf "%s\tunsupported\n" id
          | Some ev ->
            let ((s', r), w) = step s ev in
            cur := Some s';
            Printf.printf "%s\t%s | %s | %s\n" id (ret_str r) (atts_str w) (state_str s')))
    | _ -> ())
