(* driver for the C18 model: reads event lines on stdin (one sequence after the other, an "I" line
   starts a sequence), keeps the multi-partition model state, prints "<id>\t<ret> | <attempts> | <state>" *)
open Model
open Vio

let ints s = if s = "-" || s = "" then [] else List.map n_of_dec (split_on ',' s)
let pairs s =
  if s = "-" || s = "" then [] else
  List.map (fun p -> match split_on ':' p with
    | [a; b] -> (n_of_dec a, n_of_dec b) | _ -> failwith ("bad pair " ^ p)) (split_on ',' s)
let triples s =
  if s = "-" || s = "" then [] else
  List.map (fun p -> match split_on ':' p with
    | [a; b; c] -> (n_of_dec a, (n_of_dec c, n_of_dec b)) | _ -> failwith ("bad triple " ^ p)) (split_on ',' s)
let place s = if s = "panic" then PPanic else if s = "x" || s = "short" || s = "nondet" || s = "" then PErr else PList (ints s)
let mplace s =
  if s = "panic" then MPPanic else if s = "x" || s = "nondet" || s = "" then MPErr
  else MPLists (List.map ints (split_on '|' s))

let join l = if l = [] then "-" else String.concat "," l
let sort_by_key l = List.sort (fun (a, _) (b, _) -> compare (int_of_n a) (int_of_n b)) l
let info_str (i : rinfo) =
  Printf.sprintf "n=%s i=%s r=%s m=%s l=%s"
    (join (List.map dec_of_n i.raft_nodes))
    (join (List.map (fun (k, v) -> dec_of_n k ^ ":" ^ dec_of_n v) (sort_by_key i.raft_ids)))
    (join (List.map (fun (k, (t, id)) -> dec_of_n k ^ ":" ^ dec_of_n id ^ ":" ^ dec_of_n t) (sort_by_key i.removings)))
    (dec_of_n i.max_id)
    (join (List.map dec_of_n i.learners))
let code_str = function
  | COk -> "ok" | CChanged -> "changed" | CWaiting -> "waiting" | CNoNode -> "nonode"
  | CConfInvalid -> "confinvalid" | CRegUnstable -> "regunstable" | CWaitSync -> "waitsync"
  | CConflict -> "conflict" | CNoRaftId -> "noraftid" | CNotEnough -> "notenough" | CRegErr -> "regerr"
  | CNone -> "-" | CPanic -> "panic"
let ret_str = function RCode c -> code_str c | RBool b -> if b then "true" else "false" | RNone -> "-"
  | RPair (a, b) -> (if a then "true" else "false") ^ "," ^ (if b then "true" else "false")
  | RPanic -> "panic"
  | RL LOk -> "lok" | RL LErr -> "lerr" | RL LRegErr -> "lregerr"
let rm_str = function RMarked -> "marked" | RPending -> "pending" | RTransferred -> "data_transferred" | RDone -> "done"
let b01 b = if b then "1" else "0"
let atts_str (l : (n * attempt) list) =
  if l = [] then "-" else
  String.concat "" (List.map (fun (pid, a) ->
    Printf.sprintf "{p=%s %s g=%s %s}" (dec_of_n pid) (info_str a.a_value) (dec_of_n a.a_gen) (if a.a_ok then "ok" else "fail")) l)
let state_str (m : mst) =
  let s = m.m_g in
  Printf.sprintf "reg[%s] un=%s au=%s ne=%s st=%s dn=%s rn=%s fail=%s ln=%s ls=%s rp=%s up=%s md=%s"
    (String.concat " ; " (List.map (fun (pid, sl) ->
       Printf.sprintf "%s:%s e=%s w=%s" (dec_of_n pid) (info_str sl.p_info) (dec_of_n sl.p_info.epoch)
         (match sl.p_wait with None -> "-" | Some t -> dec_of_n t)) (sort_by_key m.m_parts)))
    (b01 s.s_unstable) (b01 s.s_auto) (dec_of_n s.s_nepoch) (dec_of_n s.s_stable)
    (join (List.map dec_of_n (List.sort (fun a b -> compare (int_of_n a) (int_of_n b)) s.s_nodes)))
    (join (List.map (fun (k, v) -> dec_of_n k ^ ":" ^ rm_str v) (sort_by_key s.s_rmnodes)))
    (dec_of_n s.s_reg.r_fail)
    (join (List.map (fun (k, _) -> dec_of_n k) (sort_by_key s.s_lnodes)))
    (match s.s_lstart with None -> "-" | Some true -> "1" | Some false -> "0")
    (dec_of_n s.s_replica) (b01 s.s_upgrading) (dec_of_n s.s_reg.r_mode)

let parse_answers s =
  List.map (fun p ->
    match String.index_opt p '=' with
    | None -> failwith ("bad answer " ^ p)
    | Some i ->
      let k = n_of_dec (String.sub p 0 i) and v = String.sub p (i + 1) (String.length p - i - 1) in
      if v = "!" then (k, None) else
      (match split_on '/' v with
       | [m; sy] ->
         let ms = if m = "x" || m = "n" then None else Some (pairs m) in
         (k, Some (ms, sy = "1"))
       | _ -> failwith ("bad answer " ^ p))) (split_on ';' s)

let parse_lnodes s =
  if s = "-" || s = "" then [] else
  List.map (fun p ->
    let n = String.length p in
    if n > 0 && p.[n - 1] = '!' then (n_of_dec (String.sub p 0 (n - 1)), false) else (n_of_dec p, true)) (split_on ',' s)

let parse_part (f : string) : rinfo =
  match split_on ';' f with
  | nodes :: ids :: rms :: maxid :: rest ->
    { raft_nodes = ints nodes; raft_ids = pairs ids; removings = triples rms; max_id = n_of_dec maxid;
      learners = (match rest with l :: _ -> ints l | [] -> []); epoch = n_of_int 1 }
  | _ -> failwith ("bad partition " ^ f)

(* "pid=pa/pv;pid=pa/pv" *)
let parse_probes s =
  if s = "-" || s = "" then [] else
  List.map (fun p ->
    match String.index_opt p '=' with
    | None -> failwith ("bad probe " ^ p)
    | Some i ->
      let pid = n_of_dec (String.sub p 0 i) and v = String.sub p (i + 1) (String.length p - i - 1) in
      (match split_on '/' v with
       | [a; b] -> (pid, (place a, place b))
       | _ -> failwith ("bad probe " ^ p))) (split_on ';' s)

let cur : mst option ref = ref None

let run_events (m : mst) (evs : mevent list) : (mst * ret) * (n * attempt) list =
  List.fold_left (fun ((m, _), w) e -> let ((m', r), w') = mstep m e in ((m', r), w @ w')) ((m, RNone), []) evs

let () =
  read_lines stdin (fun line ->
    match split_on '\t' line with
    | id :: "Z" :: replica :: _pnum :: nodes :: _ver :: pl :: _ ->
      let place = if pl = "x" || pl = "panic" || pl = "" then None
                  else Some (List.map ints (split_on ';' pl)) in
      let (c, parts) = create_namespace (n_of_dec replica) (n_of_int (List.length (ints nodes))) place in
      let ws = List.concat (List.mapi (fun p o -> match o with
          | None -> []
          | Some i -> [Printf.sprintf "{p=%d %s g=0 ok}" p (info_str i)]) parts) in
      Printf.printf "%s\t%s | %s\n" id (match c with COk -> "ok" | CNoNode -> "nonode" | _ -> "err")
        (if ws = [] then "-" else String.concat "" ws)
    | id :: "I" :: replica :: auto :: _ver :: parts ->
      let ps = List.mapi (fun i f -> (n_of_int i, parse_part f)) parts in
      let m = minit (n_of_dec replica) ps (auto = "1") in
      cur := Some m;
      Printf.printf "%s\t- | - | %s\n" id (state_str m)
    | id :: kind :: f ->
      (match !cur with
       | None -> Printf.printf "%s\tno-sequence\n" id
       | Some m ->
         let pids = List.map fst (sort_by_key m.m_parts) in
         let on pid e = [MOn (n_of_dec pid, e)] in
         let evs = (match kind, f with
           | "N", l :: ll :: _ -> Some [MGlobal (ENodes (ints l, parse_lnodes ll))]
           | "N", l :: _ -> Some [MGlobal (ENodes (ints l, []))]
           | "A", fs -> Some (List.map (fun x ->
               match String.index_opt x '@' with
               | None -> failwith ("bad answers " ^ x)
               | Some i -> MOn (n_of_dec (String.sub x 0 i),
                                EAnswer (parse_answers (String.sub x (i + 1) (String.length x - i - 1))))) fs)
           | "T", d :: _ -> Some [MGlobal (ETick (n_of_dec d))]
           | "C", order :: probes :: _ -> Some [MCheckAll (true, ints order, parse_probes probes)]
           | "CS", pid :: pa :: pv :: _ -> Some (on pid (ECheck (false, place pa, place pv)))
           | "M", pid :: d :: p :: _ -> Some (on pid (EMigrate (n_of_dec d, place p)))
           | "D", pid :: k :: _ -> Some (on pid (EAdd (n_of_dec k)))
           | "R", pid :: k :: _ -> Some (on pid (ERemove (n_of_dec k)))
           | "F", pid :: _ -> Some (on pid EFinish)
           | "W", pid :: k :: snap :: p :: _ ->
             Some [MOn (n_of_dec pid, EAdd (n_of_dec k)); MOn (n_of_dec pid, EAddWait (ints snap, place p))]
           | "X", k :: _ -> Some [MGlobal (EFail (n_of_dec k))]
           | "O", b :: _ -> Some [MGlobal (EAuto (b = "1"))]
           | "B", order :: p :: _ -> Some [MBalance (ints order, mplace p)]
           | "K", k :: _ -> Some [MGlobal (EMarkNode (n_of_dec k))]
           | "P", acted :: p :: _ ->
             (* which partition the node-removal round acted on is Go map order; the implementation shows it only
                through an update attempt. Without one, any partition on which the round is silent explains it. *)
             let mp = mplace p in
             let order_with first = first :: List.filter (fun x -> x <> first) pids in
             if acted <> "-" then Some [MProcess (order_with (n_of_dec acted), mp)]
             else
               let silent first = (match mstep m (MProcess (order_with first, mp)) with (_, w) -> w = []) in
               (match List.filter silent pids with
                | first :: _ -> Some [MProcess (order_with first, mp)]
                | [] -> Some [MProcess (pids, mp)])
           | "LC", order :: _ -> Some [MLCheck (ints order)]
           | "LS", b :: _ -> Some [MGlobal (ELStart (b = "1"))]
           | "LA", pid :: k :: _ -> Some (on pid (ELAdd (n_of_dec k)))
           | "LL", pid :: k :: _ -> Some (on pid (ELLeader (n_of_dec k)))
           | "LR", pid :: k :: c :: _ -> Some (on pid (ELRemove (n_of_dec k, c = "1")))
           | "LX", pid :: _ -> Some (on pid ELRemoveAll)
           | "G", r :: _ -> Some [MGlobal (EReplica (n_of_dec r))]
           | "U", b :: _ -> Some [MGlobal (EUpgrade (b = "1"))]
           | "Y", md :: _ -> Some [MGlobal (ERegMode (n_of_dec md))]
           | _ -> None) in
         (match evs with
          | None -> Printf.printf "%s\tunsupported\n" id
          | Some evs ->
            let ((m', r), w) = run_events m evs in
            cur := Some m';
            Printf.printf "%s\t%s | %s | %s\n" id (ret_str r) (atts_str w) (state_str m')))
    | _ -> ())
