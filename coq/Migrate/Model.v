(* Migrate/Model.v — C18: the placement driver's replica-migration decisions.
   Hand-written model of (cluster/pdnode_coord/pd_coordinator.go unless said otherwise):
     cluster/register.go     PartitionReplicaInfo, GetISR, IsISRQuorum
     place_driver.go         IsRaftNodeFullReady, IsAllISRFullReady, IsRaftNodeSynced, IsRaftNodeJoined,
                             allocNodeForNamespace, checkNamespaceNodeConflict, decideUnwantedRaftNode,
                             addNodeToNamespaceAndWaitReady, rebalanceNamespace
     pd_coordinator.go       handleDataNodes (loop body), doCheckNamespaces, handleNamespaceMigrate,
                             addNamespaceToNode, removeNamespaceFromNode, removeNamespaceFromRemovings,
                             processRemovingNodes, checkIfAnyPending
     pd_api.go               MarkNodeAsRemoving, SwitchAutoBalance, CreateNamespace / checkAndUpdateNamespacePartitions
     pd_learner_coord.go     doCheckNamespacesForLearner, addNsLearnerToNode, updateNsLearnerLeader,
                             removeNsLearnerFromNode, removeNsAllLearners, SwitchStartLearner (the learner placement
                             driver: a second coordinator process writing the same register key)
     PDRegister.UpdateNamespacePartReplicaInfo  (compare-and-swap on the modification index)
   Scope: one namespace with one partition. What the coordinator cannot decide itself enters as data:
   the registered data-node set, the HTTP answers of the data nodes (member list / synced), the clock,
   register failures, and the node list proposed by the placement function (C17's subject) are all part
   of the state or of the event. Go maps are association lists; the driver prints them sorted.
   No proofs in this file. *)
From Coq Require Export List NArith Bool Lia.
Export ListNotations.
From ZV Require Import Migrate.Consts.
Open Scope N_scope.

(* ---------- association lists (Go maps keyed by node id) ---------- *)
Definition mem (k : N) (l : list N) : bool := existsb (N.eqb k) l.
Fixpoint aget {A} (k : N) (m : list (N * A)) : option A :=
  match m with
  | [] => None
  | (k', v) :: r => if k' =? k then Some v else aget k r
  end.
Definition ahas {A} (k : N) (m : list (N * A)) : bool :=
  match aget k m with Some _ => true | None => false end.
Definition aremove {A} (k : N) (m : list (N * A)) : list (N * A) :=
  filter (fun e => negb (fst e =? k)) m.
Definition aset {A} (k : N) (v : A) (m : list (N * A)) : list (N * A) := aremove k m ++ [(k, v)].
Definition len {A} (l : list A) : N := N.of_nat (length l).
Fixpoint nodupb (l : list N) : bool :=
  match l with
  | [] => true
  | x :: r => negb (mem x r) && nodupb r
  end.

(* ---------- cluster.PartitionReplicaInfo ---------- *)
Record rinfo := mkInfo {
  raft_nodes : list N;                 (* RaftNodes, in order *)
  raft_ids   : list (N * N);           (* RaftIDs: node -> replica id *)
  removings  : list (N * (N * N));     (* Removings: node -> (RemoveTime, RemoveReplicaID) *)
  max_id     : N;                      (* MaxRaftID *)
  learners   : list N;                 (* LearnerNodes[role] of the one learner role, in order; their ids live in RaftIDs too *)
  epoch      : N                       (* register modification index the value was read at *)
}.
Definition set_epoch (i : rinfo) (e : N) : rinfo :=
  mkInfo (raft_nodes i) (raft_ids i) (removings i) (max_id i) (learners i) e.

(* GetISR *)
Definition isr (i : rinfo) : list N := filter (fun n => negb (ahas n (removings i))) (raft_nodes i).
(* PartitionMetaInfo.IsISRQuorum *)
Definition is_quorum (replica : N) (i : rinfo) : bool := replica / 2 <? len (isr i).
(* RaftIDs[n] with Go's zero value for a missing key *)
Definition raft_id_of (i : rinfo) (n : N) : N := match aget n (raft_ids i) with Some x => x | None => 0 end.
(* Removings[n] = RemovingInfo{now, RaftIDs[n]} *)
Definition mark_removing (i : rinfo) (n now : N) : rinfo :=
  mkInfo (raft_nodes i) (raft_ids i) (aset n (now, raft_id_of i n) (removings i)) (max_id i) (learners i) (epoch i).
(* MaxRaftID++ ; RaftIDs[n] = MaxRaftID ; RaftNodes = append(RaftNodes, n) *)
Definition add_node (i : rinfo) (n : N) : rinfo :=
  mkInfo (raft_nodes i ++ [n]) (aset n (max_id i + 1) (raft_ids i)) (removings i) (max_id i + 1) (learners i) (epoch i).
Definition drop_node (i : rinfo) (n : N) : rinfo :=
  mkInfo (filter (fun x => negb (x =? n)) (raft_nodes i)) (aremove n (raft_ids i)) (aremove n (removings i))
         (max_id i) (learners i) (epoch i).

(* ---------- answers of the data nodes (HTTP) ---------- *)
(* node -> (members answer (None = request fails), synced answer); a node without entry is unreachable *)
Definition answers := list (N * (option (list (N * N)) * bool)).
Definition members_of (env : answers) (n : N) : option (list (N * N)) :=
  match aget n env with Some (Some ms, _) => Some ms | _ => None end.
Definition synced_of (env : answers) (n : N) : bool :=
  match aget n env with Some (_, s) => s | None => false end.
Definition has_member (ms : list (N * N)) (n id : N) : bool :=
  existsb (fun m => (fst m =? n) && (snd m =? id)) ms.

(* IsRaftNodeFullReady *)
Definition node_full_ready (env : answers) (i : rinfo) (nid : N) : bool :=
  match raft_nodes i with
  | [] => false
  | _ => forallb (fun remote =>
           match members_of env remote with
           | None => false
           | Some ms => has_member ms nid (raft_id_of i nid) && synced_of env remote
           end) (isr i)
  end.
(* IsAllISRFullReady (ok && err == nil) *)
Definition all_ready (env : answers) (i : rinfo) : bool := forallb (node_full_ready env i) (isr i).
(* IsRaftNodeJoined: inRaft || err != nil *)
Definition joined_or_err (env : answers) (i : rinfo) (nid : N) : bool :=
  match raft_nodes i with
  | [] => false
  | _ => existsb (fun remote =>
           negb (remote =? nid) &&
           match members_of env remote with
           | None => true
           | Some ms => has_member ms nid (raft_id_of i nid)
           end) (isr i)
  end.

(* ---------- the register (one stored value, CAS on its modification index) ---------- *)
(* r_mode: 0 = healthy; 1 = etcd unreachable but the register's namespace cache still serves reads
   (GetRemoteNamespaceReplicaInfo, the KV store and every update fail); 2 = every read and update fails *)
Record reg := mkReg { r_info : rinfo; r_counter : N; r_fail : N; r_mode : N }.
(* an update attempt: the stored value before it, the value passed, the old generation passed, the outcome *)
Record attempt := mkAtt { a_before : rinfo; a_value : rinfo; a_gen : N; a_ok : bool }.

Definition reg_update (r : reg) (v : rinfo) (gen : N) : reg * option rinfo * attempt :=
  if 0 <? r_mode r then (r, None, mkAtt (r_info r) v gen false)
  else if 0 <? r_fail r then
    (mkReg (r_info r) (r_counter r) (r_fail r - 1) (r_mode r), None, mkAtt (r_info r) v gen false)
  else if gen =? epoch (r_info r) then
    let c := r_counter r + 1 in
    let v' := set_epoch v c in
    (mkReg v' c (r_fail r) (r_mode r), Some v', mkAtt (r_info r) v gen true)
  else (r, None, mkAtt (r_info r) v gen false).

Inductive code :=
  | COk | CChanged | CWaiting | CNoNode | CConfInvalid | CRegUnstable | CWaitSync | CConflict
  | CNoRaftId | CNotEnough | CRegErr | CNone | CPanic.

(* result of a decision procedure: code, register, the caller's (possibly updated) copy, attempts made *)
Definition outcome := (code * reg * rinfo * list attempt)%type.

(* ---------- removeNamespaceFromRemovings ---------- *)
Definition finish_step (env : answers) (now : N) (acc : rinfo * bool) (e : N * (N * N)) : rinfo * bool :=
  let '(cur, changed) := acc in
  let '(nid, (rt, _)) := e in
  if rt =? 0 then acc
  else if now - rt <? wait_removing then acc
  else if joined_or_err env cur nid then acc
  else let nodes := filter (fun x => negb (x =? nid)) (raft_nodes cur) in
       if len nodes <? 1 then acc
       else (drop_node cur nid, true).

Definition remove_from_removings (replica : N) (env : answers) (now : N) (r : reg) (info : rinfo) : outcome :=
  let '(ns, changed) := fold_left (finish_step env now) (removings info) (info, false) in
  if changed && is_quorum replica ns then
    match reg_update r ns (epoch ns) with
    | (r', Some ns', a) => (CNone, r', ns', [a])
    | (r', None, a) => (CNone, r', info, [a])
    end
  else (CNone, r, info, []).

(* ---------- the placement function's answer for this partition (getRebalancedNamespacePartitions) ----------
   PErr: it refuses (fewer nodes than replicas); PPanic: it panics (nil type assertion in getMinMaxLoadFor*,
   observed on the real code when every candidate node is excluded); PList l: the proposed replica list. *)
Inductive placement := PErr | PPanic | PList (l : list N).

(* allocNodeForNamespace; None = Go panic *)
Definition alloc_node (place : placement) (cur : list N) (i : rinfo) : option (option N) :=
  match place with
  | PErr => Some None
  | PPanic => None
  | PList l => match find (fun n => negb (mem n (raft_nodes i))) l with
               | Some n => if mem n cur then Some (Some n) else Some None
               | None => Some None
               end
  end.

(* ---------- handleNamespaceMigrate ---------- *)
Fixpoint mig_loop (replica : N) (env : answers) (cur : list N) (now : N)
         (l : list N) (alive : N) (ns : rinfo) (chg : bool) : option (N * rinfo * bool) :=
  match l with
  | [] => Some (alive, ns, chg)
  | rp :: l' =>
      if mem rp cur then
        if synced_of env rp then mig_loop replica env cur now l' (alive + 1) ns chg else None
      else if ahas rp (removings ns) then mig_loop replica env cur now l' alive ns chg
      else if (len (removings ns) =? 0) && (replica / 2 + 1 <? len (isr ns))
           then mig_loop replica env cur now l' alive (mark_removing ns rp now) true
           else mig_loop replica env cur now l' alive ns chg
  end.

Definition handle_migrate (replica : N) (env : answers) (now : N) (r : reg) (nepoch : N)
           (info : rinfo) (cur : list N) (ep : N) (place : placement) : outcome :=
  if negb (ep =? nepoch) then (CChanged, r, info, [])
  else if 0 <? len (removings info) then (CWaiting, r, info, [])
  else match mig_loop replica env cur now (raft_nodes info) 0 info false with
  | None => (CWaiting, r, info, [])
  | Some (alive, ns, chg) =>
      if (0 <? len (removings ns)) && (alive <=? replica / 2) then (CWaiting, r, info, [])
      else if (len cur <? replica) && (0 <? len (removings ns)) then (CNoNode, r, info, [])
      else
        let '(ns2, chg2, panic) :=
          if len (removings ns) =? 0 then
            if all_ready env ns then
              if alive <? replica then
                match alloc_node place cur ns with
                | Some (Some n) => (add_node ns n, true, false)
                | Some None => (ns, chg, false)
                | None => (ns, chg, true)
                end
              else (ns, chg, false)
            else (ns, chg, false)
          else (ns, chg, false) in
        if panic then (CPanic, r, info, [])
        else if chg2 && is_quorum replica ns2 then
          if 1 <? len (removings ns2) then (CConfInvalid, r, info, [])
          else match reg_update r ns2 (epoch ns2) with
               | (r', Some ns', a) => (COk, r', ns', [a])
               | (r', None, a) => (CRegUnstable, r', info, [a])
               end
        else (CWaiting, r, info, [])
  end.

(* ---------- addNamespaceToNode ---------- *)
Definition add_to_node (r : reg) (info : rinfo) (nid : N) : outcome :=
  if 0 <? len (removings info) then (CWaitSync, r, info, [])
  else if negb (nodupb (raft_nodes info ++ [nid])) then (CConflict, r, info, [])
  else let ns := add_node info nid in
       match reg_update r ns (epoch ns) with
       | (r', Some ns', a) => (COk, r', ns', [a])
       | (r', None, a) => (CRegErr, r', info, [a])
       end.

(* ---------- removeNamespaceFromNode ---------- *)
Definition remove_from_node (replica : N) (now : N) (r : reg) (info : rinfo) (nid : N) : outcome :=
  if ahas nid (removings info) then (COk, r, info, [])
  else if negb (ahas nid (raft_ids info)) then (CNoRaftId, r, info, [])
  else if negb (is_quorum replica info) then (CNotEnough, r, info, [])
  else if 0 <? len (removings info) then (CWaiting, r, info, [])
  else let ns := mark_removing info nid now in
       if negb (is_quorum replica ns) || (1 <? len (removings ns)) then (CNotEnough, r, info, [])
       else match reg_update r ns (epoch ns) with
            | (r', Some ns', a) => (COk, r', ns', [a])
            | (r', None, a) => (CRegErr, r', info, [a])
            end.

(* ---------- decideUnwantedRaftNode: the last ISR node outside the proposed list ---------- *)
Definition decide_unwanted (place : placement) (i : rinfo) : option (option N) :=
  match place with
  | PErr => Some None
  | PPanic => None
  | PList l => Some (fold_left (fun acc n => if mem n l then acc else Some n) (isr i) None)
  end.

(* ---------- coordinator state ---------- *)
Inductive rmstate := RMarked | RPending | RTransferred | RDone.

Record st := mkSt {
  s_replica  : N;
  s_reg      : reg;
  s_ans      : answers;
  s_nodes    : list N;            (* dataNodes *)
  s_nepoch   : N;                 (* nodesEpoch *)
  s_stable   : N;                 (* stableNodeNum *)
  s_unstable : bool;              (* isClusterUnstable *)
  s_auto     : bool;              (* autoBalance *)
  s_waiting  : option N;          (* waitingMigrateNamespace[ns][partition] *)
  s_rmnodes  : list (N * rmstate);(* removingNodes *)
  s_now      : N;                 (* clock, minutes *)
  (* the learner placement driver (a second coordinator process on the same register) *)
  s_lnodes   : list (N * bool);   (* its learnerNodes: node, whether the node has this driver's learner role *)
  s_lstart   : option bool;       (* the register's "need_start_learner" key: unset / false / true *)
  s_upgrading : bool              (* isUpgrading *)
}.

Definition upd_reg (s : st) (r : reg) : st :=
  mkSt (s_replica s) r (s_ans s) (s_nodes s) (s_nepoch s) (s_stable s) (s_unstable s) (s_auto s)
       (s_waiting s) (s_rmnodes s) (s_now s) (s_lnodes s) (s_lstart s) (s_upgrading s).
Definition upd_flags (s : st) (r : reg) (unstable : bool) (waiting : option N) : st :=
  mkSt (s_replica s) r (s_ans s) (s_nodes s) (s_nepoch s) (s_stable s) unstable (s_auto s)
       waiting (s_rmnodes s) (s_now s) (s_lnodes s) (s_lstart s) (s_upgrading s).

(* getCurrentNodesWithEpoch(nil) / getCurrentNodes(nil): data nodes that are not being removed from the cluster *)
Definition avail_nodes (s : st) : list N := filter (fun n => negb (ahas n (s_rmnodes s))) (s_nodes s).

(* ---------- doCheckNamespaces (one namespace, one partition) ---------- *)
Definition count_in (cur l : list N) : N := len (filter (fun n => mem n cur) l).

(* the deferred function of doCheckNamespaces (a Go panic unwinds through it too) *)
Definition check_finish (s : st) (full panic : bool) (r : reg) (unst : bool) (w : option N) (ok ready : bool)
           (atts : list attempt) : st * bool * list attempt :=
  let unst' := if ok then (if full && ready then false else unst) else true in
  (upd_flags s r unst' w, panic, atts).

(* planned removal of an unwanted replica when over-replicated (tail of the loop body) *)
Definition check_planned (s : st) (full : bool) (place_all : placement) (alive_count : N) (need : bool)
           (r : reg) (i : rinfo) (unst : bool) (w : option N) (ok ready : bool) (atts : list attempt)
           : st * bool * list attempt :=
  if (s_replica s <? alive_count) && negb need then
    let can := (len (s_rmnodes s) =? 0) && all_ready (s_ans s) i in
    if can then
      match decide_unwanted place_all i with
      | Some (Some n) => let '(_, r', _, w3) := remove_from_node (s_replica s) (s_now s) r i n in
                         check_finish s full false r' unst w ok ready (atts ++ w3)
      | Some None => check_finish s full false r unst w ok ready atts
      | None => check_finish s full true r unst w ok ready atts
      end
    else check_finish s full false r unst w ok ready atts
  else check_finish s full false r unst w ok ready atts.

Definition do_check (s : st) (full : bool) (place_all place_avail : placement) : st * bool * list attempt :=
  let replica := s_replica s in
  let env := s_ans s in
  let now := s_now s in
  let r0 := s_reg s in
  let info := r_info r0 in
  let cur := s_nodes s in
  let short := len (isr info) <? replica in
  let alive_count := count_in cur (isr info) in
  let lost := negb (forallb (fun n => mem n cur) (isr info)) in
  let need := short || lost in
  let check_ok := negb need in
  (* GetAllNamespaces / GetNamespacePartInfo fail: isClusterUnstable = 1 and return (before the deferred function exists) *)
  if 1 <? r_mode r0 then (upd_flags s r0 true (s_waiting s), false, [])
  else if len cur <=? s_stable s / 2 then check_finish s full false r0 (s_unstable s) (s_waiting s) false true []
  (* GetRemoteNamespaceReplicaInfo fails: unstable, checkOK = false, continue *)
  else if 0 <? r_mode r0 then check_finish s full false r0 true (s_waiting s) false true []
  else
    (* removings first *)
    let '(_, r1, info1, w1) :=
      if 0 <? len (removings info) then remove_from_removings replica env now r0 info
      else (CNone, r0, info, []) in
    if need && s_auto s then
      match s_waiting s with
      | None => check_finish s full false r1 (s_unstable s) (Some now) check_ok true w1
      | Some ft =>
          if s_upgrading s then check_finish s full false r1 (s_unstable s) (Some ft) check_ok true w1
          else if ft <? now - wait_migrate then
            let '(c, r2, info2, w2) :=
              handle_migrate replica env now r1 (s_nepoch s) info1 (avail_nodes s) (s_nepoch s) place_avail in
            match c with
            | COk => check_planned s full place_all alive_count need r2 info2 true None check_ok true (w1 ++ w2)
            | CPanic => check_finish s full true r2 (s_unstable s) (Some ft) check_ok true (w1 ++ w2)
            | _ => check_finish s full false r2 true (Some ft) check_ok true (w1 ++ w2)
            end
          else check_planned s full place_all alive_count need r1 info1 (s_unstable s) (Some ft) check_ok true w1
      end
    else
      if all_ready env info1 then
        check_planned s full place_all alive_count need r1 info1 (s_unstable s) None check_ok true w1
      else check_finish s full false r1 (s_unstable s) None check_ok false w1.

(* ---------- handleDataNodes: one watch event (isMaster = true) ---------- *)
Definition nodes_event (s : st) (l : list N) (ll : list (N * bool)) : st * bool :=
  let old := s_nodes s in
  let lost := existsb (fun o => negb (mem o l)) old in
  let ne1 := if lost then s_nepoch s + 1 else s_nepoch s in
  let stable := N.max (s_stable s) (len l) in
  let joined := existsb (fun n => negb (mem n old)) l in
  let check := lost || joined in
  (mkSt (s_replica s) (s_reg s) (s_ans s) l (if check then ne1 + 1 else ne1) stable
        (if check then true else s_unstable s) (s_auto s) (s_waiting s) (s_rmnodes s) (s_now s) ll (s_lstart s) (s_upgrading s), check).

(* ---------- addNodeToNamespaceAndWaitReady, as far as it gets before its monitor channel is closed ----------
   (the harness closes the channel at the first register update attempt, or beforehand for processRemovingNodes;
    the function then returns "quiting" instead of sleeping 5 s and re-reading)
   result: (error?, register, attempts). *)
Inductive awres := AWErr | AWOk | AWPanic.
(* snap: the RaftNodes of the caller's snapshot (parameter namespaceInfo), used only to choose the candidate;
   every check and the add itself use nInfo, the value re-read from the register in the loop *)
Definition add_and_wait_snap (env : answers) (r : reg) (place : placement) (snap : list N)
  : awres * reg * list attempt :=
  match place with
  | PErr => (AWErr, r, [])
  | PPanic => (AWPanic, r, [])
  | PList l =>
      let info := r_info r in
      match filter (fun n => negb (mem n snap)) l with
      | [] => (AWErr, r, [])
      | nid :: _ =>
          if node_full_ready env info nid then (AWOk, r, [])
          else if mem nid (raft_nodes info) then (AWErr, r, [])
          else if negb (all_ready env info) then (AWErr, r, [])
          else let '(_, r', _, w) := add_to_node r info nid in (AWErr, r', w)
      end
  end.
(* the callers' snapshot is the stored value when nothing happened in between *)
Definition add_and_wait (env : answers) (r : reg) (place : placement) : awres * reg * list attempt :=
  add_and_wait_snap env r place (raft_nodes (r_info r)).

(* ---------- pd_api.go MarkNodeAsRemoving ---------- *)
Definition mark_node (s : st) (n : N) : st :=
  mkSt (s_replica s) (s_reg s) (s_ans s) (s_nodes s) (s_nepoch s) (s_stable s) (s_unstable s) (s_auto s)
       (s_waiting s) (if ahas n (s_rmnodes s) then s_rmnodes s else (n, RMarked) :: s_rmnodes s) (s_now s)
       (s_lnodes s) (s_lstart s) (s_upgrading s).

(* ---------- processRemovingNodes (called with a closed monitor channel) ---------- *)
Definition rm_set (k : N) (v : rmstate) (m : list (N * rmstate)) : list (N * rmstate) :=
  map (fun e => if fst e =? k then (k, v) else e) m.
Definition is_pending (k : N) (m : list (N * rmstate)) : bool :=
  match aget k m with Some RPending => true | _ => false end.

(* checkIfAnyPending *)
Definition check_pending (env : answers) (info : rinfo) (rm : list (N * rmstate)) : option (list (N * rmstate)) :=
  match rm with
  | [] => None
  | (n0, _) :: _ =>
      if negb (all_ready env info) then
        (* the first node iterated: in removing -> pending; otherwise not ready -> pending *)
        Some (rm_set n0 RPending rm)
      else match find (fun e => ahas (fst e) (removings info)) rm with
           | Some (n, _) => Some (rm_set n RPending rm)
           | None => None
           end
  end.

Record pacc := mkPacc { p_rm : list (N * rmstate); p_reg : reg; p_any : bool; p_chg : bool; p_atts : list attempt;
                        p_panic : bool }.

Definition set_pending (nid : N) (a : pacc) : pacc :=
  if is_pending nid (p_rm a) then a
  else mkPacc (rm_set nid RPending (p_rm a)) (p_reg a) (p_any a) true (p_atts a) false.

(* the loop body over the (single) partition for one node that is being removed from the cluster *)
Definition proc_act (replica : N) (env : answers) (now : N) (place : placement)
           (info0 : rinfo) (a : pacc) (nid : N) : pacc :=
  if ahas nid (removings info0) then
    set_pending nid (mkPacc (p_rm a) (p_reg a) true (p_chg a) (p_atts a) false)
  else if negb (mem nid (raft_nodes info0)) then a
  else if p_any a then set_pending nid a
  else
    let a := set_pending nid (mkPacc (p_rm a) (p_reg a) true (p_chg a) (p_atts a) false) in
    let '(res, r1, w1) :=
      if len (isr info0) <=? replica then add_and_wait env (p_reg a) place else (AWOk, p_reg a, []) in
    match res with
    | AWPanic => mkPacc (p_rm a) r1 true (p_chg a) (p_atts a ++ w1) true
    | AWErr => mkPacc (p_rm a) r1 true (p_chg a) (p_atts a ++ w1) false
    | AWOk =>
      let ns := if len (isr info0) <=? replica then r_info r1 else info0 in
      if negb (all_ready env ns) then mkPacc (p_rm a) r1 true (p_chg a) (p_atts a ++ w1) false
      else let '(_, r2, _, w2) := remove_from_node replica now r1 ns nid in
           mkPacc (p_rm a) r2 true (p_chg a) (p_atts a ++ w1 ++ w2) false
    end.

Definition proc_node (replica : N) (env : answers) (now : N) (dn : list N) (place : placement)
           (info0 : rinfo) (a : pacc) (nid : N) : pacc :=
  if p_panic a then a else
  let a1 := proc_act replica env now place info0 a nid in
  if p_any a1 then a1
  else
    let rm := p_rm a1 in
    let rm' :=
      match aget nid rm with
      | Some RTransferred => rm_set nid RDone rm
      | Some RDone => if mem nid dn then rm else aremove nid rm
      | Some _ => rm_set nid RTransferred rm
      | None => rm
      end in
    mkPacc rm' (p_reg a1) false true (p_atts a1) false.

Definition process_removing (s : st) (place : placement) : st * bool * list attempt :=
  let rm := s_rmnodes s in
  match rm with
  | [] => (s, false, [])     (* handleRemovingNodes: nothing to do *)
  | _ =>
    if 1 <? r_mode (s_reg s) then (s, false, []) else      (* GetAllNamespaces fails *)
    let info0 := r_info (s_reg s) in
    match check_pending (s_ans s) info0 rm with
    | Some rm' =>
        (mkSt (s_replica s) (s_reg s) (s_ans s) (s_nodes s) (s_nepoch s) (s_stable s) (s_unstable s) (s_auto s)
              (s_waiting s) rm' (s_now s) (s_lnodes s) (s_lstart s) (s_upgrading s), false, [])
    | None =>
        let a := fold_left (proc_node (s_replica s) (s_ans s) (s_now s) (s_nodes s) place info0)
                           (map fst rm) (mkPacc rm (s_reg s) false false [] false) in
        (* a panic unwinds before pdCoord.removingNodes is assigned *)
        (mkSt (s_replica s) (p_reg a) (s_ans s) (s_nodes s) (s_nepoch s) (s_stable s) (s_unstable s) (s_auto s)
              (s_waiting s) (if p_chg a && negb (p_panic a) then p_rm a else rm) (s_now s) (s_lnodes s) (s_lstart s) (s_upgrading s),
         p_panic a, p_atts a)
    end
  end.

(* ---------- rebalanceNamespace (its monitor channel is closed at the first update attempt) ---------- *)
Definition swap_to_front (l : list N) (idx : nat) : list N :=
  match l with
  | [] => []
  | h :: t => match nth_error l idx with
              | Some x => x :: firstn (idx - 1) t ++ (match idx with O => [] | S _ => [h] end) ++ skipn idx t
              | None => l
              end
  end.

(* stop: the Go code left the partition loop with `return` (otherwise it goes on to the next partition) *)
Inductive bres := BRet (moved all_balanced stop : bool) | BPanic.

(* the leader-swap loop: for every index of the ORIGINAL RaftNodes holding the expected leader *)
Fixpoint swap_loop (leader : N) (orig : list N) (idx : nat) (ns : rinfo) (r : reg) (moved : bool)
         (atts : list attempt) : bool * rinfo * reg * bool * list attempt (* failed?, ... *) :=
  match orig with
  | [] => (false, ns, r, moved, atts)
  | x :: rest =>
      if x =? leader then
        let ns1 := mkInfo (swap_to_front (raft_nodes ns) idx) (raft_ids ns) (removings ns) (max_id ns) (learners ns) (epoch ns) in
        match reg_update r ns1 (epoch ns1) with
        | (r', Some ns', a) => swap_loop leader rest (S idx) ns' r' true (atts ++ [a])
        | (r', None, a) => (true, ns1, r', true, atts ++ [a])
        end
      else swap_loop leader rest (S idx) ns r moved atts
  end.

(* the tail of the loop body: wait for a marked replica, else move the leader to the front *)
Definition bal_leader (s : st) (expected move_nodes : list N) (ns : rinfo) (r : reg) (moved : bool)
           (atts : list attempt) : st * bres * list attempt :=
  if 0 <? len (removings ns) then (upd_reg s r, BRet moved false false, atts)
  else match expected with
  | [] => (upd_reg s r, BPanic, atts)                 (* partitionNodes[pid][0] on an empty slice *)
  | leader :: _ =>
      if ahas leader (removings ns) then
        (upd_reg s r, BRet moved (negb ((0 <? len move_nodes) || moved)) false, atts)
      else
        if (len move_nodes =? 0) && (s_replica s <=? len (isr ns)) &&
           negb (match raft_nodes ns with x :: _ => x =? leader | [] => false end) then
          match raft_nodes ns with
          | [] => (upd_reg s r, BPanic, atts)         (* RaftNodes[0] on an empty slice *)
          | _ =>
            let '(failed, _, r', moved', atts') := swap_loop leader (raft_nodes ns) 0 ns r moved atts in
            if failed then (upd_reg s r', BRet moved' false true, atts')
            else (upd_reg s r', BRet moved' (negb ((0 <? len move_nodes) || moved')) false, atts')
          end
        else (upd_reg s r, BRet moved (negb ((0 <? len move_nodes) || moved)) false, atts)
  end.

Definition rebalance (s : st) (place : placement) : st * bres * list attempt :=
  let replica := s_replica s in
  let env := s_ans s in
  let r0 := s_reg s in
  let info0 := r_info r0 in
  if 1 <? r_mode r0 then (s, BRet false false true, [])
  else if s_unstable s || s_upgrading s then (s, BRet false false true, [])
  else if 0 <? len (s_rmnodes s) then (s, BRet false false true, [])
  else if 0 <? len (removings info0) then (s, BRet false true false, [])
  else if negb (all_ready env info0) then (s, BRet false true false, [])
  else match place with
  | PErr => (s, BRet false false false, [])
  | PPanic => (s, BPanic, [])
  | PList expected =>
      let move_nodes := filter (fun n => negb (mem n expected)) (isr info0) in
      match move_nodes with
      | [] => bal_leader s expected move_nodes info0 r0 false []
      | nid :: _ =>
          let '(res, r1, w1) :=
            if len (isr info0) <=? replica then add_and_wait env r0 place else (AWOk, r0, []) in
          match res with
          | AWPanic => (upd_reg s r1, BPanic, w1)
          | AWErr => (upd_reg s r1, BRet false false true, w1)
          | AWOk =>
            let ns := if len (isr info0) <=? replica then r_info r1 else info0 in
            let '(c, r2, ns2, w2) := remove_from_node replica (s_now s) r1 ns nid in
            match c with
            | COk => bal_leader s expected move_nodes ns2 r2 true (w1 ++ w2)
            | _ => (upd_reg s r2, BRet true false true, w1 ++ w2)
            end
          end
      end
  end.

(* ---------- namespace creation: pd_api.go CreateNamespace -> checkAndUpdateNamespacePartitions ->
   place_driver.go allocNamespaceRaftNodes (where start layouts come from) ---------- *)
Definition empty_info : rinfo := mkInfo [] [] [] 0 [] 0.
(* replicaInfo.RaftNodes = proposed list; for each: MaxRaftID++, RaftIDs[nid] = MaxRaftID; written unless not a quorum *)
Definition create_partition (replica : N) (l : list N) : option rinfo :=
  let i := fold_left add_node l empty_info in
  if len (isr i) <=? replica / 2 then None else Some i.
(* ncur = number of usable data nodes; place = the placement function's lists, one per partition *)
Definition create_namespace (replica ncur : N) (place : option (list (list N))) : code * list (option rinfo) :=
  if ncur <? replica then (CNoNode, [])
  else match place with
       | None => (CRegErr, [])
       | Some ls => (COk, map (create_partition replica) ls)
       end.

(* ---------- the learner placement driver: pd_learner_coord.go ---------- *)
Definition with_learners (i : rinfo) (ids : list (N * N)) (mx : N) (l : list N) : rinfo :=
  mkInfo (raft_nodes i) ids (removings i) mx l (epoch i).
Fixpoint index_of (k : N) (l : list N) : option nat :=
  match l with
  | [] => None
  | x :: r => if x =? k then Some O else match index_of k r with Some i => Some (S i) | None => None end
  end.
Inductive lcode := LOk | LErr | LRegErr.
Definition loutcome := (lcode * reg * rinfo * list attempt)%type.

(* addNsLearnerToNode *)
Definition learner_add (r : reg) (info : rinfo) (nid : N) : loutcome :=
  if mem nid (learners info) then (LOk, r, info, [])
  else let ns := with_learners info (aset nid (max_id info + 1) (raft_ids info)) (max_id info + 1) (learners info ++ [nid]) in
       match reg_update r ns (epoch ns) with
       | (r', Some ns', a) => (LOk, r', ns', [a])
       | (r', None, a) => (LRegErr, r', info, [a])
       end.
(* updateNsLearnerLeader *)
Definition learner_leader (r : reg) (info : rinfo) (nid : N) : loutcome :=
  match index_of nid (learners info) with
  | None => (LOk, r, info, [])
  | Some idx =>
      let ns := with_learners info (raft_ids info) (max_id info) (swap_to_front (learners info) idx) in
      match reg_update r ns (epoch ns) with
      | (r', Some ns', a) => (LOk, r', ns', [a])
      | (r', None, a) => (LRegErr, r', info, [a])
      end
  end.
(* removeNsLearnerFromNode *)
Definition learner_remove (lnodes : list (N * bool)) (r : reg) (info : rinfo) (nid : N) (check : bool) : loutcome :=
  if check && ahas nid lnodes then (LErr, r, info, [])
  else let l' := filter (fun x => negb (x =? nid)) (learners info) in
       if len l' =? len (learners info) then (LErr, r, info, [])
       else let ns := with_learners info (aremove nid (raft_ids info)) (max_id info) l' in
            match reg_update r ns (epoch ns) with
            | (r', Some ns', a) => (LOk, r', ns', [a])
            | (r', None, a) => (LErr, r', info, [a])
            end.
(* removeNsAllLearners *)
Definition learner_remove_all (r : reg) (info : rinfo) : loutcome :=
  match learners info with
  | [] => (LOk, r, info, [])
  | _ =>
      let ns := with_learners info (fold_left (fun m n => aremove n m) (learners info) (raft_ids info)) (max_id info) [] in
      match reg_update r ns (epoch ns) with
      | (r', Some ns', a) => (LOk, r', ns', [a])
      | (r', None, a) => (LErr, r', info, [a])
      end
  end.
(* doCheckNamespacesForLearner (one namespace, one partition, no filtered namespaces) *)
Definition learner_check (s : st) : reg * list attempt :=
  let r0 := s_reg s in
  let info := r_info r0 in
  if 0 <? r_mode r0 then (r0, []) else      (* GetKV fails *)
  match s_lstart s with
  | None => (r0, [])
  | Some false => let '(_, r, _, w) := learner_remove_all r0 info in (r, w)
  | Some true =>
      if len (isr info) <=? s_replica s / 2 then (r0, [])
      else
        let lids := learners info in
        let '(r1, info1, w1) :=
          match find (fun n => ahas n (s_lnodes s)) lids with
          | Some m => if match lids with x :: _ => x =? m | [] => true end then (r0, info, [])
                      else let '(_, r, i, w) := learner_leader r0 info m in (r, i, w)
          | None => (r0, info, [])
          end in
        let mine := map fst (filter (fun e => snd e) (s_lnodes s)) in
        let '(r2, _, w2) :=
          fold_left (fun (acc : reg * rinfo * list attempt) n =>
                       let '(r, i, w) := acc in
                       if mem n lids then acc
                       else let '(_, r', i', w') := learner_add r i n in (r', i', w ++ w'))
                    mine (r1, info1, w1) in
        (r2, w2)
  end.

(* ---------- events ---------- *)
Inductive event :=
  | ENodes (l : list N) (ll : list (N * bool))   (* registered data nodes; registered learner nodes *)
  | EAnswer (l : list (N * option (option (list (N * N)) * bool)))   (* None = node unreachable *)
  | ETick (d : N)
  | ECheck (full : bool) (place_all place_avail : placement)
  | EMigrate (delta : N) (place : placement)
  | EAdd (n : N)
  | ERemove (n : N)
  | EFinish
  | EFail (k : N)
  | EAuto (b : bool)
  | EBalance (place : placement)
  | EMarkNode (n : N)
  | EProcess (place : placement)
  | ELCheck
  | ELStart (b : bool)
  | ELAdd (n : N)
  | ELLeader (n : N)
  | ELRemove (n : N) (check : bool)
  | ELRemoveAll
  | EReplica (r : N)        (* pd_api.go ChangeNamespaceMetaParam(newReplicator = r) *)
  | EUpgrade (b : bool)     (* pd_api.go SetClusterUpgradeState *)
  | ERegMode (m : N)        (* the register becomes healthy / partly / wholly unreachable *)
  | EAddWait (snap : list N) (place : placement).
                            (* addNodeToNamespaceAndWaitReady called with a snapshot taken earlier (RaftNodes = snap) *)

(* events that look at no partition's replica info, waiting stamp or data-node answers *)
Definition is_global (e : event) : bool :=
  match e with
  | ENodes _ _ | ETick _ | EFail _ | EAuto _ | EMarkNode _ | EReplica _ | EUpgrade _ | ERegMode _ | ELStart _ => true
  | _ => false
  end.

Definition set_answers (env : answers) (l : list (N * option (option (list (N * N)) * bool))) : answers :=
  fold_left (fun e p => match snd p with
                        | None => aremove (fst p) e
                        | Some a => aset (fst p) a e
                        end) l env.

Inductive ret := RCode (c : code) | RBool (b : bool) | RNone | RPair (a b : bool) | RPanic | RL (c : lcode).

Definition step (s : st) (e : event) : st * ret * list attempt :=
  match e with
  | ENodes l ll => let '(s', b) := nodes_event s l ll in (s', RBool b, [])
  | EAnswer l =>
      (mkSt (s_replica s) (s_reg s) (set_answers (s_ans s) l) (s_nodes s) (s_nepoch s) (s_stable s)
            (s_unstable s) (s_auto s) (s_waiting s) (s_rmnodes s) (s_now s) (s_lnodes s) (s_lstart s) (s_upgrading s), RNone, [])
  | ETick d =>
      (mkSt (s_replica s) (s_reg s) (s_ans s) (s_nodes s) (s_nepoch s) (s_stable s)
            (s_unstable s) (s_auto s) (s_waiting s) (s_rmnodes s) (s_now s + d) (s_lnodes s) (s_lstart s) (s_upgrading s), RNone, [])
  | ECheck full pa pv => let '(s', p, w) := do_check s full pa pv in (s', if p then RPanic else RNone, w)
  | EMigrate delta place =>
      let '(c, r, _, w) := handle_migrate (s_replica s) (s_ans s) (s_now s) (s_reg s) (s_nepoch s)
                                          (r_info (s_reg s)) (avail_nodes s) (s_nepoch s + delta) place in
      (upd_reg s r, RCode c, w)
  | EAdd n => let '(c, r, _, w) := add_to_node (s_reg s) (r_info (s_reg s)) n in (upd_reg s r, RCode c, w)
  | ERemove n =>
      let '(c, r, _, w) := remove_from_node (s_replica s) (s_now s) (s_reg s) (r_info (s_reg s)) n in
      (upd_reg s r, RCode c, w)
  | EFinish =>
      let '(_, r, _, w) := remove_from_removings (s_replica s) (s_ans s) (s_now s) (s_reg s) (r_info (s_reg s)) in
      (upd_reg s r, RNone, w)
  | EFail k => (upd_reg s (mkReg (r_info (s_reg s)) (r_counter (s_reg s)) k (r_mode (s_reg s))), RNone, [])
  | ERegMode m => (upd_reg s (mkReg (r_info (s_reg s)) (r_counter (s_reg s)) (r_fail (s_reg s)) m), RNone, [])
  | EAddWait snap place =>
      if 1 <? r_mode (s_reg s) then (s, RCode CRegErr, []) else      (* getCurrentPartitionNodes fails *)
      let '(res, r, w) := add_and_wait_snap (s_ans s) (s_reg s) place snap in
      (upd_reg s r, match res with AWOk => RCode COk | AWErr => RCode CRegErr | AWPanic => RPanic end, w)
  | EAuto b =>
      (mkSt (s_replica s) (s_reg s) (s_ans s) (s_nodes s) (s_nepoch s) (s_stable s)
            (s_unstable s) b (s_waiting s) (s_rmnodes s) (s_now s) (s_lnodes s) (s_lstart s) (s_upgrading s), RNone, [])
  | EBalance place =>
      let '(s', b, w) := rebalance s place in
      (s', match b with BRet m a _ => RPair m a | BPanic => RPanic end, w)
  | EMarkNode n => (mark_node s n, RNone, [])
  | EProcess place => let '(s', p, w) := process_removing s place in (s', if p then RPanic else RNone, w)
  | ELCheck => let '(r, w) := learner_check s in (upd_reg s r, RNone, w)
  | ELStart b =>
      if 0 <? r_mode (s_reg s) then (s, RNone, []) else
      (mkSt (s_replica s) (s_reg s) (s_ans s) (s_nodes s) (s_nepoch s) (s_stable s)
            (s_unstable s) (s_auto s) (s_waiting s) (s_rmnodes s) (s_now s) (s_lnodes s) (Some b) (s_upgrading s), RNone, [])
  | ELAdd n => let '(c, r, _, w) := learner_add (s_reg s) (r_info (s_reg s)) n in (upd_reg s r, RL c, w)
  | ELLeader n => let '(c, r, _, w) := learner_leader (s_reg s) (r_info (s_reg s)) n in (upd_reg s r, RL c, w)
  | ELRemove n chk =>
      if 1 <? r_mode (s_reg s) then (s, RL LErr, []) else      (* its own GetNamespacePartInfo fails *)
      let '(c, r, _, w) := learner_remove (s_lnodes s) (s_reg s) (r_info (s_reg s)) n chk in (upd_reg s r, RL c, w)
  | ELRemoveAll => let '(c, r, _, w) := learner_remove_all (s_reg s) (r_info (s_reg s)) in (upd_reg s r, RL c, w)
  | EReplica r =>
      if 5 <? r then (s, RCode CRegErr, [])
      else if 1 <? r_mode (s_reg s) then (s, RCode CRegErr, [])      (* GetNamespaceMetaInfo fails *)
      else let nr := if 0 <? r then r else s_replica s in
           if len (avail_nodes s) <? nr then (s, RCode CNoNode, [])
           else if 0 <? r_mode (s_reg s) then (s, RCode CRegErr, []) (* UpdateNamespaceMetaInfo fails *)
           else (* the meta write takes the register's next modification index *)
                (mkSt nr (mkReg (r_info (s_reg s)) (r_counter (s_reg s) + 1) (r_fail (s_reg s)) (r_mode (s_reg s))) (s_ans s) (s_nodes s) (s_nepoch s) (s_stable s) (s_unstable s) (s_auto s)
                      (s_waiting s) (s_rmnodes s) (s_now s) (s_lnodes s) (s_lstart s) (s_upgrading s), RCode COk, [])
  | EUpgrade b =>
      (mkSt (s_replica s) (s_reg s) (s_ans s) (s_nodes s) (s_nepoch s) (s_stable s) (s_unstable s) (s_auto s)
            (s_waiting s) (s_rmnodes s) (s_now s) (s_lnodes s) (s_lstart s) b, RNone, [])
  end.

(* a run: the attempts of every step, in order, each tagged with the replication factor in effect *)
Definition run_step (acc : st * list (N * attempt)) (e : event) : st * list (N * attempt) :=
  let '(s', _, w) := step (fst acc) e in (s', snd acc ++ map (fun a => (s_replica (fst acc), a)) w).
Definition run (s : st) (evs : list event) : st * list (N * attempt) := fold_left run_step evs (s, []).

Definition init_state (replica : N) (info : rinfo) (auto : bool) : st :=
  mkSt replica (mkReg (set_epoch info 1) 1 0 0) [] [] 0 0 false auto None [] 1000 [] None false.
