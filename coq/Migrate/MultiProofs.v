(* Migrate/MultiProofs.v — C18 for a namespace with several partitions: the single-partition results of
   Proofs.v hold for every partition separately, whatever order the rounds iterate in and whatever the
   placement answers at each use; and what one round may touch. *)
From ZV Require Import Migrate.Consts Migrate.Model Migrate.Proofs Migrate.Multi.
From Coq Require Import ZArith ZifyN ZifyNat ZifyBool.
Open Scope N_scope.

(* the attempts on partition pid *)
Definition patts (pid : N) (w : list (N * attempt)) : list attempt :=
  map snd (filter (fun pa => fst pa =? pid) w).

Lemma patts_app : forall pid a b, patts pid (a ++ b) = patts pid a ++ patts pid b.
Proof. intros. unfold patts. rewrite filter_app, map_app. reflexivity. Qed.
Lemma patts_tag_same : forall pid w, patts pid (tag pid w) = w.
Proof.
  intros. unfold patts, tag. induction w as [|a w IH]; simpl; [reflexivity|].
  rewrite N.eqb_refl. simpl. f_equal. exact IH.
Qed.
Lemma patts_tag_other : forall pid pid' w, pid <> pid' -> patts pid (tag pid' w) = [].
Proof.
  intros pid pid' w H. unfold patts, tag. induction w as [|a w IH]; simpl; [reflexivity|].
  destruct (pid' =? pid) eqn:E; [apply N.eqb_eq in E; congruence|exact IH].
Qed.

Lemma aget_set_slot_same : forall pid sl l sl0, aget pid l = Some sl0 -> aget pid (set_slot pid sl l) = Some sl.
Proof.
  intros pid sl l. induction l as [|[k v] l IH]; simpl; intros sl0 H; [discriminate|].
  destruct (k =? pid) eqn:E; simpl.
  - rewrite N.eqb_refl. reflexivity.
  - rewrite E. eapply IH. exact H.
Qed.
Lemma aget_set_slot_other : forall pid pid' sl l, pid <> pid' -> aget pid' (set_slot pid sl l) = aget pid' l.
Proof.
  intros pid pid' sl l Hne. induction l as [|[k v] l IH]; simpl; [reflexivity|].
  destruct (k =? pid) eqn:E; simpl.
  - apply N.eqb_eq in E. subst k. destruct (pid =? pid') eqn:E2; [apply N.eqb_eq in E2; congruence|exact IH].
  - destruct (k =? pid'); [reflexivity|exact IH].
Qed.

Section M.
Variable q : bool.

(* every partition's stored value satisfies Inv for the shared replication factor *)
Definition MInv (m : mst) : Prop :=
  forall pid sl, aget pid (m_parts m) = Some sl -> Inv q (s_replica (m_g m)) (p_info sl).

(* from value b to value f through the attempts atts, all checked against the factor replica *)
Definition ispec (replica : N) (b f : rinfo) (atts : list attempt) : Prop :=
  Inv q replica f /\ Forall (att_ok q replica) atts /\ chain b atts f.

Lemma ispec_refl : forall replica i, Inv q replica i -> ispec replica i i [].
Proof. intros. split; [assumption|]. split; constructor. Qed.
Lemma ispec_app : forall replica a b c w1 w2, ispec replica a b w1 -> ispec replica b c w2 -> ispec replica a c (w1 ++ w2).
Proof.
  intros replica a b c w1 w2 [A1 [A2 A3]] [B1 [B2 B3]]. split; [exact B1|]. split.
  - apply Forall_app. split; assumption.
  - eapply chain_app; eassumption.
Qed.
Lemma sspec_ispec : forall replica P r r' atts, sspec q replica P r r' atts -> ispec replica (r_info r) (r_info r') atts.
Proof.
  intros replica P r r' atts [A1 [A2 A3]]. split; [exact A1|]. split; [|exact A3].
  eapply Forall_impl; [|exact A2]. intros a [Ha _]. exact Ha.
Qed.

(* m evolves to m' (same replication factor, same partitions) through the tagged attempts w *)
Definition mrel (m m' : mst) (w : list (N * attempt)) : Prop :=
  s_replica (m_g m') = s_replica (m_g m) /\
  forall pid,
    match aget pid (m_parts m) with
    | None => aget pid (m_parts m') = None /\ patts pid w = []
    | Some sl => exists sl', aget pid (m_parts m') = Some sl' /\
                             ispec (s_replica (m_g m)) (p_info sl) (p_info sl') (patts pid w)
    end.

Lemma mrel_refl : forall m, MInv m -> mrel m m [].
Proof.
  intros m Hi. split; [reflexivity|]. intros pid. destruct (aget pid (m_parts m)) as [sl|] eqn:E; [|split; reflexivity].
  exists sl. split; [reflexivity|]. apply ispec_refl. apply (Hi pid sl E).
Qed.

Lemma mrel_trans : forall m m1 m2 w1 w2, mrel m m1 w1 -> mrel m1 m2 w2 -> mrel m m2 (w1 ++ w2).
Proof.
  intros m m1 m2 w1 w2 [R1 H1] [R2 H2]. split; [congruence|]. intros pid. specialize (H1 pid). specialize (H2 pid).
  rewrite patts_app. destruct (aget pid (m_parts m)) as [sl|].
  - destruct H1 as [sl1 [E1 S1]]. rewrite E1 in H2. destruct H2 as [sl2 [E2 S2]]. exists sl2. split; [exact E2|].
    rewrite R1 in S2. eapply ispec_app; eassumption.
  - destruct H1 as [E1 P1]. rewrite E1 in H2. destruct H2 as [E2 P2]. rewrite P1, P2. split; [exact E2|reflexivity].
Qed.

Lemma mrel_MInv : forall m m' w, mrel m m' w -> MInv m'.
Proof.
  intros m m' w [R H] pid sl' E. specialize (H pid). destruct (aget pid (m_parts m)) as [sl|].
  - destruct H as [sl2 [E2 [Hi _]]]. rewrite E in E2. inversion E2; subst. rewrite R. exact Hi.
  - destruct H as [E2 _]. congruence.
Qed.

(* the shared part changes, partitions do not *)
Lemma mrel_same_parts : forall m m1 m2 w,
  mrel m m1 w -> m_parts m2 = m_parts m1 -> s_replica (m_g m2) = s_replica (m_g m1) -> mrel m m2 w.
Proof. intros m m1 m2 w [R H] Hp Hr. split; [congruence|]. intros pid. rewrite Hp. apply H. Qed.

(* a single-partition computation on the view of partition pid, written back *)
Lemma writeback_mrel : forall (P : attempt -> Prop) m pid sl s' w,
  MInv m -> aget pid (m_parts m) = Some sl ->
  s_replica s' = s_replica (view (m_g m) sl) ->
  sspec q (s_replica (view (m_g m) sl)) P (s_reg (view (m_g m) sl)) (s_reg s') w ->
  mrel m (writeback m pid s') (tag pid w).
Proof.
  intros P m pid sl s' w Hi E Hr Hs. split; [simpl; exact Hr|]. intros pid'. simpl.
  destruct (N.eq_dec pid pid') as [<-|Hne].
  - rewrite E. exists (slot_of s'). split; [eapply aget_set_slot_same; exact E|].
    rewrite patts_tag_same. apply sspec_ispec in Hs. simpl in Hs. exact Hs.
  - rewrite (aget_set_slot_other pid pid' _ _ Hne). rewrite (patts_tag_other pid' pid w) by congruence.
    destruct (aget pid' (m_parts m)) as [sl'|] eqn:E'; [|split; reflexivity].
    exists sl'. split; [reflexivity|]. apply ispec_refl. apply (Hi pid' sl' E').
Qed.

Lemma view_inv : forall m pid sl, MInv m -> aget pid (m_parts m) = Some sl ->
  Inv q (s_replica (view (m_g m) sl)) (r_info (s_reg (view (m_g m) sl))).
Proof. intros m pid sl Hi E. simpl. apply (Hi pid sl E). Qed.

Lemma on_part_mrel : forall (P : attempt -> Prop) R m pid (d : R) (f : st -> st * R * list attempt),
  MInv m ->
  (forall s, Inv q (s_replica s) (r_info (s_reg s)) -> res3_spec q P s (f s)) ->
  mrel m (fst (fst (on_part m pid d f))) (snd (on_part m pid d f)).
Proof.
  intros P R m pid d f Hi Hf. unfold on_part. destruct (aget pid (m_parts m)) as [sl|] eqn:E; [|apply mrel_refl; exact Hi].
  specialize (Hf _ (view_inv m pid sl Hi E)). destruct (f (view (m_g m) sl)) as [[s' r] w]. destruct Hf as [Hr Hs]. simpl.
  eapply writeback_mrel; eassumption.
Qed.

(* ---------- the rounds ---------- *)
Lemma check_one_mrel : forall ps m a pid,
  mrel m (c_m a) (c_atts a) -> mrel m (c_m (check_one ps a pid)) (c_atts (check_one ps a pid)).
Proof.
  intros ps m a pid H. unfold check_one. destruct (c_abort a); [exact H|].
  destruct (aget pid (m_parts (c_m a))) as [sl|] eqn:E; [|exact H].
  assert (Hi := mrel_MInv _ _ _ H).
  destruct (probe_of pid ps) as [pa pv]. destruct (check_flags (view (m_g (c_m a)) sl)) as [[ok ready] ab].
  assert (Hd := do_check_spec q (view (m_g (c_m a)) sl) false pa pv (view_inv _ pid sl Hi E)).
  destruct (do_check (view (m_g (c_m a)) sl) false pa pv) as [[s' panic] w]. destruct Hd as [Hr Hs]. simpl.
  eapply mrel_trans; [exact H|]. eapply writeback_mrel; eassumption.
Qed.

Lemma check_round_mrel : forall m full order ps,
  MInv m -> mrel m (fst (fst (check_round m full order ps))) (snd (check_round m full order ps)).
Proof.
  intros m full order ps Hi. unfold check_round.
  destruct (1 <? r_mode (s_reg (m_g m))).
  { simpl. eapply mrel_same_parts; [apply mrel_refl; exact Hi|reflexivity|reflexivity]. }
  set (a0 := mkCacc m true true false false []).
  assert (H0 : mrel m (c_m a0) (c_atts a0)) by (apply mrel_refl; exact Hi).
  assert (HA : mrel m (c_m (fold_left (check_one ps) order a0)) (c_atts (fold_left (check_one ps) order a0))).
  { revert H0. generalize a0. induction order as [|pid order IH]; intros a H; simpl; [exact H|].
    apply IH. apply check_one_mrel. exact H. }
  simpl. destruct (c_ok (fold_left (check_one ps) order a0) && full && c_ready (fold_left (check_one ps) order a0));
    (eapply mrel_same_parts; [exact HA|reflexivity|reflexivity]).
Qed.

Lemma balance_one_mrel : forall p m a pid,
  mrel m (b_m a) (b_atts a) -> mrel m (b_m (balance_one p a pid)) (b_atts (balance_one p a pid)).
Proof.
  intros p m a pid H. unfold balance_one. destruct (b_stop a); [exact H|].
  destruct (aget pid (m_parts (b_m a))) as [sl|] eqn:E; [|exact H].
  assert (Hi := mrel_MInv _ _ _ H).
  assert (Hd := rebalance_spec q (view (m_g (b_m a)) sl) (mplace p pid) (view_inv _ pid sl Hi E)).
  destruct (rebalance (view (m_g (b_m a)) sl) (mplace p pid)) as [[s' b] w]. destruct Hd as [Hr Hs].
  assert (Hm : mrel m (writeback (b_m a) pid s') (b_atts a ++ tag pid w)).
  { eapply mrel_trans; [exact H|]. eapply writeback_mrel; eassumption. }
  destruct b; simpl; exact Hm.
Qed.

Lemma balance_round_mrel : forall m order p,
  MInv m -> mrel m (fst (fst (balance_round m order p))) (snd (balance_round m order p)).
Proof.
  intros m order p Hi. unfold balance_round.
  destruct (1 <? r_mode (s_reg (m_g m))); [simpl; apply mrel_refl; exact Hi|].
  set (a0 := mkBacc m false true false false []).
  assert (H0 : mrel m (b_m a0) (b_atts a0)) by (apply mrel_refl; exact Hi).
  simpl. revert H0. generalize a0. induction order as [|pid order IH]; intros a H; simpl; [exact H|].
  apply IH. apply balance_one_mrel. exact H.
Qed.

Lemma process_round_mrel : forall m order p,
  MInv m -> mrel m (fst (fst (process_round m order p))) (snd (process_round m order p)).
Proof.
  intros m order p Hi. unfold process_round.
  destruct (s_rmnodes (m_g m)) as [|[nid st0] rest]; [simpl; apply mrel_refl; exact Hi|].
  destruct (1 <? r_mode (s_reg (m_g m))); [simpl; apply mrel_refl; exact Hi|].
  destruct (pending_somewhere m nid).
  { simpl. eapply mrel_same_parts; [apply mrel_refl; exact Hi|reflexivity|reflexivity]. }
  match goal with |- context [match ?t with Some _ => _ | None => _ end] => destruct t as [pid|] end;
    [|simpl; apply mrel_refl; exact Hi].
  apply on_part_mrel with (P := fun _ => True); [exact Hi|].
  intros s Hs. assert (H := process_removing_spec q s (mplace p pid) Hs).
  destruct (process_removing s (mplace p pid)) as [[s' b] w]. destruct H as [Hr Hsp]. split; [exact Hr|].
  eapply sspec_weaken; [|exact Hsp]. auto.
Qed.

Lemma learner_one_mrel : forall m a pid,
  mrel m (fst a) (snd a) -> mrel m (fst (learner_one a pid)) (snd (learner_one a pid)).
Proof.
  intros m a pid H. unfold learner_one. destruct (aget pid (m_parts (fst a))) as [sl|] eqn:E; [|exact H].
  assert (Hi := mrel_MInv _ _ _ H).
  assert (Hd := learner_check_spec q (view (m_g (fst a)) sl) (view_inv _ pid sl Hi E)).
  destruct (learner_check (view (m_g (fst a)) sl)) as [r w]. simpl.
  eapply mrel_trans; [exact H|]. eapply writeback_mrel with (P := quiet); [exact Hi|exact E|reflexivity|exact Hd].
Qed.

Lemma learner_round_mrel : forall m order,
  MInv m -> mrel m (fst (learner_round m order)) (snd (learner_round m order)).
Proof.
  intros m order Hi. unfold learner_round.
  destruct (0 <? r_mode (s_reg (m_g m))); [simpl; apply mrel_refl; exact Hi|].
  assert (Hplain : forall l, mrel m (fst (fold_left learner_one l (m, []))) (snd (fold_left learner_one l (m, [])))).
  { intros l.
    assert (H0 : mrel m (fst (m, @nil (N * attempt))) (snd (m, @nil (N * attempt)))) by (apply mrel_refl; exact Hi).
    revert H0. generalize (m, @nil (N * attempt)). induction l as [|pid l IH]; intros a H; simpl; [exact H|].
    apply IH. apply learner_one_mrel. exact H. }
  destruct (s_lstart (m_g m)) as [[|]|]; try apply Hplain.
  (* cleanAllLearners *)
  assert (H0 : mrel m (fst (fst (m, @nil (N * attempt), false))) (snd (fst (m, @nil (N * attempt), false))))
    by (apply mrel_refl; exact Hi).
  revert H0. generalize (m, @nil (N * attempt), false). generalize (map fst (m_parts m)).
  induction l as [|pid l IH]; intros a H; simpl; [exact H|].
  apply IH. destruct a as [[m0 w0] stop]. unfold learner_clean_one. destruct stop; [exact H|].
  simpl in H. assert (H1 := learner_one_mrel m0 (m0, []) pid (mrel_refl _ (mrel_MInv _ _ _ H))).
  destruct (learner_one (m0, []) pid) as [m1 w1]. simpl in *. eapply mrel_trans; eassumption.
Qed.

(* ---------- one event ---------- *)
(* either the factor is kept and every partition evolves by permitted attempts, or (ChangeNamespaceMetaParam and
   the other shared events) no partition is touched *)
Definition mstep_res (m : mst) (res : mst * ret * list (N * attempt)) : Prop :=
  let '(m', _, w) := res in
  mrel m m' w \/ (w = [] /\ m_parts m' = m_parts m).

Lemma mstep_spec : forall m e, MInv m -> mstep_res m (mstep m e).
Proof.
  intros m e Hi. destruct e; simpl.
  - (* MGlobal *) destruct (is_global e); [|left; apply mrel_refl; exact Hi].
    destruct (step (m_g m) e) as [[g' r] w]. simpl. right. split; reflexivity.
  - (* MOn *) destruct (is_global e) eqn:Eg; [left; apply mrel_refl; exact Hi|].
    assert (H := on_part_mrel (fun _ => True) ret m pid RNone (fun s => step s e) Hi).
    destruct (on_part m pid RNone (fun s => step s e)) as [[m' r] w]. left. apply H.
    intros s Hs. assert (H3 := step_spec3 q s e).
    assert (Hne : match e with EReplica _ => False | _ => True end) by (destruct e; simpl in Eg; try discriminate; exact I).
    specialize (H3 Hne Hs). unfold res3_spec in *. destruct (step s e) as [[s' r'] w']. destruct H3 as [Hr Hsp].
    split; [exact Hr|]. eapply sspec_weaken; [|exact Hsp]. auto.
  - (* MCheckAll *) assert (H := check_round_mrel m full order ps Hi).
    destruct (check_round m full order ps) as [[m' p] w]. left. exact H.
  - (* MBalance *) assert (H := balance_round_mrel m order p Hi).
    destruct (balance_round m order p) as [[m' r] w]. left. exact H.
  - (* MProcess *) assert (H := process_round_mrel m order p Hi).
    destruct (process_round m order p) as [[m' pn] w]. left. exact H.
  - (* MLCheck *) assert (H := learner_round_mrel m order Hi).
    destruct (learner_round m order) as [m' w]. left. exact H.
Qed.

(* ---------- every event sequence ---------- *)
Fixpoint m_lowering_only (m : mst) (evs : list mevent) : Prop :=
  match evs with
  | [] => True
  | e :: t => s_replica (m_g (fst (fst (mstep m e)))) <= s_replica (m_g m) /\ m_lowering_only (fst (fst (mstep m e))) t
  end.

(* the log of a run restricted to partition pid: (factor in effect, attempt) *)
Definition plog (pid : N) (log : list (N * (N * attempt))) : list (N * attempt) :=
  map (fun e => (fst e, snd (snd e))) (filter (fun e => fst (snd e) =? pid) log).

Lemma plog_app : forall pid a b, plog pid (a ++ b) = plog pid a ++ plog pid b.
Proof. intros. unfold plog. rewrite filter_app, map_app. reflexivity. Qed.
Lemma plog_tag : forall pid r (w : list (N * attempt)),
  plog pid (map (fun pa => (r, pa)) w) = map (fun a => (r, a)) (patts pid w).
Proof.
  intros. unfold plog, patts. induction w as [|[p a] w IH]; simpl; [reflexivity|].
  destruct (p =? pid); simpl; [f_equal|]; exact IH.
Qed.

Definition part_ok (pid : N) (sl : pslot) (m' : mst) (log : list (N * (N * attempt))) : Prop :=
  exists sl', aget pid (m_parts m') = Some sl' /\
    chain (p_info sl) (map snd (plog pid log)) (p_info sl') /\
    Forall (fun ra => att_ok q (fst ra) (snd ra)) (plog pid log).

Lemma mrun_spec_gen : forall evs m acc,
  MInv m -> (q = true -> m_lowering_only m evs) ->
  exists w, snd (fold_left mrun_step evs (m, acc)) = acc ++ w /\
    MInv (fst (fold_left mrun_step evs (m, acc))) /\
    forall pid sl, aget pid (m_parts m) = Some sl -> part_ok pid sl (fst (fold_left mrun_step evs (m, acc))) w.
Proof.
  induction evs as [|e evs IH]; intros m acc Hi Hlow; simpl.
  - exists []. rewrite app_nil_r. split; [reflexivity|]. split; [exact Hi|].
    intros pid sl E. exists sl. split; [exact E|]. split; constructor.
  - assert (Hs := mstep_spec m e Hi).
    assert (Hrs : mrun_step (m, acc) e =
                  (fst (fst (mstep m e)), acc ++ map (fun pa => (s_replica (m_g m), pa)) (snd (mstep m e)))).
    { unfold mrun_step. simpl. destruct (mstep m e) as [[? ?] ?]. reflexivity. }
    rewrite Hrs. clear Hrs.
    assert (Hlow1 : q = true -> s_replica (m_g (fst (fst (mstep m e)))) <= s_replica (m_g m) /\
                                m_lowering_only (fst (fst (mstep m e))) evs) by (intros Hq'; apply (Hlow Hq')).
    destruct (mstep m e) as [[m1 rt] w1]. simpl fst in *. simpl snd in *.
    assert (Hi1 : MInv m1).
    { destruct Hs as [Hs|[_ Hp]]; [eapply mrel_MInv; exact Hs|].
      intros pid sl E. rewrite Hp in E. eapply Inv_change; [apply (Hi pid sl E)|]. intros Hq'. apply (Hlow1 Hq'). }
    destruct (IH m1 (acc ++ map (fun pa => (s_replica (m_g m), pa)) w1) Hi1) as [w [Hw [Hfin Hparts]]].
    { intros Hq'. apply (Hlow1 Hq'). }
    exists (map (fun pa => (s_replica (m_g m), pa)) w1 ++ w). split; [rewrite Hw, app_assoc; reflexivity|].
    split; [exact Hfin|]. intros pid sl E.
    (* the slot of pid after the first step *)
    assert (Hmid : exists sl1, aget pid (m_parts m1) = Some sl1 /\
                     ispec (s_replica (m_g m)) (p_info sl) (p_info sl1) (patts pid w1)).
    { destruct Hs as [[_ Hs]|[Hw1 Hp]].
      - specialize (Hs pid). rewrite E in Hs. exact Hs.
      - subst w1. exists sl. split; [rewrite Hp; exact E|]. apply ispec_refl. apply (Hi pid sl E). }
    destruct Hmid as [sl1 [E1 [_ [Hall Hch]]]].
    destruct (Hparts pid sl1 E1) as [sl' [E' [Hch2 Hall2]]].
    exists sl'. split; [exact E'|]. rewrite plog_app, plog_tag. split.
    + rewrite map_app, map_snd_tag. eapply chain_app; eassumption.
    + apply Forall_app. split; [|exact Hall2]. apply Forall_forall. intros [r a] Hin. apply in_map_iff in Hin.
      destruct Hin as [a' [He Hin]]. inversion He; subst. simpl. rewrite Forall_forall in Hall. apply (Hall a Hin).
Qed.

Lemma mrun_spec : forall m evs,
  MInv m -> (q = true -> m_lowering_only m evs) ->
  MInv (fst (mrun m evs)) /\
  forall pid sl, aget pid (m_parts m) = Some sl -> part_ok pid sl (fst (mrun m evs)) (snd (mrun m evs)).
Proof.
  intros m evs Hi Hlow. unfold mrun. destruct (mrun_spec_gen evs m [] Hi Hlow) as [w [Hw H]].
  simpl in Hw. rewrite Hw. exact H.
Qed.

End M.

(* ------------------------------------------------------------------------------------------ *)
(* what one round may touch                                                                    *)
(* ------------------------------------------------------------------------------------------ *)
Ltac split_ifs :=
  repeat match goal with
         | |- context [if ?c then _ else _] => destruct c
         end.

Lemma reg_update_one : forall r v g, exists r' o a, reg_update r v g = (r', o, a).
Proof. intros. destruct (reg_update r v g) as [[r' o] a]. eauto. Qed.

Lemma rfr_le1 : forall replica env now r info,
  (length (snd (remove_from_removings replica env now r info)) <= 1)%nat.
Proof.
  intros. unfold remove_from_removings.
  destruct (fold_left (finish_step env now) (removings info) (info, false)) as [ns changed].
  destruct (changed && is_quorum replica ns); [|simpl; lia].
  destruct (reg_update r ns (epoch ns)) as [[r' [v|]] a]; simpl; lia.
Qed.
Lemma rfn_le1 : forall replica now r info nid,
  (length (snd (remove_from_node replica now r info nid)) <= 1)%nat.
Proof.
  intros. unfold remove_from_node. split_ifs; simpl; try lia.
  all: destruct (reg_update r _ _) as [[r' [v|]] a]; simpl; lia.
Qed.
Lemma hm_le1 : forall replica env now r nepoch info cur ep place,
  (length (snd (handle_migrate replica env now r nepoch info cur ep place)) <= 1)%nat.
Proof.
  intros. unfold handle_migrate.
  destruct (negb (ep =? nepoch)); [simpl; lia|].
  destruct (0 <? len (removings info)); [simpl; lia|].
  destruct (mig_loop replica env cur now (raft_nodes info) 0 info false) as [[[alive ns] chg]|]; [|simpl; lia].
  destruct ((0 <? len (removings ns)) && (alive <=? replica / 2)); [simpl; lia|].
  destruct ((len cur <? replica) && (0 <? len (removings ns))); [simpl; lia|].
  destruct (len (removings ns) =? 0); [destruct (all_ready env ns); [destruct (alive <? replica);
    [destruct (alloc_node place cur ns) as [[n|]|]| ]| ]| ].
  all: cbv beta iota; try (simpl; lia).
  all: match goal with |- context [if ?c && is_quorum ?rp ?x then _ else _] => destruct (c && is_quorum rp x) end;
       try (simpl; lia).
  all: match goal with |- context [if 1 <? ?x then _ else _] => destruct (1 <? x) end; try (simpl; lia).
  all: match goal with |- context [reg_update ?a ?b ?c] => destruct (reg_update a b c) as [[r' [v|]] att] end; simpl; lia.
Qed.

Lemma check_finish_atts : forall s full p r u w ok rd atts, snd (check_finish s full p r u w ok rd atts) = atts.
Proof. reflexivity. Qed.
Lemma check_planned_len : forall s full pa ac need r i u w ok rd atts,
  (length (snd (check_planned s full pa ac need r i u w ok rd atts)) <= length atts + (if need then 0 else 1))%nat.
Proof.
  intros. unfold check_planned.
  destruct ((s_replica s <? ac) && negb need) eqn:Eg; [|rewrite check_finish_atts; destruct need; lia].
  assert (need = false) by (destruct need; [rewrite andb_false_r in Eg; discriminate|reflexivity]). subst need.
  destruct ((len (s_rmnodes s) =? 0) && all_ready (s_ans s) i); [|rewrite check_finish_atts; lia].
  destruct (decide_unwanted pa i) as [[n|]|]; try (rewrite check_finish_atts; lia).
  assert (H := rfn_le1 (s_replica s) (s_now s) r i n).
  destruct (remove_from_node (s_replica s) (s_now s) r i n) as [[[c r'] i'] w3]. simpl in H.
  rewrite check_finish_atts, app_length. lia.
Qed.

(* doCheckNamespaces makes at most two update attempts on a partition: finishing a removal, then one step of the
   migration (mark / add) or one planned removal *)
Lemma do_check_le2 : forall s full pa pv, (length (snd (do_check s full pa pv)) <= 2)%nat.
Proof.
  intros. unfold do_check. cbv zeta.
  destruct (1 <? r_mode (s_reg s)); [simpl; lia|].
  destruct (len (s_nodes s) <=? s_stable s / 2); [rewrite check_finish_atts; simpl; lia|].
  destruct (0 <? r_mode (s_reg s)); [rewrite check_finish_atts; simpl; lia|].
  set (X := if 0 <? len (removings (r_info (s_reg s)))
            then remove_from_removings (s_replica s) (s_ans s) (s_now s) (s_reg s) (r_info (s_reg s))
            else (CNone, s_reg s, r_info (s_reg s), [])).
  assert (HX : (length (snd X) <= 1)%nat).
  { unfold X. destruct (0 <? len (removings (r_info (s_reg s)))); [apply rfr_le1|simpl; lia]. }
  clearbody X. destruct X as [[[c1 r1] info1] w1]. simpl in HX.
  set (need := (len (isr (r_info (s_reg s))) <? s_replica s) ||
               negb (forallb (fun n : N => mem n (s_nodes s)) (isr (r_info (s_reg s))))).
  destruct (need && s_auto s) eqn:Ena.
  - assert (Hneed : need = true) by (apply andb_true_iff in Ena; tauto).
    destruct (s_waiting s) as [ft|]; [|rewrite check_finish_atts; lia].
    destruct (s_upgrading s); [rewrite check_finish_atts; lia|].
    destruct (ft <? s_now s - wait_migrate).
    + assert (H2 := hm_le1 (s_replica s) (s_ans s) (s_now s) r1 (s_nepoch s) info1 (avail_nodes s) (s_nepoch s) pv).
      destruct (handle_migrate (s_replica s) (s_ans s) (s_now s) r1 (s_nepoch s) info1 (avail_nodes s) (s_nepoch s) pv)
        as [[[c r2] info2] w2]. simpl in H2.
      destruct c; try (rewrite check_finish_atts, app_length; lia).
      assert (H3 := check_planned_len s full pa (count_in (s_nodes s) (isr (r_info (s_reg s)))) need r2 info2 true None
                      (negb need) true (w1 ++ w2)).
      replace (if need then 0 else 1)%nat with 0%nat in H3 by (rewrite Hneed; reflexivity). rewrite app_length in H3. lia.
    + assert (H3 := check_planned_len s full pa (count_in (s_nodes s) (isr (r_info (s_reg s)))) need r1 info1
                      (s_unstable s) (Some ft) (negb need) true w1).
      replace (if need then 0 else 1)%nat with 0%nat in H3 by (rewrite Hneed; reflexivity). lia.
  - destruct (all_ready (s_ans s) info1); [|rewrite check_finish_atts; lia].
    assert (H3 := check_planned_len s full pa (count_in (s_nodes s) (isr (r_info (s_reg s)))) need r1 info1
                    (s_unstable s) None (negb need) true w1).
    destruct need; lia.
Qed.

Lemma tag_fst : forall pid w pa, In pa (tag pid w) -> fst pa = pid.
Proof. intros pid w pa H. unfold tag in H. apply in_map_iff in H. destruct H as [a [He _]]. subst. reflexivity. Qed.

(* a check round over distinct partitions makes at most two attempts per partition *)
Lemma check_fold_len : forall ps order a pid,
  NoDup order ->
  (length (patts pid (c_atts (fold_left (check_one ps) order a))) <=
   length (patts pid (c_atts a)) + (if existsb (N.eqb pid) order then 2 else 0))%nat.
Proof.
  intros ps order. induction order as [|p order IH]; intros a pid Hn; simpl; [lia|].
  inversion Hn as [|? ? Hnot Hn']; subst.
  specialize (IH (check_one ps a p) pid Hn').
  assert (Hone : (length (patts pid (c_atts (check_one ps a p))) <=
                  length (patts pid (c_atts a)) + (if N.eqb pid p then 2 else 0))%nat).
  { unfold check_one. destruct (c_abort a); [lia|]. destruct (aget p (m_parts (c_m a))) as [sl|]; [|lia].
    destruct (probe_of p ps) as [pa pv]. destruct (check_flags (view (m_g (c_m a)) sl)) as [[ok rd] ab].
    assert (H2 := do_check_le2 (view (m_g (c_m a)) sl) false pa pv).
    destruct (do_check (view (m_g (c_m a)) sl) false pa pv) as [[s' pn] w]. simpl in *.
    rewrite patts_app, app_length. destruct (pid =? p) eqn:E.
    - apply N.eqb_eq in E. subst. rewrite patts_tag_same. lia.
    - apply N.eqb_neq in E. rewrite patts_tag_other by exact E. simpl. lia. }
  destruct (pid =? p) eqn:E.
  - apply N.eqb_eq in E. subst p.
    assert (Hex : existsb (N.eqb pid) order = false).
    { destruct (existsb (N.eqb pid) order) eqn:Ex; [|reflexivity]. exfalso. apply Hnot.
      apply existsb_exists in Ex. destruct Ex as [x [Hx He]]. apply N.eqb_eq in He. subst. exact Hx. }
    rewrite Hex in IH. simpl. lia.
  - simpl. lia.
Qed.

Theorem check_round_limit : forall m full order ps pid,
  NoDup order -> (length (patts pid (snd (check_round m full order ps))) <= 2)%nat.
Proof.
  intros m full order ps pid Hn. unfold check_round.
  destruct (1 <? r_mode (s_reg (m_g m))); [simpl; lia|]. simpl.
  assert (H := check_fold_len ps order (mkCacc m true true false false []) pid Hn). simpl in H.
  destruct (existsb (N.eqb pid) order); lia.
Qed.

(* a balance round (stopped at its first update attempt) touches one partition only *)
Lemma balance_fold_one : forall p order a,
  (b_atts a = [] \/ (b_stop a = true /\ exists pid, forall pa, In pa (b_atts a) -> fst pa = pid)) ->
  let a' := fold_left (balance_one p) order a in
  b_atts a' = [] \/ (b_stop a' = true /\ exists pid, forall pa, In pa (b_atts a') -> fst pa = pid).
Proof.
  intros p order. induction order as [|pid order IH]; intros a H; simpl; [exact H|].
  apply IH. unfold balance_one. destruct (b_stop a) eqn:Es; [rewrite Es; exact H|].
  destruct H as [H|[H _]]; [|congruence].
  destruct (aget pid (m_parts (b_m a))) as [sl|]; [|left; exact H].
  destruct (rebalance (view (m_g (b_m a)) sl) (mplace p pid)) as [[s' b] w]. rewrite H. simpl app.
  destruct b as [mv al st|]; simpl.
  - destruct w as [|x w]; [left; reflexivity|]. right. split; [rewrite orb_true_r; reflexivity|].
    exists pid. intros pa Hpa. eapply tag_fst. exact Hpa.
  - right. split; [reflexivity|]. exists pid. intros pa Hpa. eapply tag_fst. exact Hpa.
Qed.

Theorem balance_round_limit : forall m order p,
  exists pid, forall pa, In pa (snd (balance_round m order p)) -> fst pa = pid.
Proof.
  intros m order p. unfold balance_round.
  destruct (1 <? r_mode (s_reg (m_g m))); [exists 0; intros pa []|]. simpl.
  destruct (balance_fold_one p order (mkBacc m false true false false []) (or_introl eq_refl)) as [H|[_ [pid H]]].
  - rewrite H. exists 0. intros pa [].
  - exists pid. exact H.
Qed.

(* a node-removal round acts on one partition only *)
Theorem process_round_limit : forall m order p,
  exists pid, forall pa, In pa (snd (process_round m order p)) -> fst pa = pid.
Proof.
  intros m order p. unfold process_round.
  destruct (s_rmnodes (m_g m)) as [|[nid st0] rest]; [exists 0; intros pa []|].
  destruct (1 <? r_mode (s_reg (m_g m))); [exists 0; intros pa []|].
  destruct (pending_somewhere m nid); [exists 0; intros pa []|].
  match goal with |- context [match ?t with Some _ => _ | None => _ end] => destruct t as [pid|] end;
    [|exists 0; intros pa []].
  exists pid. unfold on_part. destruct (aget pid (m_parts m)) as [sl|]; [|intros pa []].
  destruct (process_removing (view (m_g m) sl) (mplace p pid)) as [[s' b] w]. simpl. intros pa Hpa. eapply tag_fst. exact Hpa.
Qed.
