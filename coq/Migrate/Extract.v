(* Migrate/Extract.v — extraction of the C18 model (ExtrOcamlBasic only) *)
From Coq Require Import ExtrOcamlBasic ZArith.
From ZV Require Import Migrate.Model Migrate.Multi.
Extraction Language OCaml.
Extraction "model.ml" Z.of_N N.of_nat Nat.add init_state step run isr is_quorum all_ready create_namespace minit mstep mrun.
