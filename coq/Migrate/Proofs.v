(* Migrate/Proofs.v — C18: the invariant of the register content and its preservation by every
   decision procedure of the model, lifted over event sequences. *)
From ZV Require Import Migrate.Consts Migrate.Model.
From Coq Require Import ZArith ZifyN ZifyNat ZifyBool Permutation.
Open Scope N_scope.
Ltac Zify.zify_post_hook ::= Z.div_mod_to_equations.

(* ------------------------------------------------------------------------------------------ *)
(* association-list facts                                                                      *)
(* ------------------------------------------------------------------------------------------ *)
Definition keys {A} (m : list (N * A)) : list N := map fst m.

Lemma mem_In : forall k l, mem k l = true <-> In k l.
Proof.
  intros k l. unfold mem. rewrite existsb_exists. split.
  - intros [x [Hx He]]. apply N.eqb_eq in He. subst. exact Hx.
  - intros H. exists k. split; [exact H|apply N.eqb_refl].
Qed.
Lemma mem_false : forall k l, mem k l = false <-> ~ In k l.
Proof. intros. rewrite <- mem_In. destruct (mem k l); split; congruence. Qed.

Lemma aget_In : forall A k (m : list (N * A)) v, aget k m = Some v -> In (k, v) m.
Proof.
  induction m as [|[k' v'] m IH]; simpl; intros v H; [discriminate|].
  destruct (k' =? k) eqn:E.
  - apply N.eqb_eq in E. inversion H. subst. left. reflexivity.
  - right. apply IH. exact H.
Qed.
Lemma aget_None : forall A k (m : list (N * A)), aget k m = None <-> ~ In k (keys m).
Proof.
  induction m as [|[k' v'] m IH]; simpl.
  - split; [intros _ []|reflexivity].
  - destruct (k' =? k) eqn:E.
    + apply N.eqb_eq in E. split; [discriminate|intros H; exfalso; apply H; left; exact E].
    + apply N.eqb_neq in E. rewrite IH. split; [intros H [H1|H1]; [congruence|auto]|intros H H1; apply H; right; exact H1].
Qed.
Lemma ahas_In : forall A k (m : list (N * A)), ahas k m = true <-> In k (keys m).
Proof.
  intros. unfold ahas. destruct (aget k m) eqn:E.
  - split; [intros _|reflexivity]. apply aget_In in E. apply (in_map fst) in E. exact E.
  - apply aget_None in E. split; [discriminate|contradiction].
Qed.
Lemma ahas_false : forall A k (m : list (N * A)), ahas k m = false <-> ~ In k (keys m).
Proof. intros. rewrite <- ahas_In. destruct (ahas k m); split; congruence. Qed.

Lemma aget_nodup : forall A k v (m : list (N * A)), NoDup (keys m) -> In (k, v) m -> aget k m = Some v.
Proof.
  induction m as [|[k' v'] m IH]; simpl; intros Hn Hi; [contradiction|].
  inversion Hn as [|? ? Hnot Hn']; subst.
  destruct Hi as [Hi|Hi].
  - inversion Hi; subst. rewrite N.eqb_refl. reflexivity.
  - destruct (k' =? k) eqn:E.
    + apply N.eqb_eq in E. subst. exfalso. apply Hnot. apply (in_map fst) in Hi. exact Hi.
    + apply IH; assumption.
Qed.

Lemma keys_aremove : forall A k (m : list (N * A)), keys (aremove k m) = filter (fun x => negb (x =? k)) (keys m).
Proof.
  induction m as [|[k' v'] m IH]; simpl; [reflexivity|].
  destruct (k' =? k); simpl; rewrite IH; reflexivity.
Qed.
Lemma In_aremove : forall A k (m : list (N * A)) e, In e (aremove k m) <-> In e m /\ fst e <> k.
Proof.
  intros. unfold aremove. rewrite filter_In. rewrite negb_true_iff, N.eqb_neq. reflexivity.
Qed.
Lemma aremove_notin : forall A k (m : list (N * A)), ~ In k (keys m) -> aremove k m = m.
Proof.
  induction m as [|[k' v'] m IH]; simpl; intros H; [reflexivity|].
  destruct (k' =? k) eqn:E.
  - apply N.eqb_eq in E. exfalso. apply H. left. exact E.
  - simpl. f_equal. apply IH. intros H1. apply H. right. exact H1.
Qed.
Lemma NoDup_filter : forall A (f : A -> bool) l, NoDup l -> NoDup (filter f l).
Proof.
  induction l as [|x l IH]; simpl; intros H; [constructor|].
  inversion H; subst. destruct (f x); [constructor|]; auto.
  rewrite filter_In. tauto.
Qed.
Lemma NoDup_map_filter : forall A B (g : A -> B) (f : A -> bool) l, NoDup (map g l) -> NoDup (map g (filter f l)).
Proof.
  induction l as [|x l IH]; simpl; intros H; [constructor|].
  inversion H; subst. destruct (f x); simpl; [constructor|]; auto.
  intros Hi. apply in_map_iff in Hi. destruct Hi as [y [Hy Hi]]. apply filter_In in Hi.
  apply H2. rewrite <- Hy. apply in_map. tauto.
Qed.
Lemma keys_app : forall A (a b : list (N * A)), keys (a ++ b) = keys a ++ keys b.
Proof. intros. unfold keys. apply map_app. Qed.
Lemma NoDup_snoc : forall A (l : list A) x, NoDup l -> ~ In x l -> NoDup (l ++ [x]).
Proof.
  induction l as [|y l IH]; simpl; intros x Hn Hx; [constructor; [intros []|constructor]|].
  inversion Hn; subst. constructor.
  - rewrite in_app_iff. simpl. intros [H|[H|[]]]; [auto|subst; apply Hx; left; reflexivity].
  - apply IH; [assumption|intros H; apply Hx; right; exact H].
Qed.
Lemma nodupb_NoDup : forall l, nodupb l = true <-> NoDup l.
Proof.
  induction l as [|x l IH]; simpl; [split; [constructor|reflexivity]|].
  rewrite andb_true_iff, negb_true_iff, mem_false, IH. split.
  - intros [H1 H2]. constructor; assumption.
  - intros H. inversion H; subst. split; assumption.
Qed.
Lemma len_app : forall A (a b : list A), len (a ++ b) = len a + len b.
Proof. intros. unfold len. rewrite app_length. lia. Qed.
Lemma len_nil_iff : forall A (l : list A), len l = 0 <-> l = [].
Proof. intros. unfold len. destruct l; simpl; split; intros; try reflexivity; try discriminate; lia. Qed.
Lemma len_map : forall A B (f : A -> B) l, len (map f l) = len l.
Proof. intros. unfold len. rewrite map_length. reflexivity. Qed.

(* ------------------------------------------------------------------------------------------ *)
(* the invariant                                                                               *)
(* ------------------------------------------------------------------------------------------ *)
Record wf (i : rinfo) : Prop := mkWf {
  wf_nodes_nodup : NoDup (raft_nodes i);                                   (* replicas on distinct nodes *)
  wf_ids_nodup   : NoDup (keys (raft_ids i));                              (* RaftIDs is a map *)
  wf_ids_inj     : NoDup (map snd (raft_ids i));                           (* RaftIDs injective (voters and learners) *)
  wf_ids_max     : forall n id, In (n, id) (raft_ids i) -> id <= max_id i; (* every id <= MaxRaftID *)
  wf_rm_nodup    : NoDup (keys (removings i))                              (* Removings is a map *)
}.

(* consistency of the keys, which holds as long as a node is never both a data node and a learner
   (see keys_ok_* below): every member has an id, a removing entry belongs to a member *)
Definition keys_ok (i : rinfo) : Prop :=
  (forall n, In n (raft_nodes i) -> In n (keys (raft_ids i))) /\
  (forall n, In n (keys (removings i)) -> In n (raft_nodes i)).

(* Inv: well-formed, at most one replica marked for removal, and (when q = true) the remaining replicas a
   strict majority of the replication factor. The development is carried out for both values of q:
   q = false is what survives arbitrary changes of the replication factor, q = true is the full invariant. *)
Section WithQ.
Variable q : bool.
Definition Inv (replica : N) (i : rinfo) : Prop :=
  wf i /\ len (removings i) <= 1 /\ (q = true -> replica / 2 < len (isr i)).

Lemma Inv_lower : forall r r' i, Inv r i -> r' <= r -> Inv r' i.
Proof.
  intros r r' i [Hw [Hl Hq]] Hle. split; [exact Hw|]. split; [exact Hl|].
  intros Hq'. specialize (Hq Hq'). assert (r' / 2 <= r / 2) by (apply N.div_le_mono; lia). lia.
Qed.

Lemma is_quorum_spec : forall replica i, is_quorum replica i = true <-> replica / 2 < len (isr i).
Proof. intros. unfold is_quorum. rewrite N.ltb_lt. reflexivity. Qed.

Lemma wf_set_epoch : forall i e, wf i -> wf (set_epoch i e).
Proof. intros i e [H1 H2 H3 H4 H5]. constructor; simpl; assumption. Qed.
Lemma isr_set_epoch : forall i e, isr (set_epoch i e) = isr i.
Proof. reflexivity. Qed.
Lemma Inv_set_epoch : forall replica i e, Inv replica i -> Inv replica (set_epoch i e).
Proof. intros replica i e [H1 [H2 H3]]. split; [apply wf_set_epoch; exact H1|]. split; assumption. Qed.

Lemma In_isr : forall i n, In n (isr i) <-> In n (raft_nodes i) /\ ~ In n (keys (removings i)).
Proof. intros. unfold isr. rewrite filter_In, negb_true_iff, ahas_false. reflexivity. Qed.

(* --- mark_removing --- *)
Lemma NoDup_keys_aset : forall A k (v : A) m, NoDup (keys m) -> NoDup (keys (aset k v m)).
Proof.
  intros A k v m H. unfold aset. rewrite keys_app, keys_aremove. simpl. apply NoDup_snoc.
  - apply NoDup_filter. exact H.
  - rewrite filter_In, negb_true_iff, N.eqb_neq. tauto.
Qed.
Lemma wf_mark : forall i n now, wf i -> wf (mark_removing i n now).
Proof.
  intros i n now [H1 H2 H3 H4 H5]. constructor; simpl; try assumption.
  apply NoDup_keys_aset. exact H5.
Qed.
Lemma removings_mark_empty : forall i n now, removings i = [] -> removings (mark_removing i n now) = [(n, (now, raft_id_of i n))].
Proof. intros i n now H. simpl. rewrite H. reflexivity. Qed.

(* --- add_node --- *)
(* RaftIDs[n] = MaxRaftID+1 keeps the id map injective and bounded by the new MaxRaftID *)
Lemma ids_aset_fresh : forall ids mx n,
  NoDup (keys ids) -> NoDup (map snd ids) -> (forall x id, In (x, id) ids -> id <= mx) ->
  NoDup (keys (aset n (mx + 1) ids)) /\ NoDup (map snd (aset n (mx + 1) ids)) /\
  (forall x id, In (x, id) (aset n (mx + 1) ids) -> id <= mx + 1).
Proof.
  intros ids mx n H1 H2 H3. split; [apply NoDup_keys_aset; exact H1|]. split.
  - unfold aset. rewrite map_app. simpl. apply NoDup_snoc; [unfold aremove; apply NoDup_map_filter; exact H2|].
    intros Hi. apply in_map_iff in Hi. destruct Hi as [[x id] [He Hi]]. simpl in He. subst.
    apply In_aremove in Hi. destruct Hi as [Hi _]. apply H3 in Hi. lia.
  - intros x id. unfold aset. rewrite in_app_iff. simpl.
    intros [Hi|[Hi|[]]]; [apply In_aremove in Hi; destruct Hi as [Hi _]; apply H3 in Hi; lia|inversion Hi; lia].
Qed.
Lemma wf_add : forall i n, wf i -> ~ In n (raft_nodes i) -> wf (add_node i n).
Proof.
  intros i n [H1 H2 H3 H4 H5] Hn.
  destruct (ids_aset_fresh (raft_ids i) (max_id i) n H2 H3 H4) as [A [B C]].
  constructor; simpl; try assumption. apply NoDup_snoc; assumption.
Qed.
Lemma isr_add : forall i n, ~ In n (keys (removings i)) -> isr (add_node i n) = isr i ++ [n].
Proof.
  intros i n H. unfold isr. simpl. rewrite filter_app. simpl.
  apply ahas_false in H. rewrite H. reflexivity.
Qed.

(* --- drop_node --- *)
Lemma wf_drop : forall i n, wf i -> wf (drop_node i n).
Proof.
  intros i n [H1 H2 H3 H4 H5]. constructor; simpl.
  - apply NoDup_filter. exact H1.
  - rewrite keys_aremove. apply NoDup_filter. exact H2.
  - unfold aremove. apply NoDup_map_filter. exact H3.
  - intros x id Hi. apply In_aremove in Hi. apply (H4 x id). tauto.
  - rewrite keys_aremove. apply NoDup_filter. exact H5.
Qed.
Lemma isr_drop : forall i n, In n (keys (removings i)) -> isr (drop_node i n) = isr i.
Proof.
  intros i n Hn. unfold isr. simpl.
  induction (raft_nodes i) as [|x l IH]; simpl; [reflexivity|].
  destruct (x =? n) eqn:E; simpl.
  - apply N.eqb_eq in E. subst x. apply ahas_In in Hn. rewrite Hn. simpl. exact IH.
  - assert (Hh : ahas x (aremove n (removings i)) = ahas x (removings i)).
    { apply N.eqb_neq in E. destruct (ahas x (removings i)) eqn:E2.
      - apply ahas_In. apply ahas_In in E2. rewrite keys_aremove, filter_In, negb_true_iff, N.eqb_neq. tauto.
      - apply ahas_false. apply ahas_false in E2. rewrite keys_aremove, filter_In. tauto. }
    rewrite Hh. destruct (ahas x (removings i)); simpl; rewrite IH; reflexivity.
Qed.
Lemma filter_len_le : forall A (f : A -> bool) l, len (filter f l) <= len l.
Proof.
  intros. unfold len. induction l as [|x l IH]; simpl; [lia|]. destruct (f x); simpl; lia.
Qed.
Lemma len_removings_drop : forall i n, len (removings (drop_node i n)) <= len (removings i).
Proof.
  intros. simpl. unfold aremove. apply filter_len_le.
Qed.

(* ------------------------------------------------------------------------------------------ *)
(* what one register update may change                                                         *)
(* ------------------------------------------------------------------------------------------ *)
(* the voter set changes by at most one member per update: unchanged, one node added, or one replica
   that was marked removing dropped (raft single-server membership change) *)
Definition small_step (b v : rinfo) : Prop :=
  (forall x, In x (raft_nodes v) <-> In x (raft_nodes b)) \/
  (exists n, ~ In n (raft_nodes b) /\ forall x, In x (raft_nodes v) <-> In x (raft_nodes b) \/ x = n) \/
  (exists n, In n (raft_nodes b) /\ In n (keys (removings b)) /\
             forall x, In x (raft_nodes v) <-> In x (raft_nodes b) /\ x <> n).

(* how the keys of RaftIDs / Removings / the learner list follow the voter set in one update (used for the key
   consistency theorem under role separation, see keys_consistent) *)
Record krel (b v : rinfo) : Prop := mkKrel {
  kr_newnode : forall n, In n (raft_nodes v) -> In n (raft_nodes b) \/ In n (keys (raft_ids v));
  kr_keepid  : forall n, In n (raft_nodes v) -> In n (keys (raft_ids b)) -> In n (keys (raft_ids v)) \/ In n (learners b);
  kr_newmark : forall n, In n (keys (removings v)) ->
                         In n (keys (removings b)) \/ In n (raft_nodes b) \/ In n (keys (raft_ids b));
  kr_dropped : forall n, In n (raft_nodes b) -> ~ In n (raft_nodes v) ->
                         ~ In n (keys (removings v)) /\ (~ In n (keys (raft_ids v)) \/ In n (learners v));
  kr_newid   : forall n, In n (keys (raft_ids v)) -> In n (keys (raft_ids b)) \/ In n (raft_nodes v) \/ In n (learners v);
  kr_droplrn : forall n, In n (learners b) -> ~ In n (learners v) -> ~ In n (keys (raft_ids v)) \/ In n (raft_nodes v)
}.
Lemma krel_refl : forall i, krel i i.
Proof. intros. constructor; intros; try tauto; contradiction. Qed.
Lemma keys_aset : forall A k (v : A) m x, In x (keys (aset k v m)) <-> (In x (keys m) /\ x <> k) \/ x = k.
Proof.
  intros. unfold aset. rewrite keys_app, in_app_iff, keys_aremove, filter_In, negb_true_iff, N.eqb_neq. simpl.
  split; [intros [H|[H|[]]]; auto|intros [H|H]; auto].
Qed.

Record trans (b v : rinfo) : Prop := mkTrans {
  tr_max  : max_id b <= max_id v;                                   (* MaxRaftID never decreases *)
  tr_ids  : forall n id, In (n, id) (raft_ids v) -> In (n, id) (raft_ids b) \/ max_id b < id;
                                                                    (* an id is kept or is a fresh one above MaxRaftID *)
  tr_add  : forall x y, In x (raft_nodes v) -> ~ In x (raft_nodes b) ->
                        In y (raft_nodes v) -> ~ In y (raft_nodes b) -> x = y;   (* at most one node added *)
  tr_drop : forall x, In x (raft_nodes b) -> ~ In x (raft_nodes v) -> In x (keys (removings b));
                                                                    (* only a replica marked removing is dropped *)
  tr_small : small_step b v;
  tr_krel : krel b v
}.

Lemma trans_refl : forall i, trans i i.
Proof. intros. constructor; [lia|auto|intros; contradiction|intros; contradiction|left; tauto|apply krel_refl]. Qed.
Lemma trans_mark : forall i n now,
  In n (raft_nodes i) \/ In n (keys (raft_ids i)) -> trans i (mark_removing i n now).
Proof.
  intros i n now Hn. constructor; simpl; [lia|auto|intros; contradiction|intros; contradiction|left; simpl; tauto|].
  constructor; simpl; intros; try tauto; try contradiction.
  apply keys_aset in H. destruct H as [[H _]|H]; [left; exact H|subst; right; exact Hn].
Qed.
Lemma trans_add : forall i n, trans i (add_node i n).
Proof.
  intros. constructor; simpl.
  - lia.
  - intros x id Hi. unfold aset in Hi. rewrite in_app_iff in Hi. destruct Hi as [Hi|[Hi|[]]].
    + left. apply In_aremove in Hi. tauto.
    + inversion Hi. right. lia.
  - intros x y Hx Hnx Hy Hny. rewrite in_app_iff in Hx, Hy. simpl in Hx, Hy.
    destruct Hx as [Hx|[Hx|[]]]; [contradiction|]. destruct Hy as [Hy|[Hy|[]]]; [contradiction|]. congruence.
  - intros x Hx Hnx. exfalso. apply Hnx. rewrite in_app_iff. left. exact Hx.
  - destruct (in_dec N.eq_dec n (raft_nodes i)) as [Hin|Hin].
    + left. simpl. intros x. rewrite in_app_iff. simpl. split; [intros [H|[H|[]]]; [exact H|subst; exact Hin]|tauto].
    + right. left. exists n. split; [exact Hin|]. simpl. intros x. rewrite in_app_iff. simpl.
      split; [intros [H|[H|[]]]; auto|intros [H|H]; auto].
  - constructor; simpl.
    + intros x Hx. rewrite in_app_iff in Hx. simpl in Hx. destruct Hx as [Hx|[Hx|[]]]; [left; exact Hx|].
      subst. right. apply keys_aset. right. reflexivity.
    + intros x _ Hk. left. apply keys_aset. destruct (N.eq_dec x n); [right; assumption|left; split; assumption].
    + intros x Hx. left. exact Hx.
    + intros x Hx Hnx. exfalso. apply Hnx. rewrite in_app_iff. left. exact Hx.
    + intros x Hx. apply keys_aset in Hx. destruct Hx as [[Hx _]|Hx]; [left; exact Hx|].
      subst. right. left. rewrite in_app_iff. right. left. reflexivity.
    + intros x Hx Hnx. contradiction.
Qed.

(* a value obtained by dropping replicas that are marked removing *)
Record shrinks (b v : rinfo) : Prop := mkShr {
  sh_max   : max_id v = max_id b;
  sh_ep    : epoch v = epoch b;
  sh_ids   : forall e, In e (raft_ids v) -> In e (raft_ids b);
  sh_nodes : forall x, In x (raft_nodes v) -> In x (raft_nodes b);
  sh_drop  : forall x, In x (raft_nodes b) -> ~ In x (raft_nodes v) -> In x (keys (removings b));
  sh_rm    : len (removings v) <= len (removings b);
  sh_rmk   : forall x, In x (keys (removings v)) -> In x (keys (removings b));
  sh_lrn   : learners v = learners b;
  sh_keep  : forall x, In x (raft_nodes v) -> In x (keys (raft_ids b)) -> In x (keys (raft_ids v));
  sh_gone  : forall x, In x (raft_nodes b) -> ~ In x (raft_nodes v) ->
                       ~ In x (keys (removings v)) /\ ~ In x (keys (raft_ids v))
}.
Lemma shrinks_refl : forall i, shrinks i i.
Proof. intros. constructor; auto; try lia; intros; contradiction. Qed.
Lemma shrinks_drop : forall b v n, shrinks b v -> In n (keys (removings b)) -> shrinks b (drop_node v n).
Proof.
  intros b v n [H1 H2 H3 H4 H5 H6 H7 H8 H9 H10] Hn. constructor; simpl; try assumption.
  - intros e He. apply In_aremove in He. apply H3. tauto.
  - intros x Hx. apply filter_In in Hx. apply H4. tauto.
  - intros x Hx Hnx. rewrite filter_In, negb_true_iff, N.eqb_neq in Hnx.
    destruct (N.eq_dec x n) as [->|Hne]; [exact Hn|]. apply H5; [exact Hx|]. intros Hv. apply Hnx. tauto.
  - assert (H := len_removings_drop v n). simpl in H. lia.
  - intros x Hx. rewrite keys_aremove in Hx. apply filter_In in Hx. apply H7. tauto.
  - intros x Hx Hk. apply filter_In in Hx. destruct Hx as [Hx Hne]. rewrite negb_true_iff, N.eqb_neq in Hne.
    rewrite keys_aremove, filter_In, negb_true_iff, N.eqb_neq. split; [apply H9; assumption|exact Hne].
  - intros x Hx Hnx. rewrite !keys_aremove, !filter_In, negb_true_iff, N.eqb_neq.
    rewrite filter_In, negb_true_iff, N.eqb_neq in Hnx.
    destruct (in_dec N.eq_dec x (raft_nodes v)) as [Hv|Hv].
    + assert (x = n) by (destruct (N.eq_dec x n); [assumption|exfalso; apply Hnx; tauto]). subst. tauto.
    + destruct (H10 x Hx Hv) as [A B]. tauto.
Qed.
Lemma shrinks_trans : forall b v, len (removings b) <= 1 -> shrinks b v -> trans b v.
Proof.
  intros b v Hl [H1 H2 H3 H4 H5 H6 H7 H8 H9 H10]. constructor.
  6: { constructor.
       - intros n Hn. left. apply H4. exact Hn.
       - intros n Hn Hk. left. apply H9; assumption.
       - intros n Hn. left. apply H7. exact Hn.
       - intros n Hn Hnn. destruct (H10 n Hn Hnn) as [A B]. split; [exact A|left; exact B].
       - intros n Hn. left. apply in_map_iff in Hn. destruct Hn as [e [He Hn]]. subst. apply in_map. apply H3. exact Hn.
       - intros n Hn Hnn. rewrite H8 in Hnn. contradiction. }
  - lia.
  - intros n id Hi. left. apply H3. exact Hi.
  - intros x y Hx Hnx. exfalso. apply Hnx. apply H4. exact Hx.
  - exact H5.
  - destruct (removings b) as [|[n d] [|e2 rest]] eqn:Er.
    + left. intros x. split; [apply H4|]. intros Hx. destruct (in_dec N.eq_dec x (raft_nodes v)) as [H|H]; [exact H|].
      exfalso. apply (H5 x Hx H).
    + destruct (in_dec N.eq_dec n (raft_nodes v)) as [Hv|Hv].
      * left. intros x. split; [apply H4|]. intros Hx. destruct (in_dec N.eq_dec x (raft_nodes v)) as [H|H]; [exact H|].
        specialize (H5 x Hx H). simpl in H5. destruct H5 as [H5|[]]. subst. exact Hv.
      * destruct (in_dec N.eq_dec n (raft_nodes b)) as [Hb|Hb].
        -- right. right. exists n. split; [exact Hb|]. split; [rewrite Er; simpl; left; reflexivity|].
           intros x. split.
           ++ intros Hx. split; [apply H4; exact Hx|]. intros ->. contradiction.
           ++ intros [Hx Hne]. destruct (in_dec N.eq_dec x (raft_nodes v)) as [H|H]; [exact H|].
              specialize (H5 x Hx H). simpl in H5. destruct H5 as [H5|[]]. congruence.
        -- left. intros x. split; [apply H4|]. intros Hx. destruct (in_dec N.eq_dec x (raft_nodes v)) as [H|H]; [exact H|].
           specialize (H5 x Hx H). simpl in H5. destruct H5 as [H5|[]]. subst. contradiction.
    + exfalso. unfold len in Hl. simpl in Hl. lia.
Qed.

(* shrink clause: whatever q, a write that makes the set of non-removing replicas smaller leaves a strict
   majority of the replication factor in effect *)
Definition shrink_ok (replica : N) (b v : rinfo) : Prop :=
  len (isr v) < len (isr b) -> replica / 2 < len (isr v).
Definition att_ok (replica : N) (a : attempt) : Prop :=
  Inv replica (a_before a) /\ Inv replica (a_value a) /\ trans (a_before a) (a_value a) /\
  shrink_ok replica (a_before a) (a_value a).

(* the attempts of a run form a chain over the stored register value *)
Inductive chain : rinfo -> list attempt -> rinfo -> Prop :=
  | chain_nil : forall c, chain c [] c
  | chain_fail : forall c a t f, a_before a = c -> a_ok a = false -> chain c t f -> chain c (a :: t) f
  | chain_ok : forall c a t f e, a_before a = c -> a_ok a = true ->
                 chain (set_epoch (a_value a) e) t f -> chain c (a :: t) f.

Lemma chain_app : forall c l1 m l2 f, chain c l1 m -> chain m l2 f -> chain c (l1 ++ l2) f.
Proof.
  intros c l1 m l2 f H. induction H; simpl; intros H2; [exact H2| |].
  - apply chain_fail; auto.
  - eapply chain_ok; eauto.
Qed.

Lemma reg_update_spec : forall r v g r' o a,
  reg_update r v g = (r', o, a) ->
  a_before a = r_info r /\ a_value a = v /\
  ((o = None /\ r_info r' = r_info r /\ a_ok a = false) \/
   (exists e, o = Some (set_epoch v e) /\ r_info r' = set_epoch v e /\ a_ok a = true)).
Proof.
  intros r v g r' o a H. unfold reg_update in H.
  destruct (0 <? r_mode r); [inversion H; subst; simpl; repeat split; auto|].
  destruct (0 <? r_fail r).
  - inversion H; subst; simpl. repeat split; auto.
  - destruct (g =? epoch (r_info r)); inversion H; subst; simpl.
    + repeat split; auto. right. eexists. repeat split; reflexivity.
    + repeat split; auto.
Qed.

(* specification shared by all decision procedures: called with the caller's copy equal to the stored
   value, they keep the invariant of the stored value, return the stored value, and every attempt is a
   permitted change of the value stored at that moment and satisfies the procedure-specific clause P *)
Definition pspec {C : Type} (replica : N) (P : attempt -> Prop) (r : reg) (o : C * reg * rinfo * list attempt) : Prop :=
  let '(_, r', info', atts) := o in
  Inv replica (r_info r') /\ info' = r_info r' /\
  Forall (fun a => att_ok replica a /\ P a) atts /\ chain (r_info r) atts (r_info r').

Lemma pspec_noop : forall {C : Type} replica P r (c : C), Inv replica (r_info r) -> pspec replica P r (c, r, r_info r, []).
Proof. intros. simpl. split; [assumption|]. split; [reflexivity|]. split; constructor. Qed.

(* the common tail of every procedure: one update attempt with a checked value *)
Lemma pspec_update : forall {C : Type} replica (P : attempt -> Prop) r v (c1 c2 : C),
  Inv replica (r_info r) -> Inv replica v -> trans (r_info r) v -> shrink_ok replica (r_info r) v ->
  (forall a, a_before a = r_info r -> a_value a = v -> P a) ->
  pspec replica P r
    (match reg_update r v (epoch v) with
     | (r', Some ns', a) => (c1, r', ns', [a])
     | (r', None, a) => (c2, r', r_info r, [a])
     end).
Proof.
  intros C replica P r v c1 c2 Hi Hv Ht Hsh HP.
  destruct (reg_update r v (epoch v)) as [[r' o] a] eqn:E.
  apply reg_update_spec in E. destruct E as [Hb [Hval [[Ho [Hr Hk]]|[e [Ho [Hr Hk]]]]]]; subst o; simpl.
  - rewrite Hr. split; [exact Hi|]. split; [reflexivity|]. split.
    + constructor; [|constructor]. split; [split; [rewrite Hb; exact Hi|split; [rewrite Hval; exact Hv|split; [rewrite Hb, Hval; exact Ht|rewrite Hb, Hval; exact Hsh]]]|apply HP; assumption].
    + apply chain_fail; [exact Hb|exact Hk|constructor].
  - rewrite Hr. split; [|split; [reflexivity|split]].
    + apply Inv_set_epoch. exact Hv.
    + constructor; [|constructor]. split; [split; [rewrite Hb; exact Hi|split; [rewrite Hval; exact Hv|split; [rewrite Hb, Hval; exact Ht|rewrite Hb, Hval; exact Hsh]]]|apply HP; assumption].
    + eapply chain_ok; [exact Hb|exact Hk|]. rewrite Hval. constructor.
Qed.

(* ------------------------------------------------------------------------------------------ *)
(* the clauses about WHEN a node may be added / a removal may be marked                          *)
(* ------------------------------------------------------------------------------------------ *)
(* all_ready means: every current (non-removing) replica answered the member query with the full ready
   set and answered "synced" *)
Lemma all_ready_synced : forall env i n, all_ready env i = true -> In n (isr i) -> synced_of env n = true.
Proof.
  intros env i n H Hn. unfold all_ready in H. rewrite forallb_forall in H. specialize (H n Hn).
  unfold node_full_ready in H. destruct (raft_nodes i); [discriminate|].
  rewrite forallb_forall in H. specialize (H n Hn).
  destruct (members_of env n); [|discriminate]. apply andb_true_iff in H. tauto.
Qed.

Definition new_node (a : attempt) : Prop :=
  exists x, In x (raft_nodes (a_value a)) /\ ~ In x (raft_nodes (a_before a)).
Definition new_mark (a : attempt) : Prop :=
  exists x, In x (keys (removings (a_value a))) /\ ~ In x (keys (removings (a_before a))).
(* a node is added only when no removal is pending and every current replica answered ready/synced *)
Definition att_sync (env : answers) (a : attempt) : Prop :=
  new_node a -> all_ready env (a_before a) = true /\ removings (a_before a) = [].
(* a removal is marked only when more than replica/2 of the replicas are on registered (alive) nodes *)
(* a replica counts as reachable when its node is registered AND it answered the sync query *)
Definition reach (env : answers) (cur : list N) (n : N) : bool := mem n cur && synced_of env n.
Definition count_reach (env : answers) (cur l : list N) : N := len (filter (reach env cur) l).
Definition att_alive (replica : N) (env : answers) (cur : list N) (a : attempt) : Prop :=
  new_mark a -> replica / 2 < count_reach env cur (raft_nodes (a_before a)).
(* ... or (balance / node decommission) only when every remaining replica answered ready/synced *)
Definition att_mark_ready (env : answers) (a : attempt) : Prop :=
  new_mark a -> all_ready env (a_before a) = true.

Lemma len_zero_ltb : forall A (l : list A), (0 <? len l) = false -> l = [].
Proof. intros A l H. apply N.ltb_ge in H. apply len_nil_iff. lia. Qed.
Lemma len_zero_eqb : forall A (l : list A), (len l =? 0) = true -> l = [].
Proof. intros A l H. apply N.eqb_eq in H. apply len_nil_iff. exact H. Qed.

(* --- addNamespaceToNode --- *)
Lemma add_to_node_spec : forall replica (P : attempt -> Prop) r nid,
  Inv replica (r_info r) ->
  (forall a, a_before a = r_info r -> a_value a = add_node (r_info r) nid ->
             removings (r_info r) = [] -> ~ In nid (raft_nodes (r_info r)) -> P a) ->
  pspec replica P r (add_to_node r (r_info r) nid).
Proof.
  intros replica P r nid Hi HP. unfold add_to_node.
  destruct (0 <? len (removings (r_info r))) eqn:E1; [apply pspec_noop; exact Hi|].
  destruct (nodupb (raft_nodes (r_info r) ++ [nid])) eqn:E2; cbn [negb orb andb]; [|apply pspec_noop; exact Hi].
  apply len_zero_ltb in E1. apply nodupb_NoDup in E2.
  assert (Hn : ~ In nid (raft_nodes (r_info r))).
  { intros Hin. apply NoDup_remove_2 with (l' := []) in E2. apply E2. rewrite app_nil_r. exact Hin. }
  destruct Hi as [Hw [Hl Hq]].
  apply pspec_update.
  - split; [exact Hw|split; assumption].
  - split; [apply wf_add; assumption|]. split.
    + simpl. exact Hl.
    + rewrite isr_add; [rewrite len_app; unfold len at 2; simpl; lia|]. rewrite E1. simpl. tauto.
  - apply trans_add.
  - intros Hlt. exfalso. rewrite isr_add in Hlt; [rewrite len_app in Hlt; lia|]. rewrite E1. simpl. tauto.
  - intros a Hb Hv. apply HP; assumption.
Qed.

(* --- removeNamespaceFromNode --- *)
Lemma remove_from_node_spec : forall replica (P : attempt -> Prop) now r nid,
  Inv replica (r_info r) ->
  (forall a, a_before a = r_info r -> a_value a = mark_removing (r_info r) nid now -> P a) ->
  pspec replica P r (remove_from_node replica now r (r_info r) nid).
Proof.
  intros replica P now r nid Hi HP. unfold remove_from_node.
  destruct (ahas nid (removings (r_info r))); [apply pspec_noop; exact Hi|].
  destruct (ahas nid (raft_ids (r_info r))) eqn:E2; cbn [negb orb andb]; [|apply pspec_noop; exact Hi].
  destruct (is_quorum replica (r_info r)); cbn [negb orb andb]; [|apply pspec_noop; exact Hi].
  destruct (0 <? len (removings (r_info r))) eqn:E4; [apply pspec_noop; exact Hi|].
  destruct (is_quorum replica (mark_removing (r_info r) nid now)) eqn:E5; cbn [negb orb andb]; [|apply pspec_noop; exact Hi].
  destruct (1 <? len (removings (mark_removing (r_info r) nid now))) eqn:E6; cbn [negb orb andb]; [apply pspec_noop; exact Hi|].
  assert (Hw := Hi). destruct Hw as [Hw _].
  apply pspec_update.
  - exact Hi.
  - split; [|split].
    + apply wf_mark. exact Hw.
    + apply N.ltb_ge in E6. exact E6.
    + intros _. apply is_quorum_spec. exact E5.
  - apply trans_mark. right. apply ahas_In. exact E2.
  - intros _. apply is_quorum_spec. exact E5.
  - exact HP.
Qed.

(* --- removeNamespaceFromRemovings --- *)
Lemma finish_fold_shrinks : forall env now b l acc,
  (forall e, In e l -> In (fst e) (keys (removings b))) ->
  shrinks b (fst acc) -> wf (fst acc) ->
  let res := fold_left (finish_step env now) l acc in
  shrinks b (fst res) /\ wf (fst res).
Proof.
  intros env now b l. induction l as [|e l IH]; intros acc Hl Hs Hw; cbn [negb orb andb]; [split; assumption|].
  apply IH.
  - intros e' He'. apply Hl. right. exact He'.
  - destruct acc as [cur changed]. destruct e as [nid [rt rid]]. simpl in *.
    destruct (rt =? 0); [exact Hs|]. destruct (now - rt <? wait_removing); [exact Hs|].
    destruct (joined_or_err env cur nid); [exact Hs|].
    destruct (len (filter (fun x : N => negb (x =? nid)) (raft_nodes cur)) <? 1); [exact Hs|]. simpl.
    apply shrinks_drop; [exact Hs|]. apply (Hl (nid, (rt, rid))). left. reflexivity.
  - destruct acc as [cur changed]. destruct e as [nid [rt rid]]. simpl in *.
    destruct (rt =? 0); [exact Hw|]. destruct (now - rt <? wait_removing); [exact Hw|].
    destruct (joined_or_err env cur nid); [exact Hw|].
    destruct (len (filter (fun x : N => negb (x =? nid)) (raft_nodes cur)) <? 1); [exact Hw|]. simpl.
    apply wf_drop. exact Hw.
Qed.

Lemma remove_from_removings_spec : forall replica (P : attempt -> Prop) env now r,
  Inv replica (r_info r) ->
  (forall a, a_before a = r_info r -> shrinks (r_info r) (a_value a) -> P a) ->
  pspec replica P r (remove_from_removings replica env now r (r_info r)).
Proof.
  intros replica P env now r Hi HP. unfold remove_from_removings.
  destruct (fold_left (finish_step env now) (removings (r_info r)) (r_info r, false)) as [ns changed] eqn:E.
  assert (Hf := finish_fold_shrinks env now (r_info r) (removings (r_info r)) (r_info r, false)).
  simpl in Hf. rewrite E in Hf. simpl in Hf.
  destruct Hf as [Hs Hw].
  { intros e He. apply (in_map fst) in He. exact He. }
  { apply shrinks_refl. }
  { destruct Hi as [Hw _]. exact Hw. }
  destruct changed; cbn [negb orb andb]; [|apply pspec_noop; exact Hi].
  destruct (is_quorum replica ns) eqn:Eq; [|apply pspec_noop; exact Hi].
  apply pspec_update.
  - exact Hi.
  - split; [exact Hw|]. split.
    + destruct Hi as [_ [Hl _]]. assert (H := sh_rm _ _ Hs). lia.
    + intros _. apply is_quorum_spec. exact Eq.
  - apply shrinks_trans; [destruct Hi as [_ [Hl _]]; exact Hl|exact Hs].
  - intros _. apply is_quorum_spec. exact Eq.
  - intros a Hb Hv. apply HP; [exact Hb|]. rewrite Hv. exact Hs.
Qed.

(* --- handleNamespaceMigrate --- *)
Lemma mig_loop_nonempty : forall replica env cur now l alive ns chg a' ns' c',
  removings ns <> [] ->
  mig_loop replica env cur now l alive ns chg = Some (a', ns', c') -> ns' = ns.
Proof.
  intros replica env cur now l. induction l as [|rp l IH]; intros alive ns chg a' ns' c' Hne H; simpl in H.
  - inversion H. reflexivity.
  - destruct (mem rp cur).
    + destruct (synced_of env rp); [eapply IH; eauto|discriminate].
    + destruct (ahas rp (removings ns)); [eapply IH; eauto|].
      assert (E : (len (removings ns) =? 0) = false).
      { apply N.eqb_neq. intros H0. apply len_nil_iff in H0. contradiction. }
      rewrite E in H. simpl in H. eapply IH; eauto.
Qed.

Lemma mig_loop_alive : forall replica env cur now l alive ns chg a' ns' c',
  mig_loop replica env cur now l alive ns chg = Some (a', ns', c') -> a' = alive + count_in cur l.
Proof.
  intros replica env cur now l. induction l as [|rp l IH]; intros alive ns chg a' ns' c' H; simpl in H.
  - inversion H. unfold count_in, len. simpl. lia.
  - unfold count_in. simpl. destruct (mem rp cur).
    + destruct (synced_of env rp); [|discriminate]. apply IH in H. unfold count_in in H. unfold len in *. simpl. lia.
    + fold (count_in cur l).
      destruct (ahas rp (removings ns)); [eapply IH; eauto|].
      destruct ((len (removings ns) =? 0) && (replica / 2 + 1 <? len (isr ns))); eapply IH; eauto.
Qed.

Lemma mig_loop_empty : forall replica env cur now l alive ns chg a' ns' c',
  removings ns = [] ->
  mig_loop replica env cur now l alive ns chg = Some (a', ns', c') ->
  ns' = ns \/ exists x, In x l /\ ns' = mark_removing ns x now.
Proof.
  intros replica env cur now l. induction l as [|rp l IH]; intros alive ns chg a' ns' c' He H; simpl in H.
  - inversion H. left. reflexivity.
  - destruct (mem rp cur).
    + destruct (synced_of env rp); [|discriminate].
      apply IH in H; [|exact He]. destruct H as [H|[x [Hx H]]]; [left; exact H|right; exists x; split; [right; exact Hx|exact H]].
    + destruct (ahas rp (removings ns)).
      * apply IH in H; [|exact He]. destruct H as [H|[x [Hx H]]]; [left; exact H|right; exists x; split; [right; exact Hx|exact H]].
      * destruct ((len (removings ns) =? 0) && (replica / 2 + 1 <? len (isr ns))).
        -- apply mig_loop_nonempty in H.
           ++ right. exists rp. split; [left; reflexivity|exact H].
           ++ simpl. rewrite He. discriminate.
        -- apply IH in H; [|exact He]. destruct H as [H|[x [Hx H]]]; [left; exact H|right; exists x; split; [right; exact Hx|exact H]].
Qed.

Lemma mig_loop_synced : forall replica env cur now l alive ns chg a' ns' c',
  mig_loop replica env cur now l alive ns chg = Some (a', ns', c') ->
  forall x, In x l -> mem x cur = true -> synced_of env x = true.
Proof.
  intros replica env cur now l. induction l as [|rp l IH]; intros alive ns chg a' ns' c' H x Hx Hm; [destruct Hx|].
  simpl in H. destruct (mem rp cur) eqn:Em.
  - destruct (synced_of env rp) eqn:Es; [|discriminate].
    destruct Hx as [<-|Hx]; [exact Es|eapply IH; eassumption].
  - destruct Hx as [<-|Hx]; [congruence|].
    destruct (ahas rp (removings ns)); [eapply IH; eassumption|].
    destruct ((len (removings ns) =? 0) && (replica / 2 + 1 <? len (isr ns))); eapply IH; eassumption.
Qed.
Lemma filter_ext_in_len : forall A (f g : A -> bool) l, (forall x, In x l -> f x = g x) -> len (filter f l) = len (filter g l).
Proof.
  intros A f g l H. unfold len. f_equal. induction l as [|x l IH]; simpl; [reflexivity|].
  rewrite (H x (or_introl eq_refl)). destruct (g x); simpl; rewrite IH; auto; intros y Hy; apply H; right; exact Hy.
Qed.

Lemma migrate_tail : forall replica (P : attempt -> Prop) r ns2 chg2,
  Inv replica (r_info r) -> wf ns2 -> trans (r_info r) ns2 ->
  (forall a, a_before a = r_info r -> a_value a = ns2 -> P a) ->
  pspec replica P r
    (if chg2 && is_quorum replica ns2 then
       if 1 <? len (removings ns2) then (CConfInvalid, r, r_info r, [])
       else match reg_update r ns2 (epoch ns2) with
            | (r', Some ns', a) => (COk, r', ns', [a])
            | (r', None, a) => (CRegUnstable, r', r_info r, [a])
            end
     else (CWaiting, r, r_info r, [])).
Proof.
  intros replica P r ns2 chg2 Hi Hw Ht HP.
  destruct chg2; cbn [andb]; [|apply pspec_noop; exact Hi].
  destruct (is_quorum replica ns2) eqn:Eq; [|apply pspec_noop; exact Hi].
  destruct (1 <? len (removings ns2)) eqn:E1; [apply pspec_noop; exact Hi|].
  apply pspec_update; [exact Hi| |exact Ht|intros _; apply is_quorum_spec; exact Eq|exact HP].
  split; [exact Hw|]. split; [apply N.ltb_ge in E1; exact E1|intros _; apply is_quorum_spec; exact Eq].
Qed.

Lemma no_new_node_same : forall a, raft_nodes (a_value a) = raft_nodes (a_before a) -> ~ new_node a.
Proof. intros a H [x [H1 H2]]. rewrite H in H1. contradiction. Qed.
Lemma no_new_mark_same : forall a, removings (a_value a) = removings (a_before a) -> ~ new_mark a.
Proof. intros a H [x [H1 H2]]. rewrite H in H1. contradiction. Qed.

Lemma handle_migrate_spec : forall replica env now r nepoch cur ep place,
  Inv replica (r_info r) ->
  pspec replica (fun a => att_sync env a /\ att_alive replica env cur a) r
        (handle_migrate replica env now r nepoch (r_info r) cur ep place).
Proof.
  intros replica env now r nepoch cur ep place Hi. unfold handle_migrate.
  destruct (negb (ep =? nepoch)); [apply pspec_noop; exact Hi|].
  destruct (0 <? len (removings (r_info r))) eqn:E0; [apply pspec_noop; exact Hi|].
  apply len_zero_ltb in E0.
  destruct (mig_loop replica env cur now (raft_nodes (r_info r)) 0 (r_info r) false) as [[[alive ns] chg]|] eqn:EL;
    [|apply pspec_noop; exact Hi].
  assert (Ha := mig_loop_alive _ _ _ _ _ _ _ _ _ _ _ EL). rewrite N.add_0_l in Ha.
  assert (Hc := mig_loop_empty _ _ _ _ _ _ _ _ _ _ _ E0 EL).
  assert (Hw : wf (r_info r)) by (destruct Hi as [Hw _]; exact Hw).
  destruct Hc as [Hc|[x [Hx Hc]]]; subst ns.
  - (* nothing marked *)
    rewrite E0. change (len (@nil (N * (N * N)))) with 0. cbn [N.ltb N.eqb N.compare andb].
    rewrite andb_false_r.
    destruct (all_ready env (r_info r)) eqn:Er.
    + destruct (alive <? replica).
      * destruct (alloc_node place cur (r_info r)) as [[n|]|] eqn:Ea.
        -- (* add n *)
           assert (Hn : ~ In n (raft_nodes (r_info r))).
           { unfold alloc_node in Ea. destruct place as [| |l]; try discriminate.
             destruct (find (fun n0 : N => negb (mem n0 (raft_nodes (r_info r)))) l) eqn:Ef; [|discriminate].
             apply find_some in Ef. destruct Ef as [_ Ef]. destruct (mem n0 cur); inversion Ea; subst.
             apply negb_true_iff in Ef. apply mem_false in Ef. exact Ef. }
           apply migrate_tail; [exact Hi|apply wf_add; assumption|apply trans_add|].
           intros a Hb Hv. split.
           ++ intros _. rewrite Hb. split; assumption.
           ++ intros Hm. exfalso. revert Hm. apply no_new_mark_same. rewrite Hb, Hv. reflexivity.
        -- apply migrate_tail; [exact Hi|exact Hw|apply trans_refl|].
           intros a Hb Hv. split; intros Hm; exfalso; revert Hm;
             [apply no_new_node_same|apply no_new_mark_same]; rewrite Hb, Hv; reflexivity.
        -- apply pspec_noop. exact Hi.
      * apply migrate_tail; [exact Hi|exact Hw|apply trans_refl|].
        intros a Hb Hv. split; intros Hm; exfalso; revert Hm;
          [apply no_new_node_same|apply no_new_mark_same]; rewrite Hb, Hv; reflexivity.
    + apply migrate_tail; [exact Hi|exact Hw|apply trans_refl|].
      intros a Hb Hv. split; intros Hm; exfalso; revert Hm;
        [apply no_new_node_same|apply no_new_mark_same]; rewrite Hb, Hv; reflexivity.
  - (* replica x marked *)
    rewrite (removings_mark_empty _ _ _ E0).
    change (len [(x, (now, raft_id_of (r_info r) x))]) with 1. cbn [N.ltb N.eqb N.compare Pos.compare Pos.compare_cont andb].
    destruct (alive <=? replica / 2) eqn:Eal; [apply pspec_noop; exact Hi|].
    rewrite andb_true_r.
    destruct (len cur <? replica); [apply pspec_noop; exact Hi|].
    apply migrate_tail; [exact Hi|apply wf_mark; assumption|apply trans_mark; left; exact Hx|].
    intros a Hb Hv. split.
    + intros Hm. exfalso. revert Hm. apply no_new_node_same. rewrite Hb, Hv. reflexivity.
    + intros _. rewrite Hb. apply N.leb_gt in Eal.
      assert (Hcr : count_reach env cur (raft_nodes (r_info r)) = count_in cur (raft_nodes (r_info r))).
      { unfold count_reach, count_in. apply filter_ext_in_len. intros y Hy. unfold reach.
        destruct (mem y cur) eqn:Em; [|reflexivity]. rewrite (mig_loop_synced _ _ _ _ _ _ _ _ _ _ _ EL y Hy Em). reflexivity. }
      rewrite Hcr. lia.
Qed.

(* ------------------------------------------------------------------------------------------ *)
(* composing procedures: specification of a whole event                                        *)
(* ------------------------------------------------------------------------------------------ *)
Definition sspec (replica : N) (P : attempt -> Prop) (r r' : reg) (atts : list attempt) : Prop :=
  Inv replica (r_info r') /\ Forall (fun a => att_ok replica a /\ P a) atts /\ chain (r_info r) atts (r_info r').

Lemma sspec_nil : forall replica P r, Inv replica (r_info r) -> sspec replica P r r [].
Proof. intros. split; [assumption|]. split; constructor. Qed.
Lemma sspec_same_info : forall replica P r r', r_info r' = r_info r -> Inv replica (r_info r) -> sspec replica P r r' [].
Proof. intros replica P r r' H Hi. split; [rewrite H; assumption|]. split; [constructor|rewrite H; constructor]. Qed.
Lemma pspec_sspec : forall {C : Type} replica P r (c : C) r' info' atts,
  pspec replica P r (c, r', info', atts) -> sspec replica P r r' atts /\ info' = r_info r'.
Proof. intros C replica P r c r' info' atts [H1 [H2 [H3 H4]]]. split; [split; [|split]; assumption|assumption]. Qed.
Lemma sspec_app : forall replica P r r1 r2 w1 w2,
  sspec replica P r r1 w1 -> sspec replica P r1 r2 w2 -> sspec replica P r r2 (w1 ++ w2).
Proof.
  intros replica P r r1 r2 w1 w2 [A1 [A2 A3]] [B1 [B2 B3]]. split; [exact B1|]. split.
  - apply Forall_app. split; assumption.
  - eapply chain_app; eassumption.
Qed.
Lemma sspec_weaken : forall replica (P Q : attempt -> Prop) r r' atts,
  (forall a, P a -> Q a) -> sspec replica P r r' atts -> sspec replica Q r r' atts.
Proof.
  intros replica P Q r r' atts H [A1 [A2 A3]]. split; [exact A1|]. split; [|exact A3].
  eapply Forall_impl; [|exact A2]. intros a [Ha Hp]. split; [exact Ha|apply H; exact Hp].
Qed.

Lemma filter_len_mono : forall A (f g : A -> bool) l,
  (forall x, f x = true -> g x = true) -> len (filter f l) <= len (filter g l).
Proof.
  intros A f g l H. unfold len. induction l as [|x l IH]; simpl; [lia|].
  destruct (f x) eqn:Ef; [rewrite (H x Ef); simpl; lia|destruct (g x); simpl; lia].
Qed.
Lemma count_in_mono_cur : forall c1 c2 l, (forall x, In x c1 -> In x c2) -> count_in c1 l <= count_in c2 l.
Proof.
  intros c1 c2 l H. unfold count_in. apply filter_len_mono. intros x Hx. apply mem_In. apply H. apply mem_In. exact Hx.
Qed.
Lemma count_in_incl : forall cur l1 l2, NoDup l1 -> (forall x, In x l1 -> In x l2) -> count_in cur l1 <= count_in cur l2.
Proof.
  intros cur l1 l2 Hn Hi. unfold count_in, len.
  assert (H : (length (filter (fun n => mem n cur) l1) <= length (filter (fun n => mem n cur) l2))%nat).
  { apply NoDup_incl_length; [apply NoDup_filter; exact Hn|].
    intros x Hx. apply filter_In in Hx. apply filter_In. split; [apply Hi; tauto|tauto]. }
  lia.
Qed.

Lemma count_reach_mono_cur : forall env c1 c2 l, (forall x, In x c1 -> In x c2) -> count_reach env c1 l <= count_reach env c2 l.
Proof.
  intros env c1 c2 l H. unfold count_reach. apply filter_len_mono. intros x Hx. unfold reach in *.
  apply andb_true_iff in Hx. destruct Hx as [Hm Hs]. apply mem_In in Hm. apply H in Hm. apply mem_In in Hm. rewrite Hm, Hs. reflexivity.
Qed.
Lemma filter_len_incl : forall (f : N -> bool) l1 l2, NoDup l1 -> (forall x, In x l1 -> In x l2) ->
  len (filter f l1) <= len (filter f l2).
Proof.
  intros f l1 l2 Hn Hi. unfold len.
  assert (H : (length (filter f l1) <= length (filter f l2))%nat).
  { apply NoDup_incl_length; [apply NoDup_filter; exact Hn|].
    intros x Hx. apply filter_In in Hx. apply filter_In. split; [apply Hi; tauto|tauto]. }
  lia.
Qed.

Definition check_P (s : st) (a : attempt) : Prop :=
  att_sync (s_ans s) a /\ att_alive (s_replica s) (s_ans s) (s_nodes s) a.

Definition res_spec (P : attempt -> Prop) (s : st) (res : st * bool * list attempt) : Prop :=
  let '(s', _, atts) := res in
  s_replica s' = s_replica s /\ sspec (s_replica s) P (s_reg s) (s_reg s') atts.

Lemma check_finish_spec : forall P s full panic r unst w ok ready atts,
  sspec (s_replica s) P (s_reg s) r atts ->
  res_spec P s (check_finish s full panic r unst w ok ready atts).
Proof. intros. unfold check_finish, res_spec. simpl. split; [reflexivity|assumption]. Qed.

Lemma check_planned_spec : forall s full pa ac need r unst w ok ready atts,
  sspec (s_replica s) (check_P s) (s_reg s) r atts ->
  ((s_replica s <? ac) && negb need = true -> all_ready (s_ans s) (r_info r) = true ->
   s_replica s / 2 < count_reach (s_ans s) (s_nodes s) (raft_nodes (r_info r))) ->
  res_spec (check_P s) s (check_planned s full pa ac need r (r_info r) unst w ok ready atts).
Proof.
  intros s full pa ac need r unst w ok ready atts Hs Hal. unfold check_planned.
  destruct ((s_replica s <? ac) && negb need) eqn:Eg; [|apply check_finish_spec; exact Hs].
  destruct ((len (s_rmnodes s) =? 0) && all_ready (s_ans s) (r_info r)) eqn:Ecan; [|apply check_finish_spec; exact Hs].
  apply andb_true_iff in Ecan. destruct Ecan as [_ Eready].
  destruct (decide_unwanted pa (r_info r)) as [[n|]|]; try (apply check_finish_spec; exact Hs).
  assert (Hi : Inv (s_replica s) (r_info r)) by (destruct Hs as [Hi _]; exact Hi).
  assert (Hr := remove_from_node_spec (s_replica s) (check_P s) (s_now s) r n Hi).
  destruct (remove_from_node (s_replica s) (s_now s) r (r_info r) n) as [[[c r'] i'] w3].
  apply check_finish_spec. eapply sspec_app; [exact Hs|].
  apply pspec_sspec with (c := c) (info' := i'). apply Hr.
  intros a Hb Hv. split.
  - intros Hm. exfalso. revert Hm. apply no_new_node_same. rewrite Hb, Hv. reflexivity.
  - intros _. rewrite Hb. apply Hal; [reflexivity|exact Eready].
Qed.

Lemma shrinks_isr_nodes : forall b v, shrinks b v -> forall x, In x (isr b) -> In x (raft_nodes v).
Proof.
  intros b v Hs x Hx. apply In_isr in Hx. destruct Hx as [Hx Hn].
  destruct (in_dec N.eq_dec x (raft_nodes v)) as [H|H]; [exact H|].
  exfalso. apply Hn. apply (sh_drop _ _ Hs); assumption.
Qed.

Lemma remove_from_removings_nodes : forall replica env now r c r1 i1 w1,
  wf (r_info r) ->
  remove_from_removings replica env now r (r_info r) = (c, r1, i1, w1) ->
  forall x, In x (isr (r_info r)) -> In x (isr (r_info r1)).
Proof.
  intros replica env now r c r1 i1 w1 Hw H x Hx. unfold remove_from_removings in H.
  destruct (fold_left (finish_step env now) (removings (r_info r)) (r_info r, false)) as [ns changed] eqn:E.
  assert (Hf := finish_fold_shrinks env now (r_info r) (removings (r_info r)) (r_info r, false)).
  simpl in Hf. rewrite E in Hf. simpl in Hf.
  destruct Hf as [Hs _].
  { intros e He. apply (in_map fst) in He. exact He. }
  { apply shrinks_refl. }
  { exact Hw. }
  destruct (changed && is_quorum replica ns).
  - destruct (reg_update r ns (epoch ns)) as [[r' o] a] eqn:Eu. apply reg_update_spec in Eu.
    destruct Eu as [_ [_ [[Ho [Hr _]]|[e [Ho [Hr _]]]]]]; subst o; inversion H; subst.
    + rewrite Hr. exact Hx.
    + rewrite Hr. rewrite isr_set_epoch. apply In_isr. split; [apply (shrinks_isr_nodes _ _ Hs); exact Hx|].
      intros Hk. apply (sh_rmk _ _ Hs) in Hk. apply In_isr in Hx. tauto.
  - inversion H; subst. exact Hx.
Qed.

Lemma shrink_check_P : forall s a, shrinks (a_before a) (a_value a) -> check_P s a.
Proof.
  intros s a Hs. split.
  - intros [x [H1 H2]]. exfalso. apply H2. apply (sh_nodes _ _ Hs). exact H1.
  - intros [x [H1 H2]]. exfalso. apply H2. apply (sh_rmk _ _ Hs). exact H1.
Qed.

Lemma avail_sub : forall s x, In x (avail_nodes s) -> In x (s_nodes s).
Proof. intros s x H. unfold avail_nodes in H. apply filter_In in H. tauto. Qed.

Lemma do_check_spec : forall s full pa pv,
  Inv (s_replica s) (r_info (s_reg s)) ->
  res_spec (check_P s) s (do_check s full pa pv).
Proof.
  intros s full pa pv Hi. unfold do_check. cbv zeta.
  destruct (1 <? r_mode (s_reg s)).
  { simpl. split; [reflexivity|apply sspec_nil; exact Hi]. }
  destruct (len (s_nodes s) <=? s_stable s / 2).
  { apply check_finish_spec. apply sspec_nil. exact Hi. }
  destruct (0 <? r_mode (s_reg s)).
  { apply check_finish_spec. apply sspec_nil. exact Hi. }
  (* removings first *)
  set (X := if 0 <? len (removings (r_info (s_reg s)))
            then remove_from_removings (s_replica s) (s_ans s) (s_now s) (s_reg s) (r_info (s_reg s))
            else (CNone, s_reg s, r_info (s_reg s), [])).
  assert (HX : pspec (s_replica s) (check_P s) (s_reg s) X /\
               (forall x, In x (isr (r_info (s_reg s))) -> In x (isr (r_info (snd (fst (fst X))))))).
  { unfold X. destruct (0 <? len (removings (r_info (s_reg s)))).
    - split.
      + apply remove_from_removings_spec; [exact Hi|]. intros a Hb Hs. apply shrink_check_P. rewrite Hb. exact Hs.
      + destruct (remove_from_removings (s_replica s) (s_ans s) (s_now s) (s_reg s) (r_info (s_reg s)))
          as [[[c r1] i1] w1] eqn:E. simpl.
        eapply remove_from_removings_nodes; [|exact E]. destruct Hi as [Hw _]. exact Hw.
    - split; [apply pspec_noop; exact Hi|]. simpl. intros x Hx. exact Hx. }
  clearbody X. destruct X as [[[c1 r1] info1] w1]. destruct HX as [HX Hnodes]. simpl in Hnodes.
  apply pspec_sspec in HX. destruct HX as [H1 Hinfo1]. subst info1.
  assert (Hi1 : Inv (s_replica s) (r_info r1)) by (destruct H1 as [H _]; exact H).
  (* the alive-count fact used by the planned removal *)
  assert (Hal : forall need, (s_replica s <? count_in (s_nodes s) (isr (r_info (s_reg s)))) && negb need = true ->
                 all_ready (s_ans s) (r_info r1) = true ->
                 s_replica s / 2 < count_reach (s_ans s) (s_nodes s) (raft_nodes (r_info r1))).
  { intros need Hg Hready. apply andb_true_iff in Hg. destruct Hg as [Hg _]. apply N.ltb_lt in Hg.
    (* every non-removing replica of the partition answered synced, so the registered ones among them are reachable *)
    assert (Hc1 : count_in (s_nodes s) (isr (r_info (s_reg s))) = count_reach (s_ans s) (s_nodes s) (isr (r_info (s_reg s)))).
    { unfold count_in, count_reach. apply filter_ext_in_len. intros y Hy. unfold reach.
      rewrite (all_ready_synced _ _ y Hready (Hnodes y Hy)). rewrite andb_true_r. reflexivity. }
    assert (Hc2 : count_reach (s_ans s) (s_nodes s) (isr (r_info (s_reg s))) <=
                  count_reach (s_ans s) (s_nodes s) (raft_nodes (r_info r1))).
    { unfold count_reach. apply filter_len_incl.
      - unfold isr. apply NoDup_filter. destruct Hi as [Hw _]. apply (wf_nodes_nodup _ Hw).
      - intros y Hy. apply Hnodes in Hy. apply In_isr in Hy. tauto. }
    assert (Hd : s_replica s / 2 <= s_replica s) by (apply N.div_le_upper_bound; lia). lia. }
  set (need := (len (isr (r_info (s_reg s))) <? s_replica s) ||
               negb (forallb (fun n : N => mem n (s_nodes s)) (isr (r_info (s_reg s))))) in *.
  destruct (need && s_auto s) eqn:Ena.
  - assert (Hneed : need = true) by (apply andb_true_iff in Ena; tauto).
    destruct (s_waiting s) as [ft|].
    + destruct (s_upgrading s); [apply check_finish_spec; exact H1|].
      destruct (ft <? s_now s - wait_migrate).
      * assert (Hm := handle_migrate_spec (s_replica s) (s_ans s) (s_now s) r1 (s_nepoch s) (avail_nodes s) (s_nepoch s) pv Hi1).
        destruct (handle_migrate (s_replica s) (s_ans s) (s_now s) r1 (s_nepoch s) (r_info r1) (avail_nodes s) (s_nepoch s) pv)
          as [[[c r2] info2] w2].
        apply pspec_sspec in Hm. destruct Hm as [H2 Hinfo2]. subst info2.
        assert (H12 : sspec (s_replica s) (check_P s) (s_reg s) r2 (w1 ++ w2)).
        { eapply sspec_app; [exact H1|]. eapply sspec_weaken; [|exact H2].
          intros a [Ha Hb]. split; [exact Ha|]. intros Hm. apply Hb in Hm.
          assert (Hc := count_reach_mono_cur (s_ans s) (avail_nodes s) (s_nodes s) (raft_nodes (a_before a)) (avail_sub s)). lia. }
        destruct c; try (apply check_finish_spec; exact H12).
        apply check_planned_spec; [exact H12|]. rewrite Hneed. rewrite andb_false_r. discriminate.
      * apply check_planned_spec; [exact H1|]. apply Hal.
    + apply check_finish_spec. exact H1.
  - destruct (all_ready (s_ans s) (r_info r1)) eqn:Er1.
    + apply check_planned_spec; [exact H1|]. intros Hg _. apply (Hal _ Hg). reflexivity.
    + apply check_finish_spec. exact H1.
Qed.

(* ------------------------------------------------------------------------------------------ *)
(* rebalanceNamespace / processRemovingNodes                                                   *)
(* ------------------------------------------------------------------------------------------ *)
Definition bal_P (env : answers) (a : attempt) : Prop := att_sync env a /\ att_mark_ready env a.

Lemma nth_error_split_firstn : forall A (t : list A) k x,
  nth_error t k = Some x -> t = firstn k t ++ x :: skipn (S k) t.
Proof.
  intros A t. induction t as [|y t IH]; intros k x H; destruct k; simpl in *; try discriminate.
  - inversion H. reflexivity.
  - f_equal. apply IH. exact H.
Qed.

Lemma swap_to_front_perm : forall l idx, Permutation (swap_to_front l idx) l.
Proof.
  intros l idx. unfold swap_to_front. destruct l as [|h t]; [constructor|].
  destruct (nth_error (h :: t) idx) as [x|] eqn:E; [|apply Permutation_refl].
  destruct idx as [|k]; simpl in E.
  - inversion E; subst. simpl. apply Permutation_refl.
  - assert (Ht := nth_error_split_firstn _ _ _ _ E).
    replace (S k - 1)%nat with k by lia.
    rewrite Ht at 3. simpl.
    eapply perm_trans; [apply perm_skip; apply Permutation_sym; apply Permutation_middle|].
    eapply perm_trans; [apply perm_swap|]. apply perm_skip. apply Permutation_middle.
Qed.

Lemma Permutation_filter' : forall A (f : A -> bool) l1 l2, Permutation l1 l2 -> Permutation (filter f l1) (filter f l2).
Proof.
  intros A f l1 l2 H. induction H; simpl.
  - constructor.
  - destruct (f x); [apply perm_skip|]; assumption.
  - destruct (f x); destruct (f y); try apply Permutation_refl. apply perm_swap.
  - eapply perm_trans; eassumption.
Qed.

Definition with_nodes (i : rinfo) (l : list N) : rinfo := mkInfo l (raft_ids i) (removings i) (max_id i) (learners i) (epoch i).

Lemma Inv_perm : forall replica i l, Inv replica i -> Permutation l (raft_nodes i) -> Inv replica (with_nodes i l).
Proof.
  intros replica i l [[H1 H2 H3 H4 H5] [Hl Hq]] Hp. split; [constructor; simpl; try assumption|split].
  - eapply Permutation_NoDup; [apply Permutation_sym; exact Hp|exact H1].
  - exact Hl.
  - assert (Hpi : Permutation (isr (with_nodes i l)) (isr i)).
    { unfold isr. simpl. apply Permutation_filter'. exact Hp. }
    apply Permutation_length in Hpi. unfold len in *. lia.
Qed.
Lemma trans_perm : forall i l, Permutation l (raft_nodes i) -> trans i (with_nodes i l).
Proof.
  intros i l Hp. constructor; simpl; [lia|auto| | | |].
  - intros x y Hx Hnx. exfalso. apply Hnx. eapply Permutation_in; [exact Hp|exact Hx].
  - intros x Hx Hnx. exfalso. apply Hnx. eapply Permutation_in; [apply Permutation_sym; exact Hp|exact Hx].
  - left. simpl. intros x. split; intros H; [eapply Permutation_in; [exact Hp|exact H]|eapply Permutation_in; [apply Permutation_sym; exact Hp|exact H]].
  - constructor; simpl; intros; try tauto; try contradiction.
    + left. eapply Permutation_in; [exact Hp|exact H].
    + exfalso. apply H0. eapply Permutation_in; [apply Permutation_sym; exact Hp|exact H].
Qed.

Lemma swap_loop_spec : forall replica (P : attempt -> Prop) leader orig idx ns r moved atts0,
  (forall a, removings (a_value a) = removings (a_before a) ->
             (forall x, In x (raft_nodes (a_value a)) -> In x (raft_nodes (a_before a))) -> P a) ->
  ns = r_info r -> Inv replica (r_info r) ->
  exists w, snd (swap_loop leader orig idx ns r moved atts0) = atts0 ++ w /\
            sspec replica P r (snd (fst (fst (swap_loop leader orig idx ns r moved atts0)))) w.
Proof.
  intros replica P leader orig. induction orig as [|x rest IH]; intros idx ns r moved atts0 HP Hns Hi; simpl.
  - exists []. rewrite app_nil_r. split; [reflexivity|apply sspec_nil; exact Hi].
  - destruct (x =? leader); [|apply IH; assumption].
    set (ns1 := mkInfo (swap_to_front (raft_nodes ns) idx) (raft_ids ns) (removings ns) (max_id ns) (learners ns) (epoch ns)).
    assert (Hperm : Permutation (raft_nodes ns1) (raft_nodes (r_info r))).
    { subst ns. simpl. apply swap_to_front_perm. }
    assert (Hv : Inv replica ns1) by (subst ns; apply (Inv_perm replica (r_info r) _ Hi Hperm)).
    assert (Ht : trans (r_info r) ns1) by (subst ns; apply (trans_perm (r_info r) _ Hperm)).
    assert (Hsh : shrink_ok replica (r_info r) ns1).
    { intros Hlt. exfalso.
      assert (Hpi : Permutation (isr ns1) (isr (r_info r))).
      { unfold isr. subst ns. simpl. apply Permutation_filter'. exact Hperm. }
      apply Permutation_length in Hpi. unfold len in Hlt. lia. }
    destruct (reg_update r ns1 (epoch ns)) as [[r' o] a] eqn:Eu. apply reg_update_spec in Eu.
    destruct Eu as [Hb [Hval [[Ho [Hr Hk]]|[e [Ho [Hr Hk]]]]]]; subst o.
    + simpl. exists [a]. split; [reflexivity|]. split; [rewrite Hr; exact Hi|]. split.
      * constructor; [|constructor]. split; [split; [rewrite Hb; exact Hi|split; [rewrite Hval; exact Hv|split; [rewrite Hb, Hval; exact Ht|rewrite Hb, Hval; exact Hsh]]]|].
        apply HP; [rewrite Hb, Hval; subst ns; reflexivity|].
        intros y Hy. rewrite Hb. rewrite Hval in Hy. eapply Permutation_in; [exact Hperm|exact Hy].
      * rewrite Hr. apply chain_fail; [exact Hb|exact Hk|constructor].
    + assert (Hi' : Inv replica (r_info r')) by (rewrite Hr; apply Inv_set_epoch; exact Hv).
      simpl. rewrite <- Hr.
      destruct (IH (S idx) (r_info r') r' true (atts0 ++ [a]) HP eq_refl Hi') as [w [Hw1 Hw2]].
      exists (a :: w). split; [rewrite Hw1, <- app_assoc; reflexivity|].
      destruct Hw2 as [A1 [A2 A3]]. split; [exact A1|]. split.
      * constructor; [|exact A2]. split; [split; [rewrite Hb; exact Hi|split; [rewrite Hval; exact Hv|split; [rewrite Hb, Hval; exact Ht|rewrite Hb, Hval; exact Hsh]]]|].
        apply HP; [rewrite Hb, Hval; subst ns; reflexivity|].
        intros y Hy. rewrite Hb. rewrite Hval in Hy. eapply Permutation_in; [exact Hperm|exact Hy].
      * apply chain_ok with (e := e); [exact Hb|exact Hk|]. rewrite Hval, <- Hr. exact A3.
Qed.

Lemma add_and_wait_snap_spec : forall replica env r place snap,
  Inv replica (r_info r) ->
  let '(res, r', w) := add_and_wait_snap env r place snap in
  sspec replica (bal_P env) r r' w /\ (res = AWOk -> r' = r /\ w = []).
Proof.
  intros replica env r place snap Hi. unfold add_and_wait_snap.
  destruct place as [| |l]; try (split; [apply sspec_nil; exact Hi|intros; try discriminate; auto]).
  destruct (filter (fun n : N => negb (mem n snap)) l) as [|nid rest];
    [split; [apply sspec_nil; exact Hi|discriminate]|].
  destruct (node_full_ready env (r_info r) nid); [split; [apply sspec_nil; exact Hi|auto]|].
  destruct (mem nid (raft_nodes (r_info r))); [split; [apply sspec_nil; exact Hi|discriminate]|].
  destruct (all_ready env (r_info r)) eqn:Er; cbn [negb]; [|split; [apply sspec_nil; exact Hi|discriminate]].
  assert (Ha := add_to_node_spec replica (bal_P env) r nid Hi).
  destruct (add_to_node r (r_info r) nid) as [[[c r'] i'] w].
  split; [|discriminate].
  apply pspec_sspec with (c := c) (info' := i'). apply Ha.
  intros a Hb Hv Hrm Hn. split.
  - intros _. rewrite Hb. split; assumption.
  - intros Hm. exfalso. revert Hm. apply no_new_mark_same. rewrite Hb, Hv. reflexivity.
Qed.
Lemma add_and_wait_spec : forall replica env r place,
  Inv replica (r_info r) ->
  let '(res, r', w) := add_and_wait env r place in
  sspec replica (bal_P env) r r' w /\ (res = AWOk -> r' = r /\ w = []).
Proof. intros. unfold add_and_wait. apply add_and_wait_snap_spec. assumption. Qed.

Definition res3_spec (P : attempt -> Prop) (s : st) {B} (res : st * B * list attempt) : Prop :=
  let '(s', _, atts) := res in
  s_replica s' = s_replica s /\ sspec (s_replica s) P (s_reg s) (s_reg s') atts.

Lemma bal_leader_spec : forall s expected mv r moved atts,
  sspec (s_replica s) (bal_P (s_ans s)) (s_reg s) r atts ->
  res3_spec (bal_P (s_ans s)) s (bal_leader s expected mv (r_info r) r moved atts).
Proof.
  intros s expected mv r moved atts Hs. unfold bal_leader.
  assert (Hi : Inv (s_replica s) (r_info r)) by (destruct Hs as [Hi _]; exact Hi).
  destruct (0 <? len (removings (r_info r))); [simpl; split; [reflexivity|exact Hs]|].
  destruct expected as [|leader rest]; [simpl; split; [reflexivity|exact Hs]|].
  destruct (ahas leader (removings (r_info r))); [simpl; split; [reflexivity|exact Hs]|].
  destruct ((len mv =? 0) && (s_replica s <=? len (isr (r_info r))) &&
            negb match raft_nodes (r_info r) with [] => false | x :: _ => x =? leader end);
    [|simpl; split; [reflexivity|exact Hs]].
  destruct (raft_nodes (r_info r)) as [|h t] eqn:En; [simpl; split; [reflexivity|exact Hs]|].
  rewrite <- En.
  destruct (swap_loop_spec (s_replica s) (bal_P (s_ans s)) leader (raft_nodes (r_info r)) 0 (r_info r) r moved atts)
    as [w [Hw1 Hw2]].
  { intros a Hrm Hnodes. split.
    - intros [x [H1 H2]]. exfalso. apply H2. apply Hnodes. exact H1.
    - intros Hm. exfalso. revert Hm. apply no_new_mark_same. exact Hrm. }
  { reflexivity. }
  { exact Hi. }
  destruct (swap_loop leader (raft_nodes (r_info r)) 0 (r_info r) r moved atts) as [[[[failed ns'] r'] moved'] atts'].
  simpl in Hw1, Hw2. subst atts'.
  destruct failed; simpl; (split; [reflexivity|eapply sspec_app; eassumption]).
Qed.

Lemma rebalance_spec : forall s place,
  Inv (s_replica s) (r_info (s_reg s)) ->
  res3_spec (bal_P (s_ans s)) s (rebalance s place).
Proof.
  intros s place Hi. unfold rebalance. cbv zeta.
  assert (Hnil : res3_spec (bal_P (s_ans s)) s (s, BRet false false false, @nil attempt))
    by (simpl; split; [reflexivity|apply sspec_nil; exact Hi]).
  assert (Hnil' : forall b : bres, res3_spec (bal_P (s_ans s)) s (s, b, @nil attempt))
    by (intros b; simpl; split; [reflexivity|apply sspec_nil; exact Hi]).
  destruct (1 <? r_mode (s_reg s)); [apply Hnil'|].
  destruct (s_unstable s || s_upgrading s); [apply Hnil'|].
  destruct (0 <? len (s_rmnodes s)); [apply Hnil'|].
  destruct (0 <? len (removings (r_info (s_reg s)))); [apply Hnil'|].
  destruct (all_ready (s_ans s) (r_info (s_reg s))) eqn:Er; cbn [negb]; [|apply Hnil'].
  destruct place as [| |expected]; try apply Hnil'.
  destruct (filter (fun n : N => negb (mem n expected)) (isr (r_info (s_reg s)))) as [|nid mv] eqn:Emv.
  - apply bal_leader_spec. apply sspec_nil. exact Hi.
  - set (X := if len (isr (r_info (s_reg s))) <=? s_replica s
              then add_and_wait (s_ans s) (s_reg s) (PList expected) else (AWOk, s_reg s, [])).
    assert (HX : let '(res, r', w) := X in
                 sspec (s_replica s) (bal_P (s_ans s)) (s_reg s) r' w /\ (res = AWOk -> r' = s_reg s /\ w = [])).
    { unfold X. destruct (len (isr (r_info (s_reg s))) <=? s_replica s).
      - apply add_and_wait_spec. exact Hi.
      - split; [apply sspec_nil; exact Hi|auto]. }
    clearbody X. destruct X as [[res r1] w1]. destruct HX as [H1 Hok].
    destruct res; try (simpl; split; [reflexivity|exact H1]).
    destruct (Hok eq_refl) as [Hr1 Hw1]. subst r1 w1.
    replace (if len (isr (r_info (s_reg s))) <=? s_replica s then r_info (s_reg s) else r_info (s_reg s))
      with (r_info (s_reg s)) by (destruct (len (isr (r_info (s_reg s))) <=? s_replica s); reflexivity).
    assert (Hr := remove_from_node_spec (s_replica s) (bal_P (s_ans s)) (s_now s) (s_reg s) nid Hi).
    destruct (remove_from_node (s_replica s) (s_now s) (s_reg s) (r_info (s_reg s)) nid) as [[[c r2] ns2] w2].
    assert (H2 : sspec (s_replica s) (bal_P (s_ans s)) (s_reg s) r2 w2 /\ ns2 = r_info r2).
    { apply pspec_sspec with (c := c). apply Hr. intros a Hb Hv. split.
      - intros Hm. exfalso. revert Hm. apply no_new_node_same. rewrite Hb, Hv. reflexivity.
      - intros _. rewrite Hb. exact Er. }
    destruct H2 as [H2 Hns2]. subst ns2. simpl app.
    destruct c; try (simpl; split; [reflexivity|exact H2]).
    apply bal_leader_spec. exact H2.
Qed.

(* processRemovingNodes: invariant of the per-node loop *)
Definition pacc_ok (replica : N) (env : answers) (r0 : reg) (a : pacc) : Prop :=
  sspec replica (bal_P env) r0 (p_reg a) (p_atts a) /\
  (p_any a = false -> p_reg a = r0 /\ p_atts a = []).

Lemma set_pending_ok : forall replica env r0 nid a,
  pacc_ok replica env r0 a -> pacc_ok replica env r0 (set_pending nid a).
Proof.
  intros replica env r0 nid a H. unfold set_pending. destruct (is_pending nid (p_rm a)); [exact H|].
  destruct H as [H1 H2]. split; simpl; assumption.
Qed.
Lemma set_pending_fields : forall nid a, p_reg (set_pending nid a) = p_reg a /\ p_atts (set_pending nid a) = p_atts a /\ p_any (set_pending nid a) = p_any a.
Proof. intros. unfold set_pending. destruct (is_pending nid (p_rm a)); simpl; auto. Qed.

Lemma proc_act_spec : forall replica env now place r0 a nid,
  pacc_ok replica env r0 a ->
  pacc_ok replica env r0 (proc_act replica env now place (r_info r0) a nid).
Proof.
  intros replica env now place r0 a nid [Hs Hany]. unfold proc_act.
  destruct (ahas nid (removings (r_info r0))).
  { apply set_pending_ok. split; simpl; [exact Hs|discriminate]. }
  destruct (negb (mem nid (raft_nodes (r_info r0)))); [split; assumption|].
  destruct (p_any a) eqn:Ea.
  { apply set_pending_ok. split; [exact Hs|]. rewrite Ea. discriminate. }
  destruct (Hany eq_refl) as [Hr Hat].
  assert (Hi : Inv replica (r_info r0)) by (destruct Hs as [Hi _]; rewrite Hr in Hi; exact Hi).
  cbv zeta.
  destruct (set_pending_fields nid (mkPacc (p_rm a) (p_reg a) true (p_chg a) (p_atts a) false)) as [F1 [F2 F3]].
  simpl in F1, F2, F3. rewrite F1, F2, Hr, Hat. simpl app.
  set (X := if len (isr (r_info r0)) <=? replica then add_and_wait env r0 place else (AWOk, r0, [])).
  assert (HX : let '(res, r', w) := X in
               sspec replica (bal_P env) r0 r' w /\ (res = AWOk -> r' = r0 /\ w = [])).
  { unfold X. destruct (len (isr (r_info r0)) <=? replica).
    - apply add_and_wait_spec. exact Hi.
    - split; [apply sspec_nil; exact Hi|auto]. }
  clearbody X. destruct X as [[res r1] w1]. destruct HX as [H1 Hok].
  destruct res; try (split; simpl; [exact H1|discriminate]).
  destruct (Hok eq_refl) as [Hr1 Hw1]. subst r1 w1.
  replace (if len (isr (r_info r0)) <=? replica then r_info r0 else r_info r0) with (r_info r0)
    by (destruct (len (isr (r_info r0)) <=? replica); reflexivity).
  destruct (all_ready env (r_info r0)) eqn:Er; cbn [negb]; [|split; simpl; [exact H1|discriminate]].
  assert (Hrm := remove_from_node_spec replica (bal_P env) now r0 nid Hi).
  destruct (remove_from_node replica now r0 (r_info r0) nid) as [[[c r2] ns2] w2].
  split; simpl; [|discriminate].
  apply pspec_sspec with (c := c) (info' := ns2). apply Hrm. intros b Hb Hv. split.
  - intros Hm. exfalso. revert Hm. apply no_new_node_same. rewrite Hb, Hv. reflexivity.
  - intros _. rewrite Hb. exact Er.
Qed.

Lemma proc_node_spec : forall replica env now dn place r0 a nid,
  pacc_ok replica env r0 a ->
  pacc_ok replica env r0 (proc_node replica env now dn place (r_info r0) a nid).
Proof.
  intros replica env now dn place r0 a nid H. unfold proc_node.
  destruct (p_panic a); [exact H|].
  assert (HA1 := proc_act_spec replica env now place r0 a nid H).
  cbv zeta. destruct (p_any (proc_act replica env now place (r_info r0) a nid)) eqn:E; [exact HA1|].
  destruct HA1 as [HA1s HA1a]. destruct (HA1a E) as [Hr Hat].
  split; simpl; [exact HA1s|intros _; split; assumption].
Qed.

Lemma process_removing_spec : forall s place,
  Inv (s_replica s) (r_info (s_reg s)) ->
  res3_spec (bal_P (s_ans s)) s (process_removing s place).
Proof.
  intros s place Hi. unfold process_removing.
  destruct (s_rmnodes s) as [|e rm] eqn:Erm; [simpl; split; [reflexivity|apply sspec_nil; exact Hi]|].
  destruct (1 <? r_mode (s_reg s)); [simpl; split; [reflexivity|apply sspec_nil; exact Hi]|].
  destruct (check_pending (s_ans s) (r_info (s_reg s)) (e :: rm)); [simpl; split; [reflexivity|apply sspec_nil; exact Hi]|].
  set (A := fold_left (proc_node (s_replica s) (s_ans s) (s_now s) (s_nodes s) place (r_info (s_reg s)))
                      (map fst (e :: rm)) (mkPacc (e :: rm) (s_reg s) false false [] false)).
  assert (HA : pacc_ok (s_replica s) (s_ans s) (s_reg s) A).
  { unfold A. generalize (map fst (e :: rm)).
    assert (H0 : pacc_ok (s_replica s) (s_ans s) (s_reg s) (mkPacc (e :: rm) (s_reg s) false false [] false)).
    { split; simpl; [apply sspec_nil; exact Hi|auto]. }
    revert H0. generalize (mkPacc (e :: rm) (s_reg s) false false [] false).
    intros a0 H0 l. revert a0 H0. induction l as [|n l IH]; intros a0 H0; simpl; [exact H0|].
    apply IH. apply proc_node_spec. exact H0. }
  clearbody A. destruct HA as [HA _]. simpl. split; [reflexivity|exact HA].
Qed.

(* ------------------------------------------------------------------------------------------ *)
(* the learner placement driver                                                                *)
(* ------------------------------------------------------------------------------------------ *)
Lemma Inv_ids_only : forall replica i ids mx l,
  Inv replica i -> NoDup (keys ids) -> NoDup (map snd ids) -> (forall n id, In (n, id) ids -> id <= mx) ->
  Inv replica (with_learners i ids mx l).
Proof.
  intros replica i ids mx l [[H1 H2 H3 H4 H5] [Hl Hq]] A B C. split; [constructor; simpl; assumption|].
  split; [exact Hl|exact Hq].
Qed.
Lemma trans_ids_only : forall i ids mx l,
  max_id i <= mx ->
  (forall n id, In (n, id) ids -> In (n, id) (raft_ids i) \/ max_id i < id) ->
  krel i (with_learners i ids mx l) ->
  trans i (with_learners i ids mx l).
Proof.
  intros i ids mx l Hm Hids Hk. constructor; simpl; [exact Hm|exact Hids| | | |exact Hk].
  - intros x y Hx Hnx. contradiction.
  - intros x Hx Hnx. contradiction.
  - left. simpl. tauto.
Qed.
(* no learner operation touches the voter set or the removal marks *)
Definition quiet (a : attempt) : Prop := ~ new_node a /\ ~ new_mark a.
Lemma quiet_with_learners : forall a i ids mx l,
  a_before a = i -> a_value a = with_learners i ids mx l -> quiet a.
Proof.
  intros a i ids mx l Hb Hv. split.
  - apply no_new_node_same. rewrite Hb, Hv. reflexivity.
  - apply no_new_mark_same. rewrite Hb, Hv. reflexivity.
Qed.

Lemma krel_ladd : forall i nid,
  krel i (with_learners i (aset nid (max_id i + 1) (raft_ids i)) (max_id i + 1) (learners i ++ [nid])).
Proof.
  intros. constructor; simpl; intros; try tauto; try contradiction.
  - left. apply keys_aset. destruct (N.eq_dec n nid); [right; assumption|left; split; assumption].
  - apply keys_aset in H. destruct H as [[H _]|H]; [left; exact H|]. subst. right. right. rewrite in_app_iff. right. left. reflexivity.
  - exfalso. apply H0. rewrite in_app_iff. left. exact H.
Qed.
Lemma krel_lleader : forall i idx,
  krel i (with_learners i (raft_ids i) (max_id i) (swap_to_front (learners i) idx)).
Proof.
  intros. constructor; simpl; intros; try tauto; try contradiction.
  exfalso. apply H0. eapply Permutation_in; [apply Permutation_sym; apply swap_to_front_perm|exact H].
Qed.
Lemma filter_same_len_notin : forall (l : list N) k,
  len (filter (fun x => negb (x =? k)) l) <> len l -> In k l.
Proof.
  intros l k. unfold len. induction l as [|y l IH]; simpl; [intros H; exfalso; apply H; reflexivity|].
  destruct (y =? k) eqn:E; simpl.
  - intros _. left. apply N.eqb_eq in E. exact E.
  - intros H. right. apply IH. intros He. apply H. lia.
Qed.
Lemma krel_lremove : forall i nid, In nid (learners i) ->
  krel i (with_learners i (aremove nid (raft_ids i)) (max_id i) (filter (fun x => negb (x =? nid)) (learners i))).
Proof.
  intros i nid Hin. constructor; simpl; intros; try tauto; try contradiction.
  - destruct (N.eq_dec n nid) as [->|Hne]; [right; exact Hin|].
    left. rewrite keys_aremove, filter_In, negb_true_iff, N.eqb_neq. tauto.
  - left. rewrite keys_aremove, filter_In in H. tauto.
  - left. rewrite filter_In, negb_true_iff, N.eqb_neq in H0.
    assert (n = nid) by (destruct (N.eq_dec n nid); [assumption|exfalso; apply H0; tauto]). subst.
    rewrite keys_aremove, filter_In, negb_true_iff, N.eqb_neq. tauto.
Qed.
Lemma fold_aremove_keys : forall (l : list N) (ids : list (N * N)) x,
  In x (keys (fold_left (fun m n => aremove n m) l ids)) <-> In x (keys ids) /\ ~ In x l.
Proof.
  induction l as [|n l IH]; intros ids x; simpl; [tauto|].
  rewrite IH, keys_aremove, filter_In, negb_true_iff, N.eqb_neq. split.
  - intros [[A B] C]. split; [exact A|]. intros [D|D]; [apply B; symmetry; exact D|apply C; exact D].
  - intros [A B]. split; [split; [exact A|]|]; intros D; apply B; [left; symmetry; exact D|right; exact D].
Qed.
Lemma krel_lremove_all : forall i,
  krel i (with_learners i (fold_left (fun m n => aremove n m) (learners i) (raft_ids i)) (max_id i) []).
Proof.
  intros. constructor; simpl; intros; try tauto; try contradiction.
  - destruct (in_dec N.eq_dec n (learners i)) as [Hl|Hl]; [right; exact Hl|].
    left. apply fold_aremove_keys. tauto.
  - left. apply fold_aremove_keys in H. tauto.
  - left. rewrite fold_aremove_keys. tauto.
Qed.

Lemma learner_add_spec : forall replica r nid,
  Inv replica (r_info r) -> pspec replica quiet r (learner_add r (r_info r) nid).
Proof.
  intros replica r nid Hi. unfold learner_add.
  destruct (mem nid (learners (r_info r))); [apply pspec_noop; exact Hi|].
  assert (Hw : wf (r_info r)) by (destruct Hi as [Hw _]; exact Hw).
  destruct (ids_aset_fresh (raft_ids (r_info r)) (max_id (r_info r)) nid
              (wf_ids_nodup _ Hw) (wf_ids_inj _ Hw) (wf_ids_max _ Hw)) as [A [B C]].
  apply pspec_update.
  - exact Hi.
  - apply Inv_ids_only; assumption.
  - apply trans_ids_only; [lia| |apply krel_ladd]. intros n id Hin. unfold aset in Hin. rewrite in_app_iff in Hin.
    destruct Hin as [Hin|[Hin|[]]]; [left; apply In_aremove in Hin; tauto|inversion Hin; right; lia].
  - intros Hlt. exfalso. unfold with_learners, isr in Hlt. simpl in Hlt. lia.
  - intros a Hb Hv. eapply quiet_with_learners; eassumption.
Qed.

Lemma learner_leader_spec : forall replica r nid,
  Inv replica (r_info r) -> pspec replica quiet r (learner_leader r (r_info r) nid).
Proof.
  intros replica r nid Hi. unfold learner_leader.
  destruct (index_of nid (learners (r_info r))) as [idx|]; [|apply pspec_noop; exact Hi].
  assert (Hw : wf (r_info r)) by (destruct Hi as [Hw _]; exact Hw).
  apply pspec_update.
  - exact Hi.
  - apply Inv_ids_only; [exact Hi|apply (wf_ids_nodup _ Hw)|apply (wf_ids_inj _ Hw)|apply (wf_ids_max _ Hw)].
  - apply trans_ids_only; [lia|auto|apply krel_lleader].
  - intros Hlt. exfalso. unfold with_learners, isr in Hlt. simpl in Hlt. lia.
  - intros a Hb Hv. eapply quiet_with_learners; eassumption.
Qed.

Lemma ids_aremove_ok : forall (ids : list (N * N)) mx n,
  NoDup (keys ids) /\ NoDup (map snd ids) /\ (forall x id, In (x, id) ids -> id <= mx) ->
  NoDup (keys (aremove n ids)) /\ NoDup (map snd (aremove n ids)) /\ (forall x id, In (x, id) (aremove n ids) -> id <= mx).
Proof.
  intros ids mx n [A [B C]]. split; [rewrite keys_aremove; apply NoDup_filter; exact A|]. split.
  - unfold aremove. apply NoDup_map_filter. exact B.
  - intros x id Hin. apply In_aremove in Hin. apply (C x id). tauto.
Qed.
Lemma ids_fold_aremove_ok : forall l (ids : list (N * N)) mx,
  NoDup (keys ids) /\ NoDup (map snd ids) /\ (forall x id, In (x, id) ids -> id <= mx) ->
  let ids' := fold_left (fun m n => aremove n m) l ids in
  (NoDup (keys ids') /\ NoDup (map snd ids') /\ (forall x id, In (x, id) ids' -> id <= mx)) /\
  (forall e, In e ids' -> In e ids).
Proof.
  induction l as [|n l IH]; intros ids mx H; simpl; [split; [exact H|auto]|].
  destruct (IH (aremove n ids) mx (ids_aremove_ok ids mx n H)) as [A B]. split; [exact A|].
  intros e He. apply B in He. apply In_aremove in He. tauto.
Qed.

Lemma learner_remove_spec : forall replica lnodes r nid chk,
  Inv replica (r_info r) -> pspec replica quiet r (learner_remove lnodes r (r_info r) nid chk).
Proof.
  intros replica lnodes r nid chk Hi. unfold learner_remove.
  destruct (chk && ahas nid lnodes); [apply pspec_noop; exact Hi|].
  destruct (len (filter (fun x : N => negb (x =? nid)) (learners (r_info r))) =? len (learners (r_info r))) eqn:Elen;
    [apply pspec_noop; exact Hi|].
  apply N.eqb_neq in Elen. apply filter_same_len_notin in Elen.
  assert (Hw : wf (r_info r)) by (destruct Hi as [Hw _]; exact Hw).
  destruct (ids_aremove_ok (raft_ids (r_info r)) (max_id (r_info r)) nid
              (conj (wf_ids_nodup _ Hw) (conj (wf_ids_inj _ Hw) (wf_ids_max _ Hw)))) as [A [B C]].
  apply pspec_update.
  - exact Hi.
  - apply Inv_ids_only; assumption.
  - apply trans_ids_only; [lia| |apply krel_lremove; exact Elen]. intros n id Hin. left. apply In_aremove in Hin. tauto.
  - intros Hlt. exfalso. unfold with_learners, isr in Hlt. simpl in Hlt. lia.
  - intros a Hb Hv. eapply quiet_with_learners; eassumption.
Qed.

Lemma learner_remove_all_spec : forall replica r,
  Inv replica (r_info r) -> pspec replica quiet r (learner_remove_all r (r_info r)).
Proof.
  intros replica r Hi. unfold learner_remove_all.
  destruct (learners (r_info r)) as [|x rest] eqn:El; [apply pspec_noop; exact Hi|].
  assert (Hw : wf (r_info r)) by (destruct Hi as [Hw _]; exact Hw).
  destruct (ids_fold_aremove_ok (x :: rest) (raft_ids (r_info r)) (max_id (r_info r))
              (conj (wf_ids_nodup _ Hw) (conj (wf_ids_inj _ Hw) (wf_ids_max _ Hw)))) as [[A [B C]] D].
  apply pspec_update.
  - exact Hi.
  - apply Inv_ids_only; assumption.
  - apply trans_ids_only; [lia| |rewrite <- El; apply krel_lremove_all]. intros n id Hin. left. apply D. exact Hin.
  - intros Hlt. exfalso. unfold with_learners, isr in Hlt. simpl in Hlt. lia.
  - intros a Hb Hv. eapply quiet_with_learners; eassumption.
Qed.

Lemma learner_fold_spec : forall replica lids mine r0 r w,
  sspec replica quiet r0 r w ->
  let '(r2, _, w2) :=
    fold_left (fun (acc : reg * rinfo * list attempt) n =>
                 let '(r, i, w) := acc in
                 if mem n lids then acc
                 else let '(_, r', i', w') := learner_add r i n in (r', i', w ++ w'))
              mine (r, r_info r, w) in
  sspec replica quiet r0 r2 w2.
Proof.
  intros replica lids mine. induction mine as [|n mine IH]; intros r0 r w Hs; simpl; [exact Hs|].
  destruct (mem n lids); [apply IH; exact Hs|].
  assert (Hi : Inv replica (r_info r)) by (destruct Hs as [Hi _]; exact Hi).
  assert (Ha := learner_add_spec replica r n Hi).
  destruct (learner_add r (r_info r) n) as [[[c r'] i'] w'].
  apply pspec_sspec in Ha. destruct Ha as [Ha Hi']. subst i'.
  apply IH. eapply sspec_app; eassumption.
Qed.

Lemma learner_check_spec : forall s,
  Inv (s_replica s) (r_info (s_reg s)) ->
  let '(r, w) := learner_check s in sspec (s_replica s) quiet (s_reg s) r w.
Proof.
  intros s Hi. unfold learner_check.
  destruct (0 <? r_mode (s_reg s)); [apply sspec_nil; exact Hi|].
  destruct (s_lstart s) as [[|]|]; [| |apply sspec_nil; exact Hi].
  - destruct (len (isr (r_info (s_reg s))) <=? s_replica s / 2); [apply sspec_nil; exact Hi|].
    set (X := match find (fun n : N => ahas n (s_lnodes s)) (learners (r_info (s_reg s))) with
              | Some m => if match learners (r_info (s_reg s)) with [] => true | x :: _ => x =? m end
                          then (s_reg s, r_info (s_reg s), [])
                          else let '(_, r, i, w) := learner_leader (s_reg s) (r_info (s_reg s)) m in (r, i, w)
              | None => (s_reg s, r_info (s_reg s), [])
              end).
    assert (HX : let '(r1, i1, w1) := X in sspec (s_replica s) quiet (s_reg s) r1 w1 /\ i1 = r_info r1).
    { unfold X. destruct (find (fun n : N => ahas n (s_lnodes s)) (learners (r_info (s_reg s)))) as [m|];
        [|split; [apply sspec_nil; exact Hi|reflexivity]].
      destruct (match learners (r_info (s_reg s)) with [] => true | x :: _ => x =? m end);
        [split; [apply sspec_nil; exact Hi|reflexivity]|].
      assert (Hl := learner_leader_spec (s_replica s) (s_reg s) m Hi).
      destruct (learner_leader (s_reg s) (r_info (s_reg s)) m) as [[[c r] i] w].
      apply pspec_sspec in Hl. exact Hl. }
    clearbody X. destruct X as [[r1 i1] w1]. destruct HX as [H1 Hi1]. subst i1.
    assert (Hf := learner_fold_spec (s_replica s) (learners (r_info (s_reg s)))
                    (map fst (filter (fun e : N * bool => snd e) (s_lnodes s))) (s_reg s) r1 w1 H1).
    destruct (fold_left _ _ (r1, r_info r1, w1)) as [[r2 i2] w2]. exact Hf.
  - assert (Hl := learner_remove_all_spec (s_replica s) (s_reg s) Hi).
    destruct (learner_remove_all (s_reg s) (r_info (s_reg s))) as [[[c r] i] w].
    apply pspec_sspec in Hl. destruct Hl as [Hl _]. exact Hl.
Qed.

(* ------------------------------------------------------------------------------------------ *)
(* every event; every event sequence                                                           *)
(* ------------------------------------------------------------------------------------------ *)
(* the clause an attempt made by event e in state s satisfies, besides att_ok *)
Definition step_P (s : st) (e : event) (a : attempt) : Prop :=
  match e with
  | ECheck _ _ _ | EMigrate _ _ => att_sync (s_ans s) a /\ att_alive (s_replica s) (s_ans s) (s_nodes s) a
  | EBalance _ | EProcess _ | EAddWait _ _ => att_sync (s_ans s) a /\ att_mark_ready (s_ans s) a
  | _ => True
  end.

(* a step keeps the replication factor, or (ChangeNamespaceMetaParam) changes it without touching the replica info *)
Definition step_res (P : attempt -> Prop) (s : st) {B} (res : st * B * list attempt) : Prop :=
  let '(s', _, atts) := res in
  sspec (s_replica s) P (s_reg s) (s_reg s') atts /\
  (s_replica s' = s_replica s \/ (atts = [] /\ r_info (s_reg s') = r_info (s_reg s))).
Lemma res3_step_res : forall P s B (res : st * B * list attempt), res3_spec P s res -> step_res P s res.
Proof. intros P s B [[s' b] w] [H1 H2]. split; [exact H2|left; exact H1]. Qed.

(* every event except ChangeNamespaceMetaParam keeps the replication factor *)
Lemma step_spec3 : forall s e,
  (match e with EReplica _ => False | _ => True end) ->
  Inv (s_replica s) (r_info (s_reg s)) ->
  res3_spec (step_P s e) s (step s e).
Proof.
  intros s e Hne Hi. destruct e; simpl step.
  - (* ENodes *) unfold nodes_event. simpl. split; [reflexivity|apply sspec_nil; exact Hi].
  - simpl. split; [reflexivity|apply sspec_nil; exact Hi].
  - simpl. split; [reflexivity|apply sspec_nil; exact Hi].
  - (* ECheck *)
    assert (H := do_check_spec s full place_all place_avail Hi).
    destruct (do_check s full place_all place_avail) as [[s' p] w]. exact H.
  - (* EMigrate *)
    assert (H := handle_migrate_spec (s_replica s) (s_ans s) (s_now s) (s_reg s) (s_nepoch s) (avail_nodes s)
                                     (s_nepoch s + delta) place Hi).
    destruct (handle_migrate (s_replica s) (s_ans s) (s_now s) (s_reg s) (s_nepoch s) (r_info (s_reg s))
                             (avail_nodes s) (s_nepoch s + delta) place) as [[[c r] i] w].
    apply pspec_sspec in H. destruct H as [H _]. simpl. split; [reflexivity|].
    eapply sspec_weaken; [|exact H]. intros a [Ha Hb]. split; [exact Ha|]. intros Hm. apply Hb in Hm.
    assert (Hc := count_reach_mono_cur (s_ans s) (avail_nodes s) (s_nodes s) (raft_nodes (a_before a)) (avail_sub s)). lia.
  - (* EAdd *)
    assert (H := add_to_node_spec (s_replica s) (fun _ => True) (s_reg s) n Hi (fun _ _ _ _ _ => I)).
    destruct (add_to_node (s_reg s) (r_info (s_reg s)) n) as [[[c r] i] w].
    apply pspec_sspec in H. destruct H as [H _]. simpl. split; [reflexivity|exact H].
  - (* ERemove *)
    assert (H := remove_from_node_spec (s_replica s) (fun _ => True) (s_now s) (s_reg s) n Hi (fun _ _ _ => I)).
    destruct (remove_from_node (s_replica s) (s_now s) (s_reg s) (r_info (s_reg s)) n) as [[[c r] i] w].
    apply pspec_sspec in H. destruct H as [H _]. simpl. split; [reflexivity|exact H].
  - (* EFinish *)
    assert (H := remove_from_removings_spec (s_replica s) (fun _ => True) (s_ans s) (s_now s) (s_reg s) Hi (fun _ _ _ => I)).
    destruct (remove_from_removings (s_replica s) (s_ans s) (s_now s) (s_reg s) (r_info (s_reg s))) as [[[c r] i] w].
    apply pspec_sspec in H. destruct H as [H _]. simpl. split; [reflexivity|exact H].
  - (* EFail *) simpl. split; [reflexivity|apply sspec_same_info; [reflexivity|exact Hi]].
  - simpl. split; [reflexivity|apply sspec_nil; exact Hi].
  - (* EBalance *)
    assert (H := rebalance_spec s place Hi).
    destruct (rebalance s place) as [[s' b] w]. exact H.
  - simpl. split; [reflexivity|apply sspec_nil; exact Hi].
  - (* EProcess *)
    assert (H := process_removing_spec s place Hi).
    destruct (process_removing s place) as [[s' b] w]. exact H.
  - (* ELCheck *)
    assert (H := learner_check_spec s Hi). destruct (learner_check s) as [r w]. simpl. split; [reflexivity|].
    eapply sspec_weaken; [|exact H]. intros ? _. exact I.
  - (* ELStart *)
    destruct (0 <? r_mode (s_reg s)); simpl; (split; [reflexivity|apply sspec_nil; exact Hi]).
  - (* ELAdd *)
    assert (H := learner_add_spec (s_replica s) (s_reg s) n Hi).
    destruct (learner_add (s_reg s) (r_info (s_reg s)) n) as [[[c r] i] w].
    apply pspec_sspec in H. destruct H as [H _]. simpl. split; [reflexivity|]. eapply sspec_weaken; [|exact H]. intros ? _. exact I.
  - (* ELLeader *)
    assert (H := learner_leader_spec (s_replica s) (s_reg s) n Hi).
    destruct (learner_leader (s_reg s) (r_info (s_reg s)) n) as [[[c r] i] w].
    apply pspec_sspec in H. destruct H as [H _]. simpl. split; [reflexivity|]. eapply sspec_weaken; [|exact H]. intros ? _. exact I.
  - (* ELRemove *)
    destruct (1 <? r_mode (s_reg s)); [simpl; split; [reflexivity|apply sspec_nil; exact Hi]|].
    assert (H := learner_remove_spec (s_replica s) (s_lnodes s) (s_reg s) n check Hi).
    destruct (learner_remove (s_lnodes s) (s_reg s) (r_info (s_reg s)) n check) as [[[c r] i] w].
    apply pspec_sspec in H. destruct H as [H _]. simpl. split; [reflexivity|]. eapply sspec_weaken; [|exact H]. intros ? _. exact I.
  - (* ELRemoveAll *)
    assert (H := learner_remove_all_spec (s_replica s) (s_reg s) Hi).
    destruct (learner_remove_all (s_reg s) (r_info (s_reg s))) as [[[c r] i] w].
    apply pspec_sspec in H. destruct H as [H _]. simpl. split; [reflexivity|]. eapply sspec_weaken; [|exact H]. intros ? _. exact I.
  - (* EReplica *) contradiction.
  - (* EUpgrade *) simpl. split; [reflexivity|apply sspec_nil; exact Hi].
  - (* ERegMode *) simpl. split; [reflexivity|apply sspec_same_info; [reflexivity|exact Hi]].
  - (* EAddWait *)
    destruct (1 <? r_mode (s_reg s)); [simpl; split; [reflexivity|apply sspec_nil; exact Hi]|].
    assert (H := add_and_wait_snap_spec (s_replica s) (s_ans s) (s_reg s) place snap Hi).
    destruct (add_and_wait_snap (s_ans s) (s_reg s) place snap) as [[res r] w]. destruct H as [H _].
    simpl. split; [reflexivity|exact H].
Qed.

Lemma step_spec : forall s e,
  Inv (s_replica s) (r_info (s_reg s)) ->
  step_res (step_P s e) s (step s e).
Proof.
  intros s e Hi.
  assert (H3 := step_spec3 s e).
  destruct e; try (apply res3_step_res; apply H3; [exact I|exact Hi]).
  clear H3. simpl step.
    destruct (5 <? r); [split; [apply sspec_nil; exact Hi|left; reflexivity]|].
    destruct (1 <? r_mode (s_reg s)); [split; [apply sspec_nil; exact Hi|left; reflexivity]|].
    destruct (len (avail_nodes s) <? (if 0 <? r then r else s_replica s));
      [split; [apply sspec_nil; exact Hi|left; reflexivity]|].
    destruct (0 <? r_mode (s_reg s)); [split; [apply sspec_nil; exact Hi|left; reflexivity]|].
    split; [apply sspec_same_info; [reflexivity|exact Hi]|right; split; reflexivity].
Qed.

(* the replication factor is never raised along the run (only needed for q = true) *)
Fixpoint lowering_only (s : st) (evs : list event) : Prop :=
  match evs with
  | [] => True
  | e :: t => s_replica (fst (fst (step s e))) <= s_replica s /\ lowering_only (fst (fst (step s e))) t
  end.

Lemma Inv_change : forall r r' i, Inv r i -> (q = true -> r' <= r) -> Inv r' i.
Proof.
  intros r r' i [Hw [Hl Hq]] H. split; [exact Hw|]. split; [exact Hl|].
  intros Hq'. specialize (Hq Hq'). specialize (H Hq'). assert (r' / 2 <= r / 2) by (apply N.div_le_mono; lia). lia.
Qed.

Definition tagged_ok (l : list (N * attempt)) : Prop := Forall (fun ra => att_ok (fst ra) (snd ra)) l.

Lemma map_snd_tag : forall (r : N) (w : list attempt), map snd (map (fun a => (r, a)) w) = w.
Proof. intros. rewrite map_map. simpl. apply map_id. Qed.

Lemma run_spec_gen : forall evs s acc,
  Inv (s_replica s) (r_info (s_reg s)) -> (q = true -> lowering_only s evs) ->
  exists w, snd (fold_left run_step evs (s, acc)) = acc ++ w /\ tagged_ok w /\
    chain (r_info (s_reg s)) (map snd w) (r_info (s_reg (fst (fold_left run_step evs (s, acc))))) /\
    Inv (s_replica (fst (fold_left run_step evs (s, acc)))) (r_info (s_reg (fst (fold_left run_step evs (s, acc))))).
Proof.
  induction evs as [|e evs IH]; intros s acc Hi Hlow; simpl.
  - exists []. rewrite app_nil_r. split; [reflexivity|]. split; [constructor|]. split; [constructor|exact Hi].
  - assert (Hs := step_spec s e Hi).
    assert (Hrs : run_step (s, acc) e =
                  (fst (fst (step s e)), acc ++ map (fun a => (s_replica s, a)) (snd (step s e)))).
    { unfold run_step. simpl. destruct (step s e) as [[? ?] ?]. reflexivity. }
    rewrite Hrs. clear Hrs.
    assert (Hlow1 : q = true -> s_replica (fst (fst (step s e))) <= s_replica s /\ lowering_only (fst (fst (step s e))) evs)
      by (intros Hq'; apply (Hlow Hq')).
    destruct (step s e) as [[s1 rt] w1]. simpl fst in *. simpl snd in *. destruct Hs as [[Hinv [Hall Hch]] Hrep].
    assert (Hi1 : Inv (s_replica s1) (r_info (s_reg s1))).
    { destruct Hrep as [Hr|[_ Hr]]; [rewrite Hr; exact Hinv|].
      eapply Inv_change; [exact Hinv|]. intros Hq'. apply (Hlow1 Hq'). }
    destruct (IH s1 (acc ++ map (fun a => (s_replica s, a)) w1) Hi1) as [w [Hw [Htag [Hch2 Hfin]]]].
    { intros Hq'. apply (Hlow1 Hq'). }
    exists (map (fun a => (s_replica s, a)) w1 ++ w). split; [rewrite Hw, app_assoc; reflexivity|]. split; [|split].
    + apply Forall_app. split; [|exact Htag]. apply Forall_forall. intros [r a] Hin. apply in_map_iff in Hin.
      destruct Hin as [a' [He Hin]]. inversion He; subst. simpl.
      rewrite Forall_forall in Hall. apply (Hall a Hin).
    + rewrite map_app, map_snd_tag. eapply chain_app; [exact Hch|exact Hch2].
    + exact Hfin.
Qed.

Lemma run_spec : forall s evs,
  Inv (s_replica s) (r_info (s_reg s)) -> (q = true -> lowering_only s evs) ->
  tagged_ok (snd (run s evs)) /\
  chain (r_info (s_reg s)) (map snd (snd (run s evs))) (r_info (s_reg (fst (run s evs)))) /\
  Inv (s_replica (fst (run s evs))) (r_info (s_reg (fst (run s evs)))).
Proof.
  intros s evs Hi Hlow. unfold run. destruct (run_spec_gen evs s [] Hi Hlow) as [w [Hw H]].
  simpl in Hw. rewrite Hw. exact H.
Qed.

(* ids are never reused: an id newly assigned by any update attempt does not occur in the initial value nor
   in any value stored before it *)
Definition ids_of (i : rinfo) : list N := map snd (raft_ids i).
Fixpoint never_reused (used : list N) (atts : list attempt) : Prop :=
  match atts with
  | [] => True
  | a :: t =>
      (forall n id, In (n, id) (raft_ids (a_value a)) -> ~ In (n, id) (raft_ids (a_before a)) -> ~ In id used) /\
      never_reused (if a_ok a then ids_of (a_value a) ++ used else used) t
  end.

Lemma chain_never_reused : forall c atts f,
  chain c atts f -> Forall (fun a => wf (a_value a) /\ trans (a_before a) (a_value a)) atts ->
  forall used, (forall id, In id used -> id <= max_id c) -> never_reused used atts.
Proof.
  intros c atts f H. induction H as [c|c a t f Hb Hk Hc IH|c a t f e Hb Hk Hc IH]; intros Hall used Hu; simpl.
  - exact I.
  - inversion Hall as [|? ? [Hwv Htr] Hall']; subst. split.
    + intros n id Hin Hnot Hused. apply (tr_ids _ _ Htr) in Hin. destruct Hin as [Hin|Hin]; [contradiction|].
      apply Hu in Hused. lia.
    + rewrite Hk. apply IH; assumption.
  - inversion Hall as [|? ? [Hwv Htr] Hall']; subst. split.
    + intros n id Hin Hnot Hused. apply (tr_ids _ _ Htr) in Hin. destruct Hin as [Hin|Hin]; [contradiction|].
      apply Hu in Hused. lia.
    + rewrite Hk. apply IH; [exact Hall'|]. intros id Hid. simpl. apply in_app_iff in Hid. destruct Hid as [Hid|Hid].
      * unfold ids_of in Hid. apply in_map_iff in Hid. destruct Hid as [[n id'] [He Hid]]. simpl in He. subst id'.
        apply (wf_ids_max _ Hwv n id Hid).
      * apply Hu in Hid. assert (Hm := tr_max _ _ Htr). lia.
Qed.


(* ------------------------------------------------------------------------------------------ *)
(* namespace creation produces valid layouts (given that the placement proposes distinct nodes) *)
(* ------------------------------------------------------------------------------------------ *)
Lemma wf_empty : wf empty_info.
Proof. constructor; simpl; try constructor; intros; contradiction. Qed.

Lemma fold_add_wf : forall l i,
  wf i -> removings i = [] -> NoDup l -> (forall x, In x l -> ~ In x (raft_nodes i)) ->
  wf (fold_left add_node l i) /\ removings (fold_left add_node l i) = [].
Proof.
  induction l as [|a l IH]; intros i Hw Hr Hn Hd; simpl; [split; assumption|].
  inversion Hn as [|? ? Ha Hn']; subst. apply IH.
  - apply wf_add; [exact Hw|]. apply Hd. left. reflexivity.
  - simpl. exact Hr.
  - exact Hn'.
  - intros x Hx. simpl. rewrite in_app_iff. simpl. intros [H|[H|[]]].
    + apply (Hd x); [right; exact Hx|exact H].
    + subst. contradiction.
Qed.

Lemma create_partition_inv : forall replica l i,
  NoDup l -> create_partition replica l = Some i -> Inv replica i.
Proof.
  intros replica l i Hn H. unfold create_partition in H.
  destruct (len (isr (fold_left add_node l empty_info)) <=? replica / 2) eqn:E; [discriminate|].
  inversion H; subst. clear H.
  destruct (fold_add_wf l empty_info wf_empty eq_refl Hn) as [Hw Hr]; [intros x _ []|].
  split; [exact Hw|]. split; [rewrite Hr; unfold len; simpl; lia|]. apply N.leb_gt in E. intros _. exact E.
Qed.

(* handleNamespaceMigrate consults the placement (allocNodeForNamespace) only for a partition that is NOT
   over-replicated: if the placement's panic answer propagates, the partition has at most [replica] replicas.
   (So a replica list longer than a lowered factor never reaches the placement from this flow for its own
   partition; with several partitions the other partitions' lists are handed in too.) *)
Lemma mig_loop_no_mark : forall replica env cur now l alive ns chg a' c',
  removings ns = [] ->
  mig_loop replica env cur now l alive ns chg = Some (a', ns, c') ->
  (forall x, In x l -> mem x cur = true) \/ len (isr ns) <= replica / 2 + 1.
Proof.
  intros replica env cur now l. induction l as [|rp l IH]; intros alive ns chg a' c' He H; simpl in H.
  - left. intros x [].
  - destruct (mem rp cur) eqn:Em.
    + destruct (synced_of env rp); [|discriminate].
      destruct (IH _ _ _ _ _ He H) as [Hl|Hr]; [left; intros x [->|Hx]; [exact Em|apply Hl; exact Hx]|right; exact Hr].
    + rewrite He in H. simpl in H.
      change (len (@nil (N * (N * N))) =? 0) with true in H. simpl in H.
      destruct (replica / 2 + 1 <? len (isr ns)) eqn:Eg.
      * apply mig_loop_nonempty in H; [|simpl; rewrite He; discriminate].
        exfalso. assert (Hrm : removings ns = removings (mark_removing ns rp now)) by (rewrite <- H; reflexivity).
        simpl in Hrm. rewrite He in Hrm. discriminate.
      * right. apply N.ltb_ge in Eg. exact Eg.
Qed.

Ltac no_panic H :=
  repeat match type of H with
         | context [if ?c then _ else _] => destruct c
         | context [let (_, _) := ?x in _] => destruct x
         | context [match ?o with Some _ => _ | None => _ end] => destruct o
         end; discriminate H.

Lemma migrate_panic_not_over_replicated : forall replica env now r nepoch info cur ep place c r' i' w,
  1 <= replica ->
  handle_migrate replica env now r nepoch info cur ep place = (c, r', i', w) -> c = CPanic ->
  len (raft_nodes info) <= replica.
Proof.
  intros replica env now r nepoch info cur ep place c r' i' w H1 H Hc. subst c. unfold handle_migrate in H.
  destruct (negb (ep =? nepoch)); [discriminate H|].
  destruct (0 <? len (removings info)) eqn:E0; [discriminate H|]. apply len_zero_ltb in E0.
  destruct (mig_loop replica env cur now (raft_nodes info) 0 info false) as [[[alive ns] chg]|] eqn:EL; [|discriminate H].
  assert (Ha := mig_loop_alive _ _ _ _ _ _ _ _ _ _ _ EL). rewrite N.add_0_l in Ha.
  destruct (mig_loop_empty _ _ _ _ _ _ _ _ _ _ _ E0 EL) as [Hns|[x [Hx Hns]]]; subst ns.
  - assert (Hnm := mig_loop_no_mark _ _ _ _ _ _ _ _ _ _ E0 EL).
    rewrite E0 in H. change (len (@nil (N * (N * N)))) with 0 in H. cbn [N.ltb N.eqb N.compare andb] in H.
    rewrite andb_false_r in H.
    destruct (all_ready env info); [|no_panic H].
    destruct (alive <? replica) eqn:Eal; [|no_panic H].
    apply N.ltb_lt in Eal.
    destruct Hnm as [Hall|Hsm].
    + (* every replica is on a registered node: alive = number of replicas *)
      assert (Hc : count_in cur (raft_nodes info) = len (raft_nodes info)).
      { unfold count_in. f_equal. clear - Hall. induction (raft_nodes info) as [|y l IH]; simpl; [reflexivity|].
        rewrite (Hall y (or_introl eq_refl)). f_equal. apply IH. intros x Hx. apply Hall. right. exact Hx. }
      lia.
    + assert (Hisr : isr info = raft_nodes info).
      { unfold isr. rewrite E0. simpl. clear. induction (raft_nodes info) as [|y l IH]; simpl; [reflexivity|]. f_equal. exact IH. }
      rewrite Hisr in Hsm. assert (replica / 2 + 1 <= replica) by (zify; lia). lia.
  - rewrite (removings_mark_empty _ _ _ E0) in H.
    change (len [(x, (now, raft_id_of info x))]) with 1 in H.
    cbn [N.ltb N.eqb N.compare Pos.compare Pos.compare_cont andb] in H.
    no_panic H.
Qed.

Lemma init_inv : forall replica info auto, Inv replica info ->
  Inv (s_replica (init_state replica info auto)) (r_info (s_reg (init_state replica info auto))).
Proof. intros. simpl. apply Inv_set_epoch. assumption. Qed.

End WithQ.

(* ------------------------------------------------------------------------------------------ *)
(* key consistency under role separation                                                       *)
(* ------------------------------------------------------------------------------------------ *)
(* Nothing in the coordinator checks that a node is not both a data node and a learner; the cluster keeps the two
   kinds apart (a node's learner role never changes: handleDataNodes, the register's role check). Under that
   explicit hypothesis - stated on the log: no write makes a learner-role node a voter, a data-role node a
   learner, or marks a learner-role node removing - every written value keeps RaftIDs keyed by exactly the
   voters and the learners, and every removing entry belongs to a voter. *)
Section Roles.
Variable L : N -> bool.     (* L n = true: n is a learner node *)

Definition keys_consistent_at (i : rinfo) : Prop :=
  (forall n, In n (raft_nodes i) -> L n = false) /\
  (forall n, In n (learners i) -> L n = true) /\
  (forall n, In n (raft_nodes i) -> In n (keys (raft_ids i))) /\            (* every voter has an id *)
  (forall n, In n (keys (removings i)) -> In n (raft_nodes i)) /\           (* a removing entry belongs to a voter *)
  (forall n, In n (keys (raft_ids i)) -> In n (raft_nodes i) \/ In n (learners i)).   (* no stale ids *)

Definition roles_respected (b v : rinfo) : Prop :=
  (forall n, In n (raft_nodes v) -> ~ In n (raft_nodes b) -> L n = false) /\
  (forall n, In n (learners v) -> ~ In n (learners b) -> L n = true) /\
  (forall n, In n (keys (removings v)) -> ~ In n (keys (removings b)) -> L n = false).

Lemma K_step : forall b v, keys_consistent_at b -> krel b v -> roles_respected b v -> keys_consistent_at v.
Proof.
  intros b v [K1 [K2 [K3 [K4 K5]]]] [R1 R2 R3 R4 R5 R6] [P1 [P2 P3]].
  assert (D := in_dec N.eq_dec).
  assert (HK1 : forall n, In n (raft_nodes v) -> L n = false).
  { intros n Hn. destruct (D n (raft_nodes b)) as [Hb|Hb]; [apply K1; exact Hb|apply P1; assumption]. }
  assert (HK2 : forall n, In n (learners v) -> L n = true).
  { intros n Hn. destruct (D n (learners b)) as [Hb|Hb]; [apply K2; exact Hb|apply P2; assumption]. }
  split; [exact HK1|]. split; [exact HK2|]. split; [|split].
  - intros n Hn. destruct (D n (raft_nodes b)) as [Hb|Hb].
    + destruct (R2 n Hn (K3 n Hb)) as [H|H]; [exact H|].
      exfalso. specialize (K1 n Hb). specialize (K2 n H). congruence.
    + destruct (R1 n Hn) as [H|H]; [contradiction|exact H].
  - intros n Hn.
    assert (Hnb : In n (raft_nodes b)).
    { destruct (D n (keys (removings b))) as [Hb|Hb]; [apply K4; exact Hb|].
      destruct (R3 n Hn) as [H|[H|H]]; [contradiction|exact H|].
      destruct (K5 n H) as [H'|H']; [exact H'|].
      exfalso. specialize (K2 n H'). specialize (P3 n Hn Hb). congruence. }
    destruct (D n (raft_nodes v)) as [Hv|Hv]; [exact Hv|].
    exfalso. destruct (R4 n Hnb Hv) as [A _]. contradiction.
  - intros n Hn. destruct (R5 n Hn) as [H|[H|H]]; [|left; exact H|right; exact H].
    destruct (K5 n H) as [Hb|Hb].
    + destruct (D n (raft_nodes v)) as [Hv|Hv]; [left; exact Hv|].
      destruct (R4 n Hb Hv) as [_ [A|A]]; [contradiction|right; exact A].
    + destruct (D n (learners v)) as [Hv|Hv]; [right; exact Hv|].
      destruct (R6 n Hb Hv) as [A|A]; [contradiction|left; exact A].
Qed.

Lemma K_set_epoch : forall i e, keys_consistent_at i -> keys_consistent_at (set_epoch i e).
Proof. intros i e H. exact H. Qed.

Lemma keys_consistent : forall c atts f,
  chain c atts f ->
  Forall (fun a => trans (a_before a) (a_value a)) atts ->
  Forall (fun a => roles_respected (a_before a) (a_value a)) atts ->
  keys_consistent_at c ->
  Forall (fun a => keys_consistent_at (a_value a)) atts /\ keys_consistent_at f.
Proof.
  intros c atts f H. induction H as [c|c a t f Hb Hk Hc IH|c a t f e Hb Hk Hc IH]; intros Ht Hr HK.
  - split; [constructor|exact HK].
  - inversion Ht as [|? ? Ht1 Ht2]; inversion Hr as [|? ? Hr1 Hr2]; subst.
    assert (Hv : keys_consistent_at (a_value a)) by (apply (K_step (a_before a)); [exact HK|apply (tr_krel _ _ Ht1)|exact Hr1]).
    destruct (IH Ht2 Hr2 HK) as [A B]. split; [constructor; assumption|exact B].
  - inversion Ht as [|? ? Ht1 Ht2]; inversion Hr as [|? ? Hr1 Hr2]; subst.
    assert (Hv : keys_consistent_at (a_value a)) by (apply (K_step (a_before a)); [exact HK|apply (tr_krel _ _ Ht1)|exact Hr1]).
    destruct (IH Ht2 Hr2 (K_set_epoch _ e Hv)) as [A B]. split; [constructor; assumption|exact B].
Qed.
End Roles.
