(* Migrate/Proofs.v — proofs about the C18 model *)
From ZV Require Import Migrate.Consts Migrate.Model.
From Coq Require Import ZifyN ZifyNat ZifyBool.
Open Scope N_scope.

Lemma reg_update_counter_mono : forall r v g r' o a, reg_update r v g = (r', o, a) -> r_counter r <= r_counter r'.
Proof.
  intros r v g r' o a H. unfold reg_update in H.
  destruct (0 <? r_fail r); [inversion H; subst; simpl; lia|].
  destruct (g =? epoch (r_info r)); inversion H; subst; simpl; lia.
Qed.
