(* Migrate/Multi.v — C18: one namespace with several partitions.
   Every partition has its own stored replica info (own register key and modification index), its own
   "waiting migrate" stamp and its own data-node answers (the HTTP queries name the partition); everything else
   (registered nodes, flags, clock, replication factor, register health and the register's global modification
   index) is shared.  A step on one partition is the single-partition step of Model.v on the VIEW of that
   partition; the rounds that loop over all partitions (doCheckNamespaces full, rebalanceNamespace,
   processRemovingNodes, doCheckNamespacesForLearner) iterate in the order the Go map iteration produced (part of
   the event, observed on the implementation) and consult, per partition, the placement answer observed when that
   partition was processed.  No proofs in this file. *)
From ZV Require Import Migrate.Consts Migrate.Model.
Open Scope N_scope.

Record pslot := mkSlot { p_info : rinfo; p_wait : option N; p_ans : answers }.

(* m_g: the shared part, as a single-partition state whose s_reg carries only the register's counter / failure
   fields (its r_info, and s_waiting / s_ans, are scratch) *)
Record mst := mkM { m_g : st; m_parts : list (N * pslot) }.

Definition view (g : st) (sl : pslot) : st :=
  mkSt (s_replica g) (mkReg (p_info sl) (r_counter (s_reg g)) (r_fail (s_reg g)) (r_mode (s_reg g)))
       (p_ans sl) (s_nodes g) (s_nepoch g) (s_stable g) (s_unstable g) (s_auto g) (p_wait sl) (s_rmnodes g)
       (s_now g) (s_lnodes g) (s_lstart g) (s_upgrading g).
Definition slot_of (s : st) : pslot := mkSlot (r_info (s_reg s)) (s_waiting s) (s_ans s).
Definition set_slot (pid : N) (sl : pslot) (l : list (N * pslot)) : list (N * pslot) :=
  map (fun e => if fst e =? pid then (pid, sl) else e) l.
Definition writeback (m : mst) (pid : N) (s' : st) : mst := mkM s' (set_slot pid (slot_of s') (m_parts m)).

Definition tag (pid : N) (w : list attempt) : list (N * attempt) := map (fun a => (pid, a)) w.

(* a single-partition step on partition pid *)
Definition on_part {R} (m : mst) (pid : N) (dflt : R) (f : st -> st * R * list attempt) : mst * R * list (N * attempt) :=
  match aget pid (m_parts m) with
  | None => (m, dflt, [])
  | Some sl => let '(s', r, w) := f (view (m_g m) sl) in (writeback m pid s', r, tag pid w)
  end.

(* ---------- doCheckNamespaces over all partitions ---------- *)
(* what the loop body contributes to checkOK / fullReady, and whether it left the loop with `return`
   (mirrors do_check; the state and the attempts come from do_check itself, run with fullCheck = false) *)
Definition check_flags (s : st) : bool * bool * bool :=
  let replica := s_replica s in
  let info := r_info (s_reg s) in
  let cur := s_nodes s in
  let need := (len (isr info) <? replica) || negb (forallb (fun n => mem n cur) (isr info)) in
  if len cur <=? s_stable s / 2 then (false, true, true)
  else if 0 <? r_mode (s_reg s) then (false, true, false)
  else
    let '(_, _, info1, _) :=
      if 0 <? len (removings info) then remove_from_removings replica (s_ans s) (s_now s) (s_reg s) info
      else (CNone, s_reg s, info, []) in
    if need && s_auto s then (negb need, true, false)
    else (negb need, all_ready (s_ans s) info1, false).

Definition probe := (N * (placement * placement))%type.   (* partition -> placement answers (all nodes, usable nodes) *)
Definition probe_of (pid : N) (ps : list probe) : placement * placement :=
  match aget pid ps with Some p => p | None => (PErr, PErr) end.

Record cacc := mkCacc { c_m : mst; c_ok : bool; c_ready : bool; c_abort : bool; c_panic : bool;
                        c_atts : list (N * attempt) }.

Definition check_one (ps : list probe) (a : cacc) (pid : N) : cacc :=
  if c_abort a then a else
  match aget pid (m_parts (c_m a)) with
  | None => a
  | Some sl =>
      let s := view (m_g (c_m a)) sl in
      let '(pa, pv) := probe_of pid ps in
      let '(ok, ready, ab) := check_flags s in
      let '(s', panic, w) := do_check s false pa pv in
      mkCacc (writeback (c_m a) pid s') (c_ok a && ok) (c_ready a && ready) (ab || panic) (c_panic a || panic)
             (c_atts a ++ tag pid w)
  end.

Definition set_unstable (g : st) (b : bool) : st :=
  mkSt (s_replica g) (s_reg g) (s_ans g) (s_nodes g) (s_nepoch g) (s_stable g) b (s_auto g) (s_waiting g)
       (s_rmnodes g) (s_now g) (s_lnodes g) (s_lstart g) (s_upgrading g).

Definition check_round (m : mst) (full : bool) (order : list N) (ps : list probe) : mst * bool * list (N * attempt) :=
  if 1 <? r_mode (s_reg (m_g m)) then (mkM (set_unstable (m_g m) true) (m_parts m), false, [])
  else
    let a := fold_left (check_one ps) order (mkCacc m true true false false []) in
    let m1 := c_m a in
    (* the deferred function: all bodies ok, full check and all ready -> stable; a failed body already stored 1 *)
    let g := if c_ok a && full && c_ready a then set_unstable (m_g m1) false else m_g m1 in
    (mkM g (m_parts m1), c_panic a, c_atts a).

(* ---------- rebalanceNamespace over all partitions (monitor closed at the first update attempt) ---------- *)
Record bacc := mkBacc { b_m : mst; b_moved : bool; b_all : bool; b_stop : bool; b_panic : bool;
                        b_atts : list (N * attempt) }.
(* pl: the placement's answer (one list per partition, a refusal, or a panic), the same for every partition
   visited since nothing is written before the round stops *)
Inductive mplacement := MPErr | MPPanic | MPLists (ls : list (list N)).
Definition mplace (p : mplacement) (pid : N) : placement :=
  match p with
  | MPErr => PErr
  | MPPanic => PPanic
  | MPLists ls => match nth_error ls (N.to_nat pid) with Some l => PList l | None => PErr end
  end.
Definition balance_one (p : mplacement) (a : bacc) (pid : N) : bacc :=
  if b_stop a then a else
  match aget pid (m_parts (b_m a)) with
  | None => a
  | Some sl =>
      let '(s', b, w) := rebalance (view (m_g (b_m a)) sl) (mplace p pid) in
      let m' := writeback (b_m a) pid s' in
      match b with
      | BPanic => mkBacc m' (b_moved a) false true true (b_atts a ++ tag pid w)
      | BRet mv al st =>
          let stop := st || (0 <? len w) in
          mkBacc m' (b_moved a || mv) (if stop then false else b_all a && al) stop false (b_atts a ++ tag pid w)
      end
  end.
Definition balance_round (m : mst) (order : list N) (p : mplacement) : mst * ret * list (N * attempt) :=
  if 1 <? r_mode (s_reg (m_g m)) then (m, RPair false false, [])
  else
    let a := fold_left (balance_one p) order (mkBacc m false true false false []) in
    (b_m a, if b_panic a then RPanic else RPair (b_moved a) (b_all a), b_atts a).

(* ---------- processRemovingNodes over all partitions (one node being removed; closed monitor) ---------- *)
Definition pending_somewhere (m : mst) (nid : N) : bool :=
  existsb (fun e => ahas nid (removings (p_info (snd e))) || negb (all_ready (p_ans (snd e)) (p_info (snd e)))) (m_parts m).
Definition set_rmnodes (g : st) (rm : list (N * rmstate)) : st :=
  mkSt (s_replica g) (s_reg g) (s_ans g) (s_nodes g) (s_nepoch g) (s_stable g) (s_unstable g) (s_auto g) (s_waiting g)
       rm (s_now g) (s_lnodes g) (s_lstart g) (s_upgrading g).
Definition process_round (m : mst) (order : list N) (p : mplacement) : mst * bool * list (N * attempt) :=
  match s_rmnodes (m_g m) with
  | [] => (m, false, [])
  | (nid, _) :: _ =>
      if 1 <? r_mode (s_reg (m_g m)) then (m, false, [])
      else if pending_somewhere m nid then
        (mkM (set_rmnodes (m_g m) (rm_set nid RPending (s_rmnodes (m_g m)))) (m_parts m), false, [])
      else
        (* the first partition, in iteration order, that has a replica on the node; any partition if none has *)
        let holds pid := match aget pid (m_parts m) with
                         | Some sl => mem nid (raft_nodes (p_info sl)) | None => false end in
        let target := match find holds order with Some pid => Some pid | None => hd_error order end in
        match target with
        | None => (m, false, [])
        | Some pid => on_part m pid false (fun s => process_removing s (mplace p pid))
        end
  end.

(* ---------- doCheckNamespacesForLearner over all partitions ---------- *)
Definition learner_one (a : mst * list (N * attempt)) (pid : N) : mst * list (N * attempt) :=
  match aget pid (m_parts (fst a)) with
  | None => a
  | Some sl =>
      let s := view (m_g (fst a)) sl in
      let '(r, w) := learner_check s in
      (writeback (fst a) pid (upd_reg s r), snd a ++ tag pid w)
  end.
(* with the start key "false" the driver calls cleanAllLearners: partitions in index order (not map order), and it
   gives up at the first failed update *)
Definition learner_clean_one (acc : mst * list (N * attempt) * bool) (pid : N) : mst * list (N * attempt) * bool :=
  let '(m0, w0, stop) := acc in
  if stop then acc
  else let '(m1, w1) := learner_one (m0, []) pid in
       (m1, w0 ++ w1, existsb (fun pa => negb (a_ok (snd pa))) w1).
Definition learner_round (m : mst) (order : list N) : mst * list (N * attempt) :=
  if 0 <? r_mode (s_reg (m_g m)) then (m, [])
  else match s_lstart (m_g m) with
  | Some false => fst (fold_left learner_clean_one (map fst (m_parts m)) (m, [], false))
  | _ => fold_left learner_one order (m, [])
  end.

(* ---------- events ---------- *)
Inductive mevent :=
  | MGlobal (e : event)                 (* an event that does not look at any partition: ENodes, ETick, EFail, EAuto,
                                           EMarkNode, EReplica, EUpgrade, ERegMode, ELStart *)
  | MOn (pid : N) (e : event)           (* a single-partition event on partition pid (answers, single check, bare calls,
                                           bare learner calls) *)
  | MCheckAll (full : bool) (order : list N) (ps : list probe)
  | MBalance (order : list N) (p : mplacement)
  | MProcess (order : list N) (p : mplacement)
  | MLCheck (order : list N).

Definition mstep (m : mst) (e : mevent) : mst * ret * list (N * attempt) :=
  match e with
  | MGlobal e =>
      if is_global e then let '(g', r, _) := step (m_g m) e in (mkM g' (m_parts m), r, [])
      else (m, RNone, [])
  | MOn pid e => if is_global e then (m, RNone, []) else on_part m pid RNone (fun s => step s e)
  | MCheckAll full order ps =>
      let '(m', p, w) := check_round m full order ps in (m', if p then RPanic else RNone, w)
  | MBalance order p => balance_round m order p
  | MProcess order p =>
      let '(m', pn, w) := process_round m order p in (m', if pn then RPanic else RNone, w)
  | MLCheck order => let '(m', w) := learner_round m order in (m', RNone, w)
  end.

Definition mrun_step (acc : mst * list (N * (N * attempt))) (e : mevent) : mst * list (N * (N * attempt)) :=
  let '(m', _, w) := mstep (fst acc) e in
  (m', snd acc ++ map (fun pa => (s_replica (m_g (fst acc)), pa)) w).
Definition mrun (m : mst) (evs : list mevent) : mst * list (N * (N * attempt)) := fold_left mrun_step evs (m, []).

Definition minit (replica : N) (parts : list (N * rinfo)) (auto : bool) : mst :=
  mkM (init_state replica empty_info auto)
      (map (fun e => (fst e, mkSlot (set_epoch (snd e) 1) None [])) parts).
